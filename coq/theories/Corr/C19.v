(** Correspondence cases for C19: one case = one history of Insert / Remove / Select on the real
    PriorityNonceMempool[int64], with what the implementation returned at every step; [check] re-runs
    the model on the same history and compares step by step. *)
From Coq Require Import List ZArith Bool String.
From Paloma Require Import Base.Corr Mempool.PriorityNonce Mempool.PriorityNonceApi.
From Paloma Require Gen.C19.
Import ListNotations.
Open Scope Z_scope.

Inductive cop :=
| CInsert (s n : Z) (urls : list string) (ante : Z) (prio : Z)   (* prio: what the real GetTxPriority returned *)
| CInsertM (signers : list (Z * Z)) (urls : list string) (ante : Z) (prio : Z)  (* several signers: keyed by the first *)
| CRemove (s n : Z) (ok : bool)                                  (* ok: Remove returned nil *)
| CSelect (out : list (Z * Z)) (panicked : bool).                (* (sender, nonce) sequence of Select(..).Next() *)

(** every op carries CountTx() observed after it.
    CClass: a type URL of the application's interface registry (or a near-miss), the class the property
    assigns it (harness, from the Go package of the message type), the CheckTx priority used and the
    priority the real GetTxPriority returned for a single-message transaction of it. *)
Inductive yield := YDone | YPanic | YTx (s n : Z).

(** the whole API under a configuration, with one open iterator advanced one Next() at a time *)
Inductive acop :=
| XInsert (signers : list (Z * Z)) (urls : list string) (ante prio : Z) (res : ires)
| XRemove (s n : Z) (ok : bool)
| XOpen (y : yield)                       (* Select(..): where the new iterator stands *)
| XNext (y : yield)                       (* Next() on the open iterator *)
| XNextSender (s : Z) (r : nres)          (* NextSenderTx *)
| XIsEmpty (b : bool)                     (* IsEmpty(..) == nil *)
| XOnReadCalls (k : Z).                   (* how often the OnRead callback has run so far *)

(** the application (real baseapp + ante chain + the installed pool), through ABCI; a transaction is its
    signer list [(account, sequence)] in signature order — the pool keys it by the first *)
Inductive pop :=
| PCheck (signers : list (Z * Z)) (urls : list string) (prio : Z) (ok : bool)   (* CheckTx (new) *)
| PRecheck (signers : list (Z * Z)) (ok : bool)                                 (* CheckTx (re-check) *)
| PPrepare (out : list (Z * Z))                                                 (* PrepareProposal: first signers of the proposal *)
| PBlock (txs : list (list (Z * Z))) (oks : list bool)                          (* FinalizeBlock (ante outcome per tx) + Commit *)
| PSelect (out : list (Z * Z)).                                                 (* Select on app.Mempool() *)

(** rule: 0 = no TxReplacement, 1 = new >= old, 2 = new > old, 3 = never *)
Inductive case :=
| CHist (ops : list (cop * Z))
| CClass (url : string) (cls : option nat) (ante prio : Z)
| CApi (max_tx rule : Z) (ops : list (acop * Z))
| CApp (init_seqs : list (Z * Z)) (ops : list (pop * Z)).

Definition opt_nat_eqb (a b : option nat) : bool :=
  match a, b with Some x, Some y => Nat.eqb x y | None, None => true | _, _ => false end.

Definition sn_list_eqb := list_eqb sn_eqb.

Definition cstep (acc : option state) (oc : cop * Z) : option state :=
  match acc with
  | None => None
  | Some st =>
    let '(o, cnt) := oc in
    let r :=
      match o with
      | CInsert s n urls ante prio =>
          if tx_priority urls ante =? prio then Some (insert s n prio st) else None
      | CInsertM signers urls ante prio =>
          match signers with
          | (s, n) :: _ => if tx_priority urls ante =? prio then Some (insert s n prio st) else None
          | [] => None
          end
      | CRemove s n ok =>
          let '(st', ok') := remove s n st in if Bool.eqb ok ok' then Some st' else None
      | CSelect out pn =>
          let '(st', (o', pn')) := select_op st in
          (* the one-Next()-at-a-time iterator iterated to the end is the same sequence *)
          let '(st2, r2) := it_open st in
          let '(o2, pn2) := collect (S (List.length out)) st2 r2 in
          if sn_list_eqb (map tx_sn o') out && Bool.eqb pn pn' && sn_list_eqb o2 out && Bool.eqb pn2 pn then Some st' else None
      end in
    match r with
    | Some st' => if count st' =? cnt then Some st' else None
    | None => None
    end
  end.

Definition ires_eqb (a b : ires) : bool :=
  match a, b with IOk, IOk | IErrCap, IErrCap | INoop, INoop | IErrRule, IErrRule => true | _, _ => false end.
Definition nres_eqb (a b : nres) : bool :=
  match a, b with NNil, NNil | NPanic, NPanic => true | NTx x, NTx y => x =? y | _, _ => false end.
Definition yield_matches (r : sres) (y : yield) : bool :=
  match r, y with
  | SDone, YDone | SPanic, YPanic => true
  | SAt it, YTx s n => sn_eqb (it_tx it) (s, n)
  | _, _ => false
  end.
Definition rule_of (r : Z) : option (Z -> Z -> bool) :=
  if r =? 1 then Some (fun o n => o <=? n)
  else if r =? 2 then Some (fun o n => o <? n)
  else if r =? 3 then Some (fun _ _ => false)
  else None.

Definition xstep (c : cfg) (acc : option astate) (oc : acop * Z) : option astate :=
  match acc with
  | None => None
  | Some a =>
    let '(o, cnt) := oc in
    let r :=
      match o with
      | XInsert signers urls ante prio res =>
          match signers with
          | (s, n) :: _ =>
              if (tx_priority urls ante =? prio) && ires_eqb (snd (insert_cfg c s n prio (a_st a))) res
              then Some (astep c a (AInsert s n prio)) else None
          | [] => None
          end
      | XRemove s n ok =>
          if Bool.eqb (snd (remove s n (a_st a))) ok then Some (astep c a (ARemove s n)) else None
      | XOpen y => let a' := astep c a AOpen in if yield_matches (a_it a') y then Some a' else None
      | XNext y => let a' := astep c a ANext in if yield_matches (a_it a') y then Some a' else None
      | XNextSender s r => if nres_eqb (next_sender_tx s (a_st a)) r then Some a else None
      | XIsEmpty b => if Bool.eqb (is_empty (a_st a)) b then Some a else None
      | XOnReadCalls k => if (k =? 0) || negb (match Gen.C19.on_read_uses with [] => true | _ => false end) then Some a else None
      end in
    match r with
    | Some a' => if count (a_st a') =? cnt then Some a' else None
    | None => None
    end
  end.

(** *** the application model: sequence numbers of the check state and of the committed state, the pool,
    the signer lists of the pending transactions *)
Record appst := mkApp { p_chk : list (Z * Z); p_com : list (Z * Z); p_st : state; p_sigs : list ((Z * Z) * list (Z * Z)) }.

(** ante: every signer's sequence equals the account's; then every one is incremented *)
Definition seqs_match (m : list (Z * Z)) (signers : list (Z * Z)) : bool :=
  forallb (fun x => snd x =? seq_get (fst x) m) signers.
Definition bump (m : list (Z * Z)) (signers : list (Z * Z)) : list (Z * Z) :=
  fold_left (fun m x => aset Z.eqb (fst x) (snd x + 1) m) signers m.
Definition sigs_get (k : Z * Z) (m : list ((Z * Z) * list (Z * Z))) : list (Z * Z) :=
  match aget sn_eqb k m with Some l => l | None => [k] end.

(** baseapp.DefaultProposalHandler.PrepareProposalHandler over the Select order: a transaction one of whose
    signers was already selected with a sequence that is not the predecessor is skipped; the others are
    verified against the proposal state (ante on the committed state plus what was selected): selected or
    collected as invalid (removed from the pool after the loop) *)
Fixpoint prep_loop (sigs : list ((Z * Z) * list (Z * Z))) (sel : list (Z * Z)) (seen prep : list (Z * Z))
  : list (Z * Z) * list (Z * Z) :=
  match sel with
  | [] => ([], [])
  | k :: r =>
    let signers := sigs_get k sigs in
    let should := forallb (fun x => match aget Z.eqb (fst x) seen with None => true | Some q => q + 1 =? snd x end) signers in
    if negb should then prep_loop sigs r seen prep
    else if seqs_match prep signers
         then let '(o, i) := prep_loop sigs r (fold_left (fun m x => aset Z.eqb (fst x) (snd x) m) signers seen) (bump prep signers) in (k :: o, i)
         else let '(o, i) := prep_loop sigs r seen prep in (o, k :: i)
  end.

Definition block_step (acc : appst * list bool) (signers : list (Z * Z)) : appst * list bool :=
  let '(a, oks) := acc in
  match signers with
  | [] => (a, oks ++ [false])
  | (s, n) :: _ =>
    if seqs_match (p_com a) signers
    then (mkApp (p_chk a) (bump (p_com a) signers) (fst (remove s n (p_st a))) (adel sn_eqb (s, n) (p_sigs a)), oks ++ [true])
    else (a, oks ++ [false])
  end.

Definition bool_list_eqb := list_eqb Bool.eqb.

Definition pstep (acc : option appst) (oc : pop * Z) : option appst :=
  match acc with
  | None => None
  | Some a =>
    let '(o, cnt) := oc in
    let r :=
      match o with
      | PCheck signers urls prio ok =>
          match signers with
          | (s, n) :: _ =>
            if (tx_priority urls Gen.C19.app_check_tx_priority =? prio) && Bool.eqb (seqs_match (p_chk a) signers) ok
            then Some (if ok then mkApp (bump (p_chk a) signers) (p_com a) (insert s n prio (p_st a)) (aset sn_eqb (s, n) signers (p_sigs a))
                       else a)
            else None
          | [] => None
          end
      | PRecheck signers ok =>
          match signers with
          | (s, n) :: _ =>
            if Bool.eqb (seqs_match (p_chk a) signers) ok
            then Some (if ok then mkApp (bump (p_chk a) signers) (p_com a) (p_st a) (p_sigs a)
                       else mkApp (p_chk a) (p_com a) (fst (remove s n (p_st a))) (adel sn_eqb (s, n) (p_sigs a)))
            else None
          | [] => None
          end
      | PPrepare out =>
          let '(st1, (sel, pn)) := select_op (p_st a) in
          let '(o', inv) := prep_loop (p_sigs a) (map tx_sn sel) [] (p_com a) in
          if negb pn && sn_list_eqb o' out
          then Some (mkApp (p_chk a) (p_com a) (fold_left (fun st k => fst (remove (fst k) (snd k) st)) inv st1)
                           (fold_left (fun m k => adel sn_eqb k m) inv (p_sigs a)))
          else None
      | PBlock txs oks =>
          let '(a', oks') := fold_left block_step txs (a, []) in
          if bool_list_eqb oks' oks then Some (mkApp (p_com a') (p_com a') (p_st a') (p_sigs a')) else None
      | PSelect out =>
          let '(st1, (sel, pn)) := select_op (p_st a) in
          if negb pn && sn_list_eqb (map tx_sn sel) out then Some (mkApp (p_chk a) (p_com a) st1 (p_sigs a)) else None
      end in
    match r with
    | Some a' => if count (p_st a') =? cnt then Some a' else None
    | None => None
    end
  end.

Definition check (c : case) : bool :=
  match c with
  | CHist ops => match fold_left cstep ops (Some init) with Some _ => true | None => false end
  | CClass url cls ante prio => opt_nat_eqb (tx_class [url]) cls && (tx_priority [url] ante =? prio)
  | CApi mx rl ops => match fold_left (xstep (mkCfg mx (rule_of rl))) ops (Some ainit) with Some _ => true | None => false end
  | CApp seqs ops => match fold_left pstep ops (Some (mkApp seqs seqs init [])) with Some _ => true | None => false end
  end.
