(** Correspondence cases for C19: one case = one history of Insert / Remove / Select on the real
    PriorityNonceMempool[int64], with what the implementation returned at every step; [check] re-runs
    the model on the same history and compares step by step. *)
From Coq Require Import List ZArith Bool String.
From Paloma Require Import Base.Corr Mempool.PriorityNonce.
From Paloma Require Gen.C19.
Import ListNotations.
Open Scope Z_scope.

Inductive cop :=
| CInsert (s n : Z) (urls : list string) (ante : Z) (prio : Z)   (* prio: what the real GetTxPriority returned *)
| CInsertM (signers : list (Z * Z)) (urls : list string) (ante : Z) (prio : Z)  (* several signers: keyed by the first *)
| CRemove (s n : Z) (ok : bool)                                  (* ok: Remove returned nil *)
| CSelect (out : list (Z * Z)) (panicked : bool).                (* (sender, nonce) sequence of Select(..).Next() *)

(** every op carries CountTx() observed after it.
    CClass: a type URL of the application's interface registry (or a near-miss), the class the property
    assigns it (harness, from the Go package of the message type), the CheckTx priority used and the
    priority the real GetTxPriority returned for a single-message transaction of it. *)
Inductive case :=
| CHist (ops : list (cop * Z))
| CClass (url : string) (cls : option nat) (ante prio : Z).

Definition opt_nat_eqb (a b : option nat) : bool :=
  match a, b with Some x, Some y => Nat.eqb x y | None, None => true | _, _ => false end.

Definition sn_list_eqb := list_eqb sn_eqb.

Definition cstep (acc : option state) (oc : cop * Z) : option state :=
  match acc with
  | None => None
  | Some st =>
    let '(o, cnt) := oc in
    let r :=
      match o with
      | CInsert s n urls ante prio =>
          if tx_priority urls ante =? prio then Some (insert s n prio st) else None
      | CInsertM signers urls ante prio =>
          match signers with
          | (s, n) :: _ => if tx_priority urls ante =? prio then Some (insert s n prio st) else None
          | [] => None
          end
      | CRemove s n ok =>
          let '(st', ok') := remove s n st in if Bool.eqb ok ok' then Some st' else None
      | CSelect out pn =>
          let '(st', (o', pn')) := select_op st in
          if sn_list_eqb (map tx_sn o') out && Bool.eqb pn pn' then Some st' else None
      end in
    match r with
    | Some st' => if count st' =? cnt then Some st' else None
    | None => None
    end
  end.

Definition check (c : case) : bool :=
  match c with
  | CHist ops => match fold_left cstep ops (Some init) with Some _ => true | None => false end
  | CClass url cls ante prio => opt_nat_eqb (tx_class [url]) cls && (tx_priority [url] ante =? prio)
  end.
