(** C17 correspondence: re-run the scheduler model on the histories the harness drove through the
    real scheduler keeper / msg server (behind ValidateBasic and the ante decorator) / wasm bindings
    (behind the libwasm router) + EVM keeper + consensus queue, and compare the projected
    observables step by step: outcome class, the LIVE content of the turnstone queues (which
    messages disappeared, which are new: valset update with chain, turnstone id, valset id | logic
    call with chain, turnstone id, contract, abi, payload, sender, contract address, MEV flag,
    assignee), the ids in the job store, and at the end the whole job store. *)
From Coq Require Import List ZArith Bool Ascii String.
From Paloma Require Import Base.Corr Scheduler.Jobs.
Import ListNotations.
Open Scope Z_scope.

(** Compact literals for the cases files (parsing a Coq string is much cheaper than a list of
    numbers): [bs "text"] = the bytes of a printable-ASCII text, [hx "6162"] = the bytes written
    in hex (two digits per byte, as printed by Go's %x). *)
Fixpoint bs (s : string) : bytes :=
  match s with
  | EmptyString => []
  | String a r => Z.of_N (N_of_ascii a) :: bs r
  end.
Definition hx (s : string) : bytes := hex_pairs_lenient (bs s).

Fixpoint assoc {A} (tab : list (bytes * A)) (k : bytes) : option A :=
  match tab with
  | [] => None
  | (k', v) :: r => if bytes_eqb k' k then Some v else assoc r k
  end.

(** Go's json.Unmarshal as observed by the harness on every document of the history *)
Definition dec_of {A} (tab : list (bytes * option A)) (k : bytes) : option A :=
  match assoc tab k with Some v => v | None => None end.

Definition obytes_eqb := option_eqb bytes_eqb.

(** The queue stores the message as protobuf: an empty non-nil address is read back as nil, so the
    observation cannot tell them apart. *)
Definition norm_addr (o : option bytes) : option bytes := match o with Some [] => None | _ => o end.
Definition addr_eqb (a b : option bytes) : bool := obytes_eqb (norm_addr a) (norm_addr b).

Definition call_eqb (a b : call) : bool :=
  bytes_eqb (c_chain a) (c_chain b) && bytes_eqb (c_turnstone a) (c_turnstone b) &&
  bytes_eqb (c_contract a) (c_contract b) && bytes_eqb (c_abi a) (c_abi b) &&
  bytes_eqb (c_payload a) (c_payload b) && addr_eqb (c_sender a) (c_sender b) &&
  addr_eqb (c_contractaddr a) (c_contractaddr b) && Bool.eqb (c_mev a) (c_mev b) &&
  (c_assignee a =? c_assignee b).

Definition qmsg_eqb (a b : qmsg) : bool :=
  match a, b with
  | QValset x t v, QValset y u w => bytes_eqb x y && bytes_eqb t u && (v =? w)
  | QCall x, QCall y => call_eqb x y
  | _, _ => false
  end.

Inductive case :=
| Hist (chs : list (bytes * bytes))
       (ptab : list (bytes * option bytes))
       (dtab : list (bytes * option (bytes * bytes)))
       (steps : list (op * result * list Z * list qmsg * list bytes))
       (final : list job)
| Inject (sender payload : bytes) (out : option bytes)      (* injectSenderIntoPayload *)
| FromHex (s : bytes) (lenient : bytes) (strict : option bytes) (* common.FromHex / validateHexPayload *)
| Wrap (raw wrapped : bytes).                               (* the binding's {"hexPayload":"…"} *)

(** the queue without the messages at the given (0-based, increasing) positions *)
Fixpoint remove_at (i : Z) (rem : list Z) (q : list qmsg) : list qmsg :=
  match q with
  | [] => []
  | m :: r =>
      match rem with
      | k :: rem' => if k =? i then remove_at (i + 1) rem' r else m :: remove_at (i + 1) rem r
      | [] => q
      end
  end.

(** one step = (request with the environment's answers, observed outcome, positions of the queue
    messages that disappeared, new queue messages in id order, ids in the job store afterwards) *)
Fixpoint replay (dd : bytes -> option (bytes * bytes)) (dp : bytes -> option bytes)
         (s : state) (steps : list (op * result * list Z * list qmsg * list bytes)) : option state :=
  match steps with
  | [] => Some s
  | (o, r, rem, new, ids) :: rest =>
      let (s', r') := step_res dd dp s o in
      if result_eqb r r' && list_eqb qmsg_eqb (queue s') (remove_at 0 rem (queue s) ++ new)
         && list_eqb bytes_eqb (map j_id (jobs s')) ids
      then replay dd dp s' rest else None
  end.

Definition check (c : case) : bool :=
  match c with
  | Hist chs ptab dtab steps final =>
      match replay (dec_of dtab) (dec_of ptab) (init chs) steps with
      | Some s => list_eqb job_eqb (jobs s) final
      | None => false
      end
  | Inject sender payload out =>
      obytes_eqb (match pad32 sender with Some sfx => Some (payload ++ sfx) | None => None end) out
  | FromHex s len str =>
      bytes_eqb (from_hex_lenient s) len && obytes_eqb (from_hex s) str
  | Wrap raw w => bytes_eqb (wasm_wrap raw) w
  end.
