(** Correspondence cases for C08.  Every case carries what one of the twin processes observed on
    the real code; [check] evaluates the model — under the recorded environment for the status
    update, and under two different iteration orders (as listed, and reversed, both loops
    independently) for the map-consuming functions — and compares. *)
From Coq Require Import List ZArith Bool String.
From Paloma Require Import Base.Corr Base.Dec Evm.Assign Cons.Quorum Sys.Ambient Sys.NodeLocal.
Import ListNotations.
Open Scope Z_scope.

Inductive case :=
| CStatus (flag creator_ok : bool) (level got : Z)
    (* got: 0 ok, 1 creator error, 2 level error, 3 panic *)
| CRank (rows : list (Z * Z * Z * Z * Z * Z)) (w : Z * Z * Z * Z * Z) (got : list (Z * Z))
    (* rows: (address number in string order, fee, uptime, success, exec, feature) raw LegacyDec; got: (address, score) best first *)
| CPurge (before : list (Z * Z)) (ups : list (Z * Z)) (after : list (Z * Z))
    (* metrix history store projected to (validator number in key order, number of records) *)
| CAnyMissing (keys present : list Z) (got : bool)
| CSortedMissing (keys present : list Z) (got : list Z)
| CJailMissing (vals : list (Z * Z * bool)) (rounds : list (list Z)) (got : list Z)
| CEvidence (powers : list (Z * Z)) (subs : list (Z * Z * Z)) (got : Z * Z * Z)
    (* submissions (validator, proof kind, variant) stored with the real AddEvidence in that order, tallied by the real
       VerifyEvidence; got = (1, kind, variant) of the winner, or (0, 0, 0) when the tally returns an error *)
| CVestEnd (t months start stop : Z).
    (* MsgRegisterLightNodeClient at block time t (UTC seconds) consuming a licence with [months] vesting months:
       StartTime / EndTime of the continuous vesting account found in the auth store afterwards *)
    (* consensus PruneOldMessages observed on a branch of a full-application state: vals = (validator number,
       consensus power, jailed) before; rounds = per stale contentious message that reaches the jailing loop, the
       validators without evidence in snapshot order; got = validator numbers jailed afterwards, ascending *)

Definition amb_env (flag : bool) (rev_order : bool) : Ambient :=
  {| env := fun n => if flag then (if String.eqb n ff_name then Some ""%string else None) else None;
     wallclock := 0; gomaxprocs := 1; tz := fun _ => if rev_order then 32400 else 0;
     ord_infos := fun l => if rev_order then rev l else l;
     ord_groups := fun l => if rev_order then rev l else l;
     ord_updates := fun l => if rev_order then rev l else l;
     ord_keys := fun l => if rev_order then rev l else l |}.

Definition status_code (r : status_result) : Z :=
  match r with StOk => 0 | StErrCreator => 1 | StErrLevel => 2 | StPanic => 3 end.

Definition mk_info (t : Z * Z * Z * Z * Z * Z) : vinfo :=
  let '(a, f, u, s, e, ft) := t in
  {| i_addr := a; i_fee := f; i_uptime := u; i_success := s; i_exec := e; i_feature := ft |}.
Definition mk_w (t : Z * Z * Z * Z * Z) : weights :=
  let '(f, u, s, e, ft) := t in {| w_fee := f; w_uptime := u; w_success := s; w_exec := e; w_feature := ft |}.

Definition zz_eqb (p q : Z * Z) : bool := (fst p =? fst q) && (snd p =? snd q).

Definition check (c : case) : bool :=
  match c with
  | CStatus flag cok level got =>
      (status_code (add_status_update (amb_env flag false) {| sm_creator_ok := cok; sm_level := level |}) =? got)
  | CRank rows w got =>
      list_eqb zz_eqb (rank_amb (amb_env false false) (map mk_info rows) (mk_w w)) got &&
      list_eqb zz_eqb (rank_amb (amb_env false true) (map mk_info rows) (mk_w w)) got
  | CPurge before ups after =>
      list_eqb zz_eqb (purge_amb (amb_env false false) ups before) after &&
      list_eqb zz_eqb (purge_amb (amb_env false true) ups before) after
  | CAnyMissing keys present got =>
      Bool.eqb (any_missing_amb (amb_env false false) keys present) got &&
      Bool.eqb (any_missing_amb (amb_env false true) keys present) got
  | CSortedMissing keys present got =>
      list_eqb Z.eqb (sorted_missing_amb (amb_env false false) keys present) got &&
      list_eqb Z.eqb (sorted_missing_amb (amb_env false true) keys present) got
  | CJailMissing vals rounds got =>
      list_eqb Z.eqb (jailed_ids (jail_rounds vals rounds)) got
  | CEvidence powers subs got =>
      let sn := {| sn_vals := powers; sn_total := Base.Num.zsum (map snd powers) |} in
      let evs := fold_left add_evidence
                   (map (fun s => let '(v, k, d) := s in {| ev_val := v; ev_tag := k; ev_data := d; ev_bad := false |}) subs) [] in
      let code (o : outcome) := match o with Winner e => (1, ev_tag e, ev_data e) | _ => (0, 0, 0) end in
      let same (x y : Z * Z * Z) := let '(a, b, c) := x in let '(a', b', c') := y in (a =? a') && (b =? b') && (c =? c') in
      same (code (verify_evidence Z.eqb (fun t d => t * 1000 + d) (ord_groups (amb_env false false)) sn evs)) got &&
      same (code (verify_evidence Z.eqb (fun t d => t * 1000 + d) (ord_groups (amb_env false true)) sn evs)) got
  | CVestEnd t months start stop =>
      match snd (step_amb (amb_env false false) {| st_cache := cache0; st_kv := [] |} (TxVest t months)),
            snd (step_amb (amb_env true true) {| st_cache := cache0; st_kv := [] |} (TxVest t months)) with
      | RVest s1 e1, RVest s2 e2 => (s1 =? start) && (e1 =? stop) && (s2 =? start) && (e2 =? stop)
      | _, _ => false
      end
  end.
