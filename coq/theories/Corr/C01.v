(** Correspondence cases for C01: the harness drives the real msg server / keeper / end-blocker on a
    history (with injected collaborator faults) and records the projected observables after every
    step; [check] re-runs the model (Skyway/Bridge.v) on the same history and compares step by step:
    outcome, pool (in store order), batches (in store order, with timeout, gas estimate and
    transfers), every user balance, escrow, supply delta and community-pool delta per denom. *)
From Coq Require Import List ZArith Bool.
From Paloma Require Import Base.Corr Skyway.Bridge.
Import ListNotations.
Open Scope Z_scope.

Definition txobs := (Z * Z * Z * Z * Z * Z)%type.          (* id, sender, chain, contract, amount, tax *)
Definition batchobs := (Z * Z * Z * Z * Z * list txobs)%type. (* nonce, chain, contract, timeout, gas, transfers *)

Record obs := {
  o_ok : bool;
  o_pool : list txobs;
  o_batches : list batchobs;
  o_bals : list Z;      (* user-major: users 0..2 x denoms 0..2 *)
  o_escrow : list Z;
  o_supply : list Z;    (* current - initial *)
  o_comm : list Z       (* current - initial *)
}.

(** round 2: a step may carry probes — other operations (the same operation under every fault
    point, as an error and as a panic) run from the step's PRE-state on a branch of the real store
    that is discarded; [PSame ok]: the probe reported [ok] and left every observable as it was.
    Bulk steps of long histories (more than 100 sends for one token) record only the outcome. *)
Inductive pobs := PSame (ok : bool) | PObs (o : obs).
Inductive mobs := MFull (o : obs) | MOk (ok : bool).
Definition pstep := (op * mobs * list (op * pobs))%type.

Inductive case :=
| CHist (tb : list (Z * Z * Z)) (bals0 : list Z) (steps : list (op * obs))
| CHistP (tb : list (Z * Z * Z)) (bals0 : list Z) (steps : list pstep).

Definition users : list Z := [0; 1; 2].
Definition denoms : list Z := [0; 1; 2].

Definition tx_obs (t : transfer) : txobs := (t_id t, t_sender t, t_chain t, t_contract t, t_amount t, t_tax t).
Definition tx_eqb (a b : txobs) : bool :=
  let '(a1, a2, a3, a4, a5, a6) := a in let '(b1, b2, b3, b4, b5, b6) := b in
  (a1 =? b1) && (a2 =? b2) && (a3 =? b3) && (a4 =? b4) && (a5 =? b5) && (a6 =? b6).
Definition batch_obs (b : batch) : batchobs :=
  (b_nonce b, b_chain b, b_contract b, b_timeout b, b_gas b, map tx_obs (b_txs b)).
Definition batch_eqb (a b : batchobs) : bool :=
  let '(a1, a2, a3, a4, a5, l1) := a in let '(b1, b2, b3, b4, b5, l2) := b in
  (a1 =? b1) && (a2 =? b2) && (a3 =? b3) && (a4 =? b4) && (a5 =? b5) && list_eqb tx_eqb l1 l2.

Definition step_ok (s : state) (out : outcome) (ob : obs) : bool :=
  Bool.eqb (match out with Ok => true | Err => false end) (o_ok ob)
  && list_eqb tx_eqb (map tx_obs (pool s)) (o_pool ob)
  && list_eqb batch_eqb (map batch_obs (batches s)) (o_batches ob)
  && list_eqb Z.eqb (flat_map (fun u => map (fun d => bal s u d) denoms) users) (o_bals ob)
  && list_eqb Z.eqb (map (escrow s) denoms) (o_escrow ob)
  && list_eqb Z.eqb (map (supply s) denoms) (o_supply ob)
  && list_eqb Z.eqb (map (comm s) denoms) (o_comm ob).

Fixpoint replay (s : state) (steps : list (op * obs)) : bool :=
  match steps with
  | [] => true
  | (o, ob) :: r => let (s', out) := step s o in step_ok s' out ob && replay s' r
  end.

Definition out_eqb (out : outcome) (ok : bool) : bool := Bool.eqb (match out with Ok => true | Err => false end) ok.

(** every observable of [s'] equals that of [s] *)
Definition same_obs (s s' : state) : bool :=
  list_eqb tx_eqb (map tx_obs (pool s')) (map tx_obs (pool s))
  && list_eqb batch_eqb (map batch_obs (batches s')) (map batch_obs (batches s))
  && list_eqb Z.eqb (flat_map (fun u => map (fun d => bal s' u d) denoms) users) (flat_map (fun u => map (fun d => bal s u d) denoms) users)
  && list_eqb Z.eqb (map (escrow s') denoms) (map (escrow s) denoms)
  && list_eqb Z.eqb (map (supply s') denoms) (map (supply s) denoms)
  && list_eqb Z.eqb (map (comm s') denoms) (map (comm s) denoms).

Definition probe_ok (s : state) (p : op * pobs) : bool :=
  let (o, ob) := p in
  let (s', out) := step s o in
  match ob with
  | PSame ok => out_eqb out ok && same_obs s s'
  | PObs ob => step_ok s' out ob
  end.

(** model-internal cross-check on every sampled state: the round-1 end-block operation and the
    whole end-blocker with nothing to tally, nothing to price and no panic are the same thing *)
Definition eb_consistent (s : state) (o : op) : bool :=
  match o with
  | OEndBlock h now f => same_obs (fst (step s o)) (fst (step s (OEndBlockFull h now [] [] f nofault)))
  | _ => true
  end.

Fixpoint replayP (s : state) (steps : list pstep) : bool :=
  match steps with
  | [] => true
  | (o, ob, probes) :: r =>
      forallb (probe_ok s) probes && eb_consistent s o &&
      (let (s', out) := step s o in
       match ob with MFull ob => step_ok s' out ob | MOk ok => out_eqb out ok end && replayP s' r)
  end.

Definition bal0 (l : list Z) : Z -> Z -> Z :=
  fun u d => if (0 <=? u) && (u <? 3) && (0 <=? d) && (d <? 3) then nth (Z.to_nat (u * 3 + d)) l 0 else 0.

Definition check (c : case) : bool :=
  match c with
  | CHist tb b0 steps => replay (init tb (bal0 b0) (fun _ => 0)) steps
  | CHistP tb b0 steps => replayP (init tb (bal0 b0) (fun _ => 0)) steps
  end.

(** debugging aid (not used by the check): index of the first step whose main observation or one of
    whose probes disagrees, and which *)
Fixpoint first_badP (i : nat) (s : state) (steps : list pstep) : option (nat * nat) :=
  match steps with
  | [] => None
  | (o, ob, probes) :: r =>
      match find (fun ip => negb (probe_ok s (snd ip))) (combine (seq 1 (length probes)) probes) with
      | Some (j, _) => Some (i, j)
      | None =>
          let (s', out) := step s o in
          if match ob with MFull ob => step_ok s' out ob | MOk ok => out_eqb out ok end
          then first_badP (S i) s' r else Some (i, 0%nat)
      end
  end.
Definition first_bad (c : case) : option (nat * nat) :=
  match c with
  | CHist _ _ _ => None
  | CHistP tb b0 steps => first_badP 0 (init tb (bal0 b0) (fun _ => 0)) steps
  end.
