(** Correspondence cases for C18: the harness drives the real x/paloma msg server / keeper and the
    real x/skyway attestation handler (with real x/auth, x/bank, x/feegrant and vesting accounts),
    records after every step the outcome class and a projection of the whole state; [check]
    re-runs the model on the same history and compares step by step. *)
From Coq Require Import List ZArith Bool.
From Paloma Require Import Base.Corr Base.Dec Paloma.LightNode Paloma.LightNodeExt.
Import ListNotations.
Open Scope Z_scope.

Definition err_code (e : err) : Z :=
  match e with
  | EInvalidAddr => 1 | EInvalidParams => 2 | ELicenseExists => 3 | EAccountExists => 4
  | EInvalidCoins => 5 | EInsufficientFunds => 6 | ENoLicense => 7 | ENoAccount => 8 | EVesting => 9
  | EUnauthorized => 10 | ENoFeegranter => 11 | ENoFunder => 12 | EInsufficientBalance => 13
  | ENoContract => 14 | EWrongContract => 15 | EGrantExists => 16 | ENotFound => 17
  | EInjected => 18
  end.
Definition out_code (o : outcome) : Z :=
  match o with Ok => 0 | Err e => err_code e | Panic => -1 end.

Definition b2z (b : bool) : Z := if b then 1 else 0.

Definition obs_acct (s : state) (D : list denom) (a : addr) : list Z :=
  a :: (match acct s a with
        | None => [0; 0; 0; 0; 0]
        | Some Base => [1; 0; 0; 0; 0]
        | Some (Vesting st en o d) => [2; st; en; o; d]
        | Some Module => [3; 0; 0; 0; 0]
        end) ++ map (bal s a) D ++ map (locked s a) D.

Definition obs_lic (s : state) (a : addr) (up : bool) : list (list Z) :=
  match lic_get (lics s) (a, up) with
  | Some l => [[100; a; b2z up; l_denom l; l_amount l; l_months l]]
  | None => []
  end.
Definition obs_client (s : state) (a : addr) (up : bool) : list (list Z) :=
  match clients s (a, up) with
  | Some (act, last) => [[101; a; b2z up; act; last]]
  | None => []
  end.

Definition observe (s : state) (U : list addr) (D : list denom) : list (list Z) :=
  map (obs_acct s D) U
  ++ flat_map (fun a => obs_lic s a false ++ obs_lic s a true) U
  ++ flat_map (fun a => obs_client s a false ++ obs_client s a true) U
  ++ flat_map (fun g => flat_map (fun e => if grants s g e then [[102; g; e]] else []) U) U
  ++ [[103; match feegranter s with Some g => g | None => -1 end]]
  ++ [104 :: match funders s with Some l => Z.of_nat (length l) :: l | None => [-1] end]
  ++ [[105; now s]]
  ++ [106 :: map (gifts s) D]
  ++ [[107; Z.of_nat (length (lics s))]]
  ++ flat_map (fun c => match contracts s c with Some v => [[108; c; v]] | None => [] end) [1; 2; 3].

Definition obs_eqb : list (list Z) -> list (list Z) -> bool := list_eqb (list_eqb Z.eqb).

Fixpoint fund_bal (fund : list (addr * denom * Z)) (a : addr) (d : denom) : Z :=
  match fund with
  | [] => 0
  | (a', d', v) :: r => if (a' =? a) && (d' =? d) then v else fund_bal r a d
  end.

(** initial state of a history: the module account exists and is empty, the funded addresses
    have base accounts (the mint created them) *)
Definition mk_init (t0 : Z) (fund : list (addr * denom * Z)) : state := {|
  now := t0;
  acct := fun a => if a =? escrow then Some Module
                   else if existsb (fun p => fst (fst p) =? a) fund then Some Base else None;
  bal := fund_bal fund; lics := []; clients := fun _ => None; grants := fun _ _ => false;
  feegranter := None; funders := None; contracts := fun _ => None; gifts := fun _ => 0 |}.

(** A step is recorded as the rows of the projection that disappeared and the rows that appeared
    (every row starts with its own key, so the rows of one projection are pairwise different and
    equal differences from equal projections give equal projections).  The full projection of the
    initial state is recorded and compared as it is. *)
Definition row_mem (r : list Z) (l : list (list Z)) : bool := existsb (list_eqb Z.eqb r) l.
Definition rows_minus (a b : list (list Z)) : list (list Z) := filter (fun r => negb (row_mem r b)) a.

(** a raw probe: what the un-wrapped keeper function did on a throw-away branch of the same
    pre-state, with the same fault: outcome, number of collaborator calls made, rows removed / added *)
Definition probe_rec := (Z * Z * list (list Z) * list (list Z))%type.
(* operation, outcome, removed, added, probes *)
Definition step_rec := (hop * Z * list (list Z) * list (list Z) * list probe_rec)%type.

Definition fault_index (x : xop) : Z :=
  match x with XFault n _ _ => n | XSetLegacy n _ => n | _ => 0 end.

Definition probe_ok (s : state) (prev : list (list Z)) (U : list addr) (D : list denom) (h : hop) (p : probe_rec) : bool :=
  let '(pout, pcalls, prem, padd) := p in
  match h with HTx _ => false | HX x =>
  match xraw s x with
  | Some (sr, o, nleft) =>
    let cur := observe sr U D in
    let n := fault_index x in
    let calls := if nleft =? 0 then n else n - nleft in
    (out_code o =? pout) && (calls =? pcalls) && obs_eqb (rows_minus prev cur) prem && obs_eqb (rows_minus cur prev) padd
  | None => false
  end end.

Inductive case :=
| CHist (t0 : Z) (U : list addr) (D : list denom) (fund : list (addr * denom * Z))
        (obs0 : list (list Z)) (steps : list step_rec)
| CBulk (t0 fund : Z) (K : list key) (segs : list (list xop * list Z * list Z))
        (* a campaign of > 100 pending licences: per segment the operations, their outcomes and
           [number of licences; their sum; module balance; client records among K] afterwards *)
| CAddMonths (t k got : Z)                (* time.Unix(t,0).UTC().AddDate(0,k,0).Unix() *)
| CVested (st en orig t got : Z).         (* ContinuousVestingAccount.GetVestedCoins *)

Fixpoint replay (s : state) (prev : list (list Z)) (U : list addr) (D : list denom) (steps : list step_rec) : bool :=
  match steps with
  | [] => true
  | (x, out, removed, added, probes) :: r =>
    let '(s', out') := hstep s x in
    let cur := observe s' U D in
    (out_code out' =? out) && obs_eqb (rows_minus prev cur) removed && obs_eqb (rows_minus cur prev) added
    && forallb (probe_ok s prev U D x) probes
    && replay s' cur U D r
  end.

Definition bulk_summary (s : state) (K : list key) : list Z :=
  [Z.of_nat (length (lics s)); lic_sum bond (lics s); bal s escrow bond;
   Z.of_nat (length (filter (fun k => match clients s k with Some _ => true | None => false end) K))].

Fixpoint bulk_replay (s : state) (K : list key) (segs : list (list xop * list Z * list Z)) : bool :=
  match segs with
  | [] => true
  | (ops, outs, sm) :: r =>
    let s' := xrun s ops in
    list_eqb Z.eqb (map (fun p => out_code (snd p)) (xtrace s ops)) outs
    && list_eqb Z.eqb (bulk_summary s' K) sm
    && bulk_replay s' K r
  end.

Definition check (c : case) : bool :=
  match c with
  | CHist t0 U D fund obs0 steps =>
      obs_eqb (observe (mk_init t0 fund) U D) obs0 && replay (mk_init t0 fund) obs0 U D steps
  | CBulk t0 fund K segs => bulk_replay (mk_init t0 [(1, bond, fund)]) K segs
  | CAddMonths t k got => add_months t k =? got
  | CVested st en orig t got => vested st en orig t =? got
  end.

(** debugging aid: index of the first step that disagrees, with what the model says *)
Fixpoint first_diff (s : state) (prev : list (list Z)) (U : list addr) (D : list denom) (steps : list step_rec) (i : Z)
  : option (Z * Z * list (list Z) * list (list Z) * list (Z * Z * list (list Z) * list (list Z))) :=
  match steps with
  | [] => None
  | (x, out, removed, added, probes) :: r =>
    let '(s', out') := hstep s x in
    let cur := observe s' U D in
    if (out_code out' =? out) && obs_eqb (rows_minus prev cur) removed && obs_eqb (rows_minus cur prev) added
       && forallb (probe_ok s prev U D x) probes
    then first_diff s' cur U D r (i + 1)
    else Some (i, out_code out', rows_minus prev cur, rows_minus cur prev,
               match x with
               | HX x0 =>
                 match xraw s x0 with
                 | Some (sr, o, nleft) => [(out_code o, nleft, rows_minus prev (observe sr U D), rows_minus (observe sr U D) prev)]
                 | None => []
                 end
               | HTx _ => []
               end)
  end.
