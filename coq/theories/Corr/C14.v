(** Correspondence cases for C14: the harness records inputs and what the real keepers returned;
    [check] re-runs the model and compares the projected observables. *)
From Coq Require Import List ZArith Bool.
From Paloma Require Import Base.Corr Base.Dec Evm.Assign Evm.AssignOv Cons.Fees Cons.Relay Cons.RelaySys.
Import ListNotations.
Open Scope Z_scope.

Definition zeqb_opt := option_eqb Z.eqb.

(** ---- LegacyDec primitives ---- *)
Definition dec_op (opc a b : Z) : option Z :=
  match opc with
  | 0 => checked (mul a b)
  | 1 => if b =? 0 then None else checked (quo a b)
  | 2 => checked (mul_int a b)
  | 3 => checked (ceil a)
  | 4 => Some (truncate_int a)
  | 5 => mul_int_ceil_u64 a b
  | 6 => checked (add a b)
  | 7 => checked (sub a b)
  | _ => None
  end.

(** ---- pick ---- *)
Definition mk_ci (t : Z * Z * list Z) : chain_info :=
  let '(c, r, tr) := t in {| ci_chain := c; ci_remote := r; ci_traits := tr |}.
Definition mk_val (t : Z * list (Z * Z * list Z)) : validator :=
  {| v_addr := fst t; v_infos := map mk_ci (snd t) |}.
Definition mk_metric (t : Z * Z * Z * Z * Z) : metric :=
  let '(a, u, s, e, f) := t in {| m_addr := a; m_uptime := u; m_success := s; m_exec := e; m_feature := f |}.
Definition mk_weights (t : Z * Z * Z * Z * Z) : weights :=
  let '(a, u, s, e, f) := t in {| w_fee := a; w_uptime := u; w_success := s; w_exec := e; w_feature := f |}.
Definition mk_vinfo (t : Z * Z * Z * Z * Z * Z) : vinfo :=
  let '(a, fe, u, s, e, f) := t in
  {| i_addr := a; i_fee := fe; i_uptime := u; i_success := s; i_exec := e; i_feature := f |}.

Definition pick_eqb (a b : pick_result) : bool :=
  match a, b with
  | Picked v r, Picked v' r' => (v =? v') && (r =? r')
  | PickErr c, PickErr c' => c =? c'
  | PickPanic, PickPanic => true
  | _, _ => false
  end.

Definition zz_eqb := pair_eqb Z.eqb Z.eqb.
Definition zzz_eqb (a b : Z * Z * Z) : bool := pair_eqb zz_eqb Z.eqb a b.

Definition mk_queued (t : Z * Z * Z) : queued :=
  let '(i, a, r) := t in {| q_id := i; q_assignee := a; q_remote := r; q_payload := 0 |}.
Definition queued_proj (q : queued) : Z * Z * Z := (q_id q, q_assignee q, q_remote q).

Definition enq_code (r : enq_result) : Z :=
  match r with EnqOk id => id | EnqErr c => - c | EnqPanic => -100 end.

(** ---- queue histories ---- *)
Definition fee_obs := option (Z * Z * Z).
(** (id, assignee, elected estimate, has public access data, has error data, fees) *)
Definition qobs := (Z * Z * Z * bool * bool * fee_obs)%type.

Definition fee_proj (f : option fee_triple) : fee_obs :=
  match f with Some t => Some (fee_relayer t, fee_community t, fee_security t) | None => None end.
Definition qmsg_proj (m : qmsg) : qobs :=
  (mid m, massignee m, mest m, mpad m, merr m, fee_proj (mfees m)).
Definition qobs_eqb (a b : qobs) : bool :=
  let '(i, a1, e, p, r, f) := a in
  let '(i', a1', e', p', r', f') := b in
  (i =? i') && (a1 =? a1') && (e =? e') && Bool.eqb p p' && Bool.eqb r r' && option_eqb zzz_eqb f f'.

Definition mk_cfg (t : list (Z * Z) * Z * Z) : config :=
  let '(rf, cf, sf) := t in {| cfg_relayer_fees := rf; cfg_community := cf; cfg_security := sf |}.

Fixpoint zrange (n : nat) : list Z :=
  match n with O => [] | S k => zrange k ++ [Z.of_nat k] end.

Definition offers (s : state) (nv : Z) : list (list Z) :=
  map (fun v => map mid (for_relaying (queue s) v)) (zrange (Z.to_nat nv)).

Fixpoint check_steps (c : config) (nv : Z) (s : state) (steps : list (op * (list qobs * list (list Z)))) : bool :=
  match steps with
  | [] => true
  | (o, (qo, off)) :: r =>
      let s' := step c s o in
      list_eqb qobs_eqb (map qmsg_proj (queue s')) qo
      && list_eqb (list_eqb Z.eqb) (offers s' nv) off
      && check_steps c nv s' r
  end.

(** ---- second round: histories with changing tables, every enqueueing caller, retries ---- *)
Definition raw_tables :=
  (list (Z * list (Z * Z * list Z)) * list (Z * Z * Z * Z * Z) * list (Z * Z) * (Z * Z * Z * Z * Z) * Z * Z * Z)%type.
Definition mk_tables (t : raw_tables) : tables :=
  let '(sn, ms, fs, w, cf, sf, turn) := t in
  {| tb_snap := map mk_val sn; tb_metrics := map mk_metric ms; tb_fees := fs; tb_weights := mk_weights w;
     tb_community := cf; tb_security := sf; tb_turnstone := turn |}.
Definition mk_set (t : raw_tables) : sop := SSetTables (mk_tables t).

(** (id, assignee, elected estimate, public access data, error data, fees, remote address, retries) *)
Definition sobs := (Z * Z * Z * bool * bool * fee_obs * Z * Z)%type.
Definition sys_proj (s : sys) (m : qmsg) : sobs :=
  let me := meta_of s (mid m) in
  (mid m, massignee m, mest m, mpad m, merr m, fee_proj (mfees m),
   match me with Some x => me_remote x | None => -1 end,
   match me with Some x => me_retries x | None => -1 end).
Definition sobs_eqb (a b : sobs) : bool :=
  let '(i, a1, e, p, r, f, rm, rt) := a in
  let '(i', a1', e', p', r', f', rm', rt') := b in
  (i =? i') && (a1 =? a1') && (e =? e') && Bool.eqb p p' && Bool.eqb r r' && option_eqb zzz_eqb f f'
  && (rm =? rm') && (rt =? rt').

Definition sys_offers (s : sys) (nv : Z) : list (list Z) :=
  map (fun v => map mid (for_relaying (queue (sy_q s)) v)) (zrange (Z.to_nat nv)).

Fixpoint check_sys (ch nv : Z) (s : sys) (steps : list (sop * (list sobs * list (list Z)))) : bool :=
  match steps with
  | [] => true
  | (o, (qo, off)) :: r =>
      let s' := sstep ch s o in
      list_eqb sobs_eqb (map (sys_proj s') (queue (sy_q s'))) qo
      && list_eqb (list_eqb Z.eqb) (sys_offers s' nv) off
      && check_sys ch nv s' r
  end.

(** ---- the response cap: blocks of repeated operations, offered ids as inclusive ranges ---- *)
Fixpoint expand (blocks : list (Z * op)) : list op :=
  match blocks with
  | [] => []
  | (n, o) :: r => repeat o (Z.to_nat n) ++ expand r
  end.
Fixpoint ranges (l : list Z) : list (Z * Z) :=
  match l with
  | [] => []
  | x :: r =>
      match ranges r with
      | (a, b) :: t => if x + 1 =? a then (x, b) :: t else (x, x) :: (a, b) :: t
      | [] => [(x, x)]
      end
  end.

Inductive case :=
| CDec (opc a b : Z) (got : option Z)
| CRank (infos : list (Z * Z * Z * Z * Z * Z)) (w : Z * Z * Z * Z * Z) (got : list (Z * Z))
| CPick (sn : list (Z * list (Z * Z * list Z))) (ms : list (Z * Z * Z * Z * Z)) (fs : list (Z * Z))
        (w : Z * Z * Z * Z * Z) (chain : Z) (req : option bool) (ts : Z) (got : pick_result)
| CEnqueue (sn : list (Z * list (Z * Z * list Z))) (ms : list (Z * Z * Z * Z * Z)) (fs : list (Z * Z))
        (w : Z * Z * Z * Z * Z) (chain : Z) (mev : bool) (ts : Z)
        (next : Z) (before after : list (Z * Z * Z)) (res : Z)
| CFees (mult cf sf gas : Z) (got : option (Z * Z * Z))
| CUpsert (mult : Z) (accepted : bool)
| CWeights (w : Z * Z * Z * Z * Z) (accepted : bool)
| CQueue (cfg : list (Z * Z) * Z * Z) (nv : Z) (steps : list (op * (list qobs * list (list Z))))
| CSys (ch nv : Z) (steps : list (sop * (list sobs * list (list Z))))
| CCap (blocks : list (Z * op)) (v : Z) (qlen : Z) (got : list (Z * Z)).

Definition check (c : case) : bool :=
  match c with
  | CDec opc a b got => zeqb_opt (dec_op opc a b) got
  | CRank infos w got =>
      list_eqb zz_eqb (rank (map mk_vinfo infos) (mk_weights w)) got
  | CPick sn ms fs w chain req ts got =>
      pick_eqb (pick_ov (map mk_val sn) (map mk_metric ms) fs (mk_weights w) chain req ts) got
  | CEnqueue sn ms fs w chain mev ts next before after res =>
      if negb (rank_ok (build_infos (map mk_val sn) (map mk_metric ms) fs) (mk_weights w))
      then list_eqb zzz_eqb before after && (res =? -100)   (* the ranking panics before anything is written *)
      else
      let '(s', r) := enqueue_request (map mk_val sn) (map mk_metric ms) fs (mk_weights w) chain
                        (Some mev) ts 0 {| qs_next := next; qs_msgs := map mk_queued before |} in
      list_eqb zzz_eqb (map queued_proj (qs_msgs s')) after && (enq_code r =? res)
  | CFees mult cf sf gas got =>
      option_eqb zzz_eqb (fee_proj (fees_for mult cf sf gas)) got
  | CUpsert mult accepted => Bool.eqb (valid_multiplier mult) accepted
  | CWeights w accepted => Bool.eqb (valid_weights (mk_weights w)) accepted
  | CQueue cfg nv steps => check_steps (mk_cfg cfg) nv init steps
  | CSys ch nv steps => check_sys ch nv sinit steps
  | CCap blocks v qlen got =>
      let q := queue (run {| cfg_relayer_fees := []; cfg_community := 0; cfg_security := 0 |} (expand blocks)) in
      (Z.of_nat (length q) =? qlen) && list_eqb zz_eqb (ranges (map mid (for_relaying q v))) got
  end.
