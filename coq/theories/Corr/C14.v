(** Correspondence cases for C14: the harness records inputs and what the real keepers returned;
    [check] re-runs the model and compares the projected observables. *)
From Coq Require Import List ZArith Bool.
From Paloma Require Import Base.Corr Base.Dec Evm.Assign Cons.Fees Cons.Relay.
Import ListNotations.
Open Scope Z_scope.

Definition zeqb_opt := option_eqb Z.eqb.

(** ---- LegacyDec primitives ---- *)
Definition dec_op (opc a b : Z) : option Z :=
  match opc with
  | 0 => checked (mul a b)
  | 1 => if b =? 0 then None else checked (quo a b)
  | 2 => checked (mul_int a b)
  | 3 => checked (ceil a)
  | 4 => Some (truncate_int a)
  | 5 => mul_int_ceil_u64 a b
  | 6 => checked (add a b)
  | 7 => checked (sub a b)
  | _ => None
  end.

(** ---- pick ---- *)
Definition mk_ci (t : Z * Z * list Z) : chain_info :=
  let '(c, r, tr) := t in {| ci_chain := c; ci_remote := r; ci_traits := tr |}.
Definition mk_val (t : Z * list (Z * Z * list Z)) : validator :=
  {| v_addr := fst t; v_infos := map mk_ci (snd t) |}.
Definition mk_metric (t : Z * Z * Z * Z * Z) : metric :=
  let '(a, u, s, e, f) := t in {| m_addr := a; m_uptime := u; m_success := s; m_exec := e; m_feature := f |}.
Definition mk_weights (t : Z * Z * Z * Z * Z) : weights :=
  let '(a, u, s, e, f) := t in {| w_fee := a; w_uptime := u; w_success := s; w_exec := e; w_feature := f |}.
Definition mk_vinfo (t : Z * Z * Z * Z * Z * Z) : vinfo :=
  let '(a, fe, u, s, e, f) := t in
  {| i_addr := a; i_fee := fe; i_uptime := u; i_success := s; i_exec := e; i_feature := f |}.

Definition pick_eqb (a b : pick_result) : bool :=
  match a, b with
  | Picked v r, Picked v' r' => (v =? v') && (r =? r')
  | PickErr c, PickErr c' => c =? c'
  | PickPanic, PickPanic => true
  | _, _ => false
  end.

Definition zz_eqb := pair_eqb Z.eqb Z.eqb.
Definition zzz_eqb (a b : Z * Z * Z) : bool := pair_eqb zz_eqb Z.eqb a b.

Definition mk_queued (t : Z * Z * Z) : queued :=
  let '(i, a, r) := t in {| q_id := i; q_assignee := a; q_remote := r; q_payload := 0 |}.
Definition queued_proj (q : queued) : Z * Z * Z := (q_id q, q_assignee q, q_remote q).

Definition enq_code (r : enq_result) : Z :=
  match r with EnqOk id => id | EnqErr c => - c | EnqPanic => -100 end.

(** ---- queue histories ---- *)
Definition fee_obs := option (Z * Z * Z).
(** (id, assignee, elected estimate, has public access data, has error data, fees) *)
Definition qobs := (Z * Z * Z * bool * bool * fee_obs)%type.

Definition fee_proj (f : option fee_triple) : fee_obs :=
  match f with Some t => Some (fee_relayer t, fee_community t, fee_security t) | None => None end.
Definition qmsg_proj (m : qmsg) : qobs :=
  (mid m, massignee m, mest m, mpad m, merr m, fee_proj (mfees m)).
Definition qobs_eqb (a b : qobs) : bool :=
  let '(i, a1, e, p, r, f) := a in
  let '(i', a1', e', p', r', f') := b in
  (i =? i') && (a1 =? a1') && (e =? e') && Bool.eqb p p' && Bool.eqb r r' && option_eqb zzz_eqb f f'.

Definition mk_cfg (t : list (Z * Z) * Z * Z) : config :=
  let '(rf, cf, sf) := t in {| cfg_relayer_fees := rf; cfg_community := cf; cfg_security := sf |}.

Fixpoint zrange (n : nat) : list Z :=
  match n with O => [] | S k => zrange k ++ [Z.of_nat k] end.

Definition offers (s : state) (nv : Z) : list (list Z) :=
  map (fun v => map mid (for_relaying (queue s) v)) (zrange (Z.to_nat nv)).

Fixpoint check_steps (c : config) (nv : Z) (s : state) (steps : list (op * (list qobs * list (list Z)))) : bool :=
  match steps with
  | [] => true
  | (o, (qo, off)) :: r =>
      let s' := step c s o in
      list_eqb qobs_eqb (map qmsg_proj (queue s')) qo
      && list_eqb (list_eqb Z.eqb) (offers s' nv) off
      && check_steps c nv s' r
  end.

Inductive case :=
| CDec (opc a b : Z) (got : option Z)
| CRank (infos : list (Z * Z * Z * Z * Z * Z)) (w : Z * Z * Z * Z * Z) (got : list (Z * Z))
| CPick (sn : list (Z * list (Z * Z * list Z))) (ms : list (Z * Z * Z * Z * Z)) (fs : list (Z * Z))
        (w : Z * Z * Z * Z * Z) (chain : Z) (req : option bool) (ts : Z) (got : pick_result)
| CEnqueue (sn : list (Z * list (Z * Z * list Z))) (ms : list (Z * Z * Z * Z * Z)) (fs : list (Z * Z))
        (w : Z * Z * Z * Z * Z) (chain : Z) (mev : bool) (ts : Z)
        (next : Z) (before after : list (Z * Z * Z)) (res : Z)
| CFees (mult cf sf gas : Z) (got : option (Z * Z * Z))
| CUpsert (mult : Z) (accepted : bool)
| CQueue (cfg : list (Z * Z) * Z * Z) (nv : Z) (steps : list (op * (list qobs * list (list Z)))).

Definition check (c : case) : bool :=
  match c with
  | CDec opc a b got => zeqb_opt (dec_op opc a b) got
  | CRank infos w got =>
      list_eqb zz_eqb (rank (map mk_vinfo infos) (mk_weights w)) got
  | CPick sn ms fs w chain req ts got =>
      pick_eqb (pick (map mk_val sn) (map mk_metric ms) fs (mk_weights w) chain req ts) got
  | CEnqueue sn ms fs w chain mev ts next before after res =>
      let '(s', r) := enqueue_request (map mk_val sn) (map mk_metric ms) fs (mk_weights w) chain
                        (Some mev) ts 0 {| qs_next := next; qs_msgs := map mk_queued before |} in
      list_eqb zzz_eqb (map queued_proj (qs_msgs s')) after && (enq_code r =? res)
  | CFees mult cf sf gas got =>
      option_eqb zzz_eqb (fee_proj (fees_for mult cf sf gas)) got
  | CUpsert mult accepted => Bool.eqb (valid_multiplier mult) accepted
  | CQueue cfg nv steps => check_steps (mk_cfg cfg) nv init steps
  end.
