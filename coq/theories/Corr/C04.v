(** Correspondence cases for C04: the harness records inputs and the implementation's
    observed outputs; [check] re-runs the model and compares. *)
From Coq Require Import String.
From Coq Require Import List ZArith NArith Bool.
From Coq Require Import Strings.Byte.
From Paloma Require Import Base.Corr Base.Num Cons.Median Cons.Quorum Cons.EvidenceBytes Cons.EvidenceHistory.
From Paloma Require Gen.C04.
Import ListNotations.
Open Scope Z_scope.

(** Proofs as the harness writes them: printable ASCII as a string, anything else as byte values. *)
Inductive ctext := TS (s : string) | TB (l : list Z).
Definition text_of (t : ctext) : text :=
  match t with TS s => list_byte_of_string s | TB l => map byte_of_Z l end.

Inductive cproof :=
| CPTx (tx : ctext) (receipt : option ctext)
| CPErr (m : ctext)
| CPBal (h : Z) (bs : list ctext)
| CPRef (h : Z) (hash : ctext)
| CPNone.

Definition proof_of (c : cproof) : proof :=
  match c with
  | CPTx t r => PTx (text_of t) (option_map text_of r)
  | CPErr m => PErr (text_of m)
  | CPBal h bs => PBal (Z.to_N h) (map text_of bs)
  | CPRef h s => PRef (Z.to_N h) (text_of s)
  | CPNone => PUnhashable
  end.

Inductive obs := OWinner (tag data : Z) | ONotAchieved | OFailed.

Inductive qop :=
| QEvidence (v tag data : Z) (ok : bool)
| QEstimate (v value : Z) (ok : bool)
| QElect (value : Z) (ok : bool).

(** Keeper level: estimates come in, end-blocks run under the snapshot of the moment. *)
Inductive eop :=
| EEstimate (v value : Z) (ok : bool)
| EBlock (sn : list (Z * Z)) (total : Z) (elected_after : Z).

(** Keeper level, one queued request: Keeper.AddMessageEvidence (refused iff the proof is absent or not
    hashable) and CheckAndProcessAttestedMessages; [got] = -1 the request stays, >= 0 removed and the
    applied answer is proofs[got], -3 removed (applied answer not identified by the harness). *)
Inductive aop :=
| ASubmit (v idx : Z) (ok : bool)
| AProcess (got : Z)
| AEndBlock (h got : Z)
| ASnap (sn : list (Z * Z)) (total : Z).   (* the valset module built a new current snapshot *)   (* the consensus MODULE's EndBlock at height h; got = -4: pruned (removed, nothing applied) *)

Inductive case :=
| CMedian (s : list Z) (got : Z)
| CEstimates (sn : list (Z * Z)) (total : Z) (es : list (Z * Z)) (got : Z)
| CEvidence (sn : list (Z * Z)) (total : Z) (evs : list (Z * Z * Z * bool)) (got : obs)
| CQueue (requires : bool) (ops : list qop) (evs : list (Z * Z * Z * bool)) (es : list (Z * Z)) (elected : Z)
| CEndBlock (requires : bool) (ops : list eop) (es : list (Z * Z)) (elected : Z)
(** BytesToHash of one real proof message: the bytes (None = error) *)
| CBytes (p : cproof) (got : option ctext)
(** VerifyEvidence on structured proofs: [subs] = (validator, index into [proofs]); [got] = index of
    a proof with the winner's type and bytes, -1 = not achieved, -2 = failed *)
| CEvidenceP (sn : list (Z * Z)) (total : Z) (proofs : list cproof) (subs : list (Z * Z)) (got : Z)
| CAttest (sn : list (Z * Z)) (total : Z) (added : Z) (proofs : list cproof) (ops : list aop).

(** Ideal (collision-free) group key: the pair itself. *)
Definition ikey (tag data : Z) : Z * Z := code_key (fun t d => (t, d)) tag data.
Definition ikeqb (a b : Z * Z) : bool := (fst a =? fst b) && (snd a =? snd b).

Definition mk_ev (t : Z * Z * Z * bool) : evidence :=
  let '(v, tag, d, bad) := t in {| ev_val := v; ev_tag := tag; ev_data := d; ev_bad := bad |}.
Definition mk_es (t : Z * Z) : estimate := {| es_val := fst t; es_value := snd t |}.

Definition obs_of (o : outcome) : obs :=
  match o with
  | Winner e => OWinner (ev_tag e) (ev_data e)
  | NotAchieved => ONotAchieved
  | Failed => OFailed
  end.

Definition obs_eqb (a b : obs) : bool :=
  match a, b with
  | OWinner t d, OWinner t' d' => (t =? t') && (d =? d')
  | ONotAchieved, ONotAchieved => true
  | OFailed, OFailed => true
  | _, _ => false
  end.

Definition est_code (o : est_outcome) : Z :=
  match o with Elected v => v | EstNotAchieved => -1 | EstZero => -2 end.

Record qstate := { qs_ev : list evidence; qs_msg : qmsg }.

Definition qstep (s : option qstate) (o : qop) : option qstate :=
  match s with
  | None => None
  | Some s =>
    match o with
    | QEvidence v tag d ok =>
      if ok then Some {| qs_ev := add_evidence (qs_ev s) {| ev_val := v; ev_tag := tag; ev_data := d; ev_bad := false |};
                         qs_msg := qs_msg s |} else None
    | QEstimate v x ok =>
      match add_gas_estimate (qs_msg s) {| es_val := v; es_value := x |} with
      | Some m => if ok then Some {| qs_ev := qs_ev s; qs_msg := m |} else None
      | None => if ok then None else Some s
      end
    | QElect x ok =>
      match set_elected (qs_msg s) x with
      | Some m => if ok then Some {| qs_ev := qs_ev s; qs_msg := m |} else None
      | None => if ok then None else Some s
      end
    end
  end.

(** Same step function as the theorems' histories (Quorum.qm_step). *)
Definition estep (s : option qmsg) (o : eop) : option qmsg :=
  match s with
  | None => None
  | Some m =>
    match o with
    | EEstimate v x ok =>
      let e := {| es_val := v; es_value := x |} in
      let accepted := match add_gas_estimate m e with Some _ => true | None => false end in
      if Bool.eqb accepted ok then Some (qm_step m (OpAddEstimate e)) else None
    | EBlock sn total el =>
      let m' := qm_step m (OpEndBlock {| sn_vals := sn; sn_total := total |}) in
      if q_elected m' =? el then Some m' else None
    end
  end.

Definition ev_eqb (a b : evidence) : bool :=
  (ev_val a =? ev_val b) && (ev_tag a =? ev_tag b) && (ev_data a =? ev_data b).
Definition es_eqb (a b : estimate) : bool := (es_val a =? es_val b) && (es_value a =? es_value b).

Definition ev_at (proofs : list cproof) (v idx : Z) : evidence :=
  ev_of {| pe_val := v; pe_proof := proof_of (nth (Z.to_nat idx) proofs CPNone) |}.

(** Same step function as the theorems' histories (EvidenceHistory.att_step), with the ideal pair key. *)
Definition astep := att_step ikeqb (fun t d : Z => (t, d)).

Definition won_matches (proofs : list cproof) (w : evidence) (got : Z) : bool :=
  (got =? -3) ||
  ((0 <=? got) && let g := ev_at proofs 0 got in (ev_tag w =? ev_tag g) && (ev_data w =? ev_data g)).

Fixpoint arun (sn : snapshot) (added : Z) (proofs : list cproof) (s : att_state) (ops : list aop) : bool :=
  match ops with
  | [] => true
  | ASubmit v idx ok :: r =>
      let e := {| pe_val := v; pe_proof := proof_of (nth (Z.to_nat idx) proofs CPNone) |} in
      Bool.eqb (hashable (pe_proof e)) ok && arun sn added proofs (astep s (AoSubmit e)) r
  | AProcess got :: r =>
      let s' := astep s (AoProcess sn (fun g => g)) in
      match as_won s' with
      | Some w => won_matches proofs w got && match r with [] => true | _ => false end
      | None => (got =? -1) && arun sn added proofs s' r
      end
  | ASnap sn' total' :: r => arun {| sn_vals := sn'; sn_total := total' |} added proofs s r
  | AEndBlock h got :: r =>
      let m := end_block ikeqb (fun t d : Z => (t, d)) added {| ms_att := s; ms_pruned := false |} sn (fun g => g) h in
      match as_won (ms_att m) with
      | Some w => won_matches proofs w got && match r with [] => true | _ => false end
      | None => if ms_pruned m then (got =? -4) && match r with [] => true | _ => false end
                else (got =? -1) && arun sn added proofs (ms_att m) r
      end
  end.

Definition check (c : case) : bool :=
  match c with
  | CMedian s got => median64 s =? got
  | CEstimates sn total es got =>
      est_code (verify_gas_estimates {| sn_vals := sn; sn_total := total |} (map mk_es es)) =? got
  | CEvidence sn total evs got =>
      obs_eqb (obs_of (verify_evidence ikeqb ikey (fun g => g) {| sn_vals := sn; sn_total := total |} (map mk_ev evs))) got
  | CQueue requires ops evs es elected =>
      match fold_left qstep ops
              (Some {| qs_ev := []; qs_msg := {| q_requires := requires; q_estimates := []; q_elected := 0; q_nsigs := 0 |} |}) with
      | None => false
      | Some s => list_eqb ev_eqb (qs_ev s) (map mk_ev evs)
                  && list_eqb es_eqb (q_estimates (qs_msg s)) (map mk_es es)
                  && (q_elected (qs_msg s) =? elected)
      end
  | CEndBlock requires ops es elected =>
      match fold_left estep ops (Some {| q_requires := requires; q_estimates := []; q_elected := 0; q_nsigs := 0 |}) with
      | None => false
      | Some m => list_eqb es_eqb (q_estimates m) (map mk_es es) && (q_elected m =? elected)
      end
  | CBytes p got =>
      match bytes_to_hash (proof_of p), got with
      | Some b, Some g => text_eqb b (text_of g)
      | None, None => true
      | _, _ => false
      end
      && match proof_of p with
         | PTx t r => well_framedb t && match r with Some [] => false | _ => true end
         | _ => true
         end
  | CEvidenceP sn total proofs subs got =>
      let pevs := map (fun s => {| pe_val := fst s; pe_proof := proof_of (nth (Z.to_nat (snd s)) proofs CPNone) |}) subs in
      match verify_evidence ikeqb ikey (fun g => g) {| sn_vals := sn; sn_total := total |} (map ev_of pevs) with
      | Winner w =>
          (0 <=? got) &&
          let g := ev_of {| pe_val := 0; pe_proof := proof_of (nth (Z.to_nat got) proofs CPNone) |} in
          (ev_tag w =? ev_tag g) && (ev_data w =? ev_data g) && negb (ev_bad g)
      | NotAchieved => got =? -1
      | Failed => got =? -2
      end
  | CAttest sn total added proofs ops => arun {| sn_vals := sn; sn_total := total |} added proofs att_init ops
  end.
