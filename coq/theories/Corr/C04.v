(** Correspondence cases for C04: the harness records inputs and the implementation's
    observed outputs; [check] re-runs the model and compares. *)
From Coq Require Import List ZArith Bool.
From Paloma Require Import Base.Corr Base.Num Cons.Median Cons.Quorum.
From Paloma Require Gen.C04.
Import ListNotations.
Open Scope Z_scope.

Inductive obs := OWinner (tag data : Z) | ONotAchieved | OFailed.

Inductive qop :=
| QEvidence (v tag data : Z) (ok : bool)
| QEstimate (v value : Z) (ok : bool)
| QElect (value : Z) (ok : bool).

(** Keeper level: estimates come in, end-blocks run under the snapshot of the moment. *)
Inductive eop :=
| EEstimate (v value : Z) (ok : bool)
| EBlock (sn : list (Z * Z)) (total : Z) (elected_after : Z).

Inductive case :=
| CMedian (s : list Z) (got : Z)
| CEstimates (sn : list (Z * Z)) (total : Z) (es : list (Z * Z)) (got : Z)
| CEvidence (sn : list (Z * Z)) (total : Z) (evs : list (Z * Z * Z * bool)) (got : obs)
| CQueue (requires : bool) (ops : list qop) (evs : list (Z * Z * Z * bool)) (es : list (Z * Z)) (elected : Z)
| CEndBlock (requires : bool) (ops : list eop) (es : list (Z * Z)) (elected : Z).

(** Ideal (collision-free) group key: the pair itself. *)
Definition ikey (tag data : Z) : Z * Z := code_key (fun t d => (t, d)) tag data.
Definition ikeqb (a b : Z * Z) : bool := (fst a =? fst b) && (snd a =? snd b).

Definition mk_ev (t : Z * Z * Z * bool) : evidence :=
  let '(v, tag, d, bad) := t in {| ev_val := v; ev_tag := tag; ev_data := d; ev_bad := bad |}.
Definition mk_es (t : Z * Z) : estimate := {| es_val := fst t; es_value := snd t |}.

Definition obs_of (o : outcome) : obs :=
  match o with
  | Winner e => OWinner (ev_tag e) (ev_data e)
  | NotAchieved => ONotAchieved
  | Failed => OFailed
  end.

Definition obs_eqb (a b : obs) : bool :=
  match a, b with
  | OWinner t d, OWinner t' d' => (t =? t') && (d =? d')
  | ONotAchieved, ONotAchieved => true
  | OFailed, OFailed => true
  | _, _ => false
  end.

Definition est_code (o : est_outcome) : Z :=
  match o with Elected v => v | EstNotAchieved => -1 | EstZero => -2 end.

Record qstate := { qs_ev : list evidence; qs_msg : qmsg }.

Definition qstep (s : option qstate) (o : qop) : option qstate :=
  match s with
  | None => None
  | Some s =>
    match o with
    | QEvidence v tag d ok =>
      if ok then Some {| qs_ev := add_evidence (qs_ev s) {| ev_val := v; ev_tag := tag; ev_data := d; ev_bad := false |};
                         qs_msg := qs_msg s |} else None
    | QEstimate v x ok =>
      match add_gas_estimate (qs_msg s) {| es_val := v; es_value := x |} with
      | Some m => if ok then Some {| qs_ev := qs_ev s; qs_msg := m |} else None
      | None => if ok then None else Some s
      end
    | QElect x ok =>
      match set_elected (qs_msg s) x with
      | Some m => if ok then Some {| qs_ev := qs_ev s; qs_msg := m |} else None
      | None => if ok then None else Some s
      end
    end
  end.

(** Same step function as the theorems' histories (Quorum.qm_step). *)
Definition estep (s : option qmsg) (o : eop) : option qmsg :=
  match s with
  | None => None
  | Some m =>
    match o with
    | EEstimate v x ok =>
      let e := {| es_val := v; es_value := x |} in
      let accepted := match add_gas_estimate m e with Some _ => true | None => false end in
      if Bool.eqb accepted ok then Some (qm_step m (OpAddEstimate e)) else None
    | EBlock sn total el =>
      let m' := qm_step m (OpEndBlock {| sn_vals := sn; sn_total := total |}) in
      if q_elected m' =? el then Some m' else None
    end
  end.

Definition ev_eqb (a b : evidence) : bool :=
  (ev_val a =? ev_val b) && (ev_tag a =? ev_tag b) && (ev_data a =? ev_data b).
Definition es_eqb (a b : estimate) : bool := (es_val a =? es_val b) && (es_value a =? es_value b).

Definition check (c : case) : bool :=
  match c with
  | CMedian s got => median64 s =? got
  | CEstimates sn total es got =>
      est_code (verify_gas_estimates {| sn_vals := sn; sn_total := total |} (map mk_es es)) =? got
  | CEvidence sn total evs got =>
      obs_eqb (obs_of (verify_evidence ikeqb ikey (fun g => g) {| sn_vals := sn; sn_total := total |} (map mk_ev evs))) got
  | CQueue requires ops evs es elected =>
      match fold_left qstep ops
              (Some {| qs_ev := []; qs_msg := {| q_requires := requires; q_estimates := []; q_elected := 0; q_nsigs := 0 |} |}) with
      | None => false
      | Some s => list_eqb ev_eqb (qs_ev s) (map mk_ev evs)
                  && list_eqb es_eqb (q_estimates (qs_msg s)) (map mk_es es)
                  && (q_elected (qs_msg s) =? elected)
      end
  | CEndBlock requires ops es elected =>
      match fold_left estep ops (Some {| q_requires := requires; q_estimates := []; q_elected := 0; q_nsigs := 0 |}) with
      | None => false
      | Some m => list_eqb es_eqb (q_estimates m) (map mk_es es) && (q_elected m =? elected)
      end
  end.
