(** Correspondence cases for C11: the harness records claim bodies and what the real code produced
    (ClaimHash bytes, raw attestation store keys, per-step results of submitting claims through the
    msg server and the attestations read back from the store, equality of the real effect of applying
    two bodies); [check] re-runs the model on the same input and compares. *)
From Coq Require Import List NArith ZArith Bool String.
From Coq Require Import Strings.Byte.
From Paloma Require Import Base.Corr Base.Sha256 Skyway.Claims Skyway.ClaimsGate.
Import ListNotations.
Open Scope Z_scope.

(** A claim as printed by the harness: type name, then (field, value) lists per kind. *)
Inductive cl := Cl (ct : string) (nums : list (string * Z)) (strs : list (string * list Z)) (amts : list (string * option Z)).

Definition bytes (l : list Z) : text := map (fun z => byte_of_N (Z.to_N z)) l.

Fixpoint look {A} (d : A) (k : string) (l : list (string * A)) : A :=
  match l with
  | [] => d
  | (a, b) :: r => if String.eqb a k then b else look d k r
  end.

Definition claim_of (x : cl) : claim :=
  let '(Cl ct nums strs amts) := x in
  {| c_type := ct;
     c_num := fun f => Z.to_N (look 0 f nums);
     c_str := fun f => bytes (look [] f strs);
     c_amt := fun f => look None f amts |}.

Inductive case :=
| CHash (c : cl) (got : list Z)
| CKey (K : list Z) (c : cl) (got : list Z)
| CEffect (c1 c2 : cl) (real_equal : bool)
| CHist (K : list Z) (ops : list (Z * cl)) (results : list bool) (stored : list (list Z * list Z * Z))
(* second round: submissions through the real message router + msg server with outgoing batches [bs] in state
   (token contract bytes, batch nonce, timeout), attestations written raw under a foreign key, export / import of
   genesis; [stored] = (raw key, votes, stored body) read back at the end *)
| CGen (K : list Z) (bs : list (list Z * Z * Z)) (steps : list gstep) (stored : list (list Z * list Z * cl))
(* ValidateEthAddress / HexToAddress on one text *)
| CEth (s : list Z) (got : option (list Z))
with gstep :=
| GSub (v : Z) (c : cl) (ok : bool)
| GStale (key : list Z) (c : cl) (votes : list Z)
| GReimport.

Definition opt_eqb (a b : option Z) : bool :=
  match a, b with None, None => true | Some x, Some y => x =? y | _, _ => false end.

Definition fval_eqb (a b : fval) : bool :=
  match a, b with
  | VNum x, VNum y => N.eqb x y
  | VStr x, VStr y => text_eqb x y
  | VAmt x, VAmt y => opt_eqb x y
  | VNone, VNone => true
  | _, _ => false
  end.

Definition effect_eqb (c1 c2 : claim) : bool :=
  String.eqb (fst (effect c1)) (fst (effect c2)) && list_eqb fval_eqb (snd (effect c1)) (snd (effect c2)).

Fixpoint steps (K : text) (s : state) (i : N) (ops : list (Z * cl)) : state * list bool :=
  match ops with
  | [] => (s, [])
  | (v, x) :: r =>
      let '(s', ok) := attest K s i (Z.to_N v) (claim_of x) in
      let '(s'', oks) := steps K s' (N.succ i) r in
      (s'', ok :: oks)
  end.

Definition att_matches (a : att) (o : list Z * list Z * Z) : bool :=
  let '(k, votes, src) := o in
  text_eqb (a_key a) (bytes k) && list_eqb N.eqb (a_votes a) (map Z.to_N votes) && N.eqb (a_src a) (Z.to_N src).

Definition batches_of (bs : list (list Z * Z * Z)) : list batch :=
  map (fun b => let '(a, n, t) := b in (bytes a, Z.to_N n, Z.to_N t)) bs.

(** one step of a second-round history; [None] = the per-step result differs from the implementation's *)
Definition gstep_run (K : text) (bs : list batch) (si : state * N) (st : gstep) : option (state * N) :=
  let '(s, i) := si in
  match st with
  | GSub v x ok =>
      let '(s', ok') := attest_g (ms_gate bs) K s i (Z.to_N v) (claim_of x) in
      if Bool.eqb ok ok' then Some (s', N.succ i) else None
  | GStale key x votes =>
      let c := claim_of x in
      let vs := map Z.to_N votes in
      Some ({| atts := atts s ++ [{| a_key := bytes key; a_src := i; a_body := c; a_votes := vs |}];
               lasts := fold_left (fun ls v => (v, chain_of c, nonce_of c) :: ls) vs (lasts s) |}, N.succ i)
  | GReimport => Some (reimport K s, i)
  end.

Fixpoint gsteps (K : text) (bs : list batch) (si : state * N) (l : list gstep) : option state :=
  match l with
  | [] => Some (fst si)
  | st :: r => match gstep_run K bs si st with Some si' => gsteps K bs si' r | None => None end
  end.

Definition att_matches_body (a : att) (o : list Z * list Z * cl) : bool :=
  let '(k, votes, body) := o in
  text_eqb (a_key a) (bytes k) && list_eqb N.eqb (a_votes a) (map Z.to_N votes)
  && String.eqb (c_type (a_body a)) (c_type (claim_of body)) && text_eqb (path (a_body a)) (path (claim_of body)).

Definition opt_text_eqb (a : option text) (b : option (list Z)) : bool :=
  match a, b with None, None => true | Some x, Some y => text_eqb x (bytes y) | _, _ => false end.

Definition check (c : case) : bool :=
  match c with
  | CHash x got => text_eqb (claim_hash (claim_of x)) (bytes got)
  | CKey K x got => text_eqb (att_key (bytes K) (claim_of x)) (bytes got)
  | CEffect x1 x2 real_equal => implb (effect_eqb (claim_of x1) (claim_of x2)) real_equal
  | CHist K ops results stored =>
      let '(s, oks) := steps (bytes K) init 0%N ops in
      list_eqb Bool.eqb oks results
      && Nat.eqb (List.length (atts s)) (List.length stored)
      && forallb (fun o => existsb (fun a => att_matches a o) (atts s)) stored
  | CGen K bs steps stored =>
      match gsteps (bytes K) (batches_of bs) (init, 0%N) steps with
      | None => false
      | Some s => Nat.eqb (List.length (atts s)) (List.length stored)
                  && forallb (fun o => existsb (fun a => att_matches_body a o) (atts s)) stored
      end
  | CEth s got => opt_text_eqb (eth_parse (bytes s)) got
  end.
