(** Correspondence cases for C02: one case = one history of oracle operations driven on the real
    skyway keeper; after every operation the harness records the projected state of the real
    stores.  [check] replays the history on the model (Skyway/Oracle.v) with the SAME step function
    the theorems quantify over and compares after every step. *)
From Coq Require Import List ZArith Bool.
From Paloma Require Import Base.Corr Base.Num Skyway.Oracle.
Import ListNotations.
Open Scope Z_scope.

Record obs := mkObs {
  o_ok : bool;                          (* operation accepted / tally returned nil *)
  o_last : Z;                           (* GetLastObservedSkywayNonce *)
  o_height : Z;                         (* GetLastObservedEthereumBlockHeight.EthereumBlockHeight *)
  o_compass : Z;                        (* GetLatestCompassID *)
  o_atts : list (Z * Z * list Z * bool);(* IterateAttestations: nonce, hash, Votes, Observed (store order) *)
  o_vn : list (Z * Z);                  (* IterateValidatorLastEventNonces, by validator index *)
  o_bal : list (Z * Z)                  (* minted balance of every receiver *)
}.

Inductive case := CHist (steps : list (op * obs)).

Definition outcome (s : state) (o : op) : bool :=
  match o with
  | Vote v known c => vote_ok s v known c
  | Tally => snd (tally s)
  | _ => true
  end.

Definition zz_eqb (a b : Z * Z) : bool := (fst a =? fst b) && (snd a =? snd b).

Definition att_eqb (x : Z * Z * att) (y : Z * Z * list Z * bool) : bool :=
  let '(n, h, a) := x in
  let '(n', h', vs, ob) := y in
  (n =? n') && (h =? h') && list_eqb Z.eqb (a_votes a) vs && Bool.eqb (a_obs a) ob
  && (c_nonce (a_claim a) =? n) && (c_h (a_claim a) =? h).

Fixpoint atts_eqb (l : list (Z * Z * att)) (m : list (Z * Z * list Z * bool)) : bool :=
  match l, m with
  | [], [] => true
  | x :: r, y :: q => att_eqb x y && atts_eqb r q
  | _, _ => false
  end.

Definition obs_ok (s : state) (ok : bool) (o : obs) : bool :=
  Bool.eqb ok (o_ok o) && (last_obs s =? o_last o) && (last_height s =? o_height o)
  && (compass s =? o_compass o) && atts_eqb (atts s) (o_atts o)
  && list_eqb zz_eqb (vnonce s) (o_vn o)
  && forallb (fun kv => zget0 (bal s) (fst kv) =? snd kv) (o_bal o).

Fixpoint replay (s : state) (l : list (op * obs)) : bool :=
  match l with
  | [] => true
  | (o, b) :: r =>
      let s' := step s o in
      obs_ok s' (outcome s o) b && replay s' r
  end.

Definition check (c : case) : bool :=
  match c with CHist steps => replay init steps end.
