(** Correspondence cases for C02: one case = one multi-chain history of oracle operations driven on
    the real skyway keeper (three remote chains over one staking module).  Every operation carries
    its address ([Some c] = chain c, [None] = global: staking powers / bonded set / genesis
    round trip) and the projected state of the real stores of ONE chain after it (the addressed
    chain; chain 0 for a global operation).  That the OTHER chains' stores did not change is checked
    by the harness on the real state; every history ends with an operation on each chain, so each
    chain's final state is compared.  [check] replays the history with the SAME [mstep] / [step] the
    theorems quantify over and compares after every step. *)
From Coq Require Import List ZArith Bool.
From Paloma Require Import Base.Corr Base.Num Skyway.Oracle Skyway.OracleChains.
Import ListNotations.
Open Scope Z_scope.

Record obs := mkObs {
  o_chain : Z;                          (* the chain whose stores were read *)
  o_ok : bool;                          (* operation accepted / tally returned nil *)
  o_last : Z;                           (* GetLastObservedSkywayNonce *)
  o_height : Z;                         (* GetLastObservedEthereumBlockHeight.EthereumBlockHeight *)
  o_compass : Z;                        (* GetLatestCompassID *)
  (* the lists are recorded only when they differ from this chain's previous record (None = unchanged) *)
  o_atts : option (list (Z * Z * list Z * bool)); (* IterateAttestations: nonce, hash rank, Votes, Observed (store order) *)
  o_vn : option (list (Z * Z));         (* IterateValidatorLastEventNonces, by validator index *)
  o_bal : option (list (Z * Z));        (* bank balance of every receiver (all chains together) *)
  o_bat : option (list (Z * Z));        (* pending batches of this chain: token, batch nonce *)
  o_lic : option (list (Z * Z))         (* licences of this chain's clients: client, amount *)
}.

Inductive case := CHist (steps : list (option Z * op * obs)).

Definition outcome (s : state) (o : op) : bool :=
  match o with
  | VoteBy sg v known c => vote_ok s sg v known c
  | Tally => snd (tally s)
  | _ => true
  end.

Definition zz_eqb (a b : Z * Z) : bool := (fst a =? fst b) && (snd a =? snd b).

Definition att_eqb (x : Z * Z * att) (y : Z * Z * list Z * bool) : bool :=
  let '(n, h, a) := x in
  let '(n', h', vs, ob) := y in
  (n =? n') && (h =? h') && list_eqb Z.eqb (a_votes a) vs && Bool.eqb (a_obs a) ob
  && (c_nonce (a_claim a) =? n) && (c_h (a_claim a) =? h).

Fixpoint atts_eqb (l : list (Z * Z * att)) (m : list (Z * Z * list Z * bool)) : bool :=
  match l, m with
  | [], [] => true
  | x :: r, y :: q => att_eqb x y && atts_eqb r q
  | _, _ => false
  end.

Record prev := mkPrev {
  p_atts : list (Z * Z * list Z * bool); p_vn : list (Z * Z); p_bal : list (Z * Z);
  p_bat : list (Z * Z); p_lic : list (Z * Z) }.

Definition prev0 : prev := mkPrev [] [] [] [] [].

Definition sel {A} (o : option A) (d : A) : A := match o with Some x => x | None => d end.

Definition next_prev (p : prev) (o : obs) : prev :=
  mkPrev (sel (o_atts o) (p_atts p)) (sel (o_vn o) (p_vn p)) (sel (o_bal o) (p_bal p))
         (sel (o_bat o) (p_bat p)) (sel (o_lic o) (p_lic p)).

Fixpoint get_prev (l : list (Z * prev)) (c : Z) : prev :=
  match l with [] => prev0 | (c', p) :: r => if c =? c' then p else get_prev r c end.
Fixpoint set_prev (l : list (Z * prev)) (c : Z) (p : prev) : list (Z * prev) :=
  match l with
  | [] => [(c, p)]
  | (c', p') :: r => if c =? c' then (c, p) :: r else (c', p') :: set_prev r c p
  end.

(** The bank does not know chains: a receiver holds what all chains' deposits minted to it. *)
Definition total_bal (m : mstate) (r : Z) : Z := zsum (map (fun cs => zget0 (bal (snd cs)) r) m).

Definition obs_ok (m : mstate) (s : state) (ok : bool) (o : obs) (p : prev) : bool :=
  Bool.eqb ok (o_ok o) && (last_obs s =? o_last o) && (last_height s =? o_height o)
  && (compass s =? o_compass o) && atts_eqb (atts s) (p_atts p)
  && list_eqb zz_eqb (vnonce s) (p_vn p)
  && forallb (fun kv => total_bal m (fst kv) =? snd kv) (p_bal p)
  && list_eqb zz_eqb (map fst (batches s)) (p_bat p)
  && list_eqb zz_eqb (lic s) (p_lic p).

(** The three chains of the harness. *)
Definition chain_ids : list Z := [0; 1; 2].

Fixpoint replay (m : mstate) (ps : list (Z * prev)) (l : list (option Z * op * obs)) : bool :=
  match l with
  | [] => true
  | (tag, o, b) :: r =>
      let c := o_chain b in
      let ok := outcome (chain_state m (match tag with Some c' => c' | None => c end)) o in
      let m' := mstep m (tag, o) in
      let p' := next_prev (get_prev ps c) b in
      (* the record must be of the addressed chain *)
      (match tag with Some c' => c' =? c | None => true end)
      && obs_ok m' (chain_state m' c) ok b p' && replay m' (set_prev ps c p') r
  end.

Definition check (c : case) : bool :=
  match c with CHist steps => replay (minit chain_ids) [] steps end.
