(** Correspondence cases for C02: one case = one history of oracle operations driven on the real
    skyway keeper; after every operation the harness records the projected state of the real
    stores.  [check] replays the history on the model (Skyway/Oracle.v) with the SAME step function
    the theorems quantify over and compares after every step. *)
From Coq Require Import List ZArith Bool.
From Paloma Require Import Base.Corr Base.Num Skyway.Oracle.
Import ListNotations.
Open Scope Z_scope.

Record obs := mkObs {
  o_ok : bool;                          (* operation accepted / tally returned nil *)
  o_last : Z;                           (* GetLastObservedSkywayNonce *)
  o_height : Z;                         (* GetLastObservedEthereumBlockHeight.EthereumBlockHeight *)
  o_compass : Z;                        (* GetLatestCompassID *)
  (* the three lists are recorded only when they differ from the previous step's (None = unchanged) *)
  o_atts : option (list (Z * Z * list Z * bool)); (* IterateAttestations: nonce, hash rank, Votes, Observed (store order) *)
  o_vn : option (list (Z * Z));         (* IterateValidatorLastEventNonces, by validator index *)
  o_bal : option (list (Z * Z))         (* minted balance of every receiver *)
}.

Inductive case := CHist (steps : list (op * obs)).

Definition outcome (s : state) (o : op) : bool :=
  match o with
  | Vote v known c => vote_ok s v known c
  | Tally => snd (tally s)
  | _ => true
  end.

Definition zz_eqb (a b : Z * Z) : bool := (fst a =? fst b) && (snd a =? snd b).

Definition att_eqb (x : Z * Z * att) (y : Z * Z * list Z * bool) : bool :=
  let '(n, h, a) := x in
  let '(n', h', vs, ob) := y in
  (n =? n') && (h =? h') && list_eqb Z.eqb (a_votes a) vs && Bool.eqb (a_obs a) ob
  && (c_nonce (a_claim a) =? n) && (c_h (a_claim a) =? h).

Fixpoint atts_eqb (l : list (Z * Z * att)) (m : list (Z * Z * list Z * bool)) : bool :=
  match l, m with
  | [], [] => true
  | x :: r, y :: q => att_eqb x y && atts_eqb r q
  | _, _ => false
  end.

Record prev := mkPrev { p_atts : list (Z * Z * list Z * bool); p_vn : list (Z * Z); p_bal : list (Z * Z) }.

Definition next_prev (p : prev) (o : obs) : prev :=
  mkPrev (match o_atts o with Some x => x | None => p_atts p end)
         (match o_vn o with Some x => x | None => p_vn p end)
         (match o_bal o with Some x => x | None => p_bal p end).

Definition obs_ok (s : state) (ok : bool) (o : obs) (p : prev) : bool :=
  Bool.eqb ok (o_ok o) && (last_obs s =? o_last o) && (last_height s =? o_height o)
  && (compass s =? o_compass o) && atts_eqb (atts s) (p_atts p)
  && list_eqb zz_eqb (vnonce s) (p_vn p)
  && forallb (fun kv => zget0 (bal s) (fst kv) =? snd kv) (p_bal p).

Fixpoint replay (s : state) (p : prev) (l : list (op * obs)) : bool :=
  match l with
  | [] => true
  | (o, b) :: r =>
      let s' := step s o in
      let p' := next_prev p b in
      obs_ok s' (outcome s o) b p' && replay s' p' r
  end.

Definition check (c : case) : bool :=
  match c with CHist steps => replay init (mkPrev [] [] []) steps end.
