(** Correspondence cases for C10: the harness records inputs / histories and what the real
    keepers returned; [check] re-runs the model and compares projected observables.

    Strings (chain reference ids, chain types, traits) are recorded once per case in a table of the
    Go strings themselves (bytes); the steps refer to them by index.  The model works on the strings:
    whether two spellings name the same chain is decided here by [String.eqb], not by the harness. *)
From Coq Require Import String Ascii.
From Coq Require Import List ZArith NArith Bool.
From Paloma Require Import Base.Corr Base.Num Valset.Snapshot Valset.Worthy Evm.Compass.
Import ListNotations.
Open Scope Z_scope.

(** a Go string given by its bytes (for spellings that are not printable ASCII) *)
Definition bs (l : list Z) : string :=
  fold_right (fun b s => String (ascii_of_N (Z.to_N b)) s) EmptyString l.

Definition tbl := list string.
Definition str (t : tbl) (i : Z) : string := nth (Z.to_nat i) t EmptyString.

(** external account as recorded: (chain type, chain reference id, remote address, traits) *)
Definition rinfo := (Z * Z * Z * list Z)%type.
(** snapshot validator as recorded: (validator, share, accounts) *)
Definition rval := (Z * Z * list rinfo)%type.
(** stored snapshot as observed through FindSnapshotByID: (id, validators, total, chains) *)
Definition rsnap := (Z * list rval * Z * list Z)%type.
(** staking validator as recorded: (validator, bonded, jailed, tokens) *)
Definition rsval := (Z * bool * bool * Z)%type.

Definition mk_info (t : tbl) (r : rinfo) : extinfo :=
  let '(ty, c, a, tr) := r in
  {| ei_type := str t ty; ei_chain := str t c; ei_addr := a; ei_traits := map (str t) tr |}.
Definition mk_val (t : tbl) (r : rval) : snapval :=
  let '(a, s, infos) := r in {| v_addr := a; v_share := s; v_infos := map (mk_info t) infos |}.
Definition mk_sval (r : rsval) : sval :=
  let '(a, b, j, t) := r in {| sv_addr := a; sv_bonded := b; sv_jailed := j; sv_tokens := t |}.
Definition mk_snap (t : tbl) (r : rsnap) : snapshot :=
  let '(id, vals, total, chains) := r in
  {| sn_id := id; sn_vals := map (mk_val t) vals; sn_total := total; sn_chains := map (str t) chains |}.

Fixpoint list_eqb2 {A B} (eqb : A -> B -> bool) (l1 : list A) (l2 : list B) : bool :=
  match l1, l2 with
  | [], [] => true
  | x :: r, y :: s => eqb x y && list_eqb2 eqb r s
  | _, _ => false
  end.

Definition info_eqb (e r : extinfo) : bool :=
  String.eqb (ei_type e) (ei_type r) && String.eqb (ei_chain e) (ei_chain r) && (ei_addr e =? ei_addr r)
  && list_eqb String.eqb (ei_traits e) (ei_traits r).
Definition val_eqb (v r : snapval) : bool :=
  (v_addr v =? v_addr r) && (v_share v =? v_share r) && list_eqb info_eqb (v_infos v) (v_infos r).
Definition snap_eqb (sn r : snapshot) : bool :=
  (sn_id sn =? sn_id r) && list_eqb val_eqb (sn_vals sn) (sn_vals r) && (sn_total sn =? sn_total r)
  && list_eqb String.eqb (sn_chains sn) (sn_chains r).

Definition zz_eqb (p q : Z * Z) : bool := (fst p =? fst q) && (snd p =? snd q).

(** multiset equality of (address, power) lists by mutual removal *)
Fixpoint remove_one (x : Z * Z) (l : list (Z * Z)) : option (list (Z * Z)) :=
  match l with
  | [] => None
  | y :: r => if zz_eqb x y then Some r
              else match remove_one x r with Some r' => Some (y :: r') | None => None end
  end.
Fixpoint perm_eqb (l1 l2 : list (Z * Z)) : bool :=
  match l1 with
  | [] => match l2 with [] => true | _ => false end
  | x :: r => match remove_one x l2 with Some l2' => perm_eqb r l2' | None => false end
  end.

(** The entry list sent: exactly the model's for up to 20 snapshot validators (Go's stable sort is
    one insertion sort there); above that the power sequence exactly and the entries as a multiset
    (only the order among equal shares can differ). *)
Definition valset_eqb (nvals : nat) (model got : list (Z * Z)) : bool :=
  if Nat.leb nvals 20 then list_eqb zz_eqb model got
  else list_eqb Z.eqb (map snd model) (map snd got) && perm_eqb model got.

Definition check_sent (t : tbl) (st : state) (m : Z * Z * list (Z * Z)) : bool :=
  let '(c, id, got) := m in
  match find_snapshot st id with
  | None => false
  | Some sn => valset_eqb (length (sn_vals sn)) (transform sn (str t c)) got && is_enough (map snd got)
  end.

(** model's view of the store: entries for ids 1..counter (None if absent), newest first *)
Fixpoint listing_from (st : state) (n : nat) (id : Z) : list (option snapshot) :=
  match n with
  | O => []
  | S n' => find_snapshot st id :: listing_from st n' (id - 1)
  end.
Definition listing (st : state) : list (option snapshot) :=
  listing_from st (Z.to_nat (st_counter st)) (st_counter st).

(** one step of a recorded history *)
Inductive hop :=
| HStaking (vs : list rsval)
| HRegister (a : Z) (infos : list rinfo) (accepted : bool)
| HChains (cs : list (Z * bool))         (* the evm keeper's chain infos in store order: (reference id, IsActive) *)
| HBuild (created : rsnap) (stored : bool)   (* createNewSnapshot's result, and whether TriggerSnapshotBuild stored one *)
| HSetOnChain (id c : Z) (ok : bool)
| HJit (c : Z).                          (* justInTimeValsetUpdate for chain c: no valset-state change *)

(** observation after a step: current snapshot id (0 = none), the stored snapshots for ids
    lastid..1 (newest first; the harness also probes id 0 and lastid+1, +2 and fails on the spot if
    they exist), and the UpdateValset messages that newly appeared: (chain, valset id, entries). *)
Record obs := { o_current : Z; o_store : list rsnap; o_sent : list (Z * Z * list (Z * Z)) }.

Definition op_of (t : tbl) (h : hop) : op :=
  match h with
  | HJit _ => OBuild false
  | HStaking vs => OStaking (map mk_sval vs)
  | HRegister a infos acc => ORegister a (map (mk_info t) infos) acc
  | HChains cs => OChains (map (fun c => (str t (fst c), snd c)) cs)
  | HBuild _ stored => OBuild stored
  | HSetOnChain id c _ => OSetOnChain id (str t c)
  end.

Definition pre_ok (t : tbl) (st : state) (h : hop) : bool :=
  match h with
  | HBuild created stored =>
      (* createNewSnapshot's result, and TriggerSnapshotBuild stored it exactly when the model's
         isNewSnapshotWorthy says so (nothing about the build is taken from the implementation) *)
      snap_eqb (create st) (mk_snap t created) && Bool.eqb stored (build_verdict st)
  | HSetOnChain id _ ok => Bool.eqb ok (match find_snapshot st id with Some _ => true | None => false end)
  | _ => true
  end.

Definition osnap_eqb (t : tbl) (o : option snapshot) (r : rsnap) : bool :=
  match o with Some sn => snap_eqb sn (mk_snap t r) | None => false end.

Definition post_ok (t : tbl) (st : state) (o : obs) : bool :=
  (match current st with Some sn => sn_id sn | None => 0 end =? o_current o)
  && list_eqb2 (osnap_eqb t) (listing st) (o_store o)
  && forallb (check_sent t st) (o_sent o).

Fixpoint hist_ok (t : tbl) (st : state) (l : list (hop * obs)) : bool :=
  match l with
  | [] => true
  | (h, o) :: r =>
      pre_ok t st h && (let st' := step st (op_of t h) in post_ok t st' o && hist_ok t st' r)
  end.

Inductive case :=
| CTransform (t : tbl) (vals : list rval) (c : Z) (got : list (Z * Z)) (enough : bool)
| CHist (t : tbl) (l : list (hop * obs))
  (* evm Keeper.MissingChains called with [input] on a store holding [chains] returned [got] *)
| CMissing (t : tbl) (input : list Z) (chains : list (Z * bool)) (got : list Z).

Definition check (cs : case) : bool :=
  match cs with
  | CTransform t vals c got enough =>
      let vs := map (mk_val t) vals in
      valset_eqb (length vs) (transform_vals vs (str t c)) got && Bool.eqb (is_enough (map snd got)) enough
  | CHist t l => hist_ok t init l
  | CMissing t input chains got =>
      list_eqb String.eqb
        (missing_chains (map (str t) input) (map (fun c => (str t (fst c), snd c)) chains))
        (map (str t) got)
  end.
