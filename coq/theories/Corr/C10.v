(** Correspondence cases for C10: the harness records inputs / histories and what the real
    keepers returned; [check] re-runs the model and compares projected observables. *)
From Coq Require Import List ZArith Bool.
From Paloma Require Import Base.Corr Base.Num Valset.Snapshot Evm.Compass.
Import ListNotations.
Open Scope Z_scope.

(** external account as recorded: (is-evm, chain, remote address) *)
Definition rinfo := (bool * Z * Z)%type.
(** snapshot validator as recorded: (validator, share, accounts) *)
Definition rval := (Z * Z * list rinfo)%type.
(** stored snapshot as observed through FindSnapshotByID: (id, validators, total, chains) *)
Definition rsnap := (Z * list rval * Z * list Z)%type.
(** staking validator as recorded: (validator, bonded, jailed, tokens) *)
Definition rsval := (Z * bool * bool * Z)%type.

Definition mk_info (r : rinfo) : extinfo :=
  let '(evm, c, a) := r in {| ei_evm := evm; ei_chain := c; ei_addr := a |}.
Definition mk_val (r : rval) : snapval :=
  let '(a, s, infos) := r in {| v_addr := a; v_share := s; v_infos := map mk_info infos |}.
Definition mk_sval (r : rsval) : sval :=
  let '(a, b, j, t) := r in {| sv_addr := a; sv_bonded := b; sv_jailed := j; sv_tokens := t |}.

Fixpoint list_eqb2 {A B} (eqb : A -> B -> bool) (l1 : list A) (l2 : list B) : bool :=
  match l1, l2 with
  | [], [] => true
  | x :: r, y :: s => eqb x y && list_eqb2 eqb r s
  | _, _ => false
  end.

Definition info_eqb (e : extinfo) (r : rinfo) : bool :=
  let '(evm, c, a) := r in Bool.eqb (ei_evm e) evm && (ei_chain e =? c) && (ei_addr e =? a).
Definition val_eqb (v : snapval) (r : rval) : bool :=
  let '(a, s, infos) := r in (v_addr v =? a) && (v_share v =? s) && list_eqb2 info_eqb (v_infos v) infos.
Definition snap_eqb (sn : snapshot) (r : rsnap) : bool :=
  let '(id, vals, total, chains) := r in
  (sn_id sn =? id) && list_eqb2 val_eqb (sn_vals sn) vals && (sn_total sn =? total)
  && list_eqb Z.eqb (sn_chains sn) chains.

Definition zz_eqb (p q : Z * Z) : bool := (fst p =? fst q) && (snd p =? snd q).

(** multiset equality of (address, power) lists by mutual removal *)
Fixpoint remove_one (x : Z * Z) (l : list (Z * Z)) : option (list (Z * Z)) :=
  match l with
  | [] => None
  | y :: r => if zz_eqb x y then Some r
              else match remove_one x r with Some r' => Some (y :: r') | None => None end
  end.
Fixpoint perm_eqb (l1 l2 : list (Z * Z)) : bool :=
  match l1 with
  | [] => match l2 with [] => true | _ => false end
  | x :: r => match remove_one x l2 with Some l2' => perm_eqb r l2' | None => false end
  end.

(** The entry list sent: exactly the model's for up to 20 snapshot validators (Go's stable sort is
    one insertion sort there); above that the power sequence exactly and the entries as a multiset
    (only the order among equal shares can differ). *)
Definition valset_eqb (nvals : nat) (model got : list (Z * Z)) : bool :=
  if Nat.leb nvals 20 then list_eqb zz_eqb model got
  else list_eqb Z.eqb (map snd model) (map snd got) && perm_eqb model got.

Definition check_sent (st : state) (m : Z * Z * list (Z * Z)) : bool :=
  let '(c, id, got) := m in
  match find_snapshot st id with
  | None => false
  | Some sn => valset_eqb (length (sn_vals sn)) (transform sn c) got && is_enough (map snd got)
  end.

(** model's view of the store: entries for ids 1..counter (None if absent), newest first *)
Fixpoint listing_from (st : state) (n : nat) (id : Z) : list (option snapshot) :=
  match n with
  | O => []
  | S n' => find_snapshot st id :: listing_from st n' (id - 1)
  end.
Definition listing (st : state) : list (option snapshot) :=
  listing_from st (Z.to_nat (st_counter st)) (st_counter st).

(** one step of a recorded history *)
Inductive hop :=
| HStaking (vs : list rsval)
| HRegister (a : Z) (infos : list rinfo) (accepted : bool)
| HActive (cs : list Z)
| HBuild (created : rsnap) (stored : bool)   (* createNewSnapshot's result, and whether TriggerSnapshotBuild stored one *)
| HSetOnChain (id c : Z) (ok : bool)
| HJit (c : Z).                          (* justInTimeValsetUpdate for chain c: no valset-state change *)

(** observation after a step: current snapshot id (0 = none), the stored snapshots for ids
    lastid..1 (newest first; the harness also probes id 0 and lastid+1, +2 and fails on the spot if
    they exist), and the UpdateValset messages that newly appeared: (chain, valset id, entries). *)
Record obs := { o_current : Z; o_store : list rsnap; o_sent : list (Z * Z * list (Z * Z)) }.

Definition op_of (h : hop) : op :=
  match h with
  | HJit _ => OBuild false
  | HStaking vs => OStaking (map mk_sval vs)
  | HRegister a infos acc => ORegister a (map mk_info infos) acc
  | HActive cs => OActive cs
  | HBuild _ stored => OBuild stored
  | HSetOnChain id c _ => OSetOnChain id c
  end.

Definition pre_ok (st : state) (h : hop) : bool :=
  match h with
  | HBuild created _ => snap_eqb (create st) created
  | HSetOnChain id _ ok => Bool.eqb ok (match find_snapshot st id with Some _ => true | None => false end)
  | _ => true
  end.

Definition osnap_eqb (o : option snapshot) (r : rsnap) : bool :=
  match o with Some sn => snap_eqb sn r | None => false end.

Definition post_ok (st : state) (o : obs) : bool :=
  (match current st with Some sn => sn_id sn | None => 0 end =? o_current o)
  && list_eqb2 osnap_eqb (listing st) (o_store o)
  && forallb (check_sent st) (o_sent o).

Fixpoint hist_ok (st : state) (l : list (hop * obs)) : bool :=
  match l with
  | [] => true
  | (h, o) :: r =>
      pre_ok st h && (let st' := step st (op_of h) in post_ok st' o && hist_ok st' r)
  end.

Inductive case :=
| CTransform (vals : list rval) (c : Z) (got : list (Z * Z)) (enough : bool)
| CHist (l : list (hop * obs)).

Definition check (cs : case) : bool :=
  match cs with
  | CTransform vals c got enough =>
      let vs := map mk_val vals in
      valset_eqb (length vs) (transform_vals vs c) got && Bool.eqb (is_enough (map snd got)) enough
  | CHist l => hist_ok init l
  end.
