(** C14 — mulCeilUint64 (x/consensus/keeper/estimate.go) and validateMultiplicator
    (x/treasury/keeper/msg_server.go), as translated from the source (GenFn/MulCeilUint64.v,
    GenFn/ValidateMultiplicator.v), equal the model's [mul_ceil_u64] and [valid_multiplier]
    (Cons/Fees.v) for all inputs. *)
From Coq Require Import List ZArith Bool Lia.
From Paloma Require Import Base.Dec Trans.GoSem Trans.GoSemFacts Cons.Fees.
From Paloma Require GenFn.MulCeilUint64 GenFn.ValidateMultiplicator Gen.C14.
Open Scope Z_scope.

Lemma sgn_pos r : (0 <? Z.sgn r) = (0 <? r).
Proof. destruct r; reflexivity. Qed.

Lemma is_u64_to_uint64 q :
  (if negb (go_is_uint64 q) then Fail else Val (go_big_uint64 q)) = match to_uint64 q with Some v => Val v | None => Fail end.
Proof.
  unfold go_is_uint64, to_uint64, go_big_uint64, GoSem.two64.
  destruct ((0 <=? q) && (q <? 18446744073709551616)) eqn:E; cbn [negb]; [|reflexivity].
  apply andb_true_iff in E. destruct E as [E1 E2]. apply Z.leb_le in E1. apply Z.ltb_lt in E2.
  rewrite Z.abs_eq, Z.mod_small by lia. reflexivity.
Qed.

(** A stored multiplicator (raw LegacyDec integer [d], never nil) and any [n]: the code never
    panics; it returns an error exactly when the model yields [None], else the model's value. *)
Theorem mul_ceil_eq : forall d n : Z,
  GenFn.MulCeilUint64.mulCeilUint64 (Some d) n = match mul_ceil_u64 d n with Some v => Val v | None => Fail end.
Proof.
  tie mul_ceil_eq (intros d n; unfold GenFn.MulCeilUint64.mulCeilUint64, mul_ceil_u64, GenFn.MulCeilUint64.pkg_decPrecisionDivisor, prec;
    cbn [go_isnil go_deref bind]; destruct (d <? 0); [reflexivity|]; cbv zeta; rewrite sgn_pos;
    destruct (0 <? Z.rem (d * n) 1000000000000000000); apply is_u64_to_uint64).
Qed.

(** a nil Dec is an error, not a panic *)
Theorem mul_ceil_nil : forall n : Z, GenFn.MulCeilUint64.mulCeilUint64 None n = Fail.
Proof. tie mul_ceil_nil (reflexivity). Qed.

Theorem valid_multiplier_eq : forall m : Z,
  GenFn.ValidateMultiplicator.validateMultiplicator (Some m) = if valid_multiplier m then Val tt else Fail.
Proof.
  tie valid_multiplier_eq (intros m; unfold GenFn.ValidateMultiplicator.validateMultiplicator, valid_multiplier, max_multiplier, of_int,
    Gen.C14.max_relayer_fee_multiplicator, GenFn.ValidateMultiplicator.pkg_maxRelayerFeeMultiplicator, prec;
    cbn [go_isnil go_deref bind]; destruct (0 <? m); cbn [negb andb]; [|reflexivity];
    replace (1000000 * 1000000000000000000) with 1000000000000000000000000 by reflexivity;
    destruct (1000000000000000000000000 <? m) eqn:A, (m <=? 1000000000000000000000000) eqn:B; try reflexivity; lia).
Qed.

Theorem valid_multiplier_nil : GenFn.ValidateMultiplicator.validateMultiplicator None = Fail.
Proof. tie valid_multiplier_nil (reflexivity). Qed.
