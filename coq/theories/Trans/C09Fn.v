(** C09 — mulCeilUint64 (x/consensus/keeper/estimate.go) and validateMultiplicator
    (x/treasury/keeper/msg_server.go), as translated from the source (GenFn/MulCeilUint64.v,
    GenFn/ValidateMultiplicator.v), equal the model's [mul_ceil_u64] and [valid_mult]
    (Sys/EndBlock.v): in particular the translated code has no [Panic] outcome on any input. *)
From Coq Require Import List ZArith Bool Lia.
From Paloma Require Import Base.Num Base.Dec Trans.GoSem Trans.GoSemFacts Sys.EndBlock.
From Paloma Require GenFn.MulCeilUint64 GenFn.ValidateMultiplicator Gen.C09.
Open Scope Z_scope.

Definition of_result {A} (r : result A) : res A :=
  match r with Ok v => Val v | Err _ => Fail | EndBlock.Panic _ => GoSem.Panic end.

Lemma sgn_pos r : (0 <? Z.sgn r) = (0 <? r).
Proof. destruct r; reflexivity. Qed.

(** The model divides with [/] and [mod] (floor), the code with big.Int.QuoRem (truncation); they
    agree because the product is non-negative behind the sign guard ([n] is a uint64). *)
Theorem mul_ceil_eq : forall d n : Z, 0 <= n ->
  GenFn.MulCeilUint64.mulCeilUint64 (Some d) n = of_result (mul_ceil_u64 d n).
Proof.
  tie mul_ceil_eq (intros d n Hn; unfold GenFn.MulCeilUint64.mulCeilUint64, mul_ceil_u64, GenFn.MulCeilUint64.pkg_decPrecisionDivisor, prec;
    cbn [go_isnil go_deref bind]; destruct (d <? 0) eqn:D; [reflexivity|]; apply Z.ltb_ge in D; cbv zeta; rewrite sgn_pos;
    assert (P : 0 <= d * n) by lia;
    rewrite Z.quot_div_nonneg, Z.rem_mod_nonneg by lia;
    assert (Q : 0 <= d * n / 1000000000000000000) by (apply Z.div_pos; lia);
    unfold go_is_uint64, go_big_uint64, GoSem.two64, Base.Num.two64;
    destruct (0 <? (d * n) mod 1000000000000000000);
    [ destruct (d * n / 1000000000000000000 + 1 <? 18446744073709551616) eqn:E;
      [ apply Z.ltb_lt in E; replace (0 <=? d * n / 1000000000000000000 + 1) with true by (symmetry; apply Z.leb_le; lia);
        cbn [andb negb of_result]; rewrite Z.abs_eq, Z.mod_small by lia; reflexivity
      | rewrite andb_false_r; reflexivity ]
    | destruct (d * n / 1000000000000000000 <? 18446744073709551616) eqn:E;
      [ apply Z.ltb_lt in E; replace (0 <=? d * n / 1000000000000000000) with true by (symmetry; apply Z.leb_le; lia);
        cbn [andb negb of_result]; rewrite Z.abs_eq, Z.mod_small by lia; reflexivity
      | rewrite andb_false_r; reflexivity ] ]).
Qed.

Theorem mul_ceil_never_panics : forall (d : option Z) (n : Z), 0 <= n ->
  GenFn.MulCeilUint64.mulCeilUint64 d n <> GoSem.Panic.
Proof.
  tie mul_ceil_never_panics (intros [d|] n Hn; [ rewrite mul_ceil_eq by exact Hn; unfold mul_ceil_u64;
      destruct (d <? 0); [discriminate|]; cbv zeta; match goal with |- context [if ?c then Ok _ else _] => destruct c end; discriminate
    | discriminate ]).
Qed.

(** validateMultiplicator: nil and out-of-range multiplicators are errors, never panics *)
Theorem valid_mult_eq : forall m : option Z,
  GenFn.ValidateMultiplicator.validateMultiplicator m = if valid_mult m then Val tt else Fail.
Proof.
  tie valid_mult_eq (intros [m|]; [|reflexivity];
    unfold GenFn.ValidateMultiplicator.validateMultiplicator, valid_mult, max_mult, max_mult_units, Gen.C09.max_multiplicator_units,
      GenFn.ValidateMultiplicator.pkg_maxRelayerFeeMultiplicator, prec;
    cbn [go_isnil go_deref bind]; destruct (0 <? m); cbn [negb andb]; [|reflexivity];
    replace (1000000 * 1000000000000000000) with 1000000000000000000000000 by reflexivity;
    destruct (1000000000000000000000000 <? m) eqn:A, (m <=? 1000000000000000000000000) eqn:B; try reflexivity; lia).
Qed.
