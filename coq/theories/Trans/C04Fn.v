(** C04 — consensusPower.consensus (util/libcons/consensus.go) and palomath.Median at uint64
    (util/palomath/median.go), as translated from the source (GenFn/Consensus.v, GenFn/Median.v),
    equal the model's [consensus] (Cons/Quorum.v) and [median64] (Cons/Median.v). *)
From Coq Require Import List ZArith Bool Lia Arith.
From Paloma Require Import Base.Num Trans.GoSem Trans.GoSemFacts Cons.Median Cons.MedianProofs Cons.Quorum.
From Paloma Require GenFn.Consensus GenFn.Median Gen.C04.
Import ListNotations.
Open Scope Z_scope.

(** The tally [t] is [None] until the first add (the zero-valued math.Int).  math.Int.Mul panics
    when a product needs more than 256 bits; the model has no such bound, hence the two range
    hypotheses (shares are token amounts, far below 2^254). *)
Theorem consensus_eq : forall (sn : snapshot) (t : option Z),
  (forall s, t = Some s -> fits256 (s * 3) /\ fits256 (sn_total sn * 2)) ->
  GenFn.Consensus.consensus t (sn_total sn) = Val (consensus sn t).
Proof.
  tie consensus_eq (intros sn t H; unfold GenFn.Consensus.consensus, consensus, Gen.C04.quorum_total_factor, Gen.C04.quorum_sum_factor;
    destruct t as [s|]; cbn [go_isnil go_deref bind]; [|reflexivity];
    destruct (H s eq_refl) as [H1 H2]; rewrite (sdk_chk_fits _ H1); cbn [bind]; rewrite (sdk_chk_fits _ H2); cbn [bind];
    f_equal; f_equal; lia).
Qed.

(** ** Median *)
Lemma go_sort_insert_eq x l : go_sort_insert x l = insert_sorted x l.
Proof. tie median_eq_sort_insert (induction l as [|y r IH]; cbn; [reflexivity | rewrite IH; reflexivity]). Qed.

Lemma go_sort_eq l : go_sort l = zsort l.
Proof. tie median_eq_sort (unfold go_sort, zsort; induction l as [|y r IH]; cbn; [reflexivity | rewrite IH; apply go_sort_insert_eq]). Qed.

Lemma go_copy_full (s : list Z) : go_copy (repeat 0 (length s)) s = s.
Proof.
  tie median_eq_copy (unfold go_copy; rewrite repeat_length, firstn_all, skipn_all2 by (rewrite repeat_length; lia); apply app_nil_r).
Qed.

Lemma even_rem (n : nat) : (Z.rem (Z.of_nat n) 2 =? 0) = Nat.even n.
Proof.
  rewrite Z.rem_mod_nonneg by lia.
  replace 2 with (Z.of_nat 2) by reflexivity. rewrite <- Nat2Z.inj_mod.
  destruct (Nat.even n) eqn:E.
  - apply Nat.even_spec in E. destruct E as [k ->]. rewrite Nat.mul_comm, Nat.mod_mul by lia. reflexivity.
  - assert (O : Nat.odd n = true) by (rewrite <- Nat.negb_even, E; reflexivity).
    apply Nat.odd_spec in O. destruct O as [k ->].
    rewrite Nat.add_comm, Nat.mul_comm, Nat.mod_add by lia. reflexivity.
Qed.

Lemma half_quot (n : nat) : Z.quot (Z.of_nat n) 2 = Z.of_nat (Nat.div n 2).
Proof. rewrite Z.quot_div_nonneg by lia. replace 2 with (Z.of_nat 2) by reflexivity. rewrite <- Nat2Z.inj_div. reflexivity. Qed.

(** For every slice whose length is a Go int: no panic (both indices are in range) and the model's value. *)
Theorem median_eq : forall s : list Z, go_len s < two63 ->
  GenFn.Median.median s = Val (median64 s).
Proof.
  tie median_eq (intros s L; unfold GenFn.Median.median, median64;
  destruct s as [|x s']; [reflexivity|];
  set (s := x :: s') in *;
  assert (Lpos : 1 <= go_len s) by (unfold go_len, s; cbn [length]; lia);
  destruct (go_len s <? 1) eqn:E; [apply Z.ltb_lt in E; lia|];
  unfold go_make; destruct (go_len s <? 0) eqn:E0; [apply Z.ltb_lt in E0; lia|];
  cbn [bind]; replace (Z.to_nat (go_len s)) with (length s) by (unfold go_len; lia);
  rewrite go_copy_full, go_sort_eq; cbv zeta;
  set (w := zsort s);
  assert (Lw : length w = length s) by apply zsort_length;
  unfold go_len in *; rewrite Lw in *;
  set (n := length s) in *;
  rewrite even_rem, half_quot;
  assert (Hc : (Nat.div n 2 < n)%nat) by (apply Nat.div_lt; lia);
  destruct (Nat.even n) eqn:Ev;
  [ assert (Hc1 : (1 <= Nat.div n 2)%nat)
      by (apply Nat.even_spec in Ev; destruct Ev as [k Hk]; rewrite Hk, Nat.mul_comm, Nat.div_mul by lia; lia);
    rewrite go_i64_small by (unfold in_i64, two63 in *; lia);
    rewrite (go_index_nth w (Z.of_nat (Nat.div n 2) - 1) 0) by (unfold go_len; rewrite Lw; fold n; lia);
    rewrite (go_index_nth w (Z.of_nat (Nat.div n 2)) 0) by (unfold go_len; rewrite Lw; fold n; lia);
    cbn [bind]; rewrite Nat2Z.id;
    replace (Z.to_nat (Z.of_nat (Nat.div n 2) - 1)) with (Nat.div n 2 - 1)%nat by lia;
    reflexivity
  | rewrite (go_index_nth w (Z.of_nat (Nat.div n 2)) 0) by (unfold go_len; rewrite Lw; fold n; lia);
    rewrite Nat2Z.id; reflexivity ]).
Qed.
