(** C12 — deriveJailSentence and calculateJailSentenceResetThreshold (x/valset/keeper/keeper.go), as
    translated from the source (GenFn/DeriveJailSentence.v, GenFn/JailSentenceResetThreshold.v),
    equal the model's [next_sentence] and [reset_threshold] (Valset/KeepAlive.v). *)
From Coq Require Import List ZArith Bool Lia.
From Paloma Require Import Trans.GoSem Trans.GoSemFacts Valset.KeepAlive.
From Paloma Require GenFn.DeriveJailSentence GenFn.JailSentenceResetThreshold Gen.C12.
Import ListNotations.
Open Scope Z_scope.

(** the table the loop runs over is the table the model uses *)
Lemma sentences_eq : GenFn.DeriveJailSentence.pkg_jailSentences = Gen.C12.jail_sentences.
Proof. tie next_sentence_eq_table (reflexivity). Qed.

Lemma sentence_loop : forall (d : Z) (K : res Z) (l : list Z),
  (fix go_loop1 (go_l1 : list Z) {struct go_l1} : res Z :=
     match go_l1 with
     | nil => K
     | cons sentence go_r1 => if d <? sentence then Val sentence else go_loop1 go_r1
     end) l
  = match find (fun s => d <? s) l with Some s => Val s | None => K end.
Proof.
  tie next_sentence_eq_loop (intros d K; induction l as [|x r IH]; [reflexivity | cbn [find]; destruct (d <? x); [reflexivity | exact IH]]).
Qed.

(** For every duration: no panic (the table is not empty) and the model's value. *)
Theorem next_sentence_eq : forall d : Z,
  GenFn.DeriveJailSentence.deriveJailSentence d = Val (next_sentence d).
Proof.
  tie next_sentence_eq (intros d; unfold GenFn.DeriveJailSentence.deriveJailSentence, next_sentence, last_sentence;
    rewrite sentence_loop, sentences_eq;
    destruct (find (fun s => d <? s) Gen.C12.jail_sentences); [reflexivity | vm_compute; reflexivity]).
Qed.

(** The model adds in Z; the code adds time.Durations (int64, wraps).  They agree whenever the sum
    fits, which covers every stored duration (at most 24 h, then + 5 %). *)
Theorem reset_threshold_eq : forall d : Z, in_i64 (d + Z.quot d 20) ->
  GenFn.JailSentenceResetThreshold.calculateJailSentenceResetThreshold d = reset_threshold d.
Proof.
  tie reset_threshold_eq (intros d H; unfold GenFn.JailSentenceResetThreshold.calculateJailSentenceResetThreshold, reset_threshold,
    Gen.C12.reset_floor, Gen.C12.reset_div; rewrite go_i64_small by exact H; reflexivity).
Qed.

(** Outside that range model and code differ (an int64 duration of about 278 years); recorded in
    design/GoTrans.md as an observation about the model, unreachable from the stored sentences. *)
Lemma reset_threshold_differs_when_sum_wraps :
  exists d, in_i64 d /\ GenFn.JailSentenceResetThreshold.calculateJailSentenceResetThreshold d <> reset_threshold d.
Proof. exists (two63 - 1). split; [unfold in_i64, two63; lia | vm_compute; discriminate]. Qed.
