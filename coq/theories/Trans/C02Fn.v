(** C02 — the threshold arithmetic of x/skyway/keeper/attestation.go TryAttestation, as translated
    from the source (GenFn/TryAttestation.v), equals the model's (Skyway/Oracle.v). *)
From Coq Require Import List ZArith Bool Lia.
From Paloma Require Import Trans.GoSem Trans.GoSemFacts Skyway.Oracle.
From Paloma Require GenFn.TryAttestation Gen.C02.
Open Scope Z_scope.

(** requiredPower = Threshold.Mul(totalPower).Quo(NewInt(100)); math.Int.Mul panics beyond 256 bits,
    which the model does not represent (total power is an int64 in the staking module). *)
Theorem required_eq : forall s : state,
  fits256 (Gen.C02.threshold_num * total s) ->
  GenFn.TryAttestation.tryAttestation_requiredPower (total s) = Val (required s).
Proof.
  tie required_eq (intros s H; unfold GenFn.TryAttestation.tryAttestation_requiredPower, required,
    GenFn.TryAttestation.pkg_AttestationVotesPowerThreshold, Gen.C02.threshold_num, Gen.C02.threshold_den in *;
    rewrite sdk_chk_fits by exact H; reflexivity).
Qed.

Theorem required_overflow_panics : forall t : Z,
  ~ fits256 (66 * t) -> GenFn.TryAttestation.tryAttestation_requiredPower t = Panic.
Proof.
  tie required_overflow_panics (intros t H; unfold GenFn.TryAttestation.tryAttestation_requiredPower,
    GenFn.TryAttestation.pkg_AttestationVotesPowerThreshold; rewrite sdk_chk_overflow by exact H; reflexivity).
Qed.

(** attestationPower.GT(requiredPower) *)
Theorem fires_eq : forall req x : Z, GenFn.TryAttestation.tryAttestation_fires x req = exceeds req x.
Proof.
  tie fires_eq (intros; unfold GenFn.TryAttestation.tryAttestation_fires, exceeds, Gen.C02.threshold_strict; reflexivity).
Qed.

(** the running sum of [fire_prefix]: starts at NewInt(0), adds NewInt(validatorPower) *)
Theorem tally_start_eq : GenFn.TryAttestation.tryAttestation_initialPower = 0.
Proof. tie tally_start_eq (reflexivity). Qed.

Theorem tally_step_eq : forall acc p : Z, fits256 (acc + p) ->
  GenFn.TryAttestation.tryAttestation_addVote acc p = Val (acc + p).
Proof.
  tie tally_step_eq (intros acc p H; unfold GenFn.TryAttestation.tryAttestation_addVote; rewrite sdk_chk_fits by exact H; reflexivity).
Qed.
