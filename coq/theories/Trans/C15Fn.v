(** C15 — the bridge-tax expression of bridgeTaxAmount and the window / running-total / limit
    statements of UpdateBridgeTransferUsageWithLimit (x/skyway/keeper/keeper.go), as translated from
    the source (GenFn/BridgeTaxAmount.v, GenFn/BridgeTransferUsage.v), equal the model's
    [tax_amount] arithmetic and [next_usage] + limit comparison (Skyway/TaxLimit.v). *)
From Coq Require Import List ZArith Bool Lia.
From Paloma Require Import Trans.GoSem Trans.GoSemFacts Skyway.TaxLimit.
From Paloma Require GenFn.BridgeTaxAmount GenFn.BridgeTransferUsage Gen.C15.
Import ListNotations.
Open Scope Z_scope.

Lemma two256_eq : TaxLimit.two256 = GoSem.two256.
Proof. vm_compute. reflexivity. Qed.

Lemma chk_fits x : go_sdk_chk x = if fits x then Val x else GoSem.Panic.
Proof. unfold go_sdk_chk, fits. rewrite two256_eq. reflexivity. Qed.

(** num := NewIntFromBigInt(rate.Num()); denom := NewIntFromBigInt(rate.Denom());
    amount.Mul(num).Quo(denom) — for every amount, numerator and non-zero denominator (a big.Rat's
    denominator is positive): same panics (256-bit checks) and same value as the model. *)
Theorem tax_tail_eq : forall a n d : Z, d <> 0 ->
  res_to_option (GenFn.BridgeTaxAmount.bridgeTaxAmount_tail a n d)
  = if fits n && fits d && fits (a * n) then Some (Gen.C15.tax_formula a n d) else None.
Proof.
  tie tax_tail_eq (intros a n d Hd; unfold GenFn.BridgeTaxAmount.bridgeTaxAmount_tail, Gen.C15.tax_formula;
    rewrite chk_fits; destruct (fits n); cbn [bind andb res_to_option]; [|reflexivity];
    rewrite chk_fits; destruct (fits d); cbn [bind andb res_to_option]; [|reflexivity];
    rewrite chk_fits; destruct (fits (a * n)); cbn [bind andb res_to_option]; [|reflexivity];
    unfold go_quo; destruct (d =? 0) eqn:E; [apply Z.eqb_eq in E; contradiction | reflexivity]).
Qed.

(** what the rest of bridgeTaxAmount (store read, rate parsing, zero-rate and exemption returns)
    looked like when this tie was reviewed *)
Theorem tax_context_pinned :
  GenFn.BridgeTaxAmount.bridgeTaxAmount_tail_context_digest
  = [0xb83c3ac701e86b94; 0x742e2efb09af0f9a; 0x45e0596fdcbcfb73; 0x3e61961837ed6a6e].
Proof. tie tax_context_pinned (reflexivity). Qed.

(** The stored tally the code looks at: nothing (nil record or nil total) or a record. *)
Definition usage_nil (cur : option usage) : bool := match cur with None => true | Some _ => false end.
Definition usage_total (cur : option usage) : option Z := option_map u_total cur.
Definition usage_start (cur : option usage) : Z := match cur with None => 0 | Some u => u_start u end.

Definition model_outcome (L h a limit : Z) (cur : option usage) : res (Z * Z) :=
  match next_usage L h a cur with
  | None => GoSem.Panic
  | Some nu => if Gen.C15.limit_exceeded (u_total nu) limit then Fail else Val (u_total nu, u_start nu)
  end.

(** For every stored tally, height, window length, amount and limit (block heights are int64 and
    their difference does not wrap): same panic, same rejection, same new tally. *)
Theorem usage_window_eq : forall (L h a limit : Z) (cur : option usage),
  in_i64 (h - usage_start cur) ->
  GenFn.BridgeTransferUsage.updateUsage_window (usage_nil cur) (usage_total cur) (usage_start cur) h L a limit
  = model_outcome L h a limit cur.
Proof.
  tie usage_window_eq (intros L h a limit cur Hr; unfold GenFn.BridgeTransferUsage.updateUsage_window, model_outcome, next_usage,
    Gen.C15.window_restart, Gen.C15.fresh_total, Gen.C15.running_total, Gen.C15.limit_exceeded;
    destruct cur as [u|]; cbn [usage_nil usage_total usage_start option_map orb go_isnil u_total u_start] in *;
    [ rewrite go_i64_small by exact Hr; rewrite Z.geb_leb;
      destruct (L <=? h - u_start u); cbv zeta; cbn [u_total u_start];
      [ rewrite Z.gtb_ltb; destruct (limit <? a); reflexivity
      | cbn [go_deref bind]; rewrite chk_fits; destruct (fits (u_total u + a)); cbn [bind u_total u_start];
        [ rewrite Z.gtb_ltb; destruct (limit <? u_total u + a); reflexivity | reflexivity ] ]
    | cbv zeta; cbn [u_total u_start]; rewrite Z.gtb_ltb; destruct (limit <? a); reflexivity ]).
Qed.

(** a nil total inside a non-nil record restarts the window like a missing record *)
Theorem usage_window_nil_total : forall (L h a limit start : Z),
  GenFn.BridgeTransferUsage.updateUsage_window false None start h L a limit = model_outcome L h a limit None.
Proof.
  tie usage_window_nil_total (intros; unfold GenFn.BridgeTransferUsage.updateUsage_window, model_outcome, next_usage,
    Gen.C15.fresh_total, Gen.C15.limit_exceeded; cbn [orb go_isnil]; cbv zeta; cbn [u_total u_start];
    rewrite Z.gtb_ltb; destruct (limit <? a); reflexivity).
Qed.

Theorem usage_context_pinned :
  GenFn.BridgeTransferUsage.updateUsage_window_context_digest
  = [0xf12f7d1aa1d17aaa; 0xa5614a623721c58a; 0x2b843479acd4a819; 0xcc18d91f03b22168].
Proof. tie usage_context_pinned (reflexivity). Qed.
