(** Semantics of the Go subset read by the source translator (harness/cmd/extract/gotrans*.go).
    The generated files [GenFn/<Name>.v] are written over exactly these primitives; what is TRUSTED
    about the translator is that each Go construct means what its primitive here says
    (design/GoTrans.md lists them one by one).  Definitions only; small facts used by the
    equivalence proofs are in [Trans/GoSemFacts.v].

    Values: uint64 / int64 / int / time.Duration / sdkmath.Int / *big.Int are [Z]; a possibly
    zero-valued sdkmath.Int (nil inner pointer) and a possibly nil LegacyDec are [option Z]
    (LegacyDec = raw integer, value * 10^18); slices of integers are [list Z].
    A Go function that can panic or return a non-nil error has result type [res T]. *)
From Coq Require Import List ZArith Bool.
Import ListNotations.
Open Scope Z_scope.

Inductive res (A : Type) : Type :=
| Val (a : A)     (* normal return (error result, if any, is nil) *)
| Fail            (* returns a non-nil error *)
| Panic.          (* run-time panic *)
Arguments Val {A} a.
Arguments Fail {A}.
Arguments Panic {A}.

Definition bind {A B : Type} (r : res A) (f : A -> res B) : res B :=
  match r with Val a => f a | Fail => Fail | Panic => Panic end.

Definition res_to_option {A : Type} (r : res A) : option A :=
  match r with Val a => Some a | _ => None end.

(** ** Machine integers *)
Definition two63 : Z := 9223372036854775808.
Definition two64 : Z := 18446744073709551616.
Definition two256 : Z := 115792089237316195423570985008687907853269984665640564039457584007913129639936.

Definition in_u64 (x : Z) : Prop := 0 <= x < two64.
Definition in_i64 (x : Z) : Prop := - two63 <= x < two63.

(** uint64 arithmetic wraps modulo 2^64; int64 / int / time.Duration wrap into [-2^63, 2^63). *)
Definition go_u64 (x : Z) : Z := x mod two64.
Definition go_i64 (x : Z) : Z := (x + two63) mod two64 - two63.

(** integer division: x / y and x % y panic when y = 0; signed division truncates toward zero *)
Definition go_u64_div (x y : Z) : res Z := if y =? 0 then Panic else Val (x / y).
Definition go_u64_mod (x y : Z) : res Z := if y =? 0 then Panic else Val (x mod y).
Definition go_i64_div (x y : Z) : res Z := if y =? 0 then Panic else Val (go_i64 (Z.quot x y)).
Definition go_i64_mod (x y : Z) : res Z := if y =? 0 then Panic else Val (Z.rem x y).

(** ** sdkmath.Int: arbitrary precision, every Add/Sub/Mul/NewIntFromBigInt result is checked to
    have at most 256 bits (panic otherwise); Quo panics on a zero divisor and truncates. *)
Definition go_sdk_chk (x : Z) : res Z := if Z.abs x <? two256 then Val x else Panic.
Definition go_quo (x y : Z) : res Z := if y =? 0 then Panic else Val (Z.quot x y).
Definition go_rem (x y : Z) : res Z := if y =? 0 then Panic else Val (Z.rem x y).
Definition go_is_uint64 (x : Z) : bool := (0 <=? x) && (x <? two64).
Definition go_is_int64 (x : Z) : bool := (- two63 <=? x) && (x <? two63).
(** sdkmath.Int.Uint64 / Int64 panic out of range *)
Definition go_sdk_uint64 (x : Z) : res Z := if go_is_uint64 x then Val x else Panic.
Definition go_sdk_int64 (x : Z) : res Z := if go_is_int64 x then Val x else Panic.
(** big.Int.Uint64: the low 64 bits of |x| (documented as undefined out of range; this is what
    math/big does) *)
Definition go_big_uint64 (x : Z) : Z := Z.abs x mod two64.
(** big.Int.Exp(x, y, nil): x^y, and 1 for y <= 0 *)
Definition go_big_exp (x y : Z) : Z := if y <=? 0 then 1 else x ^ y.
(** Cmp: -1, 0, +1 *)
Definition go_cmp (x y : Z) : Z := match x ?= y with Lt => -1 | Eq => 0 | Gt => 1 end.

(** ** nil-able values: calling a method on the zero value dereferences a nil pointer *)
Definition go_deref {A : Type} (o : option A) : res A := match o with Some a => Val a | None => Panic end.
Definition go_isnil {A : Type} (o : option A) : bool := match o with Some _ => false | None => true end.

(** ** LegacyDec: raw integer scaled by 10^LegacyPrecision *)
Definition go_dec_precision : Z := 18.
Definition go_dec_unit : Z := 1000000000000000000.

(** ** slices of integers *)
Definition go_len (l : list Z) : Z := Z.of_nat (List.length l).
(** s[i]: panics unless 0 <= i < len(s) *)
Definition go_index (l : list Z) (i : Z) : res Z :=
  if i <? 0 then Panic
  else match nth_error l (Z.to_nat i) with Some v => Val v | None => Panic end.
(** make([]T, n): n zeros (panics for n < 0) *)
Definition go_make (n : Z) : res (list Z) := if n <? 0 then Panic else Val (repeat 0 (Z.to_nat n)).
(** copy(dst, src): the first min(len) elements of dst are overwritten *)
Definition go_copy (dst src : list Z) : list Z :=
  firstn (List.length dst) src ++ skipn (List.length src) dst.
(** slices.Sort on integers: ascending order (the result is the unique sorted permutation, so any
    correct sorting function denotes it; insertion sort is used) *)
Fixpoint go_sort_insert (x : Z) (l : list Z) : list Z :=
  match l with
  | [] => [x]
  | y :: r => if x <=? y then x :: l else y :: go_sort_insert x r
  end.
Definition go_sort (l : list Z) : list Z := fold_right go_sort_insert [] l.
