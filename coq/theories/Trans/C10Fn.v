(** C10 — normalizePower and isEnoughToReachConsensus (x/evm/keeper/keeper.go), as translated from
    the source (GenFn/NormalizePower.v, GenFn/IsEnoughToReachConsensus.v), equal the model's
    [power_of] and [is_enough] (Evm/Compass.v) for all inputs. *)
From Coq Require Import List ZArith Bool Lia.
From Paloma Require Import Base.Num Trans.GoSem Trans.GoSemFacts Evm.Compass.
From Paloma Require GenFn.NormalizePower GenFn.IsEnoughToReachConsensus Gen.C10.
Import ListNotations.
Open Scope Z_scope.

(** For all share, total: the code never panics (the divisor is positive behind the guard) and
    yields the model's value.  The model divides with [/] (floor), the code with big.Int.Quo
    (truncation); they agree because both operands are non-negative behind the guard. *)
Theorem power_of_eq : forall share total : Z,
  GenFn.NormalizePower.normalizePower share total = Val (power_of share total).
Proof.
  tie power_of_eq (intros share total;
    unfold GenFn.NormalizePower.normalizePower, power_of, max_power, Gen.C10.max_power, GenFn.NormalizePower.pkg_maxPower;
    replace (negb (0 <? total)) with (total <=? 0) by (destruct (0 <? total) eqn:A, (total <=? 0) eqn:B; try reflexivity; lia);
    destruct ((total <=? 0) || (share <? 0)) eqn:G; [reflexivity|];
    apply orb_false_iff in G; destruct G as [G1 G2]; apply Z.leb_gt in G1; apply Z.ltb_ge in G2;
    cbv zeta; unfold go_quo; destruct (total =? 0) eqn:E; [apply Z.eqb_eq in E; lia|];
    cbn [bind]; f_equal; unfold go_big_uint64, u64, Base.Num.two64, GoSem.two64;
    rewrite Z.quot_div_nonneg by lia; rewrite Z.abs_eq by (apply Z.div_pos; lia); reflexivity).
Qed.

Lemma is_enough_loop : forall (powers : list Z) (acc : Z),
  (fix go_loop1 (go_l1 : list Z) (sum : Z) {struct go_l1} : bool :=
     match go_l1 with
     | nil => GenFn.IsEnoughToReachConsensus.pkg_thresholdForConsensus <=? sum
     | cons power go_r1 => let sum := go_u64 (sum + power) in go_loop1 go_r1 sum
     end) powers acc
  = (threshold <=? fold_left (fun s p => u64 (s + p)) powers acc).
Proof.
  tie is_enough_eq_loop (induction powers as [|p r IH]; intros acc;
    [ reflexivity | cbn [fold_left]; cbv zeta; rewrite IH; reflexivity ]).
Qed.

Theorem is_enough_eq : forall powers : list Z,
  GenFn.IsEnoughToReachConsensus.isEnoughToReachConsensus powers = is_enough powers.
Proof.
  tie is_enough_eq (intros; unfold GenFn.IsEnoughToReachConsensus.isEnoughToReachConsensus, is_enough, sum_u64; cbv zeta; apply is_enough_loop).
Qed.
