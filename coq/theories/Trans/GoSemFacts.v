(** Small facts about the primitives of [Trans/GoSem.v], and the tactic that names a broken tie. *)
From Coq Require Import List ZArith Bool Lia.
From Paloma Require Import Trans.GoSem.
Import ListNotations.
Open Scope Z_scope.

(** [tie name tac]: run [tac]; if it does not close the goal the error names the equivalence
    theorem, so that bin/check's report says which source-translation tie broke. *)
Tactic Notation "tie" ident(name) tactic3(tac) :=
  first [ solve [ tac ] | fail 1 "GenFn tie broken:" name "- the Go body translated from the source no longer equals the hand-written model" ].

Definition fits256 (x : Z) : Prop := Z.abs x < two256.

Lemma sdk_chk_fits x : fits256 x -> go_sdk_chk x = Val x.
Proof. unfold fits256, go_sdk_chk; intros H; destruct (Z.abs x <? two256) eqn:E; [reflexivity | apply Z.ltb_ge in E; lia]. Qed.

Lemma sdk_chk_overflow x : ~ fits256 x -> go_sdk_chk x = Panic.
Proof. unfold fits256, go_sdk_chk; intros H; destruct (Z.abs x <? two256) eqn:E; [apply Z.ltb_lt in E; lia | reflexivity]. Qed.

Lemma go_u64_small x : in_u64 x -> go_u64 x = x.
Proof. unfold in_u64, go_u64; intros; apply Z.mod_small; lia. Qed.

Lemma go_i64_small x : in_i64 x -> go_i64 x = x.
Proof. unfold in_i64, go_i64, two63, two64; intros; rewrite Z.mod_small; lia. Qed.

Lemma go_len_nonneg l : 0 <= go_len l.
Proof. unfold go_len; lia. Qed.

Lemma go_index_nth l i d : 0 <= i < go_len l -> go_index l i = Val (nth (Z.to_nat i) l d).
Proof.
  unfold go_index, go_len; intros H.
  destruct (i <? 0) eqn:E; [apply Z.ltb_lt in E; lia|].
  destruct (nth_error l (Z.to_nat i)) eqn:N.
  - erewrite nth_error_nth; eauto.
  - apply nth_error_None in N; lia.
Qed.
