(** C19 (second round) — proofs about the API model in PriorityNonceApi.v.

    The central object is [GInv st pd]: the four structures are in step with the pending set [pd]
    computed from the history alone, for EVERY history and configuration — in particular without the
    premise "at most one pending transaction per (sender, nonce)": a duplicate Insert replaces the
    priority-index key, the score and the counts, and leaves the sender-index key (with its old priority)
    in place, which is why the sender side is tied to [pd] by (sender, nonce) only. *)
From Coq Require Import List ZArith Bool String Lia Permutation Sorted.
From Paloma Require Import Mempool.PriorityNonce Mempool.PriorityNonceProofs Mempool.PriorityNonceApi.
From Paloma Require Gen.C19.
Import ListNotations.
Open Scope Z_scope.

(** ** small list facts *)

Lemma NoDup_map_filter {A B} (f : A -> B) (g : A -> bool) l : NoDup (map f l) -> NoDup (map f (filter g l)).
Proof.
  induction l as [|a l IH]; simpl; intros ND; [constructor|].
  inversion ND as [|? ? Hn ND']; subst. destruct (g a); simpl; [|auto].
  constructor; [|auto]. intros Hin. apply Hn. apply in_map_iff in Hin. destruct Hin as [x [E Hx]].
  apply filter_In in Hx. apply in_map_iff. exists x. tauto.
Qed.

Lemma not_sn_true s n t : not_sn s n t = true <-> tx_sn t <> (s, n).
Proof. unfold not_sn. destruct (sn_eqb_spec (tx_sn t) (s, n)); simpl; split; congruence. Qed.

Lemma filter_not_sn_notin s n pd : ~ In (s, n) (map tx_sn (filter (not_sn s n) pd)).
Proof.
  intros Hin. apply in_map_iff in Hin. destruct Hin as [t [E Ht]]. apply filter_In in Ht.
  destruct Ht as [_ Ht]. apply not_sn_true in Ht. congruence.
Qed.

Lemma filter_not_sn_id s n pd : ~ In (s, n) (map tx_sn pd) -> filter (not_sn s n) pd = pd.
Proof.
  intros Hn. apply filter_all_true. intros t Ht. apply not_sn_true. intros E. apply Hn. rewrite <- E. now apply in_map.
Qed.

Lemma pl_find_none s n pd : pl_find s n pd = None <-> ~ In (s, n) (map tx_sn pd).
Proof.
  induction pd as [|t pd IH]; simpl; [tauto|].
  destruct (sn_eqb_spec (tx_sn t) (s, n)) as [E|Hne].
  - split; [discriminate|]. intros H. exfalso. apply H. now left.
  - rewrite IH. split; [intros H [E|Hin]; [congruence|contradiction]|tauto].
Qed.

Lemma pl_find_some s n pd q : pl_find s n pd = Some q -> In (s, n, q) pd.
Proof.
  induction pd as [|t pd IH]; simpl; [discriminate|].
  destruct (sn_eqb_spec (tx_sn t) (s, n)) as [E|Hne]; [|auto].
  intros H. inversion H; subst. left. destruct t as [[s' n'] p']. unfold tx_sn, tx_prio in *; simpl in *. congruence.
Qed.

Lemma In_pl_find s n q pd : NoDup (map tx_sn pd) -> In (s, n, q) pd -> pl_find s n pd = Some q.
Proof.
  induction pd as [|t pd IH]; simpl; intros ND Hin; [contradiction|].
  inversion ND as [|? ? Hn ND']; subst.
  destruct Hin as [->|Hin].
  - unfold tx_sn; simpl. destruct (sn_eqb_spec (s, n) (s, n)); [reflexivity|congruence].
  - destruct (sn_eqb_spec (tx_sn t) (s, n)) as [E|Hne]; [|auto].
    exfalso. apply Hn. rewrite E. change (s, n) with (tx_sn (s, n, q)). now apply in_map.
Qed.

(** ** occ *)
Lemma occ_perm q a b : Permutation a b -> occ q a = occ q b.
Proof. intros HP. unfold occ. now rewrite (Permutation_length (Permutation_filter _ _ _ HP)). Qed.

Lemma occ_app q a b : occ q (a ++ b) = occ q a + occ q b.
Proof. unfold occ. rewrite filter_app, app_length. lia. Qed.

Lemma occ_one q t : occ q [t] = if tx_prio t =? q then 1 else 0.
Proof. unfold occ. simpl. destruct (tx_prio t =? q); reflexivity. Qed.

Lemma occ_cons q t l : occ q (t :: l) = (if tx_prio t =? q then 1 else 0) + occ q l.
Proof. change (t :: l) with ([t] ++ l). now rewrite occ_app, occ_one. Qed.

Lemma occ_nil q : occ q [] = 0.
Proof. reflexivity. Qed.

(** ** counts *)
Lemma cnt_get_add q p d m : cnt_get q (cnt_add p d m) = if q =? p then cnt_get p m + d else cnt_get q m.
Proof.
  unfold cnt_add, cnt_get at 1. destruct (Z.eqb_spec q p) as [->|Hne].
  - now rewrite (aget_aset_same Z.eqb Z.eqb_spec).
  - now rewrite (aget_aset_other Z.eqb Z.eqb_spec) by assumption.
Qed.

Lemma cnt_add_keys p d m : NoDup (map fst m) -> NoDup (map fst (cnt_add p d m)).
Proof. apply (aset_NoDup Z.eqb Z.eqb_spec). Qed.

(** ** sender lists *)
Lemma sl_set_present n p l : ssorted l -> In n (map fst l) -> sl_set n p l = l.
Proof.
  induction 1 as [|[n' p'] l HS IH HF]; simpl; intros Hin; [contradiction|].
  destruct (Z.compare_spec n n') as [E|Hlt|Hgt]; [reflexivity| |].
  - exfalso. destruct Hin as [E|Hin]; [lia|]. rewrite Forall_forall in HF.
    apply in_map_iff in Hin. destruct Hin as [[n2 p2] [E Hin]]. simpl in E. subst n2.
    specialize (HF _ Hin). unfold slt in HF. simpl in HF. lia.
  - destruct Hin as [E|Hin]; [lia|]. f_equal. now apply IH.
Qed.

Lemma sl_set_keys n p l : ssorted l -> ~ In n (map fst l) -> Permutation (map fst (sl_set n p l)) (n :: map fst l).
Proof. intros _ Hn. apply (Permutation_map fst (sl_set_perm n p l Hn)). Qed.

Lemma sl_remove_absent n l : ~ In n (map fst l) -> sl_remove n l = l.
Proof.
  induction l as [|[n' p'] l IH]; simpl; intros Hn; [reflexivity|].
  destruct (Z.eqb_spec n n') as [->|Hne]; [exfalso; apply Hn; now left|]. f_equal. apply IH. tauto.
Qed.

Lemma map_sn_tag s l : map tx_sn (tag s l) = map (fun e => (s, fst e)) l.
Proof. unfold tag. rewrite map_map. reflexivity. Qed.

(** ** The general invariant *)
Record GInv (st : state) (pd : list tx) : Prop := {
  g_nodup : NoDup (map tx_sn pd);
  g_sorted : psorted (pidx st);
  g_sc1 : forall k, In k (pidx st) ->
      aget sn_eqb (k_sender k, k_nonce k) (scores st) = Some (k_prio k, k_weight k);
  g_sc2 : forall s n p w, aget sn_eqb (s, n) (scores st) = Some (p, w) -> In (mkKey p w s n) (pidx st);
  g_pperm : Permutation (map key_tx (pidx st)) pd;
  g_skeys : NoDup (map fst (sidx st));
  g_ssorted : forall s sl, In (s, sl) (sidx st) -> ssorted sl;
  g_sperm : Permutation (map tx_sn (flatten (sidx st))) (map tx_sn pd);
  g_ckeys : NoDup (map fst (pcounts st));
  g_cnt : forall q, cnt_get q (pcounts st) = occ q pd
}.

Lemma GInv_init : GInv init [].
Proof.
  constructor; simpl; try constructor; try (intros; contradiction); try discriminate; try reflexivity.
Qed.

Section GFacts.
  Variables (st : state) (pd : list tx).
  Hypothesis HG : GInv st pd.

  Lemma g_PInv : PInv (pidx st) (scores st) pd.
  Proof. constructor; [apply (g_sorted _ _ HG)|apply (g_sc1 _ _ HG)|apply (g_sc2 _ _ HG)|apply (g_pperm _ _ HG)]. Qed.

  Lemma g_key_in_pd k : In k (pidx st) -> In (key_tx k) pd.
  Proof. intros H. eapply Permutation_in; [apply (g_pperm _ _ HG)|]. now apply in_map. Qed.

  Lemma g_pd_key t : In t pd -> exists k, In k (pidx st) /\ key_tx k = t.
  Proof.
    intros H. apply (Permutation_in _ (Permutation_sym (g_pperm _ _ HG))) in H.
    apply in_map_iff in H. destruct H as [k [E Hk]]. eauto.
  Qed.

  Lemma g_key_sn_unique k1 k2 :
    In k1 (pidx st) -> In k2 (pidx st) -> k_sender k1 = k_sender k2 -> k_nonce k1 = k_nonce k2 -> k1 = k2.
  Proof. apply (PInv_sn_unique _ _ _ _ _ g_PInv). Qed.

  Lemma g_scores_none s n : ~ In (s, n) (map tx_sn pd) -> aget sn_eqb (s, n) (scores st) = None.
  Proof.
    intros Hn. destruct (aget sn_eqb (s, n) (scores st)) as [[p w]|] eqn:E; [|reflexivity].
    exfalso. apply Hn. apply (g_sc2 _ _ HG) in E. apply g_key_in_pd in E.
    apply in_map_iff. exists (key_tx (mkKey p w s n)). split; [reflexivity|assumption].
  Qed.

  Lemma g_scores_some s n q : In (s, n, q) pd -> exists w, aget sn_eqb (s, n) (scores st) = Some (q, w).
  Proof.
    intros Hin. destruct (g_pd_key _ Hin) as [k [Hk Ek]]. pose proof (g_sc1 _ _ HG _ Hk) as S.
    unfold key_tx in Ek. inversion Ek; subst. eauto.
  Qed.

  (** the sender index holds exactly the pending (sender, nonce) pairs *)
  Lemma g_sidx_has s n : In (s, n) (map tx_sn pd) <-> In n (map fst (sget s (sidx st))).
  Proof.
    split.
    - intros Hin. apply (Permutation_in _ (Permutation_sym (g_sperm _ _ HG))) in Hin.
      apply in_map_iff in Hin. destruct Hin as [t [E Ht]]. apply flatten_In in Ht. destruct Ht as [l [Hl He]].
      destruct t as [[s' n'] p']. unfold tx_sn, tx_sender, tx_nonce, tx_prio in *; simpl in *. inversion E; subst.
      rewrite (sget_In _ _ _ (g_skeys _ _ HG) Hl). apply in_map_iff. exists (n, p'). auto.
    - intros Hin. apply in_map_iff in Hin. destruct Hin as [[n' p'] [E He]]. simpl in E. subst n'.
      destruct (sget_cases s (sidx st)) as [E|Hs]; [rewrite E in He; contradiction|].
      apply (Permutation_in _ (g_sperm _ _ HG)). apply in_map_iff. exists (s, n, p'). split; [reflexivity|].
      apply (In_flatten _ _ (n, p') _ Hs He).
  Qed.

  Lemma g_sget_sorted s : ssorted (sget s (sidx st)).
  Proof.
    destruct (sget_cases s (sidx st)) as [E|H]; [rewrite E; constructor|]. now apply (g_ssorted _ _ HG) in H.
  Qed.

  Lemma g_count : count st = Z.of_nat (List.length pd).
  Proof. unfold count. f_equal. rewrite <- (Permutation_length (g_pperm _ _ HG)). now rewrite map_length. Qed.
End GFacts.

Lemma Inv_GInv st pd : Inv st pd -> (NoDup (map fst (pcounts st)) /\ forall q, cnt_get q (pcounts st) = occ q pd) -> GInv st pd.
Proof.
  intros HI [Hk Hc]. constructor;
    [apply (inv_nodup _ _ HI)|apply (inv_sorted _ _ HI)|apply (inv_sc1 _ _ HI)|apply (inv_sc2 _ _ HI)|apply (inv_pperm _ _ HI)
    |apply (inv_skeys _ _ HI)|apply (inv_ssorted _ _ HI)|apply Permutation_map, (inv_sperm _ _ HI)|exact Hk|exact Hc].
Qed.

(** flatten under a rewrite of one sender's list, projected to (sender, nonce) *)
Lemma flatten_aset_sn s v m :
  Permutation (map tx_sn (tag s (sget s m)) ++ map tx_sn (flatten (aset Z.eqb s v m)))
              (map tx_sn (tag s v) ++ map tx_sn (flatten m)).
Proof. rewrite <- !map_app. apply Permutation_map, flatten_aset. Qed.

(** *** Insert of a (sender, nonce) that is not pending *)
Lemma GInv_insert_fresh st pd s n p :
  GInv st pd -> ~ In (s, n) (map tx_sn pd) -> GInv (insert s n p st) (pd ++ [(s, n, p)]).
Proof.
  intros HG Hn. unfold insert. rewrite (g_scores_none _ _ HG _ _ Hn).
  set (k0 := mkKey p 0 s n).
  assert (Hk0 : ~ In k0 (pidx st)).
  { intros Hin. apply Hn. apply (g_key_in_pd _ _ HG) in Hin. apply in_map_iff. exists (key_tx k0). auto. }
  assert (Hnn : ~ In n (map fst (sget s (sidx st)))) by (rewrite <- (g_sidx_has _ _ HG); exact Hn).
  constructor; simpl.
  - rewrite map_app. simpl. apply (Permutation_NoDup (Permutation_cons_append _ _)).
    constructor; [exact Hn|apply (g_nodup _ _ HG)].
  - apply pidx_set_sorted; [assumption|apply (g_sorted _ _ HG)].
  - intros k Hin. apply (Permutation_in _ (pidx_set_perm _ _ Hk0)) in Hin. destruct Hin as [<-|Hin].
    + simpl. apply (aget_aset_same sn_eqb sn_eqb_spec).
    + rewrite (aget_aset_other sn_eqb sn_eqb_spec); [now apply (g_sc1 _ _ HG)|].
      intros E. inversion E. apply Hn. apply (g_key_in_pd _ _ HG) in Hin.
      apply in_map_iff. exists (key_tx k). split; [|assumption]. unfold tx_sn, key_tx; simpl. congruence.
  - intros s' n' p' w' H.
    apply (Permutation_in _ (Permutation_sym (pidx_set_perm _ _ Hk0))).
    destruct (sn_eqb_spec (s', n') (s, n)) as [E|Hne].
    + inversion E; subst. rewrite (aget_aset_same sn_eqb sn_eqb_spec) in H. inversion H; subst. now left.
    + rewrite (aget_aset_other sn_eqb sn_eqb_spec) in H by assumption. right. now apply (g_sc2 _ _ HG).
  - eapply perm_trans; [apply Permutation_map, pidx_set_perm, Hk0|]. simpl.
    eapply perm_trans; [apply perm_skip, (g_pperm _ _ HG)|]. apply Permutation_cons_append.
  - apply (aset_NoDup Z.eqb Z.eqb_spec), (g_skeys _ _ HG).
  - intros s' sl' Hin. apply (In_aset_inv Z.eqb Z.eqb_spec) in Hin; [|apply (g_skeys _ _ HG)].
    destruct Hin as [[-> ->]|[_ Hin]]; [|now apply (g_ssorted _ _ HG) in Hin].
    apply sl_set_sorted; [assumption|apply (g_sget_sorted _ _ HG)].
  - pose proof (flatten_aset_sn s (sl_set n p (sget s (sidx st))) (sidx st)) as HF.
    assert (HT : Permutation (map tx_sn (tag s (sl_set n p (sget s (sidx st))))) ((s, n) :: map tx_sn (tag s (sget s (sidx st))))).
    { change ((s, n) :: map tx_sn (tag s (sget s (sidx st)))) with (map tx_sn (tag s ((n, p) :: sget s (sidx st)))).
      apply Permutation_map. unfold tag. apply Permutation_map, sl_set_perm, Hnn. }
    assert (HF2 : Permutation (map tx_sn (tag s (sget s (sidx st))) ++ map tx_sn (flatten (aset Z.eqb s (sl_set n p (sget s (sidx st))) (sidx st))))
                              (map tx_sn (tag s (sget s (sidx st))) ++ (s, n) :: map tx_sn (flatten (sidx st)))).
    { eapply perm_trans; [exact HF|]. eapply perm_trans; [apply Permutation_app_tail, HT|]. simpl.
      apply Permutation_middle. }
    apply Permutation_app_inv_l in HF2.
    eapply perm_trans; [exact HF2|]. rewrite map_app. simpl.
    eapply perm_trans; [apply perm_skip, (g_sperm _ _ HG)|]. apply Permutation_cons_append.
  - apply cnt_add_keys, (g_ckeys _ _ HG).
  - intros q. rewrite cnt_get_add, occ_app, occ_one. unfold tx_prio; simpl.
    rewrite (Z.eqb_sym p q). destruct (Z.eqb_spec q p) as [->|]; rewrite (g_cnt _ _ HG); lia.
Qed.

(** *** Insert of a (sender, nonce) that IS pending: replacement *)
Lemma GInv_insert_dup st pd s n p q :
  GInv st pd -> In (s, n, q) pd -> GInv (insert s n p st) (filter (not_sn s n) pd ++ [(s, n, p)]).
Proof.
  intros HG Hq. destruct (g_scores_some _ _ HG _ _ _ Hq) as [w Esc]. unfold insert. rewrite Esc.
  pose proof (g_sc2 _ _ HG _ _ _ _ Esc) as Hold. set (old := mkKey q w s n) in *.
  set (pi := pidx_remove old (pidx st)). set (k0 := mkKey p 0 s n).
  pose proof (g_nodup _ _ HG) as ND.
  assert (Hsn : forall k, In k pi -> (k_sender k, k_nonce k) <> (s, n)).
  { intros k Hin E. inversion E. assert (k = old).
    { apply (g_key_sn_unique _ _ HG); [eapply pidx_remove_incl; eauto|assumption|simpl; congruence|simpl; congruence]. }
    subst k. revert Hin. apply pidx_remove_gone, (g_sorted _ _ HG). }
  assert (Hk0 : ~ In k0 pi) by (intros Hin; apply (Hsn _ Hin); reflexivity).
  assert (HP1 : Permutation pd ((s, n, q) :: map key_tx pi)).
  { eapply perm_trans; [apply Permutation_sym, (g_pperm _ _ HG)|].
    apply (Permutation_map key_tx (pidx_remove_perm _ _ Hold)). }
  pose proof (remove_one_filter _ _ _ _ _ ND HP1) as HF1. fold (not_sn s n) in HF1.
  assert (Hnin : In n (map fst (sget s (sidx st)))).
  { apply (g_sidx_has _ _ HG). apply in_map_iff. exists (s, n, q). auto. }
  constructor; simpl.
  - rewrite map_app. simpl. apply (Permutation_NoDup (Permutation_cons_append _ _)).
    constructor; [apply filter_not_sn_notin|now apply NoDup_map_filter].
  - apply pidx_set_sorted; [assumption|apply pidx_remove_sorted, (g_sorted _ _ HG)].
  - intros k Hin. apply (Permutation_in _ (pidx_set_perm _ _ Hk0)) in Hin. destruct Hin as [<-|Hin].
    + simpl. apply (aget_aset_same sn_eqb sn_eqb_spec).
    + rewrite (aget_aset_other sn_eqb sn_eqb_spec) by (apply Hsn; assumption).
      apply (g_sc1 _ _ HG). eapply pidx_remove_incl; eauto.
  - intros s' n' p' w' H.
    apply (Permutation_in _ (Permutation_sym (pidx_set_perm _ _ Hk0))).
    destruct (sn_eqb_spec (s', n') (s, n)) as [E|Hne].
    + inversion E; subst. rewrite (aget_aset_same sn_eqb sn_eqb_spec) in H. inversion H; subst. now left.
    + rewrite (aget_aset_other sn_eqb sn_eqb_spec) in H by assumption. right.
      apply pidx_remove_keeps; [now apply (g_sc2 _ _ HG)|]. unfold old. intros E. inversion E; subst. congruence.
  - eapply perm_trans; [apply Permutation_map, pidx_set_perm, Hk0|]. simpl.
    eapply perm_trans; [apply perm_skip, HF1|]. apply Permutation_cons_append.
  - apply (aset_NoDup Z.eqb Z.eqb_spec), (g_skeys _ _ HG).
  - intros s' sl' Hin. apply (In_aset_inv Z.eqb Z.eqb_spec) in Hin; [|apply (g_skeys _ _ HG)].
    destruct Hin as [[-> ->]|[_ Hin]]; [|now apply (g_ssorted _ _ HG) in Hin].
    rewrite sl_set_present; [|apply (g_sget_sorted _ _ HG)|assumption]. apply (g_sget_sorted _ _ HG).
  - rewrite sl_set_present; [|apply (g_sget_sorted _ _ HG)|assumption].
    pose proof (flatten_aset_sn s (sget s (sidx st)) (sidx st)) as HF. apply Permutation_app_inv_l in HF.
    eapply perm_trans; [exact HF|]. eapply perm_trans; [apply (g_sperm _ _ HG)|].
    eapply perm_trans; [apply (Permutation_map tx_sn HP1)|]. simpl. rewrite map_app. simpl.
    eapply perm_trans; [apply perm_skip, (Permutation_map tx_sn HF1)|]. apply Permutation_cons_append.
  - apply cnt_add_keys, cnt_add_keys, (g_ckeys _ _ HG).
  - intros x. rewrite !cnt_get_add, occ_app, occ_one. cbn [tx_prio snd].
    rewrite <- (occ_perm x _ _ HF1).
    assert (HO : forall z, occ z pd = (if q =? z then 1 else 0) + occ z (map key_tx pi)).
    { intros z. rewrite (occ_perm z _ _ HP1), occ_cons. reflexivity. }
    rewrite !(g_cnt _ _ HG), !HO.
    destruct (Z.eqb_spec x p), (Z.eqb_spec x q), (Z.eqb_spec p x), (Z.eqb_spec q x), (Z.eqb_spec p q), (Z.eqb_spec q q), (Z.eqb_spec q p);
      subst; try congruence; try lia.
Qed.

(** *** Remove *)
Lemma GInv_remove st pd s n :
  GInv st pd -> GInv (fst (remove s n st)) (filter (not_sn s n) pd).
Proof.
  intros HG. unfold remove.
  destruct (aget sn_eqb (s, n) (scores st)) as [[p w]|] eqn:Esc.
  2:{ simpl. rewrite filter_not_sn_id; [assumption|].
      intros Hin. apply in_map_iff in Hin. destruct Hin as [[[s' n'] q] [E Ht]]. unfold tx_sn in E; simpl in E. inversion E; subst.
      destruct (g_scores_some _ _ HG _ _ _ Ht) as [w Ew]. congruence. }
  pose proof (g_sc2 _ _ HG _ _ _ _ Esc) as Hk0. set (k0 := mkKey p w s n) in *.
  pose proof (g_key_in_pd _ _ HG _ Hk0) as Hpd. unfold key_tx in Hpd; simpl in Hpd.
  assert (Hnin : In n (map fst (sget s (sidx st)))).
  { apply (g_sidx_has _ _ HG). apply in_map_iff. exists (s, n, p). auto. }
  assert (Hs : In (s, sget s (sidx st)) (sidx st)).
  { destruct (sget_cases s (sidx st)) as [E|H]; [rewrite E in Hnin; contradiction|assumption]. }
  assert (Eg : aget Z.eqb s (sidx st) = Some (sget s (sidx st))).
  { apply (In_aget Z.eqb Z.eqb_spec); [apply (g_skeys _ _ HG)|assumption]. }
  rewrite Eg. simpl. set (sl := sget s (sidx st)) in *.
  pose proof (g_ssorted _ _ HG _ _ Hs) as Hsl.
  apply in_map_iff in Hnin. destruct Hnin as [[n' p'] [En He]]. simpl in En. subst n'.
  pose proof (g_nodup _ _ HG) as ND.
  assert (HP1 : Permutation pd ((s, n, p) :: map key_tx (pidx_remove k0 (pidx st)))).
  { eapply perm_trans; [apply Permutation_sym, (g_pperm _ _ HG)|].
    apply (Permutation_map key_tx (pidx_remove_perm _ _ Hk0)). }
  pose proof (remove_one_filter _ _ _ _ _ ND HP1) as HF1. fold (not_sn s n) in HF1.
  constructor; simpl.
  - now apply NoDup_map_filter.
  - apply pidx_remove_sorted, (g_sorted _ _ HG).
  - intros k Hin. assert (Hne : k <> k0).
    { intros ->. revert Hin. apply pidx_remove_gone, (g_sorted _ _ HG). }
    apply pidx_remove_incl in Hin.
    rewrite (aget_adel_other sn_eqb sn_eqb_spec); [now apply (g_sc1 _ _ HG)|].
    intros E. inversion E. apply Hne. apply (g_key_sn_unique _ _ HG); auto.
  - intros s' n' q' w' H. destruct (sn_eqb_spec (s', n') (s, n)) as [E|Hne].
    + inversion E; subst. rewrite (aget_adel_same sn_eqb sn_eqb_spec) in H. discriminate.
    + rewrite (aget_adel_other sn_eqb sn_eqb_spec) in H by assumption.
      apply pidx_remove_keeps; [now apply (g_sc2 _ _ HG)|]. unfold k0. intros E. inversion E; subst. congruence.
  - exact HF1.
  - apply (aset_NoDup Z.eqb Z.eqb_spec), (g_skeys _ _ HG).
  - intros s' sl' Hin. apply (In_aset_inv Z.eqb Z.eqb_spec) in Hin; [|apply (g_skeys _ _ HG)].
    destruct Hin as [[-> ->]|[_ Hin]]; [|now apply (g_ssorted _ _ HG) in Hin].
    now apply sl_remove_sorted.
  - pose proof (flatten_aset_sn s (sl_remove n sl) (sidx st)) as HF. fold sl in HF.
    assert (HT : Permutation (map tx_sn (tag s sl)) ((s, n) :: map tx_sn (tag s (sl_remove n sl)))).
    { change ((s, n) :: map tx_sn (tag s (sl_remove n sl))) with (map tx_sn (tag s ((n, p') :: sl_remove n sl))).
      apply Permutation_map. unfold tag. apply Permutation_map. apply (sl_remove_perm n p' sl Hsl He). }
    assert (HF2 : Permutation (map tx_sn (tag s (sl_remove n sl)) ++ (s, n) :: map tx_sn (flatten (aset Z.eqb s (sl_remove n sl) (sidx st))))
                              (map tx_sn (tag s (sl_remove n sl)) ++ map tx_sn (flatten (sidx st)))).
    { eapply perm_trans; [|exact HF]. eapply perm_trans; [apply Permutation_sym, Permutation_middle|].
      apply (Permutation_app_tail _ (Permutation_sym HT)). }
    apply Permutation_app_inv_l in HF2.
    assert (HS : Permutation ((s, n) :: map tx_sn (filter (not_sn s n) pd)) (map tx_sn pd)).
    { eapply perm_trans; [|apply Permutation_sym, (Permutation_map tx_sn HP1)]. simpl. apply perm_skip.
      apply Permutation_sym, (Permutation_map tx_sn HF1). }
    eapply Permutation_cons_inv with (a := (s, n)).
    eapply perm_trans; [exact HF2|]. eapply perm_trans; [apply (g_sperm _ _ HG)|]. now apply Permutation_sym.
  - apply cnt_add_keys, (g_ckeys _ _ HG).
  - intros x. rewrite cnt_get_add, !(g_cnt _ _ HG). rewrite <- (occ_perm x _ _ HF1).
    rewrite !(occ_perm _ _ _ HP1), !occ_cons. cbn [tx_prio snd].
    destruct (Z.eqb_spec x p), (Z.eqb_spec p x), (Z.eqb_spec p p); subst; try congruence; lia.
Qed.

(** *** reorderPriorityTies (only the index keys' weights and the scores change) *)
Lemma GInv_reorder st pd : GInv st pd -> GInv (reorder st) pd.
Proof.
  intros HG. unfold reorder.
  pose proof (PInv_fold (reorder_list st) _ _ _ (g_PInv _ _ HG) (reorder_list_spec st)) as HF.
  assert (ND : NoDup (map (fun di => PriorityNonceProofs.key_sn (fst di)) (reorder_list st))).
  { unfold reorder_list. apply flat_map_opt_NoDup with (h := PriorityNonceProofs.key_sn).
    - intros a b Hb. destruct (1 <? cnt_get (k_prio a) (pcounts st)); simpl in Hb; [|contradiction].
      destruct Hb as [<-|[]]. reflexivity.
    - intros a. destruct (1 <? cnt_get (k_prio a) (pcounts st)); simpl; lia.
    - pose proof (g_nodup _ _ HG) as NDp.
      apply (Permutation_NoDup (Permutation_map tx_sn (Permutation_sym (g_pperm _ _ HG)))) in NDp.
      rewrite map_map in NDp. exact NDp. }
  specialize (HF ND).
  destruct (fold_left reorder_step (reorder_list st) (pidx st, scores st)) as [pi sc]. cbn [fst snd] in HF.
  constructor; simpl;
    [apply (g_nodup _ _ HG)|apply (pinv_sorted _ _ _ HF)|apply (pinv_sc1 _ _ _ HF)|apply (pinv_sc2 _ _ _ HF)
    |apply (pinv_pperm _ _ _ HF)|apply (g_skeys _ _ HG)|apply (g_ssorted _ _ HG)|apply (g_sperm _ _ HG)
    |apply (g_ckeys _ _ HG)|apply (g_cnt _ _ HG)].
Qed.

Lemma GInv_select_op st pd : GInv st pd -> GInv (fst (select_op st)) pd.
Proof.
  intros HG. unfold select_op. destruct (pidx st) eqn:E; [exact HG|]. simpl. now apply GInv_reorder.
Qed.

(** *** a refused replacement: only the (already existing) sender index entry is touched *)
Lemma GInv_touch st pd s :
  GInv st pd -> GInv (mkState (pidx st) (aset Z.eqb s (sget s (sidx st)) (sidx st)) (scores st) (pcounts st)) pd.
Proof.
  intros HG. constructor; simpl;
    [apply (g_nodup _ _ HG)|apply (g_sorted _ _ HG)|apply (g_sc1 _ _ HG)|apply (g_sc2 _ _ HG)|apply (g_pperm _ _ HG)
    | | | |apply (g_ckeys _ _ HG)|apply (g_cnt _ _ HG)].
  - apply (aset_NoDup Z.eqb Z.eqb_spec), (g_skeys _ _ HG).
  - intros s' sl' Hin. apply (In_aset_inv Z.eqb Z.eqb_spec) in Hin; [|apply (g_skeys _ _ HG)].
    destruct Hin as [[-> ->]|[_ Hin]]; [apply (g_sget_sorted _ _ HG)|now apply (g_ssorted _ _ HG) in Hin].
  - pose proof (flatten_aset_sn s (sget s (sidx st)) (sidx st)) as HF. apply Permutation_app_inv_l in HF.
    eapply perm_trans; [exact HF|apply (g_sperm _ _ HG)].
Qed.

(** ** Every history, every configuration *)
Lemma GInv_stepc c st pd o : GInv st pd -> GInv (stepc c st o) (pendc_step c pd o).
Proof.
  intros HG. destruct o as [s n p|s n|]; cbn [stepc pendc_step].
  - unfold insert_cfg, cap_hit. rewrite (g_count _ _ HG).
    destruct ((0 <? max_tx c) && (max_tx c <=? Z.of_nat (List.length pd))); [exact HG|].
    destruct (max_tx c <? 0); [exact HG|].
    destruct (pl_find s n pd) as [q|] eqn:Ef.
    + pose proof (pl_find_some _ _ _ _ Ef) as Hq.
      destruct (g_scores_some _ _ HG _ _ _ Hq) as [w Ew]. rewrite Ew.
      destruct (rule c) as [r|]; [destruct (r q p); cbn [negb fst]|cbn [fst]].
      * now apply GInv_insert_dup with (q := q).
      * now apply GInv_touch.
      * now apply GInv_insert_dup with (q := q).
    + apply pl_find_none in Ef. rewrite (g_scores_none _ _ HG _ _ Ef). cbn [fst].
      now apply GInv_insert_fresh.
  - now apply GInv_remove.
  - now apply GInv_select_op.
Qed.

Lemma GInv_foldc c ops : forall st pd,
  GInv st pd -> GInv (fold_left (stepc c) ops st) (fold_left (pendc_step c) ops pd).
Proof.
  induction ops as [|o ops IH]; intros st pd HG; [exact HG|]. cbn [fold_left]. apply IH. now apply GInv_stepc.
Qed.

Lemma GInv_runc c ops : GInv (runc c ops) (pendc c ops).
Proof. apply GInv_foldc, GInv_init. Qed.

(** the application's configuration: [runc default_cfg] is [run] *)
Lemma insert_cfg_default s n p st : insert_cfg default_cfg s n p st = (insert s n p st, IOk).
Proof.
  unfold insert_cfg, default_cfg. cbn [max_tx rule]. cbn.
  destruct (aget sn_eqb (s, n) (scores st)) as [[? ?]|]; reflexivity.
Qed.

Lemma stepc_default st o : stepc default_cfg st o = step st o.
Proof. destruct o; cbn [stepc step]; [now rewrite insert_cfg_default|reflexivity|reflexivity]. Qed.

Lemma runc_default ops : runc default_cfg ops = run ops.
Proof.
  unfold runc, run. generalize init. induction ops as [|o ops IH]; intros st; [reflexivity|].
  cbn [fold_left]. rewrite stepc_default. apply IH.
Qed.

Lemma GInv_run ops : GInv (run ops) (pending_latest ops).
Proof. rewrite <- runc_default. apply GInv_runc. Qed.

(** under the premise the replacement never happens: [pending_latest] is [pending] *)
Lemma pending_latest_unique ops : unique_sender_nonce ops -> pending_latest ops = pending ops.
Proof.
  unfold pending_latest, pendc, pending, unique_sender_nonce. generalize (@nil tx).
  induction ops as [|o ops IH]; intros pd Hu; [reflexivity|].
  destruct Hu as [Hu1 Hu2]. cbn [fold_left].
  assert (E : pendc_step default_cfg pd o = pend_step pd o).
  { destruct o as [s n p|s n|]; cbn [pendc_step pend_step]; [|reflexivity|reflexivity].
    unfold cap_hit, default_cfg. cbn [max_tx rule]. cbn.
    apply pl_find_none in Hu1. now rewrite Hu1. }
  rewrite E. now apply IH.
Qed.

(** ** CountTx, MaxTx *)
Lemma filter_length_le {A} (f : A -> bool) l : (List.length (filter f l) <= List.length l)%nat.
Proof. induction l as [|a l IH]; simpl; [lia|]. destruct (f a); simpl; lia. Qed.

Lemma filter_not_sn_lt s n pd q : pl_find s n pd = Some q -> (List.length (filter (not_sn s n) pd) < List.length pd)%nat.
Proof.
  induction pd as [|t pd IH]; simpl; [discriminate|]. unfold not_sn at 1.
  destruct (sn_eqb (tx_sn t) (s, n)); simpl.
  - intros _. pose proof (filter_length_le (not_sn s n) pd). lia.
  - intros H. specialize (IH H). lia.
Qed.

Lemma pendc_step_bound c pd o :
  0 < max_tx c -> Z.of_nat (List.length pd) <= max_tx c -> Z.of_nat (List.length (pendc_step c pd o)) <= max_tx c.
Proof.
  intros Hm Hl. destruct o as [s n p|s n|]; cbn [pendc_step]; [| |assumption].
  - unfold cap_hit. destruct (Z.ltb_spec 0 (max_tx c)); [|lia]. cbn [andb].
    destruct (Z.leb_spec (max_tx c) (Z.of_nat (List.length pd))); [assumption|].
    destruct (max_tx c <? 0); [assumption|].
    destruct (pl_find s n pd) as [q|] eqn:Ef.
    + pose proof (filter_not_sn_lt _ _ _ _ Ef) as Hlt.
      destruct (rule c) as [r|]; [destruct (r q p)|]; try assumption; rewrite app_length; simpl; lia.
    + rewrite app_length; simpl; lia.
  - pose proof (filter_length_le (not_sn s n) pd). lia.
Qed.

Lemma pendc_bound c ops : 0 < max_tx c -> Z.of_nat (List.length (pendc c ops)) <= max_tx c.
Proof.
  intros Hm. unfold pendc. assert (H0 : Z.of_nat (List.length (@nil tx)) <= max_tx c) by (simpl; lia).
  revert H0. generalize (@nil tx). induction ops as [|o ops IH]; intros pd Hl; [exact Hl|].
  cbn [fold_left]. apply IH. now apply pendc_step_bound.
Qed.

Lemma pendc_negative c ops : max_tx c < 0 -> pendc c ops = [].
Proof.
  intros Hm. unfold pendc. assert (E : forall o, pendc_step c [] o = []).
  { intros [s n p|s n|]; cbn [pendc_step]; [|reflexivity|reflexivity].
    unfold cap_hit. destruct (Z.ltb_spec 0 (max_tx c)); [lia|]. cbn [andb].
    destruct (Z.ltb_spec (max_tx c) 0); [reflexivity|lia]. }
  induction ops as [|o ops IH]; [reflexivity|]. cbn [fold_left]. now rewrite E.
Qed.

Lemma count_and_capacity_proof c ops :
  count (runc c ops) = Z.of_nat (List.length (pendc c ops)) /\
  (0 < max_tx c -> count (runc c ops) <= max_tx c) /\
  (max_tx c < 0 -> count (runc c ops) = 0).
Proof.
  pose proof (g_count _ _ (GInv_runc c ops)) as E. split; [exact E|]. split.
  - intros Hm. rewrite E. now apply pendc_bound.
  - intros Hm. rewrite E, (pendc_negative _ _ Hm). reflexivity.
Qed.

(** what Insert returns, from the history alone *)
Definition insert_outcome (c : cfg) (pd : list tx) (s n p : Z) : ires :=
  if cap_hit c pd then IErrCap
  else if max_tx c <? 0 then INoop
  else match pl_find s n pd, rule c with
       | Some q, Some r => if r q p then IOk else IErrRule
       | _, _ => IOk
       end.

Lemma insert_outcome_proof c ops s n p :
  snd (insert_cfg c s n p (runc c ops)) = insert_outcome c (pendc c ops) s n p.
Proof.
  pose proof (GInv_runc c ops) as HG. unfold insert_cfg, insert_outcome, cap_hit. rewrite (g_count _ _ HG).
  destruct ((0 <? max_tx c) && (max_tx c <=? Z.of_nat (List.length (pendc c ops)))); [reflexivity|].
  destruct (max_tx c <? 0); [reflexivity|].
  destruct (pl_find s n (pendc c ops)) as [q|] eqn:Ef.
  - destruct (g_scores_some _ _ HG _ _ _ (pl_find_some _ _ _ _ Ef)) as [w Ew]. rewrite Ew.
    destruct (rule c) as [r|]; [destruct (r q p)|]; reflexivity.
  - apply pl_find_none in Ef. rewrite (g_scores_none _ _ HG _ _ Ef). reflexivity.
Qed.

(** priorityCounts[q] = number of pending transactions with priority q *)
Lemma priority_counts_exact_proof c ops q : cnt_get q (pcounts (runc c ops)) = occ q (pendc c ops).
Proof. apply (g_cnt _ _ (GInv_runc c ops)). Qed.

(** ** IsEmpty *)
Lemma is_empty_st st pd : GInv st pd -> (is_empty st = true <-> pd = []).
Proof.
  intros HG. unfold is_empty. split.
  - intros H. apply andb_prop in H. destruct H as [H _]. apply andb_prop in H. destruct H as [H _].
    destruct (pidx st) eqn:E; [|discriminate].
    pose proof (g_pperm _ _ HG) as HP. rewrite E in HP. simpl in HP. now apply Permutation_nil in HP.
  - intros ->. pose proof (g_pperm _ _ HG) as HP. apply Permutation_sym, Permutation_nil in HP.
    apply map_eq_nil in HP. rewrite HP. cbn [andb].
    apply andb_true_intro. split.
    + apply forallb_forall. intros [q k] Hin. simpl.
      pose proof (In_aget Z.eqb Z.eqb_spec q k _ (g_ckeys _ _ HG) Hin) as Eg.
      pose proof (g_cnt _ _ HG q) as Ec. unfold cnt_get in Ec. rewrite Eg in Ec. rewrite occ_nil in Ec. subst k. reflexivity.
    + apply forallb_forall. intros [s l] Hin. simpl. destruct l as [|e l]; [reflexivity|].
      exfalso. pose proof (g_sperm _ _ HG) as HS. simpl in HS. apply Permutation_sym, Permutation_nil in HS.
      apply map_eq_nil in HS. pose proof (In_flatten _ _ e _ Hin (or_introl eq_refl)) as Hf. rewrite HS in Hf. contradiction.
Qed.

Lemma is_empty_proof c ops : is_empty (runc c ops) = true <-> pendc c ops = [].
Proof. apply is_empty_st, GInv_runc. Qed.

(** ** NextSenderTx *)
Definition sender_pending (s : Z) (pd : list tx) : Prop := exists t, In t pd /\ tx_sender t = s.

Lemma next_sender_st st pd s :
  GInv st pd ->
  match next_sender_tx s st with
  | NTx n => (exists q, In (s, n, q) pd) /\ forall t, In t pd -> tx_sender t = s -> n <= tx_nonce t
  | NNil => ~ sender_pending s pd
  | NPanic => ~ sender_pending s pd /\ next_sender_nil_guard = false /\ aget Z.eqb s (sidx st) = Some []
  end.
Proof.
  intros HG. unfold next_sender_tx.
  assert (Hmem : forall t, In t pd -> tx_sender t = s -> In (tx_nonce t) (map fst (sget s (sidx st)))).
  { intros [[s' n'] q'] Ht Es. unfold tx_sender in Es; simpl in Es. subst s'.
    apply (g_sidx_has _ _ HG). apply in_map_iff. exists (s, n', q'). auto. }
  assert (Hnone : sget s (sidx st) = [] -> ~ sender_pending s pd).
  { intros E [t [Ht Es]]. specialize (Hmem t Ht Es). rewrite E in Hmem. contradiction. }
  destruct (aget Z.eqb s (sidx st)) as [l|] eqn:Eg.
  - assert (El : sget s (sidx st) = l) by (unfold sget; now rewrite Eg).
    destruct l as [|[n q0] r].
    + destruct next_sender_nil_guard eqn:Egd; [now apply Hnone|]. split; [now apply Hnone|]. split; reflexivity.
    + split.
      * assert (Hin : In (s, n) (map tx_sn pd)).
        { apply (g_sidx_has _ _ HG). rewrite El. now left. }
        apply in_map_iff in Hin. destruct Hin as [[[s' n'] q'] [E Ht]]. unfold tx_sn in E; simpl in E. inversion E; subst. eauto.
      * intros t Ht Es. specialize (Hmem t Ht Es). rewrite El in Hmem. simpl in Hmem.
        destruct Hmem as [E|Hin]; [lia|].
        pose proof (g_sget_sorted _ _ HG s) as HS. rewrite El in HS. inversion HS as [|? ? _ HF]; subst.
        rewrite Forall_forall in HF. apply in_map_iff in Hin. destruct Hin as [e [Ee He]].
        specialize (HF _ He). unfold slt in HF. simpl in HF. lia.
  - apply Hnone. unfold sget. now rewrite Eg.
Qed.

Lemma next_sender_tx_proof c ops s :
  match next_sender_tx s (runc c ops) with
  | NTx n => (exists q, In (s, n, q) (pendc c ops)) /\ forall t, In t (pendc c ops) -> tx_sender t = s -> n <= tx_nonce t
  | NNil => ~ sender_pending s (pendc c ops)
  | NPanic => ~ sender_pending s (pendc c ops) /\ next_sender_nil_guard = false
  end.
Proof.
  pose proof (next_sender_st _ _ s (GInv_runc c ops)) as H.
  destruct (next_sender_tx s (runc c ops)); [assumption|assumption|tauto].
Qed.

(** with the nil guard in the source NextSenderTx never panics; without it, a sender whose
    transactions were all removed makes it dereference nil *)
Lemma next_sender_guarded st s : next_sender_nil_guard = true -> next_sender_tx s st <> NPanic.
Proof.
  unfold next_sender_tx. generalize next_sender_nil_guard. intros g ->.
  destruct (aget Z.eqb s (sidx st)) as [[|[? ?] ?]|]; discriminate.
Qed.

Lemma next_sender_unguarded_witness :
  next_sender_nil_guard = false -> next_sender_tx 1 (run [Insert 1 0 5; Remove 1 0]) = NPanic.
Proof. unfold next_sender_tx. generalize next_sender_nil_guard. intros g ->. reflexivity. Qed.

(** ** Select without the premise: sound (no transaction twice, none that is not pending, sequence
    order per sender); complete only with the premise (see the witness below) *)
Lemma sorted_by_sender_NoDup (l : list tx) :
  (forall s, StronglySorted Z.lt (map tx_nonce (filter (from s) l))) -> NoDup (map tx_sn l).
Proof.
  induction l as [|a l IH]; intros H; [constructor|]. simpl. constructor.
  - intros Hin. apply in_map_iff in Hin. destruct Hin as [b [E Hb]].
    specialize (H (tx_sender a)). simpl in H. unfold from at 1 in H. rewrite Z.eqb_refl in H. simpl in H.
    inversion H as [|? ? _ HF]; subst. rewrite Forall_forall in HF.
    assert (Hbn : In (tx_nonce b) (map tx_nonce (filter (from (tx_sender a)) l))).
    { apply in_map. apply filter_In. split; [assumption|]. unfold from.
      destruct a as [[sa na] pa], b as [[sb nb] pb]. unfold tx_sn, tx_sender in *; simpl in *. inversion E; subst. apply Z.eqb_refl. }
    specialize (HF _ Hbn). destruct a as [[sa na] pa], b as [[sb nb] pb]. unfold tx_sn, tx_nonce in *; simpl in *. inversion E; subst. lia.
  - apply IH. intros s. specialize (H s). simpl in H. destruct (from s a); [|assumption].
    simpl in H. now inversion H.
Qed.

Lemma select_sound_st st pd :
  GInv st pd ->
  NoDup (map tx_sn (select st)) /\
  (forall t, In t (select st) -> In (tx_sn t) (map tx_sn pd)) /\
  (forall s, StronglySorted Z.lt (map tx_nonce (filter (from s) (select st)))).
Proof.
  intros HG0.
  assert (Hsort : forall s, StronglySorted Z.lt (map tx_nonce (filter (from s) (select st)))).
  { intros s. unfold select, select_op. destruct (pidx st) eqn:E; [simpl; constructor|].
    cbn [fst snd]. pose proof (GInv_reorder _ _ HG0) as HG.
    destruct (walk_prefix (scores (reorder st)) (pidx (reorder st)) (sidx (reorder st)) s) as [rem Hrem].
    pose proof (ssorted_map_fst _ (g_sget_sorted _ _ HG s)) as HS.
    rewrite <- map_nonce_tag with (s := s) in HS. rewrite Hrem, map_app in HS. now apply SS_app_l in HS. }
  split; [now apply sorted_by_sender_NoDup|]. split; [|exact Hsort].
  intros t Ht. unfold select, select_op in Ht. destruct (pidx st) eqn:E; [contradiction|].
  cbn [fst snd] in Ht. pose proof (GInv_reorder _ _ HG0) as HG.
  destruct (walk_prefix (scores (reorder st)) (pidx (reorder st)) (sidx (reorder st)) (tx_sender t)) as [rem Hrem].
  assert (Hin : In t (tag (tx_sender t) (sget (tx_sender t) (sidx (reorder st))))).
  { rewrite Hrem. apply in_or_app. left. apply filter_In. split; [assumption|]. unfold from. apply Z.eqb_refl. }
  apply tag_In in Hin. destruct Hin as [_ Hin].
  destruct t as [[s n] q]. unfold tx_sn, tx_sender, tx_nonce, tx_prio in *; simpl in *.
  apply (g_sidx_has _ _ HG). apply in_map_iff. exists (n, q). auto.
Qed.

Lemma select_sound_proof c ops :
  NoDup (map tx_sn (select (runc c ops))) /\
  (forall t, In t (select (runc c ops)) -> In (tx_sn t) (map tx_sn (pendc c ops))) /\
  (forall s, StronglySorted Z.lt (map tx_nonce (filter (from s) (select (runc c ops))))).
Proof. apply select_sound_st, GInv_runc. Qed.

(** completeness NEEDS the premise: a replacement that raises the priority leaves the old priority in
    the sender-index key; the iterator reaches the sender through the new (high) index key, finds the
    stale (low) priority below the next node's and defers the sender — for good *)
Definition dup_hidden_ops : list op := [Insert 1 5 1; Insert 2 0 50; Insert 1 5 100].
Lemma duplicate_insert_hides_tx_witness :
  pending_latest dup_hidden_ops = [(2, 0, 50); (1, 5, 100)] /\
  count (run dup_hidden_ops) = 2 /\
  select (run dup_hidden_ops) = [(2, 0, 50)] /\ select_panics (run dup_hidden_ops) = false /\
  priorities_above_min dup_hidden_ops.
Proof.
  repeat split; try reflexivity. unfold priorities_above_min, dup_hidden_ops.
  repeat constructor; unfold op_prio_ok, min_value; vm_compute; reflexivity.
Qed.

(** ** What a duplicate Insert does *)
Lemma key_eq_dec (a b : key) : {a = b} + {a <> b}.
Proof. decide equality; apply Z.eq_dec. Qed.

Lemma duplicate_insert_st st pd s n p0 p1 :
  GInv st pd -> In (s, n, p0) pd ->
  let st' := insert s n p1 st in
  count st' = count st /\
  score_get s n (scores st') = (p1, 0) /\
  In (mkKey p1 0 s n) (pidx st') /\
  (forall k, In k (pidx st') -> k_sender k = s -> k_nonce k = n -> k = mkKey p1 0 s n) /\
  (forall k, (k_sender k, k_nonce k) <> (s, n) -> (In k (pidx st') <-> In k (pidx st))) /\
  sget s (sidx st') = sget s (sidx st) /\
  (exists q, In (n, q) (sget s (sidx st'))) /\
  (forall q, cnt_get q (pcounts st') = cnt_get q (pcounts st) - (if q =? p0 then 1 else 0) + (if q =? p1 then 1 else 0)).
Proof.
  intros HG Hq st'. pose proof (GInv_insert_dup _ _ s n p1 p0 HG Hq) as HG'. fold st' in HG'.
  destruct (g_scores_some _ _ HG _ _ _ Hq) as [w Esc].
  assert (Hnin : In n (map fst (sget s (sidx st)))).
  { apply (g_sidx_has _ _ HG). apply in_map_iff. exists (s, n, p0). auto. }
  assert (Est : st' = mkState (pidx_set (mkKey p1 0 s n) (pidx_remove (mkKey p0 w s n) (pidx st)))
                               (aset Z.eqb s (sl_set n p1 (sget s (sidx st))) (sidx st))
                               (aset sn_eqb (s, n) (p1, 0) (scores st))
                               (cnt_add p1 1 (cnt_add p0 (-1) (pcounts st)))).
  { unfold st', insert. rewrite Esc. reflexivity. }
  assert (Hk1 : In (mkKey p1 0 s n) (pidx st')).
  { apply (g_sc2 _ _ HG'). rewrite Est. simpl. apply (aget_aset_same sn_eqb sn_eqb_spec). }
  repeat split.
  - rewrite (g_count _ _ HG'), (g_count _ _ HG), app_length. simpl.
    pose proof (g_nodup _ _ HG) as ND.
    assert (HP : Permutation pd ((s, n, p0) :: filter (not_sn s n) pd)).
    { destruct (g_pd_key _ _ HG _ Hq) as [k [Hk Ek]].
      assert (HP1 : Permutation pd ((s, n, p0) :: map key_tx (pidx_remove k (pidx st)))).
      { eapply perm_trans; [apply Permutation_sym, (g_pperm _ _ HG)|]. rewrite <- Ek.
        apply (Permutation_map key_tx (pidx_remove_perm _ _ Hk)). }
      eapply perm_trans; [exact HP1|]. apply perm_skip. apply (remove_one_filter _ _ _ _ _ ND HP1). }
    rewrite (Permutation_length HP). simpl. lia.
  - unfold score_get. rewrite Est. simpl. now rewrite (aget_aset_same sn_eqb sn_eqb_spec).
  - exact Hk1.
  - intros k Hk Es En. apply (g_key_sn_unique _ _ HG'); auto.
  - rewrite Est. simpl. intros Hin. apply pidx_set_In in Hin. destruct Hin as [->|Hin]; [exfalso; apply H; reflexivity|].
    eapply pidx_remove_incl; eauto.
  - rewrite Est. simpl. intros Hin.
    assert (Hne : k <> mkKey p0 w s n) by (intros ->; apply H; reflexivity).
    pose proof (pidx_remove_keeps (mkKey p0 w s n) _ _ Hin Hne) as Hin2.
    destruct (in_dec key_eq_dec (mkKey p1 0 s n) (pidx_remove (mkKey p0 w s n) (pidx st))) as [Hin3|Hnin3].
    + assert (Hs : psorted (pidx_remove (mkKey p0 w s n) (pidx st))) by apply pidx_remove_sorted, (g_sorted _ _ HG).
      rewrite <- (pidx_set_remove_same _ _ Hs Hin3) in Hin2 at 1.
      exfalso. assert (Ek : mkKey p1 0 s n = mkKey p0 w s n).
      { apply (g_key_sn_unique _ _ HG); [eapply pidx_remove_incl; eauto|apply (g_sc2 _ _ HG _ _ _ _ Esc)|reflexivity|reflexivity]. }
      rewrite Ek in Hin3. revert Hin3. apply pidx_remove_gone, (g_sorted _ _ HG).
    + apply (Permutation_in _ (Permutation_sym (pidx_set_perm _ _ Hnin3))). now right.
  - rewrite Est. simpl. rewrite sget_aset_same. apply sl_set_present; [apply (g_sget_sorted _ _ HG)|assumption].
  - rewrite Est. simpl. rewrite sget_aset_same. rewrite sl_set_present; [|apply (g_sget_sorted _ _ HG)|assumption].
    apply in_map_iff in Hnin. destruct Hnin as [[n' q] [E He]]. simpl in E. subst n'. eauto.
  - intros q. rewrite Est. simpl. rewrite !cnt_get_add.
    destruct (Z.eqb_spec q p1), (Z.eqb_spec q p0), (Z.eqb_spec p1 p0); subst; try congruence; lia.
Qed.

(** ** Admission: why CheckTx gives the premise *)
Lemma uniq_from_app a : forall pd b,
  uniq_from pd (a ++ b) <-> uniq_from pd a /\ uniq_from (fold_left pend_step a pd) b.
Proof.
  induction a as [|o a IH]; intros pd b; simpl; [tauto|]. rewrite IH. tauto.
Qed.

Lemma pending_snoc ops o : pending (ops ++ [o]) = pend_step (pending ops) o.
Proof. unfold pending. now rewrite fold_left_app. Qed.

Lemma unique_snoc ops o :
  unique_sender_nonce ops ->
  match o with Insert s n _ => ~ In (s, n) (map tx_sn (pending ops)) | _ => True end ->
  unique_sender_nonce (ops ++ [o]).
Proof.
  intros Hu Ho. unfold unique_sender_nonce. apply uniq_from_app. split; [exact Hu|]. simpl. split; [exact Ho|exact I].
Qed.

Definition adm_ok (pre : list adm) : Prop :=
  unique_sender_nonce (adm_ops pre) /\
  forall t, In t (pending (adm_ops pre)) -> tx_nonce t < seq_get (tx_sender t) (fst (adm_run pre)).

Lemma adm_run_snoc pre a : adm_run (pre ++ [a]) = adm_step (adm_run pre) a.
Proof. unfold adm_run. now rewrite fold_left_app. Qed.

Lemma seq_get_aset s v m x : seq_get x (aset Z.eqb s v m) = if x =? s then v else seq_get x m.
Proof.
  unfold seq_get. destruct (Z.eqb_spec x s) as [->|Hne].
  - now rewrite (aget_aset_same Z.eqb Z.eqb_spec).
  - now rewrite (aget_aset_other Z.eqb Z.eqb_spec) by assumption.
Qed.

Lemma adm_ok_step pre a :
  adm_ok pre ->
  match a with
  | AdmReset f => forall t, In t (pending (adm_ops pre)) -> tx_nonce t < seq_get (tx_sender t) f
  | _ => True
  end ->
  adm_ok (pre ++ [a]).
Proof.
  intros [Hu Hlt] Ha. unfold adm_ok, adm_ops in *. rewrite adm_run_snoc.
  destruct (adm_run pre) as [chk ops] eqn:E. cbn [fst snd] in *.
  destruct a as [s n p|s n| |f]; cbn [adm_step].
  - destruct (Z.eqb_spec n (seq_get s chk)) as [En|Hne]; cbn [fst snd]; [|split; assumption].
    split.
    + apply unique_snoc; [assumption|]. intros Hin. apply in_map_iff in Hin. destruct Hin as [[[s' n'] q] [Et Ht]].
      unfold tx_sn in Et; simpl in Et. inversion Et; subst s' n'. specialize (Hlt _ Ht).
      unfold tx_nonce, tx_sender in Hlt; simpl in Hlt. lia.
    + intros t Ht. rewrite pending_snoc in Ht. simpl in Ht. rewrite seq_get_aset.
      apply in_app_or in Ht. destruct Ht as [Ht|[<-|[]]].
      * specialize (Hlt _ Ht). destruct (Z.eqb_spec (tx_sender t) s) as [Es|]; [rewrite Es in Hlt; lia|assumption].
      * unfold tx_sender, tx_nonce; simpl. rewrite Z.eqb_refl. lia.
  - cbn [fst snd]. split; [now apply unique_snoc|].
    intros t Ht. rewrite pending_snoc in Ht. simpl in Ht. apply filter_In in Ht. now apply Hlt.
  - cbn [fst snd]. split; [now apply unique_snoc|].
    intros t Ht. rewrite pending_snoc in Ht. simpl in Ht. now apply Hlt.
  - cbn [fst snd]. split; [assumption|exact Ha].
Qed.

Lemma adm_ok_app l : forall pre, adm_ok pre -> resets_above_pending pre l -> adm_ok (pre ++ l).
Proof.
  induction l as [|a l IH]; intros pre Hok Hr; [now rewrite app_nil_r|].
  destruct Hr as [Ha Hr]. replace (pre ++ a :: l) with ((pre ++ [a]) ++ l) by (rewrite <- app_assoc; reflexivity).
  apply IH; [|assumption]. apply adm_ok_step; [assumption|]. destruct a; try exact I. exact Ha.
Qed.

Lemma admission_unique_proof l : resets_above_pending [] l -> unique_sender_nonce (adm_ops l).
Proof.
  intros Hr. assert (H0 : adm_ok []) by (split; [exact I|intros t []]).
  apply (adm_ok_app l [] H0 Hr).
Qed.

(** without the assumption on Commit (a transaction stays in the application pool but is not
    re-checked): the check state falls back to its sequence number and a second transaction with the
    same (sender, nonce) is admitted *)
Definition adm_norecheck : list adm :=
  [AdmCheck 0 0 5; AdmCheck 0 1 5; AdmRemove 0 0; AdmReset [(0, 1)]; AdmCheck 0 1 9].

Lemma admission_without_recheck_witness :
  adm_ops adm_norecheck = [Insert 0 0 5; Insert 0 1 5; Remove 0 0; Insert 0 1 9] /\
  ~ resets_above_pending [] adm_norecheck /\ ~ unique_sender_nonce (adm_ops adm_norecheck).
Proof.
  split; [reflexivity|]. split.
  - intros [_ [_ [_ [H _]]]]. specialize (H (0, 1, 5) (or_introl eq_refl)). vm_compute in H. discriminate.
  - intros [_ [_ [_ [H _]]]]. apply H. vm_compute. now left.
Qed.

(** ** Iterator invalidation: Remove interleaved with an open iterator *)
(** removing the transaction the iterator has just yielded resets the sender-index element its cursor
    holds: the sender's remaining transactions are never yielded, the iteration ends with a pending
    transaction left out *)
Definition interleave_truncated : list aop :=
  [AInsert 1 0 9; AInsert 1 1 9; AInsert 2 0 5; AOpen; ARemove 1 0; ANext; ANext].
Lemma interleaved_remove_truncates_witness :
  (exists it, a_it (arun default_cfg (firstn 4 interleave_truncated)) = SAt it /\ it_tx it = (1, 0)) /\
  (exists it, a_it (arun default_cfg (firstn 6 interleave_truncated)) = SAt it /\ it_tx it = (2, 0)) /\
  a_it (arun default_cfg interleave_truncated) = SDone /\
  map key_tx (pidx (a_st (arun default_cfg interleave_truncated))) = [(1, 1, 9); (2, 0, 5)].
Proof. split; [eexists; split; reflexivity|]. split; [eexists; split; reflexivity|]. split; reflexivity. Qed.

(** the iterator stands on the index node of a LATER transaction of the sender while it yields the
    earlier ones; removing that later transaction resets the node (its Next() is nil) while the cached
    nextPriority still equals the sender's next priority: Next() dereferences priorityNode.Next() == nil —
    one sender, every priority above MinInt64, no duplicate *)
Definition interleave_panics : list aop :=
  [AInsert 1 0 9; AInsert 1 1 9; AInsert 1 2 9; AOpen; ARemove 1 2; ANext].
Lemma interleaved_remove_panics_witness :
  (exists it, a_it (arun default_cfg (firstn 4 interleave_panics)) = SAt it /\ it_tx it = (1, 0)) /\
  a_it (arun default_cfg interleave_panics) = SPanic.
Proof. split; [eexists; split; reflexivity|reflexivity]. Qed.

(** ** Translator gates of the second round *)
Lemma gen_api_shapes :
  Gen.C19.exported_api = ["DefaultPriorityMempool"; "DefaultPriorityNonceMempoolConfig"; "IsEmpty"; "NewDefaultTxPriority";
    "NewPriorityMempool"; "PriorityNonceIterator.Next"; "PriorityNonceIterator.Tx"; "PriorityNonceMempool.CountTx";
    "PriorityNonceMempool.Insert"; "PriorityNonceMempool.NextSenderTx"; "PriorityNonceMempool.Remove";
    "PriorityNonceMempool.Select"]%string /\
  Gen.C19.config_fields = ["TxPriority TxPriority[C]"; "OnRead func(tx sdk.Tx)";
    "TxReplacement func(op, np C, oTx, nTx sdk.Tx) bool"; "MaxTx int"]%string /\
  Gen.C19.on_read_uses = [] /\
  Gen.C19.default_config_body = ["return PriorityNonceMempoolConfig[int64]{ TxPriority: NewDefaultTxPriority(), }"]%string /\
  Gen.C19.default_mempool_body = ["return NewPriorityMempool(DefaultPriorityNonceMempoolConfig())"]%string /\
  Gen.C19.app_wiring = ["bApp := baseapp.NewBaseApp(Name, logger, db, txConfig.TxDecoder(), baseAppOptions...)";
    "nonceMempool := palomamempool.DefaultPriorityMempool()";
    "abciPropHandler := baseapp.NewDefaultProposalHandler(nonceMempool, bApp)";
    "bApp.SetMempool(nonceMempool)";
    "bApp.SetPrepareProposal(abciPropHandler.PrepareProposalHandler())";
    "bApp.SetProcessProposal(abciPropHandler.ProcessProposalHandler())"]%string /\
  Gen.C19.library_pins = ["github.com/cometbft/cometbft v0.38.12"; "github.com/cosmos/cosmos-sdk v0.50.13";
    "github.com/huandu/skiplist v1.2.0"]%string.
Proof. repeat split; reflexivity. Qed.

Lemma gen_api_effects :
  Gen.C19.insert_conds = ["mp.cfg.MaxTx > 0 && mp.CountTx() >= mp.cfg.MaxTx"; "mp.cfg.MaxTx < 0"; "err != nil"; "len(sigs) == 0"; "!ok";
    "txExists"; "mp.cfg.TxReplacement != nil && !mp.cfg.TxReplacement(oldScore.priority, priority, senderIndex.Get(key).Value.(sdk.Tx), tx)"]%string /\
  Gen.C19.insert_effects = ["return sdkmempool.ErrMempoolTxMaxCapacity"; "return nil";
    "sigs, err := tx.(signing.SigVerifiableTx).GetSignaturesV2()"; "return err";
    "return fmt.Errorf(""tx must have at least one signer"")"; "sig := sigs[0]";
    "sender := sdk.AccAddress(sig.PubKey.Address()).String()"; "priority := mp.cfg.TxPriority.GetTxPriority(ctx, tx)";
    "nonce := sig.Sequence"; "key := txMeta[C]{nonce: nonce, priority: priority, sender: sender}";
    "senderIndex, ok := mp.senderIndices[sender]";
    "senderIndex = skiplist.New(skiplist.LessThanFunc(func(a, b any) int { return skiplist.Uint64.Compare(b.(txMeta[C]).nonce, a.(txMeta[C]).nonce) }))";
    "mp.senderIndices[sender] = senderIndex"; "sk := txMeta[C]{nonce: nonce, sender: sender}";
    "oldScore, txExists := mp.scores[sk]";
    "return fmt.Errorf( ""tx doesn't fit the replacement rule, oldPriority: %v, newPriority: %v, oldTx: %v, newTx: %v"", oldScore.priority, priority, senderIndex.Get(key).Value.(sdk.Tx), tx, )";
    "mp.priorityIndex.Remove(txMeta[C]{ nonce: nonce, sender: sender, priority: oldScore.priority, weight: oldScore.weight, })";
    "mp.priorityCounts[oldScore.priority]--"; "mp.priorityCounts[priority]++";
    "key.senderElement = senderIndex.Set(key, tx)"; "mp.scores[sk] = txMeta[C]{priority: priority}";
    "mp.priorityIndex.Set(key, tx)"; "return nil"]%string /\
  Gen.C19.remove_conds = ["err != nil"; "len(sigs) == 0"; "!ok"; "!ok"]%string /\
  Gen.C19.remove_effects = ["sigs, err := tx.(signing.SigVerifiableTx).GetSignaturesV2()"; "return err";
    "return fmt.Errorf(""attempted to remove a tx with no signatures"")"; "sig := sigs[0]";
    "sender := sdk.AccAddress(sig.PubKey.Address()).String()"; "nonce := sig.Sequence";
    "scoreKey := txMeta[C]{nonce: nonce, sender: sender}"; "score, ok := mp.scores[scoreKey]";
    "return sdkmempool.ErrTxNotFound";
    "tk := txMeta[C]{nonce: nonce, priority: score.priority, sender: sender, weight: score.weight}";
    "senderTxs, ok := mp.senderIndices[sender]"; "return fmt.Errorf(""sender %s not found"", sender)";
    "mp.priorityIndex.Remove(tk)"; "senderTxs.Remove(tk)"; "delete(mp.scores, scoreKey)";
    "mp.priorityCounts[score.priority]--"; "return nil"]%string /\
  Gen.C19.reorder_effects = ["node := mp.priorityIndex.Front()"; "key := node.Key().(txMeta[C])"; "newKey := key";
    "newKey.weight = senderWeight(mp.cfg.TxPriority, key.senderElement)";
    "reordering = append(reordering, reorderKey[C]{deleteKey: key, insertKey: newKey, tx: node.Value.(sdk.Tx)})";
    "node = node.Next()"; "mp.priorityIndex.Remove(k.deleteKey)";
    "delete(mp.scores, txMeta[C]{nonce: k.deleteKey.nonce, sender: k.deleteKey.sender})";
    "mp.priorityIndex.Set(k.insertKey, k.tx)";
    "mp.scores[txMeta[C]{nonce: k.insertKey.nonce, sender: k.insertKey.sender}] = k.insertKey"]%string /\
  Gen.C19.select_conds = ["mp.priorityIndex.Len() == 0"]%string /\
  Gen.C19.select_effects = ["return nil"; "mp.reorderPriorityTies()";
    "iterator := &PriorityNonceIterator[C]{ mempool: mp, senderCursors: make(map[string]*skiplist.Element), }";
    "return iterator.iteratePriority()"]%string /\
  Gen.C19.tx_effects = ["return i.senderCursors[i.sender].Value.(sdk.Tx)"]%string /\
  Gen.C19.is_empty_conds = ["mp.priorityIndex.Len() != 0"; "mp.priorityCounts[k] != 0"; "mp.senderIndices[k].Len() != 0"]%string.
Proof. repeat split; reflexivity. Qed.

(** NextSenderTx: the source as it is (no nil guard: [next_sender_nil_guard = false]) or with the guard *)
Lemma gen_next_sender_tx :
  (Gen.C19.next_sender_tx_conds = ["!ok"]%string /\
   Gen.C19.next_sender_tx_effects = ["senderIndex, ok := mp.senderIndices[sender]"; "return nil"; "cursor := senderIndex.Front()";
     "return cursor.Value.(sdk.Tx)"]%string /\ next_sender_nil_guard = false) \/
  (Gen.C19.next_sender_tx_conds = ["!ok"; "cursor == nil"]%string /\
   Gen.C19.next_sender_tx_effects = ["senderIndex, ok := mp.senderIndices[sender]"; "return nil"; "cursor := senderIndex.Front()";
     "return nil"; "return cursor.Value.(sdk.Tx)"]%string /\ next_sender_nil_guard = true).
Proof. first [left; repeat split; reflexivity | right; repeat split; reflexivity]. Qed.

(** ** The iterator advanced one Next() at a time, iterated to the end, is [walk] (= what the first
    round's theorems are about) *)

Lemma aset_aset_same {V} (s : Z) (v1 v2 : V) m : aset Z.eqb s v2 (aset Z.eqb s v1 m) = aset Z.eqb s v2 m.
Proof.
  induction m as [|[k v] m IH]; simpl.
  - now rewrite Z.eqb_refl.
  - destruct (Z.eqb_spec s k) as [->|Hne]; simpl.
    + now rewrite Z.eqb_refl.
    + destruct (Z.eqb_spec s k); [contradiction|]. now rewrite IH.
Qed.

Lemma after_key_split pre k rest : NoDup (pre ++ k :: rest) -> after_key k (pre ++ k :: rest) = rest.
Proof.
  induction pre as [|h pre IH]; simpl; intros ND.
  - now rewrite key_cmp_refl.
  - inversion ND as [|? ? Hn ND']; subst.
    destruct (key_cmp k h) eqn:E; [|now apply IH|now apply IH].
    apply key_cmp_eq in E. subst h. exfalso. apply Hn. apply in_or_app. right. now left.
Qed.

Lemma sl_after_split a n p r : ssorted (a ++ (n, p) :: r) -> sl_after n (a ++ (n, p) :: r) = r.
Proof.
  induction a as [|[n' p'] a IH]; simpl; intros HS.
  - now rewrite Z.eqb_refl.
  - inversion HS as [|? ? HS' HF]; subst. destruct (Z.eqb_spec n n') as [->|Hne]; [|now apply IH].
    exfalso. rewrite Forall_forall in HF. assert (Hi : In (n', p) (a ++ (n', p) :: r)) by (apply in_or_app; right; now left).
    specialize (HF _ Hi). unfold slt in HF. simpl in HF. lia.
Qed.

(** the walk's "remaining list per sender" against the iterator's cursors *)
Definition crel (st : state) (cw : list (Z * slist)) (cs : list (Z * (Z * bool))) : Prop :=
  forall s, exists a, sget s (sidx st) = a ++ sget s cw /\
    match aget Z.eqb s cs with
    | None => a = []
    | Some (n, d) => d = false /\ exists p a0, a = a0 ++ [(n, p)]
    end.

Lemma crel_cursor_next st cw cs s :
  (forall s, ssorted (sget s (sidx st))) -> crel st cw cs -> cursor_next st cs s = hd_error (sget s cw).
Proof.
  intros HS HC. destruct (HC s) as [a [Ea Hm]]. unfold cursor_next.
  destruct (aget Z.eqb s cs) as [[n d]|].
  - destruct Hm as [-> [p [a0 ->]]]. rewrite Ea. rewrite <- app_assoc. simpl.
    rewrite sl_after_split; [reflexivity|]. specialize (HS s). rewrite Ea, <- app_assoc in HS. exact HS.
  - subst a. now rewrite Ea.
Qed.

Lemma crel_same st cw cs s l : crel st cw cs -> sget s cw = l -> crel st (aset Z.eqb s l cw) cs.
Proof.
  intros HC El s'. destruct (Z.eq_dec s' s) as [->|Hne].
  - rewrite sget_aset_same, <- El. apply HC.
  - rewrite sget_aset_other by assumption. apply HC.
Qed.

Lemma crel_yield st cw cs s n p r :
  crel st cw cs -> sget s cw = (n, p) :: r -> crel st (aset Z.eqb s r cw) (aset Z.eqb s (n, false) cs).
Proof.
  intros HC El s'. destruct (Z.eq_dec s' s) as [->|Hne].
  - rewrite sget_aset_same, (aget_aset_same Z.eqb Z.eqb_spec).
    destruct (HC s) as [a [Ea _]]. rewrite El in Ea. exists (a ++ [(n, p)]). split.
    + rewrite <- app_assoc. exact Ea.
    + split; [reflexivity|]. eauto.
  - rewrite sget_aset_other by assumption. rewrite (aget_aset_other Z.eqb Z.eqb_spec) by assumption. apply HC.
Qed.

(** the decision of Next() for the sender-index element (n, p), shared by [drain] and [try_sender] *)
Definition decide (sc : list ((Z * Z) * (Z * Z))) (s n p : Z) (nn : option key) : tres :=
  let np := match nn with Some k => k_prio k | None => min_value end in
  if p <? np then TDefer
  else if p =? np then
    match nn with
    | None => TPanic
    | Some k2 => if snd (score_get s n sc) <? k_weight k2 then TDefer else TYield n
    end
  else TYield n.

Lemma drain_decide s nn sc n p r :
  drain s nn sc ((n, p) :: r) =
  match decide sc s n p nn with
  | TDefer => ([], (n, p) :: r, false)
  | TPanic => ([], (n, p) :: r, true)
  | TYield _ => let '(o, rem, pn) := drain s nn sc r in ((n, p) :: o, rem, pn)
  end.
Proof.
  cbn [drain]. unfold decide. destruct (p <? _); [reflexivity|].
  destruct (p =? _); [|reflexivity]. destruct nn as [k2|]; [|reflexivity].
  destruct (snd (score_get s n sc) <? k_weight k2); reflexivity.
Qed.

Lemma walk_cons sc k rest cur :
  walk sc (k :: rest) cur =
  let '(o, rem, pn) := drain (k_sender k) (hd_error rest) sc (sget (k_sender k) cur) in
  if pn then (tag (k_sender k) o, true)
  else let '(o2, pn2) := walk sc rest (aset Z.eqb (k_sender k) rem cur) in (tag (k_sender k) o ++ o2, pn2).
Proof. reflexivity. Qed.

Lemma walk_cons_nil sc k rest cw :
  sget (k_sender k) cw = [] -> walk sc (k :: rest) cw = walk sc rest (aset Z.eqb (k_sender k) [] cw).
Proof. intros El. rewrite walk_cons, El. cbn [drain]. destruct (walk sc rest _). reflexivity. Qed.

Lemma walk_cons_defer sc k rest cw n p r :
  sget (k_sender k) cw = (n, p) :: r -> decide sc (k_sender k) n p (hd_error rest) = TDefer ->
  walk sc (k :: rest) cw = walk sc rest (aset Z.eqb (k_sender k) ((n, p) :: r) cw).
Proof. intros El Ed. rewrite walk_cons, El, drain_decide, Ed. destruct (walk sc rest _). reflexivity. Qed.

Lemma walk_cons_panic sc k rest cw n p r :
  sget (k_sender k) cw = (n, p) :: r -> decide sc (k_sender k) n p (hd_error rest) = TPanic ->
  walk sc (k :: rest) cw = ([], true).
Proof. intros El Ed. rewrite walk_cons, El, drain_decide, Ed. reflexivity. Qed.

Lemma walk_cons_yield sc k rest cw n p r m :
  sget (k_sender k) cw = (n, p) :: r -> decide sc (k_sender k) n p (hd_error rest) = TYield m ->
  walk sc (k :: rest) cw =
  ((k_sender k, n, p) :: fst (walk sc (k :: rest) (aset Z.eqb (k_sender k) r cw)),
   snd (walk sc (k :: rest) (aset Z.eqb (k_sender k) r cw))).
Proof.
  intros El Ed. rewrite !walk_cons, El, drain_decide, Ed, sget_aset_same.
  destruct (drain (k_sender k) (hd_error rest) sc r) as [[o rem] pn]. rewrite aset_aset_same.
  destruct pn; [reflexivity|]. destruct (walk sc rest _). reflexivity.
Qed.

Section IterEq.
  Variable st : state.
  Hypothesis HND : NoDup (pidx st).
  Hypothesis HSS : forall s, ssorted (sget s (sidx st)).

  Let sc := scores st.

  Definition nextp_of (rest : list key) : Z := match rest with k2 :: _ => k_prio k2 | [] => min_value end.

  Lemma try_sender_decide cw cs s rest n p r :
    crel st cw cs -> sget s cw = (n, p) :: r ->
    try_sender st cs s (nextp_of rest) (hd_error rest) = decide sc s n p (hd_error rest).
  Proof.
    intros HC El. unfold try_sender, decide. rewrite (crel_cursor_next _ _ _ s HSS HC), El. cbn [hd_error].
    destruct rest; reflexivity.
  Qed.

  Lemma try_sender_nil cw cs s rest :
    crel st cw cs -> sget s cw = [] -> try_sender st cs s (nextp_of rest) (hd_error rest) = TDefer.
  Proof. intros HC El. unfold try_sender. now rewrite (crel_cursor_next _ _ _ s HSS HC), El. Qed.

  Lemma advance_cons cs k rest :
    advance st cs (k :: rest) =
    match try_sender st cs (k_sender k) (nextp_of rest) (hd_error rest) with
    | TYield n => SAt (mkIter k false (aset Z.eqb (k_sender k) (n, false) cs) (nextp_of rest))
    | TPanic => SPanic
    | TDefer => advance st cs rest
    end.
  Proof. reflexivity. Qed.

  Lemma it_next_resume pre k rest cs :
    pidx st = pre ++ k :: rest ->
    it_next st (mkIter k false cs (nextp_of rest)) = advance st cs (k :: rest).
  Proof.
    intros Ep. rewrite advance_cons. unfold it_next, node_rest. cbn [it_dead it_node it_cur it_nextp].
    rewrite Ep, after_key_split by (rewrite <- Ep; exact HND).
    destruct (try_sender st cs (k_sender k) (nextp_of rest) (hd_error rest)); reflexivity.
  Qed.

  Lemma walk_eq_iter : forall pi pre cw cs fuel,
    pidx st = pre ++ pi -> crel st cw cs ->
    (List.length (fst (walk sc pi cw)) <= fuel)%nat ->
    collect fuel st (advance st cs pi) = (map tx_sn (fst (walk sc pi cw)), snd (walk sc pi cw)).
  Proof.
    induction pi as [|k rest IH]; intros pre cw cs fuel Ep HC Hf.
    - simpl. destruct fuel; reflexivity.
    - assert (Epr : pidx st = (pre ++ [k]) ++ rest) by (rewrite <- app_assoc; exact Ep).
      remember (sget (k_sender k) cw) as l eqn:El. symmetry in El.
      revert cw cs fuel HC Hf El.
      induction l as [|[n p] r IHl]; intros cw cs fuel HC Hf El.
      + rewrite (walk_cons_nil _ _ _ _ El) in Hf |- *. rewrite advance_cons, (try_sender_nil _ _ _ _ HC El).
        apply (IH _ _ _ _ Epr (crel_same _ _ _ _ _ HC El) Hf).
      + rewrite advance_cons, (try_sender_decide _ _ _ _ _ _ _ HC El).
        destruct (decide sc (k_sender k) n p (hd_error rest)) as [m| |] eqn:Ed.
        * (* yield *)
          assert (Em : m = n).
          { unfold decide in Ed. destruct (p <? _); [discriminate|]. destruct (p =? _).
            - destruct (hd_error rest); [|discriminate]. destruct (_ <? _); [discriminate|]. now inversion Ed.
            - now inversion Ed. }
          subst m. rewrite (walk_cons_yield _ _ _ _ _ _ _ _ El Ed) in Hf |- *. cbn [fst snd] in Hf |- *.
          destruct fuel as [|f]; [cbn [List.length] in Hf; lia|]. cbn [collect].
          rewrite (it_next_resume pre k rest _ Ep).
          assert (Etx : it_tx (mkIter k false (aset Z.eqb (k_sender k) (n, false) cs) (nextp_of rest)) = (k_sender k, n)).
          { unfold it_tx. cbn [it_node it_cur]. now rewrite (aget_aset_same Z.eqb Z.eqb_spec). }
          rewrite Etx.
          rewrite (IHl (aset Z.eqb (k_sender k) r cw) (aset Z.eqb (k_sender k) (n, false) cs) f
                       (crel_yield _ _ _ _ _ _ _ HC El)); [reflexivity| |apply sget_aset_same].
          cbn [List.length] in Hf. apply le_S_n. exact Hf.
        * (* deferred *)
          rewrite (walk_cons_defer _ _ _ _ _ _ _ El Ed) in Hf |- *.
          apply (IH _ _ _ _ Epr (crel_same _ _ _ _ _ HC El) Hf).
        * (* nil dereference *)
          rewrite (walk_cons_panic _ _ _ _ _ _ _ El Ed). destruct fuel; reflexivity.
  Qed.
End IterEq.

Lemma iteration_eq_select_st st pd fuel :
  GInv st pd -> (List.length pd <= fuel)%nat ->
  fst (it_open st) = fst (select_op st) /\
  collect fuel (fst (it_open st)) (snd (it_open st)) = (map tx_sn (select st), select_panics st).
Proof.
  intros HG Hf. unfold it_open, select, select_panics, select_op.
  destruct (pidx st) eqn:E.
  - split; [reflexivity|]. simpl. destruct fuel; reflexivity.
  - cbn [fst snd]. split; [reflexivity|]. pose proof (GInv_reorder _ _ HG) as HG'.
    pose proof (select_sound_st _ _ HG) as [HND [Hin _]].
    apply (walk_eq_iter (reorder st) (psorted_NoDup _ (g_sorted _ _ HG')) (g_sget_sorted _ _ HG') (pidx (reorder st)) []);
      [reflexivity|intros s; exists []; split; reflexivity|].
    (* at most |pending| transactions are yielded *)
    assert (Hsel : fst (walk (scores (reorder st)) (pidx (reorder st)) (sidx (reorder st))) = select st).
    { unfold select, select_op. now rewrite E. }
    rewrite Hsel. eapply Nat.le_trans; [|exact Hf].
    rewrite <- (map_length tx_sn (select st)), <- (map_length tx_sn pd).
    apply NoDup_incl_length; [assumption|]. intros x Hx. apply in_map_iff in Hx. destruct Hx as [t [<- Ht]]. now apply Hin.
Qed.

Lemma iteration_eq_select_proof c ops :
  fst (it_open (runc c ops)) = fst (select_op (runc c ops)) /\
  collect (List.length (pendc c ops)) (fst (it_open (runc c ops))) (snd (it_open (runc c ops)))
    = (map tx_sn (select (runc c ops)), select_panics (runc c ops)).
Proof. apply iteration_eq_select_st with (pd := pendc c ops); [apply GInv_runc|lia]. Qed.

Lemma gen_api_effects_summary :
  (nth 5 Gen.C19.insert_effects "" = "sig := sigs[0]" /\ nth 3 Gen.C19.remove_effects "" = "sig := sigs[0]" /\
   nth 8 Gen.C19.insert_effects "" = "nonce := sig.Sequence" /\
   nth 6 Gen.C19.insert_effects "" = "sender := sdk.AccAddress(sig.PubKey.Address()).String()")%string /\
  Gen.C19.insert_conds = ["mp.cfg.MaxTx > 0 && mp.CountTx() >= mp.cfg.MaxTx"; "mp.cfg.MaxTx < 0"; "err != nil"; "len(sigs) == 0"; "!ok";
    "txExists"; "mp.cfg.TxReplacement != nil && !mp.cfg.TxReplacement(oldScore.priority, priority, senderIndex.Get(key).Value.(sdk.Tx), tx)"]%string /\
  Gen.C19.remove_conds = ["err != nil"; "len(sigs) == 0"; "!ok"; "!ok"]%string /\
  Gen.C19.select_conds = ["mp.priorityIndex.Len() == 0"]%string /\
  Gen.C19.is_empty_conds = ["mp.priorityIndex.Len() != 0"; "mp.priorityCounts[k] != 0"; "mp.senderIndices[k].Len() != 0"]%string /\
  Gen.C19.tx_effects = ["return i.senderCursors[i.sender].Value.(sdk.Tx)"]%string /\
  List.length Gen.C19.insert_effects = 23%nat /\ List.length Gen.C19.remove_effects = 17%nat /\
  List.length Gen.C19.reorder_effects = 10%nat /\ List.length Gen.C19.select_effects = 4%nat.
Proof.
  pose proof gen_api_effects as [H1 [H2 [H3 [H4 [H5 [H6 [H7 [H8 H9]]]]]]]].
  rewrite H1, H2, H3, H4, H5, H6, H7, H8, H9. repeat split; reflexivity.
Qed.

(** ** The priority function as the application wires it: the SDK ante handler gets
    [TxFeeChecker: palomamodule.TxFeeSkipper], which gives EVERY transaction the same CheckTx priority
    (translated: [Gen.C19.app_check_tx_priority]); so the side condition of [priority_classes]
    ("CheckTx priority below MaxInt64 - 3") is discharged for the application *)
Lemma app_priority_classes_proof :
  Gen.C19.app_tx_fee_checker = "palomamodule.TxFeeSkipper"%string /\
  Gen.C19.app_check_tx_priority < Gen.C19.max_int64 - 3 /\ min_value < Gen.C19.app_check_tx_priority /\
  forall us1 us2 i, tx_class us1 = Some i ->
    match tx_class us2 with
    | Some j => ((i < j)%nat -> tx_priority us2 Gen.C19.app_check_tx_priority < tx_priority us1 Gen.C19.app_check_tx_priority) /\
                (i = j -> tx_priority us2 Gen.C19.app_check_tx_priority = tx_priority us1 Gen.C19.app_check_tx_priority)
    | None => tx_priority us2 Gen.C19.app_check_tx_priority = Gen.C19.app_check_tx_priority /\
              tx_priority us2 Gen.C19.app_check_tx_priority < tx_priority us1 Gen.C19.app_check_tx_priority
    end.
Proof.
  split; [reflexivity|].
  assert (Hlt : Gen.C19.app_check_tx_priority < Gen.C19.max_int64 - 3) by (vm_compute; reflexivity).
  split; [exact Hlt|]. split; [vm_compute; reflexivity|].
  intros us1 us2 i Hi. pose proof (proj2 priority_classes_proof us1 Gen.C19.app_check_tx_priority us2 Gen.C19.app_check_tx_priority i Hi) as H.
  destruct (tx_class us2) eqn:Ec; [exact H|]. split; [|exact (H Hlt)].
  unfold tx_class in Ec. unfold tx_priority.
  destruct us2 as [|u [|u' l]]; cbn [List.length]; try reflexivity.
  - destruct (Z.of_nat 1 =? Gen.C19.single_message_len); [|reflexivity].
    assert (El : forall tbl, prefix_index tbl u = None -> lookup_prefix tbl u = None).
    { induction tbl as [|[pre v] r IH]; simpl; [reflexivity|]. destruct (String.prefix pre u); [discriminate|].
      destruct (prefix_index r u); [discriminate|]. intros _. now apply IH. }
    now rewrite (El _ Ec).
  - destruct (Z.eqb_spec (Z.of_nat (S (S (List.length l)))) Gen.C19.single_message_len) as [E|]; [|reflexivity].
    exfalso. unfold Gen.C19.single_message_len in E. lia.
Qed.

(** ** A positive guarantee UNDER interleaving: whatever Insert / Remove happen between two Next(), the
    transaction an iterator movement arrives at is pending at that moment *)
Definition aproj (o : aop) : list op :=
  match o with AInsert s n p => [Insert s n p] | ARemove s n => [Remove s n] | AOpen => [Select] | ANext => [] end.

Lemma it_open_st st : fst (it_open st) = fst (select_op st).
Proof. unfold it_open, select_op. destruct (pidx st); reflexivity. Qed.

Lemma arun_fold c : forall ops a, a_st (fold_left (astep c) ops a) = fold_left (stepc c) (flat_map aproj ops) (a_st a).
Proof.
  induction ops as [|o ops IH]; intros a; [reflexivity|]. cbn [fold_left flat_map]. rewrite fold_left_app, IH. f_equal.
  destruct o as [s n p|s n| |]; cbn [astep aproj fold_left stepc].
  - destruct (insert_cfg c s n p (a_st a)) as [st' res]. reflexivity.
  - destruct (remove s n (a_st a)) as [st' ok]. reflexivity.
  - pose proof (it_open_st (a_st a)) as E. destruct (it_open (a_st a)) as [st' r]. exact E.
  - destruct (a_it a); reflexivity.
Qed.

Lemma arun_state c ops : a_st (arun c ops) = runc c (flat_map aproj ops).
Proof. unfold arun, runc. now rewrite arun_fold. Qed.

Lemma sl_after_incl n l x : In x (sl_after n l) -> In x l.
Proof.
  induction l as [|[n' p'] l IH]; simpl; [tauto|]. destruct (n =? n'); [now right|]. intros H. right. now apply IH.
Qed.

Lemma try_sender_yield_pending st pd cs s np nn n :
  GInv st pd -> try_sender st cs s np nn = TYield n -> In (s, n) (map tx_sn pd).
Proof.
  intros HG H. unfold try_sender in H. destruct (cursor_next st cs s) as [[n0 p0]|] eqn:Ec; [|discriminate].
  assert (En : n = n0).
  { destruct (p0 <? np); [discriminate|]. destruct (p0 =? np).
    - destruct nn; [|discriminate]. destruct (_ <? _); [discriminate|]. now inversion H.
    - now inversion H. }
  subst n0. apply (g_sidx_has _ _ HG). apply in_map_iff. exists (n, p0). split; [reflexivity|].
  unfold cursor_next in Ec. destruct (aget Z.eqb s cs) as [[m d]|].
  - destruct d; [discriminate|]. destruct (sl_after m (sget s (sidx st))) as [|e r] eqn:Ea; [discriminate|].
    inversion Ec; subst. apply (sl_after_incl m). rewrite Ea. now left.
  - destruct (sget s (sidx st)) as [|e r]; [discriminate|]. inversion Ec; subst. now left.
Qed.

Lemma it_tx_yield k d cs n np : it_tx (mkIter k d (aset Z.eqb (k_sender k) (n, false) cs) np) = (k_sender k, n).
Proof. unfold it_tx. cbn [it_node it_cur]. now rewrite (aget_aset_same Z.eqb Z.eqb_spec). Qed.

Lemma advance_yield_pending st pd : GInv st pd -> forall suffix cs it, advance st cs suffix = SAt it -> In (it_tx it) (map tx_sn pd).
Proof.
  intros HG. induction suffix as [|k rest IH]; intros cs it H; [discriminate|]. cbn [advance] in H.
  destruct (try_sender st cs (k_sender k) _ (hd_error rest)) as [n| |] eqn:Et; [|now apply IH in H|discriminate].
  inversion H; subst. rewrite it_tx_yield. eapply try_sender_yield_pending; eauto.
Qed.

Lemma it_next_yield_pending st pd it0 it : GInv st pd -> it_next st it0 = SAt it -> In (it_tx it) (map tx_sn pd).
Proof.
  intros HG H. unfold it_next in H.
  destruct (try_sender st (it_cur it0) (k_sender (it_node it0)) (it_nextp it0) _) as [n| |] eqn:Et; [|eapply advance_yield_pending; eauto|discriminate].
  inversion H; subst. rewrite it_tx_yield. eapply try_sender_yield_pending; eauto.
Qed.

Lemma interleaved_yield_is_pending_proof c ops o it :
  o = AOpen \/ o = ANext ->
  (o = ANext -> exists it0, a_it (arun c ops) = SAt it0) ->
  a_it (arun c (ops ++ [o])) = SAt it ->
  In (it_tx it) (map tx_sn (pendc c (flat_map aproj (ops ++ [o])))).
Proof.
  intros Ho Hprev H.
  assert (HG : GInv (a_st (arun c (ops ++ [o]))) (pendc c (flat_map aproj (ops ++ [o])))).
  { rewrite arun_state. apply GInv_runc. }
  revert H HG. generalize (pendc c (flat_map aproj (ops ++ [o]))). intros pd.
  unfold arun in *. rewrite fold_left_app. cbn [fold_left].
  set (a := fold_left (astep c) ops ainit) in *.
  destruct Ho as [-> | ->]; cbn [astep].
  - destruct (it_open (a_st a)) as [st' r] eqn:Eo. cbn [a_st a_it]. intros -> HG.
    unfold it_open in Eo. destruct (pidx (a_st a)); [inversion Eo|]. inversion Eo as [[E1 E2]]. rewrite E1 in E2.
    eapply advance_yield_pending; eauto.
  - destruct (Hprev eq_refl) as [it0 E0]. rewrite E0. cbn [a_st a_it]. intros H HG.
    eapply it_next_yield_pending; eauto.
Qed.
