(** C19 (second round) — the rest of the API of app/mempool/priority_nonce.go, on top of PriorityNonce.v:
    the configuration (MaxTx, TxReplacement) in Insert, NextSenderTx, IsEmpty, and the iterator as the
    code has it — a position that is advanced one [Next()] at a time, so that Insert / Remove can be
    interleaved with an OPEN iterator (what happens to the skip-list elements the iterator holds is
    modelled: huandu/skiplist resets a removed element, its Next() is nil from then on).
    Definitions only; proofs are in PriorityNonceApiProofs.v. *)
From Coq Require Import List ZArith Bool String.
From Paloma Require Import Mempool.PriorityNonce.
From Paloma Require Gen.C19.
Import ListNotations.
Open Scope Z_scope.

(** ** Configuration (PriorityNonceMempoolConfig): MaxTx and the TxReplacement rule over (old, new) priority.
    OnRead is a field of the configuration that no code path calls (Gen.C19.on_read_uses). *)
Record cfg := mkCfg { max_tx : Z; rule : option (Z -> Z -> bool) }.
Definition default_cfg : cfg := mkCfg 0 None.

Inductive ires := IOk | IErrCap | INoop | IErrRule.

(** Insert with its three early exits. A rejected replacement has already created the sender index
    (the map entry is written before the rule is consulted). *)
Definition insert_cfg (c : cfg) (s n p : Z) (st : state) : state * ires :=
  if (0 <? max_tx c) && (max_tx c <=? count st) then (st, IErrCap)
  else if max_tx c <? 0 then (st, INoop)
  else
    let rejected :=
      match aget sn_eqb (s, n) (scores st), rule c with
      | Some (op, _), Some r => negb (r op p)
      | _, _ => false
      end in
    if rejected
    then (mkState (pidx st) (aset Z.eqb s (sget s (sidx st)) (sidx st)) (scores st) (pcounts st), IErrRule)
    else (insert s n p st, IOk).

(** ** NextSenderTx: nil for an unknown sender; the front of the sender's index otherwise.  The index of
    a sender whose transactions were all removed stays in the map, empty: [Front()] is nil and
    [cursor.Value] dereferences it, unless the source has the nil guard (translated condition list). *)
Definition next_sender_nil_guard : bool :=
  existsb (String.eqb "cursor == nil") Gen.C19.next_sender_tx_conds.

Inductive nres := NNil | NTx (n : Z) | NPanic.

Definition next_sender_tx (s : Z) (st : state) : nres :=
  match aget Z.eqb s (sidx st) with
  | None => NNil
  | Some [] => if next_sender_nil_guard then NNil else NPanic
  | Some ((n, _) :: _) => NTx n
  end.

(** ** IsEmpty: [true] = nil error *)
Definition is_empty (st : state) : bool :=
  match pidx st with [] => true | _ => false end
  && forallb (fun pc => snd pc =? 0) (pcounts st)
  && forallb (fun sl => match snd sl with [] => true | _ => false end) (sidx st).

(** ** The iterator, one Next() at a time *)

(** [it_node]: key of the priority-index element the iterator stands on; [it_dead]: that element has been
    removed from the index since (its Next() is nil).  [it_cur]: senderCursors, sender -> (nonce of the
    element, removed since).  [it_nextp]: the cached nextPriority.  i.sender is the node's sender. *)
Record iter := mkIter {
  it_node : key;
  it_dead : bool;
  it_cur : list (Z * (Z * bool));
  it_nextp : Z
}.

Definition ksn (k : key) : Z * Z := (k_sender k, k_nonce k).

Fixpoint after_key (k : key) (l : list key) : list key :=
  match l with
  | [] => []
  | h :: r => match key_cmp k h with Eq => r | _ => after_key k r end
  end.

Fixpoint sl_after (n : Z) (l : slist) : slist :=
  match l with
  | [] => []
  | (n', _) :: r => if n =? n' then r else sl_after n r
  end.

(** the index nodes after the iterator's node, as priorityNode.Next() sees them NOW *)
Definition node_rest (st : state) (it : iter) : list key :=
  if it_dead it then [] else after_key (it_node it) (pidx st).

(** the sender-index element Next() looks at *)
Definition cursor_next (st : state) (cur : list (Z * (Z * bool))) (s : Z) : option (Z * Z) :=
  match aget Z.eqb s cur with
  | None => hd_error (sget s (sidx st))
  | Some (n, dead) => if dead then None else hd_error (sl_after n (sget s (sidx st)))
  end.

Inductive tres := TYield (n : Z) | TDefer | TPanic.

(** the body of Next() up to the decision; [nn] is priorityNode.Next() *)
Definition try_sender (st : state) (cur : list (Z * (Z * bool))) (s np : Z) (nn : option key) : tres :=
  match cursor_next st cur s with
  | None => TDefer
  | Some (n, p) =>
    if p <? np then TDefer
    else if p =? np then
      match nn with
      | None => TPanic
      | Some k2 => if snd (score_get s n (scores st)) <? k_weight k2 then TDefer else TYield n
      end
    else TYield n
  end.

Inductive sres := SDone | SPanic | SAt (it : iter).

(** iteratePriority, repeated until a sender yields: [suffix] = the nodes from priorityNode.Next() on *)
Fixpoint advance (st : state) (cur : list (Z * (Z * bool))) (suffix : list key) : sres :=
  match suffix with
  | [] => SDone
  | k :: rest =>
    let np := match rest with k2 :: _ => k_prio k2 | [] => min_value end in
    match try_sender st cur (k_sender k) np (hd_error rest) with
    | TYield n => SAt (mkIter k false (aset Z.eqb (k_sender k) (n, false) cur) np)
    | TPanic => SPanic
    | TDefer => advance st cur rest
    end
  end.

Definition it_next (st : state) (it : iter) : sres :=
  let rest := node_rest st it in
  match try_sender st (it_cur it) (k_sender (it_node it)) (it_nextp it) (hd_error rest) with
  | TYield n => SAt (mkIter (it_node it) (it_dead it) (aset Z.eqb (k_sender (it_node it)) (n, false) (it_cur it)) (it_nextp it))
  | TPanic => SPanic
  | TDefer => advance st (it_cur it) rest
  end.

(** Select: re-weights ties, positions the iterator on the first transaction *)
Definition it_open (st : state) : state * sres :=
  match pidx st with
  | [] => (st, SDone)
  | _ => let st' := reorder st in (st', advance st' [] (pidx st'))
  end.

(** Tx(): the value of the sender cursor's element *)
Definition it_tx (it : iter) : Z * Z :=
  (k_sender (it_node it), match aget Z.eqb (k_sender (it_node it)) (it_cur it) with Some (n, _) => n | None => 0 end).

(** iterate to the end: the (sender, nonce) sequence and whether Next() panicked *)
Fixpoint collect (fuel : nat) (st : state) (r : sres) : list (Z * Z) * bool :=
  match r with
  | SDone => ([], false)
  | SPanic => ([], true)
  | SAt it =>
    match fuel with
    | O => ([it_tx it], false)
    | S f => let '(o, pn) := collect f st (it_next st it) in (it_tx it :: o, pn)
    end
  end.

(** *** Mutations while an iterator is open: the elements it holds that leave their skip list die *)
Definition kill (cursor_too : bool) (s n : Z) (it : iter) : iter :=
  mkIter (it_node it)
         (it_dead it || (sn_eqb (ksn (it_node it)) (s, n)))
         (if cursor_too
          then map (fun c => (fst c, (fst (snd c), snd (snd c) || ((fst c =? s) && (fst (snd c) =? n))))) (it_cur it)
          else it_cur it)
         (it_nextp it).

(** ** Histories over the whole API with one open iterator *)
Inductive aop :=
| AInsert (s n p : Z)
| ARemove (s n : Z)
| AOpen                 (* Select: a new iterator replaces the open one *)
| ANext.                (* Next() on the open iterator *)

Record astate := mkA { a_st : state; a_it : sres }.
Definition ainit : astate := mkA init SDone.

Definition on_iter (f : iter -> iter) (r : sres) : sres :=
  match r with SAt it => SAt (f it) | _ => r end.

Definition astep (c : cfg) (a : astate) (o : aop) : astate :=
  match o with
  | AInsert s n p =>
    let '(st', res) := insert_cfg c s n p (a_st a) in
    let replaced := match res, aget sn_eqb (s, n) (scores (a_st a)) with IOk, Some _ => true | _, _ => false end in
    (* a replacement removes the old priority-index element; the sender-index element is kept *)
    mkA st' (if replaced then on_iter (kill false s n) (a_it a) else a_it a)
  | ARemove s n =>
    let '(st', ok) := remove s n (a_st a) in
    mkA st' (if ok then on_iter (kill true s n) (a_it a) else a_it a)
  | AOpen => let '(st', r) := it_open (a_st a) in mkA st' r
  | ANext => match a_it a with SAt it => mkA (a_st a) (it_next (a_st a) it) | _ => a end
  end.

Definition arun (c : cfg) (ops : list aop) : astate := fold_left (astep c) ops ainit.

(** ** Histories of Insert / Remove / Select under a configuration (Select iterated to the end) *)
Definition stepc (c : cfg) (st : state) (o : op) : state :=
  match o with
  | Insert s n p => fst (insert_cfg c s n p st)
  | Remove s n => fst (remove s n st)
  | Select => fst (select_op st)
  end.
Definition runc (c : cfg) (ops : list op) : state := fold_left (stepc c) ops init.

(** specification side, for ALL histories and configurations: the pending set, computed from the
    history alone.  An Insert is refused when the pool holds MaxTx transactions (MaxTx > 0), is a no-op
    when MaxTx < 0; an Insert of a (sender, nonce) that is pending REPLACES it (the latest priority
    counts) unless the TxReplacement rule refuses (old priority, new priority). *)
Fixpoint pl_find (s n : Z) (pd : list tx) : option Z :=
  match pd with
  | [] => None
  | t :: r => if sn_eqb (tx_sn t) (s, n) then Some (tx_prio t) else pl_find s n r
  end.

Definition not_sn (s n : Z) (t : tx) : bool := negb (sn_eqb (tx_sn t) (s, n)).

Definition cap_hit (c : cfg) (pd : list tx) : bool := (0 <? max_tx c) && (max_tx c <=? Z.of_nat (List.length pd)).

Definition pendc_step (c : cfg) (pd : list tx) (o : op) : list tx :=
  match o with
  | Insert s n p =>
    if cap_hit c pd then pd
    else if max_tx c <? 0 then pd
    else match pl_find s n pd with
         | None => pd ++ [(s, n, p)]
         | Some op =>
           match rule c with
           | Some r => if r op p then filter (not_sn s n) pd ++ [(s, n, p)] else pd
           | None => filter (not_sn s n) pd ++ [(s, n, p)]
           end
         end
  | Remove s n => filter (not_sn s n) pd
  | Select => pd
  end.
Definition pendc (c : cfg) (ops : list op) : list tx := fold_left (pendc_step c) ops [].

(** the application's configuration, no premise: pending with replacement *)
Definition pending_latest (ops : list op) : list tx := pendc default_cfg ops.

(** number of pending transactions with priority [q] *)
Definition occ (q : Z) (pd : list tx) : Z := Z.of_nat (List.length (filter (fun t => tx_prio t =? q) pd)).

(** ** Admission (baseapp CheckTx + the ante sequence rule), abstractly: the check state holds, per
    account, the sequence number the next admitted transaction must carry *)
Inductive adm :=
| AdmCheck (s n p : Z)        (* CheckTx: admitted iff n = check-state sequence of s; then Insert *)
| AdmRemove (s n : Z)         (* Remove (block inclusion, failed re-check) *)
| AdmSelect
| AdmReset (f : list (Z * Z)). (* Commit: the check state is reset to the committed sequences [f] *)

Definition seq_get (s : Z) (m : list (Z * Z)) : Z := match aget Z.eqb s m with Some v => v | None => 0 end.

(** the mempool operations an admission history produces, and the check state *)
Definition adm_step (acc : list (Z * Z) * list op) (a : adm) : list (Z * Z) * list op :=
  let '(chk, ops) := acc in
  match a with
  | AdmCheck s n p => if n =? seq_get s chk then (aset Z.eqb s (n + 1) chk, ops ++ [Insert s n p]) else (chk, ops)
  | AdmRemove s n => (chk, ops ++ [Remove s n])
  | AdmSelect => (chk, ops ++ [Select])
  | AdmReset f => (f, ops)
  end.
Definition adm_run (l : list adm) : list (Z * Z) * list op := fold_left adm_step l ([], []).
Definition adm_ops (l : list adm) : list op := snd (adm_run l).

(** the assumption on Commit: the new check-state sequence of every sender is above every sequence
    number of that sender still pending in the application pool (CometBFT re-checks every transaction
    that stays in its pool, re-check passes in sequence order or removes, both pools hold the same set) *)
Fixpoint resets_above_pending (pre : list adm) (l : list adm) : Prop :=
  match l with
  | [] => True
  | a :: r =>
    match a with
    | AdmReset f => forall t, In t (pending (adm_ops pre)) -> tx_nonce t < seq_get (tx_sender t) f
    | _ => True
    end /\ resets_above_pending (pre ++ [a]) r
  end.
