(** C19 — executable model of app/mempool/priority_nonce.go (PriorityNonceMempool[int64]) as it is now.
    Definitions only; proofs are in PriorityNonceProofs.v.

    The four structures of the Go type are kept separate, as in the code:
      priorityIndex  : skip list ordered by (priority, weight, sender, nonce) DESCENDING (LessThanFunc)
      senderIndices  : map sender -> skip list ordered by nonce ASCENDING; the element KEY keeps the
                       priority it was first inserted with (skiplist.Set on an existing key only replaces the value)
      scores         : map (sender,nonce) -> (priority, weight)
      priorityCounts : map priority -> int
    huandu/skiplist is modelled as a sorted duplicate-free list (trusted, exercised by X); Go maps as
    association lists (only looked up, never iterated in the anchored code paths).
    Senders are integers whose order is the byte order of the bech32 sender strings (the harness ranks them). *)
From Coq Require Import List ZArith Bool String.
From Paloma Require Gen.C19.
Import ListNotations.
Open Scope Z_scope.

(** ** Message-type priority (NewDefaultTxPriority.GetTxPriority) *)

Fixpoint lookup_prefix (tbl : list (string * Z)) (url : string) : option Z :=
  match tbl with
  | [] => None
  | (pre, v) :: r => if String.prefix pre url then Some v else lookup_prefix r url
  end.

(** [urls]: type URLs of the transaction's messages; [ante]: ctx.Priority(). *)
Definition tx_priority (urls : list string) (ante : Z) : Z :=
  if (Z.of_nat (List.length urls) =? Gen.C19.single_message_len) then
    match urls with
    | u :: _ => match lookup_prefix Gen.C19.priority_table u with Some v => v | None => ante end
    | [] => ante
    end
  else ante.

Definition min_value : Z := Gen.C19.min_value.

(** specification side: the class (row of the table) a transaction falls in, if any *)
Fixpoint prefix_index (tbl : list (string * Z)) (url : string) : option nat :=
  match tbl with
  | [] => None
  | (pre, _) :: r => if String.prefix pre url then Some 0%nat else option_map S (prefix_index r url)
  end.
Definition tx_class (urls : list string) : option nat :=
  match urls with [u] => prefix_index Gen.C19.priority_table u | _ => None end.

(** ** Keys and the two orders *)

Record key := mkKey { k_prio : Z; k_weight : Z; k_sender : Z; k_nonce : Z }.

Definition lex (c1 c2 : comparison) : comparison := match c1 with Eq => c2 | _ => c1 end.

(** skiplistComparable: priority, then weight, then sender, then nonce. *)
Definition key_cmp (a b : key) : comparison :=
  lex (k_prio a ?= k_prio b) (lex (k_weight a ?= k_weight b) (lex (k_sender a ?= k_sender b) (k_nonce a ?= k_nonce b))).

(** priorityIndex.Set: descending order; an equal key only has its value replaced. *)
Fixpoint pidx_set (k : key) (l : list key) : list key :=
  match l with
  | [] => [k]
  | h :: r => match key_cmp k h with
              | Gt => k :: l
              | Eq => l
              | Lt => h :: pidx_set k r
              end
  end.

Fixpoint pidx_remove (k : key) (l : list key) : list key :=
  match l with
  | [] => []
  | h :: r => match key_cmp k h with Eq => r | _ => h :: pidx_remove k r end
  end.

(** sender index: (nonce, priority-in-the-element-key), ascending nonce. *)
Definition slist := list (Z * Z).

Fixpoint sl_set (n p : Z) (l : slist) : slist :=
  match l with
  | [] => [(n, p)]
  | (n', p') :: r => match n ?= n' with
                     | Lt => (n, p) :: l
                     | Eq => l            (* existing element: key (and its priority) is kept *)
                     | Gt => (n', p') :: sl_set n p r
                     end
  end.

Fixpoint sl_remove (n : Z) (l : slist) : slist :=
  match l with
  | [] => []
  | (n', p') :: r => if n =? n' then r else (n', p') :: sl_remove n r
  end.

(** ** Go maps as association lists *)
Section Assoc.
  Context {K V : Type} (eqb : K -> K -> bool).
  Fixpoint aget (k : K) (l : list (K * V)) : option V :=
    match l with [] => None | (k', v) :: r => if eqb k k' then Some v else aget k r end.
  Fixpoint aset (k : K) (v : V) (l : list (K * V)) : list (K * V) :=
    match l with [] => [(k, v)] | (k', v') :: r => if eqb k k' then (k, v) :: r else (k', v') :: aset k v r end.
  (* Go's delete(m, k): no entry for k remains *)
  Fixpoint adel (k : K) (l : list (K * V)) : list (K * V) :=
    match l with [] => [] | (k', v') :: r => if eqb k k' then adel k r else (k', v') :: adel k r end.
End Assoc.

Definition sn_eqb (a b : Z * Z) : bool := (fst a =? fst b) && (snd a =? snd b).

Record state := mkState {
  pidx : list key;
  sidx : list (Z * slist);
  scores : list ((Z * Z) * (Z * Z));
  pcounts : list (Z * Z)
}.

Definition init : state := mkState [] [] [] [].

Definition sget (s : Z) (m : list (Z * slist)) : slist :=
  match aget Z.eqb s m with Some l => l | None => [] end.
Definition cnt_get (p : Z) (m : list (Z * Z)) : Z :=
  match aget Z.eqb p m with Some c => c | None => 0 end.
Definition cnt_add (p d : Z) (m : list (Z * Z)) : list (Z * Z) := aset Z.eqb p (cnt_get p m + d) m.
(** mp.scores[..] of a missing key is the zero txMeta. *)
Definition score_get (s n : Z) (m : list ((Z * Z) * (Z * Z))) : Z * Z :=
  match aget sn_eqb (s, n) m with Some pw => pw | None => (0, 0) end.

(** ** Insert (MaxTx = 0, TxReplacement = nil: the configuration app.go uses) *)
Definition insert (s n p : Z) (st : state) : state :=
  let '(pi, pc) :=
    match aget sn_eqb (s, n) (scores st) with
    | Some (op, ow) => (pidx_remove (mkKey op ow s n) (pidx st), cnt_add op (-1) (pcounts st))
    | None => (pidx st, pcounts st)
    end in
  mkState (pidx_set (mkKey p 0 s n) pi)
          (aset Z.eqb s (sl_set n p (sget s (sidx st))) (sidx st))
          (aset sn_eqb (s, n) (p, 0) (scores st))
          (cnt_add p 1 pc).

(** ** Remove: [false] = an error was returned (ErrTxNotFound / sender not found), state unchanged *)
Definition remove (s n : Z) (st : state) : state * bool :=
  match aget sn_eqb (s, n) (scores st) with
  | None => (st, false)
  | Some (p, w) =>
    match aget Z.eqb s (sidx st) with
    | None => (st, false)
    | Some sl =>
      (mkState (pidx_remove (mkKey p w s n) (pidx st))
               (aset Z.eqb s (sl_remove n sl) (sidx st))
               (adel sn_eqb (s, n) (scores st))
               (cnt_add p (-1) (pcounts st)), true)
    end
  end.

(** ** reorderPriorityTies *)

(** senderWeight, from the element after the cursor: whenever the priority differs from the running
    weight it replaces it. *)
Definition weight_walk (w : Z) (r : slist) : Z :=
  fold_left (fun w e => if snd e =? w then w else snd e) r w.

Fixpoint sl_from (n : Z) (l : slist) : slist :=
  match l with
  | [] => []
  | (n', p') :: r => if n =? n' then l else sl_from n r
  end.

(** [key.senderElement] is the sender-index element holding nonce [n]. *)
Definition sender_weight (sl : slist) (n : Z) : Z :=
  match sl_from n sl with
  | [] => min_value
  | (_, p0) :: r => weight_walk p0 r
  end.

Definition reorder_list (st : state) : list (key * key) :=
  flat_map (fun k =>
    if 1 <? cnt_get (k_prio k) (pcounts st)
    then [(k, mkKey (k_prio k) (sender_weight (sget (k_sender k) (sidx st)) (k_nonce k)) (k_sender k) (k_nonce k))]
    else []) (pidx st).

Definition reorder_step (acc : list key * list ((Z * Z) * (Z * Z))) (di : key * key) :=
  let '(pi, sc) := acc in
  let '(dk, ik) := di in
  (pidx_set ik (pidx_remove dk pi),
   aset sn_eqb (k_sender ik, k_nonce ik) (k_prio ik, k_weight ik)
        (adel sn_eqb (k_sender dk, k_nonce dk) sc)).

Definition reorder (st : state) : state :=
  let '(pi, sc) := fold_left reorder_step (reorder_list st) (pidx st, scores st) in
  mkState pi (sidx st) sc (pcounts st).

(** ** The iterator (iteratePriority / Next) *)

Definition tx := (Z * Z * Z)%type.   (* sender, nonce, priority (as in the sender-index key) *)
Definition tx_sender (t : tx) : Z := fst (fst t).
Definition tx_nonce (t : tx) : Z := snd (fst t).
Definition tx_prio (t : tx) : Z := snd t.
Definition tag (s : Z) (l : slist) : list tx := map (fun e => (s, fst e, snd e)) l.

(** Emit the sender's next transactions while the test of [Next] passes.
    Result: emitted, remaining, panicked (nil dereference of priorityNode.Next() when the
    priority equals MinValue on the last index node). *)
Fixpoint drain (s : Z) (nxt : option key) (sc : list ((Z * Z) * (Z * Z))) (l : slist) : slist * slist * bool :=
  match l with
  | [] => ([], [], false)
  | (n, p) :: r =>
    let np := match nxt with Some k => k_prio k | None => min_value end in
    if p <? np then ([], l, false)
    else
      let stop_or_panic :=
        if p =? np then
          match nxt with
          | None => Some true
          | Some k => if snd (score_get s n sc) <? k_weight k then Some false else None
          end
        else None in
      match stop_or_panic with
      | Some pn => ([], l, pn)
      | None => let '(o, rem, pn) := drain s nxt sc r in ((n, p) :: o, rem, pn)
      end
  end.

Fixpoint walk (sc : list ((Z * Z) * (Z * Z))) (pi : list key) (cur : list (Z * slist)) : list tx * bool :=
  match pi with
  | [] => ([], false)
  | k :: rest =>
    let s := k_sender k in
    let '(o, rem, pn) := drain s (hd_error rest) sc (sget s cur) in
    if pn then (tag s o, true)
    else let '(o2, pn2) := walk sc rest (aset Z.eqb s rem cur) in (tag s o ++ o2, pn2)
  end.

(** Select + full iteration: the new state (ties re-weighted), the sequence, panicked. *)
Definition select_op (st : state) : state * (list tx * bool) :=
  match pidx st with
  | [] => (st, ([], false))
  | _ => let st' := reorder st in (st', walk (scores st') (pidx st') (sidx st'))
  end.

Definition select (st : state) : list tx := fst (snd (select_op st)).
Definition select_panics (st : state) : bool := snd (snd (select_op st)).
Definition count (st : state) : Z := Z.of_nat (List.length (pidx st)).

(** ** Histories *)
Inductive op := Insert (s n p : Z) | Remove (s n : Z) | Select.

Definition step (st : state) (o : op) : state :=
  match o with
  | Insert s n p => insert s n p st
  | Remove s n => fst (remove s n st)
  | Select => fst (select_op st)
  end.

Definition run (ops : list op) : state := fold_left step ops init.

(** ** Specification side: the pending set of a history, independent of the model state *)
Definition tx_sn (t : tx) : Z * Z := fst t.

Definition pend_step (pd : list tx) (o : op) : list tx :=
  match o with
  | Insert s n p => pd ++ [(s, n, p)]
  | Remove s n => filter (fun t => negb (sn_eqb (tx_sn t) (s, n))) pd
  | Select => pd
  end.

Definition pending (ops : list op) : list tx := fold_left pend_step ops [].

(** premise of the property: an insert never names a (sender, nonce) that is pending *)
Fixpoint uniq_from (pd : list tx) (ops : list op) : Prop :=
  match ops with
  | [] => True
  | o :: r =>
    match o with Insert s n _ => ~ In (s, n) (map tx_sn pd) | _ => True end /\ uniq_from (pend_step pd o) r
  end.
Definition unique_sender_nonce (ops : list op) : Prop := uniq_from [] ops.

(** guard: priorities above MinValue (MinInt64 makes the iterator dereference a nil node) *)
Definition op_prio_ok (o : op) : Prop := match o with Insert _ _ p => min_value < p | _ => True end.
Definition priorities_above_min (ops : list op) : Prop := Forall op_prio_ok ops.

(** [y] is sender [s]'s next available transaction once [out1] has been yielded *)
Definition next_available (s : Z) (out1 pend : list tx) (y : tx) : Prop :=
  In y pend /\ tx_sender y = s /\ ~ In y out1 /\
  forall z, In z pend -> tx_sender z = s -> ~ In z out1 -> tx_nonce y <= tx_nonce z.
