(** C19 — proofs about the model in PriorityNonce.v. *)
From Coq Require Import List ZArith Bool String Lia Permutation Sorted.
From Paloma Require Import Mempool.PriorityNonce.
From Paloma Require Gen.C19.
Import ListNotations.
Open Scope Z_scope.

(** ** Translator gates: the shapes the model mirrors.  A change in the source changes Gen/C19.v and
    these stop being provable by [reflexivity]. *)
Lemma gen_index_order :
  Gen.C19.index_wrapper = "skiplist.LessThanFunc"%string /\
  Gen.C19.index_order = ["priority"; "weight"; "sender"; "nonce"]%string.
Proof. split; reflexivity. Qed.

Lemma gen_source_shapes :
  Gen.C19.sender_index_cmp = "skiplist.LessThanFunc: skiplist.Uint64.Compare(b.(txMeta[C]).nonce, a.(txMeta[C]).nonce)"%string /\
  Gen.C19.insert_writes = ["key = txMeta[C]{nonce: nonce, priority: priority, sender: sender}";
                           "mp.scores[sk] = txMeta[C]{priority: priority}"]%string /\
  Gen.C19.next_conds = ["i.priorityNode == nil"; "!ok"; "cursor == nil";
     "i.mempool.cfg.TxPriority.Compare(key.priority, i.nextPriority) < 0";
     "i.mempool.cfg.TxPriority.Compare(key.priority, i.nextPriority) == 0";
     "i.mempool.cfg.TxPriority.Compare(weight, i.priorityNode.Next().Key().(txMeta[C]).weight) < 0"]%string /\
  Gen.C19.iterate_conds = ["i.priorityNode == nil"; "i.priorityNode == nil"; "nextPriorityNode != nil"]%string /\
  Gen.C19.reorder_conds = ["for node != nil"; "mp.priorityCounts[key.priority] > 1"]%string /\
  Gen.C19.sender_weight_conds = ["senderCursor == nil"; "for senderCursor != nil"; "txPriority.Compare(p, weight) != 0"]%string /\
  Gen.C19.count_tx_body = "return mp.priorityIndex.Len()"%string /\
  Gen.C19.single_message_len = 1 /\ Gen.C19.min_value = - 2 ^ 63 /\ Gen.C19.max_int64 = 2 ^ 63 - 1.
Proof. repeat split; reflexivity. Qed.

(** ** Generic list facts *)

Lemma Permutation_filter {A} (f : A -> bool) l l' :
  Permutation l l' -> Permutation (filter f l) (filter f l').
Proof.
  induction 1; simpl.
  - constructor.
  - destruct (f x); auto.
  - destruct (f x), (f y); auto. constructor.
  - eapply perm_trans; eauto.
Qed.

Lemma filter_all_true {A} (f : A -> bool) l : (forall x, In x l -> f x = true) -> filter f l = l.
Proof.
  induction l as [|a l IH]; simpl; intros H; [reflexivity|].
  rewrite (H a (or_introl eq_refl)). f_equal. apply IH. intros; apply H; now right.
Qed.

Lemma SS_app_cross {A} (R : A -> A -> Prop) a b :
  StronglySorted R (a ++ b) -> forall x y, In x a -> In y b -> R x y.
Proof.
  induction a as [|h a IH]; simpl; intros HS x y Hx Hy; [contradiction|].
  inversion HS as [|? ? HS' HF]; subst.
  destruct Hx as [->|Hx].
  - rewrite Forall_forall in HF. apply HF. apply in_or_app; now right.
  - eapply IH; eauto.
Qed.

Lemma SS_app_l {A} (R : A -> A -> Prop) a b : StronglySorted R (a ++ b) -> StronglySorted R a.
Proof.
  induction a as [|h a IH]; simpl; intros HS; [constructor|].
  inversion HS as [|? ? HS' HF]; subst. constructor; [now apply IH|].
  rewrite Forall_forall in *. intros x Hx. apply HF. apply in_or_app; now left.
Qed.

Lemma SS_app_r {A} (R : A -> A -> Prop) a b : StronglySorted R (a ++ b) -> StronglySorted R b.
Proof.
  induction a as [|h a IH]; simpl; intros HS; [assumption|].
  inversion HS; subst. now apply IH.
Qed.

Lemma app_split_mid {A} (a b o1 o2 : list A) (t : A) :
  a ++ b = o1 ++ t :: o2 ->
  (exists a2, a = o1 ++ t :: a2 /\ o2 = a2 ++ b) \/ (exists b1, o1 = a ++ b1 /\ b = b1 ++ t :: o2).
Proof.
  revert o1. induction a as [|x a IH]; simpl; intros o1 H.
  - right. exists o1. auto.
  - destruct o1 as [|y o1]; simpl in H.
    + inversion H; subst. left. exists a. auto.
    + inversion H; subst. destruct (IH _ H2) as [[a2 [E1 E2]]|[b1 [E1 E2]]].
      * left. exists a2. subst. auto.
      * right. exists b1. subst. auto.
Qed.

(** ** The key order *)

Definition key_gt (a b : key) : Prop := key_cmp a b = Gt.
Definition kpw (k : key) : Z * Z := (k_prio k, k_weight k).
(** lexicographic order on (priority, weight) *)
Definition pwle (a b : Z * Z) : Prop := fst a < fst b \/ (fst a = fst b /\ snd a <= snd b).
Definition pwlt (a b : Z * Z) : Prop := fst a < fst b \/ (fst a = fst b /\ snd a < snd b).

Ltac cmp_solve :=
  unfold key_gt, key_cmp, lex in *; simpl in *;
  repeat match goal with
  | |- context [?a ?= ?b] => destruct (Z.compare_spec a b)
  | H : context [?a ?= ?b] |- _ => destruct (Z.compare_spec a b)
  end; subst; try discriminate; try congruence; try lia.

Lemma key_cmp_eq a b : key_cmp a b = Eq <-> a = b.
Proof.
  destruct a as [p w s n], b as [p' w' s' n']. split; intros H.
  - cmp_solve.
  - inversion H; subst. unfold key_cmp, lex; simpl. now rewrite !Z.compare_refl.
Qed.

Lemma key_cmp_refl a : key_cmp a a = Eq.
Proof. now apply key_cmp_eq. Qed.

Lemma key_cmp_lt_gt a b : key_cmp a b = Lt -> key_gt b a.
Proof. destruct a as [p w s n], b as [p' w' s' n']. intros H. cmp_solve. Qed.

Lemma key_gt_trans a b c : key_gt a b -> key_gt b c -> key_gt a c.
Proof.
  destruct a as [p w s n], b as [p' w' s' n'], c as [p2 w2 s2 n2]. intros H1 H2. cmp_solve.
Qed.

Lemma key_gt_irrefl a : ~ key_gt a a.
Proof. unfold key_gt. rewrite key_cmp_refl. discriminate. Qed.

Lemma key_gt_pwle a b : key_gt a b -> pwle (kpw b) (kpw a).
Proof.
  destruct a as [p w s n], b as [p' w' s' n']. unfold pwle, kpw. intros H. cmp_solve.
Qed.

Notation psorted := (StronglySorted key_gt).

Lemma psorted_NoDup l : psorted l -> NoDup l.
Proof.
  induction 1 as [|a l HS IH HF]; constructor; auto.
  intros Hin. rewrite Forall_forall in HF. apply (key_gt_irrefl a). now apply HF.
Qed.

(** ** priority index operations *)

Lemma pidx_set_perm k l : ~ In k l -> Permutation (pidx_set k l) (k :: l).
Proof.
  induction l as [|h r IH]; simpl; intros Hn; [reflexivity|].
  destruct (key_cmp k h) eqn:E.
  - apply key_cmp_eq in E. subst. exfalso. apply Hn. now left.
  - eapply perm_trans; [apply perm_skip, IH|apply perm_swap]. intros Hin; apply Hn; now right.
  - reflexivity.
Qed.

Lemma pidx_set_sorted k l : ~ In k l -> psorted l -> psorted (pidx_set k l).
Proof.
  induction l as [|h r IH]; simpl; intros Hn HS.
  - constructor; constructor.
  - inversion HS as [|? ? HS' HF]; subst.
    destruct (key_cmp k h) eqn:E.
    + assumption.
    + assert (Hn' : ~ In k r) by (intros Hin; apply Hn; now right).
      constructor; [now apply IH|].
      rewrite Forall_forall in *. intros x Hx.
      apply (Permutation_in _ (pidx_set_perm k r Hn')) in Hx. destruct Hx as [<-|Hx].
      * now apply key_cmp_lt_gt.
      * now apply HF.
    + constructor; [assumption|]. constructor; [exact E|].
      rewrite Forall_forall in *. intros x Hx. eapply key_gt_trans; [exact E|now apply HF].
Qed.

Lemma pidx_remove_notin k l : ~ In k l -> pidx_remove k l = l.
Proof.
  induction l as [|h r IH]; simpl; intros Hn; [reflexivity|].
  destruct (key_cmp k h) eqn:E; try (f_equal; apply IH; intros Hin; apply Hn; now right).
  apply key_cmp_eq in E. subst. exfalso. apply Hn. now left.
Qed.

Lemma pidx_remove_perm k l : In k l -> Permutation l (k :: pidx_remove k l).
Proof.
  induction l as [|h r IH]; simpl; intros Hin; [contradiction|].
  destruct (key_cmp k h) eqn:E.
  - apply key_cmp_eq in E. subst. reflexivity.
  - destruct Hin as [->|Hin]; [rewrite key_cmp_refl in E; discriminate|].
    eapply perm_trans; [apply perm_skip, IH, Hin|apply perm_swap].
  - destruct Hin as [->|Hin]; [rewrite key_cmp_refl in E; discriminate|].
    eapply perm_trans; [apply perm_skip, IH, Hin|apply perm_swap].
Qed.

Lemma pidx_remove_incl k l x : In x (pidx_remove k l) -> In x l.
Proof.
  induction l as [|h r IH]; simpl; [auto|].
  destruct (key_cmp k h); simpl; intuition.
Qed.

Lemma pidx_remove_sorted k l : psorted l -> psorted (pidx_remove k l).
Proof.
  induction l as [|h r IH]; simpl; intros HS; [constructor|].
  inversion HS as [|? ? HS' HF]; subst.
  destruct (key_cmp k h); try assumption;
    (constructor; [now apply IH|]; rewrite Forall_forall in *; intros x Hx; apply HF; eapply pidx_remove_incl; eauto).
Qed.

Lemma pidx_remove_gone k l : psorted l -> ~ In k (pidx_remove k l).
Proof.
  intros HS. destruct (in_dec (fun a b : key => ltac:(decide equality; apply Z.eq_dec)) k l) as [Hin|Hn].
  - pose proof (psorted_NoDup _ HS) as ND.
    apply (Permutation_NoDup (pidx_remove_perm k l Hin)) in ND. now inversion ND.
  - now rewrite pidx_remove_notin.
Qed.

Lemma pidx_remove_keeps k l x : In x l -> x <> k -> In x (pidx_remove k l).
Proof.
  induction l as [|h r IH]; simpl; intros Hin Hne; [contradiction|].
  destruct (key_cmp k h) eqn:E.
  - apply key_cmp_eq in E. subst. destruct Hin; [congruence|assumption].
  - destruct Hin; [now left|right; auto].
  - destruct Hin; [now left|right; auto].
Qed.

(** ** sender lists *)

Definition slt (a b : Z * Z) : Prop := fst a < fst b.
Notation ssorted := (StronglySorted slt).

Lemma sl_set_perm n p l : ~ In n (map fst l) -> Permutation (sl_set n p l) ((n, p) :: l).
Proof.
  induction l as [|[n' p'] r IH]; simpl; intros Hn; [reflexivity|].
  destruct (Z.compare_spec n n').
  - subst. exfalso. apply Hn. now left.
  - reflexivity.
  - eapply perm_trans; [apply perm_skip, IH|apply perm_swap]. intros Hin; apply Hn; now right.
Qed.

Lemma sl_set_sorted n p l : ~ In n (map fst l) -> ssorted l -> ssorted (sl_set n p l).
Proof.
  induction l as [|[n' p'] r IH]; simpl; intros Hn HS.
  - constructor; constructor.
  - inversion HS as [|? ? HS' HF]; subst.
    destruct (Z.compare_spec n n').
    + assumption.
    + constructor; [assumption|]. constructor; [exact H|].
      rewrite Forall_forall in *. intros x Hx. specialize (HF x Hx). unfold slt in *; simpl in *; lia.
    + assert (Hn' : ~ In n (map fst r)) by (intros Hin; apply Hn; now right).
      constructor; [now apply IH|].
      rewrite Forall_forall in *. intros x Hx.
      apply (Permutation_in _ (sl_set_perm n p r Hn')) in Hx. destruct Hx as [<-|Hx].
      * exact H.
      * now apply HF.
Qed.

Lemma ssorted_fst_eq l a b : ssorted l -> In a l -> In b l -> fst a = fst b -> a = b.
Proof.
  induction 1 as [|h l HS IH HF]; simpl; [contradiction|].
  rewrite Forall_forall in HF. unfold slt in HF.
  intros [->|Ha] [->|Hb] E; auto.
  - specialize (HF _ Hb). lia.
  - specialize (HF _ Ha). lia.
Qed.

Lemma sl_remove_perm n p l : ssorted l -> In (n, p) l -> Permutation l ((n, p) :: sl_remove n l).
Proof.
  induction 1 as [|[n' p'] l HS IH HF]; simpl; intros Hin; [contradiction|].
  destruct (Z.eqb_spec n n').
  - subst. destruct Hin as [E|Hin]; [inversion E; subst; reflexivity|].
    rewrite Forall_forall in HF. specialize (HF _ Hin). unfold slt in HF; simpl in HF; lia.
  - destruct Hin as [E|Hin]; [inversion E; congruence|].
    eapply perm_trans; [apply perm_skip, IH, Hin|apply perm_swap].
Qed.

Lemma sl_remove_incl n l x : In x (sl_remove n l) -> In x l.
Proof.
  induction l as [|[n' p'] r IH]; simpl; [auto|].
  destruct (n =? n'); simpl; intuition.
Qed.

Lemma sl_remove_sorted n l : ssorted l -> ssorted (sl_remove n l).
Proof.
  induction 1 as [|[n' p'] l HS IH HF]; simpl; [constructor|].
  destruct (n =? n'); [assumption|].
  constructor; [assumption|]. rewrite Forall_forall in *. intros x Hx. apply HF. eapply sl_remove_incl; eauto.
Qed.

(** ** association lists *)

Lemma sn_eqb_spec a b : reflect (a = b) (sn_eqb a b).
Proof.
  destruct a as [a1 a2], b as [b1 b2]. unfold sn_eqb; simpl.
  destruct (Z.eqb_spec a1 b1), (Z.eqb_spec a2 b2); simpl; constructor; congruence.
Qed.

Section AssocFacts.
  Context {K V : Type} (eqb : K -> K -> bool) (eqb_spec : forall a b, reflect (a = b) (eqb a b)).

  Lemma aget_aset_same k v (l : list (K * V)) : aget eqb k (aset eqb k v l) = Some v.
  Proof.
    induction l as [|[k' v'] r IH]; simpl.
    - destruct (eqb_spec k k); congruence.
    - destruct (eqb_spec k k') as [->|Hne]; simpl.
      + destruct (eqb_spec k' k'); congruence.
      + destruct (eqb_spec k k'); congruence.
  Qed.

  Lemma aget_aset_other k k0 v (l : list (K * V)) : k0 <> k -> aget eqb k0 (aset eqb k v l) = aget eqb k0 l.
  Proof.
    intros Hne. induction l as [|[k' v'] r IH]; simpl.
    - destruct (eqb_spec k0 k); congruence.
    - destruct (eqb_spec k k') as [->|Hne']; simpl.
      + destruct (eqb_spec k0 k'); congruence.
      + destruct (eqb_spec k0 k'); congruence.
  Qed.

  Lemma aget_adel_same k (l : list (K * V)) : aget eqb k (adel eqb k l) = None.
  Proof.
    induction l as [|[k' v'] r IH]; simpl; [reflexivity|].
    destruct (eqb_spec k k') as [->|Hne]; simpl; [assumption|].
    destruct (eqb_spec k k'); congruence.
  Qed.

  Lemma aget_adel_other k k0 (l : list (K * V)) : k0 <> k -> aget eqb k0 (adel eqb k l) = aget eqb k0 l.
  Proof.
    intros Hne. induction l as [|[k' v'] r IH]; simpl; [reflexivity|].
    destruct (eqb_spec k k') as [->|Hne']; simpl.
    - destruct (eqb_spec k0 k'); congruence.
    - destruct (eqb_spec k0 k'); congruence.
  Qed.

  Lemma aget_In k v (l : list (K * V)) : aget eqb k l = Some v -> In (k, v) l.
  Proof.
    induction l as [|[k' v'] r IH]; simpl; [discriminate|].
    destruct (eqb_spec k k') as [->|Hne]; intros H; [inversion H; now left|right; auto].
  Qed.

  Lemma In_aget k v (l : list (K * V)) : NoDup (map fst l) -> In (k, v) l -> aget eqb k l = Some v.
  Proof.
    induction l as [|[k' v'] r IH]; simpl; intros ND Hin; [contradiction|].
    inversion ND as [|? ? Hn ND']; subst.
    destruct Hin as [E|Hin].
    - inversion E; subst. destruct (eqb_spec k k); congruence.
    - destruct (eqb_spec k k') as [->|Hne]; [|auto].
      exfalso. apply Hn. change k' with (fst (k', v)). now apply in_map.
  Qed.

  Lemma aset_keys k v (l : list (K * V)) x : In x (map fst (aset eqb k v l)) -> x = k \/ In x (map fst l).
  Proof.
    induction l as [|[k' v'] r IH]; simpl.
    - intuition.
    - destruct (eqb_spec k k') as [->|Hne]; simpl; intuition.
  Qed.

  Lemma aset_NoDup k v (l : list (K * V)) : NoDup (map fst l) -> NoDup (map fst (aset eqb k v l)).
  Proof.
    induction l as [|[k' v'] r IH]; simpl; intros ND.
    - constructor; [intros []|constructor].
    - inversion ND as [|? ? Hn ND']; subst.
      destruct (eqb_spec k k') as [->|Hne]; simpl.
      + constructor; assumption.
      + constructor; [|auto]. intros Hin. apply aset_keys in Hin. destruct Hin; [congruence|contradiction].
  Qed.

  Lemma In_aset_inv k v (l : list (K * V)) k0 v0 :
    NoDup (map fst l) -> In (k0, v0) (aset eqb k v l) -> (k0 = k /\ v0 = v) \/ (k0 <> k /\ In (k0, v0) l).
  Proof.
    induction l as [|[k' v'] r IH]; simpl; intros ND Hin.
    - destruct Hin as [E|[]]. inversion E; auto.
    - inversion ND as [|? ? Hn ND']; subst.
      destruct (eqb_spec k k') as [->|Hne]; simpl in Hin.
      + destruct Hin as [E|Hin]; [inversion E; auto|].
        right. split; [|now right]. intros ->. apply Hn. change k' with (fst (k', v0)). now apply in_map.
      + destruct Hin as [E|Hin]; [inversion E; subst; right; split; [congruence|now left]|].
        destruct (IH ND' Hin) as [?|[? ?]]; [now left|right; split; [assumption|now right]].
  Qed.
End AssocFacts.

Definition Zeqb_spec := Z.eqb_spec.

(** ** flatten of the sender indices *)

Definition flatten (m : list (Z * slist)) : list tx := flat_map (fun sl => tag (fst sl) (snd sl)) m.

Lemma tag_app s a b : tag s (a ++ b) = tag s a ++ tag s b.
Proof. unfold tag. now rewrite map_app. Qed.

Lemma tag_In s l t : In t (tag s l) <-> tx_sender t = s /\ In (tx_nonce t, tx_prio t) l.
Proof.
  unfold tag. rewrite in_map_iff. destruct t as [[s' n'] p']. unfold tx_sender, tx_nonce, tx_prio; simpl. split.
  - intros [[n p] [E Hin]]. inversion E; subst. auto.
  - intros [<- Hin]. exists (n', p'). auto.
Qed.

Lemma sget_cases s (m : list (Z * slist)) : sget s m = [] \/ In (s, sget s m) m.
Proof.
  unfold sget. destruct (aget Z.eqb s m) eqn:E; [right|now left].
  eapply aget_In; eauto. exact Z.eqb_spec.
Qed.

Lemma sget_In s l (m : list (Z * slist)) : NoDup (map fst m) -> In (s, l) m -> sget s m = l.
Proof.
  intros ND Hin. unfold sget. now rewrite (In_aget Z.eqb Z.eqb_spec s l m ND Hin).
Qed.

Lemma sget_aset_same s v m : sget s (aset Z.eqb s v m) = v.
Proof. unfold sget. now rewrite (aget_aset_same Z.eqb Z.eqb_spec). Qed.

Lemma sget_aset_other s s0 v m : s0 <> s -> sget s0 (aset Z.eqb s v m) = sget s0 m.
Proof. intros. unfold sget. now rewrite (aget_aset_other Z.eqb Z.eqb_spec). Qed.

Lemma flatten_aset s v m :
  Permutation (tag s (sget s m) ++ flatten (aset Z.eqb s v m)) (tag s v ++ flatten m).
Proof.
  induction m as [|[k' v'] r IH]; simpl.
  - unfold sget; simpl. rewrite app_nil_r. reflexivity.
  - unfold sget in *. simpl. destruct (Z.eqb_spec s k') as [->|Hne]; simpl.
    + rewrite !app_assoc. apply Permutation_app_tail. apply Permutation_app_comm.
    + eapply perm_trans; [|apply Permutation_app_swap_app].
      eapply perm_trans; [apply Permutation_app_swap_app|].
      apply Permutation_app_head. exact IH.
Qed.

Lemma flatten_In t m : In t (flatten m) -> exists l, In (tx_sender t, l) m /\ In (tx_nonce t, tx_prio t) l.
Proof.
  unfold flatten. rewrite in_flat_map. intros [[s l] [Hin Ht]]. simpl in Ht.
  apply tag_In in Ht. destruct Ht as [<- Ht]. eauto.
Qed.

Lemma In_flatten s l e m : In (s, l) m -> In e l -> In (s, fst e, snd e) (flatten m).
Proof.
  intros Hm He. unfold flatten. rewrite in_flat_map. exists (s, l). split; [assumption|].
  simpl. unfold tag. rewrite in_map_iff. exists e. auto.
Qed.

Lemma flatten_nil m : (forall s l, In (s, l) m -> l = []) -> flatten m = [].
Proof.
  induction m as [|[s l] m IH]; simpl; intros H; [reflexivity|].
  rewrite (H s l (or_introl eq_refl)). simpl. apply IH. intros; eapply H; right; eauto.
Qed.

(** ** The invariant: the four structures are in step with the pending set *)

Definition key_tx (k : key) : tx := (k_sender k, k_nonce k, k_prio k).

Record Inv (st : state) (pd : list tx) : Prop := {
  inv_nodup : NoDup (map tx_sn pd);
  inv_sorted : psorted (pidx st);
  inv_sc1 : forall k, In k (pidx st) ->
      aget sn_eqb (k_sender k, k_nonce k) (scores st) = Some (k_prio k, k_weight k);
  inv_sc2 : forall s n p w, aget sn_eqb (s, n) (scores st) = Some (p, w) -> In (mkKey p w s n) (pidx st);
  inv_pperm : Permutation (map key_tx (pidx st)) pd;
  inv_skeys : NoDup (map fst (sidx st));
  inv_ssorted : forall s sl, In (s, sl) (sidx st) -> ssorted sl;
  inv_sperm : Permutation (flatten (sidx st)) pd
}.

Lemma Inv_init : Inv init [].
Proof.
  constructor; simpl; try constructor; try (intros; contradiction); try discriminate.
Qed.

Lemma pd_sn_unique pd t1 t2 : NoDup (map tx_sn pd) -> In t1 pd -> In t2 pd -> tx_sn t1 = tx_sn t2 -> t1 = t2.
Proof.
  induction pd as [|a pd IH]; simpl; intros ND H1 H2 E; [contradiction|].
  inversion ND as [|? ? Hn ND']; subst.
  destruct H1 as [->|H1], H2 as [->|H2]; auto.
  - exfalso. apply Hn. rewrite E. now apply in_map.
  - exfalso. apply Hn. rewrite <- E. now apply in_map.
Qed.

Section InvFacts.
  Variables (st : state) (pd : list tx).
  Hypothesis HI : Inv st pd.

  Lemma inv_key_in_pd k : In k (pidx st) -> In (key_tx k) pd.
  Proof. intros H. eapply Permutation_in; [apply (inv_pperm _ _ HI)|]. now apply in_map. Qed.

  Lemma inv_pd_key t : In t pd -> exists k, In k (pidx st) /\ key_tx k = t.
  Proof.
    intros H. apply (Permutation_in _ (Permutation_sym (inv_pperm _ _ HI))) in H.
    apply in_map_iff in H. destruct H as [k [E Hk]]. eauto.
  Qed.

  Lemma inv_key_sn_unique k1 k2 :
    In k1 (pidx st) -> In k2 (pidx st) -> k_sender k1 = k_sender k2 -> k_nonce k1 = k_nonce k2 -> k1 = k2.
  Proof.
    intros H1 H2 Es En.
    pose proof (inv_sc1 _ _ HI _ H1) as S1. pose proof (inv_sc1 _ _ HI _ H2) as S2.
    rewrite Es, En in S1. rewrite S1 in S2. destruct k1, k2; simpl in *. inversion S2; subst. reflexivity.
  Qed.

  Lemma inv_scores_none s n : ~ In (s, n) (map tx_sn pd) -> aget sn_eqb (s, n) (scores st) = None.
  Proof.
    intros Hn. destruct (aget sn_eqb (s, n) (scores st)) as [[p w]|] eqn:E; [|reflexivity].
    exfalso. apply Hn. apply (inv_sc2 _ _ HI) in E. apply inv_key_in_pd in E.
    apply in_map_iff. exists (key_tx (mkKey p w s n)). split; [reflexivity|assumption].
  Qed.

  Lemma inv_entry_in_pd s sl e : In (s, sl) (sidx st) -> In e sl -> In (s, fst e, snd e) pd.
  Proof.
    intros Hs He. eapply Permutation_in; [apply (inv_sperm _ _ HI)|]. eapply In_flatten; eauto.
  Qed.

  Lemma inv_pd_entry t : In t pd -> In (tx_sender t, sget (tx_sender t) (sidx st)) (sidx st) /\
                                   In (tx_nonce t, tx_prio t) (sget (tx_sender t) (sidx st)).
  Proof.
    intros H. apply (Permutation_in _ (Permutation_sym (inv_sperm _ _ HI))) in H.
    apply flatten_In in H. destruct H as [l [Hl He]].
    rewrite (sget_In _ _ _ (inv_skeys _ _ HI) Hl). auto.
  Qed.
End InvFacts.

Lemma remove_one_filter pd s n p X :
  NoDup (map tx_sn pd) -> Permutation pd ((s, n, p) :: X) ->
  Permutation X (filter (fun t => negb (sn_eqb (tx_sn t) (s, n))) pd).
Proof.
  intros ND HP.
  pose proof (Permutation_filter (fun t => negb (sn_eqb (tx_sn t) (s, n))) _ _ HP) as HF.
  cbn [filter] in HF.
  assert (E0 : sn_eqb (tx_sn (s, n, p)) (s, n) = true).
  { destruct (sn_eqb_spec (tx_sn (s, n, p)) (s, n)) as [|Hne]; [reflexivity|exfalso; apply Hne; reflexivity]. }
  rewrite E0 in HF. cbn [negb] in HF.
  rewrite (filter_all_true _ X) in HF; [now apply Permutation_sym|].
  intros x Hx. destruct (sn_eqb_spec (tx_sn x) (s, n)) as [E|]; [|reflexivity].
  exfalso. assert (ND' : NoDup (map tx_sn ((s, n, p) :: X))).
  { eapply Permutation_NoDup; [apply Permutation_map, HP|assumption]. }
  cbn [map] in ND'. inversion ND' as [|? ? Hn _]; subst. apply Hn.
  change (tx_sn (s, n, p)) with (s, n). rewrite <- E. now apply in_map.
Qed.

Lemma Inv_insert st pd s n p :
  Inv st pd -> ~ In (s, n) (map tx_sn pd) -> Inv (insert s n p st) (pd ++ [(s, n, p)]).
Proof.
  intros HI Hn. unfold insert. rewrite (inv_scores_none _ _ HI _ _ Hn).
  set (k0 := mkKey p 0 s n).
  assert (Hk0 : ~ In k0 (pidx st)).
  { intros Hin. apply Hn. apply (inv_key_in_pd _ _ HI) in Hin. apply in_map_iff. exists (key_tx k0). auto. }
  assert (Hnn : ~ In n (map fst (sget s (sidx st)))).
  { intros Hin. apply in_map_iff in Hin. destruct Hin as [[n' p'] [E Hin]]. simpl in E. subst n'.
    destruct (sget_cases s (sidx st)) as [E|Hs]; [rewrite E in Hin; contradiction|].
    apply Hn. pose proof (inv_entry_in_pd _ _ HI _ _ _ Hs Hin) as Hp. simpl in Hp.
    apply in_map_iff. exists (s, n, p'). auto. }
  constructor; simpl.
  - rewrite map_app. simpl. apply (Permutation_NoDup (Permutation_cons_append _ _)).
    constructor; [exact Hn|apply (inv_nodup _ _ HI)].
  - apply pidx_set_sorted; [assumption|apply (inv_sorted _ _ HI)].
  - intros k Hin. apply (Permutation_in _ (pidx_set_perm _ _ Hk0)) in Hin. destruct Hin as [<-|Hin].
    + simpl. apply (aget_aset_same sn_eqb sn_eqb_spec).
    + rewrite (aget_aset_other sn_eqb sn_eqb_spec); [now apply (inv_sc1 _ _ HI)|].
      intros E. inversion E. apply Hn. apply (inv_key_in_pd _ _ HI) in Hin.
      apply in_map_iff. exists (key_tx k). split; [|assumption]. unfold tx_sn, key_tx; simpl. congruence.
  - intros s' n' p' w' H.
    apply (Permutation_in _ (Permutation_sym (pidx_set_perm _ _ Hk0))).
    destruct (sn_eqb_spec (s', n') (s, n)) as [E|Hne].
    + inversion E; subst. rewrite (aget_aset_same sn_eqb sn_eqb_spec) in H. inversion H; subst. now left.
    + rewrite (aget_aset_other sn_eqb sn_eqb_spec) in H by assumption. right. now apply (inv_sc2 _ _ HI).
  - eapply perm_trans; [apply Permutation_map, pidx_set_perm, Hk0|]. simpl.
    eapply perm_trans; [apply perm_skip, (inv_pperm _ _ HI)|]. apply Permutation_cons_append.
  - apply (aset_NoDup Z.eqb Z.eqb_spec), (inv_skeys _ _ HI).
  - intros s' sl' Hin. apply (In_aset_inv Z.eqb Z.eqb_spec) in Hin; [|apply (inv_skeys _ _ HI)].
    destruct Hin as [[-> ->]|[_ Hin]]; [|now apply (inv_ssorted _ _ HI) in Hin].
    apply sl_set_sorted; [assumption|].
    destruct (sget_cases s (sidx st)) as [E|Hs]; [rewrite E; constructor|now apply (inv_ssorted _ _ HI) in Hs].
  - pose proof (flatten_aset s (sl_set n p (sget s (sidx st))) (sidx st)) as HF.
    assert (HT : Permutation (tag s (sl_set n p (sget s (sidx st)))) ((s, n, p) :: tag s (sget s (sidx st)))).
    { unfold tag. apply (Permutation_map (fun e => (s, fst e, snd e))) in HF || idtac.
      eapply perm_trans; [apply Permutation_map, sl_set_perm, Hnn|]. reflexivity. }
    eapply perm_trans in HF; [|apply Permutation_sym; reflexivity].
    assert (HF2 : Permutation (tag s (sget s (sidx st)) ++ flatten (aset Z.eqb s (sl_set n p (sget s (sidx st))) (sidx st)))
                              (tag s (sget s (sidx st)) ++ (s, n, p) :: flatten (sidx st))).
    { eapply perm_trans; [exact HF|]. eapply perm_trans; [apply Permutation_app_tail, HT|]. simpl.
      apply Permutation_middle. }
    apply Permutation_app_inv_l in HF2.
    eapply perm_trans; [exact HF2|]. eapply perm_trans; [apply perm_skip, (inv_sperm _ _ HI)|].
    apply Permutation_cons_append.
Qed.

Lemma Inv_remove st pd s n :
  Inv st pd -> Inv (fst (remove s n st)) (pend_step pd (Remove s n)).
Proof.
  intros HI. unfold remove. simpl pend_step.
  destruct (aget sn_eqb (s, n) (scores st)) as [[p w]|] eqn:Esc.
  2:{ simpl. rewrite filter_all_true; [assumption|].
      intros t Ht. destruct (sn_eqb_spec (tx_sn t) (s, n)) as [E|]; [|reflexivity]. exfalso.
      destruct (inv_pd_key _ _ HI _ Ht) as [k [Hk Ek]]. pose proof (inv_sc1 _ _ HI _ Hk) as S.
      subst t. unfold tx_sn, key_tx in E. simpl in E. inversion E; subst. congruence. }
  pose proof (inv_sc2 _ _ HI _ _ _ _ Esc) as Hk0. set (k0 := mkKey p w s n) in *.
  pose proof (inv_key_in_pd _ _ HI _ Hk0) as Hpd. unfold key_tx in Hpd; simpl in Hpd.
  destruct (inv_pd_entry _ _ HI _ Hpd) as [Hs He]. unfold tx_sender, tx_nonce, tx_prio in Hs, He; simpl in Hs, He.
  assert (Eg : aget Z.eqb s (sidx st) = Some (sget s (sidx st))).
  { apply (In_aget Z.eqb Z.eqb_spec); [apply (inv_skeys _ _ HI)|assumption]. }
  rewrite Eg. simpl. set (sl := sget s (sidx st)) in *.
  pose proof (inv_ssorted _ _ HI _ _ Hs) as Hsl.
  assert (HP1 : Permutation pd ((s, n, p) :: map key_tx (pidx_remove k0 (pidx st)))).
  { eapply perm_trans; [apply Permutation_sym, (inv_pperm _ _ HI)|].
    apply (Permutation_map key_tx (pidx_remove_perm _ _ Hk0)). }
  assert (HP2 : Permutation pd ((s, n, p) :: flatten (aset Z.eqb s (sl_remove n sl) (sidx st)))).
  { eapply perm_trans; [apply Permutation_sym, (inv_sperm _ _ HI)|].
    pose proof (flatten_aset s (sl_remove n sl) (sidx st)) as HF. fold sl in HF.
    assert (HT : Permutation (tag s sl) ((s, n, p) :: tag s (sl_remove n sl))).
    { unfold tag. apply (Permutation_map (fun e => (s, fst e, snd e)) (sl_remove_perm n p sl Hsl He)). }
    assert (HF2 : Permutation (tag s (sl_remove n sl) ++ (s, n, p) :: flatten (aset Z.eqb s (sl_remove n sl) (sidx st)))
                              (tag s (sl_remove n sl) ++ flatten (sidx st))).
    { eapply perm_trans; [|exact HF]. eapply perm_trans; [apply Permutation_sym, Permutation_middle|].
      apply (Permutation_app_tail _ (Permutation_sym HT)). }
    apply Permutation_app_inv_l in HF2. now apply Permutation_sym. }
  pose proof (inv_nodup _ _ HI) as ND.
  constructor; simpl.
  - apply (Permutation_NoDup (Permutation_map tx_sn (remove_one_filter _ _ _ _ _ ND HP1))).
    assert (ND' : NoDup (map tx_sn ((s, n, p) :: map key_tx (pidx_remove k0 (pidx st))))).
    { eapply Permutation_NoDup; [apply Permutation_map, HP1|assumption]. }
    now inversion ND'.
  - apply pidx_remove_sorted, (inv_sorted _ _ HI).
  - intros k Hin. assert (Hne : k <> k0).
    { intros ->. revert Hin. apply pidx_remove_gone, (inv_sorted _ _ HI). }
    apply pidx_remove_incl in Hin.
    rewrite (aget_adel_other sn_eqb sn_eqb_spec); [now apply (inv_sc1 _ _ HI)|].
    intros E. inversion E. apply Hne. apply (inv_key_sn_unique _ _ HI); auto.
  - intros s' n' p' w' H. destruct (sn_eqb_spec (s', n') (s, n)) as [E|Hne].
    + inversion E; subst. rewrite (aget_adel_same sn_eqb sn_eqb_spec) in H. discriminate.
    + rewrite (aget_adel_other sn_eqb sn_eqb_spec) in H by assumption.
      apply pidx_remove_keeps; [now apply (inv_sc2 _ _ HI)|]. unfold k0. intros E. inversion E; subst. congruence.
  - apply (remove_one_filter _ _ _ _ _ ND HP1).
  - apply (aset_NoDup Z.eqb Z.eqb_spec), (inv_skeys _ _ HI).
  - intros s' sl' Hin. apply (In_aset_inv Z.eqb Z.eqb_spec) in Hin; [|apply (inv_skeys _ _ HI)].
    destruct Hin as [[-> ->]|[_ Hin]]; [|now apply (inv_ssorted _ _ HI) in Hin].
    now apply sl_remove_sorted.
  - apply (remove_one_filter _ _ _ _ _ ND HP2).
Qed.

(** *** reorderPriorityTies keeps the structures in step (whatever weights it computes) *)

Record PInv (pi : list key) (sc : list ((Z * Z) * (Z * Z))) (pd : list tx) : Prop := {
  pinv_sorted : psorted pi;
  pinv_sc1 : forall k, In k pi -> aget sn_eqb (k_sender k, k_nonce k) sc = Some (k_prio k, k_weight k);
  pinv_sc2 : forall s n p w, aget sn_eqb (s, n) sc = Some (p, w) -> In (mkKey p w s n) pi;
  pinv_pperm : Permutation (map key_tx pi) pd
}.

Definition same_tx (dk ik : key) : Prop :=
  k_prio ik = k_prio dk /\ k_sender ik = k_sender dk /\ k_nonce ik = k_nonce dk.

Lemma PInv_sn_unique pi sc pd k1 k2 :
  PInv pi sc pd -> In k1 pi -> In k2 pi -> k_sender k1 = k_sender k2 -> k_nonce k1 = k_nonce k2 -> k1 = k2.
Proof.
  intros HP H1 H2 Es En.
  pose proof (pinv_sc1 _ _ _ HP _ H1) as S1. pose proof (pinv_sc1 _ _ _ HP _ H2) as S2.
  rewrite Es, En in S1. rewrite S1 in S2. destruct k1, k2; simpl in *. inversion S2; subst. reflexivity.
Qed.

Lemma PInv_step pi sc pd dk ik :
  PInv pi sc pd -> In dk pi -> same_tx dk ik -> PInv (fst (reorder_step (pi, sc) (dk, ik))) (snd (reorder_step (pi, sc) (dk, ik))) pd.
Proof.
  intros HP Hdk [Ep [Es En]]. simpl.
  assert (Hik : ~ In ik (pidx_remove dk pi)).
  { intros Hin. pose proof (pidx_remove_incl _ _ _ Hin) as Hin'.
    assert (ik = dk) by (apply (PInv_sn_unique _ _ _ _ _ HP); auto). subst ik.
    revert Hin. apply pidx_remove_gone, (pinv_sorted _ _ _ HP). }
  constructor.
  - apply pidx_set_sorted; [assumption|]. apply pidx_remove_sorted, (pinv_sorted _ _ _ HP).
  - intros k Hin. apply (Permutation_in _ (pidx_set_perm _ _ Hik)) in Hin. destruct Hin as [<-|Hin].
    + apply (aget_aset_same sn_eqb sn_eqb_spec).
    + assert (Hne : k <> dk) by (intros ->; revert Hin; apply pidx_remove_gone, (pinv_sorted _ _ _ HP)).
      apply pidx_remove_incl in Hin.
      assert (Hsn : (k_sender k, k_nonce k) <> (k_sender dk, k_nonce dk)).
      { intros E. inversion E. apply Hne. apply (PInv_sn_unique _ _ _ _ _ HP); auto. }
      rewrite (aget_aset_other sn_eqb sn_eqb_spec) by (rewrite Es, En; exact Hsn).
      rewrite (aget_adel_other sn_eqb sn_eqb_spec) by exact Hsn.
      now apply (pinv_sc1 _ _ _ HP).
  - intros s n p w H. apply (Permutation_in _ (Permutation_sym (pidx_set_perm _ _ Hik))).
    destruct (sn_eqb_spec (s, n) (k_sender ik, k_nonce ik)) as [E|Hne].
    + inversion E; subst. rewrite (aget_aset_same sn_eqb sn_eqb_spec) in H. inversion H; subst. left. now destruct ik.
    + rewrite (aget_aset_other sn_eqb sn_eqb_spec) in H by assumption.
      rewrite (aget_adel_other sn_eqb sn_eqb_spec) in H by (rewrite <- Es, <- En; exact Hne).
      right. apply pidx_remove_keeps; [now apply (pinv_sc2 _ _ _ HP)|].
      intros E. apply Hne. rewrite Es, En, <- E. reflexivity.
  - eapply perm_trans; [apply Permutation_map, pidx_set_perm, Hik|]. simpl.
    replace (key_tx ik) with (key_tx dk) by (unfold key_tx; congruence).
    eapply perm_trans; [|apply (pinv_pperm _ _ _ HP)].
    apply Permutation_sym. apply (Permutation_map key_tx (pidx_remove_perm _ _ Hdk)).
Qed.

Definition key_sn (k : key) : Z * Z := (k_sender k, k_nonce k).

Lemma PInv_fold todo : forall pi sc pd,
  PInv pi sc pd ->
  (forall dk ik, In (dk, ik) todo -> In dk pi /\ same_tx dk ik) ->
  NoDup (map (fun di => key_sn (fst di)) todo) ->
  PInv (fst (fold_left reorder_step todo (pi, sc))) (snd (fold_left reorder_step todo (pi, sc))) pd.
Proof.
  induction todo as [|[dk ik] todo IH]; intros pi sc pd HP Htodo ND; [exact HP|].
  cbn [fold_left]. destruct (Htodo dk ik (or_introl eq_refl)) as [Hdk Hsame].
  pose proof (PInv_step _ _ _ _ _ HP Hdk Hsame) as HP'.
  destruct (reorder_step (pi, sc) (dk, ik)) as [pi' sc'] eqn:Est. cbn [fst snd] in HP'.
  apply IH; [assumption| |now inversion ND].
  intros dk' ik' Hin. destruct (Htodo dk' ik' (or_intror Hin)) as [Hdk' Hsame']. split; [|assumption].
  inversion ND as [|? ? Hn ND']; subst.
  assert (Hne : dk' <> dk).
  { intros ->. apply Hn. apply in_map_iff. exists (dk, ik'). auto. }
  unfold reorder_step in Est. inversion Est; subst.
  apply (@Permutation_in _ (ik :: pidx_remove dk pi) _ dk').
  - apply Permutation_sym, pidx_set_perm.
    intros Hin2. pose proof (pidx_remove_incl _ _ _ Hin2) as Hin3. destruct Hsame as [? [? ?]].
    assert (ik = dk) by (apply (PInv_sn_unique _ _ _ _ _ HP); auto). subst ik.
    revert Hin2. apply pidx_remove_gone, (pinv_sorted _ _ _ HP).
  - right. now apply pidx_remove_keeps.
Qed.

Lemma reorder_list_spec st :
  forall dk ik, In (dk, ik) (reorder_list st) -> In dk (pidx st) /\ same_tx dk ik.
Proof.
  intros dk ik. unfold reorder_list. rewrite in_flat_map. intros [k [Hk Hin]].
  destruct (1 <? cnt_get (k_prio k) (pcounts st)); simpl in Hin; [|contradiction].
  destruct Hin as [E|[]]. inversion E; subst. split; [assumption|]. unfold same_tx; simpl; auto.
Qed.

Lemma flat_map_opt_NoDup {A B C} (g : B -> C) (h : A -> C) (f : A -> list B) (l : list A) :
  (forall a b, In b (f a) -> g b = h a) -> (forall a, (List.length (f a) <= 1)%nat) ->
  NoDup (map h l) -> NoDup (map g (flat_map f l)).
Proof.
  intros Hg Hlen. induction l as [|a l IH]; simpl; intros ND; [constructor|].
  inversion ND as [|? ? Hn ND']; subst. rewrite map_app.
  specialize (Hlen a). pose proof (Hg a) as Hga.
  destruct (f a) as [|b [|b' r]]; simpl in *; [now apply IH| |lia].
  constructor; [|now apply IH]. rewrite (Hga b (or_introl eq_refl)).
  intros Hin. apply Hn. apply in_map_iff in Hin. destruct Hin as [b2 [E Hb2]].
  apply in_flat_map in Hb2. destruct Hb2 as [a2 [Ha2 Hb2]]. rewrite (Hg _ _ Hb2) in E. rewrite <- E. now apply in_map.
Qed.

Lemma Inv_key_sn_NoDup st pd : Inv st pd -> NoDup (map key_sn (pidx st)).
Proof.
  intros HI. pose proof (inv_nodup _ _ HI) as ND.
  apply (Permutation_NoDup (Permutation_map tx_sn (Permutation_sym (inv_pperm _ _ HI)))) in ND.
  rewrite map_map in ND. exact ND.
Qed.

Lemma Inv_reorder st pd : Inv st pd -> Inv (reorder st) pd.
Proof.
  intros HI. unfold reorder.
  assert (HP : PInv (pidx st) (scores st) pd).
  { constructor; [apply (inv_sorted _ _ HI)|apply (inv_sc1 _ _ HI)|apply (inv_sc2 _ _ HI)|apply (inv_pperm _ _ HI)]. }
  pose proof (PInv_fold (reorder_list st) _ _ _ HP (reorder_list_spec st)) as HF.
  assert (ND : NoDup (map (fun di => key_sn (fst di)) (reorder_list st))).
  { unfold reorder_list. apply flat_map_opt_NoDup with (h := key_sn).
    - intros a b Hb. destruct (1 <? cnt_get (k_prio a) (pcounts st)); simpl in Hb; [|contradiction].
      destruct Hb as [<-|[]]. reflexivity.
    - intros a. destruct (1 <? cnt_get (k_prio a) (pcounts st)); simpl; lia.
    - now apply (Inv_key_sn_NoDup _ pd). }
  specialize (HF ND).
  destruct (fold_left reorder_step (reorder_list st) (pidx st, scores st)) as [pi sc]. cbn [fst snd] in HF.
  constructor; simpl;
    [apply (inv_nodup _ _ HI)|apply (pinv_sorted _ _ _ HF)|apply (pinv_sc1 _ _ _ HF)|apply (pinv_sc2 _ _ _ HF)
    |apply (pinv_pperm _ _ _ HF)|apply (inv_skeys _ _ HI)|apply (inv_ssorted _ _ HI)|apply (inv_sperm _ _ HI)].
Qed.

Lemma Inv_select_op st pd : Inv st pd -> Inv (fst (select_op st)) pd.
Proof.
  intros HI. unfold select_op. destruct (pidx st) eqn:E; [exact HI|]. simpl. now apply Inv_reorder.
Qed.

Lemma Inv_step st pd o :
  Inv st pd -> match o with Insert s n _ => ~ In (s, n) (map tx_sn pd) | _ => True end ->
  Inv (step st o) (pend_step pd o).
Proof.
  intros HI Hu. destruct o as [s n p|s n|]; simpl step.
  - now apply Inv_insert.
  - now apply Inv_remove.
  - now apply Inv_select_op.
Qed.

Lemma Inv_fold ops : forall st pd,
  Inv st pd -> uniq_from pd ops -> Inv (fold_left step ops st) (fold_left pend_step ops pd).
Proof.
  induction ops as [|o ops IH]; intros st pd HI Hu; [exact HI|].
  destruct Hu as [Hu1 Hu2]. cbn [fold_left]. apply IH; [|assumption]. now apply Inv_step.
Qed.

Lemma Inv_run ops : unique_sender_nonce ops -> Inv (run ops) (pending ops).
Proof. intros Hu. apply Inv_fold; [apply Inv_init|exact Hu]. Qed.

(** *** CountTx *)
Lemma count_eq_pending_proof ops :
  unique_sender_nonce ops -> count (run ops) = Z.of_nat (List.length (pending ops)).
Proof.
  intros Hu. pose proof (Inv_run ops Hu) as HI. unfold count. f_equal.
  rewrite <- (Permutation_length (inv_pperm _ _ HI)). now rewrite map_length.
Qed.

(** ** The iterator *)

Definition wt (s : Z) (sc : list ((Z * Z) * (Z * Z))) (e : Z * Z) : Z * Z := (snd e, snd (score_get s (fst e) sc)).
Definition ekey (s : Z) (sc : list ((Z * Z) * (Z * Z))) (e : Z * Z) : key :=
  mkKey (snd e) (snd (score_get s (fst e) sc)) s (fst e).

Lemma pwle_trans a b c : pwle a b -> pwle b c -> pwle a c.
Proof. unfold pwle. lia. Qed.
Lemma pwlt_le_trans a b c : pwlt a b -> pwle b c -> pwlt a c.
Proof. unfold pwle, pwlt. lia. Qed.
Lemma pwle_lt_trans a b c : pwle a b -> pwlt b c -> pwlt a c.
Proof. unfold pwle, pwlt. lia. Qed.
Lemma pwlt_not_le a b : pwlt a b -> ~ pwle b a.
Proof. unfold pwle, pwlt. lia. Qed.

Lemma drain_split s nxt sc l o rem pn : drain s nxt sc l = (o, rem, pn) -> l = o ++ rem.
Proof.
  revert o rem pn. induction l as [|[n p] r IH]; simpl; intros o rem pn H.
  - inversion H; reflexivity.
  - destruct (p <? _); [inversion H; reflexivity|].
    match type of H with (match ?x with _ => _ end) = _ => destruct x end; [inversion H; reflexivity|].
    destruct (drain s nxt sc r) as [[o' rem'] pn']. inversion H; subst. simpl. f_equal. eapply IH; eauto.
Qed.

(** no panic when a next node exists or the priorities are above MinValue *)
Lemma drain_nopanic s nxt sc l o rem pn :
  drain s nxt sc l = (o, rem, pn) -> (nxt = None -> forall e, In e l -> min_value < snd e) -> pn = false.
Proof.
  revert o rem pn. induction l as [|[n p] r IH]; simpl; intros o rem pn H G.
  - now inversion H.
  - destruct (p <? _); [now inversion H|].
    destruct nxt as [k|].
    + destruct (p =? k_prio k).
      * destruct (snd (score_get s n sc) <? k_weight k); [now inversion H|].
        destruct (drain s (Some k) sc r) as [[o' rem'] pn'] eqn:E. inversion H; subst. eapply IH; eauto; intros; discriminate.
      * destruct (drain s (Some k) sc r) as [[o' rem'] pn'] eqn:E. inversion H; subst. eapply IH; eauto; intros; discriminate.
    + specialize (G eq_refl). pose proof (G (n, p) (or_introl eq_refl)) as Gp. simpl in Gp.
      destruct (Z.eqb_spec p min_value); [lia|].
      destruct (drain s None sc r) as [[o' rem'] pn'] eqn:E. inversion H; subst. eapply IH; eauto.
Qed.

(** what stops a drain fails the test against the next index node *)
Lemma drain_rem_fails s nxt sc l o rem h t :
  drain s nxt sc l = (o, rem, false) -> (nxt = None -> forall e, In e l -> min_value < snd e) ->
  rem = h :: t -> exists k, nxt = Some k /\ pwlt (wt s sc h) (kpw k).
Proof.
  revert o. induction l as [|[n p] r IH]; simpl; intros o H G Er.
  - inversion H; subst. discriminate.
  - destruct nxt as [k|].
    + destruct (Z.ltb_spec p (k_prio k)).
      * inversion H as [[Eo Erem]]. rewrite Er in Erem. inversion Erem; subst. exists k. split; [reflexivity|]. unfold pwlt, wt, kpw; simpl. lia.
      * destruct (Z.eqb_spec p (k_prio k)).
        -- destruct (Z.ltb_spec (snd (score_get s n sc)) (k_weight k)).
           ++ inversion H as [[Eo Erem]]. rewrite Er in Erem. inversion Erem; subst. exists k. split; [reflexivity|]. unfold pwlt, wt, kpw; simpl. lia.
           ++ destruct (drain s (Some k) sc r) as [[o' rem'] pn'] eqn:E. inversion H; subst. eapply IH; eauto; intros; discriminate.
        -- destruct (drain s (Some k) sc r) as [[o' rem'] pn'] eqn:E. inversion H; subst. eapply IH; eauto; intros; discriminate.
    + specialize (G eq_refl). pose proof (G (n, p) (or_introl eq_refl)) as Gp. simpl in Gp.
      destruct (Z.ltb_spec p min_value); [lia|]. destruct (Z.eqb_spec p min_value); [lia|].
      destruct (drain s None sc r) as [[o' rem'] pn'] eqn:E. inversion H; subst.
      exfalso. edestruct IH as [k [Ek _]]; eauto; discriminate.
Qed.

(** what a drain emits passes the test against the next index node *)
Lemma drain_out_passes s k sc l o rem pn e :
  drain s (Some k) sc l = (o, rem, pn) -> In e o -> pwle (kpw k) (wt s sc e).
Proof.
  revert o. induction l as [|[n p] r IH]; simpl; intros o H Hin.
  - inversion H; subst. contradiction.
  - destruct (Z.ltb_spec p (k_prio k)); [inversion H; subst; contradiction|].
    destruct (Z.eqb_spec p (k_prio k)).
    + destruct (Z.ltb_spec (snd (score_get s n sc)) (k_weight k)); [inversion H; subst; contradiction|].
      destruct (drain s (Some k) sc r) as [[o' rem'] pn'] eqn:E. inversion H; subst.
      destruct Hin as [<-|Hin]; [unfold pwle, wt, kpw; simpl; lia|eapply IH; eauto].
    + destruct (drain s (Some k) sc r) as [[o' rem'] pn'] eqn:E. inversion H; subst.
      destruct Hin as [<-|Hin]; [unfold pwle, wt, kpw; simpl; lia|eapply IH; eauto].
Qed.

(** *** every pending transaction exactly once *)

Record WOK (sc : list ((Z * Z) * (Z * Z))) (pi : list key) (cur : list (Z * slist)) : Prop := {
  wok_sorted : psorted pi;
  wok_keys : NoDup (map fst cur);
  wok_guard : forall s l e, In (s, l) cur -> In e l -> min_value < snd e;
  wok_wit : forall s l e, In (s, l) cur -> In e l ->
      exists k, In k pi /\ k_sender k = s /\ pwle (kpw k) (wt s sc e)
}.

Lemma walk_perm sc pi : forall cur, WOK sc pi cur ->
  snd (walk sc pi cur) = false /\ Permutation (fst (walk sc pi cur)) (flatten cur).
Proof.
  induction pi as [|k rest IH]; intros cur HW.
  - simpl. split; [reflexivity|].
    assert (E : flatten cur = []).
    { apply flatten_nil. intros s l Hin.
      destruct l as [|e l]; [reflexivity|].
      destruct (wok_wit _ _ _ HW s (e :: l) e Hin (or_introl eq_refl)) as [k [[] _]]. }
    rewrite E. constructor.
  - cbn [walk]. set (s := k_sender k).
    destruct (drain s (hd_error rest) sc (sget s cur)) as [[o rem] pn] eqn:Ed.
    pose proof (drain_split _ _ _ _ _ _ _ Ed) as Esplit.
    assert (Hl : forall e, In e (sget s cur) -> In (s, sget s cur) cur).
    { intros e He. destruct (sget_cases s cur) as [E|]; [rewrite E in He; contradiction|assumption]. }
    assert (G : hd_error rest = None -> forall e, In e (sget s cur) -> min_value < snd e).
    { intros _ e He. eapply (wok_guard _ _ _ HW); eauto. }
    pose proof (drain_nopanic _ _ _ _ _ _ _ Ed G) as Epn. subst pn.
    assert (HW' : WOK sc rest (aset Z.eqb s rem cur)).
    { pose proof (wok_sorted _ _ _ HW) as HS. inversion HS as [|? ? HS' HF]; subst.
      rewrite Forall_forall in HF.
      constructor.
      - assumption.
      - apply (aset_NoDup Z.eqb Z.eqb_spec), (wok_keys _ _ _ HW).
      - intros s' l' e Hin He. apply (In_aset_inv Z.eqb Z.eqb_spec) in Hin; [|apply (wok_keys _ _ _ HW)].
        destruct Hin as [[-> ->]|[_ Hin]]; [|eapply (wok_guard _ _ _ HW); eauto].
        assert (He' : In e (sget s cur)) by (rewrite Esplit; apply in_or_app; now right).
        eapply (wok_guard _ _ _ HW); eauto.
      - intros s' l' e Hin He. apply (In_aset_inv Z.eqb Z.eqb_spec) in Hin; [|apply (wok_keys _ _ _ HW)].
        destruct Hin as [[-> ->]|[Hne Hin]].
        + destruct rem as [|h t] eqn:Erem; [contradiction|].
          destruct (drain_rem_fails _ _ _ _ _ _ h t Ed G eq_refl) as [k1 [Ek1 Hfail]].
          destruct rest as [|k1' rest']; [discriminate|]. simpl in Ek1. inversion Ek1; subst k1'.
          assert (Hh : In h (sget s cur)) by (rewrite Esplit; apply in_or_app; right; now left).
          assert (He' : In e (sget s cur)) by (rewrite Esplit; apply in_or_app; now right).
          destruct (wok_wit _ _ _ HW s _ h (Hl _ Hh) Hh) as [kh [Hkh [Eskh Hle]]].
          assert (Hk1k : pwle (kpw k1) (kpw k)) by (apply key_gt_pwle, HF; now left).
          assert (Hkh' : In kh (k1 :: rest')).
          { destruct Hkh as [<-|]; [|assumption]. exfalso.
            apply (pwlt_not_le _ _ (pwle_lt_trans _ _ _ Hle Hfail)). exact Hk1k. }
          destruct (wok_wit _ _ _ HW s _ e (Hl _ He') He') as [ke [Hke [Eske Hlee]]].
          destruct Hke as [<-|Hke]; [|eauto].
          exists kh. split; [assumption|]. split; [assumption|].
          unfold pwle, pwlt in *. lia.
        + destruct (wok_wit _ _ _ HW s' l' e Hin He) as [k' [Hk' [Esk' Hle]]].
          destruct Hk' as [<-|Hk']; [exfalso; apply Hne; symmetry; exact Esk'|]. eauto. }
    destruct (IH _ HW') as [Epn2 HP2].
    destruct (walk sc rest (aset Z.eqb s rem cur)) as [o2 pn2]. simpl in *. split; [assumption|].
    pose proof (flatten_aset s rem cur) as HF. rewrite Esplit, tag_app in HF.
    assert (HF2 : Permutation (tag s rem ++ (tag s o ++ flatten (aset Z.eqb s rem cur))) (tag s rem ++ flatten cur)).
    { eapply perm_trans; [|exact HF]. rewrite !app_assoc. apply Permutation_app_tail. apply Permutation_app_comm. }
    apply Permutation_app_inv_l in HF2.
    eapply perm_trans; [apply Permutation_app_head, HP2|exact HF2].
Qed.

Lemma Inv_WOK st pd :
  Inv st pd -> Forall (fun t => min_value < tx_prio t) pd -> WOK (scores st) (pidx st) (sidx st).
Proof.
  intros HI HG. constructor.
  - apply (inv_sorted _ _ HI).
  - apply (inv_skeys _ _ HI).
  - intros s l e Hl He. rewrite Forall_forall in HG.
    apply (HG _ (inv_entry_in_pd _ _ HI _ _ _ Hl He)).
  - intros s l e Hl He. pose proof (inv_entry_in_pd _ _ HI _ _ _ Hl He) as Hpd.
    destruct (inv_pd_key _ _ HI _ Hpd) as [k [Hk Ek]]. exists k. split; [assumption|].
    unfold key_tx in Ek. injection Ek as Es En Ep. split; [exact Es|].
    unfold wt, score_get. rewrite <- Es, <- En, <- Ep. rewrite (inv_sc1 _ _ HI _ Hk). simpl.
    unfold pwle, kpw; simpl. lia.
Qed.

Lemma pending_prio_ok ops : forall pd,
  Forall (fun t => min_value < tx_prio t) pd -> Forall op_prio_ok ops ->
  Forall (fun t => min_value < tx_prio t) (fold_left pend_step ops pd).
Proof.
  induction ops as [|o ops IH]; intros pd Hpd Hops; [exact Hpd|].
  inversion Hops; subst. cbn [fold_left]. apply IH; [|assumption].
  destruct o as [s n p|s n|]; simpl.
  - apply Forall_app. split; [assumption|]. constructor; [exact H1|constructor].
  - rewrite Forall_forall in *. intros x Hx. apply filter_In in Hx. now apply Hpd.
  - assumption.
Qed.

Lemma select_perm_st st pd :
  Inv st pd -> Forall (fun t => min_value < tx_prio t) pd ->
  select_panics st = false /\ Permutation (select st) pd.
Proof.
  intros HI HG. unfold select, select_panics, select_op.
  destruct (pidx st) eqn:E.
  - simpl. split; [reflexivity|]. pose proof (inv_pperm _ _ HI) as HP. rewrite E in HP. simpl in HP.
    apply Permutation_nil in HP. subst. constructor.
  - cbn [fst snd]. pose proof (Inv_reorder _ _ HI) as HI'.
    destruct (walk_perm _ _ _ (Inv_WOK _ _ HI' HG)) as [Hp HP]. split; [assumption|].
    eapply perm_trans; [exact HP|apply (inv_sperm _ _ HI')].
Qed.

Lemma select_is_permutation_proof ops :
  unique_sender_nonce ops -> priorities_above_min ops ->
  select_panics (run ops) = false /\ Permutation (select (run ops)) (pending ops).
Proof.
  intros Hu Hp. apply select_perm_st; [now apply Inv_run|].
  apply pending_prio_ok; [constructor|exact Hp].
Qed.

(** *** per-sender nonce order *)

Definition from (s : Z) (t : tx) : bool := tx_sender t =? s.

Lemma filter_tag_same s l : filter (from s) (tag s l) = tag s l.
Proof.
  apply filter_all_true. intros x Hx. apply tag_In in Hx. unfold from. destruct Hx as [-> _]. apply Z.eqb_refl.
Qed.

Lemma filter_tag_other s s' l : s' <> s -> filter (from s) (tag s' l) = [].
Proof.
  intros Hne. induction l as [|e l IH]; simpl; [reflexivity|].
  unfold from at 1, tx_sender; simpl. destruct (Z.eqb_spec s' s); [contradiction|assumption].
Qed.

Lemma walk_prefix sc pi : forall cur s,
  exists rem, tag s (sget s cur) = filter (from s) (fst (walk sc pi cur)) ++ tag s rem.
Proof.
  induction pi as [|k rest IH]; intros cur s.
  - simpl. eauto.
  - cbn [walk]. set (s0 := k_sender k).
    destruct (drain s0 (hd_error rest) sc (sget s0 cur)) as [[o rem0] pn] eqn:Ed.
    pose proof (drain_split _ _ _ _ _ _ _ Ed) as Esplit.
    destruct pn.
    + simpl. destruct (Z.eq_dec s0 s) as [E|Hne].
      * rewrite <- E. rewrite filter_tag_same. exists rem0. now rewrite Esplit, tag_app.
      * rewrite filter_tag_other by assumption. simpl. eauto.
    + destruct (IH (aset Z.eqb s0 rem0 cur) s) as [rem Hrem].
      destruct (walk sc rest (aset Z.eqb s0 rem0 cur)) as [o2 pn2]. simpl in *.
      rewrite filter_app. destruct (Z.eq_dec s0 s) as [E|Hne].
      * rewrite <- E in *. rewrite filter_tag_same. rewrite sget_aset_same in Hrem.
        exists rem. rewrite Esplit, tag_app, Hrem. now rewrite app_assoc.
      * rewrite filter_tag_other by assumption. simpl.
        rewrite sget_aset_other in Hrem by congruence. eauto.
Qed.

Lemma map_nonce_tag s l : map tx_nonce (tag s l) = map fst l.
Proof. unfold tag. rewrite map_map. reflexivity. Qed.

Lemma ssorted_map_fst l : ssorted l -> StronglySorted Z.lt (map fst l).
Proof.
  induction 1 as [|a l HS IH HF]; simpl; constructor; [assumption|].
  rewrite Forall_forall in *. intros x Hx. apply in_map_iff in Hx. destruct Hx as [b [<- Hb]]. now apply HF.
Qed.

Lemma Inv_sget_sorted st pd s : Inv st pd -> ssorted (sget s (sidx st)).
Proof.
  intros HI. destruct (sget_cases s (sidx st)) as [E|H]; [rewrite E; constructor|].
  now apply (inv_ssorted _ _ HI) in H.
Qed.

Lemma select_nonce_order_st st pd s :
  Inv st pd -> StronglySorted Z.lt (map tx_nonce (filter (from s) (select st))).
Proof.
  intros HI. unfold select, select_op. destruct (pidx st) eqn:E; [simpl; constructor|].
  cbn [fst snd]. pose proof (Inv_reorder _ _ HI) as HI'.
  destruct (walk_prefix (scores (reorder st)) (pidx (reorder st)) (sidx (reorder st)) s) as [rem Hrem].
  pose proof (ssorted_map_fst _ (Inv_sget_sorted _ _ s HI')) as HS.
  rewrite <- map_nonce_tag with (s := s) in HS. rewrite Hrem, map_app in HS.
  now apply SS_app_l in HS.
Qed.

Lemma select_nonce_order_proof ops s :
  unique_sender_nonce ops -> StronglySorted Z.lt (map tx_nonce (filter (from s) (select (run ops)))).
Proof. intros Hu. eapply select_nonce_order_st. now apply Inv_run. Qed.

(** *** priority dominance *)

(** [y] is the first element of [L] that is not in [out] *)
Definition fni (L out : list tx) (y : tx) : Prop :=
  exists L1 L2, L = L1 ++ y :: L2 /\ (forall x, In x L1 -> In x out) /\ ~ In y out.

Record DOK (sc : list ((Z * Z) * (Z * Z))) (all visited rest : list key) (cur : list (Z * slist)) : Prop := {
  dok_all : all = visited ++ rest;
  dok_sorted : psorted all;
  dok_keys : NoDup (map fst cur);
  dok_ssorted : forall s l, In (s, l) cur -> ssorted l;
  dok_guard : forall s l e, In (s, l) cur -> In e l -> min_value < snd e;
  dok_key : forall s l e, In (s, l) cur -> In e l -> In (ekey s sc e) all;
  dok_head : forall s e l, In (s, e :: l) cur -> ~ In (ekey s sc e) visited
}.

Lemma ssorted_tag_NoDup s l : ssorted l -> NoDup (tag s l).
Proof.
  induction 1 as [|a l HS IH HF]; simpl; constructor; [|assumption].
  intros Hin. apply tag_In in Hin. unfold tx_nonce, tx_prio in Hin; simpl in Hin. destruct Hin as [_ Hin].
  rewrite Forall_forall in HF. specialize (HF _ Hin). unfold slt in HF; simpl in HF. lia.
Qed.

Lemma NoDup_app_disjoint {A} (a b : list A) x : NoDup (a ++ b) -> In x a -> In x b -> False.
Proof.
  induction a as [|h a IH]; simpl; intros ND Ha Hb; [contradiction|].
  inversion ND as [|? ? Hn ND']; subst. destruct Ha as [->|Ha]; [|eauto].
  apply Hn. apply in_or_app. now right.
Qed.

Lemma walk_dom sc all : forall rest visited cur, DOK sc all visited rest cur ->
  forall out1 t out2, fst (walk sc rest cur) = out1 ++ t :: out2 ->
  forall s' y, s' <> tx_sender t -> fni (tag s' (sget s' cur)) out1 y -> tx_prio y <= tx_prio t.
Proof.
  induction rest as [|k rest IH]; intros visited cur HD out1 t out2 Hw s' y Hs Hf.
  - simpl in Hw. destruct out1; discriminate.
  - cbn [walk] in Hw. set (s := k_sender k) in *.
    destruct (drain s (hd_error rest) sc (sget s cur)) as [[o rem] pn] eqn:Ed.
    pose proof (drain_split _ _ _ _ _ _ _ Ed) as Esplit.
    assert (Hl : forall e, In e (sget s cur) -> In (s, sget s cur) cur).
    { intros e He. destruct (sget_cases s cur) as [E|]; [rewrite E in He; contradiction|assumption]. }
    assert (G : hd_error rest = None -> forall e, In e (sget s cur) -> min_value < snd e).
    { intros _ e He. eapply (dok_guard _ _ _ _ _ HD); eauto. }
    pose proof (drain_nopanic _ _ _ _ _ _ _ Ed G) as Epn. subst pn.
    destruct (walk sc rest (aset Z.eqb s rem cur)) as [o2 pn2] eqn:Ew. cbn [fst] in Hw.
    pose proof (dok_sorted _ _ _ _ _ HD) as HSall. rewrite (dok_all _ _ _ _ _ HD) in HSall.
    apply app_split_mid in Hw. destruct Hw as [[a2 [Ea Eo2]]|[b1 [Eo1 Eb]]].
    + (* t is yielded at this index node *)
      assert (Ht : In t (tag s o)) by (rewrite Ea; apply in_or_app; right; now left).
      apply tag_In in Ht. destruct Ht as [Ets Hto].
      destruct Hf as [L1 [L2 [EL [Hin1 Hny]]]].
      destruct L1 as [|x L1].
      2:{ exfalso. assert (Hx1 : In x (tag s' (sget s' cur))) by (rewrite EL; now left).
          apply tag_In in Hx1. destruct Hx1 as [Exs _].
          assert (Hx2 : In x (tag s o)) by (rewrite Ea; apply in_or_app; left; apply Hin1; now left).
          apply tag_In in Hx2. destruct Hx2 as [Exs2 _]. congruence. }
      simpl in EL. destruct (sget s' cur) as [|ey l'] eqn:Esg; [discriminate|].
      simpl in EL. injection EL as Ey EL2.
      assert (Hcur : In (s', ey :: l') cur).
      { destruct (sget_cases s' cur) as [E|H]; rewrite Esg in *; [discriminate|assumption]. }
      pose proof (dok_head _ _ _ _ _ HD _ _ _ Hcur) as Hnv.
      pose proof (dok_key _ _ _ _ _ HD _ _ ey Hcur (or_introl eq_refl)) as Hall.
      rewrite (dok_all _ _ _ _ _ HD) in Hall. apply in_app_or in Hall. destruct Hall as [|Hall]; [contradiction|].
      destruct Hall as [Ek|Hall].
      { exfalso. apply Hs. rewrite Ets. unfold s. rewrite Ek. reflexivity. }
      destruct rest as [|k1 r1]; [contradiction|].
      assert (Hle1 : pwle (wt s' sc ey) (kpw k1)).
      { destruct Hall as [Ek1|Hall]; [subst k1; unfold pwle, wt, kpw, ekey; simpl; lia|].
        apply SS_app_r in HSall. inversion HSall as [|? ? HS2 _]; subst. inversion HS2 as [|? ? _ HF2]; subst.
        rewrite Forall_forall in HF2. apply (key_gt_pwle _ _ (HF2 _ Hall)). }
      simpl in Ed. pose proof (drain_out_passes _ _ _ _ _ _ _ _ Ed Hto) as Hle2.
      subst y. unfold pwle, wt, kpw, tx_prio in *; simpl in *. lia.
    + (* t is yielded later *)
      subst o2.
      assert (HD' : DOK sc all (visited ++ [k]) rest (aset Z.eqb s rem cur)).
      { constructor.
        - rewrite <- app_assoc. apply (dok_all _ _ _ _ _ HD).
        - apply (dok_sorted _ _ _ _ _ HD).
        - apply (aset_NoDup Z.eqb Z.eqb_spec), (dok_keys _ _ _ _ _ HD).
        - intros s0 l0 Hin. apply (In_aset_inv Z.eqb Z.eqb_spec) in Hin; [|apply (dok_keys _ _ _ _ _ HD)].
          destruct Hin as [[-> ->]|[_ Hin]]; [|now apply (dok_ssorted _ _ _ _ _ HD) in Hin].
          destruct rem as [|h tl]; [constructor|].
          assert (Hh : In h (sget s cur)) by (rewrite Esplit; apply in_or_app; right; now left).
          pose proof (dok_ssorted _ _ _ _ _ HD _ _ (Hl _ Hh)) as HSs. rewrite Esplit in HSs. now apply SS_app_r in HSs.
        - intros s0 l0 e Hin He. apply (In_aset_inv Z.eqb Z.eqb_spec) in Hin; [|apply (dok_keys _ _ _ _ _ HD)].
          destruct Hin as [[-> ->]|[_ Hin]]; [|eapply (dok_guard _ _ _ _ _ HD); eauto].
          assert (He' : In e (sget s cur)) by (rewrite Esplit; apply in_or_app; now right).
          eapply (dok_guard _ _ _ _ _ HD); eauto.
        - intros s0 l0 e Hin He. apply (In_aset_inv Z.eqb Z.eqb_spec) in Hin; [|apply (dok_keys _ _ _ _ _ HD)].
          destruct Hin as [[-> ->]|[_ Hin]]; [|eapply (dok_key _ _ _ _ _ HD); eauto].
          assert (He' : In e (sget s cur)) by (rewrite Esplit; apply in_or_app; now right).
          eapply (dok_key _ _ _ _ _ HD); eauto.
        - intros s0 e l0 Hin Hv. apply (In_aset_inv Z.eqb Z.eqb_spec) in Hin; [|apply (dok_keys _ _ _ _ _ HD)].
          destruct Hin as [[-> Erem]|[Hne Hin]].
          + destruct (drain_rem_fails _ _ _ _ _ _ e l0 Ed G (eq_sym Erem)) as [k1 [Ek1 Hfail]].
            destruct rest as [|k1' r1]; [discriminate|]. simpl in Ek1. injection Ek1 as ->.
            replace (visited ++ k :: k1 :: r1) with ((visited ++ [k]) ++ k1 :: r1) in HSall by (now rewrite <- app_assoc).
            pose proof (SS_app_cross _ _ _ HSall _ k1 Hv (or_introl eq_refl)) as Hgt.
            apply key_gt_pwle in Hgt. apply (pwlt_not_le _ _ Hfail). exact Hgt.
          + apply in_app_or in Hv. destruct Hv as [Hv|[Ek|[]]].
            * revert Hv. eapply (dok_head _ _ _ _ _ HD); eauto.
            * apply Hne. unfold s. rewrite Ek. reflexivity. }
      eapply (IH _ _ HD' b1 t out2); [rewrite Ew; reflexivity|exact Hs|].
      destruct Hf as [L1 [L2 [EL [Hin1 Hny]]]].
      destruct (Z.eq_dec s' s) as [E|Hne].
      * subst s'. rewrite sget_aset_same. rewrite Esplit, tag_app in EL.
        apply app_split_mid in EL. destruct EL as [[a2 [Ea _]]|[b1' [EL1 Erem]]].
        -- exfalso. apply Hny. rewrite Eo1. apply in_or_app. left. rewrite Ea. apply in_or_app. right. now left.
        -- exists b1', L2. split; [assumption|]. split.
           ++ intros x Hx. assert (Hx1 : In x out1) by (apply Hin1; rewrite EL1; apply in_or_app; now right).
              rewrite Eo1 in Hx1. apply in_app_or in Hx1. destruct Hx1 as [Hx1|]; [|assumption].
              exfalso. assert (Hh : In x (tag s rem)) by (rewrite Erem; apply in_or_app; now left).
              assert (HND : NoDup (tag s o ++ tag s rem)).
              { rewrite <- tag_app, <- Esplit. apply ssorted_tag_NoDup.
                apply tag_In in Hh. destruct Hh as [_ Hh].
                assert (Hh' : In (tx_nonce x, tx_prio x) (sget s cur)) by (rewrite Esplit; apply in_or_app; now right).
                apply (dok_ssorted _ _ _ _ _ HD _ _ (Hl _ Hh')). }
              eapply NoDup_app_disjoint; eauto.
           ++ intros Hy. apply Hny. rewrite Eo1. apply in_or_app. now right.
      * rewrite sget_aset_other by assumption. exists L1, L2. split; [assumption|]. split.
        -- intros x Hx. pose proof (Hin1 _ Hx) as Hx1. rewrite Eo1 in Hx1. apply in_app_or in Hx1.
           destruct Hx1 as [Hx1|]; [|assumption]. exfalso.
           apply tag_In in Hx1. destruct Hx1 as [Exs _].
           assert (Hx2 : In x (tag s' (sget s' cur))) by (rewrite EL; apply in_or_app; now left).
           apply tag_In in Hx2. destruct Hx2 as [Exs2 _]. congruence.
        -- intros Hy. apply Hny. rewrite Eo1. apply in_or_app. now right.
Qed.

Lemma tx_eq_dec (a b : tx) : {a = b} + {a <> b}.
Proof. repeat decide equality. Qed.

Lemma ssorted_tag_nonce s l : ssorted l -> StronglySorted (fun a b => tx_nonce a < tx_nonce b) (tag s l).
Proof.
  induction 1 as [|a l HS IH HF]; simpl; constructor; [assumption|].
  rewrite Forall_forall in *. intros x Hx. apply tag_In in Hx. destruct Hx as [_ Hx].
  specialize (HF _ Hx). unfold slt, tx_nonce in *; simpl in *. exact HF.
Qed.

Lemma select_dom_st st pd :
  Inv st pd -> Forall (fun t => min_value < tx_prio t) pd ->
  forall out1 t out2, select st = out1 ++ t :: out2 ->
  forall s' y, s' <> tx_sender t -> next_available s' out1 pd y -> tx_prio y <= tx_prio t.
Proof.
  intros HI HG out1 t out2 Hsel s' y Hs [Hypd [Eys [Hyo Hmin]]].
  unfold select, select_op in Hsel. destruct (pidx st) as [|k0 l0] eqn:E; [simpl in Hsel; destruct out1; discriminate|].
  cbn [fst snd] in Hsel. pose proof (Inv_reorder _ _ HI) as HI'. clear E.
  set (st' := reorder st) in *.
  assert (HD : DOK (scores st') (pidx st') [] (pidx st') (sidx st')).
  { constructor.
    - reflexivity.
    - apply (inv_sorted _ _ HI').
    - apply (inv_skeys _ _ HI').
    - apply (inv_ssorted _ _ HI').
    - intros s l e Hl He. rewrite Forall_forall in HG. apply (HG _ (inv_entry_in_pd _ _ HI' _ _ _ Hl He)).
    - intros s l e Hl He. pose proof (inv_entry_in_pd _ _ HI' _ _ _ Hl He) as Hpd.
      destruct (inv_pd_key _ _ HI' _ Hpd) as [k [Hk Ek]].
      unfold key_tx in Ek. injection Ek as Es En Ep.
      replace (ekey s (scores st') e) with k; [assumption|].
      unfold ekey, score_get. rewrite <- Es, <- En, <- Ep. rewrite (inv_sc1 _ _ HI' _ Hk). now destruct k.
    - intros s e l _ []. }
  eapply (walk_dom _ _ _ _ _ HD out1 t out2 Hsel s' y Hs).
  destruct (inv_pd_entry _ _ HI' _ Hypd) as [Hent Hy]. rewrite Eys in Hent, Hy.
  assert (HyL : In y (tag s' (sget s' (sidx st')))) by (apply tag_In; auto).
  apply in_split in HyL. destruct HyL as [L1 [L2 EL]]. exists L1, L2. split; [assumption|]. split; [|assumption].
  intros x Hx. destruct (in_dec tx_eq_dec x out1) as [|Hnx]; [assumption|]. exfalso.
  assert (HxL : In x (tag s' (sget s' (sidx st')))) by (rewrite EL; apply in_or_app; now left).
  pose proof (ssorted_tag_nonce s' _ (inv_ssorted _ _ HI' _ _ Hent)) as HS. rewrite EL in HS.
  pose proof (SS_app_cross _ _ _ HS x y Hx (or_introl eq_refl)) as Hlt.
  apply tag_In in HxL. destruct HxL as [Exs Hxe].
  assert (Hxpd : In x pd).
  { pose proof (inv_entry_in_pd _ _ HI' _ _ _ Hent Hxe) as H. simpl in H. rewrite <- Exs in H. now destruct x as [[? ?] ?]. }
  specialize (Hmin x Hxpd Exs Hnx). cbv beta in Hlt. lia.
Qed.

Lemma select_priority_dominates_proof ops :
  unique_sender_nonce ops -> priorities_above_min ops ->
  forall out1 t out2, select (run ops) = out1 ++ t :: out2 ->
  forall s' y, s' <> tx_sender t -> next_available s' out1 (pending ops) y -> tx_prio y <= tx_prio t.
Proof.
  intros Hu Hp. apply select_dom_st; [now apply Inv_run|].
  apply pending_prio_ok; [constructor|exact Hp].
Qed.

(** *** repeated Select yields the same sequence *)

Definition counted (st : state) (k : key) : bool := 1 <? cnt_get (k_prio k) (pcounts st).
Definition sw (st : state) (k : key) : Z := sender_weight (sget (k_sender k) (sidx st)) (k_nonce k).

Lemma key_gt_asym a b : key_gt a b -> key_gt b a -> False.
Proof. intros H1 H2. apply (key_gt_irrefl a). eapply key_gt_trans; eauto. Qed.

Lemma pidx_set_remove_same k l : StronglySorted key_gt l -> In k l -> pidx_set k (pidx_remove k l) = l.
Proof.
  induction 1 as [|h r HS IH HF]; simpl; intros Hin; [contradiction|].
  rewrite Forall_forall in HF.
  destruct (key_cmp k h) eqn:E.
  - apply key_cmp_eq in E. subst h. destruct r as [|h2 r2]; [reflexivity|].
    simpl. assert (G : key_gt k h2) by (apply HF; now left). unfold key_gt in G. now rewrite G.
  - simpl. rewrite E. f_equal. apply IH. destruct Hin as [->|]; [rewrite key_cmp_refl in E; discriminate|assumption].
  - exfalso. destruct Hin as [->|Hin]; [rewrite key_cmp_refl in E; discriminate|].
    eapply key_gt_asym; [exact E|now apply HF].
Qed.

Lemma pidx_set_In k l x : In x (pidx_set k l) -> x = k \/ In x l.
Proof.
  induction l as [|h r IH]; simpl; [intuition|].
  destruct (key_cmp k h); simpl; intuition.
Qed.

Lemma same_tx_sw st dk ik : same_tx dk ik -> sw st ik = sw st dk /\ counted st ik = counted st dk.
Proof. intros [Ep [Es En]]. unfold sw, counted. now rewrite Ep, Es, En. Qed.

(** after the re-weighting fold, every key whose priority is shared carries the freshly computed weight *)
Lemma reorder_fold_weights st pd : forall todo pi sc,
  PInv pi sc pd ->
  (forall dk ik, In (dk, ik) todo -> In dk pi /\ same_tx dk ik /\ k_weight ik = sw st dk) ->
  NoDup (map (fun di => key_sn (fst di)) todo) ->
  (forall k, In k pi -> counted st k = true -> k_weight k = sw st k \/ exists ik, In (k, ik) todo) ->
  forall k, In k (fst (fold_left reorder_step todo (pi, sc))) -> counted st k = true -> k_weight k = sw st k.
Proof.
  induction todo as [|[dk ik] todo IH]; intros pi sc HP Htodo ND HQ k Hk Hc.
  - simpl in Hk. destruct (HQ k Hk Hc) as [|[? []]]; assumption.
  - cbn [fold_left] in Hk. destruct (Htodo dk ik (or_introl eq_refl)) as [Hdk [Hsame Hw]].
    pose proof (PInv_step _ _ _ _ _ HP Hdk Hsame) as HP'.
    destruct (reorder_step (pi, sc) (dk, ik)) as [pi' sc'] eqn:Est. cbn [fst snd] in HP'.
    unfold reorder_step in Est. injection Est as Epi Esc.
    inversion ND as [|? ? Hn ND']; subst.
    eapply (IH _ _ HP'); [| assumption | | exact Hk | exact Hc].
    + intros dk' ik' Hin. destruct (Htodo dk' ik' (or_intror Hin)) as [Hdk' [Hsame' Hw']].
      split; [|auto].
      assert (Hne : dk' <> dk) by (intros ->; apply Hn; apply in_map_iff; exists (dk, ik'); auto).
      assert (Hik : ~ In ik (pidx_remove dk pi)).
      { intros Hin2. pose proof (pidx_remove_incl _ _ _ Hin2) as Hin3. destruct Hsame as [? [? ?]].
        assert (ik = dk) by (apply (PInv_sn_unique _ _ _ _ _ HP); auto). subst ik.
        revert Hin2. apply pidx_remove_gone, (pinv_sorted _ _ _ HP). }
      apply (Permutation_in _ (Permutation_sym (pidx_set_perm _ _ Hik))). right. now apply pidx_remove_keeps.
    + intros k' Hk' Hc'. apply pidx_set_In in Hk'. destruct Hk' as [->|Hin].
      * left. rewrite Hw. symmetry. apply (same_tx_sw st _ _ Hsame).
      * assert (Hne : k' <> dk) by (intros ->; revert Hin; apply pidx_remove_gone, (pinv_sorted _ _ _ HP)).
        destruct (HQ k' (pidx_remove_incl _ _ _ Hin) Hc') as [|[ik' [E|Hin']]]; [now left| |right; eauto].
        inversion E; congruence.
Qed.

Lemma reorder_weights st pd :
  Inv st pd -> forall k, In k (pidx (reorder st)) -> counted st k = true -> k_weight k = sw st k.
Proof.
  intros HI k Hk Hc. unfold reorder in Hk.
  assert (HP : PInv (pidx st) (scores st) pd).
  { constructor; [apply (inv_sorted _ _ HI)|apply (inv_sc1 _ _ HI)|apply (inv_sc2 _ _ HI)|apply (inv_pperm _ _ HI)]. }
  assert (ND : NoDup (map (fun di => key_sn (fst di)) (reorder_list st))).
  { unfold reorder_list. apply flat_map_opt_NoDup with (h := key_sn).
    - intros a b Hb. destruct (1 <? cnt_get (k_prio a) (pcounts st)); simpl in Hb; [|contradiction].
      destruct Hb as [<-|[]]. reflexivity.
    - intros a. destruct (1 <? cnt_get (k_prio a) (pcounts st)); simpl; lia.
    - now apply (Inv_key_sn_NoDup _ pd). }
  pose proof (reorder_fold_weights st pd (reorder_list st) (pidx st) (scores st) HP) as HF.
  destruct (fold_left reorder_step (reorder_list st) (pidx st, scores st)) as [pi sc] eqn:Ef. simpl in Hk.
  apply HF; auto.
  - intros dk ik Hin. destruct (reorder_list_spec st dk ik Hin) as [H1 H2]. split; [assumption|]. split; [assumption|].
    unfold reorder_list in Hin. apply in_flat_map in Hin. destruct Hin as [k0 [_ Hin]].
    destruct (1 <? cnt_get (k_prio k0) (pcounts st)); simpl in Hin; [|contradiction].
    destruct Hin as [E|[]]. inversion E; subst. reflexivity.
  - intros k0 Hk0 Hc0. right. exists (mkKey (k_prio k0) (sw st k0) (k_sender k0) (k_nonce k0)).
    unfold reorder_list. apply in_flat_map. exists k0. split; [assumption|].
    unfold counted in Hc0. rewrite Hc0. now left.
Qed.

(** a second re-weighting changes nothing observable *)
Lemma reorder_fold_id : forall todo pi sc,
  StronglySorted key_gt pi ->
  (forall dk ik, In (dk, ik) todo -> ik = dk /\ In dk pi /\ aget sn_eqb (key_sn dk) sc = Some (kpw dk)) ->
  fst (fold_left reorder_step todo (pi, sc)) = pi /\
  forall x, aget sn_eqb x (snd (fold_left reorder_step todo (pi, sc))) = aget sn_eqb x sc.
Proof.
  induction todo as [|[dk ik] todo IH]; intros pi sc HS Htodo; [simpl; auto|].
  cbn [fold_left]. destruct (Htodo dk ik (or_introl eq_refl)) as [-> [Hdk Hsc]].
  unfold reorder_step at 2 4. rewrite (pidx_set_remove_same _ _ HS Hdk).
  set (sc1 := aset sn_eqb (k_sender dk, k_nonce dk) (k_prio dk, k_weight dk) (adel sn_eqb (k_sender dk, k_nonce dk) sc)).
  assert (Hext : forall x, aget sn_eqb x sc1 = aget sn_eqb x sc).
  { intros x. unfold sc1. destruct (sn_eqb_spec x (k_sender dk, k_nonce dk)) as [->|Hne].
    - rewrite (aget_aset_same sn_eqb sn_eqb_spec). symmetry. exact Hsc.
    - rewrite (aget_aset_other sn_eqb sn_eqb_spec) by assumption. now rewrite (aget_adel_other sn_eqb sn_eqb_spec). }
  destruct (IH pi sc1 HS) as [E1 E2].
  - intros dk' ik' Hin. destruct (Htodo dk' ik' (or_intror Hin)) as [? [? ?]]. rewrite Hext. auto.
  - split; [assumption|]. intros x. now rewrite E2.
Qed.

Lemma drain_ext s nxt sc1 sc2 l :
  (forall s n, score_get s n sc1 = score_get s n sc2) -> drain s nxt sc1 l = drain s nxt sc2 l.
Proof.
  intros H. induction l as [|[n p] r IH]; cbn [drain]; [reflexivity|]. rewrite IH, H. reflexivity.
Qed.

Lemma walk_ext sc1 sc2 pi : (forall s n, score_get s n sc1 = score_get s n sc2) ->
  forall cur, walk sc1 pi cur = walk sc2 pi cur.
Proof.
  intros H. induction pi as [|k rest IH]; intros cur; cbn [walk]; [reflexivity|].
  rewrite (drain_ext _ _ sc1 sc2 _ H). destruct (drain _ _ sc2 _) as [[o rem] pn]. destruct pn; [reflexivity|]. now rewrite IH.
Qed.

Lemma select_idem_st st pd : Inv st pd -> select (fst (select_op st)) = select st.
Proof.
  intros HI. unfold select at 2. unfold select_op at 1 2.
  destruct (pidx st) as [|k0 l0] eqn:E; [cbn [fst]; unfold select, select_op; now rewrite E|].
  cbn [fst snd]. pose proof (Inv_reorder _ _ HI) as HI'.
  pose proof (reorder_weights _ _ HI) as HW.
  set (st' := reorder st) in *.
  assert (Esidx : sidx st' = sidx st /\ pcounts st' = pcounts st).
  { unfold st', reorder. destruct (fold_left reorder_step (reorder_list st) (pidx st, scores st)). auto. }
  destruct Esidx as [Esidx Epc].
  unfold select, select_op.
  destruct (pidx st') as [|k1 l1] eqn:E'.
  { exfalso. pose proof (Permutation_length (inv_pperm _ _ HI)) as L1. pose proof (Permutation_length (inv_pperm _ _ HI')) as L2.
    rewrite E in L1. rewrite E' in L2. simpl in *. lia. }
  cbn [fst snd]. rewrite <- E'.
  destruct (reorder_fold_id (reorder_list st') (pidx st') (scores st') (inv_sorted _ _ HI')) as [F1 F2].
  { intros dk ik Hin. unfold reorder_list in Hin. apply in_flat_map in Hin. destruct Hin as [k [Hk Hin]].
    destruct (1 <? cnt_get (k_prio k) (pcounts st')) eqn:Ec; simpl in Hin; [|contradiction].
    destruct Hin as [Eq|[]]. inversion Eq; subst dk ik. clear Eq.
    assert (Hwk : k_weight k = sw st k) by (apply HW; [rewrite <- E'; assumption|unfold counted; now rewrite <- Epc]).
    split; [|split; [assumption|apply (inv_sc1 _ _ HI' _ Hk)]].
    unfold sw in Hwk. rewrite Esidx, <- Hwk. now destruct k. }
  unfold reorder at 1 2 3. 
  destruct (fold_left reorder_step (reorder_list st') (pidx st', scores st')) as [pi2 sc2]. cbn [fst snd] in *.
  subst pi2. f_equal. apply walk_ext. intros s n. unfold score_get. now rewrite F2.
Qed.

Lemma run_app ops1 ops2 : run (ops1 ++ ops2) = fold_left step ops2 (run ops1).
Proof. unfold run. apply fold_left_app. Qed.

Lemma select_idempotent_proof ops :
  unique_sender_nonce ops -> select (run (ops ++ [Select])) = select (run ops).
Proof.
  intros Hu. rewrite run_app. simpl. eapply select_idem_st. now apply Inv_run.
Qed.


(** ** Priority classes (over the generated table) *)
Lemma priority_classes_proof :
  map fst Gen.C19.priority_table =
    ["/palomachain.paloma.consensus."; "/palomachain.paloma.scheduler."; "/palomachain.paloma.evm."; "/palomachain.paloma.valset."]%string /\
  forall us1 a1 us2 a2 i, tx_class us1 = Some i ->
    match tx_class us2 with
    | Some j => ((i < j)%nat -> tx_priority us2 a2 < tx_priority us1 a1) /\ (i = j -> tx_priority us2 a2 = tx_priority us1 a1)
    | None => a2 < Gen.C19.max_int64 - 3 -> tx_priority us2 a2 < tx_priority us1 a1
    end.
Proof.
  split; [reflexivity|].
  intros us1 a1 us2 a2 i.
  assert (T2 : tx_priority us2 a2 = match us2 with [u] => match lookup_prefix Gen.C19.priority_table u with Some v => v | None => a2 end | _ => a2 end).
  { destruct us2 as [|u2 [|u3 l3]]; try reflexivity. unfold tx_priority.
    destruct (Z.eqb_spec (Z.of_nat (List.length (u2 :: u3 :: l3))) Gen.C19.single_message_len) as [E|]; [|reflexivity].
    exfalso. unfold Gen.C19.single_message_len in E. cbn [List.length] in E. lia. }
  destruct us1 as [|u1 [|? ?]]; try discriminate.
  rewrite T2. clear T2.
  unfold tx_class, tx_priority, Gen.C19.priority_table, Gen.C19.single_message_len, Gen.C19.max_int64.
  cbn [List.length Z.of_nat Pos.of_succ_nat Z.eqb Pos.eqb prefix_index lookup_prefix].
  destruct us2 as [|u2 [|? ?]];
  repeat match goal with |- context [String.prefix ?a ?b] => destruct (String.prefix a b) end;
  cbn [option_map]; intros E; inversion E; subst; try (intros; lia); split; intros; try lia; try reflexivity.
Qed.

(** ** Non-vacuity: a concrete history inside the premises, with ties, a remove and repeated selects *)
Definition ex_ops : list op :=
  [ Insert 1 0 42; Insert 2 0 42; Insert 2 1 9223372036854775807; Insert 1 1 42; Insert 3 5 7;
    Select; Remove 2 0; Insert 3 2 42; Select ].

Example ex_premises : unique_sender_nonce ex_ops /\ priorities_above_min ex_ops.
Proof.
  split.
  - cbv. intuition congruence.
  - repeat constructor.
Qed.

Example ex_select :
  select (run ex_ops) = [(2, 1, 9223372036854775807); (1, 0, 42); (1, 1, 42); (3, 2, 42); (3, 5, 7)]
  /\ pending ex_ops = [(1, 0, 42); (2, 1, 9223372036854775807); (1, 1, 42); (3, 5, 7); (3, 2, 42)]
  /\ count (run ex_ops) = 5
  /\ (* before the remove, the tie between senders 1 and 2 at priority 42 is won by sender 2, whose last tx has the higher priority *)
     select (run (firstn 5 ex_ops)) = [(2, 0, 42); (2, 1, 9223372036854775807); (1, 0, 42); (1, 1, 42); (3, 5, 7)].
Proof. vm_compute. auto. Qed.

(** the hypothesis of the dominance theorem is satisfiable: after [(2,1,_); (1,0,42)] sender 3's next available is (3,2,42) *)
Example ex_next_available :
  next_available 3 [(2, 1, 9223372036854775807); (1, 0, 42)] (pending ex_ops) (3, 2, 42).
Proof.
  unfold next_available. vm_compute. split; [tauto|]. split; [reflexivity|]. split.
  - intros [H|[H|[]]]; discriminate.
  - intros z Hz Hs _. destruct Hz as [<-|[<-|[<-|[<-|[<-|[]]]]]]; simpl in Hs; try discriminate; intros H; discriminate.
Qed.

Example ex_idempotent : select (run (ex_ops ++ [Select])) = select (run ex_ops) /\ scores (run (ex_ops ++ [Select])) <> scores (run (firstn 8 ex_ops)).
Proof. split; [reflexivity|]. vm_compute. discriminate. Qed.
