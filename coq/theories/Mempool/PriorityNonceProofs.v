(** C19 — proofs about the model in PriorityNonce.v. *)
From Coq Require Import List ZArith Bool String Lia Permutation Sorted.
From Paloma Require Import Mempool.PriorityNonce.
From Paloma Require Gen.C19.
Import ListNotations.
Open Scope Z_scope.

(** ** Translator gates: the shapes the model mirrors.  A change in the source changes Gen/C19.v and
    these stop being provable by [reflexivity]. *)
Lemma gen_index_order :
  Gen.C19.index_wrapper = "skiplist.LessThanFunc"%string /\
  Gen.C19.index_order = ["priority"; "weight"; "sender"; "nonce"]%string.
Proof. split; reflexivity. Qed.
