(** C09 (second round) — proofs over Sys/EndBlockAttest.v. *)
From Coq Require Import List ZArith Bool Lia.
From Paloma Require Import Gen.C09 Sys.EndBlockAttest.
Import ListNotations.
Open Scope Z_scope.

(** * No panic with the guards in place *)
Lemma verify_evidence_fixed_no_panic v sn ev p :
  v_guard_absent v = true -> verify_evidence v (Some sn) ev <> APanic p.
Proof.
  intros G. unfold verify_evidence. destruct (negb _); [discriminate|].
  destruct (first_unusable ev) as [[| |k c x]|]; try discriminate.
  - rewrite G. discriminate.
  - destruct (find_winner sn ev ev) as [[[k c] x]|]; discriminate.
Qed.

Lemma attester_fixed_no_panic v proc m k c x p :
  v_guard_fees v = true -> v_guard_arity v = true -> attester v proc m k c x <> APanic p.
Proof.
  intros F A. unfold attester. destruct (a_kind m) as [|n|].
  - destruct (k =? 0).
    + destruct (x =? 2); [discriminate|]. destruct (negb (receipt_ok c)); [discriminate|].
      destruct (existsb _ (fst proc)); [discriminate|].
      destruct (negb (a_fees m)); [rewrite F; discriminate|]. destruct (x =? 1); discriminate.
    + destruct (k =? 1); discriminate.
  - destruct (k =? 2); [|discriminate]. destruct (x =? n); [discriminate|]. rewrite A. discriminate.
  - destruct (k =? 3); [destruct (_ <? c)|]; discriminate.
Qed.

Definition guarded (v : variant) : Prop :=
  v_guard_absent v = true /\ v_guard_fees v = true /\ v_guard_arity v = true /\ v_votes_struct_cmp v = true.

Lemma fixed_guarded : guarded fixed.
Proof. repeat split. Qed.

Lemma attest_one_no_panic v sn proc m p : guarded v -> attest_one v (Some sn) proc m <> APanic p.
Proof.
  intros (G & F & A & _). unfold attest_one. destruct (a_evidence m) as [|e r] eqn:E; [discriminate|].
  destruct (verify_evidence v (Some sn) (e :: r)) as [[k c x|vo t|]|q] eqn:V; try discriminate.
  - destruct (attester v proc m k c x) as [[| |]|q] eqn:T; try discriminate.
    now apply attester_fixed_no_panic in T.
  - now apply verify_evidence_fixed_no_panic in V.
Qed.

Lemma attest_loop_no_panic v sn : guarded v -> forall ms proc p, attest_loop v (Some sn) proc ms <> APanic p.
Proof.
  intros G. induction ms as [|m r IH]; intros proc p; simpl; [discriminate|].
  destruct (attest_one v (Some sn) proc m) as [[[f proc'] failed]|q] eqn:E; [|now apply attest_one_no_panic in E].
  destruct (failed && negb (v_continue v)); [discriminate|].
  destruct (attest_loop v (Some sn) proc' r) as [[[r' p'] fin]|q] eqn:L; [discriminate|].
  now apply IH in L.
Qed.

Lemma attest_loop_nil_snap v proc ms :
  Forall (fun m => a_evidence m = []) ms -> exists fin, attest_loop v None proc ms = AOk (ms, proc, fin).
Proof.
  induction 1 as [|m r H _ IH]; simpl; [eauto|].
  unfold attest_one. rewrite H. simpl. destruct IH as (fin & ->). eauto.
Qed.

Lemma jail_for_no_panic v sn m p : guarded v -> jail_for v (Some sn) m <> APanic p.
Proof.
  intros (G & _ & _ & S). unfold jail_for. destruct (negb (a_pad m) && negb (a_err m)); [discriminate|].
  destruct (verify_evidence v (Some sn) (a_evidence m)) as [[k c x|vo t|]|q] eqn:V; try discriminate.
  - destruct vo as [x|]; [|rewrite S; discriminate].
    destruct (10 * x <? t); [discriminate|]. destruct (_ || _); discriminate.
  - now apply verify_evidence_fixed_no_panic in V.
Qed.

Lemma prune_no_panic v sn h : guarded v -> forall ms p, prune v (Some sn) h ms <> APanic p.
Proof.
  intros G. induction ms as [|m r IH]; intros p; simpl; [discriminate|].
  destruct (is_old h m).
  - destruct (jail_for v (Some sn) m) as [j|q] eqn:J; [|now apply jail_for_no_panic in J].
    destruct (prune v (Some sn) h r) as [[r' j']|q] eqn:P; [discriminate | now elim (IH q)].
  - destruct (prune v (Some sn) h r) as [[r' j']|q] eqn:P; [discriminate | now elim (IH q)].
Qed.

(** pruning removes exactly the old messages, whatever their evidence *)
Lemma prune_spec v snap h : forall ms ms' j, prune v snap h ms = AOk (ms', j) -> ms' = filter (fun m => negb (is_old h m)) ms.
Proof.
  induction ms as [|m r IH]; intros ms' j; simpl; [now intros [= <- <-]|].
  destruct (is_old h m); simpl.
  - destruct (jail_for v snap m); [|discriminate]. destruct (prune v snap h r) as [[r' j']|]; [|discriminate].
    intros [= <- <-]. now apply (IH r' j').
  - destruct (prune v snap h r) as [[r' j']|]; [|discriminate]. intros [= <- <-]. f_equal. now apply (IH r' j').
Qed.

(** the end-blocker's two steps complete on ANY state that has a snapshot — in particular on a state
    that already holds evidence without a proof, fee-less messages with a transaction proof, short
    balance lists (stored before the guards existed) *)
Theorem aend_block_any_state_proof : forall v h s,
  guarded v -> as_snap s <> None -> exists s', aend_block v h s = AOk s'.
Proof.
  intros v h s G Hs. unfold aend_block. destruct (as_snap s) as [sn|]; [|now elim Hs].
  destruct (attest_loop v (Some sn) (as_processed s) (as_queue s)) as [[[q proc] fin]|p] eqn:L;
    [|now apply attest_loop_no_panic in L].
  destruct (h mod prune_period =? 0); [|eauto].
  destruct (prune v (Some sn) h q) as [[q' j]|p] eqn:P; [eauto | now apply prune_no_panic in P].
Qed.

(** * Reachable states *)
Definition ainv (s : astate) : Prop := as_queue s <> [] -> as_snap s <> None.

Lemma ainv_init : ainv ainit.
Proof. intros H. now elim H. Qed.

Lemma insert_msg_not_nil m l : insert_msg m l <> [].
Proof. destruct l; simpl; [discriminate|]. destruct (before m a); discriminate. Qed.

Lemma map_not_nil {A B} (f : A -> B) l : map f l <> [] -> l <> [].
Proof. destruct l; [intros H; now elim H | discriminate]. Qed.

Lemma ainv_apply v o s : ainv s -> aaccept v o s = true -> ainv (aapply o s).
Proof.
  intros I Ha. destruct o; simpl in *; unfold ainv, upd in *; simpl; try discriminate;
    try (intros N; apply I; now apply map_not_nil in N).
  - apply andb_true_iff in Ha as [_ Ha]. destruct (as_snap s); [discriminate|discriminate].
  - exact I.
Qed.

Lemma attest_loop_sub v snap : forall ms proc q p fin,
  attest_loop v snap proc ms = AOk (q, p, fin) -> forall m, In m q -> In m ms.
Proof.
  induction ms as [|m0 r IH]; intros proc q p fin; simpl; [intros [= <- <- <-] m []|].
  destruct (attest_one v snap proc m0) as [[[f proc'] failed]|]; [|discriminate].
  destruct (failed && negb (v_continue v)).
  - intros [= <- <- <-] m Hin. destruct f; simpl in Hin; tauto.
  - destruct (attest_loop v snap proc' r) as [[[r' p'] fin']|] eqn:L; [|discriminate].
    intros [= <- <- <-] m Hin. apply in_app_or in Hin as [Hin|Hin].
    + destruct f; simpl in Hin; tauto.
    + right. eapply IH; eauto.
Qed.

Lemma aend_block_snap v h s s' : aend_block v h s = AOk s' -> as_snap s' = as_snap s.
Proof.
  unfold aend_block. destruct (attest_loop _ _ _ _) as [[[q proc] fin]|]; [|discriminate].
  destruct (_ =? 0); [|now intros [= <-]]. destruct (prune _ _ _ _) as [[q' j]|]; [|discriminate]. now intros [= <-].
Qed.

Lemma aend_block_queue_sub v h s s' : aend_block v h s = AOk s' -> forall m, In m (as_queue s') -> In m (as_queue s).
Proof.
  unfold aend_block. destruct (attest_loop _ _ _ _) as [[[q proc] fin]|] eqn:L; [|discriminate].
  destruct (_ =? 0).
  - destruct (prune _ _ _ _) as [[q' j]|] eqn:P; [|discriminate]. intros [= <-] m Hin; simpl in Hin.
    apply prune_spec in P. subst q'. apply filter_In in Hin as [Hin _]. eapply attest_loop_sub; eauto.
  - intros [= <-] m Hin; simpl in Hin. eapply attest_loop_sub; eauto.
Qed.

Lemma ainv_end_block v h s s' : ainv s -> aend_block v h s = AOk s' -> ainv s'.
Proof.
  intros I E N. rewrite (aend_block_snap _ _ _ _ E). apply I. intros Q.
  destruct (as_queue s') as [|m r] eqn:Eq; [now elim N|].
  pose proof (aend_block_queue_sub _ _ _ _ E m) as H. rewrite Eq, Q in H. apply H. now left.
Qed.

Lemma aend_block_total v h s : guarded v -> ainv s -> exists s', aend_block v h s = AOk s'.
Proof.
  intros G I. destruct (as_snap s) as [sn|] eqn:Es.
  - apply aend_block_any_state_proof; [exact G | rewrite Es; discriminate].
  - assert (Q : as_queue s = []).
    { destruct (as_queue s) eqn:E; [reflexivity|]. exfalso. apply I; [rewrite E; discriminate | exact Es]. }
    unfold aend_block. rewrite Es, Q. simpl. destruct (_ =? 0); simpl; eauto.
Qed.

Lemma astep_total v s o : guarded v -> ainv s -> exists s', astep v s o = AOk s' /\ ainv s'.
Proof.
  intros G I. destruct o; cbn [astep];
    try (match goal with |- context [if ?c then _ else _] => destruct c eqn:Ha end;
         [eexists; split; [reflexivity | now apply (ainv_apply v _ s I Ha)] | eexists; split; [reflexivity | exact I]]).
  destruct (aend_block_total v height s G I) as (s' & E). exists s'. split; [exact E | eapply ainv_end_block; eauto].
Qed.

Lemma arun_total v ops : guarded v -> forall s, ainv s -> exists s', arun v ops s = AOk s' /\ ainv s'.
Proof.
  intros G. induction ops as [|o r IH]; intros s I; simpl; [eauto|].
  destruct (astep_total v s o G I) as (s1 & -> & I1). now apply IH.
Qed.

(** Every history of puts, elections, evidence of any shape from anybody (accepted or refused),
    public access / error data, snapshots (any shares, zero included) and end-blocks at any heights:
    no end-block of the history panics, and one more end-block at any height completes. *)
Theorem attest_prune_total_proof : forall (ops : list aop) (h : Z),
  exists s, arun fixed ops ainit = AOk s /\ exists s', aend_block fixed h s = AOk s'.
Proof.
  intros ops h. destruct (arun_total fixed ops fixed_guarded ainit ainv_init) as (s & E & I).
  exists s. split; [exact E|]. now apply aend_block_total; [apply fixed_guarded|].
Qed.

(** * Submission: what is refused never reaches the queue *)
Lemma refused_evidence_unchanged : forall v val id p s,
  v_validate v = true -> usable p = false -> astep v s (AEvidence val id p) = AOk s.
Proof.
  intros v val id p s V U. cbn [astep aaccept]. rewrite V, U. simpl. now rewrite andb_false_r.
Qed.

Definition all_usable (s : astate) : Prop :=
  Forall (fun m => Forall (fun e => usable (snd e) = true) (a_evidence m)) (as_queue s).

Lemma set_evidence_usable val p l :
  usable p = true -> Forall (fun e : Z * proof => usable (snd e) = true) l ->
  Forall (fun e : Z * proof => usable (snd e) = true) (set_evidence val p l).
Proof.
  intros U. induction 1 as [|[v' p'] r H Hr IH]; simpl; [constructor; [exact U | constructor]|].
  destruct (val =? v'); constructor; simpl; auto.
Qed.

Lemma insert_msg_forall (P : amsg -> Prop) m l : P m -> Forall P l -> Forall P (insert_msg m l).
Proof.
  intros Hm. induction 1 as [|x r Hx Hr IH]; simpl; [constructor; [exact Hm | constructor]|].
  destruct (before m x); repeat constructor; auto.
Qed.

Lemma all_usable_apply v o s : v_validate v = true -> all_usable s -> aaccept v o s = true -> all_usable (aapply o s).
Proof.
  intros V A Ha. unfold all_usable in *. destruct o; simpl in *; try exact A.
  - apply insert_msg_forall; [constructor | exact A].
  - rewrite Forall_forall in *. intros m' Hin. apply in_map_iff in Hin as (m & <- & Hin).
    destruct (a_id m =? id); [simpl|]; now apply A.
  - rewrite V in Ha. simpl in Ha. apply andb_true_iff in Ha as [_ U].
    rewrite Forall_forall in *. intros m' Hin. apply in_map_iff in Hin as (m & <- & Hin).
    destruct (a_id m =? id); [simpl; apply set_evidence_usable; [exact U | now apply A] | now apply A].
  - rewrite Forall_forall in *. intros m' Hin. apply in_map_iff in Hin as (m & <- & Hin).
    destruct (a_id m =? id); [destruct (a_pad m); simpl|]; now apply A.
  - rewrite Forall_forall in *. intros m' Hin. apply in_map_iff in Hin as (m & <- & Hin).
    destruct (a_id m =? id); [destruct (a_pad m || a_err m); simpl|]; now apply A.
Qed.

Lemma all_usable_run v : v_validate v = true -> forall ops s s', all_usable s -> arun v ops s = AOk s' -> all_usable s'.
Proof.
  intros V. induction ops as [|o r IH]; intros s s' A; simpl; [now intros [= <-]|].
  destruct (astep v s o) as [s1|] eqn:E; [|discriminate]. apply IH.
  destruct o; cbn [astep] in E;
    try (destruct (aaccept v _ s) eqn:Ha; injection E as <-; [now apply (all_usable_apply v _ s V A Ha) | exact A]).
  unfold all_usable in *. rewrite Forall_forall in *. intros m Hin. apply A. eapply aend_block_queue_sub; eauto.
Qed.

(** with the submission check, no reachable queue ever holds an absent or undecodable proof *)
Theorem stored_evidence_usable_proof : forall ops s,
  arun fixed ops ainit = AOk s -> all_usable s.
Proof. intros ops s R. eapply (all_usable_run fixed eq_refl); [|exact R]. constructor. Qed.

(** * A message that cannot be attested is skipped, the rest of the loop unaffected *)
Lemma attest_loop_app v snap : forall a proc b,
  attest_loop v snap proc (a ++ b) =
  match attest_loop v snap proc a with
  | APanic p => APanic p
  | AOk (ka, pa, true) => match attest_loop v snap pa b with
                          | APanic p => APanic p
                          | AOk (kb, pb, fb) => AOk (ka ++ kb, pb, fb)
                          end
  | AOk (ka, pa, false) => AOk (ka ++ b, pa, false)
  end.
Proof.
  induction a as [|m r IH]; intros proc b; simpl.
  - destruct (attest_loop v snap proc b) as [[[kb pb] fb]|]; reflexivity.
  - destruct (attest_one v snap proc m) as [[[f proc'] failed]|]; [|reflexivity].
    destruct (failed && negb (v_continue v)); [now rewrite app_assoc|].
    rewrite IH. destruct (attest_loop v snap proc' r) as [[[ka pa] [|]]|]; [|now rewrite app_assoc|reflexivity].
    destruct (attest_loop v snap pa b) as [[[kb pb] fb]|]; [now rewrite app_assoc|reflexivity].
Qed.

Lemma attest_loop_runs_to_end v snap : v_continue v = true -> forall ms proc k p fin,
  attest_loop v snap proc ms = AOk (k, p, fin) -> fin = true.
Proof.
  intros C. induction ms as [|m r IH]; intros proc k p fin; simpl; [now intros [= _ _ <-]|].
  destruct (attest_one v snap proc m) as [[[f proc'] failed]|]; [|discriminate].
  rewrite C. simpl. rewrite andb_false_r.
  destruct (attest_loop v snap proc' r) as [[[r' p'] fin']|] eqn:L; [|discriminate].
  intros [= _ _ <-]. eapply IH; eauto.
Qed.

Lemma attest_one_stay_keeps_processed v snap proc m proc' failed :
  attest_one v snap proc m = AOk (FStay, proc', failed) -> proc' = proc.
Proof.
  unfold attest_one. destruct (a_evidence m); [now intros [= <- _]|].
  destruct (verify_evidence _ _ _) as [[k c x|vo t|]|]; try discriminate; try (now intros [= <- _]).
  destruct (attester _ _ _ _ _ _) as [[| |]|]; try discriminate. now intros [= <- _].
Qed.

(** With the loop that goes on after an error: whatever stands in the queue between the messages
    [a] and the messages [b] — as long as its own attestation leaves it in the queue (no evidence,
    no consensus, evidence that cannot be used, an attester that refuses) — every other message
    comes out of the end-blocker exactly as it would without it. *)
Theorem unattestable_message_skipped_proof : forall v snap proc a m b ka pa fa kb pb fb failed proc',
  v_continue v = true ->
  attest_loop v snap proc a = AOk (ka, pa, fa) ->
  attest_one v snap pa m = AOk (FStay, proc', failed) ->
  attest_loop v snap pa b = AOk (kb, pb, fb) ->
  attest_loop v snap proc (a ++ m :: b) = AOk (ka ++ m :: kb, pb, true) /\
  attest_loop v snap proc (a ++ b) = AOk (ka ++ kb, pb, true).
Proof.
  intros v snap proc a m b ka pa fa kb pb fb failed proc' C La Lm Lb.
  pose proof (attest_one_stay_keeps_processed _ _ _ _ _ _ Lm) as ->.
  assert (fa = true) by (eapply attest_loop_runs_to_end; eauto). subst fa.
  assert (fb = true) by (eapply attest_loop_runs_to_end; eauto). subst fb.
  split.
  - rewrite attest_loop_app, La. simpl. rewrite Lm, C. simpl. rewrite andb_false_r, Lb. reflexivity.
  - rewrite attest_loop_app, La, Lb. reflexivity.
Qed.

(** * The code before the second-round fixes: witnesses *)
Definition snap3 : list (Z * Z) := [(0, 10); (1, 10); (2, 10)].
Definition errp (c : Z) : proof := PGood 1 c 0.
Definition three (id : Z) (p0 p1 p2 : proof) : list aop := [AEvidence 0 id p0; AEvidence 1 id p1; AEvidence 2 id p2].

(** one validator's evidence of an unregistered type on message 1 keeps message 2 — unanimous,
    honest evidence — in the queue (pinned); with the fixes the bad evidence is refused, both
    messages are attested *)
Definition stall_history : list aop :=
  [ASnapshot snap3; APut 1 0 KLogicCall 5 false; APut 2 0 KLogicCall 5 false]
  ++ three 1 PUndecodable (errp 7) (errp 7) ++ three 2 (errp 7) (errp 7) (errp 7) ++ [AEndBlock 7].

Lemma attest_stall_refuted_old :
  match arun pinned stall_history ainit with AOk s => queue_ids s | APanic _ => [] end = [1; 2] /\
  match arun fixed stall_history ainit with AOk s => queue_ids s | APanic _ => [-1] end = [].
Proof. split; vm_compute; reflexivity. Qed.

(** ... and even with the refusal at submission, the loop that stops at the first error starves
    message 2 when message 1's attester refuses (evidence of the wrong kind agreed by everybody) *)
Definition stall_history2 : list aop :=
  [ASnapshot snap3; APut 1 0 KLogicCall 5 false; APut 2 0 KLogicCall 5 false]
  ++ three 1 (PGood 3 1 0) (PGood 3 1 0) (PGood 3 1 0) ++ three 2 (errp 7) (errp 7) (errp 7) ++ [AEndBlock 7].

Definition fixed_but_stops : variant :=
  {| v_validate := true; v_guard_absent := true; v_continue := false; v_guard_fees := true; v_guard_arity := true;
     v_votes_struct_cmp := true |}.

Lemma attest_loop_continue_needed :
  match arun fixed_but_stops stall_history2 ainit with AOk s => queue_ids s | APanic _ => [] end = [1; 2] /\
  match arun fixed stall_history2 ainit with AOk s => queue_ids s | APanic _ => [] end = [1].
Proof. split; vm_compute; reflexivity. Qed.

(** evidence without a proof from ONE validator halts the chain once the message has 2/3 *)
Definition absent_history : list aop :=
  [ASnapshot snap3; APut 1 0 KLogicCall 5 false] ++ three 1 PAbsent (errp 7) (errp 7) ++ [AEndBlock 7].

Lemma absent_proof_halts_old :
  arun pinned absent_history ainit = APanic SNilHashable /\
  match arun fixed absent_history ainit with AOk s => queue_ids s | APanic _ => [-1] end = [].
Proof. split; vm_compute; reflexivity. Qed.

(** a transaction proof agreed for a message whose fees were never set *)
Definition nofees_history : list aop :=
  [ASnapshot snap3; APut 1 0 KLogicCall 5 false; APublicData 1] ++ three 1 (PGood 0 9 0) (PGood 0 9 0) (PGood 0 9 0) ++ [AEndBlock 7].

Lemma nil_fees_halts_old :
  arun pinned nofees_history ainit = APanic SNilFees /\
  match arun fixed nofees_history ainit with AOk s => (queue_ids s, fst (as_processed s)) | APanic _ => ([-1], []) end = ([], [4]).
Proof. split; vm_compute; reflexivity. Qed.

(** fewer balances than requested addresses *)
Definition balances_history : list aop :=
  [ASnapshot snap3; APut 1 1 (KBalances 3) 5 true] ++ three 1 (PGood 2 1 2) (PGood 2 1 2) (PGood 2 1 2) ++ [AEndBlock 7].

Lemma short_balances_halt_old :
  arun pinned balances_history ainit = APanic SBalancesIndex /\
  match arun fixed balances_history ainit with AOk s => queue_ids s | APanic _ => [-1] end = [1].
Proof. split; vm_compute; reflexivity. Qed.

(** pruning a delivered message nobody of the snapshot attested: the comparison with the zero value
    is what keeps IsZero() away from the nil big.Int (seeded change C09-B) *)
Definition unattested_history : list aop :=
  [ASnapshot snap3; APut 1 1 (KBalances 3) 5 true; AEndBlock 349; AEndBlock 350].

Definition fixed_but_iszero : variant :=
  {| v_validate := true; v_guard_absent := true; v_continue := true; v_guard_fees := true; v_guard_arity := true;
     v_votes_struct_cmp := false |}.

Lemma prune_zero_value_compare_needed :
  arun fixed_but_iszero unattested_history ainit = APanic SNilInt /\
  match arun fixed unattested_history ainit with AOk s => (queue_ids s, as_jail_calls s) | APanic _ => ([-1], []) end = ([], []).
Proof. split; vm_compute; reflexivity. Qed.

(** non-vacuity of the totality theorem: attestation, a skipped message, pruning with jailing *)
Example attest_prune_nonvacuous :
  match arun fixed ([ASnapshot snap3; APut 1 0 KLogicCall 5 false; APut 2 0 KLogicCall 5 false; APut 3 1 (KBalances 3) 5 true;
                     AElect 1; APublicData 1; APublicData 2]
                    ++ three 1 (PGood 0 9 1) (PGood 0 9 1) (PGood 0 9 1)        (* matching transaction: attested *)
                    ++ [AEvidence 0 2 (errp 7); AEvidence 1 3 (PGood 2 1 3)]    (* one third each: stay *)
                    ++ [AEndBlock 7; AEndBlock 350]) ainit with
  | AOk s => (queue_ids s, fst (as_processed s), as_jail_calls s)
  | APanic _ => ([], [], [])
  end = ([], [4], [1; 2; 0; 2]).
Proof. vm_compute. reflexivity. Qed.

(** * Pruning *)
Theorem prune_removes_old_proof : forall v h s s',
  aend_block v h s = AOk s' -> h mod prune_period = 0 -> forall m, In m (as_queue s') -> is_old h m = false.
Proof.
  intros v h s s' E Hh m Hin. unfold aend_block in E.
  destruct (attest_loop _ _ _ _) as [[[q proc] fin]|]; [|discriminate].
  rewrite Hh in E. simpl in E. destruct (prune _ _ _ _) as [[q' j]|] eqn:P; [|discriminate].
  injection E as <-. simpl in Hin. apply prune_spec in P. subst q'.
  apply filter_In in Hin as [_ H]. now apply negb_true_iff in H.
Qed.

(** Jail is only ever called for a validator of the current snapshot that supplied no evidence *)
Lemma jail_for_spec v snap m j val :
  jail_for v snap m = AOk j -> In val j ->
  exists sn, snap = Some sn /\ In val (map fst sn) /\ ~ In val (map fst (a_evidence m)).
Proof.
  unfold jail_for. destruct (negb (a_pad m) && negb (a_err m)); [intros [= <-] []|].
  destruct (verify_evidence _ _ _) as [[k c x|vo t|]|]; try discriminate; try (intros [= <-] []).
  destruct vo as [x|]; [|destruct (v_votes_struct_cmp v); [intros [= <-] [] | discriminate]].
  destruct (10 * x <? t); [intros [= <-] []|]. destruct snap as [sn|]; [|intros [= <-] []].
  destruct (_ || _); [intros [= <-] []|]. intros [= <-] Hin. apply filter_In in Hin as [Hin N].
  exists sn. repeat split; [exact Hin|]. intros C. apply negb_true_iff in N.
  assert (existsb (Z.eqb val) (map fst (a_evidence m)) = true); [|congruence].
  apply existsb_exists. exists val. split; [exact C | apply Z.eqb_refl].
Qed.

(** * Tie to the tree that is checked *)
Definition attest_variant_known : Prop := current = fixed.

Theorem attest_variant_known_proof : attest_variant_known.
Proof. unfold attest_variant_known, current, fixed. reflexivity. Qed.
