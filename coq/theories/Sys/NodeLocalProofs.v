(** C08, round 2 — proofs about Sys/NodeLocal.v. *)
From Coq Require Import List ZArith Bool String Permutation Lia.
From Paloma Require Import Base.Dec Base.Num Evm.Assign Cons.Quorum Sys.Ambient Sys.AmbientProofs Sys.NodeLocal.
From Paloma Require Gen.C08.
Import ListNotations.
Open Scope Z_scope.

(** * 1. Simulations and restarts are invisible *)

Lemma state_eta s : {| st_cache := st_cache s; st_kv := st_kv s |} = s.
Proof. destruct s; reflexivity. Qed.

(** A node's life — deliveries interleaved with any number of simulated executions (under any
    ambient) and restarts — ends in the state, and returns the results, of its chain history alone. *)
Theorem nrun_is_delivered h : forall s, st_cache s = cache0 -> nrun h s = run_amb (delivered h) s.
Proof.
  induction h as [|o r IH]; intros s Hc; [reflexivity|].
  destruct o as [a tx|a tx|]; cbn [nrun nstep delivered run_amb].
  - destruct (step_amb a s tx) as [s1 res] eqn:E.
    assert (Hc1 : st_cache s1 = cache0).
    { pose proof (step_preserves_cache a s tx) as H. rewrite E in H. simpl in H. congruence. }
    rewrite (IH s1 Hc1). destruct (run_amb (delivered r) s1). reflexivity.
  - destruct (step_amb a s tx) as [s1 res] eqn:E.
    pose proof (step_preserves_cache a s tx) as H. rewrite E in H. simpl in H.
    rewrite H, state_eta, (IH s Hc). destruct (run_amb (delivered r) s). reflexivity.
  - rewrite <- Hc, state_eta, (IH s Hc). destruct (run_amb (delivered r) s). reflexivity.
Qed.

(** Two nodes with the same chain history — whatever else each of them did, under whatever
    ambients — agree on state and results. *)
Theorem two_nodes_agree h h' s :
  st_cache s = cache0 -> Forall2 same_history (delivered h) (delivered h') -> nrun h s = nrun h' s.
Proof.
  intros Hc HF. rewrite (nrun_is_delivered h s Hc), (nrun_is_delivered h' s Hc).
  exact (run_noninterference _ _ HF s).
Qed.

(** Non-vacuity: the simulated purge would have changed the store had it been delivered; the
    restart and the simulations (under another ambient) leave no trace. *)
Example node_local_example :
  let s0 := {| st_cache := cache0; st_kv := [(2, 20)] |} in
  let busy := [NSimulate amb_other (TxPurge [(2, 99); (7, 70)]); NDeliver amb_plain (TxPurge [(3, 30)]); NRestart;
               NSimulate amb_plain (TxWorthy [4] []); NDeliver amb_other (TxJail [9; 8] [8])] in
  let quiet := [NDeliver amb_other (TxPurge [(3, 30)]); NDeliver amb_plain (TxJail [9; 8] [8])] in
  nrun busy s0 = nrun quiet s0 /\
  nrun busy s0 = ({| st_cache := cache0; st_kv := [(2, 20); (3, 30)] |}, [RUnit; RKeys [9]]) /\
  fst (nrun [NDeliver amb_other (TxPurge [(2, 99); (7, 70)])] s0) <> s0.
Proof. repeat split; try reflexivity. discriminate. Qed.

(** * 2. A write-through cache behind a pointer breaks exactly this *)

(** One node: a discarded write is read back. *)
Theorem write_through_cache_refuted :
  exists h n, c_mem n = [] /\ snd (cnrun h n) <> snd (cnrun (cdelivered h) n).
Proof.
  exists [CSimulate (CWrite 1 99); CDeliver (CRead 1)], {| c_store := [(1, 10)]; c_mem := [] |}.
  split; [reflexivity|]. vm_compute. discriminate.
Qed.

(** Two nodes with the same chain history and even the same simulations: the one that was
    restarted in between answers differently. *)
Theorem write_through_cache_restart_refuted :
  exists h h' n, c_mem n = [] /\ cdelivered h = cdelivered h' /\ fst (cnrun h n) <> fst (cnrun h' n) /\
                 c_store (fst (cnrun h n)) = c_store (fst (cnrun h' n)) /\ snd (cnrun h n) <> snd (cnrun h' n).
Proof.
  exists [CSimulate (CWrite 1 99); CRestart; CDeliver (CRead 1)], [CSimulate (CWrite 1 99); CDeliver (CRead 1)],
         {| c_store := [(1, 10)]; c_mem := [] |}.
  repeat split; try reflexivity; vm_compute; discriminate.
Qed.

(** * 3. The jailing loop is order-sensitive *)

Definition st_skewed : list jv := [(0, 40, false); (1, 20, false); (2, 20, false); (3, 20, false)].

Theorem jail_order_sensitive :
  exists st o o', Permutation o o' /\ jailed_ids (jail_round st o) <> jailed_ids (jail_round st o').
Proof.
  exists st_skewed, [1; 2; 3], [3; 2; 1]. split; [exact (Permutation_rev [1; 2; 3])|].
  vm_compute. discriminate.
Qed.

(** Were the loop a map range (order taken from the ambient), two nodes would jail different sets. *)
Theorem jail_map_order_refuted :
  exists a a' st o, amb_ok a /\ amb_ok a' /\
    jailed_ids (jail_round st (ord_keys a o)) <> jailed_ids (jail_round st (ord_keys a' o)).
Proof.
  exists amb_plain, amb_other, st_skewed, [1; 2; 3].
  split; [exact amb_plain_ok|]. split; [exact amb_other_ok|]. vm_compute. discriminate.
Qed.

(** What the protection guarantees, whatever the order: a Jail that changes the state hit an
    unjailed validator that is not the last active one and holds at most 25 % of the active stake. *)
Lemma jail_protection st id :
  jail_one st id <> st ->
  exists v, find_val id st = Some v /\ jv_jailed v = false /\ active_count st <> 1 /\ 4 * jv_power v <= active_total st.
Proof.
  unfold jail_one. destruct (find_val id st) as [v|]; [|congruence].
  destruct (jv_jailed v) eqn:J; [congruence|].
  destruct (active_count st =? 1) eqn:C; [congruence|].
  destruct (4 * jv_power v >? active_total st) eqn:P; [congruence|].
  intros _. exists v. split; [reflexivity|]. split; [exact J|]. split.
  - apply Z.eqb_neq. exact C.
  - rewrite Z.gtb_ltb in P. apply Z.ltb_ge in P. exact P.
Qed.

(** The source iterates the snapshot's validator SLICE (state), and calls Jail inside that loop. *)
Lemma jail_loop_source_shape : Gen.C08.jail_missing_loop = "slice:snapshot.Validators"%string.
Proof. reflexivity. Qed.
