(** C09 — proofs over Sys/EndBlock.v. *)
From Coq Require Import List ZArith Bool Lia String.
From Paloma Require Import Base.Num Base.Dec Base.DecProofs Cons.Median Gen.C09 Sys.EndBlock.
Import ListNotations.
Open Scope Z_scope.

(** * Association lists *)
Lemma lookup_app {A} k (a b : list (Z * A)) :
  lookup k (a ++ b) = match lookup k a with Some x => Some x | None => lookup k b end.
Proof.
  induction a as [|[k' v] r IH]; simpl; [reflexivity|].
  destruct (k =? k'); [reflexivity | exact IH].
Qed.

Lemma lookup_filter_other {A} k k' (l : list (Z * A)) :
  k' <> k -> lookup k' (filter (fun e => negb (fst e =? k)) l) = lookup k' l.
Proof.
  intros N. induction l as [|[k0 v] r IH]; simpl; [reflexivity|].
  destruct (k0 =? k) eqn:E0; simpl.
  - apply Z.eqb_eq in E0. subst k0. destruct (k' =? k) eqn:E1; [apply Z.eqb_eq in E1; contradiction | exact IH].
  - destruct (k' =? k0); [reflexivity | exact IH].
Qed.

Lemma lookup_set_key_same {A} k (v : A) l : lookup k (set_key k v l) = Some v.
Proof. unfold set_key; simpl. now rewrite Z.eqb_refl. Qed.

Lemma lookup_set_key_other {A} k k' (v : A) l : k' <> k -> lookup k' (set_key k v l) = lookup k' l.
Proof.
  intros N. unfold set_key; simpl. destruct (k' =? k) eqn:E; [apply Z.eqb_eq in E; contradiction|].
  now apply lookup_filter_other.
Qed.

Lemma has_key_filter_absent {A B} c (req : list (Z * B)) (old : list (Z * A)) :
  has_key c req = false ->
  lookup c (filter (fun e => negb (has_key (fst e) req)) old) = lookup c old.
Proof.
  intros H. induction old as [|[k v] r IH]; simpl; [reflexivity|].
  destruct (has_key k req) eqn:E; simpl.
  - destruct (c =? k) eqn:E1; [apply Z.eqb_eq in E1; subst; congruence | exact IH].
  - destruct (c =? k); [reflexivity | exact IH].
Qed.

(** UpsertRelayerFee never removes a chain entry of the record it merges into *)
Lemma has_key_lookup {A} c (l : list (Z * A)) :
  has_key c l = match lookup c l with Some _ => true | None => false end.
Proof. reflexivity. Qed.

Lemma merge_keeps_chain c req old : has_key c old = true -> has_key c (merge_fees req old) = true.
Proof.
  intros H. unfold merge_fees. rewrite has_key_lookup in *. rewrite lookup_app.
  destruct (lookup c req) eqn:E; [reflexivity|].
  rewrite has_key_filter_absent; [exact H | rewrite has_key_lookup; now rewrite E].
Qed.

(** * No panic in the fee arithmetic of the current code *)
Lemma mul_ceil_u64_no_panic d n p : mul_ceil_u64 d n <> Panic p.
Proof. unfold mul_ceil_u64. destruct (d <? 0); [discriminate|]. simpl. destruct (_ <? two64); discriminate. Qed.

Lemma calc_fees_no_panic rf cf sf gas p : calc_fees rf cf sf gas <> Panic p.
Proof.
  unfold calc_fees.
  destruct (mul_ceil_u64 rf gas) as [r|e|q] eqn:E1; try discriminate; [|now apply mul_ceil_u64_no_panic in E1].
  destruct (mul_ceil_u64 cf r) as [c|e|q] eqn:E2; try discriminate; [|now apply mul_ceil_u64_no_panic in E2].
  destruct (mul_ceil_u64 sf r) as [x|e|q] eqn:E3; try discriminate. now apply mul_ceil_u64_no_panic in E3.
Qed.

(** what mulCeilUint64 returns is the ceiling, a uint64 *)
Lemma mul_ceil_u64_spec d n r : 0 <= n -> mul_ceil_u64 d n = Ok r -> is_ceiling (d * n) r /\ 0 <= r < two64.
Proof.
  unfold mul_ceil_u64, is_ceiling. intros Hn.
  destruct (d <? 0) eqn:Ed; [discriminate|]. apply Z.ltb_ge in Ed. cbv zeta.
  pose proof prec_pos as Hp.
  pose proof (Z.div_mod (d * n) prec ltac:(lia)) as DM.
  pose proof (Z.mod_pos_bound (d * n) prec Hp) as MB.
  assert (0 <= d * n) by nia.
  assert (0 <= d * n / prec) by (apply Z.div_pos; lia).
  destruct (0 <? (d * n) mod prec) eqn:Er.
  - apply Z.ltb_lt in Er. destruct (d * n / prec + 1 <? two64) eqn:E; [|discriminate].
    apply Z.ltb_lt in E. intros [= <-]. split; [nia | lia].
  - apply Z.ltb_ge in Er. destruct (d * n / prec <? two64) eqn:E; [|discriminate].
    apply Z.ltb_lt in E. intros [= <-]. split; [nia | lia].
Qed.

(** agreement with the SDK chain (Base/Dec.v, C14's model) wherever the new code succeeds *)
Lemma mul_ceil_u64_agrees_with_sdk d n r :
  0 <= n -> mul_ceil_u64 d n = Ok r -> forall r', mul_int_ceil_u64 d n = Some r' -> r' = r.
Proof.
  intros Hn H r' H'. apply mul_ceil_u64_spec in H as [C _]; [|exact Hn].
  apply mul_int_ceil_u64_spec in H' as [C' _]. exact (is_ceiling_unique _ _ _ C' C).
Qed.

(** * The invariant *)
Definition routed (s : state) (m : qmsg) : Prop :=
  exists l, lookup (m_assignee m) (st_fees s) = Some l /\ has_key (m_chain m) l = true.

Definition inv (s : state) : Prop :=
  (st_msgs s <> [] -> st_snapshot s <> None) /\ Forall (routed s) (st_msgs s).

Lemma inv_init : inv init.
Proof. split; [intros H; now elim H | constructor]. Qed.

Definition same_route (m m' : qmsg) : Prop :=
  m_id m' = m_id m /\ m_chain m' = m_chain m /\ m_assignee m' = m_assignee m.

Lemma process_msg_route calc s m m' : process_msg calc s m = Ok m' -> same_route m m'.
Proof.
  unfold process_msg, same_route.
  destruct (negb (m_requires m)); [intros [= <-]; auto|].
  destruct (m_estimates m); [intros [= <-]; auto|].
  destruct (0 <? m_elected m); [intros [= <-]; auto|].
  destruct (verify_estimates _ _); try discriminate; [intros [= <-]; auto|].
  destruct (m_feepayer m).
  - destruct (combined_fees _ _ _) as [[[rf cf] sf]|e|q]; try discriminate.
    destruct (calc rf cf sf w); try discriminate. intros [= <-]; simpl; auto.
  - intros [= <-]; simpl; auto.
Qed.

Lemma process_msg_no_panic s m p :
  st_snapshot s <> None -> routed s m -> process_msg calc_fees s m <> Panic p.
Proof.
  intros Hs (l & Hl & Hc). unfold process_msg.
  destruct (negb (m_requires m)); [discriminate|].
  destruct (m_estimates m) eqn:Ee; [discriminate|]. rewrite <- Ee.
  destruct (0 <? m_elected m); [discriminate|].
  unfold verify_estimates. destruct (st_snapshot s) as [sn|]; [|now elim Hs].
  destruct (_ >=? _); [|discriminate].
  destruct (median64 _ =? 0); [discriminate|].
  destruct (m_feepayer m); [|discriminate].
  unfold combined_fees. rewrite Hl. unfold first_mult.
  unfold has_key in Hc. destruct (lookup (m_chain m) l) as [rf|]; [|discriminate].
  destruct (rf =? 0); [discriminate|].
  destruct (st_cf s) as [cf|]; [|discriminate]. destruct (st_sf s) as [sf|]; [|discriminate].
  destruct ((cf =? 0) || (sf =? 0)); [discriminate|].
  destruct (calc_fees rf cf sf _) eqn:E; try discriminate. now apply calc_fees_no_panic in E.
Qed.

(** the message a loop iteration leaves behind: the committed one, or the old one when skipped *)
Definition outcome calc (s : state) (m : qmsg) : qmsg :=
  match process_msg calc s m with Ok x => x | _ => m end.

Lemma estimate_loop_map calc s ms :
  (forall m p, In m ms -> process_msg calc s m <> Panic p) ->
  estimate_loop calc s ms = Ok (map (outcome calc s) ms).
Proof.
  induction ms as [|m r IH]; intros H; simpl; [reflexivity|].
  rewrite IH by (intros; apply H; now right).
  unfold outcome. destruct (process_msg calc s m) eqn:E; try reflexivity.
  exfalso. eapply H; [now left | exact E].
Qed.

Lemma outcome_route calc s m : same_route m (outcome calc s m).
Proof.
  unfold outcome. destruct (process_msg calc s m) eqn:E; try (unfold same_route; auto; fail).
  eapply process_msg_route; exact E.
Qed.

Lemma routed_same_route s s' m m' :
  st_fees s' = st_fees s -> same_route m m' -> routed s m -> routed s' m'.
Proof. intros Hf (_ & Hc & Ha) (l & Hl & Hk). exists l. now rewrite Hf, Ha, Hc. Qed.

Lemma consensus_end_block_total s :
  inv s -> consensus_end_block s =
           Ok {| st_fees := st_fees s; st_cf := st_cf s; st_sf := st_sf s; st_snapshot := st_snapshot s;
                 st_msgs := map (outcome calc_fees s) (st_msgs s); st_next := st_next s |}.
Proof.
  intros [Hs Hr]. unfold consensus_end_block, estimate_step.
  rewrite estimate_loop_map; [reflexivity|].
  intros m p Hin. apply process_msg_no_panic.
  - apply Hs. intros E. rewrite E in Hin. exact Hin.
  - rewrite Forall_forall in Hr. now apply Hr.
Qed.

Lemma inv_end_block s s' : inv s -> consensus_end_block s = Ok s' -> inv s'.
Proof.
  intros I. rewrite (consensus_end_block_total s I). intros [= <-]. destruct I as [Hs Hr].
  split; simpl.
  - intros N. apply Hs. intros E. rewrite E in N. now elim N.
  - rewrite Forall_forall in *. intros m' Hin. apply in_map_iff in Hin as (m & <- & Hin).
    eapply routed_same_route with (s := s); [reflexivity | apply outcome_route | now apply Hr].
Qed.

Ltac proj := cbn [st_fees st_cf st_sf st_snapshot st_msgs st_next m_id m_chain m_assignee m_feepayer m_requires m_estimates m_elected m_fees] in *.

Lemma inv_apply o s : inv s -> accept o s = true -> inv (apply o s).
Proof.
  intros [Hs Hr] Ha. destruct o; cbn [apply accept] in *.
  - (* upsert *)
    unfold upsert. split; proj; [exact Hs|]. rewrite Forall_forall in *. intros m Hin. destruct (Hr m Hin) as (l & Hl & Hk).
    unfold routed; proj. destruct (Z.eq_dec (m_assignee m) v) as [E|N].
    + rewrite E in *. rewrite lookup_set_key_same. eexists; split; [reflexivity|]. rewrite Hl. now apply merge_keeps_chain.
    + rewrite lookup_set_key_other by exact N. eauto.
  - unfold set_gov. split; proj; [exact Hs|]. eapply Forall_impl; [|exact Hr]. intros m R; exact R.
  - unfold set_gov. split; proj; [exact Hs|]. eapply Forall_impl; [|exact Hr]. intros m R; exact R.
  - unfold set_snapshot. split; proj; [discriminate|]. eapply Forall_impl; [|exact Hr]. intros m R; exact R.
  - (* put *)
    unfold put_ok in Ha. destruct (st_snapshot s) as [sn|] eqn:Es; [|discriminate].
    apply andb_true_iff in Ha as [_ Ha].
    unfold put. split; proj; [rewrite Es; discriminate|].
    apply Forall_app; split.
    + eapply Forall_impl; [|exact Hr]. intros m R; exact R.
    + constructor; [|constructor]. unfold routed; proj.
      destruct (lookup assignee (st_fees s)) as [l|]; [|discriminate]. eauto.
  - (* estimate *)
    unfold add_estimate. split; proj.
    + intros N. apply Hs. intros E. rewrite E in N. now elim N.
    + rewrite Forall_forall in *. intros m' Hin. apply in_map_iff in Hin as (m & <- & Hin).
      specialize (Hr m Hin). destruct (m_id m =? id); [|exact Hr].
      destruct Hr as (l & Hl & Hk). exists l. unfold with_estimates; proj. auto.
  - split; [exact Hs | exact Hr].
Qed.

Lemma step_total s o : inv s -> exists s', step s o = Ok s' /\ inv s'.
Proof.
  intros I. destruct o; cbn [step];
    try (match goal with |- context [if ?c then _ else _] => destruct c eqn:Ha end;
         [eexists; split; [reflexivity | now apply (inv_apply _ s I Ha)] | eexists; split; [reflexivity | exact I]]).
  rewrite (consensus_end_block_total s I). eexists; split; [reflexivity|].
  eapply inv_end_block; [exact I | apply consensus_end_block_total; exact I].
Qed.

Lemma run_total ops : forall s, inv s -> exists s', run ops s = Ok s' /\ inv s'.
Proof.
  induction ops as [|o r IH]; intros s I; simpl; [eauto|].
  destruct (step_total s o I) as (s1 & -> & I1). now apply IH.
Qed.

(** * The theorems *)

(** Whatever accepted transactions, governance fee settings, snapshots and earlier blocks came
    before — every operation with arbitrary arguments, rejected ones included — no end-block of
    the history panics or fails, and the consensus end-blocker run on the state reached completes. *)
Theorem endblock_total_proof : forall ops : list op,
  exists s, run ops init = Ok s /\ exists s', consensus_end_block s = Ok s'.
Proof.
  intros ops. destruct (run_total ops init inv_init) as (s & E & I).
  exists s; split; [exact E|]. eexists. apply consensus_end_block_total; exact I.
Qed.

(** non-vacuity: three validators, sane settings; the election happens and fees are set *)
Definition sample_prefix : list op :=
  [OSnapshot [(0, 10); (1, 10); (2, 10)];
   OGovCommunity (Some 10000000000000000); OGovSecurity (Some 10000000000000000)].

Example endblock_total_nonvacuous :
  option_map observe
    (match run (sample_prefix ++ [OUpsert 0 [(0, Some 1100000000000000000)]; OPut 0 0 true true;
                                  OEstimate 0 1 21000; OEstimate 1 1 21000; OEstimate 2 1 21000; OEndBlock]) init with
     | Ok s => Some s | _ => None end)
  = Some [(1, 21000, Some (23100, 231, 231))].
Proof. vm_compute. reflexivity. Qed.

(** F6 on the code before the fixes: a multiplier of -1 is accepted, the election panics *)
Definition f6_history (mult value : Z) : list op :=
  sample_prefix ++ [OUpsert 0 [(0, Some mult)]; OPut 0 0 true true;
                    OEstimate 0 1 value; OEstimate 1 1 value; OEstimate 2 1 value; OEndBlock].

Lemma endblock_total_refuted_old :
  run_old (f6_history (- prec) 21000) init = Panic SUint64 /\
  run_old (f6_history 1250000000000000000 18446744073709551000) init = Panic SUint64.
Proof. split; vm_compute; reflexivity. Qed.

(** ... and on the current code: -1 is rejected on submission (so nothing is ever assigned to that
    validator); the huge estimate with the production multiplier 1.25 is skipped: the message stays
    un-elected, the block completes. *)
Example f6_now :
  option_map observe (match run (f6_history (- prec) 21000) init with Ok s => Some s | _ => None end) = Some [] /\
  option_map observe (match run (f6_history 1250000000000000000 18446744073709551000) init with Ok s => Some s | _ => None end)
    = Some [(1, 0, None)].
Proof. split; vm_compute; reflexivity. Qed.

(** ** Hostile values are rejected or skipped, the rest of the block unaffected *)

(** processing a message reads the state only through the snapshot, the governance fees and the
    fee record of the message's own assignee *)
Lemma process_msg_local calc s1 s2 m :
  st_snapshot s1 = st_snapshot s2 -> st_cf s1 = st_cf s2 -> st_sf s1 = st_sf s2 ->
  (m_feepayer m = true -> lookup (m_assignee m) (st_fees s1) = lookup (m_assignee m) (st_fees s2)) ->
  process_msg calc s1 m = process_msg calc s2 m.
Proof.
  intros H1 H2 H3 H4. unfold process_msg, combined_fees. rewrite H1, H2, H3.
  destruct (m_feepayer m); [rewrite H4 by reflexivity|]; reflexivity.
Qed.

Definition untouched (o : op) (m : qmsg) : Prop :=
  match o with
  | OUpsert v _ => m_assignee m <> v                  (* someone else's fee setting *)
  | OEstimate _ id _ => m_id m <> id                  (* an estimate for another message *)
  | OPut _ _ _ _ => True
  | OGovCommunity _ | OGovSecurity _ => m_feepayer m = false  (* governance fees concern every fee-paying message *)
  | OSnapshot _ => False                               (* a new validator set concerns every election *)
  | OEndBlock => True
  end.

Theorem hostile_values_rejected_or_skipped_proof : forall (ops : list op) (o : op) (s : state),
  run ops init = Ok s ->
  (* rejected on submission: the state is untouched *)
  (accept o s = false /\ step s o = Ok s) \/
  (* or stored: the next end-block still completes, with and without it, and every message the
     value does not concern comes out of it exactly as it would have without the value *)
  (exists s1 s2, consensus_end_block (apply o s) = Ok s1 /\ consensus_end_block s = Ok s2 /\
     forall m, In m (st_msgs s) -> untouched o m ->
       In m (st_msgs (apply o s)) /\ outcome calc_fees (apply o s) m = outcome calc_fees s m).
Proof.
  intros ops o s R.
  destruct (run_total ops init inv_init) as (s0 & R0 & I). rewrite R in R0. injection R0 as <-.
  destruct (accept o s) eqn:Ha.
  2:{ left. split; [reflexivity|]. destruct o; simpl in *; try rewrite Ha; try reflexivity; discriminate. }
  right. pose proof (inv_apply o s I Ha) as I'.
  eexists; eexists. split; [apply consensus_end_block_total; exact I'|].
  split; [apply consensus_end_block_total; exact I|].
  intros m Hin U. unfold outcome.
  destruct o; simpl in *.
  - split; [exact Hin|]. erewrite process_msg_local; [reflexivity | reflexivity | reflexivity | reflexivity |].
    intros _. simpl. now apply lookup_set_key_other.
  - split; [exact Hin|]. unfold process_msg, combined_fees; simpl. rewrite U. reflexivity.
  - split; [exact Hin|]. unfold process_msg, combined_fees; simpl. rewrite U. reflexivity.
  - contradiction.
  - split; [apply in_or_app; now left|]. erewrite process_msg_local; reflexivity.
  - split.
    + apply in_map_iff. exists m. split; [|exact Hin]. destruct (m_id m =? id) eqn:E; [apply Z.eqb_eq in E; contradiction | reflexivity].
    + erewrite process_msg_local; reflexivity.
  - split; [exact Hin | reflexivity].
Qed.

(** non-vacuity: validator 1 stores the largest accepted multiplier and gets a message whose fee
    cannot be represented; validator 0's message in the same block is elected and priced. *)
Example skipped_rest_unaffected :
  option_map observe
    (match run (sample_prefix ++ [OUpsert 0 [(0, Some 1100000000000000000)]; OUpsert 1 [(0, Some max_mult)];
                                  OPut 0 1 true true; OPut 0 0 true true;
                                  OEstimate 0 1 18446744073709551615; OEstimate 1 1 18446744073709551615; OEstimate 2 1 18446744073709551615;
                                  OEstimate 0 2 21000; OEstimate 1 2 21000; OEstimate 2 2 21000; OEndBlock]) init with
     | Ok s => Some s | _ => None end)
  = Some [(1, 0, None); (2, 21000, Some (23100, 231, 231))].
Proof. vm_compute. reflexivity. Qed.

(** ** What is admitted is usable: a stored multiplier is positive and at most the maximum *)
Definition fees_sane (s : state) : Prop :=
  forall v l c x, lookup v (st_fees s) = Some l -> In (c, x) l -> 0 < x <= max_mult.

Lemma fees_sane_apply o s : fees_sane s -> accept o s = true -> fees_sane (apply o s).
Proof.
  intros F Ha. destruct o; cbn [apply accept] in *; try exact F.
  intros v' l c x Hl Hin. unfold upsert in Hl; proj.
  destruct (Z.eq_dec v' v) as [->|N].
  - rewrite lookup_set_key_same in Hl. injection Hl as <-. unfold merge_fees in Hin.
    apply in_app_or in Hin as [Hin|Hin].
    + apply in_map_iff in Hin as ([c' mo] & E & Hin). simpl in E. injection E as <- <-.
      unfold upsert_ok in Ha. apply andb_true_iff in Ha as [_ Ha]. rewrite forallb_forall in Ha.
      specialize (Ha _ Hin). simpl in Ha. destruct mo as [y|]; [|discriminate]. simpl.
      apply andb_true_iff in Ha as [A B]. apply Z.ltb_lt in A. apply Z.leb_le in B. lia.
    + apply filter_In in Hin as [Hin _]. destruct (lookup v (st_fees s)) as [old|] eqn:E; [|now elim Hin].
      eapply F; eauto.
  - rewrite lookup_set_key_other in Hl by exact N. eapply F; eauto.
Qed.

Lemma fees_sane_run ops : forall s s', fees_sane s -> run ops s = Ok s' -> fees_sane s'.
Proof.
  induction ops as [|o r IH]; intros s s' F; simpl; [now intros [= <-]|].
  destruct (step s o) as [s1| |] eqn:E; try discriminate.
  apply IH. destruct o; cbn [step] in E;
    try (destruct (accept _ s) eqn:Ha; injection E as <-; [now apply (fees_sane_apply _ s F Ha) | exact F]).
  destruct (consensus_end_block s) as [s2| |] eqn:E2; try discriminate; injection E as <-; [|exact F].
  unfold consensus_end_block, estimate_step in E2. destruct (estimate_loop _ _ _); try discriminate.
  injection E2 as <-. exact F.
Qed.

Theorem stored_multipliers_usable_proof : forall ops s,
  run ops init = Ok s -> forall v l c x, lookup v (st_fees s) = Some l -> In (c, x) l -> 0 < x <= max_mult.
Proof. intros ops s R. eapply fees_sane_run; [|exact R]. intros v l c x H; discriminate. Qed.

(** ** Module structure *)

(** the skyway end-blocker never aborts the block, whatever its steps do *)
Theorem skyway_never_aborts_proof : forall (A : Type) (inner : A -> result A) (keep : A -> A) (s : A),
  Gen.C09.skyway_endblock_recovers = true -> exists s', recovering inner keep s = Ok s'.
Proof. intros A inner keep s _. unfold recovering. destruct (inner s); eauto. Qed.

(** the version gate is the only modelled begin-block panic, and it opens exactly for a node on the
    governed major.minor line with at least the governed patch *)
Theorem version_gate_only_deliberate_stop_proof : forall (A : Type) running required (s : A),
  (paloma_begin_block running required s = Ok s \/ paloma_begin_block running required s = Panic SVersionGate) /\
  (required = None -> paloma_begin_block running required s = Ok s) /\
  (required = Some running -> paloma_begin_block running required s = Ok s).
Proof.
  intros A [[M m] p] required s. unfold paloma_begin_block. split; [destruct (version_gate_open _ _); auto|].
  split; intros ->; simpl; [reflexivity|]. now rewrite !Z.eqb_refl, Z.leb_refl.
Qed.

(** facts of the source the model relies on, re-derived from the source on every check *)
Definition structure_facts : bool :=
  negb Gen.C09.consensus_endblock_recovers && negb Gen.C09.consensus_endblock_returns_error &&
  Gen.C09.skyway_endblock_recovers && negb Gen.C09.skyway_endblock_returns_error &&
  Gen.C09.valset_endblock_returns_error &&
  negb Gen.C09.evm_endblock_returns_error && negb Gen.C09.paloma_endblock_returns_error && negb Gen.C09.metrix_endblock_returns_error &&
  negb Gen.C09.scheduler_endblock_returns_error && negb Gen.C09.treasury_endblock_returns_error && negb Gen.C09.tokenfactory_endblock_returns_error &&
  negb (Gen.C09.consensus_beginblock_returns_error || Gen.C09.evm_beginblock_returns_error || Gen.C09.valset_beginblock_returns_error ||
        Gen.C09.paloma_beginblock_returns_error || Gen.C09.metrix_beginblock_returns_error || Gen.C09.skyway_beginblock_returns_error ||
        Gen.C09.scheduler_beginblock_returns_error || Gen.C09.treasury_beginblock_returns_error || Gen.C09.tokenfactory_beginblock_returns_error) &&
  (* the empty begin/end blockers really are empty: one `return nil` *)
  (Gen.C09.consensus_beginblock_stmts =? 1) && (Gen.C09.evm_beginblock_stmts =? 1) && (Gen.C09.metrix_beginblock_stmts =? 1) &&
  (Gen.C09.skyway_beginblock_stmts =? 1) && (Gen.C09.scheduler_beginblock_stmts =? 1) && (Gen.C09.treasury_beginblock_stmts =? 1) &&
  (Gen.C09.tokenfactory_beginblock_stmts =? 1) &&
  (* estimate loop: cache context per message, commit on success, continue on error *)
  Gen.C09.estimate_loop_per_message_cache &&
  (* calculateFeesForEstimate: three checked products, no unchecked conversion left *)
  (Gen.C09.fees_unchecked_uint64_conversions =? 0) && (Gen.C09.fees_checked_products =? 3) &&
  Gen.C09.mulceil_rejects_nil && Gen.C09.mulceil_rejects_negative && Gen.C09.mulceil_checks_uint64 &&
  Gen.C09.mulceil_rounds_up_on_positive_remainder && (Gen.C09.mulceil_unchecked_conversions =? 0) &&
  (* UpsertRelayerFee validates every multiplicator before the store write *)
  Gen.C09.upsert_validates_every_multiplicator && Gen.C09.upsert_rejects_nil && Gen.C09.upsert_rejects_non_positive &&
  Gen.C09.upsert_rejects_above_max && (0 <? Gen.C09.max_multiplicator_units) &&
  (Gen.C09.estimates_reject_below =? 1).

Theorem structure_facts_hold_proof : structure_facts = true.
Proof. vm_compute. reflexivity. Qed.

(** ** The site inventory is closed: every panic-capable site reachable from a Begin/EndBlock has a
    reviewed class *)
Definition allowed_classes : list string :=
  ["guarded"; "modelled"; "recovered"; "constant"; "not-sender-controlled"; "nonpanicking"; "not-in-block-path"; "deliberate"]%string.

Definition classified (s : string * string * string) : bool :=
  existsb (String.eqb (snd s)) allowed_classes.

Theorem panic_sites_closed_proof : forallb classified Gen.C09.sites = true.
Proof. vm_compute. reflexivity. Qed.
