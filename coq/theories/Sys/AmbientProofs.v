(** C08 — proofs about Sys/Ambient.v: every modelled handler ignores the ambient. *)
From Coq Require Import List ZArith Bool String Permutation Lia Sorted.
From Paloma Require Import Base.Dec Base.Num Evm.Assign Cons.Quorum Cons.QuorumProofs Sys.Ambient.
From Paloma Require Gen.C08.
Import ListNotations.
Open Scope Z_scope.

(** * Generic facts about permutations *)

Lemma existsb_perm {A} (f : A -> bool) l l' : Permutation l l' -> existsb f l = existsb f l'.
Proof.
  induction 1 as [|x l l' _ IH|x y l|l l' l'' _ IH1 _ IH2]; simpl.
  - reflexivity.
  - now rewrite IH.
  - destruct (f x), (f y); reflexivity.
  - now rewrite IH1.
Qed.

Lemma forallb_perm {A} (f : A -> bool) l l' : Permutation l l' -> forallb f l = forallb f l'.
Proof.
  induction 1 as [|x l l' _ IH|x y l|l l' l'' _ IH1 _ IH2]; simpl.
  - reflexivity.
  - now rewrite IH.
  - destruct (f x), (f y); reflexivity.
  - now rewrite IH1.
Qed.

Lemma filter_perm {A} (f : A -> bool) l l' : Permutation l l' -> Permutation (filter f l) (filter f l').
Proof.
  induction 1 as [|x l l' _ IH|x y l|l l' l'' _ IH1 _ IH2]; simpl.
  - constructor.
  - destruct (f x); [now constructor|exact IH].
  - destruct (f x), (f y); try apply Permutation_refl. apply perm_swap.
  - eapply Permutation_trans; eauto.
Qed.

(** Sorted permutations under an antisymmetric order are equal. *)
Section SortUnique.
  Context {A : Type} (le : A -> A -> Prop).
  Hypothesis le_antisym : forall x y, le x y -> le y x -> x = y.

  Lemma sorted_perm_unique l1 : forall l2,
    StronglySorted le l1 -> StronglySorted le l2 -> Permutation l1 l2 -> l1 = l2.
  Proof.
    induction l1 as [|a r1 IH]; intros l2 S1 S2 P.
    - apply Permutation_nil in P. now subst.
    - destruct l2 as [|b r2]. { apply Permutation_sym, Permutation_nil in P. discriminate. }
      inversion S1 as [|? ? S1r F1]; subst. inversion S2 as [|? ? S2r F2]; subst.
      assert (E : a = b).
      { assert (Ia : In a (b :: r2)) by (eapply Permutation_in; [exact P|now left]).
        assert (Ib : In b (a :: r1)) by (eapply Permutation_in; [apply Permutation_sym; exact P|now left]).
        destruct Ia as [Ea|Ia]; [now symmetry|]. destruct Ib as [Eb|Ib]; [exact Eb|].
        rewrite Forall_forall in F1, F2. apply le_antisym; [apply F1, Ib|apply F2, Ia]. }
      subst b. f_equal. apply IH; auto. eapply Permutation_cons_inv; exact P.
  Qed.
End SortUnique.

(** Insertion sort by a comparison that decides a total antisymmetric order: the result depends
    only on the multiset of the input. *)
Section InsertSort.
  Context {A : Type} (cmp : A -> A -> bool) (le : A -> A -> Prop).
  Hypothesis cmp_true : forall x y, cmp x y = true -> le x y.
  Hypothesis cmp_false : forall x y, cmp x y = false -> le y x.
  Hypothesis le_trans : forall x y z, le x y -> le y z -> le x z.
  Hypothesis le_antisym : forall x y, le x y -> le y x -> x = y.

  Fixpoint ginsert (x : A) (l : list A) : list A :=
    match l with
    | [] => [x]
    | y :: r => if cmp x y then x :: y :: r else y :: ginsert x r
    end.
  Definition gsort (l : list A) : list A := fold_right ginsert [] l.

  Lemma ginsert_perm x l : Permutation (ginsert x l) (x :: l).
  Proof.
    induction l as [|y r IH]; simpl; [apply Permutation_refl|].
    destruct (cmp x y); [apply Permutation_refl|].
    eapply Permutation_trans; [apply perm_skip, IH|apply perm_swap].
  Qed.

  Lemma ginsert_sorted x l : StronglySorted le l -> StronglySorted le (ginsert x l).
  Proof.
    induction l as [|y r IH]; intros S; simpl.
    - constructor; constructor.
    - inversion S as [|? ? Sr F]; subst. destruct (cmp x y) eqn:E.
      + constructor; [exact S|]. constructor; [now apply cmp_true|].
        rewrite Forall_forall in *. intros z Hz. eapply le_trans; [apply cmp_true, E|now apply F].
      + constructor; [now apply IH|].
        rewrite Forall_forall in *. intros z Hz.
        apply (Permutation_in _ (ginsert_perm x r)) in Hz. destruct Hz as [<-|Hz]; [now apply cmp_false|now apply F].
  Qed.

  Lemma gsort_perm l : Permutation (gsort l) l.
  Proof.
    induction l as [|x r IH]; simpl; [constructor|].
    eapply Permutation_trans; [apply ginsert_perm|now constructor].
  Qed.

  Lemma gsort_sorted l : StronglySorted le (gsort l).
  Proof. induction l as [|x r IH]; simpl; [constructor|now apply ginsert_sorted]. Qed.

  Theorem gsort_perm_invariant l l' : Permutation l l' -> gsort l = gsort l'.
  Proof.
    intros P. apply (sorted_perm_unique le le_antisym); try apply gsort_sorted.
    eapply Permutation_trans; [apply gsort_perm|].
    eapply Permutation_trans; [exact P|apply Permutation_sym, gsort_perm].
  Qed.
End InsertSort.

(** * 1. AddStatusUpdate *)

Lemma status_update_ignores_ambient a a' m : add_status_update a m = add_status_update a' m.
Proof.
  unfold add_status_update. destruct (negb (sm_creator_ok m)); [reflexivity|].
  destruct (negb (level_known (sm_level m))); [reflexivity|].
  destruct (env a ff_name), (env a' ff_name); reflexivity.
Qed.

Lemma status_update_never_panics a m : add_status_update a m <> StPanic.
Proof.
  unfold add_status_update. destruct (negb (sm_creator_ok m)); [discriminate|].
  destruct (negb (level_known (sm_level m))); [discriminate|]. destruct (env a ff_name); discriminate.
Qed.

Definition amb_plain : Ambient :=
  {| env := fun _ => None; wallclock := 0; gomaxprocs := 1; tz := fun _ => 0;
     ord_infos := fun l => l; ord_groups := fun l => l; ord_updates := fun l => l; ord_keys := fun l => l |}.
Definition amb_other : Ambient :=
  {| env := fun n => if String.eqb n ff_name then Some "1"%string else None; wallclock := 1700000000; gomaxprocs := 16;
     tz := fun _ => 32400;
     ord_infos := @rev _; ord_groups := @rev _; ord_updates := @rev _; ord_keys := @rev _ |}.

Lemma amb_plain_ok : amb_ok amb_plain.
Proof. repeat split; intros l; apply Permutation_refl. Qed.
Lemma amb_other_ok : amb_ok amb_other.
Proof. repeat split; intros l; apply Permutation_sym, Permutation_rev. Qed.

(** The environment IS read by the handler (so non-interference is not vacuous): the log differs. *)
Example status_update_reads_env :
  add_status_update_log amb_plain {| sm_creator_ok := true; sm_level := 1 |} = [] /\
  add_status_update_log amb_other {| sm_creator_ok := true; sm_level := 1 |} = [1].
Proof. split; reflexivity. Qed.

(** F5, the pinned tree: the same message succeeds without the variable and panics with it. *)
Example pinned_handler_env_dependent :
  add_status_update_pinned amb_plain {| sm_creator_ok := true; sm_level := 99 |} = StOk /\
  add_status_update_pinned amb_other {| sm_creator_ok := true; sm_level := 99 |} = StPanic /\
  add_status_update_pinned amb_plain {| sm_creator_ok := false; sm_level := 1 |} = StOk /\
  add_status_update_pinned amb_other {| sm_creator_ok := false; sm_level := 1 |} = StErrCreator.
Proof. repeat split; reflexivity. Qed.

(** * 2. Ranking *)

Lemma fold_max_spec l : forall d,
  (fold_right Z.max d l = d \/ In (fold_right Z.max d l) l) /\ d <= fold_right Z.max d l /\
  Forall (fun x => x <= fold_right Z.max d l) l.
Proof.
  induction l as [|a r IH]; intros d; simpl.
  - split; [now left|]. split; [lia|constructor].
  - destruct (IH d) as (Hin & Hd & Hall).
    destruct (Z.max_spec a (fold_right Z.max d r)) as [[Hlt E]|[Hle E]]; rewrite E.
    + split; [destruct Hin; [now left|right; now right]|]. split; [exact Hd|].
      constructor; [lia|exact Hall].
    + split; [right; now left|]. split; [lia|].
      constructor; [lia|]. eapply Forall_impl; [|exact Hall]. simpl. intros; lia.
Qed.

Lemma fold_min_spec l : forall d,
  (fold_right Z.min d l = d \/ In (fold_right Z.min d l) l) /\ fold_right Z.min d l <= d /\
  Forall (fun x => fold_right Z.min d l <= x) l.
Proof.
  induction l as [|a r IH]; intros d; simpl.
  - split; [now left|]. split; [lia|constructor].
  - destruct (IH d) as (Hin & Hd & Hall).
    destruct (Z.min_spec a (fold_right Z.min d r)) as [[Hlt E]|[Hle E]]; rewrite E.
    + split; [right; now left|]. split; [lia|].
      constructor; [lia|]. eapply Forall_impl; [|exact Hall]. simpl. intros; lia.
    + split; [destruct Hin; [now left|right; now right]|]. split; [exact Hd|].
      constructor; [lia|exact Hall].
Qed.

Lemma hd_in (l : list Z) : l <> [] -> In (hd 0 l) l.
Proof. destruct l; [congruence|now left]. Qed.

Lemma win_max_char l : l <> [] -> In (win_max l) l /\ Forall (fun x => x <= win_max l) l.
Proof.
  intros N. unfold win_max. destruct (fold_max_spec l (hd 0 l)) as (Hin & _ & Hall).
  split; [|exact Hall]. destruct Hin as [E|Hin]; [rewrite E; now apply hd_in|exact Hin].
Qed.

Lemma raw_min_char l : l <> [] ->
  In (fold_right Z.min (hd 0 l) l) l /\ Forall (fun x => fold_right Z.min (hd 0 l) l <= x) l.
Proof.
  intros N. destruct (fold_min_spec l (hd 0 l)) as (Hin & _ & Hall).
  split; [|exact Hall]. destruct Hin as [E|Hin]; [rewrite E; now apply hd_in|exact Hin].
Qed.

Lemma perm_nonempty {A} (l l' : list A) : Permutation l l' -> l <> [] -> l' <> [].
Proof. intros P N E. subst. apply Permutation_sym, Permutation_nil in P. contradiction. Qed.

Lemma win_max_perm l l' : Permutation l l' -> win_max l = win_max l'.
Proof.
  intros P. destruct l as [|a r].
  - apply Permutation_nil in P. now subst.
  - assert (N : a :: r <> []) by discriminate. pose proof (perm_nonempty _ _ P N) as N'.
    destruct (win_max_char _ N) as (I1 & F1). destruct (win_max_char _ N') as (I2 & F2).
    rewrite Forall_forall in F1, F2.
    pose proof (F2 _ (Permutation_in _ P I1)). pose proof (F1 _ (Permutation_in _ (Permutation_sym P) I2)). lia.
Qed.

Lemma win_min_perm l l' : Permutation l l' -> win_min l = win_min l'.
Proof.
  intros P. unfold win_min. f_equal. destruct l as [|a r].
  - apply Permutation_nil in P. now subst.
  - assert (N : a :: r <> []) by discriminate. pose proof (perm_nonempty _ _ P N) as N'.
    destruct (raw_min_char _ N) as (I1 & F1). destruct (raw_min_char _ N') as (I2 & F2).
    rewrite Forall_forall in F1, F2.
    pose proof (F2 _ (Permutation_in _ P I1)). pose proof (F1 _ (Permutation_in _ (Permutation_sym P) I2)). lia.
Qed.

Lemma score_of_perm infos infos' w i : Permutation infos infos' -> score_of infos w i = score_of infos' w i.
Proof.
  intros P.
  assert (Hmax : forall f : vinfo -> Z, win_max (map f infos) = win_max (map f infos'))
    by (intros f; apply win_max_perm, Permutation_map, P).
  assert (Hmin : forall f : vinfo -> Z, win_min (map f infos) = win_min (map f infos'))
    by (intros f; apply win_min_perm, Permutation_map, P).
  unfold score_of.
  rewrite (Hmax i_fee), (Hmin i_fee), (Hmax i_uptime), (Hmin i_uptime), (Hmax i_success), (Hmin i_success),
          (Hmax i_exec), (Hmin i_exec), (Hmax i_feature), (Hmin i_feature).
  reflexivity.
Qed.

(** [before] is the strict lexicographic order (score descending, address ascending) on ALL pairs. *)
Definition sle (x y : Z * Z) : Prop := before y x = false.

Lemma before_true_sle x y : before x y = true -> sle x y.
Proof. unfold sle, before. destruct x as [ax sx], y as [ay sy]; simpl. lia. Qed.
Lemma before_false_sle x y : before x y = false -> sle y x.
Proof. unfold sle. auto. Qed.
Lemma sle_trans x y z : sle x y -> sle y z -> sle x z.
Proof. unfold sle, before. destruct x as [ax sx], y as [ay sy], z as [az sz]; simpl. lia. Qed.
Lemma sle_antisym x y : sle x y -> sle y x -> x = y.
Proof.
  unfold sle, before. destruct x as [ax sx], y as [ay sy]; simpl. intros H1 H2.
  assert (sx = sy) by lia. assert (ax = ay) by lia. now subst.
Qed.

Lemma insert_is_ginsert x l : Assign.insert x l = ginsert before x l.
Proof. induction l as [|y r IH]; simpl; [reflexivity|]. now rewrite IH. Qed.
Lemma sort_scores_is_gsort l : sort_scores l = gsort before l.
Proof.
  unfold sort_scores. induction l as [|x r IH]; simpl; [reflexivity|].
  now rewrite IH, insert_is_ginsert.
Qed.

Lemma sort_scores_perm_invariant l l' : Permutation l l' -> sort_scores l = sort_scores l'.
Proof.
  intros P. rewrite !sort_scores_is_gsort.
  apply (gsort_perm_invariant before sle before_true_sle before_false_sle sle_trans sle_antisym), P.
Qed.

Lemma rank_perm_invariant_lemma infos infos' w : Permutation infos infos' -> rank infos w = rank infos' w.
Proof.
  intros P. unfold rank. apply sort_scores_perm_invariant.
  rewrite (map_ext _ (fun i => (i_addr i, score_of infos' w i))) by (intros i; f_equal; apply score_of_perm, P).
  apply Permutation_map, P.
Qed.

Lemma rank_amb_eq a infos w : amb_ok a -> rank_amb a infos w = rank infos w.
Proof.
  intros (Ho & _). unfold rank_amb, rank. apply sort_scores_perm_invariant.
  rewrite (map_ext _ (fun i => (i_addr i, score_of infos w i))) by (intros i; f_equal; apply score_of_perm, Ho).
  apply Permutation_map. eapply Permutation_trans; apply Ho.
Qed.

(** Non-vacuity: a tie on the score (equal metrics), three validators, two iteration orders. *)
Example rank_example :
  let v a f := {| i_addr := a; i_fee := f; i_uptime := 10; i_success := 10; i_exec := 10; i_feature := 10 |} in
  let w := {| w_fee := 1000000000000000000; w_uptime := 0; w_success := 0; w_exec := 0; w_feature := 0 |} in
  rank [v 3 5; v 1 5; v 2 9] w = rank [v 2 9; v 1 5; v 3 5] w /\
  map fst (rank [v 3 5; v 1 5; v 2 9] w) = [1; 3; 2].
Proof. vm_compute. split; reflexivity. Qed.

(** * 3. Pick: the ambient order and the cache *)

Lemma pick_body_ignores_ambient a a' c h sn ms fs w chain req ts :
  amb_ok a -> amb_ok a' ->
  pick_body a c h sn ms fs w chain req ts = pick_body a' c h sn ms fs w chain req ts.
Proof.
  intros Ha Ha'. unfold pick_body, snapshot_for_round.
  destruct (h =? snd c); [reflexivity|].
  destruct (build_infos sn ms fs) as [|i l]; [reflexivity|].
  now rewrite (rank_amb_eq a), (rank_amb_eq a').
Qed.

(** With the assigner as constructed (height -1) a pick at any real height is C14's cache-free pick. *)
Lemma pick_with_fresh_cache a h sn ms fs w chain req ts :
  amb_ok a -> h <> -1 ->
  fst (pick_body a cache0 h sn ms fs w chain req ts) = pick sn ms fs w chain req ts.
Proof.
  intros Ha Hh. unfold pick_body, snapshot_for_round, pick, eligible_list. simpl snd.
  destruct (Z.eqb_spec h (-1)) as [E|_]; [contradiction|].
  destruct (build_infos sn ms fs) as [|i l] eqn:EB; [reflexivity|].
  rewrite (rank_amb_eq a) by exact Ha. cbn [fst snd].
  destruct (filter (job_ok sn chain req) (map fst (rank (i :: l) w))) as [|e el] eqn:EF; [reflexivity|].
  destruct (Z.rem ts (Z.min (Z.of_nat (List.length (e :: el))) pool_size) <? 0); [reflexivity|].
  destruct (nth_error (e :: el) _) as [v|]; [|reflexivity].
  destruct (remote_of sn v chain); reflexivity.
Qed.

Lemma step_preserves_cache a s tx : st_cache (fst (step_amb a s tx)) = st_cache s.
Proof. destruct tx; reflexivity. Qed.

Lemma run_preserves_cache h : forall s, st_cache (fst (run_amb h s)) = st_cache s.
Proof.
  induction h as [|[a tx] r IH]; intros s; simpl; [reflexivity|].
  destruct (step_amb a s tx) as [s1 res] eqn:E1. destruct (run_amb r s1) as [s2 rs] eqn:E2. simpl.
  pose proof (IH s1) as H. rewrite E2 in H. simpl in H. rewrite H.
  pose proof (step_preserves_cache a s tx) as H1. now rewrite E1 in H1.
Qed.

(** * 4. Purge *)

Lemma kv_set_comm k1 v1 k2 v2 s : k1 <> k2 ->
  kv_set k1 v1 (kv_set k2 v2 s) = kv_set k2 v2 (kv_set k1 v1 s).
Proof.
  intros N. induction s as [|[k v] r IH]; cbn [kv_set].
  - repeat (match goal with
            | |- context [Z.ltb ?x ?y] => destruct (Z.ltb_spec x y)
            | |- context [Z.eqb ?x ?y] => destruct (Z.eqb_spec x y)
            end; cbn [kv_set]); try lia; reflexivity.
  - repeat (match goal with
            | |- context [Z.ltb ?x ?y] => destruct (Z.ltb_spec x y)
            | |- context [Z.eqb ?x ?y] => destruct (Z.eqb_spec x y)
            end; cbn [kv_set]); subst; try lia; try reflexivity; now rewrite IH.
Qed.

Lemma apply_updates_perm ups ups' : Permutation ups ups' -> NoDup (map fst ups) ->
  forall s, apply_updates ups s = apply_updates ups' s.
Proof.
  unfold apply_updates.
  induction 1 as [|x l l' P IH|x y l|l l' l'' P1 IH1 P2 IH2]; intros ND s; simpl.
  - reflexivity.
  - apply IH. now inversion ND.
  - rewrite kv_set_comm; [reflexivity|]. simpl in ND. inversion ND as [|? ? Hn _]; subst.
    intros E. apply Hn. left. now symmetry.
  - rewrite IH1 by exact ND. apply IH2.
    eapply Permutation_NoDup; [apply Permutation_map, P1|exact ND].
Qed.

Lemma purge_amb_eq a ups s : amb_ok a -> NoDup (map fst ups) -> purge_amb a ups s = apply_updates ups s.
Proof.
  intros (_ & _ & Ho & _) ND. unfold purge_amb. symmetry. apply apply_updates_perm; [apply Permutation_sym, Ho|exact ND].
Qed.

Example purge_example :
  apply_updates [(3, 30); (1, 10); (2, 21)] [(2, 20); (5, 50)] = [(1, 10); (2, 21); (3, 30); (5, 50)] /\
  apply_updates [(2, 21); (3, 30); (1, 10)] [(2, 20); (5, 50)] = [(1, 10); (2, 21); (3, 30); (5, 50)].
Proof. split; reflexivity. Qed.

(** Without distinct keys the order would matter (so the hypothesis is used, and it is what a Go map gives). *)
Example purge_needs_distinct_keys :
  apply_updates [(1, 10); (1, 11)] [] <> apply_updates [(1, 11); (1, 10)] [].
Proof. discriminate. Qed.

(** * 5. Boolean loops, sorted collection, set building *)

Lemma any_missing_amb_eq a keys present : amb_ok a ->
  any_missing_amb a keys present = existsb (fun k => negb (mem k present)) keys.
Proof. intros (_ & _ & _ & Ho). unfold any_missing_amb. apply existsb_perm, Ho. Qed.

Lemma zinsert_is_ginsert x l : zinsert x l = ginsert Z.leb x l.
Proof. induction l as [|y r IH]; simpl; [reflexivity|]. now rewrite IH. Qed.
Lemma zsort_is_gsort l : zsort l = gsort Z.leb l.
Proof. unfold zsort. induction l as [|x r IH]; simpl; [reflexivity|]. now rewrite IH, zinsert_is_ginsert. Qed.

Lemma zsort_perm_invariant l l' : Permutation l l' -> zsort l = zsort l'.
Proof.
  intros P. rewrite !zsort_is_gsort.
  apply (gsort_perm_invariant Z.leb Z.le); try exact P.
  - intros x y H. apply Z.leb_le, H.
  - intros x y H. apply Z.leb_gt in H. lia.
  - intros; lia.
  - intros; lia.
Qed.

Lemma sorted_missing_amb_eq a keys present : amb_ok a ->
  sorted_missing_amb a keys present = zsort (filter (fun k => negb (mem k present)) keys).
Proof. intros (_ & _ & _ & Ho). unfold sorted_missing_amb. apply zsort_perm_invariant, filter_perm, Ho. Qed.

Lemma set_member_amb_eq a keys x : amb_ok a -> set_member_amb a keys x = mem x keys.
Proof. intros (_ & _ & _ & Ho). unfold set_member_amb, mem. apply existsb_perm, Ho. Qed.

Example sorted_missing_example :
  sorted_missing_amb amb_other [5; 2; 9; 7] [7] = [2; 5; 9] /\ sorted_missing_amb amb_plain [5; 2; 9; 7] [7] = [2; 5; 9] /\
  any_missing_amb amb_other [5; 2] [2; 5] = false /\ any_missing_amb amb_other [5; 2] [2] = true.
Proof. repeat split; reflexivity. Qed.

(** * 6. Evidence: C04's winner_unique *)

Lemma verify_evidence_amb_indep (gk : Z -> Z -> Z) a a' sn evs :
  amb_ok a -> amb_ok a' ->
  (0 < sn_total sn /\ sn_total sn = zsum (map snd (sn_vals sn)) /\ Forall (fun p => 0 <= snd p) (sn_vals sn)) ->
  NoDup (map ev_val evs) ->
  verify_evidence Z.eqb gk (ord_groups a) sn evs = verify_evidence Z.eqb gk (ord_groups a') sn evs.
Proof.
  intros (_ & Ho & _) (_ & Ho' & _) Hsn Hnd.
  exact (@verify_evidence_order_independent Z Z.eqb gk (ord_groups a) (ord_groups a') sn evs Ho Ho' Hsn Hnd).
Qed.

(** * 7. Non-interference of a step and of a history *)

Theorem step_noninterference a a' s tx : amb_ok a -> amb_ok a' -> tx_wf tx -> step_amb a s tx = step_amb a' s tx.
Proof.
  intros Ha Ha' Hwf. destruct tx as [m|h sn ms fs w chain req ts|ups|keys present|keys present|gk sn evs|t months]; simpl.
  - now rewrite (status_update_ignores_ambient a a').
  - now rewrite (pick_body_ignores_ambient a a') by assumption.
  - simpl in Hwf. now rewrite (purge_amb_eq a), (purge_amb_eq a') by assumption.
  - now rewrite (any_missing_amb_eq a), (any_missing_amb_eq a') by assumption.
  - now rewrite (sorted_missing_amb_eq a), (sorted_missing_amb_eq a') by assumption.
  - destruct Hwf as (Hsn & Hnd). now rewrite (verify_evidence_amb_indep gk a a') by assumption.
  - reflexivity.
Qed.

Definition same_history (x y : Ambient * Tx) : Prop :=
  snd x = snd y /\ amb_ok (fst x) /\ amb_ok (fst y) /\ tx_wf (snd x).

Theorem run_noninterference h h' : Forall2 same_history h h' -> forall s, run_amb h s = run_amb h' s.
Proof.
  induction 1 as [|[a tx] [a' tx'] r r' (E & Ha & Ha' & Hwf) _ IH]; intros s; simpl; [reflexivity|].
  simpl in E, Ha, Ha', Hwf. subst tx'.
  rewrite (step_noninterference a a' s tx Ha Ha' Hwf).
  destruct (step_amb a' s tx) as [s1 res]. now rewrite IH.
Qed.

(** Non-vacuity of the history theorem: a history with a store change, under two really different
    ambients, gives the same non-trivial state and results. *)
Example run_example :
  let h a := [(a, TxStatus {| sm_creator_ok := true; sm_level := 7 |});
              (a, TxPurge [(3, 30); (1, 10)]);
              (a, TxWorthy [4; 5] [5]);
              (a, TxJail [9; 8; 7] [8])] in
  run_amb (h amb_plain) {| st_cache := cache0; st_kv := [(2, 20)] |} =
  run_amb (h amb_other) {| st_cache := cache0; st_kv := [(2, 20)] |} /\
  run_amb (h amb_other) {| st_cache := cache0; st_kv := [(2, 20)] |} =
  ({| st_cache := cache0; st_kv := [(1, 10); (2, 20); (3, 30)] |},
   [RStatus StErrLevel; RUnit; RBool true; RKeys [7; 9]]).
Proof. split; reflexivity. Qed.

(** * 8. The inventory *)

Lemma nondet_sites_closed_lemma : forallb classified Gen.C08.sites = true.
Proof. vm_compute. reflexivity. Qed.

(** An unclassified or "open:" site is NOT accepted (the check can fail). *)
Example unclassified_site_rejected :
  classified {| Gen.C08.s_kind := "MapRange"; Gen.C08.s_pkg := "x/evm/keeper"; Gen.C08.s_func := "f";
                Gen.C08.s_expr := "m"; Gen.C08.s_ord := 0; Gen.C08.s_auto := ""; Gen.C08.s_class := "" |} = false /\
  classified {| Gen.C08.s_kind := "OsCall"; Gen.C08.s_pkg := "x/evm/keeper"; Gen.C08.s_func := "f";
                Gen.C08.s_expr := "os.Getenv"; Gen.C08.s_ord := 0; Gen.C08.s_auto := ""; Gen.C08.s_class := "open:todo" |} = false /\
  classified {| Gen.C08.s_kind := "MapRange"; Gen.C08.s_pkg := "x/evm/keeper"; Gen.C08.s_func := "f";
                Gen.C08.s_expr := "m"; Gen.C08.s_ord := 0; Gen.C08.s_auto := ""; Gen.C08.s_class := "lemma:no_such_theorem" |} = false /\
  classified {| Gen.C08.s_kind := "MapRange"; Gen.C08.s_pkg := "x/evm/keeper"; Gen.C08.s_func := "f";
                Gen.C08.s_expr := "m"; Gen.C08.s_ord := 0; Gen.C08.s_auto := "some-new-rule"; Gen.C08.s_class := "" |} = false /\
  classified {| Gen.C08.s_kind := "MapRange"; Gen.C08.s_pkg := "x/evm/keeper"; Gen.C08.s_func := "f";
                Gen.C08.s_expr := "m"; Gen.C08.s_ord := 0; Gen.C08.s_auto := "collect-then-sort"; Gen.C08.s_class := "" |} = true.
Proof. repeat split; reflexivity. Qed.

(** The handler model has the shape the source has now. *)
Lemma status_update_source_shape :
  Gen.C08.status_update_shape = "VVEGL"%string /\
  In "x/paloma/keeper:PALOMA_FF_PIGEON_STATUS_UPDATE"%string Gen.C08.env_names_read.
Proof. split; [reflexivity|]. simpl. tauto. Qed.
