(** C09 (second round) — the skyway end-blocker under its recover, and the one sender-influenced
    division of the valset end-blocker.  Definitions only (proofs: EndBlockModsProofs.v).

    Modelled code:
      x/skyway/abci.go          EndBlocker: one deferred recover around createBatch, then per active
                                chain attestationTally / pruneAttestations / (every 50 blocks) nonce
                                catch-up, then processGasEstimates, cleanupTimedOutBatches; every
                                step's error is logged                                   -> [sky_end_block]
      x/skyway/keeper/attestation.go  TryAttestation: the cursor (last observed nonce) and the
                                observed flag are written to the block context BEFORE the handler
                                runs; processAttestation runs the handler in a cache context that is
                                committed only on success                                -> [tally]
      x/skyway/keeper/attestation_handler.go  the handlers, by outcome: applied, refused (error),
                                panic (sdk.NewCoin on a negative amount, the light-node licence
                                arithmetic on a negative or huge amount)                 -> [claim]
      x/valset/keeper/keeper.go isNewSnapshotWorthy: LegacyNewDecFromInt(share).QuoInt(TotalShares)
                                for the stored and the new snapshot                      -> [worthy_powers]

    A claim here is fully voted (the vote threshold is C02's subject); conflicting claims at one nonce
    are not modelled. *)
From Coq Require Import List ZArith Bool Lia.
Import ListNotations.
Open Scope Z_scope.

(** ** Skyway *)
Inductive claim := CApplied (effect : Z) | CRefused | CPanics.

Record sky := {
  k_cursor : list Z;                  (* per chain: last observed skyway nonce *)
  k_claims : list (list (Z * claim)); (* per chain: fully voted claims by nonce *)
  k_effects : Z;                      (* what committed handlers did (sum of their effects) *)
  k_swept : Z                         (* how often the steps after the tally loop ran *)
}.

Fixpoint clookup (n : Z) (l : list (Z * claim)) : option claim :=
  match l with
  | [] => None
  | (k, c) :: r => if n =? k then Some c else clookup n r
  end.

(** attestationTally for one chain: walks the nonces upwards from the cursor.  [fuel] bounds the walk
    by the number of stored claims (each iteration consumes one).  Returns (cursor, effects, panicked). *)
Fixpoint tally (fuel : nat) (claims : list (Z * claim)) (cursor effects : Z) : Z * Z * bool :=
  match fuel with
  | O => (cursor, effects, false)
  | S f =>
    match clookup (cursor + 1) claims with
    | None => (cursor, effects, false)
    | Some c =>
      (* cursor, observed flag: written before the handler *)
      match c with
      | CApplied e => tally f claims (cursor + 1) (effects + e)
      | CRefused => tally f claims (cursor + 1) effects
      | CPanics => (cursor + 1, effects, true)           (* the handler's cache context is dropped *)
      end
    end
  end.

(** the per-chain loop: a panic ends the whole end-blocker *)
Fixpoint tally_chains (cursors : list Z) (claims : list (list (Z * claim))) (effects : Z) : list Z * Z * bool :=
  match cursors, claims with
  | cur :: rc, cl :: rl =>
    let '(cur', eff', pan) := tally (length cl) cl cur effects in
    if pan then (cur' :: rc, eff', true)
    else let '(rc', eff'', pan') := tally_chains rc rl eff' in (cur' :: rc', eff'', pan')
  | _, _ => (cursors, effects, false)
  end.

Definition sky_end_block (s : sky) : sky :=
  let '(cur, eff, pan) := tally_chains (k_cursor s) (k_claims s) (k_effects s) in
  {| k_cursor := cur; k_claims := k_claims s; k_effects := eff;
     k_swept := if pan then k_swept s else k_swept s + 1 |}.

(** a claim enters through the msg server once per (chain, nonce), above the cursor *)
Fixpoint nth_or {A} (d : A) (n : nat) (l : list A) : A :=
  match n, l with
  | O, x :: _ => x
  | S k, _ :: r => nth_or d k r
  | _, [] => d
  end.

Fixpoint set_nth {A} (n : nat) (x : A) (l : list A) : list A :=
  match n, l with
  | O, _ :: r => x :: r
  | S k, y :: r => y :: set_nth k x r
  | _, [] => []
  end.

Definition sky_claim_ok (chain : nat) (nonce : Z) (s : sky) : bool :=
  (Nat.ltb chain (length (k_cursor s))) && (nth_or 0 chain (k_cursor s) <? nonce) &&
  match clookup nonce (nth_or [] chain (k_claims s)) with None => true | Some _ => false end.

Definition sky_add_claim (chain : nat) (nonce : Z) (c : claim) (s : sky) : sky :=
  {| k_cursor := k_cursor s; k_claims := set_nth chain ((nonce, c) :: nth_or [] chain (k_claims s)) (k_claims s);
     k_effects := k_effects s; k_swept := k_swept s |}.

Inductive sop := SClaim (chain : nat) (nonce : Z) (c : claim) | SEndBlock.

Definition sky_step (s : sky) (o : sop) : sky :=
  match o with
  | SClaim ch n c => if sky_claim_ok ch n s then sky_add_claim ch n c s else s
  | SEndBlock => sky_end_block s
  end.

Definition sky_init (chains : nat) : sky :=
  {| k_cursor := repeat 0 chains; k_claims := repeat [] chains; k_effects := 0; k_swept := 0 |}.

Definition sky_run (ops : list sop) (s : sky) : sky := fold_left sky_step ops s.

(** ** Valset: the percentage comparison of isNewSnapshotWorthy *)
Inductive wresult := WOk (worthy : bool) | WDivByZero.

Definition prec18 : Z := 1000000000000000000.

(** LegacyNewDecFromInt(share).QuoInt(total): truncating division of share*10^18 by total; panics
    ("division by zero") when total is zero *)
Definition share_of (share total : Z) : option Z :=
  if total =? 0 then None else Some (share * prec18 / total).

(** the loop over the validators of two snapshots with the same members in the same order;
    >= 0.01 means worthy *)
Fixpoint worthy_powers (cur new : list Z) (tcur tnew : Z) : wresult :=
  match cur, new with
  | c :: rc, n :: rn =>
    match share_of c tcur, share_of n tnew with
    | Some a, Some b => if prec18 / 100 <=? Z.abs (a - b) then WOk true else worthy_powers rc rn tcur tnew
    | _, _ => WDivByZero
    end
  | _, _ => WOk false
  end.

(** ** The version gate (x/paloma CheckChainVersion), with the comparison it makes

    golang.org/x/mod/semver: a version is vMAJOR[.MINOR[.PATCH[-PRERELEASE][+BUILD]]]; build metadata
    is ignored; a pre-release sorts before its release; pre-release identifiers are compared one by
    one, numeric ones as numbers, others as byte strings, numeric before alphanumeric, a proper
    prefix first; an invalid version sorts before every valid one and has the empty major.minor.
    The gate: same major.minor as the completed upgrade (the governed line), and not older than it. *)
Inductive pre_id := PNum (n : Z) | PAlpha (s : list Z).

Record semver := { sv_major : Z; sv_minor : Z; sv_patch : Z; sv_pre : list pre_id }.

Fixpoint bytes_cmp (a b : list Z) : comparison :=
  match a, b with
  | [], [] => Eq
  | [], _ => Lt
  | _, [] => Gt
  | x :: r, y :: s => match x ?= y with Eq => bytes_cmp r s | c => c end
  end.

Definition id_cmp (a b : pre_id) : comparison :=
  match a, b with
  | PNum x, PNum y => x ?= y
  | PNum _, PAlpha _ => Lt
  | PAlpha _, PNum _ => Gt
  | PAlpha x, PAlpha y => bytes_cmp x y
  end.

Fixpoint pre_cmp (a b : list pre_id) : comparison :=
  match a, b with
  | [], [] => Eq
  | [], _ => Lt
  | _, [] => Gt
  | x :: r, y :: s => match id_cmp x y with Eq => pre_cmp r s | c => c end
  end.

Definition sem_cmp (a b : semver) : comparison :=
  match sv_major a ?= sv_major b with
  | Eq =>
    match sv_minor a ?= sv_minor b with
    | Eq =>
      match sv_patch a ?= sv_patch b with
      | Eq =>
        match sv_pre a, sv_pre b with
        | [], [] => Eq
        | [], _ => Gt                     (* the release comes after its pre-releases *)
        | _, [] => Lt
        | p, q => pre_cmp p q
        end
      | c => c
      end
    | c => c
    end
  | c => c
  end.

Definition same_line (a b : option semver) : bool :=
  match a, b with
  | Some x, Some y => (sv_major x =? sv_major y) && (sv_minor x =? sv_minor y)
  | None, None => true                    (* MajorMinor of an invalid version is "" *)
  | _, _ => false
  end.

(** [running]: None = the binary's version string is not a semantic version.
    [required]: None = no completed upgrade; Some None = its name is not a semantic version. *)
Definition gate_open (running : option semver) (required : option (option semver)) : bool :=
  match required with
  | None => true
  | Some g =>
    same_line running g &&
    match running, g with
    | Some a, Some b => match sem_cmp a b with Lt => false | _ => true end
    | _, _ => true                        (* both invalid: Compare = 0 *)
    end
  end.

(** what a comparison of the canonical STRINGS does to multi-digit components (seeded change C09-F) *)
Definition digits_cmp (a b : list Z) : comparison := bytes_cmp a b.
