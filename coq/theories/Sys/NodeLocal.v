(** C08, round 2 — what a node does that is NOT chain history, as operations of the model:
    simulated executions on state branches that are discarded (CheckTx, simulate queries, failed
    transactions, the cache context of an attestation that is not written), and restarts.

    The store is branchable: a discarded branch leaves no trace in it.  The memory of the process
    is not: whatever a handler leaves behind in a keeper-held object survives the discarded
    branch, and is lost at a restart.  [nstep] says exactly that for the one in-memory object of
    the modelled code ([st_cache], the msgAssigner's score snapshot); the theorems
    (Sys/NodeLocalProofs.v, Properties/C08.v) show that over every history these operations are
    invisible in the results and the state of the delivered transactions.

    Section 2 is a counter-model: a write-through cache of store records held behind a pointer
    (the shape the RecvFieldWrite sites of the inventory rule out) makes a discarded branch
    visible.  Section 3 models the jailing loop of the consensus prune job
    (jailValidatorsWhichMissedAttestation + valset.Jail): it is order-sensitive, hence must run in
    an order that is part of the state.

    Definitions only. *)
From Coq Require Import List ZArith Bool String Permutation.
From Paloma Require Import Base.Dec Evm.Assign Cons.Quorum Sys.Ambient.
Import ListNotations.
Open Scope Z_scope.

(** * 1. Delivered, simulated, restart *)

Inductive nop :=
| NDeliver (a : Ambient) (tx : Tx)    (* executed and committed: part of the chain history *)
| NSimulate (a : Ambient) (tx : Tx)   (* executed on a branch of the state that is dropped *)
| NRestart.                           (* the process is replaced by a new one reading the store *)

Definition nstep (s : State) (o : nop) : State * list Result :=
  match o with
  | NDeliver a tx => let '(s1, r) := step_amb a s tx in (s1, [r])
  | NSimulate a tx =>
      (* the store writes are dropped with the branch; what the step left in process memory stays *)
      let '(s1, _) := step_amb a s tx in ({| st_cache := st_cache s1; st_kv := st_kv s |}, [])
  | NRestart => ({| st_cache := cache0; st_kv := st_kv s |}, [])   (* newMsgAssigner: blockHeight -1 *)
  end.

Fixpoint nrun (h : list nop) (s : State) : State * list Result :=
  match h with
  | [] => (s, [])
  | o :: r =>
    let '(s1, rs1) := nstep s o in
    let '(s2, rs2) := nrun r s1 in
    (s2, rs1 ++ rs2)
  end.

(** The chain history contained in a node's life. *)
Fixpoint delivered (h : list nop) : list (Ambient * Tx) :=
  match h with
  | [] => []
  | NDeliver a tx :: r => (a, tx) :: delivered r
  | _ :: r => delivered r
  end.

Definition nop_ok (o : nop) : Prop :=
  match o with
  | NDeliver a tx | NSimulate a tx => amb_ok a /\ tx_wf tx
  | NRestart => True
  end.

(** * 2. Counter-model: a write-through cache of store records behind a pointer *)

Fixpoint lookup (k : Z) (l : list (Z * Z)) : option Z :=
  match l with
  | [] => None
  | (k', v) :: r => if k =? k' then Some v else lookup k r
  end.

Record cnode := { c_store : list (Z * Z); c_mem : list (Z * Z) }.

Inductive cop := CWrite (k v : Z) | CRead (k : Z).

(** GetChainInfo serving from the cache, filling it on a miss; updateChainInfo writing through. *)
Definition cstep (n : cnode) (o : cop) : cnode * option Z :=
  match o with
  | CWrite k v => ({| c_store := kv_set k v (c_store n); c_mem := kv_set k v (c_mem n) |}, None)
  | CRead k =>
    match lookup k (c_mem n) with
    | Some v => (n, Some v)
    | None =>
      match lookup k (c_store n) with
      | Some v => ({| c_store := c_store n; c_mem := kv_set k v (c_mem n) |}, Some v)
      | None => (n, None)
      end
    end
  end.

Inductive cnop := CDeliver (o : cop) | CSimulate (o : cop) | CRestart.

Definition cnstep (n : cnode) (o : cnop) : cnode * list (option Z) :=
  match o with
  | CDeliver o => let '(n1, r) := cstep n o in (n1, [r])
  | CSimulate o => let '(n1, _) := cstep n o in ({| c_store := c_store n; c_mem := c_mem n1 |}, [])
  | CRestart => ({| c_store := c_store n; c_mem := [] |}, [])
  end.

Fixpoint cnrun (h : list cnop) (n : cnode) : cnode * list (option Z) :=
  match h with
  | [] => (n, [])
  | o :: r =>
    let '(n1, rs1) := cnstep n o in
    let '(n2, rs2) := cnrun r n1 in
    (n2, rs1 ++ rs2)
  end.

Definition cdelivered (h : list cnop) : list cnop :=
  filter (fun o => match o with CDeliver _ => true | _ => false end) h.

(** * 3. The jailing loop of the prune job *)

(** (validator, consensus power, jailed).  All validators of the modelled situations are bonded. *)
Definition jv := (Z * Z * bool)%type.
Definition jv_id (v : jv) : Z := fst (fst v).
Definition jv_power (v : jv) : Z := snd (fst v).
Definition jv_jailed (v : jv) : bool := snd v.

(** valset.Jail: totalConsensusPower and count over the bonded, unjailed validators. *)
Definition active_total (st : list jv) : Z :=
  fold_right (fun v acc => if jv_jailed v then acc else jv_power v + acc) 0 st.
Definition active_count (st : list jv) : Z :=
  Z.of_nat (List.length (filter (fun v => negb (jv_jailed v)) st)).

Fixpoint find_val (id : Z) (st : list jv) : option jv :=
  match st with
  | [] => None
  | v :: r => if jv_id v =? id then Some v else find_val id r
  end.

Definition set_jailed (id : Z) (st : list jv) : list jv :=
  map (fun v => if jv_id v =? id then (jv_id v, jv_power v, true) else v) st.

(** valset.Jail(v): error (state unchanged) when the validator is unknown, already jailed, the
    last active one, or holds more than cJailingNetworkShareProtection = 25 % of the active stake
    (float64(p)/float64(total) > 0.25, which is 4p > total for powers below 2^50). *)
Definition jail_one (st : list jv) (id : Z) : list jv :=
  match find_val id st with
  | None => st
  | Some v =>
    if jv_jailed v then st
    else if active_count st =? 1 then st
    else if 4 * jv_power v >? active_total st then st
    else set_jailed id st
  end.

(** jailValidatorsWhichMissedAttestation: one Jail per validator without evidence, in the order
    the loop visits them; errors are logged and the loop goes on. *)
Definition jail_round (st : list jv) (missing : list Z) : list jv := fold_left jail_one missing st.

(** PruneOldMessages: one round per stale contentious message, in queue order. *)
Definition jail_rounds (st : list jv) (rounds : list (list Z)) : list jv := fold_left jail_round rounds st.

Definition jailed_ids (st : list jv) : list Z := map jv_id (filter jv_jailed st).
