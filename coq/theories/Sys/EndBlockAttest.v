(** C09 (second round) — the attestation and pruning steps of the x/consensus end-blocker.
    Definitions only (proofs: EndBlockAttestProofs.v).

    Modelled code:
      x/consensus/keeper/attest.go           CheckAndProcessAttestedMessages          -> [attest_loop]
      x/evm/keeper/attest.go                 attestMessageWrapper (cache context, flush rule,
                                             deferred Remove), routerAttester          -> [attest_one]
      util/libcons/consensus.go              VerifyEvidence, consensusPower            -> [verify_evidence]
      x/evm/keeper/attest_submit_logic_call.go, attest_validator_balances.go,
      attest_reference_block.go, x/evm/types/eth_txable.go (VerifyAgainstTX: the m.Fees
      dereference)                                                                     -> [attester]
      x/consensus/keeper/msg_server_add_evidence.go, concensus_keeper.go AddMessageEvidence,
      Queue.AddEvidence / SetPublicAccessData / SetErrorData                           -> [aaccept] / [aapply]
      x/consensus/keeper/cleanup.go PruneOldMessages, concensus_keeper.go PruneJob,
      jailValidatorsIfNecessary, jailValidatorsWhichMissedAttestation (the zero-value
      math.Int TotalVotes)                                                             -> [prune]
      x/consensus/module.go EndBlock (attestation every block, pruning every 50)       -> [aend_block]

    Every Go primitive on that path that is partial on a value a validator controls is an explicit
    [APanic]: a method call on the nil [Hashable] an absent proof unpacks to, the [m.Fees]
    dereference, [winner.Balances[i]], a method call on the zero-value [math.Int], dereferencing a
    nil snapshot.  Which of the guards exist is a parameter ([variant]); [current] reads them from
    the translated source facts (Gen/C09.v), so the model always is the code of the tree that is
    checked; [fixed] has all of them, [pinned] is /repo before the second-round `fix:` commits.

    Abstractions: validators, message ids, transactions are numbers.  A proof is absent, undecodable
    (type URL not registered as evidence, or BytesToHash fails), or [PGood kind content aux]:
      kind 0 = TxExecutedProof        content = 2*tx + (1 if the receipt says success), aux = 1 iff the
                                      transaction matches the message (VerifyAgainstTX succeeds; C07's subject)
      kind 1 = SmartContractExecutionErrorProof
      kind 2 = ValidatorBalancesAttestationRes   aux = number of balances it carries
      kind 3 = ReferenceBlockAttestationRes      content = the block height it names
    Evidence is grouped by (kind, content) — in the code by type URL and sha256 of the bytes to hash;
    no theorem depends on the grouping being injective. *)
From Coq Require Import List ZArith Bool Lia.
From Paloma Require Import Gen.C09.
Import ListNotations.
Open Scope Z_scope.

Inductive asite :=
| SNilHashable      (* hashable.BytesToHash() on the nil interface an absent proof leaves behind *)
| SNilFees          (* m.Fees.RelayerFee on a message whose fees were never set *)
| SBalancesIndex    (* winner.Balances[i] beyond the attested slice *)
| SNilInt           (* method call on the zero-value math.Int (nil big.Int) *)
| SNoSnapshot.      (* snapshot.TotalShares on the nil snapshot GetCurrentSnapshot returns when there is none *)

Inductive aresult (A : Type) :=
| AOk (a : A)
| APanic (p : asite).
Arguments AOk {A} a.
Arguments APanic {A} p.

Inductive proof :=
| PAbsent
| PUndecodable
| PGood (kind content aux : Z).

(** what a queued message asks for *)
Inductive akind :=
| KLogicCall            (* turnstone queue: SubmitLogicCall (fee payer) *)
| KBalances (n : Z)     (* validator balances request for n addresses *)
| KRefBlock.            (* reference block request *)

Record amsg := {
  a_id : Z;
  a_rank : Z;                    (* position of its queue in the registry order (chain, queue type) *)
  a_kind : akind;
  a_added : Z;                   (* block height at which it was queued *)
  a_pad : bool;                  (* public access data set *)
  a_err : bool;                  (* error data set *)
  a_fees : bool;                 (* fees set (gas estimate elected) *)
  a_evidence : list (Z * proof)  (* (validator, proof), one entry per validator *)
}.

(** what attestation remembers besides the queues: the processed-transaction set and, per chain
    (queue rank / 4), the reference block height (UpdateChainReferenceBlock only moves it upwards) *)
Definition amem := (list Z * list (Z * Z))%type.

Record astate := {
  as_snap : option (list (Z * Z));   (* current snapshot (validator, shares) *)
  as_queue : list amsg;              (* all queues, in the order the end-blocker walks them: (rank, id) *)
  as_processed : amem;               (* transactions marked as already processed; reference block height per chain *)
  as_jail_calls : list Z             (* validators valset.Jail was called for (it may refuse) *)
}.

Definition ainit : astate := {| as_snap := None; as_queue := []; as_processed := ([], []); as_jail_calls := [] |}.

Record variant := {
  v_validate : bool;        (* AddMessageEvidence refuses absent / undecodable proofs *)
  v_guard_absent : bool;    (* VerifyEvidence returns an error for an absent proof *)
  v_continue : bool;        (* the attestation loop logs an error and goes on *)
  v_guard_fees : bool;      (* VerifyAgainstTX checks m.Fees *)
  v_guard_arity : bool;     (* the balances attester checks the number of balances *)
  v_votes_struct_cmp : bool (* pruning compares TotalVotes with the zero value before calling a method on it *)
}.

Definition fixed : variant :=
  {| v_validate := true; v_guard_absent := true; v_continue := true; v_guard_fees := true; v_guard_arity := true;
     v_votes_struct_cmp := true |}.
Definition pinned : variant :=
  {| v_validate := false; v_guard_absent := false; v_continue := false; v_guard_fees := false; v_guard_arity := false;
     v_votes_struct_cmp := true |}.
(** /repo between the two cherry-picks of the second round: evidence checks and the loop are in,
    the m.Fees and balances-length guards are not yet *)
Definition merged3 : variant :=
  {| v_validate := true; v_guard_absent := true; v_continue := true; v_guard_fees := false; v_guard_arity := false;
     v_votes_struct_cmp := true |}.
Definition current : variant :=
  {| v_validate := Gen.C09.add_evidence_validates_proof;
     v_guard_absent := Gen.C09.verify_evidence_guards_absent_proof;
     v_continue := Gen.C09.attest_loop_continues_on_error;
     v_guard_fees := Gen.C09.verify_tx_guards_nil_fees;
     v_guard_arity := Gen.C09.balances_attester_checks_length;
     v_votes_struct_cmp := Gen.C09.prune_votes_zero_value_compare |}.

Fixpoint alookup (k : Z) (l : list (Z * Z)) : option Z :=
  match l with
  | [] => None
  | (k', v) :: r => if k =? k' then Some v else alookup k r
  end.

Definition asum (l : list Z) : Z := fold_right Z.add 0 l.
Definition total_shares (snap : list (Z * Z)) : Z := asum (map snd snap).

(** consensusPower: the running sum stays the zero value (None) until a snapshot validator is added *)
Fixpoint votes_of (snap : list (Z * Z)) (vals : list Z) : option Z :=
  match vals with
  | [] => None
  | v :: r =>
    match alookup v snap, votes_of snap r with
    | Some p, Some x => Some (p + x)
    | Some p, None => Some p
    | None, o => o
    end
  end.

Definition has_consensus (votes : option Z) (total : Z) : bool :=
  match votes with
  | None => false
  | Some x => 3 * x >=? 2 * total
  end.

(** ** VerifyEvidence *)
Inductive vresult :=
| VWinner (kind content aux : Z)
| VNotAchieved (votes : option Z) (total : Z)     (* (result, ErrConsensusNotAchieved) *)
| VError.                                          (* (nil, err) *)

(** the grouping loop: first proof that cannot be used decides *)
Fixpoint first_unusable (ev : list (Z * proof)) : option proof :=
  match ev with
  | [] => None
  | (_, PGood _ _ _) :: r => first_unusable r
  | (_, p) :: _ => Some p
  end.

Definition same_group (k c : Z) (e : Z * proof) : bool :=
  match snd e with PGood k' c' _ => (k =? k') && (c =? c') | _ => false end.

(** a group with 2/3 of the shares; at most one exists when the total is positive, the code takes
    whichever Go's map iteration yields first *)
Fixpoint find_winner (snap : list (Z * Z)) (all ev : list (Z * proof)) : option (Z * Z * Z) :=
  match ev with
  | [] => None
  | (_, PGood k c x) :: r =>
    if has_consensus (votes_of snap (map fst (filter (same_group k c) all))) (total_shares snap)
    then Some (k, c, x) else find_winner snap all r
  | _ :: r => find_winner snap all r
  end.

Definition verify_evidence (v : variant) (snap : option (list (Z * Z))) (ev : list (Z * proof)) : aresult vresult :=
  match snap with
  | None => APanic SNoSnapshot
  | Some sn =>
    let votes := votes_of sn (map fst ev) in
    if negb (has_consensus votes (total_shares sn)) then AOk (VNotAchieved votes (total_shares sn))
    else match first_unusable ev with
         | Some PAbsent => if v_guard_absent v then AOk VError else APanic SNilHashable
         | Some _ => AOk VError
         | None =>
           match find_winner sn ev ev with
           | Some (k, c, x) => AOk (VWinner k c x)
           | None => AOk (VNotAchieved votes (total_shares sn))
           end
         end
  end.

(** ** The attesters, inside the wrapper's cache context *)
Inductive aout :=
| ODone                 (* nil: flushed, message removed *)
| OFlushErr             (* ErrEthTxNotVerified / ErrEthTxFailed: flushed, message removed, error returned *)
| OKeepErr.             (* any other error: nothing written, message stays, error returned *)

Definition tx_of (content : Z) : Z := content / 2.
Definition receipt_ok (content : Z) : bool := Z.odd content.

Definition chain_of (m : amsg) : Z := a_rank m / 4.
Definition ref_height (chain : Z) (mem : amem) : Z := match alookup chain (snd mem) with Some h => h | None => 0 end.

Definition attester (v : variant) (processed : amem) (m : amsg) (k c x : Z) : aresult aout :=
  match a_kind m with
  | KLogicCall =>
    if k =? 0 then
      if x =? 2 then AOk OKeepErr                                                (* routerAttester: the receipt cannot be read *)
      else if negb (receipt_ok c) then AOk OFlushErr                             (* routerAttester: ErrEthTxFailed *)
      else if existsb (Z.eqb (tx_of c)) (fst processed) then AOk OKeepErr        (* "transaction is already processed" *)
      else if negb (a_fees m) then (if v_guard_fees v then AOk OFlushErr else APanic SNilFees)
      else if x =? 1 then AOk ODone else AOk OFlushErr                           (* VerifyAgainstTX *)
    else if k =? 1 then AOk ODone                                                (* attemptRetry never fails *)
    else AOk OKeepErr                                                            (* "unknown type when attesting" *)
  | KBalances n =>
    if k =? 2 then
      if x =? n then AOk ODone
      else if v_guard_arity v then AOk OKeepErr
      else if x <? n then APanic SBalancesIndex else AOk ODone
    else AOk OKeepErr
  | KRefBlock =>
    if k =? 3 then (if ref_height (chain_of m) processed <? c then AOk ODone else AOk OKeepErr)  (* ErrInvalidReferenceBlockHeight *)
    else AOk OKeepErr
  end.

(** what one loop iteration does to the message and the processed set; [true] = an error was returned *)
Inductive fate := FStay | FRemoved.

Definition attest_one (v : variant) (snap : option (list (Z * Z))) (processed : amem) (m : amsg)
  : aresult (fate * amem * bool) :=
  match a_evidence m with
  | [] => AOk (FStay, processed, false)
  | ev =>
    match verify_evidence v snap ev with
    | APanic p => APanic p
    | AOk (VNotAchieved _ _) => AOk (FStay, processed, false)
    | AOk VError => AOk (FStay, processed, true)
    | AOk (VWinner k c x) =>
      match attester v processed m k c x with
      | APanic p => APanic p
      | AOk OKeepErr => AOk (FStay, processed, true)
      | AOk o =>
        (* flushed: the message is removed; a transaction proof on the turnstone queue is marked processed *)
        let processed' := match a_kind m with
                          | KLogicCall => if k =? 0 then (tx_of c :: fst processed, snd processed) else processed
                          | KRefBlock => (fst processed, (chain_of m, c) :: snd processed)
                          | _ => processed
                          end in
        AOk (FRemoved, processed', match o with ODone => false | _ => true end)
      end
    end
  end.

(** CheckAndProcessAttestedMessages over the messages fetched from all queues.  Returns the
    messages that stay, the processed set and whether the loop ran to its end. *)
Fixpoint attest_loop (v : variant) (snap : option (list (Z * Z))) (processed : amem) (ms : list amsg)
  : aresult (list amsg * amem * bool) :=
  match ms with
  | [] => AOk ([], processed, true)
  | m :: r =>
    match attest_one v snap processed m with
    | APanic p => APanic p
    | AOk (f, processed', failed) =>
      let keep := match f with FStay => [m] | FRemoved => [] end in
      if failed && negb (v_continue v) then AOk (keep ++ r, processed', false)
      else match attest_loop v snap processed' r with
           | APanic p => APanic p
           | AOk (r', p', fin) => AOk (keep ++ r', p', fin)
           end
    end
  end.

(** ** Pruning *)
Definition prune_age : Z := 300.
Definition prune_period : Z := Gen.C09.consensus_prune_period.

(** jailValidatorsIfNecessary: the validators Jail is called for *)
Definition jail_for (v : variant) (snap : option (list (Z * Z))) (m : amsg) : aresult (list Z) :=
  if negb (a_pad m) && negb (a_err m) then AOk []          (* punishValidatorForMissingRelay: metrics only *)
  else match verify_evidence v snap (a_evidence m) with
       | APanic p => APanic p
       | AOk (VWinner _ _ _) => AOk []                     (* "unexpected message with valid consensus" *)
       | AOk VError => AOk []                              (* r == nil *)
       | AOk (VNotAchieved votes total) =>
         match votes with
         | None => if v_votes_struct_cmp v then AOk [] else APanic SNilInt
         | Some x =>
           if 10 * x <? total then AOk []                  (* likely faulty response data *)
           else match snap with
                | None => AOk []
                | Some sn =>
                  if (match sn with [] => true | _ => false end) || (total_shares sn =? 0) then AOk []
                  else AOk (filter (fun val => negb (existsb (Z.eqb val) (map fst (a_evidence m)))) (map fst sn))
                end
         end
       end.

Definition is_old (height : Z) (m : amsg) : bool := prune_age <? height - a_added m.

Fixpoint prune (v : variant) (snap : option (list (Z * Z))) (height : Z) (ms : list amsg) : aresult (list amsg * list Z) :=
  match ms with
  | [] => AOk ([], [])
  | m :: r =>
    if is_old height m then
      match jail_for v snap m with
      | APanic p => APanic p
      | AOk j => match prune v snap height r with
                 | APanic p => APanic p
                 | AOk (r', j') => AOk (r', j ++ j')
                 end
      end
    else match prune v snap height r with
         | APanic p => APanic p
         | AOk (r', j') => AOk (m :: r', j')
         end
  end.

(** ** The two steps of the end-blocker *)
Definition aend_block (v : variant) (height : Z) (s : astate) : aresult astate :=
  match attest_loop v (as_snap s) (as_processed s) (as_queue s) with
  | APanic p => APanic p
  | AOk (q, proc, _) =>
    if height mod prune_period =? 0 then
      match prune v (as_snap s) height q with
      | APanic p => APanic p
      | AOk (q', j) => AOk {| as_snap := as_snap s; as_queue := q'; as_processed := proc; as_jail_calls := as_jail_calls s ++ j |}
      end
    else AOk {| as_snap := as_snap s; as_queue := q; as_processed := proc; as_jail_calls := as_jail_calls s |}
  end.

(** ** Operations between end-blocks *)
Inductive aop :=
| ASnapshot (snap : list (Z * Z))
| APut (id rank : Z) (kind : akind) (height : Z) (pad : bool)
| AElect (id : Z)                               (* the estimate step set the message's fees *)
| AEvidence (val id : Z) (p : proof)
| APublicData (id : Z)
| AErrorData (id : Z)
| AEndBlock (height : Z).

Definition has_msg (id : Z) (s : astate) : bool := existsb (fun m => a_id m =? id) (as_queue s).

Definition usable (p : proof) : bool := match p with PGood _ _ _ => true | _ => false end.

(** [val < 0] stands for a sender CanAcceptValidator refuses *)
Definition aaccept (v : variant) (o : aop) (s : astate) : bool :=
  match o with
  | ASnapshot _ => true
  | APut id _ _ _ _ => negb (has_msg id s) && (match as_snap s with Some _ => true | None => false end)
  | AElect id => has_msg id s
  | AEvidence val id p => (0 <=? val) && has_msg id s && (negb (v_validate v) || usable p)
  | APublicData id | AErrorData id => has_msg id s
  | AEndBlock _ => true
  end.

Definition before (m m' : amsg) : bool :=
  (a_rank m <? a_rank m') || ((a_rank m =? a_rank m') && (a_id m <? a_id m')).

Fixpoint insert_msg (m : amsg) (l : list amsg) : list amsg :=
  match l with
  | [] => [m]
  | x :: r => if before m x then m :: l else x :: insert_msg m r
  end.

Definition upd (id : Z) (f : amsg -> amsg) (s : astate) : astate :=
  {| as_snap := as_snap s; as_queue := map (fun m => if a_id m =? id then f m else m) (as_queue s);
     as_processed := as_processed s; as_jail_calls := as_jail_calls s |}.

Fixpoint set_evidence (val : Z) (p : proof) (l : list (Z * proof)) : list (Z * proof) :=
  match l with
  | [] => [(val, p)]
  | (v', p') :: r => if val =? v' then (v', p) :: r else (v', p') :: set_evidence val p r
  end.

Definition with_ev (m : amsg) (ev : list (Z * proof)) : amsg :=
  {| a_id := a_id m; a_rank := a_rank m; a_kind := a_kind m; a_added := a_added m; a_pad := a_pad m; a_err := a_err m;
     a_fees := a_fees m; a_evidence := ev |}.
Definition with_flags (m : amsg) (pad err fees : bool) : amsg :=
  {| a_id := a_id m; a_rank := a_rank m; a_kind := a_kind m; a_added := a_added m; a_pad := pad; a_err := err;
     a_fees := fees; a_evidence := a_evidence m |}.

Definition aapply (o : aop) (s : astate) : astate :=
  match o with
  | ASnapshot snap => {| as_snap := Some snap; as_queue := as_queue s; as_processed := as_processed s; as_jail_calls := as_jail_calls s |}
  | APut id rank kind height pad =>
    {| as_snap := as_snap s;
       as_queue := insert_msg {| a_id := id; a_rank := rank; a_kind := kind; a_added := height; a_pad := pad; a_err := false;
                                 a_fees := false; a_evidence := [] |} (as_queue s);
       as_processed := as_processed s; as_jail_calls := as_jail_calls s |}
  | AElect id => upd id (fun m => with_flags m (a_pad m) (a_err m) true) s
  | AEvidence val id p => upd id (fun m => with_ev m (set_evidence val p (a_evidence m))) s
  | APublicData id => upd id (fun m => if a_pad m then m else with_flags m true (a_err m) (a_fees m)) s
  | AErrorData id => upd id (fun m => if a_pad m || a_err m then m else with_flags m (a_pad m) true (a_fees m)) s
  | AEndBlock _ => s
  end.

Definition astep (v : variant) (s : astate) (o : aop) : aresult astate :=
  match o with
  | AEndBlock h => aend_block v h s
  | _ => if aaccept v o s then AOk (aapply o s) else AOk s
  end.

Fixpoint arun (v : variant) (ops : list aop) (s : astate) : aresult astate :=
  match ops with
  | [] => AOk s
  | o :: r => match astep v s o with
              | AOk s' => arun v r s'
              | APanic p => APanic p
              end
  end.

Definition queue_ids (s : astate) : list Z := map a_id (as_queue s).
