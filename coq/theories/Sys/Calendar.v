(** C08, round 3 — calendar arithmetic on the block time, with the time zone as an explicit input.

    Go's [time.Time.AddDate(0, months, 0)] decomposes the instant into year / month / day / time of
    day IN THE LOCATION OF THE VALUE, adds to the month, and recomposes with [time.Date] (which
    normalises a month outside 1..12 and a day beyond the end of the month by plain day counting, then
    looks the zone offset up again).  The location of a value is not part of the instant: it is set by
    the constructor.  [sdk.Context.BlockTime()] is in UTC on every node (WithBlockTime / WithBlockHeader /
    WithHeaderInfo all store [t.UTC()]); [time.Unix], [time.UnixMilli], [time.Date(..., time.Local)],
    [time.Parse] of a text with an offset that the local zone uses, [t.Local()] and [t.In(time.Local)]
    yield values in the zone of the PROCESS (TZ, /etc/localtime) — ambient.

    The model: proleptic Gregorian day counting (days since 1970-01-01), a zone as a function
    [off : Z -> Z] from a UTC instant (seconds) to the offset east of Greenwich in seconds, and
    [add_months off t m] = the instant [t.In(zone).AddDate(0, m, 0)].

    x/paloma CreateLightNodeClientAccount (tx handler of MsgRegisterLightNodeClient):
        beginTime := sdkCtx.BlockTime();  endTime := beginTime.AddDate(0, int(license.VestingMonths), 0)
    is [vest_end t m = add_months utc t m]: no ambient input.  [Ambient.vest_end_local a] is the handler with the
    block time re-made by [time.Unix] (seeded change C08-C), which takes the zone from the ambient.
    Definitions only; proofs in Sys/CalendarProofs.v. *)
From Coq Require Import List ZArith Bool.
Import ListNotations.
Open Scope Z_scope.

(** Days since 1970-01-01 of year [y], month [m] (1..12), day [d].  Linear in [d]: a day beyond the end
    of the month runs into the next one, exactly as [time.Date] normalises it. *)
Definition days_from_civil (y m d : Z) : Z :=
  let y' := if m <=? 2 then y - 1 else y in
  let era := y' / 400 in
  let yoe := y' - era * 400 in
  let mp := (m + 9) mod 12 in
  let doy := (153 * mp + 2) / 5 + d - 1 in
  let doe := yoe * 365 + yoe / 4 - yoe / 100 + doy in
  era * 146097 + doe - 719468.

Definition civil_from_days (z0 : Z) : Z * Z * Z :=
  let z := z0 + 719468 in
  let era := z / 146097 in
  let doe := z - era * 146097 in
  let yoe := (doe - doe / 1460 + doe / 36524 - doe / 146096) / 365 in
  let y := yoe + era * 400 in
  let doy := doe - (365 * yoe + yoe / 4 - yoe / 100) in
  let mp := (5 * doy + 2) / 153 in
  let d := doy - (153 * mp + 2) / 5 + 1 in
  let m := if mp <? 10 then mp + 3 else mp - 9 in
  (if m <=? 2 then y + 1 else y, m, d).

(** [time.Date]'s conversion of wall-clock seconds to an instant: look the offset up at the wall
    clock reading taken as an instant, and once more at the result if that falls into another period of
    the zone.  (Go compares against the period's bounds; comparing the offsets is the same whenever two
    adjacent periods of a zone have different offsets.) *)
Definition wall_to_instant (off : Z -> Z) (wall : Z) : Z :=
  let o1 := off wall in
  if o1 =? 0 then wall
  else let utc := wall - o1 in
       if off utc =? o1 then utc else wall - off utc.

Definition add_months (off : Z -> Z) (t months : Z) : Z :=
  let lt := t + off t in
  let '(y, m, d) := civil_from_days (lt / 86400) in
  let mm := m - 1 + months in
  wall_to_instant off (days_from_civil (y + mm / 12) (mm mod 12 + 1) d * 86400 + lt mod 86400).

Definition utc : Z -> Z := fun _ => 0.

(** The handler as it is: start and end of the vesting period, whole seconds ([t]: the block time's
    seconds; its nanoseconds ride along through AddDate and are dropped by [.Unix()]). *)
Definition vest_end (t months : Z) : Z := add_months utc t months.

(** ([vest_end_local a], the handler with the block time re-made in the process's zone [tz a], is in
    Sys/Ambient.v next to [step_amb].) *)

(** Two zones for witnesses: a fixed offset, and one with a daylight-saving period
    [from, to) during which the offset is one hour more. *)
Definition fixed_zone (o : Z) : Z -> Z := fun _ => o.
Definition dst_zone (o from to : Z) : Z -> Z := fun t => if (from <=? t) && (t <? to) then o + 3600 else o.
