(** C08 — everything the state machine could observe that is NOT chain history, made an explicit
    argument of the model.

    Gallina is deterministic, so "the model is deterministic" would say nothing.  What is
    modelled instead: every ambient input that the inventory (Gen/C08.v) finds in x/, util/, app/
    is a field of [Ambient]; the handlers and end-block steps that contain such a site take an
    [Ambient] and the theorems (Sys/AmbientProofs.v, Properties/C08.v) show that what they write
    and return does not depend on it.

      - process environment                 -> [env]         (x/paloma/keeper/msg_server.go AddStatusUpdate)
      - wall clock, GOMAXPROCS, time zone   -> [wallclock], [gomaxprocs], [tz]   (no site reads them; they
                                               are fields so that non-interference quantifies over them;
                                               [vest_end_local] shows what reading [tz] would do)
      - Go map iteration order              -> [ord_*] : an arbitrary function that must return a
                                               permutation of its argument; a second loop over the same map
                                               takes [ord (ord l)], i.e. in general a different order
      - in-memory state kept between calls  -> [st_cache] in [State] (msgAssigner.scores); it is state of
                                               the process, not of the chain, and the theorem
                                               [cache_never_outlives_call] shows it is never read non-trivially.

    The ranking / pick model is C14's (Evm/Assign.v), the evidence model is C04's (Cons/Quorum.v);
    both are tied to the code by their own correspondence runs and by this property's.
    Definitions only. *)
From Coq Require Import List ZArith Bool String Permutation.
From Paloma Require Import Base.Dec Evm.Assign Cons.Quorum Sys.Calendar.
From Paloma Require Gen.C08.
Import ListNotations.
Open Scope Z_scope.

Record Ambient := {
  env : string -> option string;
  wallclock : Z;
  gomaxprocs : Z;
  tz : Z -> Z;                                   (* the process's time zone (TZ, /etc/localtime): offset east of Greenwich
                                                    at an instant, in seconds — what time.Local / time.Unix / t.Local() see *)
  ord_infos : list vinfo -> list vinfo;          (* rankValidators: range validatorsInfos (twice) *)
  ord_groups : list (@group Z) -> list (@group Z); (* VerifyEvidence: range groups *)
  ord_updates : list (Z * Z) -> list (Z * Z);    (* PurgeRelayMetrics: range updates *)
  ord_keys : list Z -> list Z                    (* key-collecting and boolean loops *)
}.

Definition amb_ok (a : Ambient) : Prop :=
  (forall l, Permutation (ord_infos a l) l) /\
  (forall l, Permutation (ord_groups a l) l) /\
  (forall l, Permutation (ord_updates a l) l) /\
  (forall l, Permutation (ord_keys a l) l).

(** * 1. AddStatusUpdate (x/paloma/keeper/msg_server.go), after fix F5: shape VVEGL *)

Definition ff_name : string := "PALOMA_FF_PIGEON_STATUS_UPDATE".

Record status_msg := { sm_creator_ok : bool; sm_level : Z }.
Inductive status_result := StOk | StErrCreator | StErrLevel | StPanic.

(** MsgAddStatusUpdate_Level_name has exactly the keys 0 (DEBUG), 1 (INFO), 2 (ERROR). *)
Definition level_known (l : Z) : bool := (0 <=? l) && (l <=? 2).

Definition add_status_update (a : Ambient) (m : status_msg) : status_result :=
  if negb (sm_creator_ok m) then StErrCreator
  else if negb (level_known (sm_level m)) then StErrLevel
  else match env a ff_name with
       | None => StOk            (* early out: nothing logged *)
       | Some _ => StOk          (* logFn(status, args...) with the level's logger *)
       end.

(** What the node prints (not an observable of the chain): here the environment is really read. *)
Definition add_status_update_log (a : Ambient) (m : status_msg) : list Z :=
  if negb (sm_creator_ok m) then [2]          (* "Failed to parse creator from message", Error *)
  else if negb (level_known (sm_level m)) then []
  else match env a ff_name with None => [] | Some _ => [sm_level m] end.

(** The handler of the pinned tree (shape EGVL, no level validation) — kept only to state what F5 was. *)
Definition add_status_update_pinned (a : Ambient) (m : status_msg) : status_result :=
  match env a ff_name with
  | None => StOk
  | Some _ =>
    if negb (sm_creator_ok m) then StErrCreator
    else if level_known (sm_level m) then StOk else StPanic      (* nil logFn *)
  end.

(** * 2. rankValidators / PickValidatorForMessage with explicit iteration orders and cache *)

(** First loop (infosSlice, the performance window) in order [ord l], second loop (ranked, then
    sorted) in order [ord (ord l)]. *)
Definition rank_amb (a : Ambient) (infos : list vinfo) (w : weights) : list (Z * Z) :=
  let i1 := ord_infos a infos in
  let i2 := ord_infos a i1 in
  sort_scores (map (fun i => (i_addr i, score_of i1 w i)) i2).

(** scoreSnapshot: (scores, blockHeight).  newMsgAssigner: blockHeight = -1. *)
Definition cache := (list (Z * Z) * Z)%type.
Definition cache0 : cache := ([], -1).

(** getSnapshotForRound. None: "no validators eligible for assignment". *)
Definition snapshot_for_round (a : Ambient) (c : cache) (height : Z) (sn : Assign.snapshot)
           (ms : list metric) (fs : list (Z * Z)) (w : weights) : option cache :=
  if height =? snd c then Some c
  else match build_infos sn ms fs with
       | [] => None
       | infos => Some (rank_amb a infos w, height)
       end.

Fixpoint remove_winner (v : Z) (l : list (Z * Z)) : list (Z * Z) :=
  match l with
  | [] => []
  | x :: r => if fst x =? v then r else x :: remove_winner v r
  end.

(** PickValidatorForMessage body on a msgAssigner VALUE: result and the assigner it leaves in its
    own copy. *)
Definition pick_body (a : Ambient) (c : cache) (height : Z) (sn : Assign.snapshot) (ms : list metric)
           (fs : list (Z * Z)) (w : weights) (chain : Z) (req : option bool) (ts : Z) : pick_result * cache :=
  match snapshot_for_round a c height sn ms fs w with
  | None => (PickErr 1, c)
  | Some c1 =>
    let el := filter (job_ok sn chain req) (map fst (fst c1)) in
    match el with
    | [] => (PickErr 2, c1)
    | _ =>
      let idx := Z.rem ts (Z.min (Z.of_nat (List.length el)) pool_size) in
      if idx <? 0 then (PickPanic, c1)
      else match nth_error el (Z.to_nat idx) with
           | None => (PickPanic, c1)
           | Some v =>
             let c2 := (remove_winner v (fst c1), snd c1) in
             match remote_of sn v chain with
             | Some r => (Picked v r, c2)
             | None => (PickErr 3, c2)
             end
           end
    end
  end.

(** * 3. PurgeRelayMetrics: one store write per entry of the [updates] map *)

(** An ordered KV store (IAVL): sorted association list, [kv_set] replaces or inserts in place. *)
Fixpoint kv_set (k v : Z) (s : list (Z * Z)) : list (Z * Z) :=
  match s with
  | [] => [(k, v)]
  | (k', v') :: r =>
    if k <? k' then (k, v) :: s
    else if k =? k' then (k, v) :: r
    else (k', v') :: kv_set k v r
  end.

Definition apply_updates (ups : list (Z * Z)) (s : list (Z * Z)) : list (Z * Z) :=
  fold_left (fun st kv => kv_set (fst kv) (snd kv) st) ups s.

Definition purge_amb (a : Ambient) (ups : list (Z * Z)) (s : list (Z * Z)) : list (Z * Z) :=
  apply_updates (ord_updates a ups) s.

(** * 4. Boolean any-order loops (isNewSnapshotWorthy, CheckBatches) and key-collecting loops that
      sort before use (JailValidatorsWithMissingExternalChainInfos, FromMapKeys, eventbus.Publish,
      GetAttestationMapping, RelayerFees) *)

Definition mem (k : Z) (l : list Z) : bool := existsb (Z.eqb k) l.

(** "some key of this map is missing from that one" *)
Definition any_missing_amb (a : Ambient) (keys present : list Z) : bool :=
  existsb (fun k => negb (mem k present)) (ord_keys a keys).

Fixpoint zinsert (x : Z) (l : list Z) : list Z :=
  match l with
  | [] => [x]
  | y :: r => if x <=? y then x :: y :: r else y :: zinsert x r
  end.
Definition zsort (l : list Z) : list Z := fold_right zinsert [] l.

(** keys collected in iteration order, filtered, then sorted: what the rest of the function sees *)
Definition sorted_missing_amb (a : Ambient) (keys present : list Z) : list Z :=
  zsort (filter (fun k => negb (mem k present)) (ord_keys a keys)).

(** building a set from the keys of a map (ModuleAccountAddrs, BlockedAddresses): membership *)
Definition set_member_amb (a : Ambient) (keys : list Z) (x : Z) : bool := mem x (ord_keys a keys).

(** * 5. One step of the modelled part of the state machine *)

Record State := { st_cache : cache; st_kv : list (Z * Z) }.

Inductive Tx :=
| TxStatus (m : status_msg)
| TxPick (height : Z) (sn : Assign.snapshot) (ms : list metric) (fs : list (Z * Z)) (w : weights)
         (chain : Z) (req : option bool) (ts : Z)
| TxPurge (ups : list (Z * Z))
| TxWorthy (keys present : list Z)
| TxJail (keys present : list Z)
| TxEvidence (gk : Z -> Z -> Z) (sn : Quorum.snapshot) (evs : list evidence)
| TxVest (t months : Z).   (* MsgRegisterLightNodeClient at block time t (seconds), licence with [months] vesting months *)

Inductive Result :=
| RStatus (r : status_result)
| RPick (r : pick_result)
| RUnit
| RBool (b : bool)
| RKeys (l : list Z)
| REvidence (o : outcome)
| RVest (start stop : Z).  (* the vesting account written to the auth store *)

(** CreateLightNodeClientAccount with the block time re-made in the process's zone (time.Unix): the
    shape of seeded change C08-C, kept only to state that the zone would be an input ([Sys/CalendarProofs.v]). *)
Definition vest_end_local (a : Ambient) (t months : Z) : Z := add_months (tz a) t months.

Definition step_amb (a : Ambient) (s : State) (tx : Tx) : State * Result :=
  match tx with
  | TxStatus m => (s, RStatus (add_status_update a m))
  | TxPick h sn ms fs w chain req ts =>
      (* value receiver: the assigner the body updates is a copy; the keeper's is untouched *)
      (s, RPick (fst (pick_body a (st_cache s) h sn ms fs w chain req ts)))
  | TxPurge ups => ({| st_cache := st_cache s; st_kv := purge_amb a ups (st_kv s) |}, RUnit)
  | TxWorthy keys present => (s, RBool (any_missing_amb a keys present))
  | TxJail keys present => (s, RKeys (sorted_missing_amb a keys present))
  | TxEvidence gk sn evs => (s, REvidence (verify_evidence Z.eqb gk (ord_groups a) sn evs))
  | TxVest t months => (s, RVest t (vest_end t months))   (* the block time is in UTC on every node: [tz a] is not read *)
  end.

(** Side conditions under which a transaction is meaningful: a Go map has distinct keys; the
    evidence theorem of C04 needs a sane snapshot and one piece of evidence per validator. *)
Definition tx_wf (tx : Tx) : Prop :=
  match tx with
  | TxPurge ups => NoDup (map fst ups)
  | TxEvidence _ sn evs =>
      (0 < sn_total sn /\ sn_total sn = Base.Num.zsum (map snd (sn_vals sn)) /\ Forall (fun p => 0 <= snd p) (sn_vals sn))
      /\ NoDup (map ev_val evs)
  | _ => True
  end.

(** A history: every step may run under a different ambient (another node, another process,
    after a restart, with other queries in between). *)
Fixpoint run_amb (h : list (Ambient * Tx)) (s : State) : State * list Result :=
  match h with
  | [] => (s, [])
  | (a, tx) :: r =>
    let '(s1, res) := step_amb a s tx in
    let '(s2, rs) := run_amb r s1 in
    (s2, res :: rs)
  end.

(** * 6. The inventory is closed: every site is classified *)

Definition prefix_of (p s : string) : bool := String.prefix p s.

(** Names of the theorems of Properties/C08.v a table entry may point to. *)
Definition covering_names : list string :=
  ["ambient_noninterference_partial"; "rank_perm_invariant"; "pick_perm_invariant"; "verify_evidence_perm_invariant";
   "purge_perm_invariant"; "any_order_bool_perm_invariant"; "sorted_collect_perm_invariant";
   "set_build_perm_invariant"; "node_local_activity_invisible_partial"; "vesting_calendar_in_utc"]%string.

(** The syntactic rules of the translator and the theorem that justifies each ("" = justified by
    syntax alone: a decoded protobuf message is a per-transaction value, not keeper memory).  An
    auto rule the model does not know is NOT accepted. *)
Definition auto_rules : list (string * string) :=
  [("collect-then-sort", "sorted_collect_perm_invariant");   (* keys appended, then sorted by a total order *)
   ("map-insert-only", "set_build_perm_invariant");          (* body only inserts into / deletes from a map *)
   ("proto-message-receiver", "");
   (* round 3: time values.  A time.Unix / time.Date(.., loc) / time.Parse / t.In(loc) result consumed only by
      operations on the instant (Unix, UnixNano, Sub, Before, After, Equal, Compare, UTC ...): the zone it carries is
      never looked at.  A calendar method (AddDate, Format, Year ...) or a rendering through an interface parameter
      whose receiver is in UTC by construction (x.UTC(), sdk.Context.BlockTime(), or a local variable only ever
      assigned such values): [add_months utc], no ambient input. *)
   ("instant-only", "");
   ("utc-receiver", "vesting_calendar_in_utc")]%string.

Definition auto_ok (r : string) : bool :=
  existsb (fun p => String.eqb r (fst p) &&
                    (String.eqb (snd p) "" || existsb (String.eqb (snd p)) covering_names)) auto_rules.

(** Round 7.  A covering theorem may rest on a premise that is established by OTHER code.
    [verify_evidence_perm_invariant] needs one piece of evidence per validator ([NoDup (map ev_val evs)]);
    that is what QueuedSignedMessage.AddEvidence maintains as long as it replaces earlier evidence by the
    validator address ALONE (C04's [add_evidence]; [Sys/CalendarProofs.v] [evidence_one_per_validator_lemma]).
    The translator reads that rule from the source; with any other rule the VerifyEvidence loop is NOT classified. *)
Definition evidence_rule_expected : list string :=
  ["init-if-nil"; "range q.Evidence: if same-validator { q.Evidence[i].Proof = data.Proof; return }";
   "q.Evidence = append(q.Evidence, &data)"]%string.

Fixpoint str_list_eqb (a b : list string) : bool :=
  match a, b with
  | [], [] => true
  | x :: r, y :: r' => String.eqb x y && str_list_eqb r r'
  | _, _ => false
  end.

Definition premise_ok (n : string) : bool :=
  if String.eqb n "verify_evidence_perm_invariant"
  then str_list_eqb Gen.C08.evidence_replace_rule evidence_rule_expected
  else true.

Definition classified (s : Gen.C08.site) : bool :=
  auto_ok (Gen.C08.s_auto s) ||
  prefix_of "benign:" (Gen.C08.s_class s) ||
  existsb (fun n => String.eqb (Gen.C08.s_class s) ("lemma:" ++ n) && premise_ok n) covering_names.
