(** C09 (second round) — proofs over Sys/EndBlockMods.v and the second-round source facts. *)
From Coq Require Import String List ZArith Bool Lia.
From Paloma Require Import Gen.C09 Sys.EndBlockMods Sys.EndBlock.
Import ListNotations.
Open Scope Z_scope.

(** * Skyway: what a recovered panic costs *)
Lemma tally_spec : forall fuel claims cur eff cur' eff' pan,
  tally fuel claims cur eff = (cur', eff', pan) -> cur <= cur' /\ (pan = true -> cur < cur').
Proof.
  induction fuel as [|f IH]; intros claims cur eff cur' eff' pan; simpl.
  - intros [= <- <- <-]. split; [lia | discriminate].
  - destruct (clookup (cur + 1) claims) as [[e| |]|].
    + intros H. apply IH in H. lia.
    + intros H. apply IH in H. lia.
    + intros [= <- <- <-]. split; [lia | intros _; lia].
    + intros [= <- <- <-]. split; [lia | discriminate].
Qed.

Definition csum (l : list Z) : Z := fold_right Z.add 0 l.

Lemma tally_chains_spec : forall cursors claims eff cursors' eff' pan,
  tally_chains cursors claims eff = (cursors', eff', pan) ->
  Forall2 Z.le cursors cursors' /\ (pan = true -> csum cursors < csum cursors').
Proof.
  induction cursors as [|cur rc IH]; intros claims eff cursors' eff' pan; simpl.
  - intros [= <- <- <-]. split; [constructor | discriminate].
  - destruct claims as [|cl rl].
    + intros [= <- <- <-]. split; [|discriminate].
      constructor; [lia|]. clear. induction rc; constructor; [lia | assumption].
    + destruct (tally (length cl) cl cur eff) as [[cur1 eff1] pan1] eqn:T. apply tally_spec in T as [L S].
      destruct pan1.
      * intros [= <- <- <-]. split.
        -- constructor; [exact L|]. clear. induction rc; constructor; [lia | assumption].
        -- intros _. simpl. specialize (S eq_refl). lia.
      * destruct (tally_chains rc rl eff1) as [[rc' eff2] pan2] eqn:R. apply IH in R as [F S2].
        intros [= <- <- <-]. split; [constructor; assumption|].
        intros P. simpl. specialize (S2 P). lia.
Qed.

(** Every run of the end-blocker either completes all its steps, or a handler panicked and then the
    cursor of some chain has moved past the claim that panicked — no cursor ever moves back — so the
    same claim cannot cost a second block. *)
Theorem skyway_recovered_panic_costs_one_block_proof : forall s,
  Forall2 Z.le (k_cursor s) (k_cursor (sky_end_block s)) /\
  (k_swept (sky_end_block s) = k_swept s + 1 \/
   (k_swept (sky_end_block s) = k_swept s /\ csum (k_cursor s) < csum (k_cursor (sky_end_block s)))).
Proof.
  intros s. unfold sky_end_block.
  destruct (tally_chains (k_cursor s) (k_claims s) (k_effects s)) as [[cur eff] pan] eqn:T.
  apply tally_chains_spec in T as [F S]. simpl. split; [exact F|].
  destruct pan; [right; split; [reflexivity | now apply S] | left; reflexivity].
Qed.

(** a panicking or refused claim leaves nothing behind but the moved cursor *)
Lemma tally_effects_from_applied : forall fuel claims cur eff cur' eff' pan,
  (forall n e, clookup n claims = Some (CApplied e) -> 0 <= e) ->
  tally fuel claims cur eff = (cur', eff', pan) -> eff <= eff'.
Proof.
  induction fuel as [|f IH]; intros claims cur eff cur' eff' pan Hpos; simpl; [intros [= _ <- _]; lia|].
  destruct (clookup (cur + 1) claims) as [[e| |]|] eqn:E.
  - intros H. apply IH in H; [|exact Hpos]. specialize (Hpos _ _ E). lia.
  - intros H. now apply IH in H.
  - intros [= _ <- _]. lia.
  - intros [= _ <- _]. lia.
Qed.

Lemma tally_only_hostile_no_effect : forall fuel claims cur eff cur' eff' pan,
  (forall n e, clookup n claims <> Some (CApplied e)) ->
  tally fuel claims cur eff = (cur', eff', pan) -> eff' = eff.
Proof.
  induction fuel as [|f IH]; intros claims cur eff cur' eff' pan Hno; simpl; [now intros [= _ <- _]|].
  destruct (clookup (cur + 1) claims) as [[e| |]|] eqn:E.
  - now elim (Hno _ _ E).
  - intros H. now apply IH in H.
  - now intros [= _ <- _].
  - now intros [= _ <- _].
Qed.

(** non-vacuity / what is left behind: chain 0 holds a good deposit, a claim whose handler panics and
    another good deposit; chain 1 a good deposit.  Block 1: deposit 1 applied, the panic ends the
    end-blocker (cursor 0 = 2, chain 1 and the sweep skipped).  Block 2: everything else. *)
Definition sky_sample : list sop :=
  [SClaim 0 1 (CApplied 5); SClaim 0 2 CPanics; SClaim 0 3 (CApplied 7); SClaim 1 1 (CApplied 11)].

Example skyway_panic_example :
  (let s := sky_run (sky_sample ++ [SEndBlock]) (sky_init 2) in (k_cursor s, k_effects s, k_swept s)) = ([2; 0], 5, 0) /\
  (let s := sky_run (sky_sample ++ [SEndBlock; SEndBlock]) (sky_init 2) in (k_cursor s, k_effects s, k_swept s)) = ([3; 1], 23, 1).
Proof. split; vm_compute; reflexivity. Qed.

(** * Valset: the division in isNewSnapshotWorthy *)
Theorem worthy_powers_total_proof : forall cur new tcur tnew,
  tcur <> 0 -> tnew <> 0 -> exists b, worthy_powers cur new tcur tnew = WOk b.
Proof.
  induction cur as [|c rc IH]; intros new tcur tnew H1 H2; simpl; [eauto|].
  destruct new as [|n rn]; [eauto|]. unfold share_of.
  destruct (tcur =? 0) eqn:E1; [apply Z.eqb_eq in E1; contradiction|].
  destruct (tnew =? 0) eqn:E2; [apply Z.eqb_eq in E2; contradiction|].
  destruct (_ <=? _); [eauto | now apply IH].
Qed.

(** the hypothesis is needed: one validator, no bonded tokens *)
Lemma worthy_zero_total_refuted : worthy_powers [0] [0] 0 0 = WDivByZero /\ worthy_powers [5] [5] 5 0 = WDivByZero.
Proof. split; reflexivity. Qed.

Example worthy_powers_example :
  worthy_powers [10; 20] [10; 20] 30 30 = WOk false /\ worthy_powers [10; 20] [10; 21] 30 31 = WOk true.
Proof. split; vm_compute; reflexivity. Qed.

(** what discharges it: a snapshot sums the bonded tokens of its validators; a bonded validator holds
    at least one unit of consensus power (staking removes the others from the bonded set) *)
Lemma total_positive_of_bonded : forall shares : list Z,
  shares <> [] -> Forall (fun x => 1 <= x) shares -> 0 < csum shares.
Proof.
  intros shares N F. induction F as [|x r Hx F IH]; [now elim N|]. simpl.
  destruct r as [|y r']; [simpl; lia|]. assert (0 < csum (y :: r')) by (apply IH; discriminate). lia.
Qed.

(** * Source facts of the second round, re-derived on every check *)
Definition second_round_facts : bool :=
  (* consensus end-blocker: estimate, attest, prune in this order; pruning every 50 blocks, older than 300 *)
  Gen.C09.consensus_endblock_order_estimate_attest_prune && (Gen.C09.consensus_prune_period =? 50) && (Gen.C09.consensus_prune_age =? 300) &&
  negb Gen.C09.attest_loop_recovers && negb Gen.C09.attest_wrapper_recovers &&
  (* the wrapper: nothing without evidence; flush on nil / not verified / failed; Remove inside the cache context *)
  Gen.C09.attest_wrapper_skips_without_evidence && Gen.C09.attest_wrapper_flush_rule && Gen.C09.attest_wrapper_removes_in_cache &&
  (* libcons: 2/3 of the shares, zero-value running sum is "no consensus" *)
  Gen.C09.consensus_power_two_thirds && Gen.C09.consensus_power_zero_value_is_no_consensus &&
  (* pruning: 10% rule, PruneJob deletes whatever the jailing step said *)
  Gen.C09.prune_faulty_threshold_is_tenth && Gen.C09.prune_job_always_deletes &&
  (* two VerifyAgainstTX implementations read m.Fees *)
  (Gen.C09.verify_tx_fee_readers =? 2) &&
  (* skyway: recover before the first step, no result, the six steps in order, handler in a cache
     context committed on success only, cursor and observed flag written before the handler *)
  Gen.C09.skyway_endblocker_recovers && Gen.C09.skyway_endblocker_has_no_result &&
  (match Gen.C09.skyway_endblocker_steps with
   | [a; b; c; d; e; f] => String.eqb a "createBatch" && String.eqb b "attestationTally" && String.eqb c "pruneAttestations" &&
                           String.eqb d "UpdateValidatorNoncesToLatest" && String.eqb e "processGasEstimates" && String.eqb f "cleanupTimedOutBatches"
   | _ => false
   end)%string &&
  Gen.C09.skyway_handler_in_cache_context && negb Gen.C09.skyway_process_attestation_recovers && Gen.C09.skyway_cursor_advances_before_handler &&
  (* valset: the two divisions by TotalShares are unguarded in the function itself (the guard is the
     staking invariant, checked by the harness oracle C09:snapshot-zero-total) *)
  (Gen.C09.worthy_divisions_by_total_shares =? 2) && negb Gen.C09.worthy_guards_zero_total && Gen.C09.worthy_first_snapshot_short_circuits &&
  (* paloma: the version gate compares major.minor and then the versions with golang.org/x/mod/semver
     (any other comparison is an unknown shape for the translator), returns early without a completed
     upgrade, prefixes the upgrade name with v *)
  (* every recover the classes `recovered` rest on is EFFECTIVE: recover() is called directly by the
     deferred function (a recover() in a helper called from a deferred closure returns nil) *)
  Gen.C09.skyway_endblocker_recover_is_effective && Gen.C09.skyway_module_endblock_recover_is_effective &&
  Gen.C09.deploy_compass_recover_is_effective && Gen.C09.valset_jail_recover_is_effective && Gen.C09.recovered_sites_have_effective_recover &&
  (* the eligibility lookup (GetRelayerFeesByChainReferenceID), the pricing lookup (GetCombinedFeesForRelay)
     and the merge of UpsertRelayerFee identify a chain by the SAME exact string equality — Sys/EndBlock's
     [lookup] for all three; the invariant "assigned => fee entry for the chain" lives on that *)
  Gen.C09.treasury_fee_lookups_compare_chain_exactly && Gen.C09.treasury_upsert_merges_by_exact_chain &&
  (* what the signature verifier checks is what is stored: the submitted bytes go to Ecrecover unchanged
     (65 bytes or refused), BuildCompassConsensus reads byte 64 of the stored signature *)
  Gen.C09.signature_verifier_passes_submitted_bytes && Gen.C09.compass_consensus_reads_byte_64 &&
  (* the one end-blocker whose error reaches the SDK: valset's returns UpdateGracePeriod's error and
     nothing else; UpdateGracePeriod can fail only where an operator address of the staking module
     does not parse or is longer than 255 bytes; reading last block's snapshot (either format) cannot
     fail, the legacy key is dropped by the first block *)
  (match Gen.C09.valset_endblock_error_sources with [a] => String.eqb a "am.keeper.UpdateGracePeriod" | _ => false end)%string &&
  (match Gen.C09.update_grace_period_error_sources with
   | [a; b] => String.eqb a "slice.MapErr" && String.eqb b "encodeUnjailedSnapshot" | _ => false end)%string &&
  Gen.C09.decode_unjailed_snapshot_is_total && Gen.C09.update_grace_period_reads_legacy_by_split && Gen.C09.update_grace_period_drops_legacy_key &&
  (* relay weights are validated (decimals in [0, 10^6]) before SetRelayWeights writes them *)
  Gen.C09.relay_weights_validated_when_set &&
  Gen.C09.version_gate_compares_semver && Gen.C09.version_gate_skips_without_upgrade && Gen.C09.version_gate_adds_v_prefix.

Theorem second_round_facts_hold_proof : second_round_facts = true.
Proof. vm_compute. reflexivity. Qed.

(** * The version gate *)
Lemma bytes_cmp_refl a : bytes_cmp a a = Eq.
Proof. induction a as [|x r IH]; simpl; [reflexivity|]. now rewrite Z.compare_refl. Qed.

Lemma id_cmp_refl a : id_cmp a a = Eq.
Proof. destruct a; simpl; [apply Z.compare_refl | apply bytes_cmp_refl]. Qed.

Lemma pre_cmp_refl a : pre_cmp a a = Eq.
Proof. induction a as [|x r IH]; simpl; [reflexivity|]. now rewrite id_cmp_refl. Qed.

Lemma sem_cmp_refl a : sem_cmp a a = Eq.
Proof. unfold sem_cmp. rewrite !Z.compare_refl. destruct (sv_pre a) eqn:E; [reflexivity|]. rewrite <- E. apply pre_cmp_refl. Qed.

Lemma bytes_cmp_antisym a : forall b, bytes_cmp b a = CompOpp (bytes_cmp a b).
Proof.
  induction a as [|x r IH]; intros [|y s]; simpl; try reflexivity.
  rewrite (Z.compare_antisym x y). destruct (x ?= y); simpl; [apply IH | reflexivity | reflexivity].
Qed.

Lemma id_cmp_antisym a b : id_cmp b a = CompOpp (id_cmp a b).
Proof. destruct a, b; simpl; try reflexivity; [apply Z.compare_antisym | apply bytes_cmp_antisym]. Qed.

Lemma pre_cmp_antisym a : forall b, pre_cmp b a = CompOpp (pre_cmp a b).
Proof.
  induction a as [|x r IH]; intros [|y s]; simpl; try reflexivity.
  rewrite (id_cmp_antisym x y). destruct (id_cmp x y); simpl; [apply IH | reflexivity | reflexivity].
Qed.

Lemma sem_cmp_antisym a b : sem_cmp b a = CompOpp (sem_cmp a b).
Proof.
  unfold sem_cmp. rewrite (Z.compare_antisym (sv_major a) (sv_major b)), (Z.compare_antisym (sv_minor a) (sv_minor b)),
    (Z.compare_antisym (sv_patch a) (sv_patch b)).
  destruct (sv_major a ?= sv_major b); simpl; try reflexivity.
  destruct (sv_minor a ?= sv_minor b); simpl; try reflexivity.
  destruct (sv_patch a ?= sv_patch b); simpl; try reflexivity.
  destruct (sv_pre a) as [|x r] eqn:Ea, (sv_pre b) as [|y s] eqn:Eb; try reflexivity.
  apply (pre_cmp_antisym (x :: r) (y :: s)).
Qed.

(** The gate stops a node exactly when it is off the governed major.minor line or OLDER than the
    completed upgrade in semantic-version order; in particular never a node on the line that runs
    the upgrade's version or a later patch release, however many digits the components have. *)
Theorem version_gate_semver_proof : forall a b,
  gate_open (Some a) (Some (Some b)) = false <->
  (sv_major a <> sv_major b \/ sv_minor a <> sv_minor b \/ sem_cmp a b = Lt).
Proof.
  intros a b. unfold gate_open, same_line.
  destruct (sv_major a =? sv_major b) eqn:E1; simpl.
  - destruct (sv_minor a =? sv_minor b) eqn:E2; simpl.
    + apply Z.eqb_eq in E1, E2. destruct (sem_cmp a b); split; try discriminate; auto; intros [H|[H|H]]; try contradiction; discriminate.
    + apply Z.eqb_neq in E2. split; auto.
  - apply Z.eqb_neq in E1. split; auto.
Qed.

Theorem version_gate_newer_patch_open_proof : forall a b,
  sv_major a = sv_major b -> sv_minor a = sv_minor b -> sv_pre a = [] -> sv_patch b <= sv_patch a ->
  gate_open (Some a) (Some (Some b)) = true.
Proof.
  intros a b HM Hm Hp Hle. destruct (gate_open (Some a) (Some (Some b))) eqn:G; [reflexivity|].
  apply version_gate_semver_proof in G as [G|[G|G]]; try contradiction.
  unfold sem_cmp in G. rewrite HM, Hm, !Z.compare_refl, Hp in G.
  destruct (sv_patch a ?= sv_patch b) eqn:C; try discriminate.
  - destruct (sv_pre b); discriminate.
  - rewrite Z.compare_lt_iff in C. lia.
Qed.

Theorem version_gate_no_upgrade_or_same_proof : forall a, gate_open a None = true /\ gate_open a (Some a) = true.
Proof.
  intros a. split; [reflexivity|]. unfold gate_open. destruct a as [x|]; simpl; [|reflexivity].
  now rewrite !Z.eqb_refl, sem_cmp_refl.
Qed.

(** non-vacuity, and what the seeded string comparison gets wrong: v5.1.10 against the completed
    upgrade v5.1.6 — open; as digit strings "10" sorts before "6" *)
Definition v (M m p : Z) : semver := {| sv_major := M; sv_minor := m; sv_patch := p; sv_pre := [] |}.
Example version_gate_examples :
  gate_open (Some (v 5 1 10)) (Some (Some (v 5 1 6))) = true /\
  gate_open (Some (v 5 1 100)) (Some (Some (v 5 1 6))) = true /\
  gate_open (Some (v 5 1 5)) (Some (Some (v 5 1 6))) = false /\
  gate_open (Some (v 5 10 0)) (Some (Some (v 5 9 0))) = false /\
  gate_open (Some {| sv_major := 5; sv_minor := 1; sv_patch := 6; sv_pre := [PAlpha [114; 99]; PNum 1] |}) (Some (Some (v 5 1 6))) = false /\
  gate_open (Some {| sv_major := 5; sv_minor := 1; sv_patch := 6; sv_pre := [PAlpha [114; 99]; PNum 10] |})
            (Some (Some {| sv_major := 5; sv_minor := 1; sv_patch := 6; sv_pre := [PAlpha [114; 99]; PNum 9] |})) = true /\
  digits_cmp [49; 48] [54] = Lt.
Proof. repeat split; vm_compute; reflexivity. Qed.

(** * One equality for eligibility and pricing
    Sys/EndBlock uses the same [lookup] (exact chain id) for [put_ok] (who may be assigned) and
    [combined_fees] (what the elected estimate is priced with); the translator checks that the two
    treasury functions do.  What happens when eligibility is more lenient than pricing (seeded change
    C09-K: case-insensitive listing): chain ids congruent modulo 1000 stand for spellings of one chain. *)
Definition lenient_eligible (chain v : Z) (s : state) : bool :=
  match lookup v (st_fees s) with
  | Some l => existsb (fun e => fst e mod 1000 =? chain mod 1000) l
  | None => false
  end.

Example lenient_eligibility_refuted :
  let s := {| st_fees := [(0, [(1007, 1100000000000000000)])]; st_cf := Some 10000000000000000; st_sf := Some 10000000000000000;
              st_snapshot := Some [(0, 10)]; st_msgs := []; st_next := 1 |} in
  lenient_eligible 7 0 s = true /\ put_ok 7 0 s = false /\ combined_fees s 0 7 = Panic SNilDec.
Proof. repeat split; vm_compute; reflexivity. Qed.
