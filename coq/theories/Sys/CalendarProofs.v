(** C08, round 3 — what the calendar model (Sys/Calendar.v) says about the vesting period of a
    light-node client, and the law a ranking comparator must obey (rankValidators).  *)
From Coq Require Import List ZArith Bool String Permutation Lia.
From Paloma Require Import Evm.Assign Cons.Quorum Cons.QuorumProofs Sys.Calendar Sys.Ambient Sys.AmbientProofs.
From Paloma Require Gen.C08.
Import ListNotations.
Open Scope Z_scope.

(** * 1. Calendar arithmetic *)

(** Sanity of the day counting (a test by computation over 1997-05-19 .. 2065-10-30, not a general
    proof): decomposing and recomposing a day number gives it back, and months / days are in range. *)
Definition roundtrip_ok (z : Z) : bool :=
  let '(y, m, d) := civil_from_days z in
  (days_from_civil y m d =? z) && (1 <=? m) && (m <=? 12) && (1 <=? d) && (d <=? 31).

Example civil_roundtrip_25000_days :
  snd (Pos.iter (fun st : Z * bool => (fst st + 1, snd st && roundtrip_ok (fst st))) (10000, true) 25000) = true.
Proof. vm_compute. reflexivity. Qed.

Example civil_examples :
  civil_from_days 0 = (1970, 1, 1) /\ civil_from_days 19782 = (2024, 2, 29) /\ civil_from_days (-1) = (1969, 12, 31) /\
  days_from_civil 2024 2 31 = days_from_civil 2024 3 2 /\ days_from_civil 2023 2 31 = days_from_civil 2023 3 3.
Proof. vm_compute. repeat split; reflexivity. Qed.

(** The three corpus registrations of harness/c08 (replayed on the real keeper on every check):
    2024-01-31T20:00Z + 1 month = 2024-03-02T20:00Z (February 31st runs into March);
    2024-01-15T12:00Z + 6 months = 2024-07-15T12:00Z;  2024-02-29T20:00Z + 24 months = 2026-03-01T20:00Z. *)
Example vest_end_examples :
  vest_end 1706731200 1 = 1709409600 /\ vest_end 1705320000 6 = 1721044800 /\ vest_end 1709236800 24 = 1772395200 /\
  vest_end 1706731200 0 = 1706731200.
Proof. vm_compute. repeat split; reflexivity. Qed.

(** In UTC the conversion back from the wall clock is the identity: the end is plain day counting. *)
Lemma vest_end_utc t months :
  vest_end t months =
  let '(y, m, d) := civil_from_days (t / 86400) in
  let mm := m - 1 + months in
  days_from_civil (y + mm / 12) (mm mod 12 + 1) d * 86400 + t mod 86400.
Proof.
  unfold vest_end, add_months, utc, wall_to_instant. rewrite Z.add_0_r.
  destruct (civil_from_days (t / 86400)) as [[y m] d]. reflexivity.
Qed.

(** The handler as it is takes nothing from the ambient. *)
Lemma vest_step_ignores_ambient a a' s t months : step_amb a s (TxVest t months) = step_amb a' s (TxVest t months).
Proof. reflexivity. Qed.

Definition with_tz (a : Ambient) (z : Z -> Z) : Ambient :=
  {| env := env a; wallclock := wallclock a; gomaxprocs := gomaxprocs a; tz := z;
     ord_infos := ord_infos a; ord_groups := ord_groups a; ord_updates := ord_updates a; ord_keys := ord_keys a |}.

Lemma with_tz_ok a z : amb_ok a -> amb_ok (with_tz a z).
Proof. intros H. exact H. Qed.

(** Asia/Tokyo: +9 h, no daylight saving.  America/New_York in 2024: -5 h, daylight saving from
    2024-03-10T07:00Z to 2024-11-03T06:00Z. *)
Definition tokyo : Z -> Z := fixed_zone 32400.
Definition new_york_2024 : Z -> Z := dst_zone (-18000) 1710054000 1730613600.

(** With the block time re-made in the process's zone (time.Unix(ctx.BlockTime().Unix(), 0), seeded
    change C08-C) the zone IS an input: at 2024-01-31T20:00Z it is already February 1st in Tokyo, one
    month later is March 1st 05:00 JST = 2024-02-29T20:00Z, two days before the UTC node's end; in
    New York 07:00 EST + 6 months is 07:00 EDT, one hour before the UTC node's end. *)
Lemma local_zone_month_end_witness :
  vest_end_local (with_tz amb_plain utc) 1706731200 1 = 1709409600 /\
  vest_end_local (with_tz amb_plain tokyo) 1706731200 1 = 1709236800.
Proof. vm_compute. split; reflexivity. Qed.

Lemma local_zone_dst_witness :
  vest_end_local (with_tz amb_plain utc) 1705320000 6 = 1721044800 /\
  vest_end_local (with_tz amb_plain new_york_2024) 1705320000 6 = 1721041200.
Proof. vm_compute. split; reflexivity. Qed.

Lemma local_zone_calendar_refuted_lemma :
  exists a a' t months, amb_ok a /\ amb_ok a' /\ vest_end_local a t months <> vest_end_local a' t months.
Proof.
  exists (with_tz amb_plain utc), (with_tz amb_plain tokyo), 1706731200, 1.
  split; [apply with_tz_ok, amb_plain_ok|]. split; [apply with_tz_ok, amb_plain_ok|].
  destruct local_zone_month_end_witness as (E1 & E2). rewrite E1, E2. discriminate.
Qed.

(** ... while in the zone UTC it is the handler as it is. *)
Lemma vest_end_local_utc a t months : tz a = utc -> vest_end_local a t months = vest_end t months.
Proof. intros E. unfold vest_end_local, vest_end. rewrite E. reflexivity. Qed.

(** In a zone with a fixed offset the local computation is the UTC computation on the shifted instant:
    the zone matters exactly when adding calendar months does not commute with the shift. *)
Lemma fixed_zone_is_shift o t months : add_months (fixed_zone o) t months = add_months utc (t + o) months - o.
Proof.
  unfold add_months, fixed_zone, utc, wall_to_instant. rewrite Z.add_0_r.
  destruct (civil_from_days ((t + o) / 86400)) as [[y m] d].
  change (0 =? 0) with true. cbv iota. rewrite Z.eqb_refl.
  destruct (Z.eqb_spec o 0) as [E|E]; [subst o|]; lia.
Qed.

(** The source computes the period from the block time itself (regenerated on every check). *)
Lemma vesting_period_source_shape :
  Gen.C08.vesting_period_shape =
  ["beginTime := sdkCtx.BlockTime()"; "endTime := beginTime.AddDate(0, int(license.VestingMonths), 0)";
   "end: endTime.Unix()"; "start: beginTime.Unix()"]%string.
Proof. vm_compute. reflexivity. Qed.

(** * 2. The law of a ranking comparator *)

(** rankValidators sorts what it collected from a Go map with slices.SortStableFunc.  A stable sort
    removes the dependence on the collection order only if the comparator never calls two different
    elements equal and is a strict TOTAL order.  C14's [before] (score descending, then address
    ascending — the shape the translator reads from the source) is one: *)
Lemma before_irrefl x : before x x = false.
Proof. unfold before. destruct x as [a s]; simpl. lia. Qed.
Lemma before_trans x y z : before x y = true -> before y z = true -> before x z = true.
Proof. unfold before. destruct x as [ax sx], y as [ay sy], z as [az sz]; simpl. lia. Qed.
Lemma before_total x y : x = y \/ before x y = true \/ before y x = true.
Proof.
  unfold before. destruct x as [ax sx], y as [ay sy]; simpl.
  destruct (Z.lt_trichotomy sx sy) as [L|[E|L]]; [right; right; lia| |right; left; lia].
  destruct (Z.lt_trichotomy ax ay) as [L|[E'|L]]; [right; left; lia|left; now subst|right; right; lia].
Qed.

Lemma rank_comparator_law :
  (forall x, before x x = false) /\
  (forall x y z, before x y = true -> before y z = true -> before x z = true) /\
  (forall x y, x = y \/ before x y = true \/ before y x = true).
Proof. exact (conj before_irrefl (conj before_trans before_total)). Qed.

(** "Scores closer than [eps] are equal, then the address decides" (seeded change C08-D: eps = 1e-6). *)
Definition before_tol (eps : Z) (x y : Z * Z) : bool :=
  if Z.abs (snd x - snd y) <? eps then fst x <? fst y
  else snd y <? snd x.

Definition sort_tol (eps : Z) (l : list (Z * Z)) : list (Z * Z) := gsort (before_tol eps) l.

(** With eps = 1 it is [before] on integers scores... *)
Lemma before_tol_1 x y : before_tol 1 x y = before x y.
Proof.
  unfold before_tol, before. destruct x as [ax sx], y as [ay sy]; simpl.
  destruct (Z.ltb_spec (Z.abs (sx - sy)) 1) as [L|L].
  - assert (sx = sy) by lia. subst. rewrite Z.ltb_irrefl, Z.eqb_refl. reflexivity.
  - destruct (Z.ltb_spec sy sx) as [L'|L']; [reflexivity|]. simpl.
    destruct (Z.eqb_spec sx sy) as [E|E]; [lia|reflexivity].
Qed.

(** ... with any larger eps it is NOT transitive: a chain of near-ties a ~ b ~ c with a and c apart and
    the address order opposing the score order is a cycle (c before b before a before c) ... *)
Lemma tolerance_comparator_cyclic :
  let a := (3, 12) in let b := (2, 6) in let c := (1, 0) in   (* (address, score), eps = 10 *)
  before_tol 10 c b = true /\ before_tol 10 b a = true /\ before_tol 10 a c = true.
Proof. vm_compute. repeat split; reflexivity. Qed.

(** ... and the sorted result depends on the order the map hands the entries out: *)
Lemma tolerance_comparator_refuted_lemma :
  exists eps l l', Permutation l l' /\ sort_tol eps l <> sort_tol eps l'.
Proof.
  exists 10, [(3, 12); (2, 6); (1, 0)], [(2, 6); (3, 12); (1, 0)]. split.
  - apply perm_swap.
  - vm_compute. discriminate.
Qed.

(** The comparator in the source has the total-order shape (regenerated on every check; a tolerance,
    an absolute value, a threshold or any other statement is reported as "unknown:..."). *)
Lemma rank_comparator_source_shape :
  Gen.C08.rank_comparator =
  ["slices.SortStableFunc(ranked)"; "if a.score.GT(b.score) return -1"; "if a.score.LT(b.score) return 1";
   "return strings.Compare(a.address, b.address)"]%string.
Proof. vm_compute. reflexivity. Qed.

(** * 3. The premise of the evidence tally: one piece of evidence per validator *)

(** AddEvidence as it is (C04's [add_evidence]: replace by validator address alone) keeps one piece of
    evidence per validator over every sequence of submissions ... *)
Lemma evidence_one_per_validator_lemma subs : NoDup (map ev_val (fold_left add_evidence subs [])).
Proof. exact (proj1 (add_evidence_latest subs [] (NoDup_nil _))). Qed.

(** ... hence the tally of whatever the validators submitted, in whatever order, re-submissions of
    another proof type included, does not depend on the order in which the map hands out the groups. *)
Lemma tally_after_submissions_amb_indep (gk : Z -> Z -> Z) a a' sn subs :
  amb_ok a -> amb_ok a' ->
  (0 < sn_total sn /\ sn_total sn = Base.Num.zsum (map snd (sn_vals sn)) /\ Forall (fun p => 0 <= snd p) (sn_vals sn)) ->
  verify_evidence Z.eqb gk (ord_groups a) sn (fold_left add_evidence subs []) =
  verify_evidence Z.eqb gk (ord_groups a') sn (fold_left add_evidence subs []).
Proof.
  intros Ha Ha' Hsn. apply verify_evidence_amb_indep; try assumption. apply evidence_one_per_validator_lemma.
Qed.

(** AddEvidence replacing only evidence of the same proof type (seeded C08-P): both kinds of a validator stay. *)
Fixpoint add_evidence_by_type (evs : list evidence) (e : evidence) : list evidence :=
  match evs with
  | [] => [e]
  | x :: r => if (ev_val x =? ev_val e) && (ev_tag x =? ev_tag e)
              then {| ev_val := ev_val x; ev_tag := ev_tag e; ev_data := ev_data e; ev_bad := ev_bad e |} :: r
              else x :: add_evidence_by_type r e
  end.

Definition pair_key (t d : Z) : Z := t * 1000 + d.

(** Three equal validators each hand in a tx proof (type 1) and then an error report (type 2): with the rule as it is
    the error reports replace the proofs and win under every order; with the by-type rule both groups hold 3/3 and the
    winner is whichever group the map hands out first. *)
Lemma evidence_premise_needed :
  let sn := {| sn_vals := [(1, 10); (2, 10); (3, 10)]; sn_total := 30 |} in
  let ev v t := {| ev_val := v; ev_tag := t; ev_data := 7; ev_bad := false |} in
  let subs := [ev 1 1; ev 2 1; ev 3 1; ev 1 2; ev 2 2; ev 3 2] in
  verify_evidence Z.eqb pair_key (fun l => l) sn (fold_left add_evidence subs []) =
  verify_evidence Z.eqb pair_key (@rev _) sn (fold_left add_evidence subs []) /\
  verify_evidence Z.eqb pair_key (fun l => l) sn (fold_left add_evidence_by_type subs []) <>
  verify_evidence Z.eqb pair_key (@rev _) sn (fold_left add_evidence_by_type subs []).
Proof. vm_compute. split; [reflexivity|discriminate]. Qed.

Lemma evidence_replace_rule_source_shape : Gen.C08.evidence_replace_rule = evidence_rule_expected.
Proof. vm_compute. reflexivity. Qed.
