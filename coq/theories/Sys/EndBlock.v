(** C09 — begin/end-block processing never aborts.  Definitions only (proofs: EndBlockProofs.v).

    What is modelled (the code as it is NOW, after the two `fix:` commits of branch verif-C09):
      x/treasury/keeper/msg_server.go   UpsertRelayerFee + validateMultiplicator     -> [upsert]
      x/treasury/keeper/keeper.go       GetCombinedFeesForRelay                      -> [combined_fees]
      x/treasury/gov_handler.go         Set{CommunityFund,Security}Fee (any string)  -> [OGov*]
      x/consensus/keeper/msg_server.go  AddMessageEstimates / Queue.AddGasEstimate   -> [add_estimate]
      util/libcons/consensus.go         VerifyGasEstimates (2/3 of snapshot power, median) -> [verify_estimates]
      x/consensus/keeper/estimate.go    CheckAndProcessEstimatedMessages: one cache context per
                                        message, commit on success, log-and-continue on error;
                                        checkAndProcessEstimatedFeePayer, calculateFeesForEstimate,
                                        mulCeilUint64                                 -> [estimate_step]
      x/consensus/module.go             EndBlock (no recover; errors of the three steps are logged)
      x/skyway/module.go, abci.go       EndBlock/EndBlocker under recover              -> [recovering]
      x/valset/module.go                EndBlock returns UpdateGracePeriod's error     -> [valset_end_block]
      x/paloma/module.go                BeginBlock = the version gate                  -> [paloma_begin_block]
    Every Go primitive that is partial on a value a transaction sender (or a governance proposal)
    controls has an explicit [Panic] outcome here: math.Int.Uint64 out of range, a method call on a
    nil LegacyDec, LegacyDec range assertion, dereferencing a nil snapshot.  [estimate_step_old] is
    the pre-fix code (documentation of defect F6; see EndBlockProofs.endblock_total_refuted_old).

    Validators, chains and message ids are numbers; a LegacyDec is its raw integer (value*10^18,
    Base/Dec.v); [None] for a Dec is the Go nil Dec (an absent protobuf field). *)
From Coq Require Import List ZArith Bool Lia.
From Paloma Require Import Base.Num Base.Dec Cons.Median Gen.C09.
Import ListNotations.
Open Scope Z_scope.

(** ** Outcomes *)
Inductive site :=
| SUint64          (* math.Int.Uint64(): "Uint64() out of bounds" *)
| SDecRange        (* LegacyDec assertInValidRange: "Int overflow" *)
| SNilDec          (* method call on a nil LegacyDec: nil pointer dereference *)
| SNilSnapshot     (* VerifyGasEstimates: snapshot.TotalShares on a nil snapshot *)
| SVersionGate     (* x/paloma CheckChainVersion: the deliberate stop *)
| SInner.          (* a panic inside an un-modelled step (only ever placed under [recovering]) *)

Inductive err := EFees | EZeroEstimate | ECalc | EGrace.

Inductive result (A : Type) :=
| Ok (a : A)
| Err (e : err)
| Panic (p : site).
Arguments Ok {A} a.
Arguments Err {A} e.
Arguments Panic {A} p.

(** ** State *)
Record qmsg := {
  m_id : Z;
  m_chain : Z;
  m_assignee : Z;                  (* validator picked by the relayer ranking (C14) when the message was put *)
  m_feepayer : bool;               (* action implements evmtypes.FeePayer (SubmitLogicCall, UploadUserSmartContract) *)
  m_requires : bool;               (* RequireGasEstimation flag *)
  m_estimates : list (Z * Z);      (* (validator, value), in submission order *)
  m_elected : Z;                   (* 0 = none yet *)
  m_fees : option (Z * Z * Z)      (* relayer, community, security; None = not set *)
}.

Record state := {
  st_fees : list (Z * list (Z * Z));   (* validator -> [(chain, multiplicator raw)] as stored (never a nil Dec) *)
  st_cf : option Z;                    (* community fund fee string parsed by LegacyNewDecFromStr; None = does not parse / unset *)
  st_sf : option Z;
  st_snapshot : option (list (Z * Z)); (* current snapshot: (validator, shares); None = no snapshot yet *)
  st_msgs : list qmsg;
  st_next : Z
}.

Definition init : state :=
  {| st_fees := []; st_cf := None; st_sf := None; st_snapshot := None; st_msgs := []; st_next := 1 |}.

Fixpoint lookup {A} (k : Z) (l : list (Z * A)) : option A :=
  match l with
  | [] => None
  | (k', v) :: r => if k =? k' then Some v else lookup k r
  end.

Definition has_key {A} (k : Z) (l : list (Z * A)) : bool :=
  match lookup k l with Some _ => true | None => false end.

(** ** Treasury: admission of relayer fee settings (validateMultiplicator) *)
Definition max_mult_units : Z := Gen.C09.max_multiplicator_units.  (* translated: maxRelayerFeeMultiplicator *)
Definition max_mult : Z := max_mult_units * prec.

Definition valid_mult (m : option Z) : bool :=
  match m with
  | None => false                                   (* m.IsNil() *)
  | Some x => (0 <? x) && (x <=? max_mult)           (* m.IsPositive() && !m.GT(max) *)
  end.

Definition unopt (m : option Z) : Z := match m with Some x => x | None => 0 end. (* a nil Dec is stored as 0 *)

(** merged = request entries first, then the stored entries whose chain is not in the request *)
Definition merge_fees (req old : list (Z * Z)) : list (Z * Z) :=
  req ++ filter (fun e => negb (has_key (fst e) req)) old.

Definition set_key {A} (k : Z) (v : A) (l : list (Z * A)) : list (Z * A) :=
  (k, v) :: filter (fun e => negb (fst e =? k)) l.

(** [v < 0] stands for an address that does not parse *)
Definition upsert_ok (v : Z) (fees : list (Z * option Z)) : bool :=
  (0 <=? v) && forallb (fun e => valid_mult (snd e)) fees.

Definition upsert (v : Z) (fees : list (Z * option Z)) (s : state) : state :=
  let req := map (fun e => (fst e, unopt (snd e))) fees in
  let old := match lookup v (st_fees s) with Some l => l | None => [] end in
  {| st_fees := set_key v (merge_fees req old) (st_fees s);
     st_cf := st_cf s; st_sf := st_sf s; st_snapshot := st_snapshot s; st_msgs := st_msgs s; st_next := st_next s |}.

(** the code before the fix stored anything *)
Definition upsert_ok_old (v : Z) (fees : list (Z * option Z)) : bool := 0 <=? v.

(** ** Putting a message: the relayer ranking only offers validators of the current snapshot
    that have a fee entry for the chain (GetRelayerFeesByChainReferenceID; C14 assignee_eligible) *)
Definition put_ok (chain assignee : Z) (s : state) : bool :=
  match st_snapshot s with
  | None => false                                   (* "no snapshot found" *)
  | Some snap =>
    has_key assignee snap &&
    match lookup assignee (st_fees s) with
    | Some l => has_key chain l
    | None => false
    end
  end.

Definition put (chain assignee : Z) (feepayer requires : bool) (s : state) : state :=
  {| st_fees := st_fees s; st_cf := st_cf s; st_sf := st_sf s; st_snapshot := st_snapshot s;
     st_msgs := st_msgs s ++ [{| m_id := st_next s; m_chain := chain; m_assignee := assignee; m_feepayer := feepayer;
                                 m_requires := requires; m_estimates := []; m_elected := 0; m_fees := None |}];
     st_next := st_next s + 1 |}.

(** ** Gas estimates: msg server (value >= 1, a uint64) and Queue.AddGasEstimate *)
Definition find_msg (id : Z) (s : state) : option qmsg := find (fun m => m_id m =? id) (st_msgs s).

Definition is_validator (v : Z) (s : state) : bool :=
  match st_snapshot s with Some snap => has_key v snap | None => false end.

Definition estimate_ok (v id value : Z) (s : state) : bool :=
  is_validator v s && (Gen.C09.estimates_reject_below <=? value) && (value <? two64) &&
  match find_msg id s with
  | Some m => m_requires m && negb (has_key v (m_estimates m))
  | None => false
  end.

Definition with_estimates (m : qmsg) (l : list (Z * Z)) : qmsg :=
  {| m_id := m_id m; m_chain := m_chain m; m_assignee := m_assignee m; m_feepayer := m_feepayer m; m_requires := m_requires m;
     m_estimates := l; m_elected := m_elected m; m_fees := m_fees m |}.

Definition add_estimate (v id value : Z) (s : state) : state :=
  {| st_fees := st_fees s; st_cf := st_cf s; st_sf := st_sf s; st_snapshot := st_snapshot s;
     st_msgs := map (fun m => if m_id m =? id then with_estimates m (m_estimates m ++ [(v, value)]) else m) (st_msgs s);
     st_next := st_next s |}.

(** ** VerifyGasEstimates *)
Inductive verdict := VNoSnapshot | VNoConsensus | VZero | VWinner (w : Z).

Definition power_of (snap : list (Z * Z)) (ests : list (Z * Z)) : Z :=
  zsum (map (fun e => match lookup (fst e) snap with Some p => p | None => 0 end) ests).

Definition total_of (snap : list (Z * Z)) : Z := zsum (map snd snap).

Definition verify_estimates (snap : option (list (Z * Z))) (ests : list (Z * Z)) : verdict :=
  match snap with
  | None => VNoSnapshot
  | Some sn =>
    if 3 * power_of sn ests >=? 2 * total_of sn
    then let w := median64 (map snd ests) in if w =? 0 then VZero else VWinner w
    else VNoConsensus
  end.

(** ** GetCombinedFeesForRelay *)
Definition first_mult (chain : Z) (l : list (Z * Z)) : option Z := lookup chain l.

Definition combined_fees (s : state) (v chain : Z) : result (Z * Z * Z) :=
  match lookup v (st_fees s) with
  | None => Err EFees                                  (* "failed to get relayer fees" *)
  | Some l =>
    match first_mult chain l with
    | None => Panic SNilDec                            (* var rf LegacyDec stays nil; rf.IsZero() *)
    | Some rf =>
      if rf =? 0 then Err EFees
      else match st_cf s, st_sf s with
           | Some cf, Some sf => if (cf =? 0) || (sf =? 0) then Err EFees else Ok (rf, cf, sf)
           | _, _ => Err EFees                         (* fee string does not parse *)
           end
    end
  end.

(** ** mulCeilUint64 (current code) and the pre-fix chain *)
Definition mul_ceil_u64 (d n : Z) : result Z :=
  if d <? 0 then Err ECalc
  else let p := d * n in
       let q := p / prec in
       let q' := if 0 <? p mod prec then q + 1 else q in
       if q' <? two64 then Ok q' else Err ECalc.

Definition calc_fees (rf cf sf gas : Z) : result (Z * Z * Z) :=
  match mul_ceil_u64 rf gas with
  | Ok r => match mul_ceil_u64 cf r with
            | Ok c => match mul_ceil_u64 sf r with
                      | Ok x => Ok (r, c, x)
                      | Err e => Err e | Panic p => Panic p
                      end
            | Err e => Err e | Panic p => Panic p
            end
  | Err e => Err e | Panic p => Panic p
  end.

(** pre-fix: d.MulInt(n).Ceil().TruncateInt().Uint64(), every step partial (Base/Dec.v) *)
Definition mul_ceil_u64_old (d n : Z) : result Z :=
  match checked (mul_int d n) with
  | None => Panic SDecRange
  | Some p => match checked (ceil p) with
              | None => Panic SDecRange
              | Some c => match to_uint64 (truncate_int c) with
                          | None => Panic SUint64
                          | Some r => Ok r
                          end
              end
  end.

Definition calc_fees_old (rf cf sf gas : Z) : result (Z * Z * Z) :=
  match mul_ceil_u64_old rf gas with
  | Ok r => match mul_ceil_u64_old cf r with
            | Ok c => match mul_ceil_u64_old sf r with
                      | Ok x => Ok (r, c, x)
                      | Err e => Err e | Panic p => Panic p
                      end
            | Err e => Err e | Panic p => Panic p
            end
  | Err e => Err e | Panic p => Panic p
  end.

(** ** checkAndProcessEstimatedMessage, inside its cache context *)
Definition with_elected (m : qmsg) (w : Z) (f : option (Z * Z * Z)) : qmsg :=
  {| m_id := m_id m; m_chain := m_chain m; m_assignee := m_assignee m; m_feepayer := m_feepayer m; m_requires := m_requires m;
     m_estimates := m_estimates m; m_elected := w; m_fees := f |}.

Section Estimate.
  Variable calc : Z -> Z -> Z -> Z -> result (Z * Z * Z).

  Definition process_msg (s : state) (m : qmsg) : result qmsg :=
    if negb (m_requires m) then Ok m
    else match m_estimates m with
    | [] => Ok m
    | _ =>
      if 0 <? m_elected m then Ok m
      else match verify_estimates (st_snapshot s) (m_estimates m) with
           | VNoSnapshot => Panic SNilSnapshot
           | VNoConsensus => Ok m
           | VZero => Err EZeroEstimate
           | VWinner w =>
             if m_feepayer m then
               match combined_fees s (m_assignee m) (m_chain m) with
               | Ok (rf, cf, sf) =>
                 match calc rf cf sf w with
                 | Ok f => Ok (with_elected m w (Some f))
                 | Err e => Err e
                 | Panic p => Panic p
                 end
               | Err e => Err e
               | Panic p => Panic p
               end
             else Ok (with_elected m w (m_fees m))
           end
    end.

  (** the loop: commit on Ok, skip the message on Err, a panic unwinds the whole end-blocker *)
  Fixpoint estimate_loop (s : state) (ms : list qmsg) : result (list qmsg) :=
    match ms with
    | [] => Ok []
    | m :: r =>
      match process_msg s m with
      | Panic p => Panic p
      | res =>
        let m' := match res with Ok x => x | _ => m end in
        match estimate_loop s r with
        | Ok r' => Ok (m' :: r')
        | other => other
        end
      end
    end.

  Definition estimate_step (s : state) : result state :=
    match estimate_loop s (st_msgs s) with
    | Ok ms => Ok {| st_fees := st_fees s; st_cf := st_cf s; st_sf := st_sf s; st_snapshot := st_snapshot s;
                     st_msgs := ms; st_next := st_next s |}
    | Err e => Err e
    | Panic p => Panic p
    end.
End Estimate.

(** ** Module level *)
Inductive module := MConsensus | MEvm | MValset | MPaloma | MMetrix | MSkyway | MScheduler | MTreasury | MTokenFactory.

(** x/consensus EndBlock: estimate step, attestation step, pruning every 50 blocks; the errors of all
    three are logged, nothing is recovered.  The attestation and pruning steps act on evidence /
    age, which this model's operations do not create: they are the identity here (design/C09.md). *)
Definition consensus_end_block (s : state) : result state := estimate_step calc_fees s.
Definition consensus_end_block_old (s : state) : result state := estimate_step calc_fees_old s.

(** recover(): a panic of the wrapped step ends the step, the block goes on *)
Definition recovering {A} (f : A -> result A) (keep : A -> A) (s : A) : result A :=
  match f s with
  | Panic _ => Ok (keep s)
  | Err _ => Ok (keep s)        (* every error in the skyway end-blocker is logged *)
  | Ok s' => Ok s'
  end.

(** x/valset EndBlock: the only end-blocker that returns a callee's error *)
Definition valset_end_block {A} (update_grace : A -> result A) (s : A) : result A := update_grace s.

(** x/paloma BeginBlock: CheckChainVersion.  Versions are (major, minor, patch); [required] is the
    last completed upgrade (None = none). *)
Definition version := (Z * Z * Z)%type.
Definition version_gate_open (running : version) (required : option version) : bool :=
  match required with
  | None => true
  | Some (rM, rm, rp) =>
    let '(M, m, p) := running in (M =? rM) && (m =? rm) && (rp <=? p)
  end.
Definition paloma_begin_block {A} (running : version) (required : option version) (s : A) : result A :=
  if version_gate_open running required then Ok s else Panic SVersionGate.

(** ** Histories *)
Inductive op :=
| OUpsert (v : Z) (fees : list (Z * option Z))
| OGovCommunity (f : option Z)
| OGovSecurity (f : option Z)
| OSnapshot (snap : list (Z * Z))
| OPut (chain assignee : Z) (feepayer requires : bool)
| OEstimate (v id value : Z)
| OEndBlock.

Definition set_gov (cf sf : option Z) (s : state) : state :=
  {| st_fees := st_fees s; st_cf := cf; st_sf := sf; st_snapshot := st_snapshot s; st_msgs := st_msgs s; st_next := st_next s |}.
Definition set_snapshot (snap : list (Z * Z)) (s : state) : state :=
  {| st_fees := st_fees s; st_cf := st_cf s; st_sf := st_sf s; st_snapshot := Some snap; st_msgs := st_msgs s; st_next := st_next s |}.

(** a new snapshot keeps every validator that is the assignee of a queued message?  No: the code
    does not promise that, and nothing below needs it. *)
Definition accept (o : op) (s : state) : bool :=
  match o with
  | OUpsert v fees => upsert_ok v fees
  | OGovCommunity _ | OGovSecurity _ | OSnapshot _ | OEndBlock => true
  | OPut chain a _ _ => put_ok chain a s
  | OEstimate v id value => estimate_ok v id value s
  end.

Definition apply (o : op) (s : state) : state :=
  match o with
  | OUpsert v fees => upsert v fees s
  | OGovCommunity f => set_gov f (st_sf s) s
  | OGovSecurity f => set_gov (st_cf s) f s
  | OSnapshot snap => set_snapshot snap s
  | OPut chain a fp rq => put chain a fp rq s
  | OEstimate v id value => add_estimate v id value s
  | OEndBlock => s
  end.

(** one step of a history: a rejected transaction leaves the state alone; an end-block may panic *)
Definition step (s : state) (o : op) : result state :=
  match o with
  | OEndBlock => match consensus_end_block s with
                 | Ok s' => Ok s'
                 | Err _ => Ok s          (* unreachable: estimate_step never returns Err *)
                 | Panic p => Panic p
                 end
  | _ => if accept o s then Ok (apply o s) else Ok s
  end.

Fixpoint run (ops : list op) (s : state) : result state :=
  match ops with
  | [] => Ok s
  | o :: r => match step s o with
              | Ok s' => run r s'
              | other => other
              end
  end.

(** the same history on the code before the fixes *)
Definition step_old (s : state) (o : op) : result state :=
  match o with
  | OEndBlock => match consensus_end_block_old s with
                 | Ok s' => Ok s'
                 | Err _ => Ok s
                 | Panic p => Panic p
                 end
  | OUpsert v fees => if upsert_ok_old v fees then Ok (upsert v fees s) else Ok s
  | _ => if accept o s then Ok (apply o s) else Ok s
  end.

Fixpoint run_old (ops : list op) (s : state) : result state :=
  match ops with
  | [] => Ok s
  | o :: r => match step_old s o with
              | Ok s' => run_old r s'
              | other => other
              end
  end.

(** projection compared with the implementation: (id, elected estimate, fees) per message *)
Definition observe (s : state) : list (Z * Z * option (Z * Z * Z)) :=
  map (fun m => (m_id m, m_elected m, m_fees m)) (st_msgs s).
