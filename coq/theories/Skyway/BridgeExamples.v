(** C01 — non-vacuity examples for the theorems of BridgeProofs.v, a decidable check of the table
    hypothesis, and the witnesses of the defects the pinned tree had (kept as documentation; the
    model follows the repaired code). *)
From Coq Require Import List ZArith Bool Lia.
From Paloma Require Import Gen.C01 Skyway.Bridge Skyway.BridgeProofs Skyway.BridgeOrder.
Import ListNotations.
Open Scope Z_scope.

(** * [table_wf] is decidable for a concrete table *)
Definition opt_eqb (a b : option Z) : bool :=
  match a, b with Some x, Some y => x =? y | None, None => true | _, _ => false end.
Definition table_wf_b (tb : list entry) : bool :=
  forallb (fun e => let '(c, d, _) := e in
                    match erc20_of tb c d with
                    | Some k => opt_eqb (denom_of tb c k) (Some d)
                    | None => true
                    end) tb.

Lemma erc20_of_in : forall tb c d k, erc20_of tb c d = Some k -> exists k0, In (c, d, k0) tb.
Proof.
  induction tb as [|[[c' d'] k'] r IH]; intros c d k H; simpl in H; [discriminate|].
  destruct ((c' =? c) && (d' =? d)) eqn:E.
  - apply andb_true_iff in E as [A B]. apply Z.eqb_eq in A, B. subst. exists k'. now left.
  - destruct (IH _ _ _ H) as [k0 I]. exists k0. now right.
Qed.

Lemma table_wf_b_sound : forall tb, table_wf_b tb = true -> table_wf tb.
Proof.
  intros tb H c d k E. destruct (erc20_of_in _ _ _ _ E) as [k0 I].
  unfold table_wf_b in H. rewrite forallb_forall in H. specialize (H _ I). simpl in H.
  rewrite E in H. destruct (denom_of tb c k) as [d0|]; simpl in H; [|discriminate].
  apply Z.eqb_eq in H. now subst.
Qed.

(** * A history that exercises every place a transfer can be *)
(** contract 0 is denom 0 on chain 1 and denom 2 on chain 0 (createBatch visits the rows of the
    DenomToERC20 index in key order: chain 0 first) *)
Definition tb1 : list entry := [(0, 2, 0); (1, 0, 0)].
Lemma tb1_wf : table_wf tb1.
Proof. apply table_wf_b_sound. reflexivity. Qed.

Definition b1 : Z -> Z -> Z := fun u d => 1000.
Definition h1 : list op := [
  OSend 0 1 0 100 20 false nofault;    (* id 1 *)
  OSend 1 0 2 50 0 false nofault;      (* id 2: other chain, same contract address *)
  OSend 0 1 0 70 14 false nofault;     (* id 3 *)
  OSend 0 1 0 5 1 false (fat 1);       (* GetChainInfo fails after the coins were locked: rolled back *)
  OSend 0 1 0 5 1 true nofault;        (* over the transfer limit: refused *)
  OCreateBatch 50 1000 (fat 1);        (* relayer selection fails in the first build: nothing moves *)
  OCreateBatch 100 1000 nofault;       (* batch 1 = chain 0 [id 2]; batch 2 = chain 1 [ids 1, 3] *)
  OCancel 0 3 nofault;                 (* fails: id 3 is in a batch *)
  OSend 0 1 0 9 1 false nofault;       (* id 4 *)
  OCancel 0 4 nofault;                 (* refunded in full *)
  OExecuted 0 0 2 5 nofault;           (* claim from the other chain for batch 2: rejected *)
  OExecuted 1 0 2 5 (fat 0);           (* burn fails: rolled back *)
  OExecuted 1 0 2 5 nofault;           (* batch 2 burned: 120 + 84 *)
  ODeposit 1 0 (RUser 2) 500 nofault;
  ODeposit 1 0 RBlocked 7 nofault;     (* undeliverable: community pool *)
  OSweep 1601 nofault                  (* batch 1 timed out: id 2 back in the pool *)
].
Definition s1 : state := run (init tb1 b1 (fun _ => 0)) h1.

Example s1_places :
  pool_ids s1 = [2] /\ batch_ids s1 = [] /\ refunded s1 = [4] /\ burned s1 = [1; 3] /\ last_tx s1 = 4.
Proof. vm_compute. repeat split. Qed.
Example s1_money :
  escrow s1 0 = 0 /\ escrow s1 2 = 50 /\ supply s1 0 = 500 + 7 - 204 /\ comm s1 0 = 7 /\
  bal s1 0 0 = 1000 - 204 /\ bal s1 2 0 = 1500 /\ bal s1 1 2 = 950.
Proof. vm_compute. repeat split. Qed.
Example s1_accepted_nonvacuous : accepted s1 1 /\ accepted s1 2 /\ accepted s1 4 /\ ~ accepted s1 5.
Proof. unfold accepted. change (last_tx s1) with 4. lia. Qed.
Example s1_history_sums :
  deposits_of (init tb1 b1 (fun _ => 0)) h1 0 = 507 /\ executed_of (init tb1 b1 (fun _ => 0)) h1 0 = 204.
Proof. vm_compute. split; reflexivity. Qed.
Example h1_guarded : guarded (init tb1 b1 (fun _ => 0)) h1 = true.
Proof. vm_compute. reflexivity. Qed.

(** a state with an open batch and a pooled transfer, for the instantiation of theorem 1 *)
Definition s2 : state := run (init tb1 b1 (fun _ => 0)) (firstn 9 h1).
Example s2_pending : pool_ids s2 = [4] /\ batch_ids s2 = [1; 3; 2] /\ escrow s2 0 = 214 /\ escrow s2 2 = 50
  /\ sum_for tb1 0 (pending s2) = 214 /\ sum_for tb1 2 (pending s2) = 50.
Proof. vm_compute. repeat split. Qed.

(** failures that are no-ops, with and without an injected fault *)
Example failed_ops_nonvacuous :
  snd (step s2 (OSend 0 1 0 5 1 false (fat 1))) = Err /\ snd (step s2 (OCancel 0 3 nofault)) = Err /\
  snd (step s2 (OBuild 1 0 100 1000 (fat 2))) = Err /\ snd (step s2 (OExecuted 1 0 2 5 (fat 0))) = Err /\
  snd (step s2 (ODeposit 1 0 RInvalid 7 (fat 1))) = Err /\ snd (step s2 (OCancelBatch 0 2 (fat 0))) = Err /\
  snd (step s2 (OSend 0 1 0 5 1 true nofault)) = Err /\
  snd (step s2 (OMapAdmin 1 1 0 true nofault)) = Err /\ snd (step s2 (OMapAdmin 1 1 1 true (fat 0))) = Err.
Proof. vm_compute. repeat split. Qed.

(** * Witnesses of the defects of the pinned tree (what the code did before the fix: commits) *)

(** F1: BuildOutgoingTXBatch without the cached context is [build_raw]: with relayer selection
    failing, the picked transfers have left the pool, no batch exists, the coins are still in
    escrow; [build] (the repaired code) leaves everything in place. *)
Definition s3 : state := run (init tb1 b1 (fun _ => 0)) (firstn 3 h1).
Example F1_raw_build_strands_transfers :
  let '(s', out, _) := build_raw (fat 1) 1 0 100 1000 s3 in
  out = Err /\ pool_ids s' = [2] /\ batch_ids s' = [] /\ escrow s' 0 = 204 /\
  sum_for tb1 0 (pending s') = 0.
Proof. vm_compute. repeat split. Qed.
Example F1_fixed_build_is_noop :
  let '(s', out, _) := build (fat 1) 1 0 100 1000 s3 in
  out = Err /\ pool_ids s' = [1; 3; 2] /\ escrow s' 0 = 204 /\ sum_for tb1 0 (pending s') = 204.
Proof. vm_compute. repeat split. Qed.

(** F1b: without the chain test in pickUnbatchedTxs a batch for chain 1 would take id 2 (chain 0);
    with it (the model's [pick]) it does not. *)
Example F1b_pick_respects_chain :
  map t_id (fst (pick 1 0 100 (pool s3))) = [1; 3] /\ map t_id (snd (pick 1 0 100 (pool s3))) = [2].
Proof. vm_compute. split; reflexivity. Qed.

(** * Round 2: the denom table written while transfers are pending *)

(** a token admin binds a fresh contract for denom 1 on chain 1 while transfers are pending, later
    re-maps the denom to another fresh contract (the old reverse entry stays: pending transfers
    of the old contract are still refunded in denom 1); governance re-asserts an existing pair.
    All of it is inside the guard. *)
Definition h2 : list op := firstn 9 h1 ++ [
  OMapAdmin 1 1 1 true nofault;        (* denom 1 <-> contract 1 on chain 1 *)
  OSend 2 1 1 30 3 false nofault;      (* id 5, contract 1 *)
  OMapAdmin 1 1 0 true nofault;        (* contract 0 is bound on chain 1: refused *)
  OMapAdmin 1 1 2 false nofault;       (* not the token's admin: refused *)
  OMapAdmin 1 1 2 true nofault;        (* denom 1 re-mapped to contract 2; (1, contract 1) -> denom 1 stays *)
  OSend 2 1 1 40 4 false nofault;      (* id 6, contract 2 *)
  OMapGov 1 1 2;                       (* governance re-asserts the pair *)
  OCancel 2 5 nofault                  (* id 5 (old contract) refunded in denom 1 *)
].
Definition s4 : state := run (init tb1 b1 (fun _ => 0)) h2.
Example h2_guarded : guarded (init tb1 b1 (fun _ => 0)) h2 = true.
Proof. vm_compute. reflexivity. Qed.
Example s4_remap :
  map t_contract (pool s4) = [2; 0] /\ refunded s4 = [5] /\ escrow s4 1 = 44 /\ bal s4 2 1 = 1000 - 44 /\
  erc20_of (table s4) 1 1 = Some 2 /\ denom_of (table s4) 1 1 = Some 1 /\ denom_of (table s4) 1 2 = Some 1 /\
  sum_for (table s4) 1 (pending s4) = 44 /\
  map (fun e => fst (fst e)) (d2e_rows (table s4)) = [0; 1; 1].
Proof. vm_compute. repeat split. Qed.

(** without the guard the governance path breaks conservation: one pooled transfer of denom 0,
    then governance binds its contract to denom 1 — the transfer would now be refunded / burned in
    denom 1, its 100 of denom 0 stay in escrow for ever.  Replayed on the real keeper:
    harness/corpus/C01/G1_gov_remap_contract_with_pending.json *)
Theorem escrow_eq_pending_unguarded_refuted_proof :
  exists tb b0 sup0 ops d, table_wf tb /\
    let s := run (init tb b0 sup0) ops in escrow s d <> sum_for (table s) d (pending s).
Proof.
  exists [(0, 0, 0)], (fun _ _ => 1000), (fun _ => 0),
         [OSend 0 0 0 100 0 false nofault; OMapGov 0 1 0], 0.
  split; [apply table_wf_b_sound; reflexivity|].
  vm_compute. discriminate.
Qed.

(** * Round 2: the whole end-blocker, with panics *)
Definition s5 : state := run (init tb1 b1 (fun _ => 0)) (firstn 3 h1).   (* ids 1, 3 (chain 1) and 2 (chain 0) pooled *)
(** nothing panics: both batches are built, the deposit is applied, batch 1 gets its estimate *)
Example full_end_block_ok :
  let s := fst (step s5 (OEndBlockFull 100 1000 [[EvDeposit 1 0 (RUser 2) 500]; []] [(0, 1, 21000)] nofault nofault)) in
  pool_ids s = [] /\ map b_nonce (batches s) = [2; 1] /\ map b_gas (batches s) = [0; 21000] /\ bal s 2 0 = 1500.
Proof. vm_compute. repeat split. Qed.
(** relayer selection panics in the second build (5th collaborator call of the block): the first
    batch stays, the second build leaves no trace, and the rest of the block (the deposit, the
    estimate) is skipped *)
Example full_end_block_panic :
  let x := end_block_full nofault (fat 4) 100 1000 [[EvDeposit 1 0 (RUser 2) 500]; []] [(0, 1, 21000)] s5 in
  eb_dead x = true /\ pool_ids (eb_s x) = [1; 3] /\ map b_nonce (batches (eb_s x)) = [1] /\
  map b_gas (batches (eb_s x)) = [0] /\ bal (eb_s x) 2 0 = 1000 /\ last_batch (eb_s x) = 1 /\
  length (eb_tr x) = 1%nat.
Proof. vm_compute. repeat split. Qed.
(** the forward of a deposit panics: the mint is dropped with the handler's cached context *)
Example full_end_block_panic_in_deposit :
  let x := end_block_full nofault (fat 1) 7 1000 [[EvDeposit 1 0 (RUser 2) 500]; []] [] s5 in
  eb_dead x = true /\ supply (eb_s x) 0 = 0 /\ escrow (eb_s x) 0 = 204 /\ eb_tr x = [].
Proof. vm_compute. repeat split. Qed.

(** * Round 2: the cap and the fill order *)
(** 103 transfers of one token with amounts 1..4 repeating: the end-blocker's build takes exactly
    100, the three left behind are the lowest keyed (amount 1, the oldest ids), a second build
    opens a second batch of the same token next to the first *)
Fixpoint sends (n : nat) : list op :=
  match n with
  | O => []
  | S n' => sends n' ++ [OSend 0 1 0 (1 + Z.of_nat n' mod 4) 0 false nofault]
  end.
Definition s6 : state := run (init tb1 (fun _ _ => 100000) (fun _ => 0)) (sends 103 ++ [OCreateBatch 100 1000 nofault]).
Example cap_reached :
  map (fun b => length (b_txs b)) (batches s6) = [100%nat] /\ map t_id (pool s6) = [9; 5; 1] /\
  map t_amount (pool s6) = [1; 1; 1] /\
  map t_id (firstn 3 (flat_map b_txs (batches s6))) = [100; 96; 92] /\
  map (fun b => (b_nonce b, length (b_txs b))) (batches (fst (step s6 (OCreateBatch 150 1010 nofault)))) = [(2, 3%nat); (1, 100%nat)].
Proof. vm_compute. repeat split. Qed.
Example sends_capped : Forall build_capped (sends 103 ++ [OCreateBatch 100 1000 nofault; OBuild 1 0 100 5 nofault]).
Proof.
  apply Forall_app. split.
  - generalize 103%nat. induction n as [|n IH]; simpl; [constructor|].
    apply Forall_app. split; [exact IH | constructor; [exact I | constructor]].
  - constructor; [exact I|]. constructor; [simpl; unfold batch_size; lia | constructor].
Qed.

(** * Round 4: restart from an exported genesis in the middle of a history *)
(** [s4] has a pooled transfer of a contract that is no longer the current ERC20 of its denom
    (id 4 is of contract 0, id 6 of contract 2; denom 1 was re-mapped from contract 1 to 2 while id 5
    was pending): every pending record survives the round trip, in the same place and order, and
    the history goes on as if nothing had happened *)
Example genesis_round_trip_nonvacuous :
  let s' := fst (step s2 OGenesis) in
  pool s' = pool s2 /\ batches s' = batches s2 /\ pool s2 <> [] /\ batches s2 <> [] /\
  pool (fst (step s4 OGenesis)) = pool s4 /\
  run (init tb1 b1 (fun _ => 0)) (firstn 14 h2 ++ [OGenesis] ++ skipn 14 h2) = s4.
Proof. vm_compute. repeat split; discriminate. Qed.
