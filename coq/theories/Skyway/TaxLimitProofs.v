(** C15 — proofs about the model in TaxLimit.v.  The statements re-exported in
    Properties/C15.v are the lemmas marked (P). *)
From Coq Require Import List ZArith Bool Lia QArith Qround.
From Paloma Require Import Skyway.TaxLimit.
Import ListNotations.
Open Scope Z_scope.

(** ** What the generated definitions must say for the proofs below (re-checked against the
    source on every run: if the code changes one of them, the proof that needs it breaks). *)
Lemma g_restart e b : G.window_restart e b = (e >=? b).            Proof. reflexivity. Qed.
Lemma g_exceeded t l : G.limit_exceeded t l = (t >? l).             Proof. reflexivity. Qed.
Lemma g_fresh a : G.fresh_total a = a.                              Proof. reflexivity. Qed.
Lemma g_running t a : G.running_total t a = t + a.                  Proof. reflexivity. Qed.
Lemma g_saved_after : G.usage_saved_after_limit_check = true.       Proof. reflexivity. Qed.
Lemma g_lim_ex : G.limit_exemptions_honoured = true.                Proof. reflexivity. Qed.
Lemma g_lim_none : G.limit_period_none_unrestricted = true.         Proof. reflexivity. Qed.
Lemma g_tax a n d : G.tax_formula a n d = Z.quot (a * n) d.         Proof. reflexivity. Qed.
Lemma g_tax_ex : G.tax_exemptions_honoured = true.                  Proof. reflexivity. Qed.
Lemma g_lock : G.lock_includes_tax = true.                          Proof. reflexivity. Qed.
Lemma g_rec_tax : G.tax_recorded_on_transfer = true.                Proof. reflexivity. Qed.
Lemma g_rec_amount : G.amount_recorded_on_transfer = true.          Proof. reflexivity. Qed.
Lemma g_refund : G.refund_includes_tax = true.                      Proof. reflexivity. Qed.
Lemma g_burn : G.burn_includes_tax = true.                          Proof. reflexivity. Qed.
Lemma g_gov_tax t : G.gov_tax_token t = t.                             Proof. reflexivity. Qed.
Lemma g_gov_limit t : G.gov_limit_token t = t.                         Proof. reflexivity. Qed.
Lemma g_exact_denom : G.settings_keyed_by_exact_denom = true.          Proof. reflexivity. Qed.
Lemma g_gen_settings : G.genesis_carries_settings = true.              Proof. reflexivity. Qed.
Lemma g_gen_usage : G.genesis_carries_usage = false.                   Proof. reflexivity. Qed.
Lemma g_pick : G.batch_picks_largest_amount_then_id_first = true.      Proof. reflexivity. Qed.
Lemma g_batch_size : G.batch_size = 100.                               Proof. reflexivity. Qed.
Lemma g_blocks_pos : 0 < G.blocks_DAILY /\ 0 < G.blocks_WEEKLY /\ 0 < G.blocks_MONTHLY /\ 0 < G.blocks_YEARLY.
Proof. repeat split; reflexivity. Qed.

Lemma two256_pos : 0 < two256. Proof. reflexivity. Qed.
Global Opaque two256.

Lemma fits_true x : fits x = true <-> Z.abs x < two256.
Proof. unfold fits. apply Z.ltb_lt. Qed.

(** ** Maps *)
Lemma upd_same {A} (f : Z -> A) k v : upd f k v k = v.
Proof. unfold upd. now rewrite Z.eqb_refl. Qed.
Lemma upd_other {A} (f : Z -> A) k v k' : k' <> k -> upd f k v k' = f k'.
Proof. unfold upd. intros H. destruct (k' =? k) eqn:E; [apply Z.eqb_eq in E; contradiction | reflexivity]. Qed.
Lemma upd2_same f a t v : upd2 f a t v a t = v.
Proof. unfold upd2. now rewrite !Z.eqb_refl. Qed.
Lemma upd2_other f a t v a' t' : (a', t') <> (a, t) -> upd2 f a t v a' t' = f a' t'.
Proof.
  unfold upd2. intros H. destruct (a' =? a) eqn:E1; destruct (t' =? t) eqn:E2; try reflexivity.
  apply Z.eqb_eq in E1, E2. subst. contradiction.
Qed.

(** ** Delivery is atomic *)
Lemma deliver_ok o s s' : deliver o s = (s', Ok) <-> raw o s = (s', Ok).
Proof.
  unfold deliver. destruct (raw o s) as [s1 r]. destruct r; split; intros H; inversion H; subst; reflexivity.
Qed.

(** (P) rejected_consumes_nothing, message level: a failed operation (error or panic) leaves the
    whole state — in particular the usage tally and every balance — as it was. *)
Lemma deliver_failed_noop o s : snd (deliver o s) <> Ok -> fst (deliver o s) = s.
Proof.
  unfold deliver. destruct (raw o s) as [s1 r]. destruct r; simpl; intros H; [contradiction | reflexivity | reflexivity].
Qed.

(** ** The limiter *)
Definition unrestricted (s : state) (snd tok : Z) : Prop :=
  limits s tok = None \/
  exists lc, limits s tok = Some lc /\ (mem snd (lc_exempt lc) = true \/ lc_period lc = PNone).

Lemma limited_none s snd tok : limited s snd tok = None <-> unrestricted s snd tok.
Proof.
  unfold limited, unrestricted. rewrite g_lim_ex, g_lim_none. simpl.
  destruct (limits s tok) as [lc|]; [|split; auto].
  destruct (mem snd (lc_exempt lc)) eqn:E1.
  - split; [intros _; right; exists lc; auto | reflexivity].
  - destruct (lc_period lc) eqn:E2; simpl; split; intros H; try discriminate; try reflexivity.
    + right. exists lc. auto.
    + destruct H as [H|[lc' [H1 [H2|H2]]]]; try discriminate; inversion H1; subst; congruence.
    + destruct H as [H|[lc' [H1 [H2|H2]]]]; try discriminate; inversion H1; subst; congruence.
    + destruct H as [H|[lc' [H1 [H2|H2]]]]; try discriminate; inversion H1; subst; congruence.
    + destruct H as [H|[lc' [H1 [H2|H2]]]]; try discriminate; inversion H1; subst; congruence.
Qed.

Lemma limited_some s snd tok lc : limited s snd tok = Some lc ->
  limits s tok = Some lc /\ mem snd (lc_exempt lc) = false /\ lc_period lc <> PNone.
Proof.
  unfold limited. rewrite g_lim_ex, g_lim_none. simpl.
  destruct (limits s tok) as [lc'|]; [|discriminate].
  destruct (mem snd (lc_exempt lc')) eqn:E1; [discriminate|].
  destruct (lc_period lc') eqn:E2; simpl; intros H; inversion H; subst; repeat split; auto; congruence.
Qed.

Lemma block_limit_pos p : p <> PNone -> 0 < block_limit p.
Proof. destruct g_blocks_pos as (?&?&?&?). destruct p; simpl; intros; try assumption; congruence. Qed.

(** [limit_step] only ever touches the tally of [tok]. *)
Lemma limit_step_frame h snd tok a s s1 r : limit_step h snd tok a s = (s1, r) ->
  bal s1 = bal s /\ escrow s1 = escrow s /\ burned s1 = burned s /\ pool s1 = pool s /\
  batches s1 = batches s /\ last_id s1 = last_id s /\ last_batch s1 = last_batch s /\
  mapped s1 = mapped s /\ taxes s1 = taxes s /\ limits s1 = limits s /\
  (forall t, t <> tok -> usages s1 t = usages s t).
Proof.
  unfold limit_step. rewrite g_saved_after.
  destruct (limited s snd tok) as [lc|].
  - destruct (next_usage _ h a (usages s tok)) as [nu|].
    + destruct (G.limit_exceeded _ _); intros H; inversion H; subst; simpl; repeat split; auto.
      intros t Ht. now apply upd_other.
    + intros H; inversion H; subst; repeat split; auto.
  - intros H; inversion H; subst; repeat split; auto.
Qed.

(** (P) rejected_consumes_nothing, keeper level: a transfer rejected by the limiter leaves the
    tally untouched even outside a transaction (the check precedes the write). *)
Lemma limit_rejection_consumes_nothing h snd tok a s s1 e :
  limit_step h snd tok a s = (s1, Err e) -> s1 = s /\ e = ELimit.
Proof.
  unfold limit_step. rewrite g_saved_after.
  destruct (limited s snd tok) as [lc|]; [|discriminate].
  destruct (next_usage _ h a (usages s tok)) as [nu|]; [|discriminate].
  destruct (G.limit_exceeded _ _); intros H; inversion H; auto.
Qed.

Lemma limit_step_unrestricted h snd tok a s : unrestricted s snd tok -> limit_step h snd tok a s = (s, Ok).
Proof. intros H. apply limited_none in H. unfold limit_step. now rewrite H. Qed.

(** Exact description of an accepted step of the limiter. *)
Lemma limit_step_ok h snd tok a s s1 : limit_step h snd tok a s = (s1, Ok) ->
  match limited s snd tok with
  | None => s1 = s
  | Some lc => exists nu, next_usage (block_limit (lc_period lc)) h a (usages s tok) = Some nu /\
                          u_total nu <= lc_limit lc /\ s1 = set_usage s tok nu
  end.
Proof.
  unfold limit_step. destruct (limited s snd tok) as [lc|]; [|intros H; now inversion H].
  destruct (next_usage _ h a (usages s tok)) as [nu|]; [|discriminate].
  rewrite g_exceeded. destruct (u_total nu >? lc_limit lc) eqn:E; [discriminate|].
  intros H; inversion H; subst. exists nu. repeat split; auto.
  rewrite Z.gtb_ltb in E. apply Z.ltb_ge in E. lia.
Qed.

(** (P) within the limit = not rejected by the limiter: the limiter rejects exactly when the
    tally of the current window plus the amount exceeds the limit. *)
Lemma limit_rejection_justified h snd tok a s s1 :
  limit_step h snd tok a s = (s1, Err ELimit) ->
  exists lc nu, limited s snd tok = Some lc /\
    next_usage (block_limit (lc_period lc)) h a (usages s tok) = Some nu /\ lc_limit lc < u_total nu.
Proof.
  unfold limit_step. destruct (limited s snd tok) as [lc|]; [|discriminate].
  destruct (next_usage _ h a (usages s tok)) as [nu|] eqn:E; [|discriminate].
  rewrite g_exceeded. destruct (u_total nu >? lc_limit lc) eqn:E1; [|discriminate].
  intros _. exists lc, nu. repeat split; auto. rewrite Z.gtb_ltb in E1. apply Z.ltb_lt in E1. lia.
Qed.

(** ** The tax *)
Definition tax_wf (s : state) : Prop :=
  forall tok tc, taxes s tok = Some tc -> 0 <= tc_num tc /\ 0 < tc_den tc.

(** floor(a * rate) for the sender as the property states it *)
Definition spec_tax (s : state) (snd tok a : Z) : Z :=
  match taxes s tok with
  | Some tc => if mem snd (tc_exempt tc) then 0 else a * tc_num tc / tc_den tc
  | None => 0
  end.

Lemma tax_amount_spec s snd tok a tax : tax_wf s -> 0 <= a ->
  tax_amount s snd tok a = Some tax -> tax = spec_tax s snd tok a.
Proof.
  intros WF Ha. unfold tax_amount, tax_applies, spec_tax. rewrite g_tax_ex. simpl.
  destruct (taxes s tok) as [tc|] eqn:E; [|intros H; now inversion H].
  destruct (WF _ _ E) as [Hn Hd].
  destruct (tc_num tc =? 0) eqn:E0.
  - apply Z.eqb_eq in E0. intros H; inversion H. rewrite E0, Z.mul_0_r, Z.div_0_l by lia.
    now destruct (mem snd (tc_exempt tc)).
  - destruct (mem snd (tc_exempt tc)); [intros H; now inversion H|].
    destruct (fits (tc_num tc) && fits (tc_den tc) && fits (a * tc_num tc)); [|discriminate].
    intros H; inversion H. rewrite g_tax. apply Z.quot_div_nonneg; nia.
Qed.

Lemma spec_tax_nonneg s snd tok a : tax_wf s -> 0 <= a -> 0 <= spec_tax s snd tok a.
Proof.
  intros WF Ha. unfold spec_tax. destruct (taxes s tok) as [tc|] eqn:E; [|lia].
  destruct (WF _ _ E). destruct (mem snd (tc_exempt tc)); [lia|]. apply Z.div_pos; nia.
Qed.

(** the integer expression is the rational floor *)
Lemma floor_is_Qfloor a num den : 0 < den ->
  Qfloor (inject_Z a * (num # Z.to_pos den)) = a * num / den.
Proof.
  intros Hd. unfold Qfloor, Qmult, inject_Z. simpl Qnum. simpl Qden.
  rewrite Pos.mul_1_l. rewrite Z2Pos.id by assumption. reflexivity.
Qed.

(** the floor does not depend on the representation of the rate (lowest terms or not) *)
Lemma floor_scale_invariant a num den k : 0 < den -> 0 < k -> a * (k * num) / (k * den) = a * num / den.
Proof.
  intros Hd Hk. replace (a * (k * num)) with (k * (a * num)) by ring.
  apply Z.div_mul_cancel_l; lia.
Qed.

(** ** Send *)
Lemma send_ok_inv h snd tok a mal s s' : send_raw h snd tok a mal s = (s', Ok) ->
  mal = false /\ mapped s tok = true /\ 0 <= a /\
  exists s1 tax, limit_step h snd tok a s = (s1, Ok) /\ tax_amount s1 snd tok a = Some tax /\
     fits (a + tax) = true /\ 0 < a + tax <= bal s1 snd tok /\ s' = lock s1 snd tok a tax.
Proof.
  unfold send_raw. rewrite g_lock.
  destruct mal; [discriminate|]. destruct (mapped s tok); [|discriminate]. simpl negb. cbv iota.
  destruct (a <? 0) eqn:Ea; [discriminate|]. apply Z.ltb_ge in Ea.
  destruct (limit_step h snd tok a s) as [s1 r] eqn:EL. destruct r; try (intros H; discriminate H).
  destruct (tax_amount s1 snd tok a) as [tax|] eqn:ET; [|discriminate].
  destruct (fits (a + tax)) eqn:EF; [|discriminate]. simpl negb. cbv iota.
  destruct (a + tax <=? 0) eqn:E0; [discriminate|]. apply Z.leb_gt in E0.
  destruct (bal s1 snd tok <? a + tax) eqn:EB; [discriminate|]. apply Z.ltb_ge in EB.
  intros H; inversion H; subst. repeat split; auto. exists s1, tax. repeat split; auto; lia.
Qed.

(** (P) cost_is_a_plus_floor *)
Lemma send_cost h snd tok a mal s s' : tax_wf s ->
  deliver (Send h snd tok a mal) s = (s', Ok) ->
  0 <= a /\
  bal s' snd tok = bal s snd tok - (a + spec_tax s snd tok a) /\
  escrow s' tok = escrow s tok + (a + spec_tax s snd tok a) /\
  (forall a' t', (a', t') <> (snd, tok) -> bal s' a' t' = bal s a' t') /\
  (forall t', t' <> tok -> escrow s' t' = escrow s t') /\
  burned s' = burned s.
Proof.
  intros WF H. apply deliver_ok in H. simpl in H.
  apply send_ok_inv in H as (_ & _ & Ha & s1 & tax & HL & HT & _ & _ & ->).
  apply limit_step_frame in HL as (Hb & He & Hbu & _ & _ & _ & _ & _ & Htx & _).
  assert (WF1 : tax_wf s1) by (unfold tax_wf; now rewrite Htx).
  apply tax_amount_spec in HT; auto. subst tax.
  assert (ES : spec_tax s1 snd tok a = spec_tax s snd tok a) by (unfold spec_tax; now rewrite Htx).
  unfold lock. rewrite g_lock. simpl. rewrite ES, Hb, He, Hbu.
  repeat split; auto.
  - now rewrite upd2_same.
  - now rewrite upd_same.
  - intros a' t' Hne. now apply upd2_other.
  - intros t' Hne. now apply upd_other.
Qed.

(** the three cases of the property statement *)
Lemma spec_tax_cases s snd tok a :
  (forall tc, taxes s tok = Some tc -> mem snd (tc_exempt tc) = false ->
     spec_tax s snd tok a = a * tc_num tc / tc_den tc) /\
  (forall tc, taxes s tok = Some tc -> mem snd (tc_exempt tc) = true -> spec_tax s snd tok a = 0) /\
  (taxes s tok = None -> spec_tax s snd tok a = 0).
Proof.
  unfold spec_tax. repeat split.
  - intros tc -> ->. reflexivity.
  - intros tc -> ->. reflexivity.
  - intros ->. reflexivity.
Qed.

(** (P) tax recorded with the transfer *)
Lemma send_records h snd tok a mal s s' : tax_wf s ->
  deliver (Send h snd tok a mal) s = (s', Ok) ->
  pool s' = {| t_id := last_id s + 1; t_sender := snd; t_tok := tok; t_amount := a;
               t_tax := spec_tax s snd tok a |} :: pool s /\
  batches s' = batches s /\ last_id s' = last_id s + 1.
Proof.
  intros WF H. apply deliver_ok in H. simpl in H.
  apply send_ok_inv in H as (_ & _ & Ha & s1 & tax & HL & HT & _ & _ & ->).
  apply limit_step_frame in HL as (_ & _ & _ & Hp & Hbt & Hid & _ & _ & Htx & _).
  assert (WF1 : tax_wf s1) by (unfold tax_wf; now rewrite Htx).
  apply tax_amount_spec in HT; auto. subst tax.
  assert (ES : spec_tax s1 snd tok a = spec_tax s snd tok a) by (unfold spec_tax; now rewrite Htx).
  unfold lock. rewrite g_rec_tax, g_rec_amount. simpl. rewrite ES, Hp, Hbt, Hid. auto.
Qed.

(** ** Cancel and execute *)
(** (P) refunded in full on cancellation *)
Lemma cancel_refunds snd id s s' :
  deliver (Cancel snd id) s = (s', Ok) ->
  exists t, find_tx id (pool s) = Some t /\ t_sender t = snd /\
    bal s' snd (t_tok t) = bal s snd (t_tok t) + (t_amount t + t_tax t) /\
    escrow s' (t_tok t) = escrow s (t_tok t) - (t_amount t + t_tax t) /\
    (forall a' t', (a', t') <> (snd, t_tok t) -> bal s' a' t' = bal s a' t') /\
    (forall t', t' <> t_tok t -> escrow s' t' = escrow s t') /\
    burned s' = burned s /\ pool s' = remove_tx id (pool s) /\ usages s' = usages s.
Proof.
  intros H. apply deliver_ok in H. simpl in H. unfold cancel_raw in H.
  destruct (id <? 1); [discriminate|].
  destruct (find_tx id (pool s)) as [t|] eqn:EF; [|discriminate].
  destruct (t_sender t =? snd) eqn:ES; [|discriminate]. simpl in H. apply Z.eqb_eq in ES.
  destruct (escrow s (t_tok t) <? refund_of t); [discriminate|].
  inversion H; subst; clear H. exists t. unfold refund_of. rewrite g_refund. simpl.
  repeat split; auto.
  - now rewrite upd2_same.
  - now rewrite upd_same.
  - intros a' t' Hne. now apply upd2_other.
  - intros t' Hne. now apply upd_other.
Qed.

(** (P) burned on execution *)
Lemma execute_burns tok nonce s s' :
  deliver (Execute tok nonce) s = (s', Ok) ->
  exists b, find_batch tok nonce (batches s) = Some b /\
    escrow s' tok = escrow s tok - sum_of locked_of (b_txs b) /\
    burned s' tok = burned s tok + sum_of locked_of (b_txs b) /\
    bal s' = bal s /\ pool s' = pool s /\ usages s' = usages s /\
    (forall t', t' <> tok -> escrow s' t' = escrow s t' /\ burned s' t' = burned s t').
Proof.
  intros H. apply deliver_ok in H. simpl in H. unfold execute_raw in H.
  destruct (find_batch tok nonce (batches s)) as [b|] eqn:EF; [|discriminate].
  destruct (escrow s tok <? sum_of burn_of (b_txs b)); [discriminate|].
  inversion H; subst; clear H. exists b.
  assert (EB : sum_of burn_of (b_txs b) = sum_of locked_of (b_txs b)).
  { induction (b_txs b) as [|t r IH]; simpl; [reflexivity|]. rewrite IH. unfold burn_of, locked_of. now rewrite g_burn. }
  simpl. rewrite EB. repeat split; auto.
  - now rewrite upd_same.
  - now rewrite upd_same.
  - now apply upd_other.
  - now apply upd_other.
Qed.

(** ** Batch building: which transfers, and that nothing else changes *)
Lemma in_insert_tx t x l : In t (insert_tx x l) <-> t = x \/ In t l.
Proof.
  induction l as [|y r IH]; simpl; [intuition|].
  destruct (picked_before y x); simpl; rewrite ?IH; intuition.
Qed.

Lemma in_pick_order t l : In t (pick_order l) <-> In t l.
Proof.
  unfold pick_order. destruct G.batch_picks_largest_amount_then_id_first; [|reflexivity].
  induction l as [|x r IH]; simpl; [reflexivity|]. rewrite in_insert_tx, IH. intuition.
Qed.

Lemma batch_frame tok s s' r : batch_raw tok s = (s', r) ->
  bal s' = bal s /\ escrow s' = escrow s /\ burned s' = burned s /\ last_id s' = last_id s /\
  mapped s' = mapped s /\ taxes s' = taxes s /\ limits s' = limits s /\ usages s' = usages s.
Proof.
  unfold batch_raw. destruct (negb _); [intros H; inversion H; subst; repeat split|].
  destruct (firstn _ _); intros H; inversion H; subst; repeat split.
Qed.

Lemma batch_pending_in tok s s' r t : batch_raw tok s = (s', r) ->
  In t (pool s' ++ flat_map b_txs (batches s')) -> In t (pool s ++ flat_map b_txs (batches s)).
Proof.
  unfold batch_raw. destruct (negb _); [intros H; inversion H; subst; auto|].
  set (cands := pick_order (filter (of_tok tok) (pool s))).
  assert (HC : forall x, In x cands -> In x (pool s)).
  { intros x Hx. unfold cands in Hx. apply (proj1 (in_pick_order _ _)) in Hx. now apply filter_In in Hx. }
  destruct (firstn batch_cap cands) as [|t0 sel] eqn:EF; intros H; inversion H; subst; clear H; auto.
  simpl. rewrite !in_app_iff. intros [[Hi|Hi]|[Hi|Hi]].
  - left. apply HC. rewrite <- (firstn_skipn batch_cap cands). apply in_app_iff. now right.
  - left. now apply filter_In in Hi.
  - left. apply HC. rewrite <- (firstn_skipn batch_cap cands). apply in_app_iff. left. rewrite EF. now left.
  - apply in_app_iff in Hi. destruct Hi as [Hi|Hi]; [|now right].
    left. apply HC. rewrite <- (firstn_skipn batch_cap cands). apply in_app_iff. left. rewrite EF. now right.
Qed.

(** a batch never holds more than the cap, and takes the first [batch_cap] candidates in pick order *)
Lemma batch_at_most_cap tok s s' : batch_raw tok s = (s', Ok) ->
  s' = s \/ exists b, batches s' = b :: batches s /\ b_tok b = tok /\ b_nonce b = last_batch s + 1 /\
    b_txs b = firstn batch_cap (pick_order (filter (of_tok tok) (pool s))) /\
    (List.length (b_txs b) <= batch_cap)%nat /\ b_txs b <> [] /\
    pool s' = skipn batch_cap (pick_order (filter (of_tok tok) (pool s))) ++ filter (fun t => negb (of_tok tok t)) (pool s).
Proof.
  unfold batch_raw. destruct (negb _); [discriminate|].
  destruct (firstn batch_cap _) as [|t0 sel] eqn:EF; intros H; inversion H; subst; clear H; [now left|].
  right. exists {| b_nonce := last_batch s + 1; b_tok := tok; b_txs := t0 :: sel |}. simpl.
  repeat split; auto.
  - change (List.length (t0 :: sel) <= batch_cap)%nat. rewrite <- EF. apply firstn_le_length.
  - discriminate.
Qed.

(** ** Frame facts for histories *)
Definition is_setlimit (tok : Z) (o : op) : bool :=
  match o with SetLimit t _ _ _ => t =? tok | _ => false end.

Lemma step_limits tok o s : is_setlimit tok o = false -> limits (step s o) tok = limits s tok.
Proof.
  intros H. unfold step, deliver. destruct (raw o s) as [s1 r] eqn:ER.
  destruct r; simpl; try reflexivity.
  destruct o; simpl in ER.
  - apply send_ok_inv in ER as (_ & _ & _ & s2 & tax & HL & _ & _ & _ & ->).
    apply limit_step_frame in HL as (_ & _ & _ & _ & _ & _ & _ & _ & _ & Hl & _).
    unfold lock. simpl. now rewrite Hl.
  - unfold cancel_raw in ER. destruct (id <? 1); [discriminate|].
    destruct (find_tx id (pool s)); [|discriminate].
    destruct (negb _); [discriminate|]. destruct (_ <? _); [discriminate|]. now inversion ER.
  - apply batch_frame in ER as (_ & _ & _ & _ & _ & _ & Hl & _). now rewrite Hl.
  - unfold execute_raw in ER. destruct (find_batch _ _ _); [|discriminate].
    destruct (_ <? _); [discriminate|]. now inversion ER.
  - unfold unbatch_raw in ER. destruct (find_batch _ _ _); [|discriminate]. now inversion ER.
  - unfold settax_raw in ER. destruct (_ && _); [|discriminate]. now inversion ER.
  - unfold setlimit_raw in ER. inversion ER; subst. simpl. simpl in H.
    apply upd_other. intros ->. rewrite Z.eqb_refl in H. discriminate.
  - unfold genesis_raw in ER. inversion ER; subst. simpl. try rewrite g_gen_settings; reflexivity.
Qed.

(** Only an accepted send of the same token can change a token's tally. *)
Lemma step_usages_other tok o s :
  (forall h snd a mal, o <> Send h snd tok a mal) -> o <> Genesis -> usages (step s o) tok = usages s tok.
Proof.
  intros H HG. unfold step, deliver. destruct (raw o s) as [s1 r] eqn:ER.
  destruct r; simpl; try reflexivity.
  destruct o; simpl in ER.
  - apply send_ok_inv in ER as (_ & _ & _ & s2 & tax & HL & _ & _ & _ & ->).
    apply limit_step_frame in HL as (_ & _ & _ & _ & _ & _ & _ & _ & _ & _ & Hu).
    unfold lock. simpl. apply Hu. intros ->. now apply (H h snd a mal).
  - unfold cancel_raw in ER. destruct (id <? 1); [discriminate|].
    destruct (find_tx id (pool s)); [|discriminate].
    destruct (negb _); [discriminate|]. destruct (_ <? _); [discriminate|]. now inversion ER.
  - apply batch_frame in ER as (_ & _ & _ & _ & _ & _ & _ & Hu). now rewrite Hu.
  - unfold execute_raw in ER. destruct (find_batch _ _ _); [|discriminate].
    destruct (_ <? _); [discriminate|]. now inversion ER.
  - unfold unbatch_raw in ER. destruct (find_batch _ _ _); [|discriminate]. now inversion ER.
  - unfold settax_raw in ER. destruct (_ && _); [|discriminate]. now inversion ER.
  - unfold setlimit_raw in ER. now inversion ER.
  - contradiction.
Qed.

(** What a send does to the tally of its token, in terms of [counted]. *)
Lemma send_step_usage tok h snd a mal s :
  match counted tok (s, Send h snd tok a mal, Datatypes.snd (deliver (Send h snd tok a mal) s)) with
  | None => usages (step s (Send h snd tok a mal)) tok = usages s tok
  | Some (h', a') => h' = h /\ a' = a /\ 0 <= a /\
      exists lc nu, limited s snd tok = Some lc /\
        next_usage (block_limit (lc_period lc)) h a (usages s tok) = Some nu /\
        u_total nu <= lc_limit lc /\ usages (step s (Send h snd tok a mal)) tok = Some nu
  end.
Proof.
  unfold step, deliver. simpl raw. destruct (send_raw h snd tok a mal s) as [s1 r] eqn:ER.
  destruct r; simpl; try reflexivity.
  rewrite Z.eqb_refl.
  apply send_ok_inv in ER as (_ & _ & Ha & s2 & tax & HL & _ & _ & _ & ->).
  pose proof (limit_step_ok _ _ _ _ _ _ HL) as HK.
  destruct (limited s snd tok) as [lc|].
  - destruct HK as (nu & Hn & Hle & ->). repeat split; auto.
    exists lc, nu. repeat split; auto. unfold lock, set_usage. simpl. now rewrite upd_same.
  - subst s2. reflexivity.
Qed.

(** ** Windows *)
Lemma accepted_cons tok s o ops :
  accepted tok s (o :: ops) =
  match counted tok (s, o, Datatypes.snd (deliver o s)) with
  | Some y => y :: accepted tok (step s o) ops
  | None => accepted tok (step s o) ops
  end.
Proof. reflexivity. Qed.

Lemma counted_not_send tok s o r : (forall h snd tk a mal, o <> Send h snd tk a mal) -> counted tok (s, o, r) = None.
Proof. intros H. destruct o; try reflexivity. exfalso. eapply H. reflexivity. Qed.

Lemma counted_other_tok tok s h snd tk a mal r : tk <> tok -> counted tok (s, Send h snd tk a mal, r) = None.
Proof.
  intros H. simpl. destruct r; auto. destruct (tk =? tok) eqn:E; auto. apply Z.eqb_eq in E. contradiction.
Qed.

Lemma wsums_nonempty L st tot l : wsums L st tot l <> [].
Proof.
  revert st tot. induction l as [|[h1 a1] l IHl]; intros st tot; simpl; [discriminate|].
  destruct (h1 - st >=? L); [discriminate | apply IHl].
Qed.

Definition no_setlimit (tok : Z) (ops : list op) : Prop := Forall (fun o => is_setlimit tok o = false) ops.
(** no chain restart from an exported genesis inside the history (the usage tally is not exported) *)
Definition no_genesis (ops : list op) : Prop := Forall (fun o => o <> Genesis) ops.

(** Generalised invariant: the stored tally IS the running total of the current window of the
    accepted transfers, and every closed window was within the limit. *)
Lemma windows_from_usage tok lc : lc_period lc <> PNone ->
  forall ops s u, limits s tok = Some lc -> no_setlimit tok ops -> no_genesis ops ->
    usages s tok = Some u -> u_total u <= lc_limit lc ->
    Forall (fun w => w <= lc_limit lc) (wsums (block_limit (lc_period lc)) (u_start u) (u_total u) (accepted tok s ops)) /\
    exists u', usages (run s ops) tok = Some u' /\
      last (wsums (block_limit (lc_period lc)) (u_start u) (u_total u) (accepted tok s ops)) 0 = u_total u'.
Proof.
  intros HP. induction ops as [|o ops IH]; intros s u HL HN HG HU Hle.
  - simpl. split; [constructor; auto|]. exists u. auto.
  - inversion HN as [|? ? Ho HN']; subst. inversion HG as [|? ? Hog HG']; subst.
    rewrite accepted_cons.
    assert (HL' : limits (step s o) tok = Some lc) by (rewrite step_limits; auto).
    change (run s (o :: ops)) with (run (step s o) ops).
    assert (NS : (exists h snd a mal, o = Send h snd tok a mal) \/
                 (counted tok (s, o, Datatypes.snd (deliver o s)) = None /\ usages (step s o) tok = usages s tok)).
    { destruct o as [h snd tk a mal| | | | | | |];
        try (right; split; [apply counted_not_send; intros; discriminate | apply step_usages_other; [intros; discriminate | exact Hog]]).
      destruct (Z.eq_dec tk tok) as [->|Hne]; [left; eauto|].
      right. split; [now apply counted_other_tok|]. apply step_usages_other; [|discriminate]. intros h0 s0 a0 m0 E. inversion E. contradiction. }
    destruct NS as [(h & snd & a & mal & ->)|[EC EU]].
    + pose proof (send_step_usage tok h snd a mal s) as HS.
      destruct (counted tok (s, Send h snd tok a mal, Datatypes.snd (deliver (Send h snd tok a mal) s))) as [[h' a']|].
      * destruct HS as (-> & -> & Ha & lc' & nu & Hlim & Hnu & Hnle & Hus).
        apply limited_some in Hlim as (Hlc & _ & _). rewrite HL in Hlc. inversion Hlc; subst lc'. clear Hlc.
        unfold next_usage in Hnu. rewrite HU, g_restart, g_fresh, g_running in Hnu.
        simpl wsums.
        destruct (h - u_start u >=? block_limit (lc_period lc)) eqn:ER.
        -- inversion Hnu; subst nu; clear Hnu. simpl in Hnle.
           destruct (IH _ _ HL' HN' HG' Hus Hnle) as [IH1 IH2]. simpl in IH1, IH2.
           split; [constructor; auto|].
           destruct IH2 as (u' & Hu' & Hlast). exists u'. split; auto.
           rewrite <- Hlast.
           destruct (wsums (block_limit (lc_period lc)) h a (accepted tok (step s (Send h snd tok a mal)) ops)) eqn:EW; auto.
           exfalso. eapply wsums_nonempty; eauto.
        -- destruct (fits (u_total u + a)); [|discriminate].
           inversion Hnu; subst nu; clear Hnu. simpl in Hnle.
           destruct (IH _ _ HL' HN' HG' Hus Hnle) as [IH1 IH2]. simpl in IH1, IH2. split; auto.
      * specialize (IH (step s (Send h snd tok a mal)) u HL' HN' HG'). rewrite HS in IH. now apply IH.
    + rewrite EC. specialize (IH (step s o) u HL' HN' HG'). rewrite EU in IH. now apply IH.
Qed.

(** (P) window_total_le_limit: fixed limit configuration for [tok] (governance may change
    everything else, including taxes and other tokens' limits), tally not yet started. *)
Lemma window_total_le_limit_fresh tok lc ops s :
  limits s tok = Some lc -> lc_period lc <> PNone -> usages s tok = None -> no_setlimit tok ops -> no_genesis ops ->
  Forall (fun w => w <= lc_limit lc) (window_sums (block_limit (lc_period lc)) (accepted tok s ops)).
Proof.
  intros HL HP. revert s HL. induction ops as [|o ops IH]; intros s HL HU HN HG.
  - constructor.
  - inversion HN as [|? ? Ho HN']; subst. inversion HG as [|? ? Hog HG']; subst.
    rewrite accepted_cons.
    assert (HL' : limits (step s o) tok = Some lc) by (rewrite step_limits; auto).
    assert (NS : (exists h snd a mal, o = Send h snd tok a mal) \/
                 (counted tok (s, o, Datatypes.snd (deliver o s)) = None /\ usages (step s o) tok = usages s tok)).
    { destruct o as [h snd tk a mal| | | | | | |];
        try (right; split; [apply counted_not_send; intros; discriminate | apply step_usages_other; [intros; discriminate | exact Hog]]).
      destruct (Z.eq_dec tk tok) as [->|Hne]; [left; eauto|].
      right. split; [now apply counted_other_tok|]. apply step_usages_other; [|discriminate]. intros h0 s0 a0 m0 E. inversion E. contradiction. }
    destruct NS as [(h & snd & a & mal & ->)|[EC EU]].
    + pose proof (send_step_usage tok h snd a mal s) as HS.
      destruct (counted tok (s, Send h snd tok a mal, Datatypes.snd (deliver (Send h snd tok a mal) s))) as [[h' a']|].
      * destruct HS as (-> & -> & Ha & lc' & nu & Hlim & Hnu & Hnle & Hus).
        apply limited_some in Hlim as (Hlc & _ & _). rewrite HL in Hlc. inversion Hlc; subst lc'. clear Hlc.
        unfold next_usage in Hnu. rewrite HU, g_fresh in Hnu. inversion Hnu; subst nu; clear Hnu.
        simpl in Hnle. simpl window_sums.
        apply (proj1 (windows_from_usage tok lc HP ops _ _ HL' HN' HG' Hus Hnle)).
      * apply IH; auto. now rewrite HS.
    + rewrite EC. apply IH; auto. now rewrite EU.
Qed.

(** ** Unrestricted senders and tokens *)
(** (P) exempt_and_unlimited_unrestricted *)
Lemma unrestricted_send h snd tok a s :
  unrestricted s snd tok ->
  (* the limiter neither rejects nor counts: *)
  limit_step h snd tok a s = (s, Ok) /\
  Datatypes.snd (deliver (Send h snd tok a false) s) <> Err ELimit /\
  usages (step s (Send h snd tok a false)) = usages s /\
  (* and whatever the tally and the limit say, a payable transfer is accepted: *)
  (forall tax, mapped s tok = true -> 0 <= a -> tax_amount s snd tok a = Some tax ->
     fits (a + tax) = true -> 0 < a + tax <= bal s snd tok ->
     Datatypes.snd (deliver (Send h snd tok a false) s) = Ok).
Proof.
  intros HU. pose proof (limit_step_unrestricted h snd tok a s HU) as HL.
  split; [exact HL|].
  assert (HR : forall s1 r, send_raw h snd tok a false s = (s1, r) -> r <> Err ELimit /\ usages s1 = usages s).
  { unfold send_raw. rewrite HL. destruct (negb (mapped s tok)); [intros ? ? H; inversion H; split; [discriminate|auto]|].
    destruct (a <? 0); [intros ? ? H; inversion H; split; [discriminate|auto]|].
    destruct (tax_amount s snd tok a) as [tax|]; [|intros ? ? H; inversion H; split; [discriminate|auto]].
    destruct (negb (fits (a + tax))); [intros ? ? H; inversion H; split; [discriminate|auto]|].
    destruct (_ <=? 0); [intros ? ? H; inversion H; split; [discriminate|auto]|].
    destruct (_ <? _); intros ? ? H; inversion H; split; try discriminate; auto. }
  unfold step, deliver. change (raw (Send h snd tok a false) s) with (send_raw h snd tok a false s).
  destruct (send_raw h snd tok a false s) as [s1 r] eqn:ER.
  destruct (HR s1 r eq_refl) as [Hr Hus].
  repeat split.
  - destruct r; simpl; try discriminate; try exact Hr.
  - destruct r; simpl; auto.
  - intros tax Hm Ha HT HF [Hpos Hbal].
    unfold send_raw in ER. rewrite HL, Hm, HT, HF, g_lock in ER. simpl negb in ER. cbv iota in ER.
    destruct (a <? 0) eqn:E1; [apply Z.ltb_lt in E1; lia|].
    destruct (a + tax <=? 0) eqn:E2; [apply Z.leb_le in E2; lia|].
    destruct (bal s snd tok <? a + tax) eqn:E3; [apply Z.ltb_lt in E3; lia|].
    inversion ER; subst. reflexivity.
Qed.

(** ** Pending records are never modified: whatever is pending (pool or batch) after a step was
    pending before, or is the record the accepted send of this step created. *)
Definition pending (s : state) : list transfer := pool s ++ flat_map b_txs (batches s).

Lemma find_batch_in tok nonce l b : find_batch tok nonce l = Some b -> In b l.
Proof. unfold find_batch. intros H. now apply find_some in H. Qed.

Lemma in_flat_remove tok nonce l t :
  In t (flat_map b_txs (remove_batch tok nonce l)) -> In t (flat_map b_txs l).
Proof.
  unfold remove_batch. rewrite !in_flat_map. intros (b & Hb & Ht). exists b. split; auto.
  now apply filter_In in Hb.
Qed.

Lemma step_pending o s t : tax_wf s -> In t (pending (step s o)) ->
  In t (pending s) \/
  exists h snd tok a mal, o = Send h snd tok a mal /\ Datatypes.snd (deliver o s) = Ok /\
    t = {| t_id := last_id s + 1; t_sender := snd; t_tok := tok; t_amount := a; t_tax := spec_tax s snd tok a |}.
Proof.
  intros WF. unfold step. destruct (deliver o s) as [s' r] eqn:ED. simpl.
  destruct r; try (pose proof (deliver_failed_noop o s) as HN; rewrite ED in HN; simpl in HN;
                   rewrite HN by discriminate; auto).
  destruct o.
  - destruct (send_records _ _ _ _ _ _ _ WF ED) as (Hp & Hb & _).
    unfold pending. rewrite Hp, Hb. simpl. intros [<-|H]; [right|left; exact H].
    exists h, snd, tok, a, mal. auto.
  - apply deliver_ok in ED. simpl in ED. unfold cancel_raw in ED.
    destruct (id <? 1); [discriminate|]. destruct (find_tx id (pool s)); [|discriminate].
    destruct (negb _); [discriminate|]. destruct (_ <? _); [discriminate|]. inversion ED; subst; clear ED.
    unfold pending. simpl. rewrite !in_app_iff. intros [H|H]; left; auto.
    left. unfold remove_tx in H. now apply filter_In in H.
  - apply deliver_ok in ED. simpl in ED. intros H. left. unfold pending in *.
    eapply batch_pending_in; eauto.
  - apply deliver_ok in ED. simpl in ED. unfold execute_raw in ED.
    destruct (find_batch tok nonce (batches s)); [|discriminate].
    destruct (_ <? _); [discriminate|]. inversion ED; subst; clear ED.
    unfold pending. simpl. rewrite !in_app_iff. intros [H|H]; left; auto.
    right. eapply in_flat_remove; eauto.
  - apply deliver_ok in ED. simpl in ED. unfold unbatch_raw in ED.
    destruct (find_batch tok nonce (batches s)) as [b|] eqn:EB; [|discriminate]. inversion ED; subst; clear ED.
    unfold pending. simpl. rewrite !in_app_iff. intros [[H|H]|H]; left; auto.
    + right. apply in_flat_map. exists b. split; auto. eapply find_batch_in; eauto.
    + right. eapply in_flat_remove; eauto.
  - apply deliver_ok in ED. simpl in ED. unfold settax_raw in ED.
    destruct (_ && _); [|discriminate]. inversion ED; subst. auto.
  - apply deliver_ok in ED. simpl in ED. unfold setlimit_raw in ED. inversion ED; subst. auto.
  - apply deliver_ok in ED. simpl in ED. unfold genesis_raw in ED. inversion ED; subst. auto.
Qed.

(** ** Well-formed tax configuration is an invariant of governance *)
Definition op_wf (o : op) : Prop :=
  match o with SetTax _ true _ den _ => 0 < den | _ => True end.

Lemma step_tax_wf o s : tax_wf s -> op_wf o -> tax_wf (step s o).
Proof.
  intros WF HO. unfold step, deliver. destruct (raw o s) as [s1 r] eqn:ER.
  destruct r; simpl; auto.
  destruct o; simpl in ER.
  - apply send_ok_inv in ER as (_ & _ & _ & s2 & tax & HL & _ & _ & _ & ->).
    apply limit_step_frame in HL as (_ & _ & _ & _ & _ & _ & _ & _ & Htx & _).
    unfold tax_wf, lock. simpl. now rewrite Htx.
  - unfold cancel_raw in ER. destruct (id <? 1); [discriminate|].
    destruct (find_tx id (pool s)); [|discriminate].
    destruct (negb _); [discriminate|]. destruct (_ <? _); [discriminate|]. now inversion ER.
  - apply batch_frame in ER as (_ & _ & _ & _ & _ & Htx & _). unfold tax_wf. now rewrite Htx.
  - unfold execute_raw in ER. destruct (find_batch _ _ _); [|discriminate].
    destruct (_ <? _); [discriminate|]. now inversion ER.
  - unfold unbatch_raw in ER. destruct (find_batch _ _ _); [|discriminate]. now inversion ER.
  - unfold settax_raw in ER. rewrite g_gov_tax in ER. destruct ok; simpl in ER; [|discriminate].
    destruct (0 <=? num) eqn:EN; [|discriminate]. apply Z.leb_le in EN.
    inversion ER; subst. unfold tax_wf, set_tax. simpl. intros tk tc. unfold upd.
    destruct (tk =? tok); [intros H; inversion H; subst; simpl; simpl in HO; lia | apply WF].
  - unfold setlimit_raw in ER. now inversion ER.
  - unfold genesis_raw in ER. inversion ER; subst. unfold tax_wf. simpl. try rewrite g_gen_settings. exact WF.
Qed.

Lemma tax_wf_run ops s : tax_wf s -> Forall op_wf ops -> tax_wf (run s ops).
Proof.
  revert s. induction ops as [|o ops IH]; intros s WF HF; [exact WF|].
  inversion HF; subst. simpl. apply IH; auto. now apply step_tax_wf.
Qed.

Lemma tax_wf_init bals mp : tax_wf (init bals mp).
Proof. unfold tax_wf, init. simpl. discriminate. Qed.

(** ** Configuration = what governance submitted, verbatim, under exactly the submitted token.
    [cfg_tax tok cur o]: the tax settings of [tok] after operation [o] when they were [cur] before,
    read off the operation alone: only an accepted proposal for exactly [tok] replaces them. *)
Definition cfg_tax (tok : Z) (cur : option taxcfg) (o : op) : option taxcfg :=
  match o with
  | SetTax t ok num den ex =>
      if (t =? tok) && ok && (0 <=? num) then Some {| tc_num := num; tc_den := den; tc_exempt := ex |} else cur
  | _ => cur
  end.
Definition cfg_limit (tok : Z) (cur : option limcfg) (o : op) : option limcfg :=
  match o with
  | SetLimit t limit p ex => if t =? tok then Some {| lc_limit := limit; lc_period := p; lc_exempt := ex |} else cur
  | _ => cur
  end.

Lemma step_cfg tok o s :
  taxes (step s o) tok = cfg_tax tok (taxes s tok) o /\ limits (step s o) tok = cfg_limit tok (limits s tok) o.
Proof.
  unfold step, deliver. destruct (raw o s) as [s1 r] eqn:ER.
  destruct o; simpl in ER.
  - destruct r; simpl; auto.
    apply send_ok_inv in ER as (_ & _ & _ & s2 & tax & HL & _ & _ & _ & ->).
    apply limit_step_frame in HL as (_ & _ & _ & _ & _ & _ & _ & _ & Htx & Hl & _).
    unfold lock. simpl. now rewrite Hl, Htx.
  - destruct r; simpl; auto.
    unfold cancel_raw in ER. destruct (id <? 1); [discriminate|].
    destruct (find_tx id (pool s)); [|discriminate].
    destruct (negb _); [discriminate|]. destruct (_ <? _); [discriminate|]. now inversion ER.
  - destruct r; simpl; auto.
    apply batch_frame in ER as (_ & _ & _ & _ & _ & Htx & Hl & _). now rewrite Htx, Hl.
  - destruct r; simpl; auto.
    unfold execute_raw in ER. destruct (find_batch _ _ _); [|discriminate].
    destruct (_ <? _); [discriminate|]. now inversion ER.
  - destruct r; simpl; auto.
    unfold unbatch_raw in ER. destruct (find_batch _ _ _); [|discriminate]. now inversion ER.
  - unfold settax_raw in ER. rewrite g_gov_tax in ER. simpl cfg_tax. simpl cfg_limit.
    destruct (ok && (0 <=? num)) eqn:EO.
    + inversion ER; subst; clear ER. simpl. unfold upd. rewrite (Z.eqb_sym tok0 tok).
      destruct (tok =? tok0); simpl.
      * destruct ok; [|discriminate]. simpl in EO. rewrite EO. auto.
      * auto.
    + inversion ER; subst; clear ER. simpl. split; auto.
      destruct (tok0 =? tok); simpl; auto. destruct ok; simpl in *; auto. now rewrite EO.
  - unfold setlimit_raw in ER. rewrite g_gov_limit in ER. inversion ER; subst; clear ER. simpl.
    unfold upd. rewrite (Z.eqb_sym tok0 tok). destruct (tok =? tok0); auto.
  - unfold genesis_raw in ER. inversion ER; subst; clear ER. simpl. try rewrite g_gen_settings. auto.
Qed.

(** (P) configured_is_applied, over histories: the settings a send of token [tok] meets after any
    history are those of the last accepted proposal whose submitted token is exactly [tok] —
    proposals for any other token (a spelling that differs in case or blanks is another token)
    never touch them. *)
Lemma cfg_run tok ops s :
  taxes (run s ops) tok = fold_left (cfg_tax tok) ops (taxes s tok) /\
  limits (run s ops) tok = fold_left (cfg_limit tok) ops (limits s tok).
Proof.
  revert s. induction ops as [|o ops IH]; intros s; [split; reflexivity|].
  simpl. destruct (IH (step s o)) as [I1 I2]. destruct (step_cfg tok o s) as [S1 S2].
  now rewrite I1, I2, S1, S2.
Qed.

Lemma cfg_other_token tok t' cur1 cur2 ok num den ex limit p ex2 : t' <> tok ->
  cfg_tax tok cur1 (SetTax t' ok num den ex) = cur1 /\ cfg_limit tok cur2 (SetLimit t' limit p ex2) = cur2.
Proof.
  intros H. simpl. destruct (t' =? tok) eqn:E; [apply Z.eqb_eq in E; contradiction|]. auto.
Qed.

(** one accepted proposal, then a send of exactly that token: cost and limit are the submitted ones *)
Lemma settax_then_send tok num den ex s s1 h snd a mal s2 :
  deliver (SetTax tok true num den ex) s = (s1, Ok) -> 0 < den ->
  deliver (Send h snd tok a mal) s1 = (s2, Ok) -> tax_wf s ->
  bal s2 snd tok = bal s snd tok - (a + (if (num =? 0) || mem snd ex then 0 else a * num / den)) /\
  (forall t', t' <> tok -> taxes s1 t' = taxes s t').
Proof.
  intros H1 Hden H2 WF.
  assert (HO : op_wf (SetTax tok true num den ex)) by exact Hden.
  pose proof (step_tax_wf _ _ WF HO) as WF1. unfold step in WF1. rewrite H1 in WF1. simpl in WF1.
  destruct (send_cost _ _ _ _ _ _ _ WF1 H2) as (_ & Hb & _).
  apply deliver_ok in H1. simpl in H1. unfold settax_raw in H1. rewrite g_gov_tax in H1.
  destruct (true && (0 <=? num)) eqn:EO; [|discriminate]. inversion H1; subst s1; clear H1.
  split.
  - rewrite Hb. simpl bal. f_equal. f_equal.
    unfold spec_tax. simpl taxes. rewrite upd_same. simpl.
    destruct (num =? 0) eqn:EN; simpl; [|reflexivity].
    apply Z.eqb_eq in EN. subst num. destruct (mem snd ex); auto. rewrite Z.mul_0_r. apply Z.div_0_l. lia.
  - intros t' Ht. simpl. now apply upd_other.
Qed.

(** (P) over histories: every transfer pending at the end carries exactly the amount and the tax
    computed when the accepted send created it (so cancel refunds and execution burns THAT tax). *)
Lemma pending_origin ops s t : tax_wf s -> Forall op_wf ops -> In t (pending (run s ops)) ->
  In t (pending s) \/
  exists pre h snd tok a mal, In (pre, Send h snd tok a mal, Ok) (trace s ops) /\
    t = {| t_id := last_id pre + 1; t_sender := snd; t_tok := tok; t_amount := a;
           t_tax := spec_tax pre snd tok a |}.
Proof.
  revert s. induction ops as [|o ops IH]; intros s WF HF HI; [left; exact HI|].
  inversion HF; subst. simpl in HI.
  destruct (IH (step s o) (step_tax_wf _ _ WF H1) H2 HI) as [HP|(pre & h & snd & tok & a & mal & Hin & ->)].
  - destruct (step_pending _ _ _ WF HP) as [HP'|(h & snd & tok & a & mal & -> & Hok & ->)]; [left; exact HP'|].
    right. exists s, h, snd, tok, a, mal. split; auto. simpl. left. now rewrite Hok.
  - right. exists pre, h, snd, tok, a, mal. split; auto. simpl. right. exact Hin.
Qed.

(** ** Non-vacuity: a concrete history exercising every clause *)
Definition ex_init : state := init [(0, 0, 1000); (1, 0, 1000); (2, 0, 1000)] [0].
Definition ex_ops : list op :=
  [ SetTax 0 true 1 3 [2];                 (* rate 1/3, account 2 exempt from tax *)
    SetLimit 0 150 PDaily [1];             (* 150 per day, account 1 exempt from the limit *)
    Send 10 0 0 100 false;                 (* ok: costs 133, window [10, 57610) holds 100 *)
    Send 20 0 0 51 false;                  (* rejected: 151 > 150 *)
    Send 57609 2 0 50 false;               (* ok: exempt from tax, costs 50; window holds 150 *)
    Send 57609 1 0 500 false;              (* ok: exempt from the limit, costs 666 *)
    Send 57610 0 0 150 false;              (* ok: new window *)
    Cancel 0 1;                            (* refund 133 *)
    Batch 0; Execute 0 1 ].                (* burns 50 + 666 + 200 *)

Example ex_accepted : accepted 0 ex_init ex_ops = [(10, 100); (57609, 50); (57610, 150)].
Proof. vm_compute. reflexivity. Qed.
Example ex_windows : window_sums (block_limit PDaily) (accepted 0 ex_init ex_ops) = [150; 150].
Proof. vm_compute. reflexivity. Qed.
Example ex_final :
  let s := run ex_init ex_ops in
  (bal s 0 0, bal s 1 0, bal s 2 0, escrow s 0, burned s 0) = (800, 334, 950, 0, 916).
Proof. vm_compute. reflexivity. Qed.
Example ex_outcomes : map (fun e => Datatypes.snd e) (trace ex_init ex_ops) =
  [Ok; Ok; Ok; Err ELimit; Ok; Ok; Ok; Ok; Ok; Ok].
Proof. vm_compute. reflexivity. Qed.
Example ex_pending_mid :
  map (fun t => (t_id t, t_amount t, t_tax t)) (pending (run ex_init (firstn 7 ex_ops))) =
  [(4, 150, 50); (3, 500, 166); (2, 50, 0); (1, 100, 33)].
Proof. vm_compute. reflexivity. Qed.
Example ex_wf : tax_wf ex_init /\ Forall op_wf ex_ops.
Proof. split; [apply tax_wf_init | repeat constructor]. Qed.
(** keeper level: a send that fails AFTER the limiter leaves the tally consumed on the bare
    context — atomicity of the message is what restores it (why the property is about messages). *)
Example ex_keeper_level_not_atomic :
  let s := run ex_init [SetLimit 0 150 PDaily []] in
  let '(s1, r) := raw (Send 10 0 0 100 false) (set_usage s 0 {| u_total := 0; u_start := 10 |}) in
  r = Ok /\
  let '(s2, r2) := raw (Send 10 3 0 100 false) s in
  r2 = Err EFunds /\ usages s2 0 = Some {| u_total := 100; u_start := 10 |} /\
  fst (deliver (Send 10 3 0 100 false) s) = s.
Proof. vm_compute. auto. Qed.

(** ** Genesis export / import *)
(** (P) genesis_carries: what a restart from an exported genesis keeps and what it drops. *)
Lemma genesis_step s :
  deliver Genesis s = (step s Genesis, Ok) /\
  taxes (step s Genesis) = taxes s /\ limits (step s Genesis) = limits s /\
  pool (step s Genesis) = pool s /\ batches (step s Genesis) = batches s /\
  last_id (step s Genesis) = last_id s /\ last_batch (step s Genesis) = last_batch s /\
  bal (step s Genesis) = bal s /\ escrow (step s Genesis) = escrow s /\ burned (step s Genesis) = burned s /\
  (forall tok, usages (step s Genesis) tok = None).
Proof. unfold step, deliver. simpl. intuition. Qed.

(** after the restart every window starts afresh, and from there on the limit holds again *)
Lemma windows_after_genesis tok lc ops s :
  limits s tok = Some lc -> lc_period lc <> PNone -> no_setlimit tok ops -> no_genesis ops ->
  Forall (fun w => w <= lc_limit lc) (window_sums (block_limit (lc_period lc)) (accepted tok (step s Genesis) ops)).
Proof.
  intros HL HP HN HG. destruct (genesis_step s) as (_ & _ & Hl & _ & _ & _ & _ & _ & _ & _ & Hu).
  apply window_total_le_limit_fresh; auto; try (rewrite Hl; exact HL).
Qed.

(** (P) window_total_across_genesis_refuted: WITHOUT the hypothesis [no_genesis] the window clause is
    false on the current tree — the tally is not part of the exported genesis, so the allowance used
    before the restart is available again right after it: limit 150 a day, 100 sent at height 10,
    restart, 100 sent at height 11: one window by the restart rule, total 200. *)
Definition gx_init : state := step (init [(0, 0, 1000)] [0]) (SetLimit 0 150 PDaily []).
Definition gx_ops : list op := [Send 10 0 0 100 false; Genesis; Send 11 0 0 100 false].
Lemma genesis_window_refuted :
  exists tok lc ops s, limits s tok = Some lc /\ lc_period lc <> PNone /\ usages s tok = None /\ no_setlimit tok ops /\
    ~ Forall (fun w => w <= lc_limit lc) (window_sums (block_limit (lc_period lc)) (accepted tok s ops)).
Proof.
  exists 0, {| lc_limit := 150; lc_period := PDaily; lc_exempt := [] |}, gx_ops, gx_init.
  split; [reflexivity|]. split; [discriminate|]. split; [reflexivity|]. split.
  - repeat constructor.
  - assert (E : window_sums (block_limit PDaily) (accepted 0 gx_init gx_ops) = [200]) by (vm_compute; reflexivity).
    simpl lc_period. simpl lc_limit. rewrite E. intros H. inversion H; subst. lia.
Qed.

(** two tokens whose names differ only in case (5 = ".../WETH", 6 = ".../weth"): independent settings *)
Example ex_twins :
  let s := run (init [(0, 5, 2000); (0, 6, 2000)] [5; 6])
    [SetTax 5 true 1 10 []; SetTax 6 true 1 2 []; SetLimit 5 1000 PDaily [];
     Send 10 0 5 600 false; Send 10 0 6 600 false; Send 11 0 5 600 false; Send 11 0 6 600 false; Send 11 0 5 400 false] in
  (bal s 0 5, bal s 0 6, usages s 6, option_map u_total (usages s 5)) = (2000 - 660 - 440, 2000 - 900 - 900, None, Some 1000).
Proof. vm_compute. reflexivity. Qed.
