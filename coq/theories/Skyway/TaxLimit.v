(** C15 — skyway bridge tax and transfer limits: executable model of the code as it is now.

    Go code modelled (x/skyway/keeper):
      msg_server.go  SendToRemote, CancelSendToRemote          (message level = inside a transaction)
      pool.go        AddToOutgoingPool, RemoveFromOutgoingPoolAndRefund
      keeper.go      SetBridgeTax, bridgeTaxAmount, SetBridgeTransferLimit,
                     UpdateBridgeTransferUsageWithLimit
      batch.go       BuildOutgoingTXBatch (selection only), OutgoingTxBatchExecuted (burn),
                     CancelOutgoingTXBatch (back to the pool)
      governance_proposals.go  SetBridgeTaxProposal / SetBridgeTransferLimitProposal handlers

    State = the part of the bank ledger and of the skyway store these functions touch.
    Accounts, tokens (denoms) are [Z] identifiers; amounts are [Z] (sdk math.Int: unbounded big.Int
    whose arithmetic panics when |x| >= 2^256).  The comparison operators, the tax expression,
    the period table and the lock / refund / burn shapes come from [Gen.C15], i.e. from the
    source on every check.  Definitions only; proofs are in TaxLimitProofs.v. *)
From Coq Require Import List ZArith Bool.
From Paloma Require Gen.C15.
Import ListNotations.
Open Scope Z_scope.

Module G := Paloma.Gen.C15.

(** * math.Int range *)
Definition two256 : Z := 2 ^ 256.
Definition fits (x : Z) : bool := Z.abs x <? two256.

(** * Outcomes *)
Inductive err :=
| EInvalid      (* malformed message / ErrInvalid "arguments" *)
| EDenom        (* no ERC20 mapping for the denom on that chain *)
| ELimit        (* "limit for bridge transfer reached" *)
| EFunds        (* bank: insufficient funds *)
| ECoins        (* bank: invalid coins (zero amount) *)
| EUnknownTx    (* cancel: no such unbatched transfer *)
| ENotSender    (* cancel: not the transfer's sender *)
| ENoBatch      (* execute / unbatch: unknown batch *)
| ERate.        (* SetBridgeTax: unparsable or negative rate *)

Inductive outcome := Ok | Err (e : err) | Panic.

(** * Configuration and records *)
Inductive period := PNone | PDaily | PWeekly | PMonthly | PYearly.

Definition block_limit (p : period) : Z :=
  match p with
  | PNone => G.blocks_NONE
  | PDaily => G.blocks_DAILY
  | PWeekly => G.blocks_WEEKLY
  | PMonthly => G.blocks_MONTHLY
  | PYearly => G.blocks_YEARLY
  end.

Definition is_pnone (p : period) : bool := match p with PNone => true | _ => false end.

Record transfer := { t_id : Z; t_sender : Z; t_tok : Z; t_amount : Z; t_tax : Z }.
(** rate = tc_num / tc_den as big.Rat.SetString returns it (lowest terms, tc_den > 0) *)
Record taxcfg := { tc_num : Z; tc_den : Z; tc_exempt : list Z }.
Record limcfg := { lc_limit : Z; lc_period : period; lc_exempt : list Z }.
Record usage := { u_total : Z; u_start : Z }.
Record batch := { b_nonce : Z; b_tok : Z; b_txs : list transfer }.

Record state := {
  bal : Z -> Z -> Z;          (* account -> token -> spendable balance *)
  escrow : Z -> Z;            (* skyway module account, per token *)
  burned : Z -> Z;            (* burned from the module account so far, per token *)
  pool : list transfer;       (* unbatched outgoing transfers *)
  batches : list batch;
  last_id : Z;                (* KeyLastTXPoolID *)
  last_batch : Z;             (* KeyLastOutgoingBatchID *)
  mapped : Z -> bool;         (* denom has an ERC20 mapping on the chain *)
  taxes : Z -> option taxcfg;
  limits : Z -> option limcfg;
  usages : Z -> option usage
}.

Definition upd {A} (f : Z -> A) (k : Z) (v : A) : Z -> A := fun k' => if k' =? k then v else f k'.
Definition upd2 (f : Z -> Z -> Z) (a t : Z) (v : Z) : Z -> Z -> Z :=
  fun a' t' => if (a' =? a) && (t' =? t) then v else f a' t'.

Definition mem (x : Z) (l : list Z) : bool := existsb (Z.eqb x) l.

Definition set_usage (s : state) (tok : Z) (u : usage) : state :=
  {| bal := bal s; escrow := escrow s; burned := burned s; pool := pool s; batches := batches s;
     last_id := last_id s; last_batch := last_batch s; mapped := mapped s; taxes := taxes s;
     limits := limits s; usages := upd (usages s) tok (Some u) |}.

Definition set_tax (s : state) (tok : Z) (c : taxcfg) : state :=
  {| bal := bal s; escrow := escrow s; burned := burned s; pool := pool s; batches := batches s;
     last_id := last_id s; last_batch := last_batch s; mapped := mapped s;
     taxes := upd (taxes s) tok (Some c); limits := limits s; usages := usages s |}.

Definition set_limit (s : state) (tok : Z) (c : limcfg) : state :=
  {| bal := bal s; escrow := escrow s; burned := burned s; pool := pool s; batches := batches s;
     last_id := last_id s; last_batch := last_batch s; mapped := mapped s; taxes := taxes s;
     limits := upd (limits s) tok (Some c); usages := usages s |}.

(** * Transfer limit: keeper.go UpdateBridgeTransferUsageWithLimit *)

(** The tally the code would store next; [None] = math.Int overflow panic in [Total.Add]. *)
Definition next_usage (L h a : Z) (cur : option usage) : option usage :=
  match cur with
  | None => Some {| u_total := G.fresh_total a; u_start := h |}
  | Some u =>
      if G.window_restart (h - u_start u) L
      then Some {| u_total := G.fresh_total a; u_start := h |}
      else if fits (G.running_total (u_total u) a)
           then Some {| u_total := G.running_total (u_total u) a; u_start := u_start u |}
           else None
  end.

(** Does the limiter look at this sender / token at all? *)
Definition limited (s : state) (snd tok : Z) : option limcfg :=
  match limits s tok with
  | None => None
  | Some lc =>
      if G.limit_exemptions_honoured && mem snd (lc_exempt lc) then None
      else if G.limit_period_none_unrestricted && is_pnone (lc_period lc) then None
      else Some lc
  end.

(** Keeper level: returns the state as the keeper leaves it (also on failure). *)
Definition limit_step (h snd tok a : Z) (s : state) : state * outcome :=
  match limited s snd tok with
  | None => (s, Ok)
  | Some lc =>
      match next_usage (block_limit (lc_period lc)) h a (usages s tok) with
      | None => (s, Panic)
      | Some nu =>
          if G.limit_exceeded (u_total nu) (lc_limit lc)
          then ((if G.usage_saved_after_limit_check then s else set_usage s tok nu), Err ELimit)
          else (set_usage s tok nu, Ok)
      end
  end.

(** * Bridge tax: keeper.go bridgeTaxAmount.  [None] = panic (NewIntFromBigInt / Mul overflow). *)
Definition tax_applies (s : state) (snd tok : Z) : option taxcfg :=
  match taxes s tok with
  | None => None
  | Some tc =>
      if tc_num tc =? 0 then None
      else if G.tax_exemptions_honoured && mem snd (tc_exempt tc) then None
      else Some tc
  end.

Definition tax_amount (s : state) (snd tok a : Z) : option Z :=
  match tax_applies s snd tok with
  | None => Some 0
  | Some tc =>
      if fits (tc_num tc) && fits (tc_den tc) && fits (a * tc_num tc)
      then Some (G.tax_formula a (tc_num tc) (tc_den tc))
      else None
  end.

(** * Send: msg_server.go SendToRemote -> pool.go AddToOutgoingPool *)
Definition lock (s : state) (snd tok a tax : Z) : state :=
  let total := a + (if G.lock_includes_tax then tax else 0) in
  let id := last_id s + 1 in
  {| bal := upd2 (bal s) snd tok (bal s snd tok - total);
     escrow := upd (escrow s) tok (escrow s tok + total);
     burned := burned s;
     pool := {| t_id := id; t_sender := snd; t_tok := tok;
                t_amount := (if G.amount_recorded_on_transfer then a else 0);
                t_tax := (if G.tax_recorded_on_transfer then tax else 0) |} :: pool s;
     batches := batches s; last_id := id; last_batch := last_batch s; mapped := mapped s;
     taxes := taxes s; limits := limits s; usages := usages s |}.

(** [mal]: the message is malformed (creator not bech32 / destination not an Ethereum address). *)
Definition send_raw (h snd tok a : Z) (mal : bool) (s : state) : state * outcome :=
  if mal then (s, Err EInvalid)
  else if negb (mapped s tok) then (s, Err EDenom)
  else if a <? 0 then (s, Err EInvalid)
  else
    match limit_step h snd tok a s with
    | (s1, Ok) =>
        match tax_amount s1 snd tok a with
        | None => (s1, Panic)
        | Some tax =>
            let total := a + (if G.lock_includes_tax then tax else 0) in
            if negb (fits (a + tax)) then (s1, Panic)
            else if total <=? 0 then (s1, Err ECoins)
            else if bal s1 snd tok <? total then (s1, Err EFunds)
            else (lock s1 snd tok a tax, Ok)
        end
    | r => r
    end.

(** * Cancel: pool.go RemoveFromOutgoingPoolAndRefund *)
Definition refund_of (t : transfer) : Z := t_amount t + (if G.refund_includes_tax then t_tax t else 0).
Definition burn_of (t : transfer) : Z := t_amount t + (if G.burn_includes_tax then t_tax t else 0).
Definition locked_of (t : transfer) : Z := t_amount t + t_tax t.

Definition find_tx (id : Z) (l : list transfer) : option transfer := find (fun t => t_id t =? id) l.
Definition remove_tx (id : Z) (l : list transfer) : list transfer := filter (fun t => negb (t_id t =? id)) l.

Definition cancel_raw (snd id : Z) (s : state) : state * outcome :=
  if id <? 1 then (s, Err EInvalid)
  else match find_tx id (pool s) with
  | None => (s, Err EUnknownTx)
  | Some t =>
      if negb (t_sender t =? snd) then (s, Err ENotSender)
      else if escrow s (t_tok t) <? refund_of t then (s, Err EFunds)
      else ({| bal := upd2 (bal s) snd (t_tok t) (bal s snd (t_tok t) + refund_of t);
               escrow := upd (escrow s) (t_tok t) (escrow s (t_tok t) - refund_of t);
               burned := burned s; pool := remove_tx id (pool s); batches := batches s;
               last_id := last_id s; last_batch := last_batch s; mapped := mapped s;
               taxes := taxes s; limits := limits s; usages := usages s |}, Ok)
  end.

(** * Batches: batch.go *)
Definition of_tok (tok : Z) (t : transfer) : bool := t_tok t =? tok.

(** pickUnbatchedTxs walks the token's pool entries in REVERSE key order, the key being
    contract ++ amount (32 bytes, big endian) ++ id: largest amount first, among equal amounts the
    youngest id first, and stops after [G.batch_size] (OutgoingTxBatchSize = 100) entries; the rest
    stays in the pool. *)
Definition picked_before (a b : transfer) : bool :=
  (t_amount b <? t_amount a) || ((t_amount a =? t_amount b) && (t_id b <? t_id a)).
Fixpoint insert_tx (t : transfer) (l : list transfer) : list transfer :=
  match l with
  | [] => [t]
  | x :: r => if picked_before x t then x :: insert_tx t r else t :: x :: r
  end.
Definition pick_order (l : list transfer) : list transfer :=
  if G.batch_picks_largest_amount_then_id_first then fold_right insert_tx [] l else l.
Definition batch_cap : nat := Z.to_nat G.batch_size.

Definition batch_raw (tok : Z) (s : state) : state * outcome :=
  if negb (mapped s tok) then (s, Err EDenom)
  else
    let cands := pick_order (filter (of_tok tok) (pool s)) in
    match firstn batch_cap cands with
    | [] => (s, Ok)
    | sel =>
      ({| bal := bal s; escrow := escrow s; burned := burned s;
          pool := skipn batch_cap cands ++ filter (fun t => negb (of_tok tok t)) (pool s);
          batches := {| b_nonce := last_batch s + 1; b_tok := tok; b_txs := sel |} :: batches s;
          last_id := last_id s; last_batch := last_batch s + 1; mapped := mapped s;
          taxes := taxes s; limits := limits s; usages := usages s |}, Ok)
    end.

Definition is_batch (tok nonce : Z) (b : batch) : bool := (b_nonce b =? nonce) && (b_tok b =? tok).
Definition find_batch (tok nonce : Z) (l : list batch) : option batch := find (is_batch tok nonce) l.
Definition remove_batch (tok nonce : Z) (l : list batch) : list batch :=
  filter (fun b => negb (is_batch tok nonce b)) l.

Fixpoint sum_of (f : transfer -> Z) (l : list transfer) : Z :=
  match l with [] => 0 | t :: r => f t + sum_of f r end.

Definition execute_raw (tok nonce : Z) (s : state) : state * outcome :=
  match find_batch tok nonce (batches s) with
  | None => (s, Err ENoBatch)
  | Some b =>
      let total := sum_of burn_of (b_txs b) in
      if escrow s tok <? total then (s, Err EFunds)
      else ({| bal := bal s; escrow := upd (escrow s) tok (escrow s tok - total);
               burned := upd (burned s) tok (burned s tok + total);
               pool := pool s; batches := remove_batch tok nonce (batches s);
               last_id := last_id s; last_batch := last_batch s; mapped := mapped s;
               taxes := taxes s; limits := limits s; usages := usages s |}, Ok)
  end.

Definition unbatch_raw (tok nonce : Z) (s : state) : state * outcome :=
  match find_batch tok nonce (batches s) with
  | None => (s, Err ENoBatch)
  | Some b =>
      ({| bal := bal s; escrow := escrow s; burned := burned s;
          pool := b_txs b ++ pool s; batches := remove_batch tok nonce (batches s);
          last_id := last_id s; last_batch := last_batch s; mapped := mapped s;
          taxes := taxes s; limits := limits s; usages := usages s |}, Ok)
  end.

(** * Governance: SetBridgeTax / SetBridgeTransferLimit.
    [ok num den]: what [big.Rat.SetString rate] returned on the Go side (trusted glue). *)
(** [tok] is the token string of the proposal exactly as submitted (token identifiers stand for
    byte strings: two spellings that differ in case or in surrounding blanks are two tokens).  The
    record is stored under [G.gov_tax_token tok] / [G.gov_limit_token tok] — what the handler in
    governance_proposals.go puts into the record's Token field, read from the source: the submitted
    string itself — and a send looks the settings up by its coin's denom, also verbatim. *)
Definition settax_raw (tok : Z) (ok : bool) (num den : Z) (ex : list Z) (s : state) : state * outcome :=
  if ok && (0 <=? num) then (set_tax s (G.gov_tax_token tok) {| tc_num := num; tc_den := den; tc_exempt := ex |}, Ok)
  else (s, Err ERate).

Definition setlimit_raw (tok limit : Z) (p : period) (ex : list Z) (s : state) : state * outcome :=
  (set_limit s (G.gov_limit_token tok) {| lc_limit := limit; lc_period := p; lc_exempt := ex |}, Ok).

(** * Genesis: ExportGenesis, then InitGenesis on an empty store (chain restart from an exported
    genesis file).  Pool, batches, both id counters, the ERC20 mappings and the tax and limit records
    are carried (genesis.go, read from the source: [G.genesis_carries_settings]); the usage tallies
    are carried only if [G.genesis_carries_usage] — on the current tree they are not, every window
    starts afresh after the restart.  The bank ledger is the bank module's genesis (trusted). *)
Definition genesis_raw (s : state) : state * outcome :=
  ({| bal := bal s; escrow := escrow s; burned := burned s; pool := pool s; batches := batches s;
      last_id := last_id s; last_batch := last_batch s; mapped := mapped s;
      taxes := (if G.genesis_carries_settings then taxes s else fun _ => None);
      limits := (if G.genesis_carries_settings then limits s else fun _ => None);
      usages := (if G.genesis_carries_usage then usages s else fun _ => None) |}, Ok).

(** * Operations and delivery *)
Inductive op :=
| Send (h snd tok a : Z) (mal : bool)
| Cancel (snd id : Z)
| Batch (tok : Z)
| Execute (tok nonce : Z)
| Unbatch (tok nonce : Z)
| SetTax (tok : Z) (ok : bool) (num den : Z) (ex : list Z)
| SetLimit (tok limit : Z) (p : period) (ex : list Z)
| Genesis.

(** What the handler does on the context it is given (state left behind also when it fails). *)
Definition raw (o : op) (s : state) : state * outcome :=
  match o with
  | Send h snd tok a mal => send_raw h snd tok a mal s
  | Cancel snd id => cancel_raw snd id s
  | Batch tok => batch_raw tok s
  | Execute tok nonce => execute_raw tok nonce s
  | Unbatch tok nonce => unbatch_raw tok nonce s
  | SetTax tok ok num den ex => settax_raw tok ok num den ex s
  | SetLimit tok limit p ex => setlimit_raw tok limit p ex s
  | Genesis => genesis_raw s
  end.

(** Inside a transaction (baseapp runMsgs on a cache context): writes are committed only when the
    handler returns without error; an error or a panic discards them. *)
Definition deliver (o : op) (s : state) : state * outcome :=
  match raw o s with
  | (s', Ok) => (s', Ok)
  | (_, r) => (s, r)
  end.

Definition step (s : state) (o : op) : state := fst (deliver o s).
Definition run (s : state) (ops : list op) : state := fold_left step ops s.

(** The history with, for every operation, the state it was delivered in and its outcome. *)
Fixpoint trace (s : state) (ops : list op) : list (state * op * outcome) :=
  match ops with
  | [] => []
  | o :: r => (s, o, snd (deliver o s)) :: trace (step s o) r
  end.

(** * Limit windows, defined on the accepted transfers alone (specification side).
    An accepted transfer at height [h] opens a new window when [h - start >= L] for the start
    height of the current window (the code's restart rule), otherwise it belongs to the current
    one.  [window_sums] lists the total of every window. *)
Fixpoint wsums (L start tot : Z) (l : list (Z * Z)) : list Z :=
  match l with
  | [] => [tot]
  | (h, a) :: r => if h - start >=? L then tot :: wsums L h a r else wsums L start (tot + a) r
  end.

Definition window_sums (L : Z) (l : list (Z * Z)) : list Z :=
  match l with [] => [] | (h, a) :: r => wsums L h a r end.

(** (height, amount) of the accepted sends of token [tok] whose sender the limiter looks at. *)
Definition counted (tok : Z) (e : state * op * outcome) : option (Z * Z) :=
  match e with
  | (pre, Send h snd tk a _, Ok) =>
      if tk =? tok then match limited pre snd tk with Some _ => Some (h, a) | None => None end
      else None
  | _ => None
  end.

Fixpoint filter_map {A B} (f : A -> option B) (l : list A) : list B :=
  match l with
  | [] => []
  | x :: r => match f x with Some y => y :: filter_map f r | None => filter_map f r end
  end.

Definition accepted (tok : Z) (s : state) (ops : list op) : list (Z * Z) :=
  filter_map (counted tok) (trace s ops).

(** * Initial state used by the correspondence harness *)
Definition init (bals : list (Z * Z * Z)) (mp : list Z) : state :=
  {| bal := fun a t => match find (fun e => (fst (fst e) =? a) && (snd (fst e) =? t)) bals with
                       | Some e => snd e | None => 0 end;
     escrow := fun _ => 0; burned := fun _ => 0; pool := []; batches := [];
     last_id := 0; last_batch := 0; mapped := fun t => mem t mp;
     taxes := fun _ => None; limits := fun _ => None; usages := fun _ => None |}.
