(** C01, round 2 (b): what a batch build takes (the first [max] transfers of its (chain, contract) in
    pool order), the cap ([OutgoingTxBatchSize] per batch, no empty batch), the order of the pool
    (descending (contract, amount, id): the store's reverse iterator) and, from the two, that a batch
    holds the highest-keyed transfers.  Proofs only; the model is Skyway/Bridge.v. *)
From Coq Require Import List ZArith Bool Lia Permutation Sorted.
From Paloma Require Import Gen.C01 Skyway.Bridge Skyway.BridgeProofs.
Import ListNotations.
Open Scope Z_scope.

(** * Round 2 (b): what a build takes, the cap, and the order of the pool *)
Definition matches (c k : Z) (t : transfer) : bool := (t_contract t =? k) && (t_chain t =? c).

Lemma pick_firstn_filter : forall c k n l,
  fst (pick c k n l) = firstn n (filter (matches c k) l).
Proof.
  intros c k n l; revert n; induction l as [|t r IH]; intros n; simpl.
  - now destruct n.
  - destruct n as [|n'].
    + reflexivity.
    + unfold matches at 1. destruct ((t_contract t =? k) && (t_chain t =? c)) eqn:M.
      * specialize (IH n'). destruct (pick c k n' r) as [p q]. simpl in *. now rewrite IH.
      * specialize (IH (S n')). destruct (pick c k (S n') r) as [p q]. simpl in *. exact IH.
Qed.

Lemma pick_rest_filter : forall c k n l,
  filter (matches c k) (snd (pick c k n l)) = skipn n (filter (matches c k) l).
Proof.
  intros c k n l; revert n; induction l as [|t r IH]; intros n; simpl.
  - now destruct n.
  - destruct n as [|n'].
    + simpl. reflexivity.
    + unfold matches at 2. destruct ((t_contract t =? k) && (t_chain t =? c)) eqn:M.
      * specialize (IH n'). destruct (pick c k n' r) as [p q]. simpl in *. exact IH.
      * specialize (IH (S n')). destruct (pick c k (S n') r) as [p q]. simpl in *.
        unfold matches at 1. rewrite M. exact IH.
Qed.

(** a build that succeeds and finds something opens ONE batch holding the first [max] transfers of
    that (chain, contract) in pool order; the others stay where they were *)
Theorem build_takes_first_in_pool_order_proof : forall s c k max now f s',
  step s (OBuild c k max now f) = (s', Ok) ->
  let picked := firstn (Z.to_nat max) (filter (matches c k) (pool s)) in
  0 < max /\
  (picked = [] -> s' = s) /\
  (picked <> [] ->
     batches s' = batch_insert (mkB (last_batch s + 1) c k (now + batch_timeout_secs) 0 picked) (batches s) /\
     pool s' = snd (pick c k (Z.to_nat max) (pool s)) /\
     filter (matches c k) (pool s') = skipn (Z.to_nat max) (filter (matches c k) (pool s)) /\
     last_batch s' = last_batch s + 1).
Proof.
  intros s c k max now f s' H picked. unfold step in H. simpl in H.
  destruct (build f c k max now s) as [[s1 o1] n] eqn:E. simpl in H. inversion H; subst s1 o1; clear H.
  unfold build in E. apply atomically_cases in E as [[_ E]|[X _]]; [|discriminate].
  unfold build_raw in E. destruct (max <=? 0) eqn:EM; [discriminate|]. apply Z.leb_gt in EM.
  pose proof (pick_firstn_filter c k (Z.to_nat max) (pool s)) as PF.
  pose proof (pick_rest_filter c k (Z.to_nat max) (pool s)) as PR.
  destruct (pick c k (Z.to_nat max) (pool s)) as [pk rest] eqn:EP. simpl in PF, PR.
  fold picked in PF. subst pk.
  split; [exact EM|]. destruct picked as [|t0 r0] eqn:EPK.
  - inversion E; subst. split; [reflexivity | intros X; now contradiction X].
  - destruct (f 0%nat); [discriminate|]. simpl in E. destruct (f 1%nat); [discriminate|].
    destruct (f 2%nat); [discriminate|]. inversion E; subst s' n; clear E.
    split; [intros X; discriminate X|]. intros _. simpl. repeat split. exact PR.
Qed.

(** ** the cap: no open batch is empty or holds more than [batch_size] transfers *)
Definition capped (b : batch) : Prop := (1 <= length (b_txs b) <= Z.to_nat batch_size)%nat.
Definition build_capped (o : op) : Prop :=
  match o with OBuild _ _ max _ _ => max <= batch_size | _ => True end.
Definition Cap (s : state) : Prop := Forall capped (batches s).

Lemma Forall_remove_first : forall A (P : A -> Prop) p l, Forall P l -> Forall P (remove_first p l).
Proof.
  intros A P p l H; induction H as [|x r Hx Hr IH]; simpl; [constructor|].
  destruct (p x); [exact Hr | constructor; assumption].
Qed.

Lemma build_cap : forall f c k max now s s' out n,
  max <= batch_size -> Cap s -> build f c k max now s = (s', out, n) -> Cap s'.
Proof.
  intros f c k max now s s' out n LE C H. unfold build in H.
  apply atomically_cases in H as [[-> H]|[-> ->]]; [|exact C].
  unfold build_raw in H. destruct (max <=? 0) eqn:EM; [discriminate|]. apply Z.leb_gt in EM.
  destruct (pick c k (Z.to_nat max) (pool s)) as [pk rest] eqn:EP. destruct pk as [|t0 r0].
  - inversion H; subst; exact C.
  - destruct (f 0%nat); [discriminate|]. simpl in H. destruct (f 1%nat); [discriminate|].
    destruct (f 2%nat); [discriminate|]. inversion H; subst s' n; clear H.
    unfold Cap; simpl. eapply Permutation_Forall; [symmetry; apply batch_insert_perm|].
    constructor; [|exact C]. unfold capped; cbn [b_txs length].
    apply pick_length in EP. cbn [length] in EP. split; [lia|].
    assert (Z.to_nat max <= Z.to_nat batch_size)%nat by (apply Z2Nat.inj_le; unfold batch_size in *; lia). lia.
Qed.

Lemma cancel_batch_cap : forall f k n s s' out m, Cap s -> cancel_batch f k n s = (s', out, m) -> Cap s'.
Proof.
  intros f k n s s' out m C H. unfold cancel_batch in H.
  apply atomically_cases in H as [[-> H]|[-> ->]]; [|exact C].
  unfold cancel_batch_raw in H. destruct (find_batch k n (batches s)); [|discriminate]. simpl in H.
  destruct (f 0%nat); [discriminate|]. inversion H; subst. unfold Cap; simpl. now apply Forall_remove_first.
Qed.

Lemma set_gas_cap : forall f k n est s s' out m, Cap s -> atomically s (set_gas_raw f k n est s) = (s', out, m) -> Cap s'.
Proof.
  intros f k n est s s' out m C H. apply atomically_cases in H as [[-> H]|[-> ->]]; [|exact C].
  unfold set_gas_raw in H. destruct (find_batch k n (batches s)) as [b|]; [|discriminate].
  destruct (0 <? b_gas b); [discriminate|]. destruct (f 0%nat); [discriminate|]. inversion H; subst.
  unfold Cap in *; simpl. induction C as [|x r Hx Hr IH]; simpl; constructor; auto.
  destruct (is_batch k n x); exact Hx.
Qed.

Lemma executed_cap : forall f c k n eth s s' out m, Cap s -> atomically s (executed_raw f c k n eth s) = (s', out, m) -> Cap s'.
Proof.
  intros f c k n eth s s' out m C H. apply atomically_cases in H as [[-> H]|[-> ->]]; [|exact C].
  unfold executed_raw in H. destruct (find_batch k n (batches s)) as [b|]; [|discriminate].
  destruct (negb (b_chain b =? c)); [discriminate|]. destruct (b_timeout b <=? eth); [discriminate|].
  destruct (denom_of (table s) c k); [|discriminate]. destruct (f 0%nat || _); [discriminate|].
  inversion H; subst. unfold Cap; simpl. now apply Forall_remove_first.
Qed.

Lemma deposit_batches : forall f c k r a s s' out m,
  atomically s (deposit_raw f c k r a s) = (s', out, m) -> batches s' = batches s.
Proof.
  intros f c k r a s s' out m H. apply atomically_cases in H as [[-> H]|[-> ->]]; [|reflexivity].
  unfold deposit_raw in H. destruct (denom_of (table s) c k) as [d|]; [|discriminate].
  destruct (f 0%nat || (a <=? 0)); [discriminate|].
  assert (G : forall idx s2 s3 o3 m3, to_comm f idx d a s2 = (s3, o3, m3) -> batches s3 = batches s2).
  { intros idx s2 s3 o3 m3 X. unfold to_comm in X. destruct (f idx); inversion X; reflexivity. }
  destruct r as [u| |].
  - destruct (f 1%nat); [apply G in H; exact H | inversion H; reflexivity].
  - apply G in H; exact H.
  - apply G in H; exact H.
Qed.

Lemma sub_step_cap : forall s o, sub_op o = true -> build_capped o -> Cap s -> Cap (fst (step s o)).
Proof.
  intros s o S B C. unfold step. destruct (step3 s o) as [[s' out] n] eqn:E. simpl.
  destruct o; simpl in S; try discriminate; simpl in E.
  - eapply build_cap; eauto.
  - eapply cancel_batch_cap; eauto.
  - eapply set_gas_cap; eauto.
  - eapply executed_cap; eauto.
  - unfold Cap. erewrite deposit_batches; eauto.
Qed.

Lemma run_sub_cap : forall tr s,
  Forall (fun o => sub_op o = true) tr -> Forall build_capped tr -> Cap s -> Cap (run s tr).
Proof.
  induction tr as [|a r IH]; intros s F B C; simpl; [exact C|].
  inversion F; inversion B; subst. apply IH; auto. apply sub_step_cap; auto.
Qed.

(** the builds of the end-blocker ask for exactly [batch_size] *)
Definition eb_capped (x : eb) : Prop := Forall build_capped (eb_tr x).

Lemma eb_sub_capped : forall f pf runner mk x x' out,
  (forall g, build_capped (mk g)) -> eb_capped x -> eb_sub f pf runner mk x = (x', out) -> eb_capped x'.
Proof.
  intros f pf runner mk x x' out HB C H. unfold eb_sub in H.
  destruct (eb_dead x); [inversion H; subst; exact C|].
  destruct (runner _ (eb_s x)) as [[s1 o1] m]. destruct (first_panic pf (eb_n x) m).
  - inversion H; subst; exact C.
  - inversion H; subst. unfold eb_capped; simpl. apply Forall_app. split; [exact C | constructor; [apply HB | constructor]].
Qed.

Lemma eb_call_capped : forall f pf x x' b, eb_capped x -> eb_call f pf x = (x', b) -> eb_capped x'.
Proof.
  intros f pf x x' b C H. unfold eb_call in H. destruct (eb_dead x); [inversion H; subst; exact C|].
  destruct (pf (eb_n x)); inversion H; subst; exact C.
Qed.

Lemma end_block_full_capped : forall f pf h now groups ests s, eb_capped (end_block_full f pf h now groups ests s).
Proof.
  intros f pf h now groups ests s. unfold end_block_full.
  assert (G0 : eb_capped (mkEB s 0%nat [] false)) by constructor.
  set (x0 := mkEB s 0%nat [] false) in *.
  assert (GC : forall es x x' out, eb_capped x -> eb_create f pf es now x = (x', out) -> eb_capped x').
  { induction es as [|[[c d] k0] r IH]; intros x x' out C H; simpl in H.
    - inversion H; subst; exact C.
    - destruct (eb_dead x); [inversion H; subst; exact C|].
      destruct (erc20_of (table (eb_s x)) c d) as [k|]; [|inversion H; subst; exact C].
      destruct (eb_sub f pf _ _ x) as [x1 o1] eqn:ES.
      apply eb_sub_capped in ES; [|intros; simpl; lia|exact C].
      destruct o1; [eapply IH; eauto | inversion H; subst; exact ES]. }
  assert (GT : forall evs x, eb_capped x -> eb_capped (eb_tally f pf evs x)).
  { induction evs as [|e r IH]; intros x C; simpl; [exact C|].
    destruct (eb_sub f pf (ev_run e) (ev_op e) x) as [x1 o1] eqn:ES.
    apply eb_sub_capped in ES; [|intros; destruct e; exact I|exact C].
    destruct (eb_call f pf x1) as [x2 ok] eqn:EC. apply eb_call_capped in EC; [|exact ES].
    destruct ok; [apply IH; exact EC | exact EC]. }
  assert (GG : forall es x, eb_capped x -> eb_capped (eb_gas f pf es x)).
  { induction es as [|[[k n] est] r IH]; intros x C; simpl; [exact C|].
    destruct (eb_sub f pf _ _ x) as [x1 o1] eqn:ES.
    apply eb_sub_capped in ES; [|intros; exact I|exact C]. apply IH; exact ES. }
  assert (GS : forall bs x x' out, eb_capped x -> eb_sweep f pf bs now x = (x', out) -> eb_capped x').
  { induction bs as [|b r IH]; intros x x' out C H; simpl in H.
    - inversion H; subst; exact C.
    - destruct (b_timeout b <? now); [|eapply IH; eauto].
      destruct (eb_sub f pf _ _ x) as [x1 o1] eqn:ES.
      apply eb_sub_capped in ES; [|intros; exact I|exact C].
      destruct o1; [eapply IH; eauto | inversion H; subst; exact ES]. }
  set (x1 := if h mod batch_period =? 0 then fst (eb_create f pf (d2e_rows (table s)) now x0) else x0).
  assert (G1 : eb_capped x1).
  { subst x1. destruct (h mod batch_period =? 0); [|exact G0].
    destruct (eb_create f pf (d2e_rows (table s)) now x0) as [y o] eqn:E. simpl. eapply GC; eauto. }
  assert (G2 : forall gs x, eb_capped x -> eb_capped (fold_left (fun x evs => eb_tally f pf evs x) gs x)).
  { induction gs as [|g r IH]; intros x C; simpl; [exact C|]. apply IH. apply GT. exact C. }
  destruct (eb_sweep f pf _ now _) as [y o] eqn:E. simpl. eapply GS; [|exact E]. apply GG, G2, G1.
Qed.

Lemma create_loop_cap : forall f es n now s s' out m, Cap s -> create_loop f n es now s = (s', out, m) -> Cap s'.
Proof.
  intros f es; induction es as [|[[c d] k0] r IH]; intros n now s s' out m C H; simpl in H.
  - inversion H; subst; exact C.
  - destruct (erc20_of (table s) c d) as [k|]; [|inversion H; subst; exact C].
    destruct (build (shift f n) c k batch_size now s) as [[s1 o1] m1] eqn:EB.
    apply build_cap in EB; [|lia|exact C].
    destruct o1; [eapply IH; eauto | inversion H; subst; exact EB].
Qed.

Lemma sweep_loop_cap : forall f bs n now s s' out m, Cap s -> sweep_loop f n bs now s = (s', out, m) -> Cap s'.
Proof.
  intros f bs; induction bs as [|b r IH]; intros n now s s' out m C H; simpl in H.
  - inversion H; subst; exact C.
  - destruct (b_timeout b <? now); [|eapply IH; eauto].
    destruct (cancel_batch (shift f n) (b_contract b) (b_nonce b) s) as [[s1 o1] m1] eqn:EB.
    apply cancel_batch_cap in EB; [|exact C].
    destruct o1; [eapply IH; eauto | inversion H; subst; exact EB].
Qed.

Lemma create_batch_cap : forall f n h now s s' out m, Cap s -> create_batch f n h now s = (s', out, m) -> Cap s'.
Proof.
  intros f n h now s s' out m C H. unfold create_batch in H.
  destruct (h mod batch_period =? 0); [eapply create_loop_cap; eauto | inversion H; subst; exact C].
Qed.

Lemma step_cap : forall s o, build_capped o -> Cap s -> Cap (fst (step s o)).
Proof.
  intros s o B C. destruct (sub_op o) eqn:S; [apply sub_step_cap; auto|].
  destruct o; try (simpl in S; discriminate S).
  - (* send *) unfold step; simpl. destruct (atomically s (send_raw f u c d a tax lim s)) as [[s' out] n] eqn:E. simpl.
    apply atomically_cases in E as [[_ E]|[_ ->]]; [|exact C].
    unfold send_raw in E. destruct ((a <=? 0) || lim || (tax <? 0)); [inversion E; subst; exact C|].
    destruct (erc20_of (table s) c d); [|inversion E; subst; exact C].
    destruct (f 0%nat || _); [inversion E; subst; exact C|]. destruct (f 1%nat); inversion E; subst; exact C.
  - (* cancel *) unfold step; simpl. destruct (atomically s (cancel_raw f u i s)) as [[s' out] n] eqn:E. simpl.
    apply atomically_cases in E as [[_ E]|[_ ->]]; [|exact C].
    unfold cancel_raw in E. destruct (i <? 1); [inversion E; subst; exact C|].
    destruct (find _ (pool s)) as [t|]; [|inversion E; subst; exact C].
    destruct (negb (t_sender t =? u)); [inversion E; subst; exact C|].
    destruct (tx_denom (table s) t); [|inversion E; subst; exact C]. simpl in E.
    destruct (f 0%nat || _); [inversion E; subst; exact C|]. destruct (f 1%nat); inversion E; subst; exact C.
  - unfold step; simpl. destruct (create_batch f 0%nat h now s) as [[s' out] n] eqn:E. simpl. eapply create_batch_cap; eauto.
  - unfold step; simpl. destruct (sweep f 0%nat now s) as [[s' out] n] eqn:E. simpl. unfold sweep in E. eapply sweep_loop_cap; eauto.
  - unfold step; simpl. unfold end_block.
    destruct (create_batch f 0%nat h now s) as [[s1 o1] n1] eqn:E1.
    destruct (sweep f n1 now s1) as [[s2 o2] n2] eqn:E2. simpl.
    unfold sweep in E2. eapply sweep_loop_cap; [|exact E2]. eapply create_batch_cap; eauto.
  - exact C.
  - exact C.
  - unfold step; simpl. destruct (atomically s (map_admin_raw f c d k auth s)) as [[s' out] n] eqn:E. simpl.
    apply atomically_cases in E as [[_ E]|[_ ->]]; [|exact C].
    unfold map_admin_raw in E. destruct (f 0%nat); [inversion E; subst; exact C|].
    destruct (negb auth); [inversion E; subst; exact C|].
    destruct (denom_of (table s) c k); inversion E; subst; exact C.
  - rewrite step_full_run. apply run_sub_cap; [apply end_block_full_ok | apply end_block_full_capped | exact C].
  - unfold step; simpl. unfold Cap. eapply Permutation_Forall; [symmetry; apply genesis_batches_perm | exact C].
Qed.

Theorem open_batches_capped_proof : forall tb b0 sup0 ops,
  Forall build_capped ops ->
  Forall capped (batches (run (init tb b0 sup0) ops)).
Proof.
  intros tb b0 sup0 ops F.
  assert (G : forall ops s, Forall build_capped ops -> Cap s -> Cap (run s ops)).
  { clear. induction ops as [|o r IH]; intros s F C; simpl; [exact C|].
    inversion F; subst. apply IH; auto. apply step_cap; auto. }
  apply G; [exact F | constructor].
Qed.

(** ** the pool is kept in descending (contract, amount, id) order — the order batches are filled in *)
Definition key_ge (a b : transfer) : Prop := tx_key_lt a b = false.   (* a's key >= b's key *)

Definition key_below (a b : transfer) : Prop :=
  t_contract a < t_contract b \/
  (t_contract a = t_contract b /\ (t_amount a < t_amount b \/ (t_amount a = t_amount b /\ t_id a < t_id b))).

Lemma tx_key_lt_spec : forall a b, tx_key_lt a b = true <-> key_below a b.
Proof.
  intros a b. unfold tx_key_lt, key_below.
  rewrite !orb_true_iff, !andb_true_iff, !orb_true_iff, !andb_true_iff, !Z.ltb_lt, !Z.eqb_eq. reflexivity.
Qed.
Lemma key_ge_spec : forall a b, key_ge a b <-> ~ key_below a b.
Proof.
  intros a b. unfold key_ge. rewrite <- tx_key_lt_spec. destruct (tx_key_lt a b); split; intros H; congruence.
Qed.

Lemma key_lt_ge : forall a b, tx_key_lt a b = true -> key_ge b a.
Proof. intros a b H. apply tx_key_lt_spec in H. apply key_ge_spec. unfold key_below in *. lia. Qed.
Lemma key_ge_trans : forall a b c, key_ge a b -> key_ge b c -> key_ge a c.
Proof. intros a b c H1 H2. apply key_ge_spec in H1, H2. apply key_ge_spec. unfold key_below in *. lia. Qed.
Lemma key_lt_ge_trans : forall x t y, tx_key_lt x t = true -> key_ge x y -> key_ge t y.
Proof.
  intros x t y H1 H2. apply tx_key_lt_spec in H1. apply key_ge_spec in H2. apply key_ge_spec.
  unfold key_below in *. lia.
Qed.

Definition pool_sorted (l : list transfer) : Prop := StronglySorted key_ge l.

Lemma pool_insert_sorted : forall t l, pool_sorted l -> pool_sorted (pool_insert t l).
Proof.
  intros t l H; induction H as [|x r Hr IH Hx]; simpl.
  - constructor; constructor.
  - destruct (tx_key_lt x t) eqn:E.
    + constructor; [constructor; assumption|].
      constructor; [now apply key_lt_ge|].
      eapply Forall_impl; [|exact Hx]. intros y Hy. eapply key_lt_ge_trans; eauto.
    + constructor; [exact IH|].
      eapply Permutation_Forall; [symmetry; apply pool_insert_perm|]. constructor; [exact E | exact Hx].
Qed.

Lemma pool_insert_all_sorted : forall ts l, pool_sorted l -> pool_sorted (pool_insert_all ts l).
Proof.
  unfold pool_insert_all. induction ts as [|t r IH]; intros l H; simpl; [exact H|].
  apply IH. now apply pool_insert_sorted.
Qed.

Lemma remove_first_sorted : forall p l, pool_sorted l -> pool_sorted (remove_first p l).
Proof.
  intros p l H; induction H as [|x r Hr IH Hx]; simpl; [constructor|].
  destruct (p x); [exact Hr|]. constructor; [exact IH|].
  clear - Hx. induction Hx as [|y r Hy Hr IH]; simpl; [constructor|].
  destruct (p y); [exact Hr | constructor; assumption].
Qed.

Lemma pick_rest_incl : forall c k n l t, In t (snd (pick c k n l)) -> In t l.
Proof.
  intros c k n l; revert n; induction l as [|x r IH]; intros n t H; simpl in H; [exact H|].
  destruct n as [|n'].
  - exact H.
  - destruct ((t_contract x =? k) && (t_chain x =? c)).
    + specialize (IH n' t). destruct (pick c k n' r) as [p q]. simpl in *. right. now apply IH.
    + specialize (IH (S n') t). destruct (pick c k (S n') r) as [p q]. simpl in *.
      destruct H as [H|H]; [now left | right; now apply IH].
Qed.

Lemma pick_rest_sorted : forall c k n l, pool_sorted l -> pool_sorted (snd (pick c k n l)).
Proof.
  intros c k n l H; revert n; induction H as [|x r Hr IH Hx]; intros n; simpl; [constructor|].
  destruct n as [|n'].
  - constructor; assumption.
  - destruct ((t_contract x =? k) && (t_chain x =? c)).
    + specialize (IH n'). destruct (pick c k n' r) as [p q]. exact IH.
    + pose proof (pick_rest_incl c k (S n') r) as INC. specialize (IH (S n')).
      destruct (pick c k (S n') r) as [p q]. simpl in *. constructor; [exact IH|].
      rewrite Forall_forall in *. intros y Hy. apply Hx. now apply INC.
Qed.

Definition Srt (s : state) : Prop := pool_sorted (pool s).

Lemma build_srt : forall f c k max now s s' out n, Srt s -> build f c k max now s = (s', out, n) -> Srt s'.
Proof.
  intros f c k max now s s' out n C H. unfold build in H.
  apply atomically_cases in H as [[-> H]|[-> ->]]; [|exact C].
  unfold build_raw in H. destruct (max <=? 0); [discriminate|].
  pose proof (pick_rest_sorted c k (Z.to_nat max) (pool s) C) as PS.
  destruct (pick c k (Z.to_nat max) (pool s)) as [pk rest]. simpl in PS. destruct pk.
  - inversion H; subst; exact C.
  - destruct (f 0%nat); [discriminate|]. simpl in H. destruct (f 1%nat); [discriminate|].
    destruct (f 2%nat); [discriminate|]. inversion H; subst. exact PS.
Qed.

Lemma cancel_batch_srt : forall f k n s s' out m, Srt s -> cancel_batch f k n s = (s', out, m) -> Srt s'.
Proof.
  intros f k n s s' out m C H. unfold cancel_batch in H.
  apply atomically_cases in H as [[-> H]|[-> ->]]; [|exact C].
  unfold cancel_batch_raw in H. destruct (find_batch k n (batches s)); [|discriminate]. simpl in H.
  destruct (f 0%nat); [discriminate|]. inversion H; subst. unfold Srt; simpl. now apply pool_insert_all_sorted.
Qed.

Lemma sub_step_srt : forall s o, sub_op o = true -> Srt s -> Srt (fst (step s o)).
Proof.
  intros s o S C. unfold step. destruct (step3 s o) as [[s' out] n] eqn:E. simpl.
  destruct o; simpl in S; try discriminate; simpl in E.
  - eapply build_srt; eauto.
  - eapply cancel_batch_srt; eauto.
  - apply atomically_cases in E as [[_ E]|[_ ->]]; [|exact C].
    unfold set_gas_raw in E. destruct (find_batch k n0 (batches s)) as [b|]; [|discriminate].
    destruct (0 <? b_gas b); [discriminate|]. destruct (f 0%nat); [discriminate|]. inversion E; subst; exact C.
  - apply atomically_cases in E as [[_ E]|[_ ->]]; [|exact C].
    unfold executed_raw in E. destruct (find_batch k n0 (batches s)) as [b|]; [|discriminate].
    destruct (negb (b_chain b =? c)); [discriminate|]. destruct (b_timeout b <=? eth); [discriminate|].
    destruct (denom_of (table s) c k); [|discriminate]. destruct (f 0%nat || _); [discriminate|].
    inversion E; subst; exact C.
  - apply atomically_cases in E as [[_ E]|[_ ->]]; [|exact C].
    unfold deposit_raw in E. destruct (denom_of (table s) c k) as [d|]; [|discriminate].
    destruct (f 0%nat || (a <=? 0)); [discriminate|].
    assert (G : forall idx s2 s3 o3 m3, to_comm f idx d a s2 = (s3, o3, m3) -> pool s3 = pool s2).
    { intros idx s2 s3 o3 m3 X. unfold to_comm in X. destruct (f idx); inversion X; reflexivity. }
    unfold Srt. destruct r as [u| |].
    + destruct (f 1%nat); [apply G in E; rewrite E; exact C | inversion E; subst; exact C].
    + apply G in E; rewrite E; exact C.
    + apply G in E; rewrite E; exact C.
Qed.

Lemma run_sub_srt : forall tr s, Forall (fun o => sub_op o = true) tr -> Srt s -> Srt (run s tr).
Proof.
  induction tr as [|a r IH]; intros s F C; simpl; [exact C|].
  inversion F; subst. apply IH; auto. apply sub_step_srt; auto.
Qed.

Lemma step_srt : forall s o, Srt s -> Srt (fst (step s o)).
Proof.
  intros s o C. destruct (atomic_op o) eqn:A.
  2:{ destruct (housekeeping_is_atomic_steps_proof s o A) as (subs & F & ->).
      (* housekeeping = run of atomic steps; re-prove through the sub-step lemma for the ones that occur *)
      revert s C. induction subs as [|a r IH]; intros s C; simpl; [exact C|].
      inversion F; subst. apply IH; auto.
      destruct (sub_op a) eqn:S; [apply sub_step_srt; auto|].
      destruct a; try (simpl in S; discriminate S); try (simpl in H1; discriminate H1).
      - unfold step; simpl. destruct (atomically s (send_raw f u c d a tax lim s)) as [[s' out] n] eqn:E. simpl.
        apply atomically_cases in E as [[_ E]|[_ ->]]; [|exact C].
        unfold send_raw in E. destruct ((a <=? 0) || lim || (tax <? 0)); [inversion E; subst; exact C|].
        destruct (erc20_of (table s) c d); [|inversion E; subst; exact C].
        destruct (f 0%nat || _); [inversion E; subst; exact C|].
        destruct (f 1%nat); inversion E; subst; unfold Srt; simpl; now apply pool_insert_sorted.
      - unfold step; simpl. destruct (atomically s (cancel_raw f u i s)) as [[s' out] n] eqn:E. simpl.
        apply atomically_cases in E as [[_ E]|[_ ->]]; [|exact C].
        unfold cancel_raw in E. destruct (i <? 1); [inversion E; subst; exact C|].
        destruct (find _ (pool s)) as [t|]; [|inversion E; subst; exact C].
        destruct (negb (t_sender t =? u)); [inversion E; subst; exact C|].
        destruct (tx_denom (table s) t); [|inversion E; subst; unfold Srt; simpl; now apply remove_first_sorted]. simpl in E.
        destruct (f 0%nat || _); [inversion E; subst; unfold Srt; simpl; now apply remove_first_sorted|].
        destruct (f 1%nat); inversion E; subst; unfold Srt; simpl; now apply remove_first_sorted.
      - exact C.
      - exact C.
      - unfold step; simpl. destruct (atomically s (map_admin_raw f c d k auth s)) as [[s' out] n] eqn:E. simpl.
        apply atomically_cases in E as [[_ E]|[_ ->]]; [|exact C].
        unfold map_admin_raw in E. destruct (f 0%nat); [inversion E; subst; exact C|].
        destruct (negb auth); [inversion E; subst; exact C|].
        destruct (denom_of (table s) c k); inversion E; subst; exact C.
      - unfold step; simpl. unfold Srt, genesis; simpl. apply pool_insert_all_sorted. constructor. }
  destruct (sub_op o) eqn:S; [apply sub_step_srt; auto|].
  destruct o; try (simpl in S; discriminate S); try (simpl in A; discriminate A).
  - unfold step; simpl. destruct (atomically s (send_raw f u c d a tax lim s)) as [[s' out] n] eqn:E. simpl.
    apply atomically_cases in E as [[_ E]|[_ ->]]; [|exact C].
    unfold send_raw in E. destruct ((a <=? 0) || lim || (tax <? 0)); [inversion E; subst; exact C|].
    destruct (erc20_of (table s) c d); [|inversion E; subst; exact C].
    destruct (f 0%nat || _); [inversion E; subst; exact C|].
    destruct (f 1%nat); inversion E; subst; unfold Srt; simpl; now apply pool_insert_sorted.
  - unfold step; simpl. destruct (atomically s (cancel_raw f u i s)) as [[s' out] n] eqn:E. simpl.
    apply atomically_cases in E as [[_ E]|[_ ->]]; [|exact C].
    unfold cancel_raw in E. destruct (i <? 1); [inversion E; subst; exact C|].
    destruct (find _ (pool s)) as [t|]; [|inversion E; subst; exact C].
    destruct (negb (t_sender t =? u)); [inversion E; subst; exact C|].
    destruct (tx_denom (table s) t); [|inversion E; subst; unfold Srt; simpl; now apply remove_first_sorted]. simpl in E.
    destruct (f 0%nat || _); [inversion E; subst; unfold Srt; simpl; now apply remove_first_sorted|].
    destruct (f 1%nat); inversion E; subst; unfold Srt; simpl; now apply remove_first_sorted.
  - exact C.
  - exact C.
  - unfold step; simpl. destruct (atomically s (map_admin_raw f c d k auth s)) as [[s' out] n] eqn:E. simpl.
    apply atomically_cases in E as [[_ E]|[_ ->]]; [|exact C].
    unfold map_admin_raw in E. destruct (f 0%nat); [inversion E; subst; exact C|].
    destruct (negb auth); [inversion E; subst; exact C|].
    destruct (denom_of (table s) c k); inversion E; subst; exact C.
  - unfold step; simpl. unfold Srt, genesis; simpl. apply pool_insert_all_sorted. constructor.
Qed.

Theorem pool_in_fee_order_proof : forall tb b0 sup0 ops,
  StronglySorted (fun a b => tx_key_lt a b = false) (pool (run (init tb b0 sup0) ops)).
Proof.
  intros tb b0 sup0 ops.
  assert (G : forall ops s, Srt s -> Srt (run s ops)).
  { clear. induction ops as [|o r IH]; intros s C; simpl; [exact C|]. apply IH. now apply step_srt. }
  apply (G ops (init tb b0 sup0)). constructor.
Qed.

Lemma in_skipn_in : forall A n (l : list A) x, In x (skipn n l) -> In x l.
Proof. induction n as [|n IH]; intros [|y r] x H; simpl in *; auto. Qed.

(** in a sorted list everything in the first [n] is >= everything after *)
Lemma sorted_firstn_skipn : forall (l : list transfer) n a b,
  pool_sorted l -> In a (firstn n l) -> In b (skipn n l) -> key_ge a b.
Proof.
  intros l n; revert l; induction n as [|n IH]; intros l a b H Ha Hb; simpl in Ha; [contradiction|].
  destruct l as [|x r]; [contradiction|]. simpl in Ha, Hb. inversion H as [|? ? Hr Hx]; subst.
  destruct Ha as [<-|Ha].
  - rewrite Forall_forall in Hx. apply Hx. eapply in_skipn_in. exact Hb.
  - eapply IH; eauto.
Qed.

Lemma filter_sorted : forall p l, pool_sorted l -> pool_sorted (filter p l).
Proof.
  intros p l H; induction H as [|x r Hr IH Hx]; simpl; [constructor|].
  destruct (p x); [|exact IH]. constructor; [exact IH|].
  rewrite Forall_forall in *. intros y Hy. apply Hx. apply filter_In in Hy. tauto.
Qed.

(** a build takes the transfers with the highest (amount, id) keys of its (chain, contract): every
    transfer it put in the batch has a key >= that of every matching transfer it left in the pool *)
Theorem build_takes_the_highest_proof : forall tb b0 sup0 ops c k max now f s' t t',
  let s := run (init tb b0 sup0) ops in
  step s (OBuild c k max now f) = (s', Ok) ->
  In t (firstn (Z.to_nat max) (filter (matches c k) (pool s))) ->
  In t' (pool s') -> matches c k t' = true ->
  tx_key_lt t t' = false.
Proof.
  intros tb b0 sup0 ops c k max now f s' t t' s H Ht Ht' M.
  destruct (build_takes_first_in_pool_order_proof s c k max now f s' H) as (_ & _ & P).
  destruct P as (_ & _ & PF & _); [intros X; rewrite X in Ht; contradiction|].
  assert (Hs : In t' (skipn (Z.to_nat max) (filter (matches c k) (pool s)))).
  { rewrite <- PF. apply filter_In. split; assumption. }
  eapply sorted_firstn_skipn; [|exact Ht|exact Hs].
  apply filter_sorted. apply (pool_in_fee_order_proof tb b0 sup0 ops).
Qed.
