(** C02 — several remote chains in one history.

    The skyway module keeps one oracle per remote chain (every store is prefixed by the chain
    reference id; claim messages, end-blocker steps, governance overrides, activations and batches
    name their chain) over ONE staking module.  An operation of a multi-chain history is therefore
    either addressed to a chain ([Some c]) or global ([None]: staking powers, the bonded set, a
    genesis export/import — they reach every chain).  The state is one [Oracle.state] per chain,
    stepped by the SAME [Oracle.step] the single-chain theorems are about.

    [mrun_project]: the state of chain [c] after a multi-chain history is the single-chain run of
    the operations addressed to [c] (and the global ones).  Hence every single-chain theorem holds
    per chain ([every_chain_is_a_run]), and — the point of the exercise — whatever was voted,
    tallied, reset or activated on another chain is not even an input of chain [c]'s state:
    [votes_count_only_on_their_chain] restates the headline theorem with the voters' accepted votes
    located among the operations addressed to that chain.

    What this file does NOT model (see design/C02.md): the bank balance of a receiver is the sum of
    the per-chain [bal]; light-node licences live in x/paloma, one per client across chains. *)
From Coq Require Import List ZArith Bool Lia.
From Paloma Require Import Base.Num Skyway.Oracle Skyway.OracleProofs.
Import ListNotations.
Open Scope Z_scope.

Definition mop : Type := option Z * op.

Definition addressed (c : Z) (m : mop) : bool :=
  match fst m with None => true | Some c' => c' =? c end.

Definition mstate : Type := list (Z * state).

Definition minit (cs : list Z) : mstate := map (fun c => (c, init)) cs.

Definition mstep (m : mstate) (x : mop) : mstate :=
  map (fun cs => (fst cs, if addressed (fst cs) x then step (snd cs) (snd x) else snd cs)) m.

Definition mrun (cs : list Z) (l : list mop) : mstate := fold_left mstep l (minit cs).

Definition project (c : Z) (l : list mop) : list op := map snd (filter (addressed c) l).

Fixpoint chain_state (m : mstate) (c : Z) : state :=
  match m with
  | [] => init
  | (c', s) :: r => if c =? c' then s else chain_state r c
  end.

Lemma project_snoc c l x :
  project c (l ++ [x]) = project c l ++ (if addressed c x then [snd x] else []).
Proof.
  unfold project. rewrite filter_app, map_app. simpl. destruct (addressed c x); reflexivity.
Qed.

(** Chains are independent copies: chain [c] sees exactly the operations addressed to it. *)
Lemma mrun_project cs l : mrun cs l = map (fun c => (c, run (project c l))) cs.
Proof.
  induction l as [|x l IH] using rev_ind.
  - reflexivity.
  - unfold mrun in *. rewrite fold_left_app. simpl. rewrite IH. unfold mstep. rewrite map_map.
    apply map_ext. intros c. simpl. rewrite project_snoc.
    destruct (addressed c x); [now rewrite run_snoc | now rewrite app_nil_r].
Qed.

Lemma In_mrun cs l c s : In (c, s) (mrun cs l) -> s = run (project c l).
Proof.
  rewrite mrun_project. intros H. apply in_map_iff in H as (c' & E & _). inversion E; subst. reflexivity.
Qed.

(** Transfer principle: whatever holds of every single-chain run holds of every chain. *)
Lemma every_chain_is_a_run (P : state -> Prop) :
  (forall ops, P (run ops)) -> forall cs l c s, In (c, s) (mrun cs l) -> P s.
Proof. intros H cs l c s Hin. rewrite (In_mrun _ _ _ _ Hin). apply H. Qed.

(** An operation in the projection is an operation of the history that was addressed to the chain. *)
Lemma project_split c l : forall o1 x o2,
  project c l = o1 ++ x :: o2 ->
  exists m1 y m2, l = m1 ++ y :: m2 /\ addressed c y = true /\ snd y = x /\
                  project c m1 = o1 /\ project c m2 = o2.
Proof.
  induction l as [|y l IH]; intros o1 x o2 E.
  - destruct o1; discriminate.
  - unfold project in E. simpl in E. destruct (addressed c y) eqn:A.
    + simpl in E. destruct o1 as [|z o1]; simpl in E.
      * inversion E as [[E1 E2]]. exists [], y, l. unfold project. auto.
      * inversion E as [[E1 E2]]. destruct (IH o1 x o2 E2) as (m1 & y' & m2 & El & Ay & Sy & P1 & P2).
        exists (y :: m1), y', m2. split; [now rewrite El|]. split; [exact Ay|]. split; [exact Sy|].
        split; [|exact P2]. unfold project in *. simpl. rewrite A. simpl. now rewrite P1.
    + destruct (IH o1 x o2 E) as (m1 & y' & m2 & El & Ay & Sy & P1 & P2).
      exists (y :: m1), y', m2. split; [now rewrite El|]. split; [exact Ay|]. split; [exact Sy|].
      split; [|exact P2]. unfold project in *. simpl. now rewrite A.
Qed.

(** Validator [v]'s vote for claim [cl] was accepted by chain [c]'s oracle: the message was
    addressed to [c] and Attest accepted it in chain [c]'s state of that moment. *)
Definition accepted_vote_on (c : Z) (l : list mop) (v : Z) (cl : claim) : Prop :=
  exists m1 y m2 known, l = m1 ++ y :: m2 /\ addressed c y = true /\ snd y = Vote v known cl /\
    vote_ok (run (project c m1)) v v known cl = true.

Lemma accepted_vote_lift c l v cl : accepted_vote (project c l) v cl -> accepted_vote_on c l v cl.
Proof.
  intros (o1 & o2 & kn & E & Ok).
  destruct (project_split c l o1 _ o2 E) as (m1 & y & m2 & El & Ay & Sy & P1 & _).
  exists m1, y, m2, kn. rewrite P1. auto.
Qed.

(** The headline theorem, per chain: an effect on chain [c] needs more than 66 % of the power (of
    the moment of the tally) held by DISTINCT validators whose votes were accepted ON CHAIN [c]. *)
Lemma votes_count_only_on_their_chain_run cs l c s e :
  In (c, s) (mrun cs l) -> In e (applied s) ->
  exists l1 y l2 vs,
    l = l1 ++ y :: l2 /\ addressed c y = true /\ snd y = Tally /\
    NoDup vs /\
    (forall v, In v vs -> exists cl, accepted_vote_on c l1 v cl /\
        c_nonce cl = c_nonce (e_claim e) /\ c_height cl = c_height (e_claim e) /\
        (cl = e_claim e \/ (cl <> e_claim e /\ c_h cl = c_h (e_claim e)))) /\
    100 * power (pw (run (project c l1))) vs > 66 * total (run (project c l1)).
Proof.
  intros Hin He. rewrite (In_mrun _ _ _ _ Hin) in He.
  destruct (observed_needs_gt66_distinct_run _ _ He) as (o1 & o2 & vs & E & ND & Hv & Hp).
  destruct (project_split c l o1 _ o2 E) as (l1 & y & l2 & El & Ay & Sy & P1 & _).
  exists l1, y, l2, vs. rewrite P1. repeat split; auto.
  intros v Hvin. destruct (Hv v Hvin) as (cl & A & R). exists cl. split; [|exact R].
  apply accepted_vote_lift. now rewrite P1.
Qed.

(** An operation addressed to another chain does not change chain [c]. *)
Lemma other_chain_untouched cs l x c s :
  addressed c x = false -> In (c, s) (mrun cs (l ++ [x])) -> In (c, s) (mrun cs l).
Proof.
  intros A H. rewrite mrun_project in *. apply in_map_iff in H as (c' & Ec & Hc).
  inversion Ec as [[E1 E2]]. subst c'. apply in_map_iff. exists c. split; [|exact Hc].
  now rewrite project_snoc, A, app_nil_r.
Qed.

(** Two chains, five validators: everybody votes event 1 on chain 7; on chain 8 only two do.  Chain
    7's claim takes effect, chain 8's does not — and the votes cast on chain 7 do not help chain 8
    even though the claim is field-for-field the same. *)
Example ex_two_chains :
  let on c := map (fun o => (Some c, o)) in
  let glob := map (fun o => (@None Z, o)) five in
  let votes k := map (fun v => Vote v true (cl 1 7 110 500)) k in
  let m := mrun [7; 8] (glob ++ on 7 (votes [0;1;2;3;4]) ++ on 8 (votes [0;1]) ++ [(Some 7, Tally); (Some 8, Tally)]) in
  length (applied (chain_state m 7)) = 1%nat /\ applied (chain_state m 8) = [] /\
  last_obs (chain_state m 7) = 1 /\ last_obs (chain_state m 8) = 0 /\
  vnonce (chain_state m 8) = [(0,1);(1,1)].
Proof. vm_compute. auto 10. Qed.
