(** C06, second round — a compass redeploy while batches are open.

    The checkpoint of a batch covers the compass (smart contract unique) id of its chain, and ConfirmBatch verifies a
    confirmation against the checkpoint computed with the id of the chain's CURRENT compass.  When evm activates a new
    compass for a chain (EVMActivatedChain event), skyway's refreshOpenBatchCheckpoints renews the bytes to sign of every
    open batch of that chain and drops its confirmations — per batch exactly [BRebody].  [redeploy_ops] is that loop.

    - [redeploy_clears_all]: after the loop no confirmation of ANY batch of the chain is left, confirmations of the other
      chains' batches are untouched, and no batch is lost.
    - [redeploy_without_refresh_refuted]: what the code did before the fix (compass id switched, batches left alone):
      a stored confirmation that verified no longer verifies against the checkpoint ConfirmBatch now computes.  Replayed on
      the real keepers by harness/c06 scriptedRedeploy (known finding C06:compass-redeploy-keeps-open-batch-confirms on a
      tree without the fix). *)
From Coq Require Import List ZArith Bool Lia.
From Paloma Require Import Cons.Queue Skyway.Confirms Skyway.ConfirmsProofs.
Import ListNotations.
Open Scope Z_scope.

Section Redeploy.
Variable Sig : Type.
Variable verify : cbytes -> Sig -> Z -> bool.

Notation confirm := (confirm Sig).
Notation cstate := (cstate Sig).
Notation cop := (cop Sig).
Notation cstep := (cstep Sig verify).
Notation crun_from := (crun_from Sig verify).

(** the loop of refreshOpenBatchCheckpoints over the batches [l] (a snapshot of the store taken before the loop) *)
Definition redeploy_ops (l : list batch) (chain : Z) (newbody : batch -> Z) : list cop :=
  map (fun b => BRebody (b_nonce b) (b_contract b) (newbody b)) (filter (fun b => b_chain b =? chain) l).

Definition is_rebody (o : cop) : Prop := match o with BRebody _ _ _ => True | _ => False end.

Lemma find_batch_map_body : forall (l : list batch) nonce body contract' nonce',
  find_batch (map (fun x => if b_nonce x =? nonce then with_body x body else x) l) contract' nonce' = None <->
  find_batch l contract' nonce' = None.
Proof.
  induction l as [|x r IH]; simpl; intros nonce body c' n'; [tauto|].
  assert (E : (b_nonce (if b_nonce x =? nonce then with_body x body else x) =? n') &&
              (b_contract (if b_nonce x =? nonce then with_body x body else x) =? c') =
              (b_nonce x =? n') && (b_contract x =? c')) by (destruct (b_nonce x =? nonce); reflexivity).
  rewrite E. destruct ((b_nonce x =? n') && (b_contract x =? c')); [split; discriminate|apply IH].
Qed.

Lemma rebody_step : forall (s : cstate) nonce contract body,
  let s' := fst (cstep s (BRebody nonce contract body)) in
  (forall c, In c (cs_confirms s') -> In c (cs_confirms s) /\
             (find_batch (cs_batches s) contract nonce <> None -> of_batch nonce contract c = false)) /\
  (forall c, In c (cs_confirms s) -> of_batch nonce contract c = false -> In c (cs_confirms s')) /\
  (forall contract' nonce', find_batch (cs_batches s') contract' nonce' = None <-> find_batch (cs_batches s) contract' nonce' = None) /\
  List.length (cs_batches s') = List.length (cs_batches s).
Proof.
  intros s nonce contract body. simpl.
  destruct (find_batch (cs_batches s) contract nonce) as [b|] eqn:EF; simpl.
  - split; [|split; [|split]].
    + intros c Hc. rewrite delete_confirms_eq in Hc. apply filter_In in Hc as [Hc Hf]. split; auto.
      intros _. now apply negb_true_iff in Hf.
    + intros c Hc Hf. rewrite delete_confirms_eq. apply filter_In. split; auto. now rewrite Hf.
    + intros c' n'. apply find_batch_map_body.
    + now rewrite map_length.
  - split; [|split; [|split]]; auto.
    + intros c Hc. split; auto. intros H. now destruct H.
    + intros; tauto.
Qed.

(** Running any sequence of renewals: confirmations only disappear; one of a renewed (existing) batch is gone for good;
    one of no renewed batch stays; the set of (nonce, contract) keys of the batches is unchanged. *)
Lemma rebody_run : forall (ops : list cop) (s : cstate),
  Forall is_rebody ops ->
  let s' := crun_from s ops in
  (forall c, In c (cs_confirms s') -> In c (cs_confirms s) /\
     forall nonce contract body, In (BRebody nonce contract body) ops ->
       find_batch (cs_batches s) contract nonce <> None -> of_batch nonce contract c = false) /\
  (forall c, In c (cs_confirms s) ->
     (forall nonce contract body, In (BRebody nonce contract body) ops -> of_batch nonce contract c = false) ->
     In c (cs_confirms s')) /\
  (forall contract' nonce', find_batch (cs_batches s') contract' nonce' = None <-> find_batch (cs_batches s) contract' nonce' = None) /\
  List.length (cs_batches s') = List.length (cs_batches s).
Proof.
  induction ops as [|o ops IH]; intros s HF; simpl.
  - split; [|split; [|split]]; auto.
    + intros c Hc. split; auto. intros n ct bd Hin. simpl in Hin. destruct Hin.
    + intros; tauto.
  - inversion HF as [|? ? Ho HF']; subst.
    destruct o as [| | | | | |nonce contract body]; try now destruct Ho.
    destruct (rebody_step s nonce contract body) as (S1 & S2 & S3 & S4).
    set (s1 := fst (cstep s (BRebody nonce contract body))) in *.
    destruct (IH s1 HF') as (I1 & I2 & I3 & I4).
    unfold Confirms.crun_from in *. simpl. fold s1.
    split; [|split; [|split]].
    + intros c Hc. apply I1 in Hc as [Hc1 Hc2]. apply S1 in Hc1 as [Hc1 Hc3]. split; auto.
      intros n ct bd [E|Hin] Hfb.
      * inversion E; subst. now apply Hc3.
      * apply (Hc2 n ct bd Hin). intro HN. apply Hfb. now apply S3.
    + intros c Hc Hall. apply I2.
      * apply S2; auto. apply (Hall nonce contract body). now left.
      * intros n ct bd Hin. apply (Hall n ct bd). now right.
    + intros c' n'. rewrite I3. apply S3.
    + now rewrite I4, S4.
Qed.

Lemma find_batch_in : forall (l : list batch) b, In b l -> find_batch l (b_contract b) (b_nonce b) <> None.
Proof.
  induction l as [|x r IH]; simpl; intros b Hin; [destruct Hin|].
  destruct Hin as [->|Hin].
  - now rewrite !Z.eqb_refl.
  - destruct ((b_nonce x =? b_nonce b) && (b_contract x =? b_contract b)); [discriminate|now apply IH].
Qed.

Theorem redeploy_clears_all_proof : forall (s : cstate) chain newbody,
  let s' := crun_from s (redeploy_ops (cs_batches s) chain newbody) in
  (* no confirmation of any batch of the chain is left, however many there were *)
  (forall c b, In c (cs_confirms s') -> In b (cs_batches s) -> b_chain b = chain ->
     of_batch (b_nonce b) (b_contract b) c = false) /\
  (* nothing else is touched: a confirmation that belongs to no batch of the chain is still there *)
  (forall c, In c (cs_confirms s) ->
     (forall b, In b (cs_batches s) -> b_chain b = chain -> of_batch (b_nonce b) (b_contract b) c = false) ->
     In c (cs_confirms s')) /\
  (forall c, In c (cs_confirms s') -> In c (cs_confirms s)) /\
  List.length (cs_batches s') = List.length (cs_batches s).
Proof.
  intros s chain newbody.
  assert (HF : Forall is_rebody (redeploy_ops (cs_batches s) chain newbody)).
  { unfold redeploy_ops. apply Forall_forall. intros o Ho. apply in_map_iff in Ho as (b & <- & _). exact I. }
  destruct (rebody_run _ s HF) as (R1 & R2 & _ & R4).
  split; [|split; [|split]]; auto.
  - intros c b Hc Hb Hch. apply R1 in Hc as [_ Hc].
    apply (Hc (b_nonce b) (b_contract b) (newbody b)).
    + unfold redeploy_ops. apply in_map_iff. exists b. split; auto. apply filter_In. split; auto.
      subst chain. apply Z.eqb_refl.
    + now apply find_batch_in.
  - intros c Hc Hall. apply R2; auto.
    intros n ct bd Hin. unfold redeploy_ops in Hin. apply in_map_iff in Hin as (b & E & Hb).
    inversion E; subst. apply filter_In in Hb as [Hb Hch]. apply Z.eqb_eq in Hch. now apply Hall.
  - intros c Hc. now apply R1 in Hc.
Qed.

End Redeploy.

(** The code before the fix: the chain's compass id changes, the open batch and its confirmations stay as they are.
    ConfirmBatch then verifies against the checkpoint with the NEW id ([with_body]: the compass id is part of the body):
    the stored confirmation, valid until then, does not verify against it. *)
Lemma redeploy_without_refresh_refuted_witness :
  exists (s : cstate icsig) b c body',
    In b (cs_batches s) /\ In c (cs_confirms s) /\ of_batch (b_nonce b) (b_contract b) c = true /\
    icverify (checkpoint b) (cf_sig c) (cf_signer c) = true /\
    icverify (checkpoint (with_body b body')) (cf_sig c) (cf_signer c) = false /\
    (* ... while the renewal removes it *)
    cs_confirms (fst (cstep icsig icverify s (BRebody (b_nonce b) (b_contract b) body'))) = [].
Proof.
  exists (crun icsig icverify (firstn 7 ex_cops)). do 2 eexists. exists 8.
  split; [vm_compute; left; reflexivity|]. split; [vm_compute; left; reflexivity|].
  vm_compute. repeat split; reflexivity.
Qed.
