(** C11, second round — proofs about gated submissions, genesis re-import and badly keyed attestations
    (definitions in Skyway/ClaimsGate.v). *)
From Coq Require Import List NArith ZArith Bool String Lia.
From Coq Require Import Strings.Byte.
From Paloma Require Import Base.Sha256 Skyway.Claims Skyway.ClaimsProofs Skyway.ClaimsGate.
Import ListNotations.
Open Scope N_scope.

(** * 0. The generated tables of the second round *)
Lemma gate_tables_ok_true : gate_tables_ok = true.
Proof. vm_compute. reflexivity. Qed.

Lemma subset_incl : forall l1 l2, subset l1 l2 = true -> incl l1 l2.
Proof.
  intros l1 l2 H x I. unfold subset in H. rewrite forallb_forall in H. apply mem_In. now apply H.
Qed.

(** every implementer of the claim interface is one of the claim types the tables (and so the theorems) cover *)
Lemma claim_impls_covered_lemma :
  incl G.claim_impls G.claim_types /\ incl G.claim_registered G.claim_impls /\ incl G.claim_handled G.claim_impls /\
  incl G.live_types G.claim_handled /\ incl G.claim_types known_claim_types.
Proof.
  pose proof gate_tables_ok_true as T. unfold gate_tables_ok in T.
  apply andb_true_iff in T as [T _]. apply andb_true_iff in T as [T _]. apply andb_true_iff in T as [T _].
  apply andb_true_iff in T as [T _]. apply andb_true_iff in T as [T H6]. apply andb_true_iff in T as [T H5].
  apply andb_true_iff in T as [T H4]. apply andb_true_iff in T as [T _]. apply andb_true_iff in T as [H1 H2].
  split; [exact (subset_incl _ _ H1)|]. split; [exact (subset_incl _ _ H2)|]. split; [exact (subset_incl _ _ H4)|].
  split; [exact (subset_incl _ _ H5) | exact (subset_incl _ _ H6)].
Qed.

(** * 1. Any gate in front of Attest *)

Lemma attest_g_inv : forall (g : gate) K done s i v c, inv K done s ->
  inv K (done ++ (if g i s v c then [(v, c)] else [])) (fst (attest_g g K s i v c)).
Proof.
  intros g K done s i v c H. unfold attest_g. destruct (g i s v c).
  - now apply attest_inv.
  - simpl. now rewrite app_nil_r.
Qed.

Lemma run_g_from_inv : forall g K ops done s i, inv K done s ->
  inv K (done ++ passed_from g K s i ops) (run_g_from g K s i ops).
Proof.
  induction ops as [|[v c] ops IH]; intros done s i H; simpl.
  - now rewrite app_nil_r.
  - rewrite app_assoc. apply IH. now apply attest_g_inv.
Qed.

Lemma passed_sub : forall g K ops s i o, In o (passed_from g K s i ops) -> In o ops.
Proof.
  induction ops as [|[v c] ops IH]; intros s i o H; simpl in *; [exact H|].
  apply in_app_or in H as [H | H].
  - destruct (g i s v c); [|destruct H]. destruct H as [H | []]. now left.
  - right. eapply IH; eauto.
Qed.

Lemma passed_static : forall (p : claim -> bool) g K ops s i v c,
  (forall i s v c, g i s v c = p c) -> In (v, c) (passed_from g K s i ops) -> p c = true.
Proof.
  induction ops as [|[v' c'] ops IH]; intros s i v c Hg H; simpl in *; [destruct H|].
  apply in_app_or in H as [H | H].
  - destruct (g i s v' c') eqn:E; [|destruct H]. destruct H as [H | []]. inversion H; subst. now rewrite <- (Hg i s v c).
  - eapply IH; eauto.
Qed.

(** what the invariant gives for the attestations of a state *)
Lemma inv_gives : forall K done s,
  (forall v c, In (v, c) done -> In (c_type c) G.claim_types) -> inv K done s ->
  forall a, In a (atts s) ->
    (exists v0, In (v0, a_body a) done) /\
    forall v, In v (a_votes a) ->
      exists c, In (v, c) done /\
        (effect c = effect (a_body a) \/ (path c <> path (a_body a) /\ sha256 (path c) = sha256 (path (a_body a)))).
Proof.
  intros K done s Ty I a Ia. destruct (I a Ia) as [H1 [[v0 H2] H3]]. split; [now exists v0|].
  intros v Iv. destruct (H3 v Iv) as [c [Ic Ek]]. exists c. split; [exact Ic|].
  apply (same_key_same_effect_lemma K); [now apply (Ty v) | now apply (Ty v0) | now rewrite Ek, H1].
Qed.

Lemma inv_init : forall K, inv K [] init.
Proof. intros K a []. Qed.

Lemma pooled_votes_any_gate_lemma : forall (g : gate) K ops,
  (forall v c, In (v, c) ops -> In (c_type c) G.claim_types) ->
  forall a, In a (atts (run_g g K ops)) ->
    (exists v0, In (v0, a_body a) ops) /\
    forall v, In v (a_votes a) ->
      exists c, In (v, c) ops /\
        (effect c = effect (a_body a) \/ (path c <> path (a_body a) /\ sha256 (path c) = sha256 (path (a_body a)))).
Proof.
  intros g K ops Ty a Ia.
  pose proof (run_g_from_inv g K ops [] init 0 (inv_init K)) as I. simpl in I.
  assert (forall v c, In (v, c) (passed_from g K init 0 ops) -> In (c_type c) G.claim_types) as Ty'.
  { intros v c H. apply (Ty v). eapply passed_sub; eauto. }
  destruct (inv_gives K _ _ Ty' I a Ia) as [[v0 H0] Hv]. split.
  - exists v0. eapply passed_sub; eauto.
  - intros v Iv. destruct (Hv v Iv) as [c [Ic E]]. exists c. split; [eapply passed_sub; eauto | exact E].
Qed.

(** the msg server of the pinned tree: stored bodies and voters' claims passed ValidateBasic and additionalPatchChecks *)
Lemma msg_server_votes_lemma : forall bs K ops,
  (forall v c, In (v, c) ops -> In (c_type c) G.claim_types) ->
  forall a, In a (atts (run_ms bs K ops)) ->
    (exists v0, In (v0, a_body a) ops /\ valid_basic (a_body a) = true /\ batch_gate bs (a_body a) = true) /\
    forall v, In v (a_votes a) ->
      exists c, In (v, c) ops /\ valid_basic c = true /\ batch_gate bs c = true /\
        (effect c = effect (a_body a) \/ (path c <> path (a_body a) /\ sha256 (path c) = sha256 (path (a_body a)))).
Proof.
  intros bs K ops Ty a Ia. unfold run_ms, run_g in Ia.
  pose proof (run_g_from_inv (ms_gate bs) K ops [] init 0 (inv_init K)) as I. simpl in I.
  assert (forall v c, In (v, c) (passed_from (ms_gate bs) K init 0 ops) -> In (c_type c) G.claim_types) as Ty'.
  { intros v c H. apply (Ty v). eapply passed_sub; eauto. }
  assert (forall v c, In (v, c) (passed_from (ms_gate bs) K init 0 ops) -> valid_basic c = true /\ batch_gate bs c = true) as Pg.
  { intros v c H. apply (passed_static (msg_gate bs)) in H; [|reflexivity]. unfold msg_gate in H. now apply andb_true_iff in H. }
  destruct (inv_gives K _ _ Ty' I a Ia) as [[v0 H0] Hv]. split.
  - exists v0. destruct (Pg _ _ H0). split; [eapply passed_sub; eauto | auto].
  - intros v Iv. destruct (Hv v Iv) as [c [Ic E]]. exists c. destruct (Pg _ _ Ic).
    split; [eapply passed_sub; eauto | auto].
Qed.

(** a batch claim that names a batch in state is stored / counted only with a height below the batch's timeout *)
Lemma batch_gate_timeout : forall bs c a t,
  c_type c = batch_claim_type -> eth_parse (c_str c "TokenContract") = Some a ->
  find_batch bs a (c_num c "BatchNonce") = Some t -> batch_gate bs c = true -> c_num c "EthBlockHeight" < t.
Proof.
  intros bs c a t Ht Ha Hf Hg. unfold batch_gate in Hg. rewrite Ht, String.eqb_refl, Ha, Hf in Hg.
  apply negb_true_iff, N.leb_gt in Hg. exact Hg.
Qed.

(** * 2. Genesis export / import *)

Lemma text_eqb_refl : forall a, text_eqb a a = true.
Proof.
  unfold text_eqb. induction a as [|x a IH]; [reflexivity|]. apply andb_true_iff. split; [|exact IH].
  destruct (Byte.eqb x x) eqn:E; [reflexivity|]. apply Byte.eqb_false in E. congruence.
Qed.

Lemma text_eqb_neq : forall a b, a <> b -> text_eqb a b = false.
Proof. intros a b N. destruct (text_eqb a b) eqn:E; [|reflexivity]. apply text_eqb_eq in E. contradiction. Qed.

Lemma put_att_in : forall l a x, In x (put_att l a) -> x = a \/ In x l.
Proof.
  induction l as [|y l IH]; intros a x H; simpl in H.
  - destruct H as [H | []]. now left.
  - destruct (text_eqb (a_key y) (a_key a)).
    + destruct H as [H | H]; [now left | right; now right].
    + destruct H as [H | H]; [right; now left|]. destruct (IH a x H); [now left | right; now right].
Qed.

Lemma put_att_fresh : forall l a, (forall x, In x l -> a_key x <> a_key a) -> put_att l a = l ++ [a].
Proof.
  induction l as [|y l IH]; intros a H; simpl; [reflexivity|].
  rewrite text_eqb_neq by (apply H; now left). f_equal. apply IH. intros x I. apply H. now right.
Qed.

Lemma fold_put_in : forall K l acc x,
  In x (fold_left (fun acc a => put_att acc (rekey K a)) l acc) -> In x acc \/ exists a0, In a0 l /\ x = rekey K a0.
Proof.
  induction l as [|a l IH]; intros acc x H; simpl in H; [now left|].
  destruct (IH _ _ H) as [I | [a0 [I E]]].
  - apply put_att_in in I as [I | I]; [right; exists a; split; [now left | exact I] | now left].
  - right. exists a0. split; [now right | exact E].
Qed.

(** after InitGenesis every attestation is stored under the key of its body, and its body and votes are those of
    exactly one exported attestation (votes of two exported attestations are never merged) *)
Lemma reimport_atts_well_keyed_lemma : forall K l a, In a (reimport_atts K l) ->
  well_keyed K a /\ exists a0, In a0 l /\ a_body a = a_body a0 /\ a_votes a = a_votes a0 /\ a_src a = a_src a0.
Proof.
  intros K l a H. unfold reimport_atts in H. apply fold_put_in in H as [[] | [a0 [I E]]].
  subst a. split; [reflexivity|]. exists a0. simpl. auto.
Qed.

Lemma rekey_id : forall K a, well_keyed K a -> rekey K a = a.
Proof. intros K [k s b v] H. unfold well_keyed in H. simpl in H. unfold rekey. simpl. now rewrite <- H. Qed.

Lemma fold_put_identity : forall K l acc,
  (forall a, In a l -> well_keyed K a) -> NoDup (map a_key (acc ++ l)) ->
  fold_left (fun acc a => put_att acc (rekey K a)) l acc = acc ++ l.
Proof.
  induction l as [|a l IH]; intros acc W N; simpl; [now rewrite app_nil_r|].
  rewrite (rekey_id K a) by (apply W; now left).
  rewrite put_att_fresh.
  - rewrite IH; [now rewrite <- app_assoc | intros x I; apply W; now right | now rewrite <- app_assoc].
  - intros x I E. rewrite map_app in N. simpl in N. apply NoDup_remove_2 in N. apply N.
    rewrite in_app_iff. left. rewrite <- E. now apply in_map.
Qed.

(** on a store whose attestations are all well keyed (distinct keys, as in any KV store) export followed by import
    changes nothing *)
Lemma reimport_atts_identity_lemma : forall K l,
  (forall a, In a l -> well_keyed K a) -> NoDup (map a_key l) -> reimport_atts K l = l.
Proof. intros K l W N. unfold reimport_atts. now rewrite (fold_put_identity K l []). Qed.

Lemma insert_att_in : forall a l x, In x (insert_att a l) <-> x = a \/ In x l.
Proof.
  induction l as [|y l IH]; intros x; simpl.
  - intuition.
  - destruct (text_leb (a_key a) (a_key y)); simpl; [intuition|]. rewrite IH. intuition.
Qed.

Lemma sort_atts_in : forall l x, In x (sort_atts l) <-> In x l.
Proof.
  induction l as [|a l IH]; intros x; simpl; [tauto|]. rewrite insert_att_in, IH. intuition.
Qed.

(** the pooling invariant survives export / import *)
Lemma reimport_inv : forall K done s, inv K done s -> inv K done (reimport K s).
Proof.
  intros K done s H a Ia. unfold reimport in Ia. simpl in Ia.
  apply reimport_atts_well_keyed_lemma in Ia as [W [a0 [I0 [Eb [Ev _]]]]].
  apply (proj1 (sort_atts_in _ _)) in I0. destruct (H a0 I0) as [H1 [[v0 H2] H3]].
  unfold well_keyed in W. rewrite Eb in *. split; [now rewrite W|]. split.
  - now exists v0.
  - intros v Iv. rewrite Ev in Iv. destruct (H3 v Iv) as [c [Ic Ek]]. exists c. split; [exact Ic|]. now rewrite W, Ek, H1.
Qed.

(** submissions under any gate, an export / import of genesis, further submissions under any (other) gate *)
Lemma pooled_votes_across_genesis_lemma : forall (g g' : gate) K ops1 ops2 i2,
  (forall v c, In (v, c) (ops1 ++ ops2) -> In (c_type c) G.claim_types) ->
  forall a, In a (atts (run_g_from g' K (reimport K (run_g g K ops1)) i2 ops2)) ->
    (exists v0, In (v0, a_body a) (ops1 ++ ops2)) /\
    forall v, In v (a_votes a) ->
      exists c, In (v, c) (ops1 ++ ops2) /\
        (effect c = effect (a_body a) \/ (path c <> path (a_body a) /\ sha256 (path c) = sha256 (path (a_body a)))).
Proof.
  intros g g' K ops1 ops2 i2 Ty a Ia.
  pose proof (run_g_from_inv g K ops1 [] init 0 (inv_init K)) as I1. simpl in I1.
  apply reimport_inv in I1.
  pose proof (run_g_from_inv g' K ops2 _ _ i2 I1) as I2.
  set (d1 := passed_from g K init 0 ops1) in *. set (d2 := passed_from g' K (reimport K (run_g g K ops1)) i2 ops2) in *.
  assert (forall o, In o (d1 ++ d2) -> In o (ops1 ++ ops2)) as Sub.
  { intros o Io. apply in_app_or in Io as [Io | Io]; apply in_or_app; [left | right]; eapply passed_sub; eauto. }
  assert (forall v c, In (v, c) (d1 ++ d2) -> In (c_type c) G.claim_types) as Ty' by (intros v c H; apply (Ty v); now apply Sub).
  destruct (inv_gives K _ _ Ty' I2 a Ia) as [[v0 H0] Hv]. split.
  - exists v0. now apply Sub.
  - intros v Iv. destruct (Hv v Iv) as [c [Ic E]]. exists c. split; [now apply Sub | exact E].
Qed.

(** * 3. Attestations stored under a key that is not the key of their body (e.g. stored before a change of the
       hash encoding) *)

Lemma find_att_app_other : forall l x k, a_key x <> k -> find_att (l ++ [x]) k = find_att l k.
Proof.
  induction l as [|y l IH]; intros x k N; simpl.
  - now rewrite text_eqb_neq.
  - destruct (text_eqb (a_key y) k); [reflexivity | now apply IH].
Qed.

Lemma find_att_add_vote_other : forall l k' v k, k' <> k ->
  match find_att (add_vote l k' v) k, find_att l k with
  | Some a, Some b => a_votes a = a_votes b /\ a_body a = a_body b /\ a_key a = a_key b
  | None, None => True
  | _, _ => False
  end.
Proof.
  induction l as [|y l IH]; intros k' v k N; simpl; [exact I|].
  destruct (text_eqb (a_key y) k') eqn:E1.
  - apply text_eqb_eq in E1. simpl. rewrite !(text_eqb_neq (a_key y) k) by congruence.
    destruct (find_att l k); auto.
  - simpl. destruct (text_eqb (a_key y) k); [auto | now apply IH].
Qed.

(** a submission changes the votes counted under a store key only if the key of the submitted claim is that key *)
Lemma attest_votes_other_key : forall K s i v c k, att_key K c <> k ->
  votes_at (fst (attest K s i v c)) k = votes_at s k.
Proof.
  intros K s i v c k N. unfold attest.
  destruct (negb (nonce_of c =? last_of (lasts s) v (chain_of c) + 1)); [reflexivity|].
  destruct (find_att (atts s) (att_key K c)) as [a0|] eqn:Fd.
  - destruct (height_of (a_body a0) =? height_of c); [|reflexivity].
    unfold votes_at. simpl. pose proof (find_att_add_vote_other (atts s) (att_key K c) v k N) as H.
    destruct (find_att (add_vote (atts s) (att_key K c) v) k), (find_att (atts s) k); try contradiction; [now destruct H | reflexivity].
  - unfold votes_at. simpl. now rewrite find_att_app_other.
Qed.

(** in particular: an attestation stored under a stale key gets no vote from a re-submission of its own body (nor
    from any claim with the body's present key) — under any gate *)
Lemma stale_not_voted_by_own_body_lemma : forall (g : gate) K s i v c a,
  In a (atts s) -> ~ well_keyed K a -> att_key K c = att_key K (a_body a) ->
  votes_at (fst (attest_g g K s i v c)) (a_key a) = votes_at s (a_key a).
Proof.
  intros g K s i v c a _ W E. unfold attest_g. destruct (g i s v c); [|reflexivity].
  apply attest_votes_other_key. rewrite E. intros X. apply W. unfold well_keyed. now rewrite X.
Qed.

(** * 4. Non-vacuity *)

Definition ex_batch_claim (token : string) (bn h : N) : claim :=
  {| c_type := "MsgBatchSendToRemoteClaim";
     c_num := fun f => if String.eqb f "SkywayNonce" then 1 else if String.eqb f "EthBlockHeight" then h
                       else if String.eqb f "BatchNonce" then bn else 7;
     c_str := fun f => if String.eqb f "TokenContract" then bytes_of token
                       else if String.eqb f "ChainReferenceId" then bytes_of "test-chain" else bytes_of "55";
     c_amt := fun _ => None |}.

Definition ex_token : string := "0x0bc529c00C6401aEF6D220BE8C6Ea1667F6Ad93e".
Definition ex_token_bytes : text :=
  match eth_parse (bytes_of ex_token) with Some a => a | None => [] end.

(** the three spellings of one address parse to the same 20 bytes; malformed ones are refused *)
Example eth_parse_examples :
  eth_parse (bytes_of "0X0BC529C00C6401AEF6D220BE8C6EA1667F6AD93E") = Some ex_token_bytes /\
  eth_parse (bytes_of "0bc529c00c6401aef6d220be8c6ea1667f6ad93e") = Some ex_token_bytes /\
  List.length ex_token_bytes = 20%nat /\
  eth_parse (bytes_of "0x0bc529c00C6401aEF6D220BE8C6Ea1667F6Ad93") = None /\
  eth_parse (bytes_of "0x0x0bc529c00C6401aEF6D220BE8C6Ea1667F6Ad9") = None /\
  eth_parse (bytes_of "") = None.
Proof. vm_compute. repeat split; reflexivity. Qed.

(** batch 3 of the token times out at 1000: a claim at height 999 passes, 1000 is refused, an unknown batch passes *)
Example batch_gate_examples :
  let bs := [(ex_token_bytes, 3, 1000)] in
  msg_gate bs (ex_batch_claim ex_token 3 999) = true /\
  msg_gate bs (ex_batch_claim ex_token 3 1000) = false /\
  msg_gate bs (ex_batch_claim ex_token 4 5000) = true /\
  msg_gate bs (ex_batch_claim "not-an-address" 3 1) = false /\
  msg_gate bs (ex_batch_claim ex_token 0 1) = false.
Proof. vm_compute. repeat split; reflexivity. Qed.

(** the refused claim leaves no trace; the accepted ones pool *)
Example run_ms_example :
  let bs := [(ex_token_bytes, 3, 1000)] in
  let ops := [(0, ex_batch_claim ex_token 3 1000); (1, ex_batch_claim ex_token 3 999); (2, ex_batch_claim ex_token 3 999)] in
  map a_votes (atts (run_ms bs [] ops)) = [[1; 2]].
Proof. vm_compute. reflexivity. Qed.

(** a stale entry: body stored under a key that is not its key; its own body re-submitted creates a second
    attestation, the stale one keeps its votes; after export / import the stale one is stored under the body's key *)
Example stale_example :
  let body := ex_deposit "r" "55" 0 in
  let stale := {| a_key := bytes_of "old-key"; a_src := 0; a_body := body; a_votes := [0; 1] |} in
  let s := {| atts := [stale]; lasts := [(0, bytes_of "test-chain", 1); (1, bytes_of "test-chain", 1)] |} in
  let s' := fst (attest [] s 5 2 body) in
  map a_votes (atts s') = [[0; 1]; [2]] /\
  map (fun a => text_eqb (a_key a) (att_key [] body)) (atts s') = [false; true] /\
  map a_votes (atts (reimport [] s)) = [[0; 1]] /\
  map (fun a => text_eqb (a_key a) (att_key [] body)) (atts (reimport [] s)) = [true] /\
  (* ... and when both exist at export, the one that comes later in key order replaces the other: votes are not merged *)
  List.length (atts (reimport [] s')) = 1%nat.
Proof. vm_compute. repeat split; reflexivity. Qed.

(** * 5. Exempted fields are not read where effects are produced *)
Lemma effect_reads_ok_true : effect_reads_ok = true.
Proof. vm_compute. reflexivity. Qed.

Lemma tally_reads_only_hashed_lemma : forall ct, In ct G.claim_types ->
  incl (G.tally_fields ct) (hashed_fields ct ++ G.key_fields ct) /\
  ~ In "EventNonce"%string (G.submit_fields_nogate ct) /\
  (forall f, In f (G.tally_fields ct) -> ~ In f excluded).
Proof.
  intros ct H. pose proof effect_reads_ok_true as T. unfold effect_reads_ok in T.
  rewrite forallb_forall in T. specialize (T ct H). apply andb_true_iff in T as [T1 T2].
  rewrite forallb_forall in T1.
  assert (incl (G.tally_fields ct) (hashed_fields ct ++ G.key_fields ct)) as I.
  { intros f Hf. specialize (T1 f Hf). apply in_or_app. apply orb_true_iff in T1 as [X | X]; apply mem_In in X; auto. }
  split; [exact I|]. split.
  - intros X. apply negb_true_iff in T2. unfold mem in T2.
    assert (existsb (String.eqb "EventNonce") (G.submit_fields_nogate ct) = true) as Y; [|congruence].
    apply existsb_exists. exists "EventNonce"%string. split; [exact X | reflexivity].
  - (* excluded names are neither hashed nor key fields of any claim type: decided on the tables *)
    intros f Hf Ex. apply I in Hf.
    assert (forallb (fun ct => forallb (fun f => negb (mem f excluded)) (hashed_fields ct ++ G.key_fields ct)) G.claim_types = true) as D
      by (vm_compute; reflexivity).
    rewrite forallb_forall in D. specialize (D ct H). rewrite forallb_forall in D. specialize (D f Hf).
    apply negb_true_iff in D. unfold mem in D.
    assert (existsb (String.eqb f) excluded = true) as Y; [|congruence].
    apply existsb_exists. exists f. split; [exact Ex | apply String.eqb_refl].
Qed.
