(** C06 — proofs about the batch-confirmation model (Skyway/Confirms.v).  [verify] is arbitrary. *)
From Coq Require Import List ZArith Bool Lia.
From Paloma Require Import Cons.Queue Cons.QueueProofs Skyway.Confirms.
From Paloma Require Gen.C06.
Import ListNotations.
Open Scope Z_scope.

Section Proofs.
Variable Sig : Type.
Variable verify : cbytes -> Sig -> Z -> bool.

Notation confirm := (confirm Sig).
Notation cstate := (cstate Sig).
Notation cop := (cop Sig).
Notation cstep := (cstep Sig verify).
Notation crun := (crun Sig verify).

Lemma find_batch_some : forall l contract nonce b,
  find_batch l contract nonce = Some b -> In b l /\ b_nonce b = nonce /\ b_contract b = contract.
Proof.
  induction l as [|x r IH]; simpl; intros c n b H; [discriminate|].
  destruct ((b_nonce x =? n) && (b_contract x =? c)) eqn:E.
  - inversion H; subst. apply andb_true_iff in E as [E1 E2].
    apply Z.eqb_eq in E1. apply Z.eqb_eq in E2. auto.
  - destruct (IH _ _ _ H) as (a & b0 & c0). auto.
Qed.

Lemma nodup_nonce_unique : forall (l : list batch) a b,
  NoDup (map b_nonce l) -> In a l -> In b l -> b_nonce a = b_nonce b -> a = b.
Proof.
  induction l as [|x r IH]; simpl; intros a b ND Ha Hb E; [contradiction|].
  inversion ND as [|? ? Hn ND']; subst.
  destruct Ha as [Ha|Ha], Hb as [Hb|Hb]; subst; auto.
  - exfalso. apply Hn. rewrite E. now apply in_map.
  - exfalso. apply Hn. rewrite <- E. now apply in_map.
Qed.

Lemma NoDup_map_filter : forall (A B : Type) (f : A -> B) (p : A -> bool) (l : list A),
  NoDup (map f l) -> NoDup (map f (filter p l)).
Proof.
  induction l as [|x r IH]; simpl; intros ND; [constructor|].
  inversion ND; subst. destruct (p x); simpl; auto.
  constructor; auto. intros Hin. apply in_map_iff in Hin as (y & E & Hy).
  apply filter_In in Hy as [Hy _]. apply H1. rewrite <- E. now apply in_map.
Qed.

Definition cwf (s : cstate) : Prop :=
  NoDup (map b_nonce (cs_batches s)) /\ Forall (fun b => b_nonce b <= cs_last s) (cs_batches s).

Lemma crun_snoc : forall ops o, crun (ops ++ [o]) = fst (cstep (crun ops) o).
Proof. intros. unfold Confirms.crun, Confirms.crun_from. now rewrite fold_left_app. Qed.

Lemma cwf_step : forall s o, cwf s -> cwf (fst (cstep s o)).
Proof.
  intros s o W.
  destruct o as [v accts|contract chain body timeout relayer|v nonce contract signer sg|nonce contract e|nonce contract]; simpl.
  - destruct (collides _ _ _); simpl; auto.
  - destruct W as [ND B]. split; simpl.
    + rewrite map_app. simpl. apply NoDup_snoc; auto.
      intros Hin. apply in_map_iff in Hin as (b & E & Hin).
      rewrite Forall_forall in B. specialize (B _ Hin). lia.
    + apply Forall_app. split.
      * eapply Forall_impl; [|exact B]. simpl. intros; lia.
      * constructor; [simpl; lia|constructor].
  - destruct (find_batch _ _ _) as [b|]; [|exact W].
    destruct (eth_address _ _ _) as [a|]; [|exact W].
    destruct (negb (a =? signer)); [exact W|]. destruct (negb (verify _ _ _)); [exact W|].
    destruct (existsb (fun c0 : confirm => of_batch nonce contract c0 && (cf_val c0 =? v)) (cs_confirms s)); [exact W|].
    destruct (existsb (fun c0 : confirm => of_batch nonce contract c0 && (cf_signer c0 =? a)) (cs_confirms s)); exact W.
  - destruct (find_batch _ _ _) as [b|]; [|exact W].
    destruct (0 <? b_est b); [exact W|].
    destruct W as [ND B]. split; simpl.
    + rewrite map_map. erewrite map_ext; [exact ND|].
      intros x. destruct (b_nonce x =? nonce); reflexivity.
    + apply Forall_forall. intros x Hx. apply in_map_iff in Hx as (y & <- & Hy).
      rewrite Forall_forall in B. specialize (B _ Hy). destruct (b_nonce y =? nonce); exact B.
  - destruct (find_batch _ _ _); [|exact W].
    destruct W as [ND B]. split; simpl.
    + now apply NoDup_map_filter.
    + apply Forall_forall. intros x Hx. apply filter_In in Hx as [Hx _].
      rewrite Forall_forall in B. auto.
Qed.

Lemma cwf_run : forall ops, cwf (crun ops).
Proof.
  induction ops as [|o ops IH] using rev_ind.
  - split; simpl; constructor.
  - rewrite crun_snoc. now apply cwf_step.
Qed.

(** ** Every stored confirmation is valid for the batch as it stands *)

Definition csigned_in (ops : list cop) (b : batch) (c : confirm) : Prop :=
  exists pre post b0,
    ops = pre ++ BConfirm (cf_val c) (cf_nonce c) (cf_contract c) (cf_signer c) (cf_sig c) :: post /\
    eth_address (cs_reg (crun pre)) (cf_val c) (b_chain b) = Some (cf_signer c) /\
    In b0 (cs_batches (crun pre)) /\ b_nonce b0 = b_nonce b /\ checkpoint b0 = checkpoint b.

Definition confirm_ok (ops : list cop) (s : cstate) (c : confirm) : Prop :=
  exists b, In b (cs_batches s) /\ b_nonce b = cf_nonce c /\ b_contract b = cf_contract c /\
            verify (checkpoint b) (cf_sig c) (cf_signer c) = true /\ csigned_in ops b c.

Lemma confirm_ok_extend : forall ops o s s' c,
  (forall b, In b (cs_batches s) -> b_nonce b = cf_nonce c -> b_contract b = cf_contract c -> In b (cs_batches s')) ->
  confirm_ok ops s c -> confirm_ok (ops ++ [o]) s' c.
Proof.
  intros ops o s s' c Hk (b & Hb & En & Ec & V & (pre & post & b0 & -> & K & H0 & N0 & C0)).
  exists b. repeat split; auto.
  exists pre, (post ++ [o]), b0. repeat split; auto. now rewrite <- app_assoc.
Qed.

Theorem stored_confirms_valid_all : forall ops c,
  In c (cs_confirms (crun ops)) -> confirm_ok ops (crun ops) c.
Proof.
  induction ops as [|o ops IH] using rev_ind; intros c Hin.
  - destruct Hin.
  - rewrite crun_snoc in *. pose proof (cwf_run ops) as W. set (s := crun ops) in *.
    destruct o as [v accts|contract chain body timeout relayer|v nonce contract signer sg|nonce contract e|nonce contract];
      simpl in *.
    + destruct (collides _ _ _); simpl in *; (eapply confirm_ok_extend; [|apply IH; exact Hin]); auto.
    + eapply confirm_ok_extend; [|apply IH; exact Hin]. intros. apply in_or_app. now left.
    + destruct (find_batch (cs_batches s) contract nonce) as [b|] eqn:EF;
        [|eapply confirm_ok_extend; [|apply IH; exact Hin]; auto].
      destruct (eth_address (cs_reg s) v (b_chain b)) as [a|] eqn:EA;
        [|eapply confirm_ok_extend; [|apply IH; exact Hin]; auto].
      destruct (negb (a =? signer)) eqn:E1; [eapply confirm_ok_extend; [|apply IH; exact Hin]; auto|].
      destruct (negb (verify (checkpoint b) sg a)) eqn:E2; [eapply confirm_ok_extend; [|apply IH; exact Hin]; auto|].
      destruct (existsb (fun c0 : confirm => of_batch nonce contract c0 && (cf_val c0 =? v)) (cs_confirms s)) eqn:E3; [eapply confirm_ok_extend; [|apply IH; exact Hin]; auto|].
      destruct (existsb (fun c0 : confirm => of_batch nonce contract c0 && (cf_signer c0 =? a)) (cs_confirms s)) eqn:E4; [eapply confirm_ok_extend; [|apply IH; exact Hin]; auto|].
      simpl in Hin. apply in_app_or in Hin as [Hin|[<-|[]]].
      * eapply confirm_ok_extend; [|apply IH; exact Hin]; auto.
      * apply negb_false_iff in E1. apply Z.eqb_eq in E1. subst signer.
        apply negb_false_iff in E2.
        apply find_batch_some in EF as (Hb & En & Ec).
        exists b. simpl. repeat split; auto.
        exists ops, [], b. simpl. repeat split; auto.
    + destruct (find_batch (cs_batches s) contract nonce) as [b1|] eqn:EF;
        [|eapply confirm_ok_extend; [|apply IH; exact Hin]; auto].
      destruct (0 <? b_est b1); [eapply confirm_ok_extend; [|apply IH; exact Hin]; auto|].
      simpl in Hin. assert (Hc : In c (cs_confirms s) /\ of_batch nonce contract c = false).
      { apply filter_In in Hin as [Hin Hf]. split; auto. now apply negb_true_iff in Hf. }
      destruct Hc as [Hc Hf].
      eapply confirm_ok_extend; [|apply IH; exact Hc]. simpl.
      intros b Hb En Ec. apply in_map_iff. exists b. split; auto.
      destruct (b_nonce b =? nonce) eqn:E; auto. exfalso.
      apply Z.eqb_eq in E. apply find_batch_some in EF as (H1 & N1 & C1).
      assert (b = b1) as -> by (apply (nodup_nonce_unique (cs_batches s)); [apply W|auto|auto|congruence]).
      unfold of_batch in Hf. rewrite <- En, <- Ec, N1, C1, !Z.eqb_refl in Hf. discriminate.
    + destruct (find_batch (cs_batches s) contract nonce) as [b1|] eqn:EF;
        [|eapply confirm_ok_extend; [|apply IH; exact Hin]; auto].
      simpl in Hin. apply filter_In in Hin as [Hc Hf]. apply negb_true_iff in Hf.
      eapply confirm_ok_extend; [|apply IH; exact Hc]. simpl.
      intros b Hb En Ec. apply filter_In. split; auto. apply negb_true_iff.
      destruct (b_nonce b =? nonce) eqn:E; auto. exfalso.
      apply Z.eqb_eq in E. apply find_batch_some in EF as (H1 & N1 & C1).
      assert (b = b1) as -> by (apply (nodup_nonce_unique (cs_batches s)); [apply W|auto|auto|congruence]).
      unfold of_batch in Hf. rewrite <- En, <- Ec, N1, C1, !Z.eqb_refl in Hf. discriminate.
Qed.

(** ** One confirmation per validator and per key for each batch *)

Definition ckey_val (c : confirm) : Z * Z * Z := (cf_nonce c, cf_contract c, cf_val c).
Definition ckey_signer (c : confirm) : Z * Z * Z := (cf_nonce c, cf_contract c, cf_signer c).

Lemma existsb_false_not_in : forall (l : list confirm) nonce contract (proj : confirm -> Z) x,
  existsb (fun c => of_batch nonce contract c && (proj c =? x)) l = false ->
  ~ In (nonce, contract, x) (map (fun c => (cf_nonce c, cf_contract c, proj c)) l).
Proof.
  induction l as [|c r IH]; simpl; intros n ct proj x H; [tauto|].
  apply orb_false_iff in H as [H1 H2]. intros [E|Hin].
  - inversion E; subst. unfold of_batch in H1. rewrite !Z.eqb_refl in H1. discriminate.
  - eapply IH; eauto.
Qed.

Theorem one_confirm_per_validator_and_key_all : forall ops,
  NoDup (map ckey_val (cs_confirms (crun ops))) /\ NoDup (map ckey_signer (cs_confirms (crun ops))).
Proof.
  induction ops as [|o ops IH] using rev_ind.
  - split; constructor.
  - rewrite crun_snoc. set (s := crun ops) in *. destruct IH as [N1 N2].
    destruct o as [v accts|contract chain body timeout relayer|v nonce contract signer sg|nonce contract e|nonce contract];
      simpl.
    + destruct (collides _ _ _); simpl; auto.
    + auto.
    + destruct (find_batch (cs_batches s) contract nonce) as [b|]; [|auto].
      destruct (eth_address (cs_reg s) v (b_chain b)) as [a|]; [|auto].
      destruct (negb (a =? signer)); [auto|]. destruct (negb (verify _ _ _)); [auto|].
      destruct (existsb (fun c0 : confirm => of_batch nonce contract c0 && (cf_val c0 =? v)) (cs_confirms s)) eqn:E3; [auto|].
      destruct (existsb (fun c0 : confirm => of_batch nonce contract c0 && (cf_signer c0 =? a)) (cs_confirms s)) eqn:E4; [auto|].
      simpl. rewrite !map_app. simpl. split; apply NoDup_snoc; auto.
      * exact (existsb_false_not_in _ _ _ cf_val _ E3).
      * exact (existsb_false_not_in _ _ _ cf_signer _ E4).
    + destruct (find_batch (cs_batches s) contract nonce) as [b|]; [|auto].
      destruct (0 <? b_est b); [auto|]. simpl. split; now apply NoDup_map_filter.
    + destruct (find_batch (cs_batches s) contract nonce) as [b|]; [|auto].
      simpl. split; now apply NoDup_map_filter.
Qed.

(** ** Confirmations are deleted when the checkpoint changes *)

Theorem confirms_cleared_on_change_all : forall ops o b b' c,
  In b (cs_batches (crun ops)) -> In b' (cs_batches (fst (cstep (crun ops) o))) ->
  b_nonce b = b_nonce b' -> checkpoint b' <> checkpoint b ->
  In c (cs_confirms (fst (cstep (crun ops) o))) -> of_batch (b_nonce b') (b_contract b') c = false.
Proof.
  intros ops o b b' c Hb Hb' En Hne Hc.
  pose proof (cwf_run ops) as W. set (s := crun ops) in *.
  assert (Same : In b' (cs_batches s) -> False).
  { intros H. assert (b' = b) as -> by (apply (nodup_nonce_unique (cs_batches s)); [apply W|auto|auto|congruence]).
    now apply Hne. }
  destruct o as [v accts|contract chain body timeout relayer|v nonce contract signer sg|nonce contract e|nonce contract];
    simpl in *.
  - destruct (collides _ _ _); simpl in *; now destruct Same.
  - apply in_app_or in Hb' as [H|[<-|[]]]; [now destruct Same|]. simpl in *.
    destruct W as [_ B]. rewrite Forall_forall in B. specialize (B _ Hb). lia.
  - destruct (find_batch (cs_batches s) contract nonce) as [b1|]; [|now destruct Same].
    destruct (eth_address (cs_reg s) v (b_chain b1)) as [a|]; [|now destruct Same].
    destruct (negb (a =? signer)); [now destruct Same|]. destruct (negb (verify _ _ _)); [now destruct Same|].
    destruct (existsb (fun c0 : confirm => of_batch nonce contract c0 && (cf_val c0 =? v)) (cs_confirms s)); [now destruct Same|].
    destruct (existsb (fun c0 : confirm => of_batch nonce contract c0 && (cf_signer c0 =? a)) (cs_confirms s)); now destruct Same.
  - destruct (find_batch (cs_batches s) contract nonce) as [b1|] eqn:EF; [|now destruct Same].
    destruct (0 <? b_est b1); [now destruct Same|]. simpl in *.
    apply in_map_iff in Hb' as (x & Ex & Hx).
    destruct (b_nonce x =? nonce) eqn:E; [|subst x; now destruct Same].
    apply Z.eqb_eq in E. apply find_batch_some in EF as (H1 & N1 & C1).
    assert (x = b1) as -> by (apply (nodup_nonce_unique (cs_batches s)); [apply W|auto|auto|congruence]).
    subst b'. simpl. apply filter_In in Hc as [_ Hf]. apply negb_true_iff in Hf.
    now rewrite N1, C1.
  - destruct (find_batch (cs_batches s) contract nonce) as [b1|]; [|now destruct Same].
    simpl in *. apply filter_In in Hb' as [Hb' _]. now destruct Same.
Qed.

End Proofs.

(** ** Non-vacuity examples (ideal signatures) *)

Definition ex_batch (est : Z) : batch :=
  {| b_nonce := 1; b_contract := 9; b_chain := 1; b_body := 7; b_timeout := 1000; b_relayer := 55; b_est := est |}.
Definition ex_csig (key : Z) (b : batch) : icsig := Some (key, checkpoint b).

(** build; validators 1 and 2 confirm; validator 1 hands key 11 to validator 3, who may not use it on
    the same batch; the estimate 21000 is elected: confirmations gone; the old signature is refused,
    one over the new checkpoint is accepted. *)
Definition ex_cops : list (cop icsig) :=
  [ BRegister 1 [{| ac_chain := 1; ac_addr := 11; ac_key := 101; ac_eth := 11 |}];
    BRegister 2 [{| ac_chain := 1; ac_addr := 12; ac_key := 102; ac_eth := 12 |}];
    BBuild 9 1 7 1000 55;
    BConfirm 1 1 9 11 (ex_csig 11 (ex_batch 0));
    BConfirm 2 1 9 12 (ex_csig 12 (ex_batch 0));
    BRegister 1 [{| ac_chain := 1; ac_addr := 13; ac_key := 103; ac_eth := 13 |}];
    BRegister 3 [{| ac_chain := 1; ac_addr := 11; ac_key := 101; ac_eth := 11 |}];
    BConfirm 3 1 9 11 (ex_csig 11 (ex_batch 0));
    BUpdateEstimate 1 9 21000;
    BConfirm 2 1 9 12 (ex_csig 12 (ex_batch 0));
    BConfirm 2 1 9 12 (ex_csig 12 (ex_batch 21000)) ].

Example ex_confirms :
  List.length (cs_confirms (crun icsig icverify (firstn 5 ex_cops))) = 2%nat /\
  snd (cstep icsig icverify (crun icsig icverify (firstn 7 ex_cops)) (nth 7 ex_cops (BRemove 0 0))) = CDupKey /\
  cs_confirms (crun icsig icverify (firstn 9 ex_cops)) = [] /\
  checkpoint (ex_batch 21000) <> checkpoint (ex_batch 0) /\
  snd (cstep icsig icverify (crun icsig icverify (firstn 9 ex_cops)) (nth 9 ex_cops (BRemove 0 0))) = CBadSig /\
  exists c, cs_confirms (crun icsig icverify ex_cops) = [c] /\ cf_val c = 2 /\ cf_signer c = 12 /\
            icverify (checkpoint (ex_batch 21000)) (cf_sig c) (cf_signer c) = true.
Proof.
  vm_compute. repeat split; try reflexivity; try discriminate.
  eexists. repeat split; reflexivity.
Qed.
