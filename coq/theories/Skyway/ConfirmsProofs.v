(** C06 — proofs about the batch-confirmation model (Skyway/Confirms.v).  [verify] is arbitrary. *)
From Coq Require Import List ZArith Bool Lia.
From Paloma Require Import Cons.Queue Cons.QueueProofs Skyway.Confirms.
From Paloma Require Gen.C06.
Import ListNotations.
Open Scope Z_scope.

Section Proofs.
Variable Sig : Type.
Variable verify : cbytes -> Sig -> Z -> bool.

Notation confirm := (confirm Sig).
Notation cstate := (cstate Sig).
Notation cop := (cop Sig).
Notation cstep := (cstep Sig verify).
Notation crun := (crun Sig verify).

Lemma find_batch_some : forall l contract nonce b,
  find_batch l contract nonce = Some b -> In b l /\ b_nonce b = nonce /\ b_contract b = contract.
Proof.
  induction l as [|x r IH]; simpl; intros c n b H; [discriminate|].
  destruct ((b_nonce x =? n) && (b_contract x =? c)) eqn:E.
  - inversion H; subst. apply andb_true_iff in E as [E1 E2].
    apply Z.eqb_eq in E1. apply Z.eqb_eq in E2. auto.
  - destruct (IH _ _ _ H) as (a & b0 & c0). auto.
Qed.

Lemma nodup_nonce_unique : forall (l : list batch) a b,
  NoDup (map b_nonce l) -> In a l -> In b l -> b_nonce a = b_nonce b -> a = b.
Proof.
  induction l as [|x r IH]; simpl; intros a b ND Ha Hb E; [contradiction|].
  inversion ND as [|? ? Hn ND']; subst.
  destruct Ha as [Ha|Ha], Hb as [Hb|Hb]; subst; auto.
  - exfalso. apply Hn. rewrite E. now apply in_map.
  - exfalso. apply Hn. rewrite <- E. now apply in_map.
Qed.

Lemma NoDup_map_filter : forall (A B : Type) (f : A -> B) (p : A -> bool) (l : list A),
  NoDup (map f l) -> NoDup (map f (filter p l)).
Proof.
  induction l as [|x r IH]; simpl; intros ND; [constructor|].
  inversion ND; subst. destruct (p x); simpl; auto.
  constructor; auto. intros Hin. apply in_map_iff in Hin as (y & E & Hy).
  apply filter_In in Hy as [Hy _]. apply H1. rewrite <- E. now apply in_map.
Qed.

(** The translated flags, used through these equations only: if the source changes so that a flag flips, they fail. *)
Lemma delete_confirms_eq : forall nonce contract (l : list confirm),
  delete_confirms nonce contract l = filter (fun c => negb (of_batch nonce contract c)) l.
Proof. reflexivity. Qed.

Lemma key_confirmed_eq : forall nonce contract a (l : list confirm),
  key_confirmed nonce contract a l = existsb (fun c => of_batch nonce contract c && (cf_signer c =? a)) l.
Proof. reflexivity. Qed.

Lemma update_deletes : Gen.C06.update_estimate_deletes_confirms = true.
Proof. reflexivity. Qed.

Lemma remove_deletes : Gen.C06.cancel_deletes_confirms && Gen.C06.executed_deletes_confirms = true.
Proof. reflexivity. Qed.

Lemma may_confirm_eq : forall st, may_confirm st = (st =? st_unbonding) || (st =? st_bonded).
Proof. reflexivity. Qed.

Opaque delete_confirms key_confirmed may_confirm.

Definition cwf (s : cstate) : Prop :=
  NoDup (map b_nonce (cs_batches s)) /\ Forall (fun b => b_nonce b <= cs_last s) (cs_batches s).

Lemma crun_snoc : forall ops o, crun (ops ++ [o]) = fst (cstep (crun ops) o).
Proof. intros. unfold Confirms.crun, Confirms.crun_from. now rewrite fold_left_app. Qed.

Lemma cwf_step : forall s o, cwf s -> cwf (fst (cstep s o)).
Proof.
  intros s o W.
  destruct o as [v accts|v st|contract chain body timeout relayer|v nonce contract signer sg|nonce contract e|nonce contract|nonce contract body']; simpl.
  - destruct (negb _); [exact W|]. destruct (collides _ _ _); simpl; auto.
  - exact W.
  - destruct W as [ND B]. split; simpl.
    + rewrite map_app. simpl. apply NoDup_snoc; auto.
      intros Hin. apply in_map_iff in Hin as (b & E & Hin).
      rewrite Forall_forall in B. specialize (B _ Hin). lia.
    + apply Forall_app. split.
      * eapply Forall_impl; [|exact B]. simpl. intros; lia.
      * constructor; [simpl; lia|constructor].
  - destruct (find_batch _ _ _) as [b|]; [|exact W].
    destruct (status_of _ _ =? st_none); [exact W|]. destruct (negb (may_confirm _)); [exact W|].
    destruct (eth_address _ _ _) as [a|]; [|exact W].
    destruct (negb (a =? signer)); [exact W|]. destruct (negb (verify _ _ _)); [exact W|].
    destruct (existsb (fun c0 : confirm => of_batch nonce contract c0 && (cf_val c0 =? v)) (cs_confirms s)); [exact W|].
    destruct (key_confirmed nonce contract a (cs_confirms s)); exact W.
  - destruct (find_batch _ _ _) as [b|]; [|exact W].
    destruct (0 <? b_est b); [exact W|].
    destruct W as [ND B]. split; simpl.
    + rewrite map_map. erewrite map_ext; [exact ND|].
      intros x. destruct (b_nonce x =? nonce); reflexivity.
    + apply Forall_forall. intros x Hx. apply in_map_iff in Hx as (y & <- & Hy).
      rewrite Forall_forall in B. specialize (B _ Hy). destruct (b_nonce y =? nonce); exact B.
  - destruct (find_batch _ _ _); [|exact W].
    destruct W as [ND B]. split; simpl.
    + now apply NoDup_map_filter.
    + apply Forall_forall. intros x Hx. apply filter_In in Hx as [Hx _].
      rewrite Forall_forall in B. auto.
  - destruct (find_batch _ _ _) as [b|]; [|exact W].
    destruct W as [ND B]. split; simpl.
    + rewrite map_map. erewrite map_ext; [exact ND|].
      intros x. destruct (b_nonce x =? nonce); reflexivity.
    + apply Forall_forall. intros x Hx. apply in_map_iff in Hx as (y & <- & Hy).
      rewrite Forall_forall in B. specialize (B _ Hy). destruct (b_nonce y =? nonce); exact B.
Qed.

Lemma cwf_run : forall ops, cwf (crun ops).
Proof.
  induction ops as [|o ops IH] using rev_ind.
  - split; simpl; constructor.
  - rewrite crun_snoc. now apply cwf_step.
Qed.

(** ** Every stored confirmation is valid for the batch as it stands *)

Definition csigned_in (ops : list cop) (b : batch) (c : confirm) : Prop :=
  exists pre post b0,
    ops = pre ++ BConfirm (cf_val c) (cf_nonce c) (cf_contract c) (cf_signer c) (cf_sig c) :: post /\
    eth_address (cs_reg (crun pre)) (cf_val c) (b_chain b) = Some (cf_signer c) /\
    In b0 (cs_batches (crun pre)) /\ b_nonce b0 = b_nonce b /\ checkpoint b0 = checkpoint b.

Definition confirm_ok (ops : list cop) (s : cstate) (c : confirm) : Prop :=
  exists b, In b (cs_batches s) /\ b_nonce b = cf_nonce c /\ b_contract b = cf_contract c /\
            verify (checkpoint b) (cf_sig c) (cf_signer c) = true /\ csigned_in ops b c.

Lemma confirm_ok_extend : forall ops o s s' c,
  (forall b, In b (cs_batches s) -> b_nonce b = cf_nonce c -> b_contract b = cf_contract c -> In b (cs_batches s')) ->
  confirm_ok ops s c -> confirm_ok (ops ++ [o]) s' c.
Proof.
  intros ops o s s' c Hk (b & Hb & En & Ec & V & (pre & post & b0 & -> & K & H0 & N0 & C0)).
  exists b. repeat split; auto.
  exists pre, (post ++ [o]), b0. repeat split; auto. now rewrite <- app_assoc.
Qed.

Theorem stored_confirms_valid_all : forall ops c,
  In c (cs_confirms (crun ops)) -> confirm_ok ops (crun ops) c.
Proof.
  induction ops as [|o ops IH] using rev_ind; intros c Hin.
  - destruct Hin.
  - rewrite crun_snoc in *. pose proof (cwf_run ops) as W. set (s := crun ops) in *.
    destruct o as [v accts|v st|contract chain body timeout relayer|v nonce contract signer sg|nonce contract e|nonce contract|nonce contract body'];
      simpl in *.
    + destruct (negb _); [eapply confirm_ok_extend; [|apply IH; exact Hin]; auto|].
      destruct (collides _ _ _); simpl in *; (eapply confirm_ok_extend; [|apply IH; exact Hin]); auto.
    + eapply confirm_ok_extend; [|apply IH; exact Hin]; auto.
    + eapply confirm_ok_extend; [|apply IH; exact Hin]. intros. apply in_or_app. now left.
    + destruct (find_batch (cs_batches s) contract nonce) as [b|] eqn:EF;
        [|eapply confirm_ok_extend; [|apply IH; exact Hin]; auto].
      destruct (status_of (cs_status s) v =? st_none) eqn:ES0; [eapply confirm_ok_extend; [|apply IH; exact Hin]; auto|].
      destruct (negb (may_confirm (status_of (cs_status s) v))) eqn:ES1; [eapply confirm_ok_extend; [|apply IH; exact Hin]; auto|].
      destruct (eth_address (cs_reg s) v (b_chain b)) as [a|] eqn:EA;
        [|eapply confirm_ok_extend; [|apply IH; exact Hin]; auto].
      destruct (negb (a =? signer)) eqn:E1; [eapply confirm_ok_extend; [|apply IH; exact Hin]; auto|].
      destruct (negb (verify (checkpoint b) sg a)) eqn:E2; [eapply confirm_ok_extend; [|apply IH; exact Hin]; auto|].
      destruct (existsb (fun c0 : confirm => of_batch nonce contract c0 && (cf_val c0 =? v)) (cs_confirms s)) eqn:E3; [eapply confirm_ok_extend; [|apply IH; exact Hin]; auto|].
      destruct (key_confirmed nonce contract a (cs_confirms s)) eqn:E4; [eapply confirm_ok_extend; [|apply IH; exact Hin]; auto|].
      simpl in Hin. apply in_app_or in Hin as [Hin|[<-|[]]].
      * eapply confirm_ok_extend; [|apply IH; exact Hin]; auto.
      * apply negb_false_iff in E1. apply Z.eqb_eq in E1. subst signer.
        apply negb_false_iff in E2.
        apply find_batch_some in EF as (Hb & En & Ec).
        exists b. simpl. repeat split; auto.
        exists ops, [], b. simpl. repeat split; auto.
    + destruct (find_batch (cs_batches s) contract nonce) as [b1|] eqn:EF;
        [|eapply confirm_ok_extend; [|apply IH; exact Hin]; auto].
      destruct (0 <? b_est b1); [eapply confirm_ok_extend; [|apply IH; exact Hin]; auto|].
      simpl in Hin. rewrite ?update_deletes, delete_confirms_eq in Hin.
      assert (Hc : In c (cs_confirms s) /\ of_batch nonce contract c = false).
      { apply filter_In in Hin as [Hin Hf]. split; auto. now apply negb_true_iff in Hf. }
      destruct Hc as [Hc Hf].
      eapply confirm_ok_extend; [|apply IH; exact Hc]. simpl.
      intros b Hb En Ec. apply in_map_iff. exists b. split; auto.
      destruct (b_nonce b =? nonce) eqn:E; auto. exfalso.
      apply Z.eqb_eq in E. apply find_batch_some in EF as (H1 & N1 & C1).
      assert (b = b1) as -> by (apply (nodup_nonce_unique (cs_batches s)); [apply W|auto|auto|congruence]).
      unfold of_batch in Hf. rewrite <- En, <- Ec, N1, C1, !Z.eqb_refl in Hf. discriminate.
    + destruct (find_batch (cs_batches s) contract nonce) as [b1|] eqn:EF;
        [|eapply confirm_ok_extend; [|apply IH; exact Hin]; auto].
      simpl in Hin. rewrite ?remove_deletes, delete_confirms_eq in Hin.
      apply filter_In in Hin as [Hc Hf]. apply negb_true_iff in Hf.
      eapply confirm_ok_extend; [|apply IH; exact Hc]. simpl.
      intros b Hb En Ec. apply filter_In. split; auto. apply negb_true_iff.
      destruct (b_nonce b =? nonce) eqn:E; auto. exfalso.
      apply Z.eqb_eq in E. apply find_batch_some in EF as (H1 & N1 & C1).
      assert (b = b1) as -> by (apply (nodup_nonce_unique (cs_batches s)); [apply W|auto|auto|congruence]).
      unfold of_batch in Hf. rewrite <- En, <- Ec, N1, C1, !Z.eqb_refl in Hf. discriminate.
    + destruct (find_batch (cs_batches s) contract nonce) as [b1|] eqn:EF;
        [|eapply confirm_ok_extend; [|apply IH; exact Hin]; auto].
      simpl in Hin. rewrite delete_confirms_eq in Hin.
      apply filter_In in Hin as [Hc Hf]. apply negb_true_iff in Hf.
      eapply confirm_ok_extend; [|apply IH; exact Hc]. simpl.
      intros b Hb En Ec. apply in_map_iff. exists b. split; auto.
      destruct (b_nonce b =? nonce) eqn:E; auto. exfalso.
      apply Z.eqb_eq in E. apply find_batch_some in EF as (H1 & N1 & C1).
      assert (b = b1) as -> by (apply (nodup_nonce_unique (cs_batches s)); [apply W|auto|auto|congruence]).
      unfold of_batch in Hf. rewrite <- En, <- Ec, N1, C1, !Z.eqb_refl in Hf. discriminate.
Qed.

(** ** One confirmation per validator and per key for each batch *)

Definition ckey_val (c : confirm) : Z * Z * Z := (cf_nonce c, cf_contract c, cf_val c).
Definition ckey_signer (c : confirm) : Z * Z * Z := (cf_nonce c, cf_contract c, cf_signer c).

Lemma existsb_false_not_in : forall (l : list confirm) nonce contract (proj : confirm -> Z) x,
  existsb (fun c => of_batch nonce contract c && (proj c =? x)) l = false ->
  ~ In (nonce, contract, x) (map (fun c => (cf_nonce c, cf_contract c, proj c)) l).
Proof.
  induction l as [|c r IH]; simpl; intros n ct proj x H; [tauto|].
  apply orb_false_iff in H as [H1 H2]. intros [E|Hin].
  - inversion E; subst. unfold of_batch in H1. rewrite !Z.eqb_refl in H1. discriminate.
  - eapply IH; eauto.
Qed.

Theorem one_confirm_per_validator_and_key_all : forall ops,
  NoDup (map ckey_val (cs_confirms (crun ops))) /\ NoDup (map ckey_signer (cs_confirms (crun ops))).
Proof.
  induction ops as [|o ops IH] using rev_ind.
  - split; constructor.
  - rewrite crun_snoc. set (s := crun ops) in *. destruct IH as [N1 N2].
    destruct o as [v accts|v st|contract chain body timeout relayer|v nonce contract signer sg|nonce contract e|nonce contract|nonce contract body'];
      simpl.
    + destruct (negb _); [auto|]. destruct (collides _ _ _); simpl; auto.
    + auto.
    + auto.
    + destruct (find_batch (cs_batches s) contract nonce) as [b|]; [|auto].
      destruct (status_of (cs_status s) v =? st_none); [auto|]. destruct (negb (may_confirm _)); [auto|].
      destruct (eth_address (cs_reg s) v (b_chain b)) as [a|]; [|auto].
      destruct (negb (a =? signer)); [auto|]. destruct (negb (verify _ _ _)); [auto|].
      destruct (existsb (fun c0 : confirm => of_batch nonce contract c0 && (cf_val c0 =? v)) (cs_confirms s)) eqn:E3; [auto|].
      destruct (key_confirmed nonce contract a (cs_confirms s)) eqn:E4; [auto|]. rewrite key_confirmed_eq in E4.
      simpl. rewrite !map_app. simpl. split; apply NoDup_snoc; auto.
      * exact (existsb_false_not_in _ _ _ cf_val _ E3).
      * exact (existsb_false_not_in _ _ _ cf_signer _ E4).
    + destruct (find_batch (cs_batches s) contract nonce) as [b|]; [|auto].
      destruct (0 <? b_est b); [auto|]. simpl. rewrite ?update_deletes, delete_confirms_eq. split; now apply NoDup_map_filter.
    + destruct (find_batch (cs_batches s) contract nonce) as [b|]; [|auto].
      simpl. rewrite ?remove_deletes, delete_confirms_eq. split; now apply NoDup_map_filter.
    + destruct (find_batch (cs_batches s) contract nonce) as [b|]; [|auto].
      simpl. rewrite delete_confirms_eq. split; now apply NoDup_map_filter.
Qed.

(** ** Confirmations are deleted when the checkpoint changes *)

Theorem confirms_cleared_on_change_all : forall ops o b b' c,
  In b (cs_batches (crun ops)) -> In b' (cs_batches (fst (cstep (crun ops) o))) ->
  b_nonce b = b_nonce b' -> checkpoint b' <> checkpoint b ->
  In c (cs_confirms (fst (cstep (crun ops) o))) -> of_batch (b_nonce b') (b_contract b') c = false.
Proof.
  intros ops o b b' c Hb Hb' En Hne Hc.
  pose proof (cwf_run ops) as W. set (s := crun ops) in *.
  assert (Same : In b' (cs_batches s) -> False).
  { intros H. assert (b' = b) as -> by (apply (nodup_nonce_unique (cs_batches s)); [apply W|auto|auto|congruence]).
    now apply Hne. }
  destruct o as [v accts|v st|contract chain body timeout relayer|v nonce contract signer sg|nonce contract e|nonce contract|nonce contract body'];
    simpl in *.
  - destruct (negb _); [now destruct Same|]. destruct (collides _ _ _); simpl in *; now destruct Same.
  - now destruct Same.
  - apply in_app_or in Hb' as [H|[<-|[]]]; [now destruct Same|]. simpl in *.
    destruct W as [_ B]. rewrite Forall_forall in B. specialize (B _ Hb). lia.
  - destruct (find_batch (cs_batches s) contract nonce) as [b1|]; [|now destruct Same].
    destruct (status_of (cs_status s) v =? st_none); [now destruct Same|]. destruct (negb (may_confirm _)); [now destruct Same|].
    destruct (eth_address (cs_reg s) v (b_chain b1)) as [a|]; [|now destruct Same].
    destruct (negb (a =? signer)); [now destruct Same|]. destruct (negb (verify _ _ _)); [now destruct Same|].
    destruct (existsb (fun c0 : confirm => of_batch nonce contract c0 && (cf_val c0 =? v)) (cs_confirms s)); [now destruct Same|].
    destruct (key_confirmed nonce contract a (cs_confirms s)); now destruct Same.
  - destruct (find_batch (cs_batches s) contract nonce) as [b1|] eqn:EF; [|now destruct Same].
    destruct (0 <? b_est b1); [now destruct Same|]. simpl in *.
    apply in_map_iff in Hb' as (x & Ex & Hx).
    destruct (b_nonce x =? nonce) eqn:E; [|subst x; now destruct Same].
    apply Z.eqb_eq in E. apply find_batch_some in EF as (H1 & N1 & C1).
    assert (x = b1) as -> by (apply (nodup_nonce_unique (cs_batches s)); [apply W|auto|auto|congruence]).
    subst b'. simpl. rewrite ?update_deletes, delete_confirms_eq in Hc. apply filter_In in Hc as [_ Hf]. apply negb_true_iff in Hf.
    now rewrite N1, C1.
  - destruct (find_batch (cs_batches s) contract nonce) as [b1|]; [|now destruct Same].
    simpl in *. apply filter_In in Hb' as [Hb' _]. now destruct Same.
  - destruct (find_batch (cs_batches s) contract nonce) as [b1|] eqn:EF; [|now destruct Same].
    simpl in *.
    apply in_map_iff in Hb' as (x & Ex & Hx).
    destruct (b_nonce x =? nonce) eqn:E; [|subst x; now destruct Same].
    apply Z.eqb_eq in E. apply find_batch_some in EF as (H1 & N1 & C1).
    assert (x = b1) as -> by (apply (nodup_nonce_unique (cs_batches s)); [apply W|auto|auto|congruence]).
    subst b'. simpl. rewrite delete_confirms_eq in Hc. apply filter_In in Hc as [_ Hf]. apply negb_true_iff in Hf.
    now rewrite N1, C1.
Qed.

(** ** Clearing is total: after an accepted UpdateBatchGasEstimate / cancel / executed NO confirmation of that batch is
    left, however many there were (the statement is over the whole confirmation store, no bound on its size). *)

Theorem no_confirm_survives_clearing_all : forall ops o nonce contract,
  (exists e, o = BUpdateEstimate nonce contract e) \/ o = BRemove nonce contract \/ (exists b', o = BRebody nonce contract b') ->
  snd (cstep (crun ops) o) = COk ->
  forall c, In c (cs_confirms (fst (cstep (crun ops) o))) -> of_batch nonce contract c = false.
Proof.
  intros ops o nonce contract Ho Hok c Hc. set (s := crun ops) in *.
  destruct Ho as [[e ->]|[->|[b' ->]]]; simpl in *.
  - destruct (find_batch (cs_batches s) contract nonce) as [b|]; [|discriminate].
    destruct (0 <? b_est b); [discriminate|]. simpl in Hc.
    rewrite ?update_deletes, delete_confirms_eq in Hc.
    apply filter_In in Hc as [_ Hf]. now apply negb_true_iff in Hf.
  - destruct (find_batch (cs_batches s) contract nonce) as [b|]; [|discriminate]. simpl in Hc.
    rewrite ?remove_deletes, delete_confirms_eq in Hc.
    apply filter_In in Hc as [_ Hf]. now apply negb_true_iff in Hf.
  - destruct (find_batch (cs_batches s) contract nonce) as [b|]; [|discriminate]. simpl in Hc.
    rewrite delete_confirms_eq in Hc.
    apply filter_In in Hc as [_ Hf]. now apply negb_true_iff in Hf.
Qed.

(** ** Only bonded or unbonding validators confirm *)

Definition cbonded_in (ops : list cop) (c : confirm) : Prop :=
  exists pre post,
    ops = pre ++ BConfirm (cf_val c) (cf_nonce c) (cf_contract c) (cf_signer c) (cf_sig c) :: post /\
    (status_of (cs_status (crun pre)) (cf_val c) = st_unbonding \/ status_of (cs_status (crun pre)) (cf_val c) = st_bonded).

Lemma cbonded_extend : forall ops o c, cbonded_in ops c -> cbonded_in (ops ++ [o]) c.
Proof.
  intros ops o c (pre & post & -> & H). exists pre, (post ++ [o]). split; auto. now rewrite <- app_assoc.
Qed.

Theorem confirms_only_from_bonded_or_unbonding_all : forall ops c,
  In c (cs_confirms (crun ops)) -> cbonded_in ops c.
Proof.
  induction ops as [|o ops IH] using rev_ind; intros c Hin.
  - destruct Hin.
  - rewrite crun_snoc in *. set (s := crun ops) in *.
    destruct o as [v accts|v st|contract chain body timeout relayer|v nonce contract signer sg|nonce contract e|nonce contract|nonce contract body'];
      simpl in *.
    + destruct (negb _); [apply cbonded_extend, IH; exact Hin|].
      destruct (collides _ _ _); simpl in *; apply cbonded_extend, IH; exact Hin.
    + apply cbonded_extend, IH; exact Hin.
    + apply cbonded_extend, IH; exact Hin.
    + destruct (find_batch (cs_batches s) contract nonce) as [b|]; [|apply cbonded_extend, IH; exact Hin].
      destruct (status_of (cs_status s) v =? st_none) eqn:ES0; [apply cbonded_extend, IH; exact Hin|].
      destruct (negb (may_confirm (status_of (cs_status s) v))) eqn:ES1; [apply cbonded_extend, IH; exact Hin|].
      destruct (eth_address (cs_reg s) v (b_chain b)) as [a|]; [|apply cbonded_extend, IH; exact Hin].
      destruct (negb (a =? signer)) eqn:E1; [apply cbonded_extend, IH; exact Hin|].
      destruct (negb (verify (checkpoint b) sg a)); [apply cbonded_extend, IH; exact Hin|].
      destruct (existsb (fun c0 : confirm => of_batch nonce contract c0 && (cf_val c0 =? v)) (cs_confirms s)); [apply cbonded_extend, IH; exact Hin|].
      destruct (key_confirmed nonce contract a (cs_confirms s)); [apply cbonded_extend, IH; exact Hin|].
      simpl in Hin. apply in_app_or in Hin as [Hin|[<-|[]]]; [apply cbonded_extend, IH; exact Hin|].
      apply negb_false_iff in E1. apply Z.eqb_eq in E1. subst signer.
      exists ops, []. simpl. split; auto.
      apply negb_false_iff in ES1. rewrite may_confirm_eq in ES1.
      apply orb_true_iff in ES1 as [H|H]; apply Z.eqb_eq in H; auto.
    + destruct (find_batch (cs_batches s) contract nonce) as [b1|]; [|apply cbonded_extend, IH; exact Hin].
      destruct (0 <? b_est b1); [apply cbonded_extend, IH; exact Hin|].
      simpl in Hin. rewrite ?update_deletes, delete_confirms_eq in Hin.
      apply filter_In in Hin as [Hin _]. apply cbonded_extend, IH; exact Hin.
    + destruct (find_batch (cs_batches s) contract nonce) as [b1|]; [|apply cbonded_extend, IH; exact Hin].
      simpl in Hin. rewrite ?remove_deletes, delete_confirms_eq in Hin.
      apply filter_In in Hin as [Hin _]. apply cbonded_extend, IH; exact Hin.
    + destruct (find_batch (cs_batches s) contract nonce) as [b1|]; [|apply cbonded_extend, IH; exact Hin].
      simpl in Hin. rewrite delete_confirms_eq in Hin.
      apply filter_In in Hin as [Hin _]. apply cbonded_extend, IH; exact Hin.
Qed.

(** A confirmation sent for an orchestrator that is no validator, or whose validator is unbonded, changes nothing. *)
Theorem unbonded_cannot_confirm_all : forall (s : cstate) v nonce contract signer sg,
  status_of (cs_status s) v = st_none \/ status_of (cs_status s) v = st_unbonded ->
  fst (cstep s (BConfirm v nonce contract signer sg)) = s /\ snd (cstep s (BConfirm v nonce contract signer sg)) <> COk.
Proof.
  intros s v nonce contract signer sg H. simpl.
  destruct (find_batch (cs_batches s) contract nonce) as [b|]; [|split; [reflexivity|discriminate]].
  destruct H as [H|H]; rewrite H; simpl.
  - split; [reflexivity|discriminate].
  - rewrite may_confirm_eq. simpl. split; [reflexivity|discriminate].
Qed.

End Proofs.

(** ** Non-vacuity examples (ideal signatures) *)

Definition ex_batch (est : Z) : batch :=
  {| b_nonce := 1; b_contract := 9; b_chain := 1; b_body := 7; b_timeout := 1000; b_relayer := 55; b_est := est |}.
Definition ex_csig (key : Z) (b : batch) : icsig := Some (key, checkpoint b).

(** build; validators 1 and 2 confirm; validator 1 hands key 11 to validator 3, who may not use it on
    the same batch; the estimate 21000 is elected: confirmations gone; the old signature is refused,
    one over the new checkpoint is accepted. *)
Definition ex_cops : list (cop icsig) :=
  [ BSetStatus 1 st_bonded; BSetStatus 2 st_bonded; BSetStatus 3 st_bonded;
    BRegister 1 [{| ac_chain := 1; ac_addr := 11; ac_key := 101; ac_eth := 11 |}];
    BRegister 2 [{| ac_chain := 1; ac_addr := 12; ac_key := 102; ac_eth := 12 |}];
    BBuild 9 1 7 1000 55;
    BConfirm 1 1 9 11 (ex_csig 11 (ex_batch 0));
    BConfirm 2 1 9 12 (ex_csig 12 (ex_batch 0));
    BRegister 1 [{| ac_chain := 1; ac_addr := 13; ac_key := 103; ac_eth := 13 |}];
    BRegister 3 [{| ac_chain := 1; ac_addr := 11; ac_key := 101; ac_eth := 11 |}];
    BConfirm 3 1 9 11 (ex_csig 11 (ex_batch 0));
    BUpdateEstimate 1 9 21000;
    BConfirm 2 1 9 12 (ex_csig 12 (ex_batch 0));
    BConfirm 2 1 9 12 (ex_csig 12 (ex_batch 21000)) ].

Example ex_confirms :
  List.length (cs_confirms (crun icsig icverify (firstn 8 ex_cops))) = 2%nat /\
  snd (cstep icsig icverify (crun icsig icverify (firstn 10 ex_cops)) (nth 10 ex_cops (BRemove 0 0))) = CDupKey /\
  cs_confirms (crun icsig icverify (firstn 12 ex_cops)) = [] /\
  checkpoint (ex_batch 21000) <> checkpoint (ex_batch 0) /\
  snd (cstep icsig icverify (crun icsig icverify (firstn 12 ex_cops)) (nth 12 ex_cops (BRemove 0 0))) = CBadSig /\
  exists c, cs_confirms (crun icsig icverify ex_cops) = [c] /\ cf_val c = 2 /\ cf_signer c = 12 /\
            icverify (checkpoint (ex_batch 21000)) (cf_sig c) (cf_signer c) = true.
Proof.
  vm_compute. repeat split; try reflexivity; try discriminate.
  eexists. repeat split; reflexivity.
Qed.

(** Non-vacuity of the clearing theorem on a store that is not small: 150 validators confirm batch 1, the estimate
    is elected, nothing of it is left; an unbonded validator (200) and a non-validator (201) are refused. *)
Definition ex_many (n : nat) : list (cop icsig) :=
  flat_map (fun i => let v := Z.of_nat i + 1 in
     [BSetStatus v st_bonded; BRegister v [{| ac_chain := 1; ac_addr := 1000 + v; ac_key := 2000 + v; ac_eth := 1000 + v |}]]) (seq 0 n)
  ++ [BBuild 9 1 7 1000 55]
  ++ map (fun i => let v := Z.of_nat i + 1 in BConfirm v 1 9 (1000 + v) (ex_csig (1000 + v) (ex_batch 0))) (seq 0 n).

Example ex_many_confirms_cleared :
  List.length (cs_confirms (crun icsig icverify (ex_many 150))) = 150%nat /\
  cs_confirms (crun icsig icverify (ex_many 150 ++ [BUpdateEstimate 1 9 21000])) = [] /\
  snd (cstep icsig icverify (crun icsig icverify (ex_many 3 ++ [BSetStatus 2 st_unbonded]))
        (BConfirm 2 1 9 1002 (ex_csig 1002 (ex_batch 0)))) = CUnbonded /\
  snd (cstep icsig icverify (crun icsig icverify (ex_many 3 ++ [BSetStatus 200 st_unbonded;
          BRegister 200 [{| ac_chain := 1; ac_addr := 1200; ac_key := 2200; ac_eth := 1200 |}]]))
        (BConfirm 200 1 9 1200 (ex_csig 1200 (ex_batch 0)))) = CUnbonded /\
  snd (cstep icsig icverify (crun icsig icverify (ex_many 3)) (BConfirm 201 1 9 1201 (ex_csig 1201 (ex_batch 0)))) = CNotValidator /\
  snd (cstep icsig icverify (crun icsig icverify (ex_many 3 ++ [BUpdateEstimate 1 9 21000; BSetStatus 2 st_unbonding]))
        (BConfirm 2 1 9 1002 (ex_csig 1002 (ex_batch 21000)))) = COk /\
  snd (cstep icsig icverify (crun icsig icverify (ex_many 3 ++ [BSetStatus 2 st_unbonding]))
        (BRegister 2 [{| ac_chain := 1; ac_addr := 1300; ac_key := 2300; ac_eth := 1300 |}])) = CNotBonded.
Proof. vm_compute. repeat split; reflexivity. Qed.
