(** C11 — model of the skyway claim hash path, the attestation store key and vote pooling in
    [Keeper.Attest].  Definitions only; proofs are in ClaimsProofs.v.

    What is rendered and hashed is driven by the tables regenerated from the Go source on every check
    ([Paloma.Gen.C11]): per claim type the struct fields, the items of the [fmt.Sprintf] call in
    [ClaimHash] (verb + argument shape), the fields the keeper reads from a claim, and the fields
    that [Attest] feeds into the store key.

    Text is [list byte].  Rendering follows Go exactly:
      %d of a uint64           -> decimal digits, no sign, no leading zeros ("0" for zero)
      %s of math.Int.String()  -> "<nil>" for the zero-value Int (nil big.Int), otherwise optional '-' and decimal digits
      %s of a string           -> the bytes verbatim
      escapeClaimPathField     -> strings.NewReplacer("%", "%25", "/", "%2F"): byte-wise, single pass *)
From Coq Require Import List NArith ZArith Bool String.
From Coq Require Import Strings.Byte.
From Paloma Require Import Base.Sha256.
From Paloma Require Gen.C11.
Import ListNotations.
Open Scope N_scope.

Module G := Paloma.Gen.C11.

Definition text := list byte.
Definition bytes_of (s : string) : text := list_byte_of_string s.

(** A claim body: its Go type name and its fields by name, one projection per field kind. *)
Record claim := {
  c_type : string;
  c_num : string -> N;            (* uint64 fields *)
  c_str : string -> text;         (* string fields *)
  c_amt : string -> option Z      (* math.Int fields; None = zero-value Int (nil) *)
}.

(** ** Rendering *)
Definition slash : byte := x2f.
Definition percent : byte := x25.

Definition digits : list byte := [x30; x31; x32; x33; x34; x35; x36; x37; x38; x39].
Definition digit (d : N) : byte := nth (N.to_nat d) digits x30.

(** [dec_aux fuel n acc] prepends the decimal digits of [n] to [acc]; fuel = binary size of [n] suffices. *)
Fixpoint dec_aux (fuel : nat) (n : N) (acc : text) : text :=
  match fuel with
  | O => acc
  | S f => let acc' := digit (n mod 10) :: acc in
           if n <? 10 then acc' else dec_aux f (n / 10) acc'
  end.
Definition dec (n : N) : text := dec_aux (S (N.to_nat (N.log2 n))) n [].

Definition nil_text : text := [x3c; x6e; x69; x6c; x3e].   (* "<nil>" *)
Definition minus : byte := x2d.

Definition render_amt (a : option Z) : text :=
  match a with
  | None => nil_text
  | Some z => if (z <? 0)%Z then minus :: dec (Z.abs_N z) else dec (Z.to_N z)
  end.

Definition esc1 (b : byte) : text :=
  if Byte.eqb b percent then [x25; x32; x35]           (* "%25" *)
  else if Byte.eqb b slash then [x25; x32; x46]        (* "%2F" *)
  else [b].
Definition esc (s : text) : text := flat_map esc1 s.

(** The escape table the model implements; compared with the table extracted from
    [claimPathEscaper].  If the source table is anything else the model renders the field raw, and the
    injectivity obligations no longer go through. *)
Definition model_escape_pairs : list (string * string) := [("%", "%25"); ("/", "%2F")]%string.
Definition pair_eqb (p q : string * string) : bool := String.eqb (fst p) (fst q) && String.eqb (snd p) (snd q).
Fixpoint pairs_eqb (l1 l2 : list (string * string)) : bool :=
  match l1, l2 with
  | [], [] => true
  | p :: r, q :: s => pair_eqb p q && pairs_eqb r s
  | _, _ => false
  end.
Definition escape_table_ok : bool := pairs_eqb G.escape_pairs model_escape_pairs.

Inductive item := IDec (f : string) | IAmt (f : string) | IRaw (f : string) | IEsc (f : string) | IBad.

Definition item_of (p : string * string) : item :=
  if String.eqb (fst p) "dec" then IDec (snd p)
  else if String.eqb (fst p) "amt" then IAmt (snd p)
  else if String.eqb (fst p) "raw" then IRaw (snd p)
  else if String.eqb (fst p) "esc" then (if escape_table_ok then IEsc (snd p) else IRaw (snd p))
  else IBad.

Definition format (ct : string) : list item := map item_of (G.hash_items ct).

Definition render (c : claim) (it : item) : text :=
  match it with
  | IDec f => dec (c_num c f)
  | IAmt f => render_amt (c_amt c f)
  | IRaw f => c_str c f
  | IEsc f => esc (c_str c f)
  | IBad => []
  end.

Fixpoint join (l : list text) : text :=
  match l with
  | [] => []
  | [x] => x
  | x :: r => x ++ slash :: join r
  end.

Definition path (c : claim) : text := join (map (render c) (format (c_type c))).
Definition claim_hash (c : claim) : text := sha256 (path c).

(** ** Field values *)
Inductive fval := VNum (n : N) | VStr (s : text) | VAmt (a : option Z) | VNone.

Definition item_val (c : claim) (it : item) : fval :=
  match it with
  | IDec f => VNum (c_num c f)
  | IAmt f => VAmt (c_amt c f)
  | IRaw f | IEsc f => VStr (c_str c f)
  | IBad => VNone
  end.
Definition item_field (it : item) : string :=
  match it with IDec f | IAmt f | IRaw f | IEsc f => f | IBad => "" end.

Fixpoint assoc (k : string) (l : list (string * string)) : string :=
  match l with
  | [] => ""
  | (a, b) :: r => if String.eqb a k then b else assoc k r
  end.
Definition kind_of (ct f : string) : string := assoc f (G.struct_fields ct).

Definition field_val (c : claim) (f : string) : fval :=
  let k := kind_of (c_type c) f in
  if String.eqb k "num" then VNum (c_num c f)
  else if String.eqb k "str" then VStr (c_str c f)
  else if String.eqb k "amt" then VAmt (c_amt c f)
  else VNone.

Definition hashed_fields (ct : string) : list string := map item_field (format ct).
Definition hashed_vals (c : claim) : list fval := map (item_val c) (format (c_type c)).

(** Fields the property exempts: the voter's identity, transaction metadata, and the event nonce
    (read only by ValidateBasic's non-zero gate). *)
Definition excluded : list string := ["Orchestrator"; "Metadata"; "EventNonce"]%string.
Definition mem (f : string) (l : list string) : bool := existsb (String.eqb f) l.
Definition effect_fields (ct : string) : list string :=
  filter (fun f => negb (mem f excluded)) (G.handler_fields ct).

(** What applying a claim can depend on: its type and the values of the fields the keeper reads. *)
Definition effect (c : claim) : string * list fval :=
  (c_type c, map (field_val c) (effect_fields (c_type c))).

(** ** Attestation store key: []byte(chain) ++ OracleAttestationKey ++ UInt64Bytes(nonce) ++ hash *)
Definition chain_field (ct : string) : string := nth 0 (G.key_fields ct) ""%string.
Definition nonce_field (ct : string) : string := nth 1 (G.key_fields ct) ""%string.
Definition chain_of (c : claim) : text := c_str c (chain_field (c_type c)).
Definition nonce_of (c : claim) : N := c_num c (nonce_field (c_type c)).
Definition height_of (c : claim) : N := c_num c "EthBlockHeight"%string.

Definition be64 (n : N) : text :=
  [byte_of_N (N.shiftr n 56); byte_of_N (N.shiftr n 48); byte_of_N (N.shiftr n 40); byte_of_N (N.shiftr n 32);
   byte_of_N (N.shiftr n 24); byte_of_N (N.shiftr n 16); byte_of_N (N.shiftr n 8); byte_of_N n].

Definition key_shape_ok : bool :=
  match G.key_shape with
  | [a; b; c] => String.eqb a "OracleAttestationKey" && String.eqb b "UInt64Bytes($nonce)" && String.eqb c "$hash"
  | _ => false
  end && String.eqb G.store_prefix "[]byte($chain)" && G.attest_stores_hashed_claim.

(** [K] is the constant OracleAttestationKey (any byte string). *)
Definition att_key (K : text) (c : claim) : text := chain_of c ++ K ++ be64 (nonce_of c) ++ claim_hash c.

(** ** Checks on the generated tables (all decided by computation) *)
Definition item_safe (it : item) : bool :=
  match it with IDec _ | IAmt _ | IEsc _ => true | IRaw _ | IBad => false end.

Definition item_kind_ok (ct : string) (it : item) : bool :=
  match it with
  | IDec f => String.eqb (kind_of ct f) "num"
  | IAmt f => String.eqb (kind_of ct f) "amt"
  | IRaw f | IEsc f => String.eqb (kind_of ct f) "str"
  | IBad => false
  end.

Definition type_ok (ct : string) : bool :=
  forallb item_safe (format ct) && forallb (item_kind_ok ct) (format ct)
  && negb (Nat.eqb (List.length (format ct)) 0)
  && String.eqb (kind_of ct (chain_field ct)) "str" && String.eqb (kind_of ct (nonce_field ct)) "num"
  && String.eqb (kind_of ct "EthBlockHeight") "num"
  && Nat.eqb (List.length (G.key_fields ct)) 2 && mem (nonce_field ct) (hashed_fields ct)
  && forallb (fun f => mem f (hashed_fields ct) || mem f (G.key_fields ct) || mem f excluded) (G.handler_fields ct).

Definition lengths_distinct : bool :=
  forallb (fun t => forallb (fun t' => implb (Nat.eqb (List.length (format t)) (List.length (format t'))) (String.eqb t t'))
                            G.claim_types) G.claim_types.

Definition tables_ok : bool :=
  forallb type_ok G.claim_types && lengths_distinct && key_shape_ok && String.eqb G.hash_sep "/".

(** ** Vote pooling in Keeper.Attest *)
Record att := { a_key : text; a_src : N; a_body : claim; a_votes : list N }.
Record state := { atts : list att; lasts : list (N * text * N) (* validator, chain, last nonce *) }.

Definition text_eqb (a b : text) : bool :=
  (fix go (a b : text) : bool :=
     match a, b with
     | [], [] => true
     | x :: r, y :: s => Byte.eqb x y && go r s
     | _, _ => false
     end) a b.

Fixpoint last_of (l : list (N * text * N)) (v : N) (ch : text) : N :=
  match l with
  | [] => 0
  | (v', ch', n) :: r => if (v' =? v) && text_eqb ch' ch then n else last_of r v ch
  end.

Fixpoint find_att (l : list att) (k : text) : option att :=
  match l with
  | [] => None
  | a :: r => if text_eqb (a_key a) k then Some a else find_att r k
  end.

Fixpoint add_vote (l : list att) (k : text) (v : N) : list att :=
  match l with
  | [] => []
  | a :: r => if text_eqb (a_key a) k
              then {| a_key := a_key a; a_src := a_src a; a_body := a_body a; a_votes := a_votes a ++ [v] |} :: r
              else a :: add_vote r k v
  end.

(** One submission: validator [v] sends claim [c] (the [i]-th operation).  Follows Keeper.Attest:
    contiguous-nonce gate, lookup by key, a new attestation stores the submitted body, the vote is
    appended only if the stored body's height equals the claim's. *)
Definition attest (K : text) (s : state) (i v : N) (c : claim) : state * bool :=
  if negb (nonce_of c =? last_of (lasts s) v (chain_of c) + 1) then (s, false) else
  let k := att_key K c in
  let s_last := (v, chain_of c, nonce_of c) :: lasts s in
  match find_att (atts s) k with
  | None => ({| atts := atts s ++ [{| a_key := k; a_src := i; a_body := c; a_votes := [v] |}]; lasts := s_last |}, true)
  | Some a => if height_of (a_body a) =? height_of c
              then ({| atts := add_vote (atts s) k v; lasts := s_last |}, true)
              else (s, false)
  end.

Definition op := (N * claim)%type.   (* validator, claim *)

Fixpoint run_from (K : text) (s : state) (i : N) (ops : list op) : state :=
  match ops with
  | [] => s
  | (v, c) :: r => run_from K (fst (attest K s i v c)) (N.succ i) r
  end.
Definition init : state := {| atts := []; lasts := [] |}.
Definition run (K : text) (ops : list op) : state := run_from K init 0 ops.
