(** C11 — proofs about the claim path / attestation key / vote pooling model (Skyway/Claims.v). *)
From Coq Require Import List NArith ZArith Bool String Lia.
From Coq Require Import Strings.Byte.
From Paloma Require Import Base.Sha256 Skyway.Claims.
Import ListNotations.
Open Scope N_scope.

(** The generated tables pass every check of [tables_ok] (decided by computation on the tables
    regenerated from the source). *)
Lemma tables_ok_true : tables_ok = true.
Proof. vm_compute. reflexivity. Qed.

Lemma mem_In : forall f l, mem f l = true -> In f l.
Proof.
  intros f l H. unfold mem in H. apply existsb_exists in H as [x [Hx E]].
  apply String.eqb_eq in E. now subst.
Qed.

Lemma type_ok_of : forall ct, In ct G.claim_types -> type_ok ct = true.
Proof.
  intros ct H. pose proof tables_ok_true as T. unfold tables_ok in T.
  apply andb_true_iff in T as [T _]. apply andb_true_iff in T as [T _]. apply andb_true_iff in T as [T _].
  exact (proj1 (forallb_forall _ _) T ct H).
Qed.

Lemma hash_covers_effect_fields_lemma : forall ct, In ct G.claim_types ->
  incl (G.handler_fields ct) (hashed_fields ct ++ G.key_fields ct ++ excluded).
Proof.
  intros ct H f Hf. pose proof (type_ok_of ct H) as T. unfold type_ok in T.
  apply andb_true_iff in T as [_ T]. rewrite forallb_forall in T. specialize (T f Hf).
  apply orb_true_iff in T as [T | T]; [apply orb_true_iff in T as [T | T] |]; apply mem_In in T;
    rewrite !in_app_iff; auto.
Qed.
