(** C11 — proofs about the claim path / attestation key / vote pooling model (Skyway/Claims.v). *)
From Coq Require Import List NArith ZArith Bool String Lia.
From Coq Require Import Strings.Byte.
From Paloma Require Import Base.Sha256 Skyway.Claims.
Import ListNotations.
Open Scope N_scope.

(** * 1. The generated tables *)

(** The tables regenerated from the source pass every check of [tables_ok] (decided by computation). *)
Lemma tables_ok_true : tables_ok = true.
Proof. vm_compute. reflexivity. Qed.

Lemma mem_In : forall f l, mem f l = true -> In f l.
Proof.
  intros f l H. unfold mem in H. apply existsb_exists in H as [x [Hx E]].
  apply String.eqb_eq in E. now subst.
Qed.

Lemma type_ok_of : forall ct, In ct G.claim_types -> type_ok ct = true.
Proof.
  intros ct H. pose proof tables_ok_true as T. unfold tables_ok in T.
  apply andb_true_iff in T as [T _]. apply andb_true_iff in T as [T _]. apply andb_true_iff in T as [T _].
  exact (proj1 (forallb_forall _ _) T ct H).
Qed.

Lemma lengths_distinct_of : forall t t', In t G.claim_types -> In t' G.claim_types ->
  List.length (format t) = List.length (format t') -> t = t'.
Proof.
  intros t t' H H' E. pose proof tables_ok_true as T. unfold tables_ok in T.
  apply andb_true_iff in T as [T _]. apply andb_true_iff in T as [T _]. apply andb_true_iff in T as [_ T].
  unfold lengths_distinct in T.
  pose proof (proj1 (forallb_forall _ _) T t H) as T1. cbv beta in T1.
  pose proof (proj1 (forallb_forall _ _) T1 t' H') as T2. cbv beta in T2.
  rewrite E, Nat.eqb_refl in T2. simpl in T2. now apply String.eqb_eq.
Qed.

(** the components of [type_ok] *)
Record type_facts (ct : string) : Prop := {
  tf_safe : Forall (fun it => item_safe it = true) (format ct);
  tf_kind : Forall (fun it => item_kind_ok ct it = true) (format ct);
  tf_nonempty : format ct <> [];
  tf_chain : kind_of ct (chain_field ct) = "str"%string;
  tf_nonce : kind_of ct (nonce_field ct) = "num"%string;
  tf_keylen : List.length (G.key_fields ct) = 2%nat;
  tf_nonce_hashed : In (nonce_field ct) (hashed_fields ct);
  tf_cover : forall f, In f (G.handler_fields ct) ->
             In f (hashed_fields ct) \/ In f (G.key_fields ct) \/ In f excluded
}.

Lemma type_facts_of : forall ct, In ct G.claim_types -> type_facts ct.
Proof.
  intros ct H. pose proof (type_ok_of ct H) as T. unfold type_ok in T.
  apply andb_true_iff in T as [T Hcov]. apply andb_true_iff in T as [T Hnh]. apply andb_true_iff in T as [T Hkl].
  apply andb_true_iff in T as [T _]. apply andb_true_iff in T as [T Hn]. apply andb_true_iff in T as [T Hc].
  apply andb_true_iff in T as [T Hne]. apply andb_true_iff in T as [Hs Hk].
  constructor.
  - apply Forall_forall. now apply forallb_forall.
  - apply Forall_forall. now apply forallb_forall.
  - intros E. rewrite E in Hne. discriminate.
  - now apply String.eqb_eq.
  - now apply String.eqb_eq.
  - now apply Nat.eqb_eq.
  - now apply mem_In.
  - intros f Hf. rewrite forallb_forall in Hcov. specialize (Hcov f Hf).
    apply orb_true_iff in Hcov as [Hcov | Hcov]; [apply orb_true_iff in Hcov as [Hcov | Hcov] |];
      apply mem_In in Hcov; auto.
Qed.

Lemma hash_covers_effect_fields_lemma : forall ct, In ct G.claim_types ->
  incl (G.handler_fields ct) (hashed_fields ct ++ G.key_fields ct ++ excluded).
Proof.
  intros ct H f Hf. destruct (tf_cover ct (type_facts_of ct H) f Hf) as [X | [X | X]];
    rewrite !in_app_iff; auto.
Qed.

(** * 2. Decimal rendering is injective and produces digits only *)

Definition dval (b : byte) : N := Byte.to_N b - 48.
Definition valf (a : N) (l : text) : N := fold_left (fun a b => 10 * a + dval b) l a.

Lemma digit_val : forall d, d < 10 -> dval (digit d) = d.
Proof.
  intros d H.
  assert (d = 0 \/ d = 1 \/ d = 2 \/ d = 3 \/ d = 4 \/ d = 5 \/ d = 6 \/ d = 7 \/ d = 8 \/ d = 9) as C by lia.
  repeat (destruct C as [C | C]; [subst; reflexivity |]). subst; reflexivity.
Qed.

Lemma digit_in : forall d, In (digit d) digits.
Proof.
  intros d. unfold digit. destruct (Nat.lt_ge_cases (N.to_nat d) (List.length digits)) as [L | L].
  - now apply nth_In.
  - rewrite nth_overflow by exact L. simpl. auto.
Qed.

Lemma dec_aux_app : forall f n acc, dec_aux f n acc = dec_aux f n [] ++ acc.
Proof.
  induction f as [|f IH]; intros n acc; simpl; [reflexivity|].
  destruct (n <? 10); [reflexivity|].
  rewrite (IH (n / 10) (digit (n mod 10) :: acc)), (IH (n / 10) [digit (n mod 10)]).
  now rewrite <- app_assoc.
Qed.

Lemma valf_snoc : forall l a b, valf a (l ++ [b]) = 10 * valf a l + dval b.
Proof. intros. unfold valf. now rewrite fold_left_app. Qed.

Lemma val_dec_aux : forall f n, n < 2 ^ N.of_nat f -> valf 0 (dec_aux f n []) = n.
Proof.
  induction f as [|f IH]; intros n H.
  - simpl in *. lia.
  - cbn [dec_aux]. destruct (n <? 10) eqn:E.
    + apply N.ltb_lt in E. unfold valf. simpl. rewrite digit_val by (apply N.mod_lt; lia).
      rewrite N.mod_small by exact E. lia.
    + apply N.ltb_ge in E. rewrite dec_aux_app, valf_snoc.
      rewrite digit_val by (apply N.mod_lt; lia).
      rewrite IH.
      * pose proof (N.div_mod n 10). lia.
      * rewrite Nat2N.inj_succ, N.pow_succ_r' in H. apply N.div_lt_upper_bound; lia.
Qed.

Lemma dec_fuel_ok : forall n, n < 2 ^ N.of_nat (S (N.to_nat (N.log2 n))).
Proof.
  intros n. rewrite Nat2N.inj_succ, N2Nat.id. destruct n as [|p].
  - simpl. lia.
  - apply N.log2_spec. lia.
Qed.

Lemma val_dec : forall n, valf 0 (dec n) = n.
Proof. intros n. unfold dec. apply val_dec_aux, dec_fuel_ok. Qed.

Lemma dec_inj : forall n m, dec n = dec m -> n = m.
Proof. intros n m H. rewrite <- (val_dec n), <- (val_dec m). now rewrite H. Qed.

Lemma dec_aux_digits : forall f n acc, Forall (fun b => In b digits) acc -> Forall (fun b => In b digits) (dec_aux f n acc).
Proof.
  induction f as [|f IH]; intros n acc H; simpl; [exact H|].
  destruct (n <? 10).
  - constructor; [apply digit_in | exact H].
  - apply IH. constructor; [apply digit_in | exact H].
Qed.

Lemma dec_digits : forall n, Forall (fun b => In b digits) (dec n).
Proof. intros. unfold dec. apply dec_aux_digits. constructor. Qed.

Lemma dec_nonempty : forall n, exists b r, dec n = b :: r /\ In b digits.
Proof.
  intros n. pose proof (dec_digits n) as D. unfold dec in *. cbn [dec_aux] in *.
  destruct (n <? 10).
  - eexists _, _. split; [reflexivity | apply digit_in].
  - rewrite dec_aux_app in *. destruct (dec_aux _ (n / 10) []) as [|b r] eqn:E; simpl in *.
    + eexists _, _. split; [reflexivity | apply digit_in].
    + eexists _, _. split; [reflexivity|]. now inversion D.
Qed.

(** * 3. Slash-free texts and the join *)

Definition sf (x : text) : Prop := ~ In slash x.

Lemma digits_no_slash : ~ In slash digits.
Proof. simpl. intuition discriminate. Qed.

Lemma digits_sf : forall l, Forall (fun b => In b digits) l -> sf l.
Proof.
  intros l H S. rewrite Forall_forall in H. apply digits_no_slash. now apply H.
Qed.

Lemma dec_sf : forall n, sf (dec n).
Proof. intros. apply digits_sf, dec_digits. Qed.

Lemma render_amt_sf : forall a, sf (render_amt a).
Proof.
  intros [z|]; unfold render_amt.
  - destruct (z <? 0)%Z.
    + intros [E | I]; [discriminate | now apply (dec_sf _ I)].
    + apply dec_sf.
  - unfold sf, nil_text. simpl. intuition discriminate.
Qed.

Lemma render_amt_inj : forall a b, render_amt a = render_amt b -> a = b.
Proof.
  intros [z|] [z'|] H; unfold render_amt in H; try reflexivity.
  - destruct (z <? 0)%Z eqn:E, (z' <? 0)%Z eqn:E'.
    + inversion H as [H1]. apply dec_inj in H1. f_equal. apply Z.ltb_lt in E, E'. lia.
    + exfalso. destruct (dec_nonempty (Z.to_N z')) as [b [r [Eq I]]]. rewrite Eq in H. inversion H; subst.
      simpl in I. intuition discriminate.
    + exfalso. destruct (dec_nonempty (Z.to_N z)) as [b [r [Eq I]]]. rewrite Eq in H. inversion H; subst.
      simpl in I. intuition discriminate.
    + apply dec_inj in H. f_equal. apply Z.ltb_ge in E, E'. lia.
  - exfalso. destruct (z <? 0)%Z.
    + discriminate.
    + destruct (dec_nonempty (Z.to_N z)) as [b [r [Eq I]]]. rewrite Eq in H. inversion H; subst.
      simpl in I. intuition discriminate.
  - exfalso. destruct (z' <? 0)%Z.
    + discriminate.
    + destruct (dec_nonempty (Z.to_N z')) as [b [r [Eq I]]]. rewrite Eq in H. inversion H; subst.
      simpl in I. intuition discriminate.
Qed.

(** escaping: injective (left inverse [unesc]) and slash-free *)
Fixpoint unesc (l : text) : text :=
  match l with
  | [] => []
  | b :: r =>
      if Byte.eqb b percent then
        match r with
        | _ :: c2 :: r' => (if Byte.eqb c2 x35 then percent else slash) :: unesc r'
        | _ => []
        end
      else b :: unesc r
  end.

Lemma unesc_cons : forall b r, unesc (b :: r) =
  if Byte.eqb b percent then
    match r with
    | _ :: c2 :: r' => (if Byte.eqb c2 x35 then percent else slash) :: unesc r'
    | _ => []
    end
  else b :: unesc r.
Proof. reflexivity. Qed.

Lemma unesc_esc : forall s, unesc (esc s) = s.
Proof.
  induction s as [|b s IH]; [reflexivity|].
  change (esc (b :: s)) with (esc1 b ++ esc s). unfold esc1.
  destruct (Byte.eqb b percent) eqn:E1.
  - apply byte_dec_bl in E1. subst b.
    change ([x25; x32; x35] ++ esc s) with (x25 :: x32 :: x35 :: esc s).
    rewrite unesc_cons. change (Byte.eqb x25 percent) with true. cbv iota.
    change (Byte.eqb x35 x35) with true. cbv iota. now rewrite IH.
  - destruct (Byte.eqb b slash) eqn:E2.
    + apply byte_dec_bl in E2. subst b.
      change ([x25; x32; x46] ++ esc s) with (x25 :: x32 :: x46 :: esc s).
      rewrite unesc_cons. change (Byte.eqb x25 percent) with true. cbv iota.
      change (Byte.eqb x46 x35) with false. cbv iota. now rewrite IH.
    + change ([b] ++ esc s) with (b :: esc s). rewrite unesc_cons, E1. now rewrite IH.
Qed.

Lemma esc_inj : forall s t, esc s = esc t -> s = t.
Proof. intros s t H. rewrite <- (unesc_esc s), <- (unesc_esc t). now rewrite H. Qed.

Lemma esc_sf : forall s, sf (esc s).
Proof.
  induction s as [|b s IH]; [intros []|].
  unfold esc in *. cbn [flat_map]. unfold sf. rewrite in_app_iff. intros [I | I]; [| now apply IH].
  unfold esc1 in I. destruct (Byte.eqb b percent).
  - simpl in I. intuition discriminate.
  - destruct (Byte.eqb b slash) eqn:E2.
    + simpl in I. intuition discriminate.
    + apply eqb_false in E2. simpl in I. destruct I as [I | []]. now subst.
Qed.

(** splitting at the first separator *)
Lemma split_sep : forall x y r r', sf x -> sf y -> x ++ slash :: r = y ++ slash :: r' -> x = y /\ r = r'.
Proof.
  induction x as [|a x IH]; intros y r r' Hx Hy E.
  - destruct y as [|b y]; simpl in E.
    + inversion E. auto.
    + inversion E; subst. exfalso. apply Hy. now left.
  - destruct y as [|b y]; simpl in E.
    + inversion E; subst. exfalso. apply Hx. now left.
    + inversion E; subst. destruct (IH y r r') as [E1 E2]; auto.
      * intros I. apply Hx. now right.
      * intros I. apply Hy. now right.
      * subst. auto.
Qed.

Lemma join_cons : forall x r, r <> [] -> join (x :: r) = x ++ slash :: join r.
Proof. intros x [|y r] H; [congruence | reflexivity]. Qed.

Lemma join_inj : forall xs ys, Forall sf xs -> Forall sf ys -> xs <> [] -> ys <> [] ->
  join xs = join ys -> xs = ys.
Proof.
  induction xs as [|x xs IH]; intros ys Hx Hy Nx Ny E; [congruence|].
  destruct ys as [|y ys]; [congruence|].
  inversion Hx as [|? ? Sx Hx']; inversion Hy as [|? ? Sy Hy']; subst.
  destruct xs as [|x2 xs], ys as [|y2 ys].
  - simpl in E. now subst.
  - exfalso. rewrite (join_cons y (y2 :: ys)) in E by discriminate. change (join [x]) with x in E. subst x.
    apply Sx. rewrite in_app_iff. right. now left.
  - exfalso. rewrite (join_cons x (x2 :: xs)) in E by discriminate. change (join [y]) with y in E. subst y.
    apply Sy. rewrite in_app_iff. right. now left.
  - rewrite (join_cons x (x2 :: xs)), (join_cons y (y2 :: ys)) in E by discriminate.
    apply split_sep in E as [E1 E2]; auto. subst. f_equal. apply IH; auto; discriminate.
Qed.

(** The unescaped join is ambiguous — why [raw] items are not accepted by [tables_ok]. *)
Example raw_join_ambiguous :
  join [bytes_of "a/b"; bytes_of "c"] = join [bytes_of "a"; bytes_of "b/c"].
Proof. reflexivity. Qed.

(** * 4. Path injectivity *)

Lemma render_sf : forall c it, item_safe it = true -> sf (render c it).
Proof.
  intros c [f|f|f|f|] H; simpl in *; try discriminate.
  - apply dec_sf.
  - apply render_amt_sf.
  - apply esc_sf.
Qed.

Lemma render_item_inj : forall c c' it, item_safe it = true -> render c it = render c' it -> item_val c it = item_val c' it.
Proof.
  intros c c' [f|f|f|f|] H E; simpl in *; try discriminate.
  - now rewrite (dec_inj _ _ E).
  - now rewrite (render_amt_inj _ _ E).
  - now rewrite (esc_inj _ _ E).
Qed.

Lemma map_render_sf : forall c fmt, Forall (fun it => item_safe it = true) fmt -> Forall sf (map (render c) fmt).
Proof.
  intros c fmt H. induction H; simpl; constructor; auto using render_sf.
Qed.

Lemma map_render_inj : forall c c' fmt, Forall (fun it => item_safe it = true) fmt ->
  map (render c) fmt = map (render c') fmt -> map (item_val c) fmt = map (item_val c') fmt.
Proof.
  intros c c' fmt H. induction H as [|it fmt S _ IH]; simpl; intros E; [reflexivity|].
  inversion E. f_equal; auto using render_item_inj.
Qed.

Lemma claim_path_injective_lemma : forall c c',
  In (c_type c) G.claim_types -> In (c_type c') G.claim_types ->
  path c = path c' -> c_type c = c_type c' /\ hashed_vals c = hashed_vals c'.
Proof.
  intros c c' T T' E. unfold path in E.
  pose proof (type_facts_of _ T) as F. pose proof (type_facts_of _ T') as F'.
  apply join_inj in E.
  - assert (c_type c = c_type c') as Et.
    { apply lengths_distinct_of; auto. apply (f_equal (@List.length text)) in E. now rewrite !map_length in E. }
    split; [exact Et|]. unfold hashed_vals. rewrite <- Et in *. apply map_render_inj; [apply (tf_safe _ F) | exact E].
  - apply map_render_sf, (tf_safe _ F).
  - apply map_render_sf, (tf_safe _ F').
  - intros N. apply map_eq_nil in N. now apply (tf_nonempty _ F).
  - intros N. apply map_eq_nil in N. now apply (tf_nonempty _ F').
Qed.

(** * 5. Same key, same effect *)

Lemma app_inj_len : forall (A : Type) (a a' b b' : list A), List.length a = List.length a' -> a ++ b = a' ++ b' -> a = a' /\ b = b'.
Proof.
  induction a as [|x a IH]; intros [|x' a'] b b' L E; simpl in *; try discriminate; auto.
  inversion E; subst. destruct (IH a' b b') as [E1 E2]; auto. now subst.
Qed.

Lemma att_key_inj : forall K c c', att_key K c = att_key K c' ->
  chain_of c = chain_of c' /\ claim_hash c = claim_hash c'.
Proof.
  intros K c c' E. unfold att_key in E.
  assert (List.length (chain_of c) = List.length (chain_of c')) as L.
  { apply (f_equal (@List.length byte)) in E. rewrite !app_length in E. unfold claim_hash in E.
    rewrite !sha256_length in E. unfold be64 in E. simpl in E. lia. }
  apply app_inj_len in E as [E1 E]; [|exact L]. split; [exact E1|].
  apply app_inv_head in E. apply app_inj_len in E as [_ E]; [exact E | reflexivity].
Qed.

Lemma map_eq_In : forall (A B : Type) (f g : A -> B) l x, map f l = map g l -> In x l -> f x = g x.
Proof.
  induction l as [|a l IH]; intros x E I; [destruct I|]. simpl in E. inversion E.
  destruct I as [I | I]; [now subst | now apply IH].
Qed.

Lemma hashed_field_val : forall c c' f, In (c_type c) G.claim_types -> c_type c = c_type c' ->
  hashed_vals c = hashed_vals c' -> In f (hashed_fields (c_type c)) -> field_val c f = field_val c' f.
Proof.
  intros c c' f T Et Ev I. pose proof (type_facts_of _ T) as F.
  unfold hashed_fields in I. apply in_map_iff in I as [it [Ef Iit]].
  unfold hashed_vals in Ev. rewrite <- Et in Ev.
  pose proof (map_eq_In _ _ _ _ _ it Ev Iit) as V.
  pose proof (proj1 (Forall_forall _ _) (tf_kind _ F) it Iit) as Kd.
  unfold field_val. rewrite <- Et.
  destruct it as [g|g|g|g|]; simpl in *; try discriminate; subst f; apply String.eqb_eq in Kd; rewrite Kd; simpl;
    inversion V; congruence.
Qed.

Lemma same_key_same_effect_lemma : forall K c c',
  In (c_type c) G.claim_types -> In (c_type c') G.claim_types ->
  att_key K c = att_key K c' ->
  effect c = effect c' \/ (path c <> path c' /\ sha256 (path c) = sha256 (path c')).
Proof.
  intros K c c' T T' E. apply att_key_inj in E as [Ec Eh]. unfold claim_hash in Eh.
  destruct (list_eq_dec byte_eq_dec (path c) (path c')) as [Ep | Np]; [left | right; auto].
  destruct (claim_path_injective_lemma c c' T T' Ep) as [Et Ev].
  pose proof (type_facts_of _ T) as F.
  unfold effect. rewrite <- Et. f_equal. apply map_ext_in. intros f If.
  unfold effect_fields in If. apply filter_In in If as [If Nex].
  destruct (tf_cover _ F f If) as [X | [X | X]].
  - now apply hashed_field_val.
  - pose proof (tf_keylen _ F) as L. destruct (G.key_fields (c_type c)) as [|k0 [|k1 [|k2 r]]] eqn:KF; simpl in L; try discriminate.
    destruct X as [X | [X | []]]; subst f.
    + (* the chain field *)
      assert (chain_field (c_type c) = k0) as CF by (unfold chain_field; now rewrite KF).
      unfold field_val. rewrite <- Et, <- CF, (tf_chain _ F). simpl.
      unfold chain_of in Ec. rewrite <- Et in Ec. now rewrite Ec.
    + (* the nonce field is hashed as well *)
      assert (nonce_field (c_type c) = k1) as NF by (unfold nonce_field; now rewrite KF).
      rewrite <- NF. apply hashed_field_val; auto. apply (tf_nonce_hashed _ F).
  - exfalso. apply negb_true_iff in Nex. unfold mem in Nex.
    assert (existsb (String.eqb f) excluded = true) as Y; [|congruence].
    apply existsb_exists. exists f. split; [exact X | apply String.eqb_refl].
Qed.

(** * 6. Vote pooling over all histories *)

Lemma text_eqb_eq : forall a b, text_eqb a b = true -> a = b.
Proof.
  unfold text_eqb. induction a as [|x a IH]; intros [|y b] H; try discriminate; [reflexivity|].
  apply andb_true_iff in H as [H1 H2]. apply byte_dec_bl in H1. apply IH in H2. now subst.
Qed.

Definition inv (K : text) (done : list op) (s : state) : Prop :=
  forall a, In a (atts s) ->
    att_key K (a_body a) = a_key a /\
    (exists v0, In (v0, a_body a) done) /\
    forall v, In v (a_votes a) -> exists c, In (v, c) done /\ att_key K c = a_key a.

Lemma inv_mono : forall K done more s, inv K done s -> inv K (done ++ more) s.
Proof.
  intros K done more s H a Ia. destruct (H a Ia) as [H1 [[v0 H2] H3]]. split; [exact H1|]. split.
  - exists v0. apply in_or_app. now left.
  - intros v Iv. destruct (H3 v Iv) as [c [I E]]. exists c. split; [apply in_or_app; now left | exact E].
Qed.

Lemma find_att_some : forall l k a, find_att l k = Some a -> In a l /\ a_key a = k.
Proof.
  induction l as [|x l IH]; intros k a H; simpl in H; [discriminate|].
  destruct (text_eqb (a_key x) k) eqn:E.
  - inversion H; subst. split; [now left | now apply text_eqb_eq].
  - destruct (IH k a H). split; [now right | assumption].
Qed.

Lemma add_vote_in : forall l k v a', In a' (add_vote l k v) ->
  In a' l \/ exists a, In a l /\ a_key a = k /\ a_key a' = a_key a /\ a_body a' = a_body a /\ a_votes a' = a_votes a ++ [v].
Proof.
  induction l as [|x l IH]; intros k v a' H; simpl in H; [destruct H|].
  destruct (text_eqb (a_key x) k) eqn:E.
  - destruct H as [H | H].
    + right. exists x. subst a'. simpl. split; [now left|]. split; [now apply text_eqb_eq | auto].
    + left. now right.
  - destruct H as [H | H].
    + left. now left.
    + destruct (IH k v a' H) as [I | [a [I R]]].
      * left. now right.
      * right. exists a. split; [now right | exact R].
Qed.

Lemma attest_inv : forall K done s i v c, inv K done s -> inv K (done ++ [(v, c)]) (fst (attest K s i v c)).
Proof.
  intros K done s i v c H. unfold attest.
  destruct (negb (nonce_of c =? last_of (lasts s) v (chain_of c) + 1)); [now apply inv_mono|].
  destruct (find_att (atts s) (att_key K c)) as [a0|] eqn:Fd.
  - destruct (height_of (a_body a0) =? height_of c); [|now apply inv_mono].
    simpl. intros a' Ia'. apply add_vote_in in Ia' as [I | [a [I [Ek [E1 [E2 E3]]]]]].
    + now apply (inv_mono K done [(v, c)] s H).
    + destruct (H a I) as [H1 [[v0 H2] H3]]. rewrite E1, E2. split; [exact H1|]. split.
      * exists v0. apply in_or_app. now left.
      * intros w Iw. rewrite E3 in Iw. apply in_app_or in Iw as [Iw | [Iw | []]].
        -- destruct (H3 w Iw) as [c0 [I0 E0]]. exists c0. split; [apply in_or_app; now left | exact E0].
        -- subst w. exists c. split; [apply in_or_app; right; now left | now rewrite Ek].
  - simpl. intros a' Ia'. apply in_app_or in Ia' as [I | [I | []]].
    + now apply (inv_mono K done [(v, c)] s H).
    + subst a'. simpl. split; [reflexivity|]. split.
      * exists v. apply in_or_app. right. now left.
      * intros w [Iw | []]. subst w. exists c. split; [apply in_or_app; right; now left | reflexivity].
Qed.

Lemma run_from_inv : forall K ops done s i, inv K done s -> inv K (done ++ ops) (run_from K s i ops).
Proof.
  induction ops as [|[v c] ops IH]; intros done s i H; simpl.
  - now rewrite app_nil_r.
  - pose proof (app_assoc done [(v, c)] ops) as E. simpl in E.
    rewrite E. apply IH. now apply attest_inv.
Qed.

Lemma pooled_votes_same_effect_lemma : forall K ops,
  (forall v c, In (v, c) ops -> In (c_type c) G.claim_types) ->
  forall a, In a (atts (run K ops)) ->
    (exists v0, In (v0, a_body a) ops) /\
    forall v, In v (a_votes a) ->
      exists c, In (v, c) ops /\
        (effect c = effect (a_body a) \/ (path c <> path (a_body a) /\ sha256 (path c) = sha256 (path (a_body a)))).
Proof.
  intros K ops Ty a Ia.
  assert (inv K ([] ++ ops) (run K ops)) as I by (apply run_from_inv; intros x []).
  simpl in I. destruct (I a Ia) as [H1 [[v0 H2] H3]]. split; [now exists v0|].
  intros v Iv. destruct (H3 v Iv) as [c [Ic Ek]]. exists c. split; [exact Ic|].
  apply (same_key_same_effect_lemma K); [now apply (Ty v) | now apply (Ty v0) | now rewrite Ek, H1].
Qed.

(** * 7. Non-vacuity *)

Definition ex_deposit (recv compass : string) (v : N) : claim :=
  {| c_type := "MsgSendToPalomaClaim";
     c_num := fun f => if String.eqb f "SkywayNonce" then 1 else if String.eqb f "EthBlockHeight" then 100 else 7;
     c_str := fun f => if String.eqb f "PalomaReceiver" then bytes_of recv
                       else if String.eqb f "CompassId" then bytes_of compass
                       else if String.eqb f "ChainReferenceId" then bytes_of "test-chain"
                       else bytes_of "0xab";
     c_amt := fun _ => Some 12%Z |}.

(** the path of a concrete deposit claim, with a '/' and a '%' in the receiver *)
Example path_example :
  path (ex_deposit "a/b%" "55" 0) = bytes_of "1/100/0xab/12/0xab/a%2Fb%25/55".
Proof. vm_compute. reflexivity. Qed.

(** the former collision pair now renders two different paths *)
Example shifted_boundary_paths_differ :
  path (ex_deposit "a/b" "c" 0) <> path (ex_deposit "a" "b/c" 0).
Proof. vm_compute. discriminate. Qed.

Example claim_types_nonempty : In "MsgLightNodeSaleClaim"%string G.claim_types /\ In "MsgSendToPalomaClaim"%string G.claim_types.
Proof. split; vm_compute; tauto. Qed.

Example sale_contract_is_effect_and_hashed :
  In "SmartContractAddress"%string (effect_fields "MsgLightNodeSaleClaim") /\
  In "SmartContractAddress"%string (hashed_fields "MsgLightNodeSaleClaim").
Proof. split; vm_compute; tauto. Qed.

(** three validators vote for the same body (they differ in orchestrator-independent fields only): one attestation, three votes *)
Example pooling_example :
  let ops := [(0, ex_deposit "r" "55" 0); (1, ex_deposit "r" "55" 1); (2, ex_deposit "r" "55" 2); (3, ex_deposit "r/" "55" 3)] in
  map a_votes (atts (run [] ops)) = [[0; 1; 2]; [3]].
Proof. vm_compute. reflexivity. Qed.
