(** C01 — executable model of the skyway bridge's outbound/inbound fund handling:
    x/skyway/keeper/pool.go (AddToOutgoingPool, RemoveFromOutgoingPoolAndRefund),
    batch.go (BuildOutgoingTXBatch, pickUnbatchedTxs, CancelOutgoingTXBatch, UpdateBatchGasEstimate,
    OutgoingTxBatchExecuted), attestation.go processAttestation, attestation_handler.go
    (handleSendToPaloma, handleBatchSendToRemote), x/skyway/abci.go (createBatch,
    cleanupTimedOutBatches, EndBlocker) — as the code is after the four [fix:] commits of branch
    verif-C01.  Definitions only; proofs are in BridgeProofs.v.

    Every call to a collaborator that can fail (bank: SendCoinsFromAccountToModule,
    SendCoinsFromModuleToAccount, SendCoinsFromModuleToModule, MintCoins, BurnCoins; EVM keeper:
    GetChainInfo, PickValidatorForMessage, GetEthAddressByValidator) consults a fault oracle
    [f : nat -> bool]: the n-th such call made by the operation fails iff [f n = true].  The
    oracle is part of the operation, so a history of operations carries an arbitrary fault
    sequence.  "raw" functions write to the state in the order the Go code does and stop at the
    first failure, keeping what was written; [atomically] is CacheContext + commit-on-success and
    is applied exactly where the Go code applies it (messages: by baseapp).

    Tax is an input of Send (computed by C15's model, stored on the transfer); the transfer-limit
    decision (UpdateBridgeTransferUsageWithLimit rejects / lets through) is an input of Send too,
    the limit arithmetic is C15's.  Attestation voting is C02's: [OExecuted]/[ODeposit] mean "the
    attestation handler runs once for this claim" (processAttestation).

    Round 2: the denom table is state.  [OMapGov] is setDenomToERC20 as the governance paths call
    it (legacy SetERC20ToDenomProposal handler, MsgSetERC20MappingProposal: no guard at all),
    [OMapAdmin] is msgServer.SetERC20ToTokenDenom (token admin; refuses a contract that is already
    bound on that chain).  [OEndBlockFull] is the whole EndBlocker: createBatch, the attestation
    tally of every active chain (processAttestation for each claim that reached the threshold,
    then emitObservedEvent), processGasEstimates, cleanupTimedOutBatches, with a second oracle
    [pf] "the n-th collaborator call PANICS": the panic is caught by EndBlocker's recover, what
    the all-or-nothing sub-steps completed before it stays, the rest of the block's housekeeping
    is skipped. *)
From Coq Require Import List ZArith Bool.
From Paloma Require Import Gen.C01.
Import ListNotations.
Open Scope Z_scope.

Record transfer := mkT {
  t_id : Z; t_sender : Z; t_chain : Z; t_contract : Z; t_amount : Z; t_tax : Z }.

Record batch := mkB {
  b_nonce : Z; b_chain : Z; b_contract : Z; b_timeout : Z; b_gas : Z; b_txs : list transfer }.

(** one row of the ERC20<->denom table: (chain, denom, contract); both store indexes are written
    together by setDenomToERC20 *)
Definition entry := (Z * Z * Z)%type.

Definition fault := nat -> bool.
Definition nofault : fault := fun _ => false.
Definition fat (k : nat) : fault := fun n => Nat.eqb n k.
Definition shift (f : fault) (m : nat) : fault := fun n => f (m + n)%nat.

Inductive outcome := Ok | Err.

Record state := mkS {
  table : list entry;            (* both store indexes of the denom table, newest row first (see [map_set]) *)
  pool : list transfer;          (* store order of the reverse iterator: descending (contract, amount, id) *)
  batches : list batch;          (* descending (contract, nonce) *)
  bal : Z -> Z -> Z;             (* user account, denom *)
  escrow : Z -> Z;               (* skyway module account, per denom *)
  comm : Z -> Z;                 (* community pool (distribution module account) *)
  supply : Z -> Z;
  last_tx : Z;                   (* KeyLastTXPoolID *)
  last_batch : Z;                (* KeyLastOutgoingBatchID *)
  refunded : list Z;             (* ghost: ids refunded to their sender *)
  burned : list Z                (* ghost: ids burned by an executed-batch attestation *)
}.

Definition upd (g : Z -> Z) (k v : Z) : Z -> Z := fun x => if x =? k then v else g x.
Definition upd2 (g : Z -> Z -> Z) (a k v : Z) : Z -> Z -> Z :=
  fun x y => if (x =? a) && (y =? k) then v else g x y.

Definition set_table s tb := mkS tb (pool s) (batches s) (bal s) (escrow s) (comm s) (supply s) (last_tx s) (last_batch s) (refunded s) (burned s).
Definition set_pool s p := mkS (table s) p (batches s) (bal s) (escrow s) (comm s) (supply s) (last_tx s) (last_batch s) (refunded s) (burned s).
Definition set_batches s b := mkS (table s) (pool s) b (bal s) (escrow s) (comm s) (supply s) (last_tx s) (last_batch s) (refunded s) (burned s).
Definition set_bal s b := mkS (table s) (pool s) (batches s) b (escrow s) (comm s) (supply s) (last_tx s) (last_batch s) (refunded s) (burned s).
Definition set_escrow s e := mkS (table s) (pool s) (batches s) (bal s) e (comm s) (supply s) (last_tx s) (last_batch s) (refunded s) (burned s).
Definition set_comm s c := mkS (table s) (pool s) (batches s) (bal s) (escrow s) c (supply s) (last_tx s) (last_batch s) (refunded s) (burned s).
Definition set_supply s u := mkS (table s) (pool s) (batches s) (bal s) (escrow s) (comm s) u (last_tx s) (last_batch s) (refunded s) (burned s).
Definition set_last_tx s n := mkS (table s) (pool s) (batches s) (bal s) (escrow s) (comm s) (supply s) n (last_batch s) (refunded s) (burned s).
Definition set_last_batch s n := mkS (table s) (pool s) (batches s) (bal s) (escrow s) (comm s) (supply s) (last_tx s) n (refunded s) (burned s).
Definition set_refunded s l := mkS (table s) (pool s) (batches s) (bal s) (escrow s) (comm s) (supply s) (last_tx s) (last_batch s) l (burned s).
Definition set_burned s l := mkS (table s) (pool s) (batches s) (bal s) (escrow s) (comm s) (supply s) (last_tx s) (last_batch s) (refunded s) l.

(** GetERC20OfDenom / GetDenomOfERC20 *)
Fixpoint erc20_of (tb : list entry) (c d : Z) : option Z :=
  match tb with
  | [] => None
  | (c', d', k') :: r => if (c' =? c) && (d' =? d) then Some k' else erc20_of r c d
  end.
Fixpoint denom_of (tb : list entry) (c k : Z) : option Z :=
  match tb with
  | [] => None
  | (c', d', k') :: r => if (c' =? c) && (k' =? k) then Some d' else denom_of r c k
  end.

Definition owed (t : transfer) : Z := t_amount t + t_tax t.
Definition tx_denom (tb : list entry) (t : transfer) : option Z := denom_of tb (t_chain t) (t_contract t).

(** pool store key (contract, amount, id); the pool list is kept in descending key order *)
Definition tx_key_lt (a b : transfer) : bool :=
  (t_contract a <? t_contract b)
  || ((t_contract a =? t_contract b)
      && ((t_amount a <? t_amount b) || ((t_amount a =? t_amount b) && (t_id a <? t_id b)))).
Fixpoint pool_insert (t : transfer) (l : list transfer) : list transfer :=
  match l with
  | [] => [t]
  | x :: r => if tx_key_lt x t then t :: x :: r else x :: pool_insert t r
  end.
Definition pool_insert_all (ts l : list transfer) : list transfer := fold_left (fun acc t => pool_insert t acc) ts l.

(** batch store key (contract, nonce), descending *)
Definition batch_key_lt (a b : batch) : bool :=
  (b_contract a <? b_contract b) || ((b_contract a =? b_contract b) && (b_nonce a <? b_nonce b)).
Fixpoint batch_insert (b : batch) (l : list batch) : list batch :=
  match l with
  | [] => [b]
  | x :: r => if batch_key_lt x b then b :: x :: r else x :: batch_insert b r
  end.

Definition is_batch (k n : Z) (b : batch) : bool := (b_contract b =? k) && (b_nonce b =? n).
Definition find_batch (k n : Z) (l : list batch) : option batch := find (is_batch k n) l.
Fixpoint remove_first {A} (p : A -> bool) (l : list A) : list A :=
  match l with
  | [] => []
  | x :: r => if p x then r else x :: remove_first p r
  end.

Definition atomically (s : state) (r : state * outcome * nat) : state * outcome * nat :=
  match r with
  | (s', Ok, n) => (s', Ok, n)
  | (_, Err, n) => (s, Err, n)
  end.

(** *** MsgSendToRemote -> AddToOutgoingPool.  Collaborator calls: 0 bank.SendCoinsFromAccountToModule,
    1 EVMKeeper.GetChainInfo.  [lim] = UpdateBridgeTransferUsageWithLimit refuses the transfer (it
    runs before anything is written; the usage bookkeeping it updates is C15's state and is rolled
    back with the transaction when a later step fails). *)
Definition send_raw (f : fault) (u c d a tax : Z) (lim : bool) (s : state) : state * outcome * nat :=
  if (a <=? 0) || lim || (tax <? 0) then (s, Err, 0%nat) else
  match erc20_of (table s) c d with
  | None => (s, Err, 0%nat)
  | Some k =>
      if f 0%nat || (bal s u d <? a + tax) then (s, Err, 1%nat) else
      let i := last_tx s + 1 in
      let s1 := set_bal s (upd2 (bal s) u d (bal s u d - (a + tax))) in
      let s2 := set_escrow s1 (upd (escrow s1) d (escrow s1 d + (a + tax))) in
      let s3 := set_last_tx s2 i in
      let s4 := set_pool s3 (pool_insert (mkT i u c k a tax) (pool s3)) in
      if f 1%nat then (s4, Err, 2%nat) else (s4, Ok, 2%nat)
  end.

(** *** MsgCancelSendToRemote -> RemoveFromOutgoingPoolAndRefund.  Calls: 0 bank.SendCoinsFromModuleToAccount,
    1 GetChainInfo. *)
Definition cancel_raw (f : fault) (u i : Z) (s : state) : state * outcome * nat :=
  if i <? 1 then (s, Err, 0%nat) else
  match find (fun t => t_id t =? i) (pool s) with
  | None => (s, Err, 0%nat)
  | Some t =>
      if negb (t_sender t =? u) then (s, Err, 0%nat) else
      let s1 := set_pool s (remove_first (fun t => t_id t =? i) (pool s)) in
      match tx_denom (table s) t with
      | None => (s1, Err, 0%nat)
      | Some d =>
          if f 0%nat || (escrow s1 d <? owed t) then (s1, Err, 1%nat) else
          let s2 := set_escrow s1 (upd (escrow s1) d (escrow s1 d - owed t)) in
          let s3 := set_bal s2 (upd2 (bal s2) u d (bal s2 u d + owed t)) in
          let s4 := set_refunded s3 (i :: refunded s3) in
          if f 1%nat then (s4, Err, 2%nat) else (s4, Ok, 2%nat)
      end
  end.

(** *** pickUnbatchedTxs: walk the pool in store order, take the transfers of this contract AND this
    chain, at most [n] *)
Fixpoint pick (c k : Z) (n : nat) (l : list transfer) : list transfer * list transfer :=
  match l with
  | [] => ([], [])
  | t :: r =>
      match n with
      | O => ([], l)
      | S n' =>
          if (t_contract t =? k) && (t_chain t =? c)
          then let (p, q) := pick c k n' r in (t :: p, q)
          else let (p, q) := pick c k n r in (p, t :: q)
      end
  end.

(** *** BuildOutgoingTXBatch.  Calls (only when something was picked): 0 GetChainInfo,
    1 PickValidatorForMessage, 2 GetEthAddressByValidator. *)
Definition build_raw (f : fault) (c k max now : Z) (s : state) : state * outcome * nat :=
  if max <=? 0 then (s, Err, 0%nat) else
  let (picked, rest) := pick c k (Z.to_nat max) (pool s) in
  match picked with
  | [] => (s, Ok, 0%nat)
  | _ :: _ =>
      let s1 := set_pool s rest in
      if f 0%nat then (s1, Err, 1%nat) else
      let n := last_batch s1 + 1 in
      let s2 := set_last_batch s1 n in
      if f 1%nat then (s2, Err, 2%nat) else
      if f 2%nat then (s2, Err, 3%nat) else
      (set_batches s2 (batch_insert (mkB n c k (now + batch_timeout_secs) 0 picked) (batches s2)), Ok, 3%nat)
  end.
(** after "fix: build outgoing tx batches atomically" the function runs on a cached context *)
Definition build (f : fault) (c k max now : Z) (s : state) : state * outcome * nat :=
  atomically s (build_raw f c k max now s).

(** *** CancelOutgoingTXBatch (cached context).  Call 0: GetChainInfo. *)
Definition cancel_batch_raw (f : fault) (k n : Z) (s : state) : state * outcome * nat :=
  match find_batch k n (batches s) with
  | None => (s, Err, 0%nat)
  | Some b =>
      let s1 := set_pool s (pool_insert_all (b_txs b) (pool s)) in
      let s2 := set_batches s1 (remove_first (is_batch k n) (batches s1)) in
      if f 0%nat then (s2, Err, 1%nat) else (s2, Ok, 1%nat)
  end.
Definition cancel_batch (f : fault) (k n : Z) (s : state) : state * outcome * nat :=
  atomically s (cancel_batch_raw f k n s).

(** *** UpdateBatchGasEstimate (cached context).  Call 0: GetChainInfo. *)
Definition set_gas (b : batch) (g : Z) : batch := mkB (b_nonce b) (b_chain b) (b_contract b) (b_timeout b) g (b_txs b).
Definition set_gas_raw (f : fault) (k n est : Z) (s : state) : state * outcome * nat :=
  match find_batch k n (batches s) with
  | None => (s, Err, 0%nat)
  | Some b =>
      if 0 <? b_gas b then (s, Err, 0%nat) else
      if f 0%nat then (s, Err, 1%nat) else
      (set_batches s (map (fun x => if is_batch k n x then set_gas x est else x) (batches s)), Ok, 1%nat)
  end.

(** *** processAttestation + handleBatchSendToRemote -> OutgoingTxBatchExecuted.  Call 0: bank.BurnCoins. *)
Definition total_owed (l : list transfer) : Z := fold_right (fun t acc => owed t + acc) 0 l.
Definition executed_raw (f : fault) (c k n eth : Z) (s : state) : state * outcome * nat :=
  match find_batch k n (batches s) with
  | None => (s, Err, 0%nat)
  | Some b =>
      if negb (b_chain b =? c) then (s, Err, 0%nat) else     (* fix: claim must come from the batch's chain *)
      if b_timeout b <=? eth then (s, Err, 0%nat) else
      match denom_of (table s) c k with
      | None => (s, Err, 0%nat)
      | Some d =>
          let tot := total_owed (b_txs b) in
          if f 0%nat || (escrow s d <? tot) then (s, Err, 1%nat) else
          let s1 := set_escrow s (upd (escrow s) d (escrow s d - tot)) in
          let s2 := set_supply s1 (upd (supply s1) d (supply s1 d - tot)) in
          let s3 := set_batches s2 (remove_first (is_batch k n) (batches s2)) in
          (set_burned s3 (map t_id (b_txs b) ++ burned s3), Ok, 1%nat)
      end
  end.

(** *** processAttestation + handleSendToPaloma.  Calls: 0 bank.MintCoins; then for a well-formed
    receiver 1 bank.SendCoinsFromModuleToAccount (fails by itself for a blocked address); when the
    receiver is malformed or that send failed: next call bank.SendCoinsFromModuleToModule to the
    community pool (after "fix: send undeliverable deposits to the community pool"). *)
Inductive recv := RUser (u : Z) | RInvalid | RBlocked.
Definition to_comm (f : fault) (idx : nat) (d a : Z) (s : state) : state * outcome * nat :=
  if f idx then (s, Err, S idx) else
  let s1 := set_escrow s (upd (escrow s) d (escrow s d - a)) in
  (set_comm s1 (upd (comm s1) d (comm s1 d + a)), Ok, S idx).
Definition deposit_raw (f : fault) (c k : Z) (r : recv) (a : Z) (s : state) : state * outcome * nat :=
  match denom_of (table s) c k with
  | None => (s, Err, 0%nat)
  | Some d =>
      if f 0%nat || (a <=? 0) then (s, Err, 1%nat) else
      let s1 := set_supply s (upd (supply s) d (supply s d + a)) in
      let s2 := set_escrow s1 (upd (escrow s1) d (escrow s1 d + a)) in
      match r with
      | RInvalid => to_comm f 1%nat d a s2
      | RBlocked => to_comm f 2%nat d a s2
      | RUser u =>
          if f 1%nat then to_comm f 2%nat d a s2 else
          let s3 := set_escrow s2 (upd (escrow s2) d (escrow s2 d - a)) in
          (set_bal s3 (upd2 (bal s3) u d (bal s3 u d + a)), Ok, 2%nat)
      end
  end.

(** *** the denom table as governance / token admins write it.  setDenomToERC20(c, d, k) overwrites
    DenomToERC20[c, d] := k and ERC20ToDenom[c, k] := d and deletes nothing (the old reverse entry
    of a re-mapped denom stays).  With the newest row in front and first-match lookups ([erc20_of],
    [denom_of]) that is one cons. *)
Definition map_set (c d k : Z) (s : state) : state := set_table s ((c, d, k) :: table s).

(** msgServer.SetERC20ToTokenDenom.  Call 0: GetChainInfo.  [auth] = the denom is a token-factory
    denom whose admin is the sender (C16).  The contract must not be bound on that chain yet. *)
Definition map_admin_raw (f : fault) (c d k : Z) (auth : bool) (s : state) : state * outcome * nat :=
  if f 0%nat then (s, Err, 1%nat) else
  if negb auth then (s, Err, 1%nat) else
  match denom_of (table s) c k with
  | Some _ => (s, Err, 1%nat)
  | None => (map_set c d k s, Ok, 1%nat)
  end.

(** rows of the DenomToERC20 index in store order (key = chain ++ denom; the harness numbers chains
    and denoms by the byte order of those keys): GetAllERC20ToDenoms *)
Definition row_lt (a b : entry) : bool :=
  let '(c1, d1, _) := a in let '(c2, d2, _) := b in (c1 <? c2) || ((c1 =? c2) && (d1 <? d2)).
Definition row_same (a b : entry) : bool :=
  let '(c1, d1, _) := a in let '(c2, d2, _) := b in (c1 =? c2) && (d1 =? d2).
Fixpoint row_insert (e : entry) (l : list entry) : list entry :=
  match l with
  | [] => [e]
  | x :: r => if row_same x e then l else if row_lt e x then e :: l else x :: row_insert e r
  end.
Definition d2e_rows (tb : list entry) : list entry := fold_left (fun acc e => row_insert e acc) tb [].

(** *** createBatch (end-blocker): at heights = 0 mod 50, for every row of the DenomToERC20 index in
    store order: GetERC20OfDenom, BuildOutgoingTXBatch(chain, contract, OutgoingTxBatchSize); stops
    at the first error.  [n] = collaborator calls already made by this end-block. *)
Fixpoint create_loop (f : fault) (n : nat) (es : list entry) (now : Z) (s : state) : state * outcome * nat :=
  match es with
  | [] => (s, Ok, n)
  | (c, d, _) :: r =>
      match erc20_of (table s) c d with
      | None => (s, Err, n)
      | Some k =>
          match build (shift f n) c k batch_size now s with
          | (s', Ok, m) => create_loop f (n + m) r now s'
          | (s', Err, m) => (s', Err, (n + m)%nat)
          end
      end
  end.
Definition create_batch (f : fault) (n : nat) (h now : Z) (s : state) : state * outcome * nat :=
  if h mod batch_period =? 0 then create_loop f n (d2e_rows (table s)) now s else (s, Ok, n).

(** *** cleanupTimedOutBatches: the batch list is read once, then every batch with
    BatchTimeout < block time is cancelled; stops at the first error. *)
Fixpoint sweep_loop (f : fault) (n : nat) (bs : list batch) (now : Z) (s : state) : state * outcome * nat :=
  match bs with
  | [] => (s, Ok, n)
  | b :: r =>
      if b_timeout b <? now then
        match cancel_batch (shift f n) (b_contract b) (b_nonce b) s with
        | (s', Ok, m) => sweep_loop f (n + m) r now s'
        | (s', Err, m) => (s', Err, (n + m)%nat)
        end
      else sweep_loop f n r now s
  end.
Definition sweep (f : fault) (n : nat) (now : Z) (s : state) : state * outcome * nat :=
  sweep_loop f n (batches s) now s.

(** *** EndBlocker with no attestation to tally and no gas estimate to elect: createBatch, then
    cleanupTimedOutBatches; both errors are logged and swallowed. *)
Definition end_block (f : fault) (h now : Z) (s : state) : state * outcome * nat :=
  let '(s1, _, n1) := create_batch f 0%nat h now s in
  let '(s2, _, n2) := sweep f n1 now s1 in
  (s2, Ok, n2).

(** observed claims the end-blocker's tally hands to processAttestation *)
Inductive event :=
| EvExecuted (c k n eth : Z)
| EvDeposit (c k : Z) (r : recv) (a : Z).

Inductive op :=
| OSend (u c d a tax : Z) (lim : bool) (f : fault)
| OCancel (u i : Z) (f : fault)
| OBuild (c k max now : Z) (f : fault)
| OCancelBatch (k n : Z) (f : fault)
| OSetGas (k n est : Z) (f : fault)
| OExecuted (c k n eth : Z) (f : fault)
| ODeposit (c k : Z) (r : recv) (a : Z) (f : fault)
| OCreateBatch (h now : Z) (f : fault)
| OSweep (now : Z) (f : fault)
| OEndBlock (h now : Z) (f : fault)
| OGov    (* governance changes the bridge tax rate / exemption list or the transfer limit of a
             denom: the settings live outside the bridge's fund state; what a pending transfer
             owes was fixed when it was sent ([t_tax]) *)
| OMapGov (c d k : Z)                             (* setDenomToERC20 through a governance path: no guard *)
| OMapAdmin (c d k : Z) (auth : bool) (f : fault) (* msgServer.SetERC20ToTokenDenom *)
| OEndBlockFull (h now : Z) (groups : list (list event)) (ests : list (Z * Z * Z)) (f pf : fault)
| OGenesis.   (* ExportGenesis, the module's store wiped, InitGenesis *)

(** *** the whole EndBlocker, with panics.  [eb] threads the state, the number of collaborator
    calls made so far in this block, the all-or-nothing sub-steps run so far (ghost trace) and
    whether a panic has unwound to EndBlocker's recover (then nothing else runs). *)
Record eb := mkEB { eb_s : state; eb_n : nat; eb_tr : list op; eb_dead : bool }.

Definition either (f pf : fault) : fault := fun i => f i || pf i.

(** index (relative to [n]) of the first of the [m] calls [n .. n+m-1] that panics *)
Fixpoint first_panic (pf : fault) (n m : nat) : option nat :=
  match m with
  | O => None
  | S m' => if pf n then Some O else option_map S (first_panic pf (S n) m')
  end.

(** One sub-step that runs on its own cached context ([runner g s] = what the sub-step does under
    the fault oracle [g]; [mk g] = the same thing as an operation, for the trace).  The sub-step is
    run with panicking calls counted as failing ones; if one of the calls it made panics, the
    sub-step's cached context is dropped (after "fix: do not commit a half-done batch change when
    a collaborator panics"; processAttestation always had an explicit commit), i.e. it has no
    effect, and the panic unwinds to EndBlocker's recover. *)
Definition eb_sub (f pf : fault) (runner : fault -> state -> state * outcome * nat) (mk : fault -> op)
                  (x : eb) : eb * outcome :=
  if eb_dead x then (x, Err) else
  let g := shift (either f pf) (eb_n x) in
  let '(s', out, m) := runner g (eb_s x) in
  match first_panic pf (eb_n x) m with
  | Some i => (mkEB (eb_s x) (eb_n x + S i) (eb_tr x) true, Err)
  | None => (mkEB s' (eb_n x + m) (eb_tr x ++ [mk g]) false, out)
  end.

(** a collaborator call made by the end-blocker's own code (emitObservedEvent -> GetChainInfo) *)
Definition eb_call (f pf : fault) (x : eb) : eb * bool :=
  if eb_dead x then (x, false) else
  let n := eb_n x in
  if pf n then (mkEB (eb_s x) (S n) (eb_tr x) true, false)
  else (mkEB (eb_s x) (S n) (eb_tr x) false, negb (f n)).

Fixpoint eb_create (f pf : fault) (es : list entry) (now : Z) (x : eb) : eb * outcome :=
  match es with
  | [] => (x, Ok)
  | (c, d, _) :: r =>
      if eb_dead x then (x, Err) else
      match erc20_of (table (eb_s x)) c d with
      | None => (x, Err)
      | Some k =>
          match eb_sub f pf (fun g s => build g c k batch_size now s) (fun g => OBuild c k batch_size now g) x with
          | (x1, Ok) => eb_create f pf r now x1
          | (x1, Err) => (x1, Err)
          end
      end
  end.

Definition ev_run (e : event) (g : fault) (s : state) : state * outcome * nat :=
  match e with
  | EvExecuted c k n eth => atomically s (executed_raw g c k n eth s)
  | EvDeposit c k r a => atomically s (deposit_raw g c k r a s)
  end.
Definition ev_op (e : event) (g : fault) : op :=
  match e with
  | EvExecuted c k n eth => OExecuted c k n eth g
  | EvDeposit c k r a => ODeposit c k r a g
  end.

(** attestationTally of one chain: TryAttestation = processAttestation (the handler's error is
    logged and swallowed), then emitObservedEvent; an error of the latter ends this chain's tally
    for this block *)
Fixpoint eb_tally (f pf : fault) (evs : list event) (x : eb) : eb :=
  match evs with
  | [] => x
  | e :: r =>
      let (x1, _) := eb_sub f pf (ev_run e) (ev_op e) x in
      let (x2, ok) := eb_call f pf x1 in
      if ok then eb_tally f pf r x2 else x2
  end.

(** processGasEstimates: [ests] = the estimates the election (C04) produced, in batch store order *)
Fixpoint eb_gas (f pf : fault) (ests : list (Z * Z * Z)) (x : eb) : eb :=
  match ests with
  | [] => x
  | (k, n, est) :: r =>
      let (x1, _) := eb_sub f pf (fun g s => atomically s (set_gas_raw g k n est s)) (fun g => OSetGas k n est g) x in
      eb_gas f pf r x1
  end.

Fixpoint eb_sweep (f pf : fault) (bs : list batch) (now : Z) (x : eb) : eb * outcome :=
  match bs with
  | [] => (x, Ok)
  | b :: r =>
      if b_timeout b <? now then
        match eb_sub f pf (fun g s => cancel_batch g (b_contract b) (b_nonce b) s)
                          (fun g => OCancelBatch (b_contract b) (b_nonce b) g) x with
        | (x1, Ok) => eb_sweep f pf r now x1
        | (x1, Err) => (x1, Err)
        end
      else eb_sweep f pf r now x
  end.

Definition end_block_full (f pf : fault) (h now : Z) (groups : list (list event)) (ests : list (Z * Z * Z))
                          (s : state) : eb :=
  let x0 := mkEB s 0%nat [] false in
  let x1 := if h mod batch_period =? 0 then fst (eb_create f pf (d2e_rows (table s)) now x0) else x0 in
  let x2 := fold_left (fun x evs => eb_tally f pf evs x) groups x1 in
  let x3 := eb_gas f pf ests x2 in
  fst (eb_sweep f pf (batches (eb_s x3)) now x3).

(** *** the chain is restarted from an exported genesis.  ExportGenesis reads the WHOLE pool
    (GetUnbatchedTransactions), ALL batches (GetOutgoingTxBatches), both indexes of the denom table
    (after "fix: export the ERC20 -> denom entries of contracts a denom was mapped to before") and the
    two id counters; InitGenesis stores every batch (StoreBatch), re-adds every pool transfer
    (addUnbatchedTX) and replays the table writes.  The bank ledger (balances, escrow, supply) is the
    bank module's own genesis. *)
Definition genesis (s : state) : state :=
  set_batches (set_pool s (pool_insert_all (pool s) []))
              (fold_left (fun acc b => batch_insert b acc) (batches s) []).

Definition step3 (s : state) (o : op) : state * outcome * nat :=
  match o with
  | OSend u c d a tax lim f => atomically s (send_raw f u c d a tax lim s) (* baseapp: message in a transaction *)
  | OCancel u i f => atomically s (cancel_raw f u i s)                    (* idem *)
  | OBuild c k max now f => build f c k max now s
  | OCancelBatch k n f => cancel_batch f k n s
  | OSetGas k n est f => atomically s (set_gas_raw f k n est s)
  | OExecuted c k n eth f => atomically s (executed_raw f c k n eth s)    (* processAttestation's cached context *)
  | ODeposit c k r a f => atomically s (deposit_raw f c k r a s)          (* idem *)
  | OCreateBatch h now f => create_batch f 0%nat h now s
  | OSweep now f => sweep f 0%nat now s
  | OEndBlock h now f => end_block f h now s
  | OGov => (s, Ok, 0%nat)
  | OMapGov c d k => (map_set c d k s, Ok, 0%nat)
  | OMapAdmin c d k auth f => atomically s (map_admin_raw f c d k auth s) (* message in a transaction *)
  | OEndBlockFull h now groups ests f pf =>
      let x := end_block_full f pf h now groups ests s in (eb_s x, Ok, eb_n x)
  | OGenesis => (genesis s, Ok, 0%nat)
  end.
Definition step (s : state) (o : op) : state * outcome := fst (step3 s o).
Definition run (s : state) (ops : list op) : state := fold_left (fun s o => fst (step s o)) ops s.

Definition init (tb : list entry) (b0 : Z -> Z -> Z) (sup0 : Z -> Z) : state :=
  mkS tb [] [] b0 (fun _ => 0) (fun _ => 0) sup0 0 0 [] [].

(** the operations the Go code runs all-or-nothing *)
Definition atomic_op (o : op) : bool :=
  match o with
  | OCreateBatch _ _ _ | OSweep _ _ | OEndBlock _ _ _ | OEndBlockFull _ _ _ _ _ _ => false
  | _ => true
  end.

(** the all-or-nothing sub-steps end-of-block housekeeping is made of *)
Definition sub_op (o : op) : bool :=
  match o with
  | OBuild _ _ _ _ _ | OCancelBatch _ _ _ | OSetGas _ _ _ _ | OExecuted _ _ _ _ _ | ODeposit _ _ _ _ _ => true
  | _ => false
  end.

(** the guard under which governance may write the denom table while transfers are pending: the
    contract is not bound to ANOTHER denom on that chain (msgServer.SetERC20ToTokenDenom enforces
    "not bound at all"; the governance paths enforce nothing) *)
Definition gov_ok (s : state) (o : op) : bool :=
  match o with
  | OMapGov c d k => match denom_of (table s) c k with None => true | Some d' => d' =? d end
  | _ => true
  end.
Fixpoint guarded (s : state) (ops : list op) : bool :=
  match ops with
  | [] => true
  | o :: r => gov_ok s o && guarded (fst (step s o)) r
  end.

(** *** what the history says was attested (for the supply theorem) *)
Definition dep_amount1 (s : state) (o : op) (out : outcome) (d : Z) : Z :=
  match o, out with
  | ODeposit c k _ a _, Ok =>
      match denom_of (table s) c k with
      | Some d' => if d' =? d then a else 0
      | None => 0
      end
  | _, _ => 0
  end.
Definition contrib (tb : list entry) (d : Z) (t : transfer) : Z :=
  match tx_denom tb t with
  | Some d' => if d' =? d then owed t else 0
  | None => 0
  end.
Definition sum_for (tb : list entry) (d : Z) (l : list transfer) : Z :=
  fold_right (fun t acc => contrib tb d t + acc) 0 l.
Definition exe_amount1 (s : state) (o : op) (out : outcome) (d : Z) : Z :=
  match o, out with
  | OExecuted _ k n _ _, Ok =>
      match find_batch k n (batches s) with
      | Some b => sum_for (table s) d (b_txs b)
      | None => 0
      end
  | _, _ => 0
  end.
Fixpoint deposits_of1 (s : state) (ops : list op) (d : Z) : Z :=
  match ops with
  | [] => 0
  | o :: r => let (s', out) := step s o in dep_amount1 s o out d + deposits_of1 s' r d
  end.
Fixpoint executed_of1 (s : state) (ops : list op) (d : Z) : Z :=
  match ops with
  | [] => 0
  | o :: r => let (s', out) := step s o in exe_amount1 s o out d + executed_of1 s' r d
  end.
(** a whole end-block contributes what the attestation handlers it ran contributed *)
Definition dep_amount (s : state) (o : op) (out : outcome) (d : Z) : Z :=
  match o with
  | OEndBlockFull h now groups ests f pf => deposits_of1 s (eb_tr (end_block_full f pf h now groups ests s)) d
  | _ => dep_amount1 s o out d
  end.
Definition exe_amount (s : state) (o : op) (out : outcome) (d : Z) : Z :=
  match o with
  | OEndBlockFull h now groups ests f pf => executed_of1 s (eb_tr (end_block_full f pf h now groups ests s)) d
  | _ => exe_amount1 s o out d
  end.
Fixpoint deposits_of (s : state) (ops : list op) (d : Z) : Z :=
  match ops with
  | [] => 0
  | o :: r => let (s', out) := step s o in dep_amount s o out d + deposits_of s' r d
  end.
Fixpoint executed_of (s : state) (ops : list op) (d : Z) : Z :=
  match ops with
  | [] => 0
  | o :: r => let (s', out) := step s o in exe_amount s o out d + executed_of s' r d
  end.

(** *** vocabulary of the property *)
Definition pending (s : state) : list transfer := pool s ++ flat_map b_txs (batches s).
Definition pool_ids (s : state) : list Z := map t_id (pool s).
Definition batch_ids (s : state) : list Z := map t_id (flat_map b_txs (batches s)).
Definition accepted (s : state) (i : Z) : Prop := 1 <= i <= last_tx s.
Definition occ (l : list Z) (i : Z) : nat := count_occ Z.eq_dec l i.

(** the table's two indexes agree: what DenomToERC20 says about (chain, denom) ERC20ToDenom says back *)
Definition table_wf (tb : list entry) : Prop :=
  forall c d k, erc20_of tb c d = Some k -> denom_of tb c k = Some d.
