(** C02 — proofs about the oracle model (Skyway/Oracle.v), for all histories. *)
From Coq Require Import List ZArith Bool Lia Sorted.
From Paloma Require Import Base.Num Skyway.Oracle.
From Paloma Require Gen.C02.
Import ListNotations.
Open Scope Z_scope.

(** * What the proofs need from the translated source.  Each is closed by [reflexivity] on the
    regenerated constants: when the source stops saying this, the file stops compiling. *)
Lemma src_dedup : Gen.C02.vote_dedup = true. Proof. reflexivity. Qed.
Lemma src_height_first : Gen.C02.height_before_cursor = true. Proof. reflexivity. Qed.
Lemma src_strict : Gen.C02.threshold_strict = true. Proof. reflexivity. Qed.
Lemma src_num : Gen.C02.threshold_num = 66. Proof. reflexivity. Qed.
Lemma src_den : Gen.C02.threshold_den = 100. Proof. reflexivity. Qed.
Lemma src_keep : Gen.C02.events_to_keep = 1000. Proof. reflexivity. Qed.
Lemma src_abort : Gen.C02.tally_aborts_on_error = true. Proof. reflexivity. Qed.
Lemma src_bonded : Gen.C02.vote_requires_bonded = true. Proof. reflexivity. Qed.
Lemma src_creator : Gen.C02.creator_bound_deposit = true /\ Gen.C02.creator_bound_batch = true /\ Gen.C02.creator_bound_sale = true.
Proof. repeat split; reflexivity. Qed.
Lemma creator_bound_true k : creator_bound k = true.
Proof. unfold creator_bound. destruct src_creator as (A & B & C). rewrite A, B, C. destruct (k =? 0), (k =? 1), (k =? 2); reflexivity. Qed.

(** * Lists, maps *)
Lemma mem_In v l : mem v l = true <-> In v l.
Proof.
  induction l as [|x r IH]; simpl; [split; [discriminate | tauto]|].
  rewrite orb_true_iff, IH, Z.eqb_eq. split; intros [H|H]; auto.
Qed.

Lemma add_vote_In l v x : In x (add_vote l v) <-> In x l \/ x = v.
Proof.
  unfold add_vote. rewrite src_dedup. simpl.
  destruct (mem v l) eqn:E.
  - apply mem_In in E. split; [auto | intros [H|H]; subst; auto].
  - rewrite in_app_iff. simpl. split; intros [H|H]; auto.
    + destruct H as [H|[]]; auto.
Qed.

Lemma NoDup_snoc {A} (l : list A) x : NoDup l -> ~ In x l -> NoDup (l ++ [x]).
Proof.
  induction l as [|y r IH]; simpl; intros ND NI.
  - constructor; [tauto | constructor].
  - inversion ND; subst. constructor.
    + rewrite in_app_iff. simpl. intros [H|[H|[]]]; subst; tauto.
    + apply IH; tauto.
Qed.

Lemma add_vote_NoDup l v : NoDup l -> NoDup (add_vote l v).
Proof.
  intros ND. unfold add_vote. rewrite src_dedup. simpl.
  destruct (mem v l) eqn:E; [exact ND|].
  apply NoDup_snoc; [exact ND|]. intros H. apply mem_In in H. congruence.
Qed.

Lemma NoDup_app_l {A} (l1 l2 : list A) : NoDup (l1 ++ l2) -> NoDup l1.
Proof.
  induction l1 as [|x r IH]; simpl; intros H; [constructor|].
  inversion H; subst. constructor; [rewrite in_app_iff in *; tauto | auto].
Qed.

Lemma NoDup_map_inj_In {A B} (f : A -> B) l x y :
  NoDup (map f l) -> In x l -> In y l -> f x = f y -> x = y.
Proof.
  induction l as [|a r IH]; simpl; intros ND Hx Hy E; [tauto|].
  inversion ND as [|? ? NI ND']; subst.
  destruct Hx as [Hx|Hx], Hy as [Hy|Hy]; subst; auto.
  - exfalso. apply NI. rewrite E. now apply in_map.
  - exfalso. apply NI. rewrite <- E. now apply in_map.
Qed.

Lemma NoDup_map_finer {A B C} (f : A -> B) (g : A -> C) l :
  (forall x y, g x = g y -> f x = f y) -> NoDup (map f l) -> NoDup (map g l).
Proof.
  intros Hfg. induction l as [|a r IH]; simpl; intros ND; [constructor|].
  inversion ND as [|? ? NI ND']; subst. constructor; [|auto].
  intros H. apply in_map_iff in H as [y [E Hy]]. apply NI.
  apply in_map_iff. exists y. split; [now apply Hfg | exact Hy].
Qed.

Lemma keyeqb_true n h n' h' : keyeqb n h n' h' = true <-> n = n' /\ h = h'.
Proof. unfold keyeqb. rewrite andb_true_iff, !Z.eqb_eq. tauto. Qed.

Lemma get_att_In l n h a : get_att l n h = Some a -> In (n, h, a) l.
Proof.
  induction l as [|[[n' h'] a'] r IH]; simpl; [discriminate|].
  destruct (keyeqb n h n' h') eqn:E.
  - apply keyeqb_true in E as [-> ->]. intros H; inversion H; subst. now left.
  - intros H. right. auto.
Qed.

Lemma set_att_In l n h a x : In x (set_att l n h a) -> x = (n, h, a) \/ In x l.
Proof.
  induction l as [|[[n' h'] a'] r IH]; simpl.
  - intros [H|[]]; auto.
  - destruct (keyeqb n h n' h'); [|destruct (keyltb n h n' h')]; simpl.
    + intros [H|H]; auto.
    + intros [H|[H|H]]; auto.
    + intros [H|H]; auto. apply IH in H as [H|H]; auto.
Qed.

Lemma zget0_zset l k x k' : zget0 (zset l k x) k' = if k' =? k then x else zget0 l k'.
Proof.
  unfold zget0. induction l as [|[k0 x0] r IH]; simpl.
  - destruct (k' =? k); reflexivity.
  - destruct (k =? k0) eqn:E0; [|destruct (k <? k0) eqn:E1]; simpl.
    + apply Z.eqb_eq in E0; subst. destruct (k' =? k0); reflexivity.
    + destruct (k' =? k) eqn:E2; [reflexivity|]. reflexivity.
    + destruct (k' =? k0) eqn:E2.
      * apply Z.eqb_eq in E2; subst. rewrite Z.eqb_sym, E0. reflexivity.
      * exact IH.
Qed.

Lemma zseq_snoc c k : zseq c k ++ [c + Z.of_nat k] = zseq c (S k).
Proof.
  revert c. induction k as [|k IH]; intros c.
  - simpl. now rewrite Z.add_0_r.
  - change (zseq c (S k)) with (c :: zseq (c + 1) k).
    change (zseq c (S (S k))) with (c :: zseq (c + 1) (S k)).
    simpl app. f_equal. rewrite <- IH. f_equal. f_equal. lia.
Qed.

Lemma In_zseq x c k : In x (zseq c k) -> c <= x < c + Z.of_nat k.
Proof.
  revert c. induction k as [|k IH]; intros c; simpl; [tauto|].
  intros [H|H]; [lia|]. apply IH in H. lia.
Qed.

Lemma NoDup_zseq c k : NoDup (zseq c k).
Proof.
  revert c. induction k as [|k IH]; intros c; simpl; constructor; [|apply IH].
  intros H. apply In_zseq in H. lia.
Qed.

(** zseq is "consecutive": each element is its predecessor plus one. *)
Lemma zseq_consecutive c k l1 a b l2 : zseq c k = l1 ++ a :: b :: l2 -> b = a + 1.
Proof.
  revert c l1. induction k as [|k IH]; intros c l1 E.
  - destruct l1; discriminate.
  - simpl in E. destruct l1 as [|x l1]; simpl in E.
    + inversion E as [[E1 E2]]. destruct k; simpl in E2; [discriminate|]. inversion E2; lia.
    + inversion E as [[E1 E2]]. eapply IH; eauto.
Qed.

Lemma u64_succ x : 0 <= x < two64 -> 1 <= u64 (x + 1) -> u64 (x + 1) = x + 1.
Proof.
  intros Hx H1. unfold u64 in *.
  destruct (Z.eq_dec (x + 1) two64) as [E|NE].
  - rewrite E, Z.mod_same in H1; [lia | unfold two64; lia].
  - apply Z.mod_small. lia.
Qed.

Lemma u64_range x : 0 <= u64 x < two64.
Proof. unfold u64. apply Z.mod_pos_bound. unfold two64; lia. Qed.


Lemma zget_zset l k x k' : zget (zset l k x) k' = if k' =? k then Some x else zget l k'.
Proof.
  induction l as [|[k0 x0] r IH]; simpl.
  - destruct (k' =? k); reflexivity.
  - destruct (k =? k0) eqn:E0; [|destruct (k <? k0) eqn:E1]; simpl.
    + apply Z.eqb_eq in E0; subst. destruct (k' =? k0); reflexivity.
    + destruct (k' =? k) eqn:E2; reflexivity.
    + destruct (k' =? k0) eqn:E2.
      * apply Z.eqb_eq in E2; subst. rewrite Z.eqb_sym, E0. reflexivity.
      * exact IH.
Qed.

(** ** the attestation store is sorted by (nonce, hash), as the KV store iterates it *)
Definition klt (x y : Z * Z * att) : Prop :=
  keyltb (fst (fst x)) (snd (fst x)) (fst (fst y)) (snd (fst y)) = true.

Lemma keyltb_true n h n' h' : keyltb n h n' h' = true <-> n < n' \/ (n = n' /\ h < h').
Proof. unfold keyltb. rewrite orb_true_iff, andb_true_iff, !Z.ltb_lt, Z.eqb_eq. tauto. Qed.

Lemma klt_spec x y : klt x y <-> fst (fst x) < fst (fst y) \/ (fst (fst x) = fst (fst y) /\ snd (fst x) < snd (fst y)).
Proof. unfold klt. apply keyltb_true. Qed.

Lemma klt_trans x y z : klt x y -> klt y z -> klt x z.
Proof. rewrite !klt_spec. lia. Qed.

Lemma filter_sorted {A} (R : A -> A -> Prop) f l : StronglySorted R l -> StronglySorted R (filter f l).
Proof.
  induction 1 as [|a l S IH F]; simpl; [constructor|].
  destruct (f a); [|exact IH]. constructor; [exact IH|].
  rewrite Forall_forall in *. intros x Hx. apply filter_In in Hx as [Hx _]. auto.
Qed.

Lemma set_att_sorted l n h a : StronglySorted klt l -> StronglySorted klt (set_att l n h a).
Proof.
  induction 1 as [|[[n' h'] a'] l S IH F]; simpl; [repeat constructor|].
  destruct (keyeqb n h n' h') eqn:E; [|destruct (keyltb n h n' h') eqn:L].
  - apply keyeqb_true in E as [-> ->]. constructor; [exact S|].
    rewrite Forall_forall in *. intros x Hx. specialize (F x Hx). rewrite klt_spec in *. simpl in *. exact F.
  - constructor; [constructor; assumption|]. constructor.
    + unfold klt. simpl. exact L.
    + rewrite Forall_forall in *. intros x Hx. apply (klt_trans _ (n', h', a')); [unfold klt; simpl; exact L | auto].
  - constructor; [exact IH|]. rewrite Forall_forall in *. intros x Hx.
    apply set_att_In in Hx as [->|Hx]; [|auto].
    rewrite klt_spec. simpl.
    assert (E' : ~ (n = n' /\ h = h')) by (rewrite <- keyeqb_true; congruence).
    assert (L' : ~ (n < n' \/ (n = n' /\ h < h'))) by (rewrite <- keyltb_true; congruence).
    lia.
Qed.

Lemma sorted_unique l n h a a' : StronglySorted klt l -> In (n, h, a) l -> In (n, h, a') l -> a = a'.
Proof.
  induction 1 as [|x l S IH F]; simpl; [tauto|].
  rewrite Forall_forall in F.
  intros [H1|H1] [H2|H2].
  - congruence.
  - subst x. specialize (F _ H2). rewrite klt_spec in F. simpl in F. lia.
  - subst x. specialize (F _ H1). rewrite klt_spec in F. simpl in F. lia.
  - auto.
Qed.

Lemma set_att_keeps l n h a n0 h0 a0 :
  In (n0, h0, a0) l -> (n0 = n /\ h0 = h) \/ In (n0, h0, a0) (set_att l n h a).
Proof.
  induction l as [|[[n' h'] a'] r IH]; simpl; [tauto|].
  intros [H|H].
  - inversion H; subst. destruct (keyeqb n h n0 h0) eqn:E.
    + apply keyeqb_true in E as [-> ->]. now left.
    + right. destruct (keyltb n h n0 h0); simpl; auto.
  - destruct (IH H) as [K|K]; [now left|]. right.
    destruct (keyeqb n h n' h') eqn:E.
    + (* the head is replaced; (n0,h0,a0) is in the tail *) simpl. now right.
    + destruct (keyltb n h n' h'); simpl; auto.
Qed.

(** ** pending batches *)
Lemma bkeyb_true tok bn b : bkeyb tok bn b = true <-> fst (fst b) = tok /\ snd (fst b) = bn.
Proof. unfold bkeyb. rewrite andb_true_iff, !Z.eqb_eq. tauto. Qed.

Lemma bget_Some l tok bn t : bget l tok bn = Some t -> In (tok, bn, t) l.
Proof.
  induction l as [|[[t0 b0] x0] r IH]; simpl; [discriminate|].
  destruct (bkeyb tok bn (t0, b0, x0)) eqn:E.
  - apply bkeyb_true in E as [E1 E2]. simpl in *. subst. intros H; inversion H; subst. now left.
  - intros H. right. auto.
Qed.

Lemma bget_None l tok bn : bget l tok bn = None <-> forall b, In b l -> bkeyb tok bn b = false.
Proof.
  induction l as [|b0 r IH]; simpl; [split; [tauto | reflexivity]|].
  destruct (bkeyb tok bn b0) eqn:E.
  - split; [discriminate|]. intros H. specialize (H b0 (or_introl eq_refl)). congruence.
  - rewrite IH. split; [intros H b [->|Hb]; auto | intros H b Hb; auto].
Qed.

Lemma bget_bdel_same l tok bn : bget (bdel l tok bn) tok bn = None.
Proof.
  apply bget_None. intros b Hb. unfold bdel in Hb. apply filter_In in Hb as [_ Hb].
  now apply negb_true_iff in Hb.
Qed.

Lemma bget_bdel_None l tok bn tok' bn' : bget l tok' bn' = None -> bget (bdel l tok bn) tok' bn' = None.
Proof.
  rewrite !bget_None. intros H b Hb. unfold bdel in Hb. apply filter_In in Hb as [Hb _]. auto.
Qed.

Lemma bget_app_None l b tok bn : bget l tok bn = None -> bkeyb tok bn b = false -> bget (l ++ [b]) tok bn = None.
Proof.
  rewrite !bget_None. intros H Hb x Hx. apply in_app_iff in Hx as [Hx|[<-|[]]]; auto.
Qed.

(** ** what [fire] writes, whatever the handler does *)
Lemma fire_proj s a : let c := a_claim a in
  atts (fire s a) = set_att (atts s) (c_nonce c) (c_h c) (mkAtt (a_votes a) true c) /\
  last_obs (fire s a) = c_nonce c /\ last_height (fire s a) = c_height c /\
  vnonce (fire s a) = vnonce s /\ compass (fire s a) = compass s /\ pw (fire s a) = pw s /\
  total (fire s a) = total s /\ bonded (fire s a) = bonded s /\ epoch (fire s a) = epoch s /\
  epoch_cursor (fire s a) = epoch_cursor s /\ last_batch (fire s a) = last_batch s /\
  applied (fire s a) = applied s ++ [mkEntry (epoch s) c (applicable s c)].
Proof.
  unfold fire, effect. destruct (applicable s (a_claim a));
    [destruct (c_kind (a_claim a) =? 0); [|destruct (c_kind (a_claim a) =? 1)]|]; simpl; repeat split.
Qed.

Lemma fire_bal s a r : let c := a_claim a in
  zget0 (bal (fire s a)) r = zget0 (bal s) r + (if applicable s c && (c_kind c =? 0) && (c_rcv c =? r) then c_amt c else 0).
Proof.
  unfold fire, effect. destruct (applicable s (a_claim a)); simpl; [|lia].
  destruct (c_kind (a_claim a) =? 0); simpl; [|destruct (c_kind (a_claim a) =? 1); simpl; lia].
  unfold badd. rewrite zget0_zset, (Z.eqb_sym r). destruct (c_rcv (a_claim a) =? r) eqn:E; [|lia].
  apply Z.eqb_eq in E. subst r. lia.
Qed.

(** * The tally fires only on a prefix of distinct... of the vote list whose power exceeds the requirement *)
Lemma fire_prefix_spec p req votes : forall acc vs,
  fire_prefix p req acc votes = Some vs ->
  exists rest, votes = vs ++ rest /\ exceeds req (acc + power p vs) = true.
Proof.
  induction votes as [|v r IH]; simpl; intros acc vs H; [discriminate|].
  destruct (exceeds req (acc + zget0 p v)) eqn:E.
  - inversion H; subst. exists r. split; [reflexivity|].
    unfold power. simpl. now rewrite Z.add_0_r.
  - destruct (fire_prefix p req (acc + zget0 p v) r) as [vs'|] eqn:F; [|discriminate].
    inversion H; subst. apply IH in F as [rest [-> Hex]].
    exists rest. split; [reflexivity|].
    unfold power in *. simpl. now rewrite Z.add_assoc.
Qed.

(** [sum > 66*T quot 100] is exactly [100*sum > 66*T] (for every sign of T). *)
Lemma exceeds_required s x : exceeds (required s) x = true -> 100 * x > 66 * total s.
Proof.
  unfold exceeds, required. rewrite src_strict, src_num, src_den. intros H. apply Z.ltb_lt in H.
  pose proof (Z.quot_rem' (66 * total s) 100) as E.
  pose proof (Z.rem_bound_abs (66 * total s) 100 ltac:(lia)). lia.
Qed.

(** * try_att: either nothing changes or the attestation fires. *)
Definition fires_in (s : state) (a : att) (vs : list Z) : Prop :=
  exists rest, a_votes a = vs ++ rest /\ exceeds (required s) (power (pw s) vs) = true /\
    a_obs a = false /\ c_nonce (a_claim a) = u64 (last_obs s + 1) /\ last_height s <= c_height (a_claim a).

Lemma try_att_cases s a :
  fst (try_att s a) = s \/ (exists vs, fires_in s a vs /\ try_att s a = (fire s a, true)).
Proof.
  unfold try_att. rewrite src_height_first.
  destruct (a_obs a) eqn:Eo; [now left|].
  destruct (fire_prefix (pw s) (required s) 0 (a_votes a)) as [vs|] eqn:F; [|now left].
  destruct (c_nonce (a_claim a) =? u64 (last_obs s + 1)) eqn:En; simpl; [|now left].
  destruct (last_height s >? c_height (a_claim a)) eqn:Eh; [now left|].
  right. exists vs. split; [|reflexivity].
  apply fire_prefix_spec in F as [rest [Hv Hex]]. exists rest.
  apply Z.eqb_eq in En. rewrite Z.gtb_ltb in Eh. apply Z.ltb_ge in Eh. simpl in Hex. auto.
Qed.

(** Loop principle: whatever is preserved by every firing of an attestation of the snapshot is
    preserved by the tally. *)
Lemma tally_loop_inv (Q : state -> Prop) l : forall s,
  (forall s1 n h a vs, In (n, h, a) l -> Q s1 -> fires_in s1 a vs -> Q (fire s1 a)) ->
  Q s -> Q (fst (tally_loop l s)).
Proof.
  induction l as [|[[n h] a] r IH]; intros s Hstep HQ; simpl; [exact HQ|].
  assert (Hr : forall s1 n h a vs, In (n, h, a) r -> Q s1 -> fires_in s1 a vs -> Q (fire s1 a)).
  { intros s1 n0 h0 a0 vs0 Hi Hq Hf. apply (Hstep s1 n0 h0 a0 vs0); [right; exact Hi | exact Hq | exact Hf]. }
  destruct (n =? u64 (last_obs s + 1)); [|now apply IH].
  destruct (try_att_cases s a) as [E|[vs [Hf E]]].
  - destruct (try_att s a) as [s' b]; simpl in E; subst s'. destruct b; [now apply IH | exact HQ].
  - rewrite E. apply IH; [exact Hr|]. apply (Hstep s n h a vs); [left; reflexivity | exact HQ | exact Hf].
Qed.

(** * State invariant (oracle core) *)
Definition key2 (e : entry) : Z * Z := (e_epoch e, e_nonce e).
Definition key3 (e : entry) : Z * Z * Z := (e_epoch e, e_nonce e, c_h (e_claim e)).

Record Inv (s : state) : Prop := {
  inv_nodup : forall n h a, In (n, h, a) (atts s) -> NoDup (a_votes a);
  inv_key : forall n h a, In (n, h, a) (atts s) -> c_nonce (a_claim a) = n /\ c_h (a_claim a) = h;
  inv_valid : forall n h a, In (n, h, a) (atts s) -> 1 <= n < two64;
  inv_sorted : StronglySorted klt (atts s);
  inv_last : 0 <= last_obs s < two64;
  inv_epoch : forall e, In e (applied s) -> e_epoch e <= epoch s;
  inv_seq : forall ep, exists c k, nonces_of_epoch ep (applied s) = zseq (c + 1) k /\
              (ep = epoch s -> c = epoch_cursor s /\ last_obs s = c + Z.of_nat k);
  inv_key2 : NoDup (map key2 (applied s));
  inv_bal : forall r, zget0 (bal s) r = minted r (applied s)
}.

Lemma Inv_init : Inv init.
Proof.
  constructor; simpl; try tauto.
  - constructor.
  - unfold two64; lia.
  - intros ep. exists 0, O. simpl. split; [reflexivity|]. intros _. split; reflexivity.
  - constructor.
Qed.

Lemma nonces_of_epoch_snoc ep l e :
  nonces_of_epoch ep (l ++ [e]) = nonces_of_epoch ep l ++ (if e_epoch e =? ep then [e_nonce e] else []).
Proof.
  unfold nonces_of_epoch. rewrite filter_app, map_app. simpl.
  destruct (e_epoch e =? ep); reflexivity.
Qed.

Lemma In_nonces_of_epoch e l : In e l -> In (e_nonce e) (nonces_of_epoch (e_epoch e) l).
Proof.
  intros H. unfold nonces_of_epoch. apply in_map. apply filter_In. split; [exact H | apply Z.eqb_refl].
Qed.

Lemma minted_snoc r l e :
  minted r (l ++ [e]) = minted r l +
    (if e_ok e && (c_kind (e_claim e) =? 0) && (c_rcv (e_claim e) =? r) then c_amt (e_claim e) else 0).
Proof. unfold minted. rewrite map_app, zsum_app. simpl. lia. Qed.

(** Firing an attestation of the store keeps the invariant. *)
Lemma Inv_fire s a vs n h :
  Inv s -> NoDup (a_votes a) -> c_nonce (a_claim a) = n -> c_h (a_claim a) = h -> 1 <= n < two64 ->
  fires_in s a vs -> Inv (fire s a).
Proof.
  intros I ND Kn Kh Vn (rest & Hv & Hex & Ho & Hn & Hh).
  assert (Hnext : c_nonce (a_claim a) = last_obs s + 1).
  { rewrite Hn. apply u64_succ; [apply I|]. rewrite <- Hn. lia. }
  destruct (inv_seq s I (epoch s)) as (c & k & Hseq & Hcur). destruct (Hcur eq_refl) as [Hc Hl].
  destruct (fire_proj s a) as (Fa & Fl & Fh & Fv & Fc & Fp & Ft & Fb & Fe & Fec & Flb & Fap).
  constructor; rewrite ?Fa, ?Fl, ?Fe, ?Fec, ?Fap.
  - intros n0 h0 a0 H. apply set_att_In in H as [H|H]; [inversion H; subst; exact ND | eapply inv_nodup; eauto].
  - intros n0 h0 a0 H. apply set_att_In in H as [H|H]; [inversion H; subst; simpl; auto | eapply inv_key; eauto].
  - intros n0 h0 a0 H. apply set_att_In in H as [H|H]; [inversion H; subst; lia | eapply inv_valid; eauto].
  - apply set_att_sorted. apply I.
  - lia.
  - intros e H. apply in_app_iff in H as [H|[H|[]]]; [now apply I | subst; simpl; lia].
  - intros ep. rewrite nonces_of_epoch_snoc. simpl.
    destruct (epoch s =? ep) eqn:E.
    + apply Z.eqb_eq in E. subst ep. exists c, (S k). rewrite Hseq. split.
      * rewrite <- zseq_snoc. f_equal. f_equal. unfold e_nonce. simpl. lia.
      * intros _. split; [exact Hc | lia].
    + apply Z.eqb_neq in E. destruct (inv_seq s I ep) as (c' & k' & Hs' & _).
      exists c', k'. rewrite app_nil_r. split; [exact Hs' | intros; congruence].
  - rewrite map_app. simpl. apply NoDup_snoc; [apply I|].
    intros H. apply in_map_iff in H as [e [Ek He]]. unfold key2 in Ek. simpl in Ek.
    inversion Ek as [[Ee En]]. pose proof (In_nonces_of_epoch e _ He) as Hin.
    rewrite Ee, Hseq in Hin. apply In_zseq in Hin. unfold e_nonce in En at 2. simpl in En. lia.
  - intros r. rewrite minted_snoc, fire_bal. simpl. rewrite <- (inv_bal s I r). reflexivity.
Qed.

Lemma Inv_tally s : Inv s -> Inv (fst (tally s)).
Proof.
  intros I. unfold tally. apply tally_loop_inv; [|exact I].
  intros s1 n h a vs Hin I1 Hf. apply filter_In in Hin as [Hin _].
  destruct (inv_key s I _ _ _ Hin) as [Kn Kh].
  apply (Inv_fire s1 a vs n h I1); [exact (inv_nodup s I _ _ _ Hin) | exact Kn | exact Kh | exact (inv_valid s I _ _ _ Hin) | exact Hf].
Qed.

Lemma vote_ok_parts s sg v known c : vote_ok s sg v known c = true ->
  sg = v /\ known = true /\ mem v (bonded s) = true /\ batch_precheck s c = true /\ valid_claim c = true /\
  c_nonce c = u64 (val_last s v + 1) /\ c_height (a_claim (vote_att s c)) = c_height c.
Proof.
  unfold vote_ok. rewrite src_bonded, creator_bound_true. simpl. rewrite !andb_true_iff, !Z.eqb_eq. tauto.
Qed.

Lemma Inv_vote s sg v known c : Inv s -> Inv (vote s sg v known c).
Proof.
  intros I. unfold vote. destruct (vote_ok s sg v known c) eqn:Ok; [|exact I].
  apply vote_ok_parts in Ok as (_ & _ & _ & _ & Hv & _ & _).
  assert (Hva : forall a, vote_att s c = a -> NoDup (a_votes a) /\ c_nonce (a_claim a) = c_nonce c /\ c_h (a_claim a) = c_h c).
  { intros a <-. unfold vote_att. destruct (get_att (atts s) (c_nonce c) (c_h c)) as [a0|] eqn:G.
    - apply get_att_In in G. destruct (inv_key s I _ _ _ G). split; [eapply inv_nodup; eauto | auto].
    - simpl. split; [constructor | auto]. }
  destruct (Hva _ eq_refl) as (ND & Kn & Kh).
  unfold valid_claim in Hv. apply andb_true_iff in Hv as [V1 V2].
  apply Z.leb_le in V1. apply Z.ltb_lt in V2.
  constructor; simpl; try apply I.
  - intros n h a H. apply set_att_In in H as [H|H]; [inversion H; subst; simpl; now apply add_vote_NoDup | eapply inv_nodup; eauto].
  - intros n h a H. apply set_att_In in H as [H|H]; [inversion H; subst; simpl; auto | eapply inv_key; eauto].
  - intros n h a H. apply set_att_In in H as [H|H]; [inversion H; subst; lia | eapply inv_valid; eauto].
  - apply set_att_sorted. apply I.
Qed.

Lemma Inv_prune s : Inv s -> Inv (prune s).
Proof.
  intros I. unfold prune. destruct (last_obs s <=? events_to_keep); [exact I|].
  constructor; simpl; try apply I.
  - intros n h a H. apply filter_In in H as [H _]. eapply inv_nodup; eauto.
  - intros n h a H. apply filter_In in H as [H _]. eapply inv_key; eauto.
  - intros n h a H. apply filter_In in H as [H _]. eapply inv_valid; eauto.
  - apply filter_sorted. apply I.
Qed.

Lemma Inv_regenesis s : Inv s -> Inv (regenesis s).
Proof.
  intros I. constructor; unfold regenesis; simpl; try apply I.
  - intros n h a H. apply filter_In in H as [H _]. eapply inv_nodup; eauto.
  - intros n h a H. apply filter_In in H as [H _]. eapply inv_key; eauto.
  - intros n h a H. apply filter_In in H as [H _]. eapply inv_valid; eauto.
  - apply filter_sorted. apply I.
Qed.

Lemma nonces_of_later_epoch ep0 ep l :
  (forall e, In e l -> e_epoch e <= ep0) -> ep0 < ep -> nonces_of_epoch ep l = [].
Proof.
  intros Hl Hlt. unfold nonces_of_epoch. induction l as [|e r IH]; simpl; [reflexivity|].
  destruct (e_epoch e =? ep) eqn:E.
  - apply Z.eqb_eq in E. specialize (Hl e (or_introl eq_refl)). lia.
  - apply IH. intros; apply Hl; now right.
Qed.

Lemma Inv_override s n cid : Inv s -> 0 <= n < two64 -> Inv (override s n cid).
Proof.
  intros I Hn. constructor; unfold override; simpl; try apply I.
  - exact Hn.
  - intros e H. apply (inv_epoch s I) in H. lia.
  - intros ep. destruct (Z.eq_dec ep (epoch s + 1)) as [E|NE].
    + exists n, O. split; [|intros _; split; [reflexivity | simpl; lia]].
      subst ep. rewrite (nonces_of_later_epoch (epoch s)); [reflexivity | apply I | lia].
    + destruct (inv_seq s I ep) as (c & k & Hs & _). exists c, k. split; [exact Hs | intros; congruence].
Qed.

Lemma Inv_step s o : Inv s -> Inv (step s o).
Proof.
  intros I. destruct o; simpl.
  - now apply Inv_vote.
  - now apply Inv_tally.
  - now apply Inv_prune.
  - constructor; simpl; apply I.
  - constructor; simpl; apply I.
  - constructor; simpl; apply I.
  - apply Inv_override; [exact I | apply u64_range].
  - apply Inv_override; [exact I | unfold two64; lia].
  - unfold mk_batch. destruct (last_batch s <? bn); [constructor; simpl; apply I | exact I].
  - constructor; simpl; apply I.
  - now apply Inv_regenesis.
Qed.

Lemma run_snoc ops o : run (ops ++ [o]) = step (run ops) o.
Proof. unfold run. now rewrite fold_left_app. Qed.

Lemma Inv_run ops : Inv (run ops).
Proof.
  induction ops as [|o ops IH] using rev_ind; [exact Inv_init|].
  rewrite run_snoc. now apply Inv_step.
Qed.

Lemma Inv_fold ops : forall s, Inv s -> Inv (fold_left step ops s).
Proof. induction ops as [|o ops IH]; simpl; intros s I; [exact I | apply IH, Inv_step, I]. Qed.

(** * Clauses that follow from the state invariant *)

(** Within one reset epoch at most one claim per nonce takes effect. *)
Lemma one_claim_per_nonce_run ops e1 e2 :
  In e1 (applied (run ops)) -> In e2 (applied (run ops)) ->
  e_epoch e1 = e_epoch e2 -> e_nonce e1 = e_nonce e2 -> e1 = e2.
Proof.
  intros H1 H2 Ee En. apply (NoDup_map_inj_In key2 (applied (run ops))); auto.
  - apply Inv_run.
  - unfold key2. congruence.
Qed.

(** No (epoch, nonce, claim hash) takes effect twice. *)
Lemma applied_at_most_once_run ops : NoDup (map key3 (applied (run ops))).
Proof.
  apply (NoDup_map_finer key2 key3); [|apply Inv_run].
  intros x y E. unfold key2, key3 in *. congruence.
Qed.

(** The claims that took effect in an epoch are at consecutive nonces, starting right after the
    value the cursor was given by the reset that opened the epoch, and the cursor of the running
    epoch is the nonce of the last of them: it never moves without a claim taking effect. *)
Lemma applied_consecutive_run ops ep :
  exists c k, nonces_of_epoch ep (applied (run ops)) = zseq (c + 1) k /\
    (ep = epoch (run ops) -> c = epoch_cursor (run ops) /\ last_obs (run ops) = c + Z.of_nat k).
Proof. apply Inv_run. Qed.

Lemma applied_consecutive_pairs ops ep l1 a b l2 :
  nonces_of_epoch ep (applied (run ops)) = l1 ++ a :: b :: l2 -> b = a + 1.
Proof.
  destruct (applied_consecutive_run ops ep) as (c & k & E & _). rewrite E.
  apply zseq_consecutive.
Qed.

(** What the bank holds for a receiver is the sum over the effect log: every deposit that took
    effect and can be applied (registered token) paid exactly once, nothing else paid. *)
Lemma effects_exactly_once_run ops r : zget0 (bal (run ops)) r = minted r (applied (run ops)).
Proof. apply Inv_run. Qed.

(** * Frame: what a tally does not touch, and where its new effects come from *)
Definition tally_frame (s0 s1 : state) : Prop :=
  pw s1 = pw s0 /\ total s1 = total s0 /\ epoch s1 = epoch s0 /\ epoch_cursor s1 = epoch_cursor s0 /\
  vnonce s1 = vnonce s0 /\ compass s1 = compass s0 /\ bonded s1 = bonded s0 /\ last_batch s1 = last_batch s0.

Definition atts_from (s0 s1 : state) : Prop :=
  forall n h a, In (n, h, a) (atts s1) ->
    exists a0, In (n, h, a0) (atts s0) /\ a_votes a = a_votes a0 /\ a_claim a = a_claim a0.

(** A new effect of a tally: an attestation of the pre-tally store, a prefix of its vote list whose
    power (under the powers of that moment) exceeds the requirement. *)
Definition effect_witness (s0 : state) (e : entry) : Prop :=
  exists n h a vs rest, In (n, h, a) (atts s0) /\ e_claim e = a_claim a /\ e_epoch e = epoch s0 /\
    a_votes a = vs ++ rest /\ exceeds (required s0) (power (pw s0) vs) = true /\
    in_compass s0 (n, h, a) = true.

Lemma tally_facts s0 : Inv s0 ->
  let s1 := fst (tally s0) in
  tally_frame s0 s1 /\ atts_from s0 s1 /\
  (forall e, In e (applied s1) -> In e (applied s0) \/ effect_witness s0 e) /\
  incl (applied s0) (applied s1).
Proof.
  intros I. unfold tally.
  apply (tally_loop_inv (fun s1 => tally_frame s0 s1 /\ atts_from s0 s1 /\
          (forall e, In e (applied s1) -> In e (applied s0) \/ effect_witness s0 e) /\
          incl (applied s0) (applied s1))).
  - intros s1 n h a vs Hin (Fr & Af & Ap & Inc) (rest & Hv & Hex & _). apply filter_In in Hin as [Hin Hcomp].
    destruct Fr as (Fp & Ft & Fe & Fc & Fv & Fm & Fbo & Flb).
    destruct (inv_key s0 I _ _ _ Hin) as [Kn Kh].
    destruct (fire_proj s1 a) as (Ga & Gl & Gh & Gv & Gc & Gp & Gt & Gb & Ge & Gec & Glb & Gap).
    split; [|split; [|split]].
    + unfold tally_frame. rewrite Gp, Gt, Ge, Gec, Gv, Gc, Gb, Glb. auto 10.
    + intros n1 h1 a1 H. rewrite Ga in H. apply set_att_In in H as [H|H].
      * inversion H; subst. exists a. simpl. auto.
      * now apply Af.
    + intros e H. rewrite Gap in H. apply in_app_iff in H as [H|[H|[]]]; [now apply Ap|].
      right. subst e. exists n, h, a, vs, rest. simpl.
      unfold required in *. rewrite Ft, Fp in Hex. auto 10.
    + rewrite Gap. intros e H. apply in_app_iff. left. now apply Inc.
  - split; [|split; [|split]].
    + unfold tally_frame. auto 10.
    + intros n h a H. exists a. auto.
    + auto.
    + apply incl_refl.
Qed.

(** The effect log only grows. *)
Lemma applied_incl_step s o : Inv s -> incl (applied s) (applied (step s o)).
Proof.
  intros I. destruct o; simpl; try apply incl_refl.
  - unfold vote. destruct (vote_ok _ _ _ _ _); apply incl_refl.
  - apply (tally_facts s I).
  - unfold prune. destruct (_ <=? _); apply incl_refl.
  - unfold mk_batch. destruct (_ <? _); apply incl_refl.
Qed.

(** * History invariant: every entry of a vote list comes from an accepted vote for that key *)
Lemma accepted_vote_snoc ops o v c : accepted_vote ops v c -> accepted_vote (ops ++ [o]) v c.
Proof.
  intros (o1 & o2 & kn & E & Ok). exists o1, (o2 ++ [o]), kn. split; [|exact Ok].
  rewrite E, <- app_assoc. reflexivity.
Qed.

Definition vote_of (ops : list op) (v n h ht : Z) : Prop :=
  exists c, accepted_vote ops v c /\ c_nonce c = n /\ c_h c = h /\ c_height c = ht.

Lemma votes_have_history ops : forall n h a v,
  In (n, h, a) (atts (run ops)) -> In v (a_votes a) -> vote_of ops v n h (c_height (a_claim a)).
Proof.
  induction ops as [|o ops IH] using rev_ind; [simpl; tauto|].
  assert (Mono : forall v n h ht, vote_of ops v n h ht -> vote_of (ops ++ [o]) v n h ht).
  { intros v n h ht (c & A & E). exists c. split; [now apply accepted_vote_snoc | exact E]. }
  rewrite run_snoc. pose proof (Inv_run ops) as I. set (s := run ops) in *.
  intros n h a v Hin Hv. destruct o; simpl in Hin; try (apply Mono; eapply IH; eauto; fail).
  - (* Vote *)
    unfold vote in Hin. destruct (vote_ok s sg v0 known c) eqn:Ok; [|apply Mono; eapply IH; eauto].
    assert (Esg : sg = v0) by (apply vote_ok_parts in Ok; tauto). subst sg.
    simpl in Hin. apply set_att_In in Hin as [Hin|Hin]; [|apply Mono; eapply IH; eauto].
    inversion Hin; subst n h a. clear Hin. simpl in *.
    assert (Hh : c_height (a_claim (vote_att s c)) = c_height c) by (apply vote_ok_parts in Ok; tauto).
    apply add_vote_In in Hv as [Hv| ->].
    + unfold vote_att in *. destruct (get_att (atts s) (c_nonce c) (c_h c)) as [a0|] eqn:G; [|destruct Hv].
      apply get_att_In in G. apply Mono. eapply IH; eauto.
    + exists c. split; [|auto]. exists ops, [], known. split; [reflexivity | exact Ok].
  - (* Tally *)
    destruct (tally_facts s I) as (_ & Af & _). apply Af in Hin as (a0 & Hin0 & Ev & Ec).
    rewrite Ec. apply Mono. eapply IH; eauto. now rewrite <- Ev.
  - (* Prune *)
    unfold prune in Hin. destruct (last_obs s <=? events_to_keep); [apply Mono; eapply IH; eauto|].
    simpl in Hin. apply filter_In in Hin as [Hin _]. apply Mono; eapply IH; eauto.
  - (* MkBatch *)
    unfold mk_batch in Hin. destruct (_ <? _); simpl in Hin; apply Mono; eapply IH; eauto.
  - (* Regenesis *)
    unfold regenesis in Hin. simpl in Hin. apply filter_In in Hin as [Hin _]. apply Mono; eapply IH; eauto.
Qed.

Lemma op_eq_tally (o : op) : {o = Tally} + {o <> Tally}.
Proof. destruct o; (now left) || (right; discriminate). Qed.

(** * The headline clause *)
Definition same_or_collision (c c' : claim) : Prop :=
  c = c' \/ (c <> c' /\ c_h c = c_h c').

Lemma claim_eq_dec (c c' : claim) : {c = c'} + {c <> c'}.
Proof. decide equality; try apply Z.eq_dec; apply bool_dec. Qed.

(** Operations other than Tally leave the effect log alone. *)
Lemma applied_step_not_tally s o : o <> Tally -> applied (step s o) = applied s.
Proof.
  intros NT. destruct o; simpl; try reflexivity; try congruence.
  - unfold vote. destruct (vote_ok _ _ _ _ _); reflexivity.
  - unfold prune. destruct (_ <=? _); reflexivity.
  - unfold mk_batch. destruct (_ <? _); reflexivity.
Qed.

Lemma observed_needs_gt66_distinct_run ops e :
  In e (applied (run ops)) ->
  exists ops1 ops2 vs,
    ops = ops1 ++ Tally :: ops2 /\
    NoDup vs /\
    (forall v, In v vs -> exists c, accepted_vote ops1 v c /\
        c_nonce c = c_nonce (e_claim e) /\ c_height c = c_height (e_claim e) /\ same_or_collision c (e_claim e)) /\
    100 * power (pw (run ops1)) vs > 66 * total (run ops1).
Proof.
  induction ops as [|o ops IH] using rev_ind; [simpl; tauto|].
  rewrite run_snoc. pose proof (Inv_run ops) as I. intros Hin.
  assert (Old : In e (applied (run ops)) -> exists ops1 ops2 vs,
    ops ++ [o] = ops1 ++ Tally :: ops2 /\ NoDup vs /\
    (forall v, In v vs -> exists c, accepted_vote ops1 v c /\
        c_nonce c = c_nonce (e_claim e) /\ c_height c = c_height (e_claim e) /\ same_or_collision c (e_claim e)) /\
    100 * power (pw (run ops1)) vs > 66 * total (run ops1)).
  { intros H. destruct (IH H) as (o1 & o2 & vs & E & R). exists o1, (o2 ++ [o]), vs.
    split; [|exact R]. rewrite E, <- app_assoc. reflexivity. }
  destruct (op_eq_tally o) as [->|NT]; [|apply Old; rewrite applied_step_not_tally in Hin; auto].
  simpl in Hin.
  destruct (tally_facts _ I) as (_ & _ & Ap & _). apply Ap in Hin as [Hin|W]; [now apply Old|].
  destruct W as (n & h & a & vs & rest & Ha & Ec & _ & Hv & Hex & _).
  exists ops, [], vs. split; [reflexivity|]. split; [|split].
  + apply (NoDup_app_l vs rest). rewrite <- Hv. eapply inv_nodup; eauto.
  + intros v Hvin.
    destruct (votes_have_history ops n h a v Ha) as (c & A & En & Eh & Eht).
    { rewrite Hv. apply in_app_iff. now left. }
    destruct (inv_key _ I _ _ _ Ha) as [Kn Kh].
    exists c. rewrite Ec. split; [exact A|]. split; [congruence|]. split; [exact Eht|].
    destruct (claim_eq_dec c (a_claim a)) as [E|NE]; [now left | right; split; [exact NE | congruence]].
  + now apply exceeds_required.
Qed.

(** Only claims of the current bridge deployment take effect: at the tally that applied it, the
    claim named the latest compass id (or no compass id was recorded yet). *)
Lemma applied_of_current_deployment_run ops e :
  In e (applied (run ops)) ->
  exists ops1 ops2, ops = ops1 ++ Tally :: ops2 /\
    (compass (run ops1) = 0 \/ c_compass (e_claim e) = compass (run ops1)).
Proof.
  induction ops as [|o ops IH] using rev_ind; [simpl; tauto|].
  rewrite run_snoc. pose proof (Inv_run ops) as I. intros Hin.
  assert (Old : In e (applied (run ops)) -> exists ops1 ops2, ops ++ [o] = ops1 ++ Tally :: ops2 /\
    (compass (run ops1) = 0 \/ c_compass (e_claim e) = compass (run ops1))).
  { intros H. destruct (IH H) as (o1 & o2 & E & R). exists o1, (o2 ++ [o]).
    split; [|exact R]. rewrite E, <- app_assoc. reflexivity. }
  destruct (op_eq_tally o) as [->|NT]; [|apply Old; rewrite applied_step_not_tally in Hin; auto].
  simpl in Hin.
  destruct (tally_facts _ I) as (_ & _ & Ap & _). apply Ap in Hin as [Hin|W]; [now apply Old|].
  destruct W as (n & h & a & vs & rest & Ha & Ec & _ & _ & _ & Hc).
  exists ops, []. split; [reflexivity|]. rewrite Ec.
  unfold in_compass in Hc. simpl in Hc. apply orb_true_iff in Hc as [Hc|Hc]; apply Z.eqb_eq in Hc; auto.
Qed.

(** Every counted voter was, when its vote was accepted, the operator of a validator with a staking
    record in status Bonded (a validator that left the set, was jailed out of it or was removed can
    not vote; its EARLIER votes keep counting, with the power staking reports for it now). *)
Lemma accepted_vote_was_bonded ops v c :
  accepted_vote ops v c -> exists o1 o2 known, ops = o1 ++ Vote v known c :: o2 /\ known = true /\ In v (bonded (run o1)).
Proof.
  intros (o1 & o2 & kn & E & Ok). exists o1, o2, kn. apply vote_ok_parts in Ok as (_ & K & B & _).
  split; [exact E|]. split; [exact K|]. now apply mem_In.
Qed.

(** * Ledger invariant: the effects of the three handlers, each exactly once when it can run *)
Definition rcv_of (e : entry) : Z := c_rcv (e_claim e).

Record InvL (s : state) : Prop := {
  invl_batch_le : forall b, In b (batches s) -> snd (fst b) <= last_batch s;
  invl_exec : forall e, In e (applied s) -> ok_kind 1 e = true ->
      c_amt (e_claim e) <= last_batch s /\ bget (batches s) (c_rcv (e_claim e)) (c_amt (e_claim e)) = None;
  invl_exec_nodup : NoDup (map subject (filter (ok_kind 1) (applied s)));
  invl_lic : forall x a, zget (lic s) x = Some a <->
      exists e, In e (applied s) /\ ok_kind 2 e = true /\ subject e = (x, a);
  invl_lic_nodup : NoDup (map rcv_of (filter (ok_kind 2) (applied s)));
  invl_dep_ok : forall e, In e (applied s) -> c_kind (e_claim e) = 0 -> e_ok e = c_tok (e_claim e);
  invl_sale_lic : forall e, In e (applied s) -> c_kind (e_claim e) = 2 -> c_tok (e_claim e) = true ->
      zget (lic s) (c_rcv (e_claim e)) <> None
}.

Lemma InvL_init : InvL init.
Proof.
  constructor; simpl; try tauto; try constructor.
  - discriminate.
  - intros (e & [] & _).
Qed.

Lemma InvL_same s s' :
  batches s' = batches s -> last_batch s' = last_batch s -> lic s' = lic s -> applied s' = applied s ->
  InvL s -> InvL s'.
Proof. intros E1 E2 E3 E4 I. constructor; rewrite ?E1, ?E2, ?E3, ?E4; apply I. Qed.

Lemma filter_snoc_false {A} (f : A -> bool) l x : f x = false -> filter f (l ++ [x]) = filter f l.
Proof. intros H. rewrite filter_app. simpl. rewrite H. apply app_nil_r. Qed.

Lemma filter_snoc_true {A} (f : A -> bool) l x : f x = true -> filter f (l ++ [x]) = filter f l ++ [x].
Proof. intros H. rewrite filter_app. simpl. now rewrite H. Qed.

Lemma InvL_fire s a : InvL s -> InvL (fire s a).
Proof.
  intros I. unfold fire. set (c := a_claim a).
  destruct (applicable s c) eqn:Ap.
  - unfold effect. cbn [c_kind a_claim]. fold c.
    destruct (c_kind c =? 0) eqn:K0; [|destruct (c_kind c =? 1) eqn:K1].
    + (* deposit: mint *)
      apply Z.eqb_eq in K0.
      assert (F1 : ok_kind 1 (mkEntry (epoch s) c true) = false) by (unfold ok_kind; simpl; rewrite K0; reflexivity).
      assert (F2 : ok_kind 2 (mkEntry (epoch s) c true) = false) by (unfold ok_kind; simpl; rewrite K0; reflexivity).
      constructor; simpl; rewrite ?(filter_snoc_false _ _ _ F1), ?(filter_snoc_false _ _ _ F2); try apply I.
      * intros e H Hk. apply in_app_iff in H as [H|[<-|[]]]; [now apply I | congruence].
      * intros x a0. rewrite (invl_lic s I). split; intros (e & H & R).
        -- exists e. split; [apply in_app_iff; now left | exact R].
        -- apply in_app_iff in H as [H|[<-|[]]]; [eauto | destruct R; congruence].
      * intros e H Hk. apply in_app_iff in H as [H|[<-|[]]]; [now apply I|].
        simpl. unfold applicable in Ap. rewrite K0 in Ap. simpl in Ap. now rewrite Ap.
      * intros e H Hk Ht. apply in_app_iff in H as [H|[<-|[]]]; [now apply I | simpl in Hk; lia].
    + (* executed batch: delete the batch *)
      apply Z.eqb_eq in K1.
      assert (T1 : ok_kind 1 (mkEntry (epoch s) c true) = true) by (unfold ok_kind; simpl; rewrite K1; reflexivity).
      assert (F2 : ok_kind 2 (mkEntry (epoch s) c true) = false) by (unfold ok_kind; simpl; rewrite K1; reflexivity).
      unfold applicable in Ap. rewrite K0, (proj2 (Z.eqb_eq _ _) K1) in Ap.
      destruct (bget (batches s) (c_rcv c) (c_amt c)) as [t|] eqn:G; [|discriminate].
      pose proof (invl_batch_le s I _ (bget_Some _ _ _ _ G)) as Hle. simpl in Hle.
      constructor; simpl; rewrite ?(filter_snoc_true _ _ _ T1), ?(filter_snoc_false _ _ _ F2); try apply I.
      * intros b Hb. unfold bdel in Hb. apply filter_In in Hb as [Hb _]. now apply I.
      * intros e H Hk. apply in_app_iff in H as [H|[<-|[]]].
        -- destruct (invl_exec s I e H Hk) as [L N]. split; [exact L | now apply bget_bdel_None].
        -- simpl. split; [exact Hle | apply bget_bdel_same].
      * rewrite map_app. simpl. apply NoDup_snoc; [apply I|].
        intros H. apply in_map_iff in H as (e & Es & He). apply filter_In in He as [He Hk].
        destruct (invl_exec s I e He Hk) as [_ N]. unfold subject in Es. simpl in Es.
        inversion Es as [[E1 E2]]. rewrite E1, E2 in N. congruence.
      * intros x a0. rewrite (invl_lic s I). split; intros (e & H & R).
        -- exists e. split; [apply in_app_iff; now left | exact R].
        -- apply in_app_iff in H as [H|[<-|[]]]; [eauto | destruct R; congruence].
      * intros e H Hk. apply in_app_iff in H as [H|[<-|[]]]; [now apply I | simpl in Hk; lia].
      * intros e H Hk Ht. apply in_app_iff in H as [H|[<-|[]]]; [now apply I | simpl in Hk; lia].
    + (* light-node sale: create the licence *)
      unfold applicable in Ap. rewrite K0, K1 in Ap.
      destruct (c_kind c =? 2) eqn:K2; [|discriminate]. apply Z.eqb_eq in K2.
      apply andb_true_iff in Ap as [Tk Lc].
      destruct (zget (lic s) (c_rcv c)) as [?|] eqn:G; [discriminate|].
      assert (F1 : ok_kind 1 (mkEntry (epoch s) c true) = false) by (unfold ok_kind; simpl; rewrite K2; reflexivity).
      assert (T2 : ok_kind 2 (mkEntry (epoch s) c true) = true) by (unfold ok_kind; simpl; rewrite K2; reflexivity).
      constructor; simpl; rewrite ?(filter_snoc_false _ _ _ F1), ?(filter_snoc_true _ _ _ T2); try apply I.
      * intros e H Hk. apply in_app_iff in H as [H|[<-|[]]]; [now apply I | congruence].
      * intros x a0. rewrite zget_zset. destruct (x =? c_rcv c) eqn:Ex.
        -- apply Z.eqb_eq in Ex. subst x. split.
           ++ intros H. inversion H; subst a0. exists (mkEntry (epoch s) c true).
              split; [apply in_app_iff; right; now left | split; [exact T2 | reflexivity]].
           ++ intros (e & H & Hk & Es). apply in_app_iff in H as [H|[<-|[]]].
              ** exfalso. assert (zget (lic s) (c_rcv c) = Some a0) by (apply (invl_lic s I); eauto). congruence.
              ** unfold subject in Es. simpl in Es. congruence.
        -- rewrite (invl_lic s I). split; intros (e & H & R).
           ++ exists e. split; [apply in_app_iff; now left | exact R].
           ++ apply in_app_iff in H as [H|[<-|[]]]; [eauto|].
              destruct R as [_ R]. unfold subject in R. simpl in R. inversion R. apply Z.eqb_neq in Ex. congruence.
      * rewrite map_app. simpl. apply NoDup_snoc; [apply I|].
        intros H. apply in_map_iff in H as (e & Es & He). apply filter_In in He as [He Hk].
        unfold rcv_of in Es. simpl in Es.
        assert (zget (lic s) (c_rcv c) = Some (c_amt (e_claim e))).
        { apply (invl_lic s I). exists e. split; [exact He|]. split; [exact Hk|]. unfold subject. now rewrite Es. }
        congruence.
      * intros e H Hk. apply in_app_iff in H as [H|[<-|[]]]; [now apply I | simpl in Hk; lia].
      * intros e H Hk Ht. rewrite zget_zset.
        destruct (c_rcv (e_claim e) =? c_rcv c) eqn:Ex; [discriminate|].
        apply in_app_iff in H as [H|[<-|[]]]; [now apply I|]. simpl in Ex. rewrite Z.eqb_refl in Ex. discriminate.
  - (* the handler fails: nothing but the log entry *)
    assert (F : forall k, ok_kind k (mkEntry (epoch s) c false) = false) by reflexivity.
    constructor; simpl; rewrite ?(filter_snoc_false _ _ _ (F 1)), ?(filter_snoc_false _ _ _ (F 2)); try apply I.
    + intros e H Hk. apply in_app_iff in H as [H|[<-|[]]]; [now apply I | discriminate].
    + intros x a0. rewrite (invl_lic s I). split; intros (e & H & R).
      * exists e. split; [apply in_app_iff; now left | exact R].
      * apply in_app_iff in H as [H|[<-|[]]]; [eauto | destruct R; discriminate].
    + intros e H Hk. apply in_app_iff in H as [H|[<-|[]]]; [now apply I|].
      simpl in *. unfold applicable in Ap. rewrite Hk in Ap. simpl in Ap. now rewrite Ap.
    + intros e H Hk Ht. apply in_app_iff in H as [H|[<-|[]]]; [now apply I|].
      simpl in *. unfold applicable in Ap. rewrite Hk, Ht in Ap. simpl in Ap.
      destruct (zget (lic s) (c_rcv c)); [discriminate | discriminate].
Qed.

Lemma InvL_step s o : InvL s -> InvL (step s o).
Proof.
  intros I. destruct o; simpl; try (apply (InvL_same s); [reflexivity..|exact I]).
  - unfold vote. destruct (vote_ok _ _ _ _ _); [apply (InvL_same s); [reflexivity..|exact I] | exact I].
  - unfold tally. apply tally_loop_inv; [|exact I]. intros. now apply InvL_fire.
  - unfold prune. destruct (_ <=? _); [exact I | apply (InvL_same s); [reflexivity..|exact I]].
  - (* MkBatch: the batch nonce is above every nonce handed out before *)
    unfold mk_batch. destruct (last_batch s <? bn) eqn:L; [|exact I]. apply Z.ltb_lt in L.
    constructor; simpl; try apply I.
    + intros b Hb. apply in_app_iff in Hb as [Hb|[<-|[]]]; [apply (invl_batch_le s I) in Hb; lia | simpl; lia].
    + intros e H Hk. destruct (invl_exec s I e H Hk) as [Le N]. split; [lia|].
      apply bget_app_None; [exact N|]. unfold bkeyb. simpl.
      apply andb_false_iff. right. apply Z.eqb_neq. lia.
  - (* DropBatch *)
    constructor; simpl; try apply I.
    + intros b Hb. unfold bdel in Hb. apply filter_In in Hb as [Hb _]. now apply I.
    + intros e H Hk. destruct (invl_exec s I e H Hk) as [Le N]. split; [exact Le | now apply bget_bdel_None].
Qed.

Lemma InvL_run ops : InvL (run ops).
Proof.
  induction ops as [|o ops IH] using rev_ind; [exact InvL_init|].
  rewrite run_snoc. now apply InvL_step.
Qed.

(** An executed-batch claim is applied to a batch at most once, and that batch is gone for good. *)
Lemma batch_executed_once_run ops :
  NoDup (map subject (filter (ok_kind 1) (applied (run ops)))) /\
  forall e, In e (applied (run ops)) -> ok_kind 1 e = true ->
    bget (batches (run ops)) (c_rcv (e_claim e)) (c_amt (e_claim e)) = None.
Proof.
  split; [apply InvL_run|]. intros e H Hk. now apply (invl_exec _ (InvL_run ops) e H Hk).
Qed.

(** Licences are exactly the sale claims whose handler ran, one per client; a sale claim naming the
    registered sale contract that took effect leaves its client with a licence. *)
Lemma sale_licences_run ops :
  NoDup (map rcv_of (filter (ok_kind 2) (applied (run ops)))) /\
  (forall x a, zget (lic (run ops)) x = Some a <->
      exists e, In e (applied (run ops)) /\ ok_kind 2 e = true /\ subject e = (x, a)) /\
  (forall e, In e (applied (run ops)) -> c_kind (e_claim e) = 2 -> c_tok (e_claim e) = true ->
      zget (lic (run ops)) (c_rcv (e_claim e)) <> None).
Proof. pose proof (InvL_run ops) as I. split; [apply I|]. split; apply I. Qed.

(** A deposit's handler runs exactly when its token is a registered bridge token. *)
Lemma deposit_applicable_run ops e :
  In e (applied (run ops)) -> c_kind (e_claim e) = 0 -> e_ok e = c_tok (e_claim e).
Proof. apply InvL_run. Qed.

(** * Liveness notes as theorems: what stalls a chain's oracle, and until when

    Two situations make [attestationTally] return an error at the attestation it is about to try,
    before any attestation sorted after it (same nonce, higher claim hash) is looked at:
    (1) the attestation at cursor+1 is ALREADY observed — reachable only through a reset to a lower
        nonce (governance override, chain re-activation): the honest validators re-submit the same
        events, i.e. the same claim hashes, and land on the old, observed attestations;
    (2) the attestation at cursor+1 has the votes but its remote height is below the last observed
        remote height (refused by SetLastObservedEthereumBlockHeight; since repair F2b nothing is
        written).
    Neither is a safety violation (nothing takes effect); both last until a reset operation. *)
Definition next_nonce (s : state) : Z := u64 (last_obs s + 1).

Definition stalled_observed (s : state) (h : Z) : Prop :=
  exists a, In (next_nonce s, h, a) (atts s) /\ in_compass s (next_nonce s, h, a) = true /\ a_obs a = true.

Definition stalled_height (s : state) (h : Z) : Prop :=
  exists a, In (next_nonce s, h, a) (atts s) /\ in_compass s (next_nonce s, h, a) = true /\
    a_obs a = false /\ c_height (a_claim a) < last_height s.

Definition frozen (s0 s : state) : Prop :=
  last_obs s = last_obs s0 /\ last_height s = last_height s0 /\ epoch s = epoch s0 /\
  compass s = compass s0 /\ applied s = applied s0.

(** The only ways out without a reset: another claim takes effect at that nonce. *)
Definition escaped_lower (s0 s : state) (h : Z) : Prop :=
  exists e, In e (applied s) /\ e_epoch e = epoch s0 /\ e_nonce e = next_nonce s0 /\ c_h (e_claim e) < h.
Definition escaped_other (s0 s : state) (h : Z) : Prop :=
  exists e, In e (applied s) /\ e_epoch e = epoch s0 /\ e_nonce e = next_nonce s0 /\ c_h (e_claim e) <> h.

Lemma frozen_refl s : frozen s s. Proof. repeat split. Qed.
Lemma frozen_trans a b c : frozen a b -> frozen b c -> frozen a c.
Proof. unfold frozen. intros (A1 & A2 & A3 & A4 & A5) (B1 & B2 & B3 & B4 & B5). repeat split; congruence. Qed.

Lemma try_att_false_same s a : snd (try_att s a) = false -> fst (try_att s a) = s.
Proof.
  unfold try_att. rewrite src_height_first. destruct (a_obs a); [reflexivity|].
  destruct (fire_prefix _ _ _ _); [|discriminate].
  destruct (negb _); [reflexivity|]. destruct (_ >? _); [reflexivity | discriminate].
Qed.

Lemma observed_blocks s a : a_obs a = true -> snd (try_att s a) = false.
Proof. intros H. unfold try_att. now rewrite H. Qed.

Lemma refused_blocks s a :
  a_obs a = false -> fire_prefix (pw s) (required s) 0 (a_votes a) <> None ->
  c_height (a_claim a) < last_height s -> snd (try_att s a) = false.
Proof.
  intros Ho Hq Hh. unfold try_att. rewrite Ho, src_height_first.
  destruct (fire_prefix _ _ _ _); [|congruence].
  destruct (negb _); [reflexivity|].
  assert (E : last_height s >? c_height (a_claim a) = true) by (rewrite Z.gtb_ltb; now apply Z.ltb_lt).
  now rewrite E.
Qed.

Lemma tally_loop_applied_incl l s : incl (applied s) (applied (fst (tally_loop l s))).
Proof.
  apply (tally_loop_inv (fun s1 => incl (applied s) (applied s1))); [|apply incl_refl].
  intros s1 n h a vs _ Inc _. destruct (fire_proj s1 a) as (_ & _ & _ & _ & _ & _ & _ & _ & _ & _ & _ & Gap).
  rewrite Gap. intros e H. apply in_app_iff. left. now apply Inc.
Qed.

(** The loop, at a blocking attestation: either nothing happens and the tally reports an error, or
    an attestation of the same nonce sorted BEFORE it fired. *)
Lemma tally_loop_blocked l : forall s n h a,
  StronglySorted klt l -> In (n, h, a) l -> n = u64 (last_obs s + 1) -> snd (try_att s a) = false ->
  tally_loop l s = (s, false) \/
  exists h' a' vs, In (n, h', a') l /\ h' < h /\ fires_in s a' vs /\
     incl (applied (fire s a')) (applied (fst (tally_loop l s))).
Proof.
  induction l as [|[[n0 h0] a0] r IH]; intros s n h a S Hin Hn Hb; [destruct Hin|].
  apply StronglySorted_inv in S as [S F]. rewrite Forall_forall in F.
  simpl. destruct Hin as [Hin|Hin].
  - inversion Hin; subst n0 h0 a0. rewrite <- Hn, Z.eqb_refl.
    left. pose proof (try_att_false_same s a Hb) as X.
    destruct (try_att s a) as [s' b]. simpl in *. subst. reflexivity.
  - pose proof (F _ Hin) as L. rewrite klt_spec in L. simpl in L.
    destruct (n0 =? u64 (last_obs s + 1)) eqn:E0.
    + apply Z.eqb_eq in E0. assert (n0 = n) by congruence. subst n0. assert (h0 < h) by lia.
      destruct (try_att_cases s a0) as [Es|(vs & Hf & Ef)].
      * destruct (try_att s a0) as [s' b]. simpl in Es. subst s'. destruct b; [|now left].
        destruct (IH s n h a S Hin Hn Hb) as [X|(h' & a' & vs & Hi & Hl & Hf & Hinc)]; [now left|].
        right. exists h', a', vs. split; [now right|]. auto.
      * rewrite Ef. right. exists h0, a0, vs. split; [left; congruence|]. split; [lia|]. split; [exact Hf|].
        apply tally_loop_applied_incl.
    + destruct (IH s n h a S Hin Hn Hb) as [X|(h' & a' & vs & Hi & Hl & Hf & Hinc)]; [now left|].
      right. exists h', a', vs. split; [now right|]. auto.
Qed.

(** One tally at a blocker (either kind): it aborts without writing anything, unless a claim with
    a LOWER hash at that nonce takes effect in it. *)
Lemma tally_aborts_at_blocker s h a : Inv s ->
  In (next_nonce s, h, a) (atts s) -> in_compass s (next_nonce s, h, a) = true -> snd (try_att s a) = false ->
  tally s = (s, false) \/ escaped_lower s (fst (tally s)) h.
Proof.
  intros I Hin Hc Hb. unfold tally.
  destruct (tally_loop_blocked (filter (in_compass s) (atts s)) s (next_nonce s) h a) as [X|(h' & a' & vs & Hi & Hl & Hf & Hinc)].
  - apply filter_sorted, I.
  - apply filter_In. auto.
  - reflexivity.
  - exact Hb.
  - now left.
  - right. apply filter_In in Hi as [Hi _]. destruct (inv_key s I _ _ _ Hi) as [Kn Kh].
    exists (mkEntry (epoch s) (a_claim a') (applicable s (a_claim a'))).
    split; [|simpl; unfold e_nonce; simpl; repeat split; [exact Kn | lia]].
    apply Hinc. destruct (fire_proj s a') as (_ & _ & _ & _ & _ & _ & _ & _ & _ & _ & _ & Gap).
    rewrite Gap. apply in_app_iff. right. now left.
Qed.

Lemma get_att_of_In l n h a : StronglySorted klt l -> In (n, h, a) l -> get_att l n h = Some a.
Proof.
  intros S Hin. destruct (get_att l n h) as [a'|] eqn:G.
  - apply get_att_In in G. f_equal. eapply sorted_unique; eauto.
  - exfalso. clear S. induction l as [|[[n' h'] a'] r IH]; simpl in *; [tauto|].
    destruct (keyeqb n h n' h') eqn:E; [discriminate|].
    destruct Hin as [Hin|Hin]; [|auto]. inversion Hin; subst.
    assert (keyeqb n h n h = true) by (apply keyeqb_true; auto). congruence.
Qed.

Lemma set_att_In_new l n h a : In (n, h, a) (set_att l n h a).
Proof.
  induction l as [|[[n' h'] a'] r IH]; simpl; [now left|].
  destruct (keyeqb n h n' h'); [now left|]. destruct (keyltb n h n' h'); [now left | now right].
Qed.

(** Operations other than a tally or a reset keep the cursor, the effect log and the attestation at
    cursor+1 (its vote list may grow; its observed flag and stored claim stay). *)
Lemma nontally_keeps s o h a : Inv s -> is_reset o = false -> o <> Tally ->
  In (next_nonce s, h, a) (atts s) ->
  frozen s (step s o) /\
  exists a', In (next_nonce s, h, a') (atts (step s o)) /\ a_obs a' = a_obs a /\ a_claim a' = a_claim a.
Proof.
  intros I NR NT Hin.
  assert (Same : forall s', frozen s s' -> atts s' = atts s ->
    frozen s s' /\ exists a', In (next_nonce s, h, a') (atts s') /\ a_obs a' = a_obs a /\ a_claim a' = a_claim a).
  { intros s' Fz Ea. split; [exact Fz|]. exists a. rewrite Ea. auto. }
  destruct o; cbn [step is_reset] in *; try discriminate; try congruence;
    try (apply Same; [repeat split | reflexivity]; fail).
  - (* Vote *)
    unfold vote. destruct (vote_ok s sg v known c) eqn:Ok; [|apply Same; [apply frozen_refl | reflexivity]].
    split; [repeat split|]. simpl.
    destruct (set_att_keeps (atts s) (c_nonce c) (c_h c)
                (mkAtt (add_vote (a_votes (vote_att s c)) v) (a_obs (vote_att s c)) (a_claim (vote_att s c)))
                _ _ _ Hin) as [[En Eh]|K].
    + assert (Va : vote_att s c = a).
      { unfold vote_att. rewrite <- En, <- Eh, (get_att_of_In _ _ _ _ (inv_sorted s I) Hin). reflexivity. }
      eexists. split; [rewrite En, Eh; apply set_att_In_new|]. simpl. rewrite Va. auto.
    + exists a. auto.
  - (* Prune *)
    unfold prune. destruct (last_obs s <=? events_to_keep) eqn:E; [apply Same; [apply frozen_refl | reflexivity]|].
    split; [repeat split|]. exists a. split; [|auto]. simpl. apply filter_In. split; [exact Hin|].
    apply negb_true_iff, andb_false_iff. right. simpl. apply Z.ltb_ge.
    pose proof (inv_valid s I _ _ _ Hin) as V. pose proof (inv_last s I) as L.
    unfold next_nonce in *. rewrite (u64_succ (last_obs s) L) by lia.
    apply Z.leb_gt in E. unfold events_to_keep in *. pose proof src_keep. lia.
  - (* MkBatch *)
    unfold mk_batch. destruct (_ <? _); apply Same; repeat split.
Qed.

Lemma in_compass_same s s' n h a a' :
  compass s' = compass s -> a_claim a' = a_claim a -> in_compass s' (n, h, a') = in_compass s (n, h, a).
Proof. intros Ec Ea. unfold in_compass. simpl. now rewrite Ec, Ea. Qed.

(** (1) one step from a state stalled at an observed attestation *)
Lemma stall_step_observed s o h : Inv s -> stalled_observed s h -> is_reset o = false ->
  (frozen s (step s o) /\ stalled_observed (step s o) h) \/ escaped_lower s (step s o) h.
Proof.
  intros I (a & Hin & Hc & Ho) NR.
  destruct (op_eq_tally o) as [->|NT].
  - simpl. destruct (tally_aborts_at_blocker s h a I Hin Hc (observed_blocks s a Ho)) as [E|E]; [|now right].
    left. rewrite E. simpl. split; [apply frozen_refl|]. exists a. auto.
  - left. destruct (nontally_keeps s o h a I NR NT Hin) as (Fz & a' & Hin' & Eo & Ec).
    split; [exact Fz|]. destruct Fz as (F1 & _ & _ & F4 & _).
    exists a'. unfold next_nonce. rewrite F1. fold (next_nonce s).
    split; [exact Hin'|]. split; [|congruence].
    rewrite (in_compass_same s (step s o) _ _ a a' F4 Ec). exact Hc.
Qed.

(** (2) one step from a state whose next attestation is refused for its remote height *)
Lemma stall_step_height s o h : Inv s -> stalled_height s h -> is_reset o = false ->
  (frozen s (step s o) /\ stalled_height (step s o) h) \/ escaped_other s (step s o) h.
Proof.
  intros I (a & Hin & Hc & Ho & Hh) NR.
  destruct (op_eq_tally o) as [->|NT].
  - simpl. unfold tally.
    assert (Q : fst (tally_loop (filter (in_compass s) (atts s)) s) = s \/
                escaped_other s (fst (tally_loop (filter (in_compass s) (atts s)) s)) h).
    { apply (tally_loop_inv (fun x => x = s \/ escaped_other s x h)); [|now left].
      intros s1 n0 h0 a0 vs Hi [->|(e & He & R)] Hf.
      - right. apply filter_In in Hi as [Hi _]. destruct (inv_key s I _ _ _ Hi) as [Kn Kh].
        destruct Hf as (rest & _ & _ & Hob & Hnn & Hhh).
        destruct (fire_proj s a0) as (_ & _ & _ & _ & _ & _ & _ & _ & _ & _ & _ & Gap).
        exists (mkEntry (epoch s) (a_claim a0) (applicable s (a_claim a0))).
        split; [rewrite Gap; apply in_app_iff; right; now left|].
        simpl. unfold e_nonce. simpl. split; [reflexivity|]. split; [exact Hnn|].
        rewrite Kh. intros Eh. assert (En : n0 = next_nonce s) by (unfold next_nonce; congruence).
        rewrite En, Eh in Hi.
        assert (a0 = a) by (eapply sorted_unique; [apply I | exact Hi | exact Hin]). subst a0. lia.
      - right. exists e. split; [|exact R].
        destruct (fire_proj s1 a0) as (_ & _ & _ & _ & _ & _ & _ & _ & _ & _ & _ & Gap).
        rewrite Gap. apply in_app_iff. now left. }
    destruct Q as [E|E]; [|now right]. left. rewrite E. split; [apply frozen_refl|]. exists a. auto.
  - left. destruct (nontally_keeps s o h a I NR NT Hin) as (Fz & a' & Hin' & Eo & Ec).
    split; [exact Fz|]. destruct Fz as (F1 & F2 & _ & F4 & _).
    exists a'. unfold next_nonce. rewrite F1, F2. fold (next_nonce s).
    split; [exact Hin'|]. split; [|split; congruence].
    rewrite (in_compass_same s (step s o) _ _ a a' F4 Ec). exact Hc.
Qed.

Lemma no_reset_snoc ops o :
  forallb (fun o => negb (is_reset o)) (ops ++ [o]) = true ->
  forallb (fun o => negb (is_reset o)) ops = true /\ is_reset o = false.
Proof.
  rewrite forallb_app. simpl. rewrite !andb_true_iff, negb_true_iff. tauto.
Qed.

(** Until a reset: the cursor does not move and nothing takes effect, whatever is voted, however
    the powers change — unless a claim with a lower hash takes effect at that very nonce. *)
Lemma stalls_until_override_fold ops : forall s h, Inv s -> stalled_observed s h ->
  forallb (fun o => negb (is_reset o)) ops = true ->
  (frozen s (fold_left step ops s) /\ stalled_observed (fold_left step ops s) h) \/
  escaped_lower s (fold_left step ops s) h.
Proof.
  induction ops as [|o ops IH] using rev_ind; intros s h I St NR.
  - left. split; [apply frozen_refl | exact St].
  - apply no_reset_snoc in NR as [NR No]. rewrite fold_left_app. simpl.
    pose proof (IH s h I St NR) as X. pose proof (Inv_fold ops s I) as I1.
    remember (fold_left step ops s) as s1 eqn:Es1. clear Es1 IH.
    destruct X as [[Fz St1]|(e & He & R)].
    + destruct (stall_step_observed s1 o h I1 St1 No) as [[Fz2 St2]|(e & He & Ee & En & Eh)].
      * left. split; [eapply frozen_trans; eauto | exact St2].
      * right. destruct Fz as (F1 & _ & F3 & _). exists e. split; [exact He|].
        unfold next_nonce in *. rewrite <- F1, <- F3. auto.
    + right. exists e. split; [|exact R]. now apply (applied_incl_step s1 o I1).
Qed.

Lemma stalls_on_refused_height_fold ops : forall s h, Inv s -> stalled_height s h ->
  forallb (fun o => negb (is_reset o)) ops = true ->
  (frozen s (fold_left step ops s) /\ stalled_height (fold_left step ops s) h) \/
  escaped_other s (fold_left step ops s) h.
Proof.
  induction ops as [|o ops IH] using rev_ind; intros s h I St NR.
  - left. split; [apply frozen_refl | exact St].
  - apply no_reset_snoc in NR as [NR No]. rewrite fold_left_app. simpl.
    pose proof (IH s h I St NR) as X. pose proof (Inv_fold ops s I) as I1.
    remember (fold_left step ops s) as s1 eqn:Es1. clear Es1 IH.
    destruct X as [[Fz St1]|(e & He & R)].
    + destruct (stall_step_height s1 o h I1 St1 No) as [[Fz2 St2]|(e & He & Ee & En & Eh)].
      * left. split; [eapply frozen_trans; eauto | exact St2].
      * right. destruct Fz as (F1 & _ & F3 & _). exists e. split; [exact He|].
        unfold next_nonce in *. rewrite <- F1, <- F3. auto.
    + right. exists e. split; [|exact R]. now apply (applied_incl_step s1 o I1).
Qed.

(** Stated over histories: [ops0] is any history, [ops] any continuation without a reset. *)
Lemma stalls_until_override_run ops0 ops h :
  stalled_observed (run ops0) h -> forallb (fun o => negb (is_reset o)) ops = true ->
  (frozen (run ops0) (run (ops0 ++ ops)) /\ stalled_observed (run (ops0 ++ ops)) h) \/
  escaped_lower (run ops0) (run (ops0 ++ ops)) h.
Proof.
  intros St NR. replace (run (ops0 ++ ops)) with (fold_left step ops (run ops0)) by (unfold run; now rewrite fold_left_app).
  apply stalls_until_override_fold; [apply Inv_run | exact St | exact NR].
Qed.

Lemma stalls_on_refused_height_run ops0 ops h :
  stalled_height (run ops0) h -> forallb (fun o => negb (is_reset o)) ops = true ->
  (frozen (run ops0) (run (ops0 ++ ops)) /\ stalled_height (run (ops0 ++ ops)) h) \/
  escaped_other (run ops0) (run (ops0 ++ ops)) h.
Proof.
  intros St NR. replace (run (ops0 ++ ops)) with (fold_left step ops (run ops0)) by (unfold run; now rewrite fold_left_app).
  apply stalls_on_refused_height_fold; [apply Inv_run | exact St | exact NR].
Qed.

(** While stalled every tally reports an error and writes nothing (or is the escape). *)
Lemma tally_aborts_while_stalled_run ops h :
  stalled_observed (run ops) h \/
  (exists a, In (next_nonce (run ops), h, a) (atts (run ops)) /\ in_compass (run ops) (next_nonce (run ops), h, a) = true /\
     a_obs a = false /\ c_height (a_claim a) < last_height (run ops) /\
     fire_prefix (pw (run ops)) (required (run ops)) 0 (a_votes a) <> None) ->
  tally (run ops) = (run ops, false) \/ escaped_lower (run ops) (fst (tally (run ops))) h.
Proof.
  intros [(a & Hin & Hc & Ho)|(a & Hin & Hc & Ho & Hh & Hq)].
  - apply (tally_aborts_at_blocker _ h a (Inv_run ops) Hin Hc). now apply observed_blocks.
  - apply (tally_aborts_at_blocker _ h a (Inv_run ops) Hin Hc). now apply refused_blocks.
Qed.

(** * Can the counted power exceed the total?  Not when staking is consistent.

    TryAttestation adds [GetLastValidatorPower] of every voter (0 for an operator without a power
    record: a validator that left the bonded set, or whose staking record was removed) and compares
    with [GetLastTotalPower].  Staking writes both in one place (ApplyAndReturnValidatorSetUpdates):
    the total is the sum of the recorded powers, none negative.  Under exactly that reading of the
    collaborator the power of distinct voters never exceeds the total, and two sets of voters that
    both pass the threshold share a validator. *)
Definition staking_consistent (p : list (Z * Z)) (t : Z) : Prop :=
  (forall kv, In kv p -> 0 <= snd kv) /\ t = zsum (map snd p).

Lemma zget0_nonneg l v : (forall kv, In kv l -> 0 <= snd kv) -> 0 <= zget0 l v.
Proof.
  unfold zget0. induction l as [|[k x] r IH]; simpl; intros H; [lia|].
  destruct (v =? k); [apply (H (k, x)); now left | apply IH; intros; apply H; now right].
Qed.

Lemma ind_sum_zero k x vs : ~ In k vs -> zsum (map (fun v => if v =? k then x else 0) vs) = 0.
Proof.
  induction vs as [|v r IH]; simpl; intros H; [reflexivity|].
  destruct (v =? k) eqn:E; [apply Z.eqb_eq in E; subst; tauto | rewrite IH; tauto].
Qed.

Lemma ind_sum_le k x vs : NoDup vs -> 0 <= x -> zsum (map (fun v => if v =? k then x else 0) vs) <= x.
Proof.
  induction vs as [|v r IH]; simpl; intros ND Hx; [lia|].
  inversion ND; subst. destruct (v =? k) eqn:E.
  - apply Z.eqb_eq in E. subst. rewrite ind_sum_zero; [lia | assumption].
  - specialize (IH H2 Hx). lia.
Qed.

Lemma zget0_cons k x r v : zget0 ((k, x) :: r) v = if v =? k then x else zget0 r v.
Proof. unfold zget0. simpl. destruct (v =? k); reflexivity. Qed.

Lemma power_cons_le k x r vs : (forall kv, In kv r -> 0 <= snd kv) ->
  power ((k, x) :: r) vs <= zsum (map (fun v => if v =? k then x else 0) vs) + power r vs.
Proof.
  intros H. unfold power. induction vs as [|v vs IH]; [simpl; lia|].
  cbn [map zsum]. rewrite zget0_cons. pose proof (zget0_nonneg r v H).
  destruct (v =? k); lia.
Qed.

Lemma power_le_sum p : forall vs, (forall kv, In kv p -> 0 <= snd kv) -> NoDup vs -> power p vs <= zsum (map snd p).
Proof.
  induction p as [|[k x] r IH]; intros vs H ND.
  - unfold power. simpl. induction vs; simpl; [lia|]. inversion ND; subst. unfold zget0 at 1. simpl. auto.
  - simpl. assert (Hr : forall kv, In kv r -> 0 <= snd kv) by (intros; apply H; now right).
    pose proof (power_cons_le k x r vs Hr). pose proof (ind_sum_le k x vs ND (H (k, x) (or_introl eq_refl))).
    specialize (IH vs Hr ND). lia.
Qed.

Lemma counted_power_le_total p t vs : staking_consistent p t -> NoDup vs -> power p vs <= t.
Proof. intros [H ->] ND. now apply power_le_sum. Qed.

Lemma NoDup_app_disjoint {A} (l1 l2 : list A) :
  NoDup l1 -> NoDup l2 -> (forall x, In x l1 -> ~ In x l2) -> NoDup (l1 ++ l2).
Proof.
  induction l1 as [|a r IH]; simpl; intros N1 N2 D; [exact N2|].
  inversion N1; subst. constructor.
  - rewrite in_app_iff. intros [H|H]; [tauto | apply (D a); auto].
  - apply IH; auto.
Qed.

Lemma common_or_disjoint (l1 l2 : list Z) :
  (exists v, In v l1 /\ In v l2) \/ (forall v, In v l1 -> ~ In v l2).
Proof.
  induction l1 as [|a r IH]; [right; simpl; tauto|].
  destruct (in_dec Z.eq_dec a l2) as [Hi|Hn]; [left; exists a; simpl; auto|].
  destruct IH as [(v & H1 & H2)|D]; [left; exists v; simpl; auto|].
  right. intros v [->|Hv]; auto.
Qed.

(** Two sets of distinct voters that each hold more than 66 % share a validator. *)
Lemma quorums_intersect p t vs1 vs2 : staking_consistent p t -> NoDup vs1 -> NoDup vs2 ->
  100 * power p vs1 > 66 * t -> 100 * power p vs2 > 66 * t -> exists v, In v vs1 /\ In v vs2.
Proof.
  intros C N1 N2 Q1 Q2. destruct (common_or_disjoint vs1 vs2) as [E|D]; [exact E|exfalso].
  pose proof (counted_power_le_total p t (vs1 ++ vs2) C (NoDup_app_disjoint _ _ N1 N2 D)) as L.
  unfold power in *. rewrite map_app, zsum_app in L.
  assert (0 <= t). { destruct C as [H ->]. apply zsum_nonneg. apply Forall_forall. intros x Hx.
    apply in_map_iff in Hx as (kv & <- & Hk). now apply H. }
  lia.
Qed.

(** The hypothesis is needed: when staking's two stores disagree (a total below the sum of the
    recorded powers — never written by x/staking, generated rarely by the harness) the counted power
    exceeds the total, and the code, like the model, applies the claim. *)
Example ex_inconsistent_staking :
  power [(0, 5); (1, 5)] [0; 1] = 10 /\ ~ staking_consistent [(0, 5); (1, 5)] 3 /\
  length (applied (run ([SetPowers [(0,5);(1,5)] 3; SetBonded [0;1]] ++ map (fun v => Vote v true (mkClaim 1 7 110 0 0 1 10 true)) [0] ++ [Tally]))) = 1%nat.
Proof. vm_compute. split; [reflexivity|]. split; [|reflexivity]. intros [_ H]. discriminate. Qed.

(** * Genesis export + import as an operation of the histories: what it keeps and what it drops *)
Lemma regenesis_facts s :
  last_obs (regenesis s) = last_obs s /\ applied (regenesis s) = applied s /\ epoch (regenesis s) = epoch s /\
  compass (regenesis s) = 0 /\ last_height (regenesis s) = 0 /\
  (forall x, In x (atts (regenesis s)) <-> In x (atts s) /\ in_compass s x = true).
Proof. unfold regenesis. simpl. do 5 (split; [reflexivity|]). intros x. apply filter_In. Qed.

(** * Non-vacuity: concrete histories *)
Definition cl (n h ht amt : Z) : claim := mkClaim n h ht 0 0 1 amt true.
Definition five : list op := [SetPowers [(0,1);(1,1);(2,1);(3,1);(4,1)] 5; SetBonded [0;1;2;3;4]].
Definition all (c : claim) : list op := map (fun v => Vote v true c) [0;1;2;3;4].

(** Three of five equal validators: 3/5 = 60% is not enough; the fourth makes it 80%. *)
Example ex_threshold :
  let votes k := map (fun v => Vote v true (cl 1 7 110 500)) k in
  applied (run (five ++ votes [0;1;2] ++ [Tally])) = [] /\
  applied (run (five ++ votes [0;1;2;3] ++ [Tally])) = [mkEntry 0 (cl 1 7 110 500) true] /\
  zget0 (bal (run (five ++ votes [0;1;2;3] ++ [Tally; Tally]))) 1 = 500.
Proof. vm_compute. auto. Qed.

(** The history that broke the pinned tree: one validator of five re-votes after every governance
    reset.  Its vote list stays [0] and nothing takes effect. *)
Example ex_revote_after_reset :
  let s := run (five ++ [Vote 0 true (cl 1 7 110 777); Override 0; Vote 0 true (cl 1 7 110 777); Override 0;
                Vote 0 true (cl 1 7 110 777); Override 0; Vote 0 true (cl 1 7 110 777); Tally]) in
  map (fun x => a_votes (snd x)) (atts s) = [[0]] /\ applied s = [] /\ epoch s = 3.
Proof. vm_compute. auto. Qed.

(** Two epochs, consecutive nonces in each, the same nonce taking effect again after a reset (with
    another claim), a claim below the last observed height not moving the cursor. *)
Example ex_epochs :
  let s := run (five ++ all (cl 1 7 110 10) ++ all (cl 2 8 120 20) ++ [Tally; Override 1] ++
                all (cl 2 6 130 30) ++ [Tally] ++ all (cl 3 5 1 40) ++ [Tally]) in
  nonces_of_epoch 0 (applied s) = [1; 2] /\ nonces_of_epoch 1 (applied s) = [2] /\
  last_obs s = 2 /\ epoch_cursor s = 1 /\ zget0 (bal s) 1 = 60.
Proof. vm_compute. auto 10. Qed.

(** Validators leaving the set: a vote of a validator that is not bonded is refused; the votes it
    cast while bonded keep counting with the power staking reports for it at the tally (0 once it
    left, whether or not its staking record still exists). *)
Example ex_valset_changes :
  let votes k := map (fun v => Vote v true (cl 1 7 110 500)) k in
  (* 3 is not bonded when it votes: 3 of 5 voted, nothing fires *)
  applied (run (five ++ [SetBonded [0;1;2;4]] ++ votes [0;1;2;3] ++ [Tally])) = [] /\
  (* 0..3 voted while bonded; 2 and 3 then leave and staking reports power 0: 2 of total 3 = 66.7% > 66% *)
  length (applied (run (five ++ votes [0;1;2;3] ++ [SetBonded [0;1;4]; SetPowers [(0,1);(1,1);(4,1)] 3; Tally]))) = 1%nat /\
  (* … but with the total unchanged 2 of 5 is not enough *)
  applied (run (five ++ votes [0;1;2;3] ++ [SetBonded [0;1;4]; SetPowers [(0,1);(1,1);(4,1)] 5; Tally])) = [].
Proof. vm_compute. auto. Qed.

(** The three claim types: an executed-batch claim deletes its pending batch once (a second claim for
    the same batch takes effect as an event but its handler cannot run); a sale claim creates the
    client's licence once. *)
Example ex_claim_types :
  let bc n := mkClaim n (10 + n) (100 + n) 0 1 9 4 false in          (* batch (token 9, nonce 4) executed *)
  let sc n amt := mkClaim n (20 + n) (100 + n) 0 2 33 amt true in    (* sale to client 33 *)
  let s := run (five ++ [MkBatch 9 4 1000] ++ all (bc 1) ++ all (bc 2) ++ all (sc 3 50) ++ all (sc 4 60) ++ [Tally]) in
  map e_ok (applied s) = [true; false; true; false] /\ batches s = [] /\ lic s = [(33, 50)] /\ last_obs s = 4.
Proof. vm_compute. auto. Qed.

(** Stall (1): after an override to a lower nonce the honest majority re-submits event 1 and lands on
    the old observed attestation; a competing claim with a HIGHER hash, voted by 4 of 5, is never
    tried — every tally reports an error and the cursor stays at 0 — until governance overrides
    again.  A competing claim with a LOWER hash does get through (the escape of the theorem). *)
Example ex_stall_observed :
  let pre := five ++ all (cl 1 7 110 10) ++ [Tally; Override 0] in
  let hi := pre ++ [Vote 0 true (cl 1 7 110 10)] ++ map (fun v => Vote v true (cl 1 9 111 99)) [1;2;3;4] in
  let lo := pre ++ [Vote 0 true (cl 1 7 110 10)] ++ map (fun v => Vote v true (cl 1 5 111 99)) [1;2;3;4] in
  stalled_observed (run hi) 7 /\
  tally (run hi) = (run hi, false) /\ last_obs (run (hi ++ [Tally; Tally])) = 0 /\
  length (applied (run (hi ++ [Tally]))) = 1%nat /\
  last_obs (run (hi ++ [Tally; Override 1] ++ all (cl 2 8 120 20) ++ [Tally])) = 2 /\
  last_obs (run (lo ++ [Tally])) = 1 /\ length (applied (run (lo ++ [Tally]))) = 2%nat.
Proof.
  split; [|vm_compute; auto 10].
  eexists. vm_compute. split; [left; reflexivity | split; reflexivity].
Qed.

(** Stall (2): event 2 carries a remote height below the last observed one.  It has all the votes,
    every tally reports an error, nothing is written; an override does not lift the height, but the
    oracle resumes with the next event whose height is not below it. *)
Example ex_stall_height :
  let pre := five ++ all (cl 1 7 110 10) ++ [Tally] ++ all (cl 2 8 50 20) in
  stalled_height (run pre) 8 /\
  tally (run pre) = (run pre, false) /\ applied (run (pre ++ [Tally; Tally])) = applied (run pre) /\
  last_obs (run (pre ++ [Tally; Override 2] ++ all (cl 3 9 120 30) ++ [Tally])) = 3.
Proof.
  split; [|vm_compute; auto 10].
  eexists. vm_compute. split; [right; left; reflexivity | repeat split; reflexivity].
Qed.

(** Genesis round trip inside a history: the cursor, the observed flags and the vote lists survive,
    the validators' records are rebuilt from their votes (the highest nonce each voted on), the last
    remote height and the compass id are gone, the oracle goes on. *)
Example ex_regenesis :
  let votes c k := map (fun v => Vote v true c) k in
  let s := run (five ++ all (cl 1 7 110 10) ++ [Tally] ++ votes (cl 2 8 120 20) [0;1;2] ++ [Regenesis]) in
  last_obs s = 1 /\ vnonce s = [(0,2);(1,2);(2,2);(3,1);(4,1)] /\ last_height s = 0 /\
  map (fun x => (fst x, a_obs (snd x))) (atts s) = [((1,7),true); ((2,8),false)] /\
  last_obs (run (five ++ all (cl 1 7 110 10) ++ [Tally] ++ votes (cl 2 8 120 20) [0;1;2] ++ [Regenesis]
                 ++ votes (cl 2 8 120 20) [3;4;0] ++ [Tally])) = 2.
Proof. vm_compute. auto 10. Qed.

(** * What an epoch is: only the two reset operations open one, and they say where the cursor starts *)
Lemma epochs_are_resets_run s o : Inv s ->
  match o with
  | Override n => epoch (step s o) = epoch s + 1 /\ epoch_cursor (step s o) = u64 n /\ last_obs (step s o) = u64 n
  | Activate _ => epoch (step s o) = epoch s + 1 /\ epoch_cursor (step s o) = 0 /\ last_obs (step s o) = 0
  | _ => epoch (step s o) = epoch s /\ epoch_cursor (step s o) = epoch_cursor s
  end.
Proof.
  intros I. destruct o; simpl; auto.
  - unfold vote. destruct (vote_ok _ _ _ _ _); simpl; auto.
  - destruct (tally_facts s I) as ((_ & _ & E1 & E2 & _) & _). auto.
  - unfold prune. destruct (_ <=? _); simpl; auto.
  - unfold mk_batch. destruct (_ <? _); simpl; auto.
Qed.

Lemma source_facts :
  Gen.C02.threshold_num = 66 /\ Gen.C02.threshold_den = 100 /\ Gen.C02.threshold_strict = true /\
  Gen.C02.vote_dedup = true /\ Gen.C02.height_before_cursor = true.
Proof. repeat split; reflexivity. Qed.

Lemma source_facts2 :
  Gen.C02.tally_aborts_on_error = true /\ Gen.C02.vote_requires_bonded = true /\ Gen.C02.per_chain_store_sites = 15.
Proof. repeat split; reflexivity. Qed.

(** A claim message created by another account than the validator it names is refused, whatever
    the claim type, and changes nothing. *)
Lemma foreign_vote_refused s sg v known c : sg <> v -> vote_ok s sg v known c = false /\ step s (VoteBy sg v known c) = s.
Proof.
  intros NE. assert (F : vote_ok s sg v known c = false).
  { destruct (vote_ok s sg v known c) eqn:Ok; [|reflexivity]. apply vote_ok_parts in Ok. tauto. }
  split; [exact F|]. simpl. unfold vote. now rewrite F.
Qed.

Lemma source_facts3 :
  Gen.C02.creator_bound_deposit = true /\ Gen.C02.creator_bound_batch = true /\ Gen.C02.creator_bound_sale = true.
Proof. exact src_creator. Qed.

(** The handlers convert no claim amount partially: [applicable] does not depend on the size of the
    amount (the model's handler outcome is the same for every amount of the math.Int range). *)
Lemma source_facts4 : Gen.C02.handler_amount_partial_conversions = 0.
Proof. reflexivity. Qed.

Lemma applicable_any_amount s c amt :
  c_kind c = 0 -> applicable s (mkClaim (c_nonce c) (c_h c) (c_height c) (c_compass c) 0 (c_rcv c) amt (c_tok c)) = applicable s c.
Proof. intros K. unfold applicable. simpl. now rewrite K. Qed.
