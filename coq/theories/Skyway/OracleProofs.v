(** C02 — proofs about the oracle model (Skyway/Oracle.v), for all histories. *)
From Coq Require Import List ZArith Bool Lia.
From Paloma Require Import Base.Num Skyway.Oracle.
From Paloma Require Gen.C02.
Import ListNotations.
Open Scope Z_scope.

(** * What the proofs need from the translated source.  Each is closed by [reflexivity] on the
    regenerated constants: when the source stops saying this, the file stops compiling. *)
Lemma src_dedup : Gen.C02.vote_dedup = true. Proof. reflexivity. Qed.
Lemma src_height_first : Gen.C02.height_before_cursor = true. Proof. reflexivity. Qed.
Lemma src_strict : Gen.C02.threshold_strict = true. Proof. reflexivity. Qed.
Lemma src_num : Gen.C02.threshold_num = 66. Proof. reflexivity. Qed.
Lemma src_den : Gen.C02.threshold_den = 100. Proof. reflexivity. Qed.

(** * Lists, maps *)
Lemma mem_In v l : mem v l = true <-> In v l.
Proof.
  induction l as [|x r IH]; simpl; [split; [discriminate | tauto]|].
  rewrite orb_true_iff, IH, Z.eqb_eq. split; intros [H|H]; auto.
Qed.

Lemma add_vote_In l v x : In x (add_vote l v) <-> In x l \/ x = v.
Proof.
  unfold add_vote. rewrite src_dedup. simpl.
  destruct (mem v l) eqn:E.
  - apply mem_In in E. split; [auto | intros [H|H]; subst; auto].
  - rewrite in_app_iff. simpl. split; intros [H|H]; auto.
    + destruct H as [H|[]]; auto.
Qed.

Lemma NoDup_snoc {A} (l : list A) x : NoDup l -> ~ In x l -> NoDup (l ++ [x]).
Proof.
  induction l as [|y r IH]; simpl; intros ND NI.
  - constructor; [tauto | constructor].
  - inversion ND; subst. constructor.
    + rewrite in_app_iff. simpl. intros [H|[H|[]]]; subst; tauto.
    + apply IH; tauto.
Qed.

Lemma add_vote_NoDup l v : NoDup l -> NoDup (add_vote l v).
Proof.
  intros ND. unfold add_vote. rewrite src_dedup. simpl.
  destruct (mem v l) eqn:E; [exact ND|].
  apply NoDup_snoc; [exact ND|]. intros H. apply mem_In in H. congruence.
Qed.

Lemma NoDup_app_l {A} (l1 l2 : list A) : NoDup (l1 ++ l2) -> NoDup l1.
Proof.
  induction l1 as [|x r IH]; simpl; intros H; [constructor|].
  inversion H; subst. constructor; [rewrite in_app_iff in *; tauto | auto].
Qed.

Lemma NoDup_map_inj_In {A B} (f : A -> B) l x y :
  NoDup (map f l) -> In x l -> In y l -> f x = f y -> x = y.
Proof.
  induction l as [|a r IH]; simpl; intros ND Hx Hy E; [tauto|].
  inversion ND as [|? ? NI ND']; subst.
  destruct Hx as [Hx|Hx], Hy as [Hy|Hy]; subst; auto.
  - exfalso. apply NI. rewrite E. now apply in_map.
  - exfalso. apply NI. rewrite <- E. now apply in_map.
Qed.

Lemma NoDup_map_finer {A B C} (f : A -> B) (g : A -> C) l :
  (forall x y, g x = g y -> f x = f y) -> NoDup (map f l) -> NoDup (map g l).
Proof.
  intros Hfg. induction l as [|a r IH]; simpl; intros ND; [constructor|].
  inversion ND as [|? ? NI ND']; subst. constructor; [|auto].
  intros H. apply in_map_iff in H as [y [E Hy]]. apply NI.
  apply in_map_iff. exists y. split; [now apply Hfg | exact Hy].
Qed.

Lemma keyeqb_true n h n' h' : keyeqb n h n' h' = true <-> n = n' /\ h = h'.
Proof. unfold keyeqb. rewrite andb_true_iff, !Z.eqb_eq. tauto. Qed.

Lemma get_att_In l n h a : get_att l n h = Some a -> In (n, h, a) l.
Proof.
  induction l as [|[[n' h'] a'] r IH]; simpl; [discriminate|].
  destruct (keyeqb n h n' h') eqn:E.
  - apply keyeqb_true in E as [-> ->]. intros H; inversion H; subst. now left.
  - intros H. right. auto.
Qed.

Lemma set_att_In l n h a x : In x (set_att l n h a) -> x = (n, h, a) \/ In x l.
Proof.
  induction l as [|[[n' h'] a'] r IH]; simpl.
  - intros [H|[]]; auto.
  - destruct (keyeqb n h n' h'); [|destruct (keyltb n h n' h')]; simpl.
    + intros [H|H]; auto.
    + intros [H|[H|H]]; auto.
    + intros [H|H]; auto. apply IH in H as [H|H]; auto.
Qed.

Lemma zget0_zset l k x k' : zget0 (zset l k x) k' = if k' =? k then x else zget0 l k'.
Proof.
  unfold zget0. induction l as [|[k0 x0] r IH]; simpl.
  - destruct (k' =? k); reflexivity.
  - destruct (k =? k0) eqn:E0; [|destruct (k <? k0) eqn:E1]; simpl.
    + apply Z.eqb_eq in E0; subst. destruct (k' =? k0); reflexivity.
    + destruct (k' =? k) eqn:E2; [reflexivity|]. reflexivity.
    + destruct (k' =? k0) eqn:E2.
      * apply Z.eqb_eq in E2; subst. rewrite Z.eqb_sym, E0. reflexivity.
      * exact IH.
Qed.

Lemma zseq_snoc c k : zseq c k ++ [c + Z.of_nat k] = zseq c (S k).
Proof.
  revert c. induction k as [|k IH]; intros c.
  - simpl. now rewrite Z.add_0_r.
  - change (zseq c (S k)) with (c :: zseq (c + 1) k).
    change (zseq c (S (S k))) with (c :: zseq (c + 1) (S k)).
    simpl app. f_equal. rewrite <- IH. f_equal. f_equal. lia.
Qed.

Lemma In_zseq x c k : In x (zseq c k) -> c <= x < c + Z.of_nat k.
Proof.
  revert c. induction k as [|k IH]; intros c; simpl; [tauto|].
  intros [H|H]; [lia|]. apply IH in H. lia.
Qed.

Lemma NoDup_zseq c k : NoDup (zseq c k).
Proof.
  revert c. induction k as [|k IH]; intros c; simpl; constructor; [|apply IH].
  intros H. apply In_zseq in H. lia.
Qed.

(** zseq is "consecutive": each element is its predecessor plus one. *)
Lemma zseq_consecutive c k l1 a b l2 : zseq c k = l1 ++ a :: b :: l2 -> b = a + 1.
Proof.
  revert c l1. induction k as [|k IH]; intros c l1 E.
  - destruct l1; discriminate.
  - simpl in E. destruct l1 as [|x l1]; simpl in E.
    + inversion E as [[E1 E2]]. destruct k; simpl in E2; [discriminate|]. inversion E2; lia.
    + inversion E as [[E1 E2]]. eapply IH; eauto.
Qed.

Lemma u64_succ x : 0 <= x < two64 -> 1 <= u64 (x + 1) -> u64 (x + 1) = x + 1.
Proof.
  intros Hx H1. unfold u64 in *.
  destruct (Z.eq_dec (x + 1) two64) as [E|NE].
  - rewrite E, Z.mod_same in H1; [lia | unfold two64; lia].
  - apply Z.mod_small. lia.
Qed.

Lemma u64_range x : 0 <= u64 x < two64.
Proof. unfold u64. apply Z.mod_pos_bound. unfold two64; lia. Qed.

(** * The tally fires only on a prefix of distinct... of the vote list whose power exceeds the requirement *)
Lemma fire_prefix_spec p req votes : forall acc vs,
  fire_prefix p req acc votes = Some vs ->
  exists rest, votes = vs ++ rest /\ exceeds req (acc + power p vs) = true.
Proof.
  induction votes as [|v r IH]; simpl; intros acc vs H; [discriminate|].
  destruct (exceeds req (acc + zget0 p v)) eqn:E.
  - inversion H; subst. exists r. split; [reflexivity|].
    unfold power. simpl. now rewrite Z.add_0_r.
  - destruct (fire_prefix p req (acc + zget0 p v) r) as [vs'|] eqn:F; [|discriminate].
    inversion H; subst. apply IH in F as [rest [-> Hex]].
    exists rest. split; [reflexivity|].
    unfold power in *. simpl. now rewrite Z.add_assoc.
Qed.

(** [sum > 66*T quot 100] is exactly [100*sum > 66*T] (for every sign of T). *)
Lemma exceeds_required s x : exceeds (required s) x = true -> 100 * x > 66 * total s.
Proof.
  unfold exceeds, required. rewrite src_strict, src_num, src_den. intros H. apply Z.ltb_lt in H.
  pose proof (Z.quot_rem' (66 * total s) 100) as E.
  pose proof (Z.rem_bound_abs (66 * total s) 100 ltac:(lia)). lia.
Qed.

(** * try_att: either nothing changes or the attestation fires. *)
Definition fires_in (s : state) (a : att) (vs : list Z) : Prop :=
  exists rest, a_votes a = vs ++ rest /\ exceeds (required s) (power (pw s) vs) = true /\
    a_obs a = false /\ c_nonce (a_claim a) = u64 (last_obs s + 1) /\ last_height s <= c_height (a_claim a).

Lemma try_att_cases s a :
  fst (try_att s a) = s \/ (exists vs, fires_in s a vs /\ try_att s a = (fire s a, true)).
Proof.
  unfold try_att. rewrite src_height_first.
  destruct (a_obs a) eqn:Eo; [now left|].
  destruct (fire_prefix (pw s) (required s) 0 (a_votes a)) as [vs|] eqn:F; [|now left].
  destruct (c_nonce (a_claim a) =? u64 (last_obs s + 1)) eqn:En; simpl; [|now left].
  destruct (last_height s >? c_height (a_claim a)) eqn:Eh; [now left|].
  right. exists vs. split; [|reflexivity].
  apply fire_prefix_spec in F as [rest [Hv Hex]]. exists rest.
  apply Z.eqb_eq in En. rewrite Z.gtb_ltb in Eh. apply Z.ltb_ge in Eh. simpl in Hex. auto.
Qed.

(** Loop principle: whatever is preserved by every firing of an attestation of the snapshot is
    preserved by the tally. *)
Lemma tally_loop_inv (Q : state -> Prop) l : forall s,
  (forall s1 n h a vs, In (n, h, a) l -> Q s1 -> fires_in s1 a vs -> Q (fire s1 a)) ->
  Q s -> Q (fst (tally_loop l s)).
Proof.
  induction l as [|[[n h] a] r IH]; intros s Hstep HQ; simpl; [exact HQ|].
  assert (Hr : forall s1 n h a vs, In (n, h, a) r -> Q s1 -> fires_in s1 a vs -> Q (fire s1 a)).
  { intros s1 n0 h0 a0 vs0 Hi Hq Hf. apply (Hstep s1 n0 h0 a0 vs0); [right; exact Hi | exact Hq | exact Hf]. }
  destruct (n =? u64 (last_obs s + 1)); [|now apply IH].
  destruct (try_att_cases s a) as [E|[vs [Hf E]]].
  - destruct (try_att s a) as [s' b]; simpl in E; subst s'. destruct b; [now apply IH | exact HQ].
  - rewrite E. apply IH; [exact Hr|]. apply (Hstep s n h a vs); [left; reflexivity | exact HQ | exact Hf].
Qed.

(** * State invariant *)
Definition key2 (e : entry) : Z * Z := (e_epoch e, e_nonce e).
Definition key3 (e : entry) : Z * Z * Z := (e_epoch e, e_nonce e, c_h (e_claim e)).

Record Inv (s : state) : Prop := {
  inv_nodup : forall n h a, In (n, h, a) (atts s) -> NoDup (a_votes a);
  inv_key : forall n h a, In (n, h, a) (atts s) -> c_nonce (a_claim a) = n /\ c_h (a_claim a) = h;
  inv_valid : forall n h a, In (n, h, a) (atts s) -> 1 <= n < two64;
  inv_last : 0 <= last_obs s < two64;
  inv_epoch : forall e, In e (applied s) -> e_epoch e <= epoch s;
  inv_seq : forall ep, exists c k, nonces_of_epoch ep (applied s) = zseq (c + 1) k /\
              (ep = epoch s -> c = epoch_cursor s /\ last_obs s = c + Z.of_nat k);
  inv_key2 : NoDup (map key2 (applied s));
  inv_bal : forall r, zget0 (bal s) r = minted r (applied s)
}.

Lemma Inv_init : Inv init.
Proof.
  constructor; simpl; try tauto.
  - unfold two64; lia.
  - intros ep. exists 0, O. simpl. split; [reflexivity|]. intros _. split; reflexivity.
  - constructor.
Qed.

Lemma nonces_of_epoch_snoc ep l e :
  nonces_of_epoch ep (l ++ [e]) = nonces_of_epoch ep l ++ (if e_epoch e =? ep then [e_nonce e] else []).
Proof.
  unfold nonces_of_epoch. rewrite filter_app, map_app. simpl.
  destruct (e_epoch e =? ep); reflexivity.
Qed.

Lemma In_nonces_of_epoch e l : In e l -> In (e_nonce e) (nonces_of_epoch (e_epoch e) l).
Proof.
  intros H. unfold nonces_of_epoch. apply in_map. apply filter_In. split; [exact H | apply Z.eqb_refl].
Qed.

Lemma minted_snoc r l e :
  minted r (l ++ [e]) = minted r l + (if e_ok e && (c_rcv (e_claim e) =? r) then c_amt (e_claim e) else 0).
Proof. unfold minted. rewrite map_app, zsum_app. simpl. lia. Qed.

(** Firing an attestation of the store keeps the invariant. *)
Lemma Inv_fire s a vs n h :
  Inv s -> NoDup (a_votes a) -> c_nonce (a_claim a) = n -> c_h (a_claim a) = h -> 1 <= n < two64 ->
  fires_in s a vs -> Inv (fire s a).
Proof.
  intros I ND Kn Kh Vn (rest & Hv & Hex & Ho & Hn & Hh).
  assert (Hnext : c_nonce (a_claim a) = last_obs s + 1).
  { rewrite Hn. apply u64_succ; [apply I|]. rewrite <- Hn. lia. }
  destruct (inv_seq s I (epoch s)) as (c & k & Hseq & Hcur). destruct (Hcur eq_refl) as [Hc Hl].
  constructor; unfold fire; simpl.
  - intros n0 h0 a0 H. apply set_att_In in H as [H|H]; [inversion H; subst; exact ND | eapply inv_nodup; eauto].
  - intros n0 h0 a0 H. apply set_att_In in H as [H|H]; [inversion H; subst; simpl; auto | eapply inv_key; eauto].
  - intros n0 h0 a0 H. apply set_att_In in H as [H|H]; [inversion H; subst; lia | eapply inv_valid; eauto].
  - lia.
  - intros e H. apply in_app_iff in H as [H|[H|[]]]; [now apply I | subst; simpl; lia].
  - intros ep. rewrite nonces_of_epoch_snoc. simpl.
    destruct (epoch s =? ep) eqn:E.
    + apply Z.eqb_eq in E. subst ep. exists c, (S k). rewrite Hseq. split.
      * rewrite <- zseq_snoc. f_equal. f_equal. unfold e_nonce. simpl. lia.
      * intros _. split; [exact Hc | lia].
    + apply Z.eqb_neq in E. destruct (inv_seq s I ep) as (c' & k' & Hs' & _).
      exists c', k'. rewrite app_nil_r. split; [exact Hs' | intros; congruence].
  - rewrite map_app. simpl. apply NoDup_snoc; [apply I|].
    intros H. apply in_map_iff in H as [e [Ek He]]. unfold key2 in Ek. simpl in Ek.
    inversion Ek as [[Ee En]]. pose proof (In_nonces_of_epoch e _ He) as Hin.
    rewrite Ee, Hseq in Hin. apply In_zseq in Hin. unfold e_nonce in En at 2. simpl in En. lia.
  - intros r. rewrite minted_snoc. simpl. rewrite <- (inv_bal s I r).
    destruct (c_tok (a_claim a)); simpl; [|lia].
    unfold badd. rewrite zget0_zset. rewrite (Z.eqb_sym r). destruct (c_rcv (a_claim a) =? r) eqn:E; [|lia].
    apply Z.eqb_eq in E. subst r. lia.
Qed.

Lemma Inv_tally s : Inv s -> Inv (fst (tally s)).
Proof.
  intros I. unfold tally. apply tally_loop_inv; [|exact I].
  intros s1 n h a vs Hin I1 Hf. apply filter_In in Hin as [Hin _].
  destruct (inv_key s I _ _ _ Hin) as [Kn Kh].
  apply (Inv_fire s1 a vs n h I1); [exact (inv_nodup s I _ _ _ Hin) | exact Kn | exact Kh | exact (inv_valid s I _ _ _ Hin) | exact Hf].
Qed.

Lemma Inv_vote s v known c : Inv s -> Inv (vote s v known c).
Proof.
  intros I. unfold vote. destruct (vote_ok s v known c) eqn:Ok; [|exact I].
  unfold vote_ok in Ok. apply andb_true_iff in Ok as [Ok Hh]. apply andb_true_iff in Ok as [Ok Hn].
  apply andb_true_iff in Ok as [Hk Hv].
  assert (Hva : forall a, vote_att s c = a -> NoDup (a_votes a) /\ c_nonce (a_claim a) = c_nonce c /\ c_h (a_claim a) = c_h c).
  { intros a <-. unfold vote_att. destruct (get_att (atts s) (c_nonce c) (c_h c)) as [a0|] eqn:G.
    - apply get_att_In in G. destruct (inv_key s I _ _ _ G). split; [eapply inv_nodup; eauto | auto].
    - simpl. split; [constructor | auto]. }
  destruct (Hva _ eq_refl) as (ND & Kn & Kh).
  unfold valid_claim in Hv. apply andb_true_iff in Hv as [V1 V2].
  apply Z.leb_le in V1. apply Z.ltb_lt in V2.
  constructor; simpl; try apply I.
  - intros n h a H. apply set_att_In in H as [H|H]; [inversion H; subst; simpl; now apply add_vote_NoDup | eapply inv_nodup; eauto].
  - intros n h a H. apply set_att_In in H as [H|H]; [inversion H; subst; simpl; auto | eapply inv_key; eauto].
  - intros n h a H. apply set_att_In in H as [H|H]; [inversion H; subst; lia | eapply inv_valid; eauto].
Qed.

Lemma Inv_prune s : Inv s -> Inv (prune s).
Proof.
  intros I. unfold prune. destruct (last_obs s <=? events_to_keep); [exact I|].
  constructor; simpl; try apply I.
  - intros n h a H. apply filter_In in H as [H _]. eapply inv_nodup; eauto.
  - intros n h a H. apply filter_In in H as [H _]. eapply inv_key; eauto.
  - intros n h a H. apply filter_In in H as [H _]. eapply inv_valid; eauto.
Qed.

Lemma nonces_of_later_epoch ep0 ep l :
  (forall e, In e l -> e_epoch e <= ep0) -> ep0 < ep -> nonces_of_epoch ep l = [].
Proof.
  intros Hl Hlt. unfold nonces_of_epoch. induction l as [|e r IH]; simpl; [reflexivity|].
  destruct (e_epoch e =? ep) eqn:E.
  - apply Z.eqb_eq in E. specialize (Hl e (or_introl eq_refl)). lia.
  - apply IH. intros; apply Hl; now right.
Qed.

Lemma Inv_override s n cid : Inv s -> 0 <= n < two64 -> Inv (override s n cid).
Proof.
  intros I Hn. constructor; unfold override; simpl; try apply I.
  - exact Hn.
  - intros e H. apply (inv_epoch s I) in H. lia.
  - intros ep. destruct (Z.eq_dec ep (epoch s + 1)) as [E|NE].
    + exists n, O. split; [|intros _; split; [reflexivity | simpl; lia]].
      subst ep. rewrite (nonces_of_later_epoch (epoch s)); [reflexivity | apply I | lia].
    + destruct (inv_seq s I ep) as (c & k & Hs & _). exists c, k. split; [exact Hs | intros; congruence].
Qed.

Lemma Inv_step s o : Inv s -> Inv (step s o).
Proof.
  intros I. destruct o; simpl.
  - now apply Inv_vote.
  - now apply Inv_tally.
  - now apply Inv_prune.
  - constructor; simpl; apply I.
  - constructor; simpl; apply I.
  - apply Inv_override; [exact I | apply u64_range].
  - apply Inv_override; [exact I | unfold two64; lia].
Qed.

Lemma run_snoc ops o : run (ops ++ [o]) = step (run ops) o.
Proof. unfold run. now rewrite fold_left_app. Qed.

Lemma Inv_run ops : Inv (run ops).
Proof.
  induction ops as [|o ops IH] using rev_ind; [exact Inv_init|].
  rewrite run_snoc. now apply Inv_step.
Qed.

(** * Clauses that follow from the state invariant *)

(** Within one reset epoch at most one claim per nonce takes effect. *)
Lemma one_claim_per_nonce_run ops e1 e2 :
  In e1 (applied (run ops)) -> In e2 (applied (run ops)) ->
  e_epoch e1 = e_epoch e2 -> e_nonce e1 = e_nonce e2 -> e1 = e2.
Proof.
  intros H1 H2 Ee En. apply (NoDup_map_inj_In key2 (applied (run ops))); auto.
  - apply Inv_run.
  - unfold key2. congruence.
Qed.

(** No (epoch, nonce, claim hash) takes effect twice. *)
Lemma applied_at_most_once_run ops : NoDup (map key3 (applied (run ops))).
Proof.
  apply (NoDup_map_finer key2 key3); [|apply Inv_run].
  intros x y E. unfold key2, key3 in *. congruence.
Qed.

(** The claims that took effect in an epoch are at consecutive nonces, starting right after the
    value the cursor was given by the reset that opened the epoch, and the cursor of the running
    epoch is the nonce of the last of them: it never moves without a claim taking effect. *)
Lemma applied_consecutive_run ops ep :
  exists c k, nonces_of_epoch ep (applied (run ops)) = zseq (c + 1) k /\
    (ep = epoch (run ops) -> c = epoch_cursor (run ops) /\ last_obs (run ops) = c + Z.of_nat k).
Proof. apply Inv_run. Qed.

Lemma applied_consecutive_pairs ops ep l1 a b l2 :
  nonces_of_epoch ep (applied (run ops)) = l1 ++ a :: b :: l2 -> b = a + 1.
Proof.
  destruct (applied_consecutive_run ops ep) as (c & k & E & _). rewrite E.
  apply zseq_consecutive.
Qed.

(** What the bank holds for a receiver is the sum over the effect log: every claim that took
    effect and can be applied (registered token) paid exactly once, nothing else paid. *)
Lemma effects_exactly_once_run ops r : zget0 (bal (run ops)) r = minted r (applied (run ops)).
Proof. apply Inv_run. Qed.

(** * Frame: what a tally does not touch, and where its new effects come from *)
Definition tally_frame (s0 s1 : state) : Prop :=
  pw s1 = pw s0 /\ total s1 = total s0 /\ epoch s1 = epoch s0 /\ epoch_cursor s1 = epoch_cursor s0 /\
  vnonce s1 = vnonce s0 /\ compass s1 = compass s0.

Definition atts_from (s0 s1 : state) : Prop :=
  forall n h a, In (n, h, a) (atts s1) ->
    exists a0, In (n, h, a0) (atts s0) /\ a_votes a = a_votes a0 /\ a_claim a = a_claim a0.

(** A new effect of a tally: an attestation of the pre-tally store, a prefix of its vote list whose
    power (under the powers of that moment) exceeds the requirement. *)
Definition effect_witness (s0 : state) (e : entry) : Prop :=
  exists n h a vs rest, In (n, h, a) (atts s0) /\ e_claim e = a_claim a /\ e_epoch e = epoch s0 /\
    a_votes a = vs ++ rest /\ exceeds (required s0) (power (pw s0) vs) = true /\
    in_compass s0 (n, h, a) = true.

Lemma tally_facts s0 : Inv s0 ->
  let s1 := fst (tally s0) in
  tally_frame s0 s1 /\ atts_from s0 s1 /\
  (forall e, In e (applied s1) -> In e (applied s0) \/ effect_witness s0 e).
Proof.
  intros I. unfold tally.
  apply (tally_loop_inv (fun s1 => tally_frame s0 s1 /\ atts_from s0 s1 /\
          (forall e, In e (applied s1) -> In e (applied s0) \/ effect_witness s0 e))).
  - intros s1 n h a vs Hin (Fr & Af & Ap) (rest & Hv & Hex & _). apply filter_In in Hin as [Hin Hcomp].
    destruct Fr as (Fp & Ft & Fe & Fc & Fv & Fm).
    destruct (inv_key s0 I _ _ _ Hin) as [Kn Kh].
    split; [|split].
    + unfold tally_frame, fire; simpl. auto 10.
    + intros n1 h1 a1 H. unfold fire in H; simpl in H. apply set_att_In in H as [H|H].
      * inversion H; subst. exists a. simpl. auto.
      * now apply Af.
    + intros e H. unfold fire in H; simpl in H. apply in_app_iff in H as [H|[H|[]]]; [now apply Ap|].
      right. subst e. exists n, h, a, vs, rest. simpl.
      unfold required in *. rewrite Ft, Fp in Hex. auto 10.
  - split; [|split].
    + unfold tally_frame. auto 10.
    + intros n h a H. exists a. auto.
    + auto.
Qed.

(** * History invariant: every entry of a vote list comes from an accepted vote for that key *)
Lemma accepted_vote_snoc ops o v c : accepted_vote ops v c -> accepted_vote (ops ++ [o]) v c.
Proof.
  intros (o1 & o2 & kn & E & Ok). exists o1, (o2 ++ [o]), kn. split; [|exact Ok].
  rewrite E, <- app_assoc. reflexivity.
Qed.

Definition vote_of (ops : list op) (v n h ht : Z) : Prop :=
  exists c, accepted_vote ops v c /\ c_nonce c = n /\ c_h c = h /\ c_height c = ht.

Lemma votes_have_history ops : forall n h a v,
  In (n, h, a) (atts (run ops)) -> In v (a_votes a) -> vote_of ops v n h (c_height (a_claim a)).
Proof.
  induction ops as [|o ops IH] using rev_ind; [simpl; tauto|].
  assert (Mono : forall v n h ht, vote_of ops v n h ht -> vote_of (ops ++ [o]) v n h ht).
  { intros v n h ht (c & A & E). exists c. split; [now apply accepted_vote_snoc | exact E]. }
  rewrite run_snoc. pose proof (Inv_run ops) as I. set (s := run ops) in *.
  intros n h a v Hin Hv. destruct o; simpl in Hin.
  - (* Vote *)
    unfold vote in Hin. destruct (vote_ok s v0 known c) eqn:Ok; [|apply Mono; eapply IH; eauto].
    simpl in Hin. apply set_att_In in Hin as [Hin|Hin]; [|apply Mono; eapply IH; eauto].
    inversion Hin; subst n h a. clear Hin. simpl in *.
    assert (Hh : c_height (a_claim (vote_att s c)) = c_height c).
    { unfold vote_ok in Ok. apply andb_true_iff in Ok as [_ Ok]. now apply Z.eqb_eq in Ok. }
    apply add_vote_In in Hv as [Hv| ->].
    + unfold vote_att in *. destruct (get_att (atts s) (c_nonce c) (c_h c)) as [a0|] eqn:G; [|destruct Hv].
      apply get_att_In in G. apply Mono. eapply IH; eauto.
    + exists c. split; [|auto]. exists ops, [], known. split; [reflexivity | exact Ok].
  - (* Tally *)
    destruct (tally_facts s I) as (_ & Af & _). apply Af in Hin as (a0 & Hin0 & Ev & Ec).
    rewrite Ec. apply Mono. eapply IH; eauto. now rewrite <- Ev.
  - (* Prune *)
    unfold prune in Hin. destruct (last_obs s <=? events_to_keep); [apply Mono; eapply IH; eauto|].
    simpl in Hin. apply filter_In in Hin as [Hin _]. apply Mono; eapply IH; eauto.
  - apply Mono; eapply IH; eauto.
  - apply Mono; eapply IH; eauto.
  - apply Mono; eapply IH; eauto.
  - apply Mono; eapply IH; eauto.
Qed.

(** * The headline clause *)
Definition same_or_collision (c c' : claim) : Prop :=
  c = c' \/ (c <> c' /\ c_h c = c_h c').

Lemma claim_eq_dec (c c' : claim) : {c = c'} + {c <> c'}.
Proof. decide equality; try apply Z.eq_dec; apply bool_dec. Qed.

Lemma observed_needs_gt66_distinct_run ops e :
  In e (applied (run ops)) ->
  exists ops1 ops2 vs,
    ops = ops1 ++ Tally :: ops2 /\
    NoDup vs /\
    (forall v, In v vs -> exists c, accepted_vote ops1 v c /\
        c_nonce c = c_nonce (e_claim e) /\ c_height c = c_height (e_claim e) /\ same_or_collision c (e_claim e)) /\
    100 * power (pw (run ops1)) vs > 66 * total (run ops1).
Proof.
  induction ops as [|o ops IH] using rev_ind; [simpl; tauto|].
  rewrite run_snoc. pose proof (Inv_run ops) as I. intros Hin.
  assert (Old : In e (applied (run ops)) -> exists ops1 ops2 vs,
    ops ++ [o] = ops1 ++ Tally :: ops2 /\ NoDup vs /\
    (forall v, In v vs -> exists c, accepted_vote ops1 v c /\
        c_nonce c = c_nonce (e_claim e) /\ c_height c = c_height (e_claim e) /\ same_or_collision c (e_claim e)) /\
    100 * power (pw (run ops1)) vs > 66 * total (run ops1)).
  { intros H. destruct (IH H) as (o1 & o2 & vs & E & R). exists o1, (o2 ++ [o]), vs.
    split; [|exact R]. rewrite E, <- app_assoc. reflexivity. }
  destruct o; simpl in Hin; try (apply Old; exact Hin).
  - (* Vote *) apply Old. unfold vote in Hin. destruct (vote_ok _ _ _ _); exact Hin.
  - (* Tally *)
    destruct (tally_facts _ I) as (_ & _ & Ap). apply Ap in Hin as [Hin|W]; [now apply Old|].
    destruct W as (n & h & a & vs & rest & Ha & Ec & _ & Hv & Hex & _).
    exists ops, [], vs. split; [reflexivity|]. split; [|split].
    + apply (NoDup_app_l vs rest). rewrite <- Hv. eapply inv_nodup; eauto.
    + intros v Hvin.
      destruct (votes_have_history ops n h a v Ha) as (c & A & En & Eh & Eht).
      { rewrite Hv. apply in_app_iff. now left. }
      destruct (inv_key _ I _ _ _ Ha) as [Kn Kh].
      exists c. rewrite Ec. split; [exact A|]. split; [congruence|]. split; [exact Eht|].
      destruct (claim_eq_dec c (a_claim a)) as [E|NE]; [now left | right; split; [exact NE | congruence]].
    + now apply exceeds_required.
  - (* Prune *) apply Old. unfold prune in Hin. destruct (_ <=? _); exact Hin.
Qed.

(** Only claims of the current bridge deployment take effect: at the tally that applied it, the
    claim named the latest compass id (or no compass id was recorded yet). *)
Lemma applied_of_current_deployment_run ops e :
  In e (applied (run ops)) ->
  exists ops1 ops2, ops = ops1 ++ Tally :: ops2 /\
    (compass (run ops1) = 0 \/ c_compass (e_claim e) = compass (run ops1)).
Proof.
  induction ops as [|o ops IH] using rev_ind; [simpl; tauto|].
  rewrite run_snoc. pose proof (Inv_run ops) as I. intros Hin.
  assert (Old : In e (applied (run ops)) -> exists ops1 ops2, ops ++ [o] = ops1 ++ Tally :: ops2 /\
    (compass (run ops1) = 0 \/ c_compass (e_claim e) = compass (run ops1))).
  { intros H. destruct (IH H) as (o1 & o2 & E & R). exists o1, (o2 ++ [o]).
    split; [|exact R]. rewrite E, <- app_assoc. reflexivity. }
  destruct o; simpl in Hin; try (apply Old; exact Hin).
  - apply Old. unfold vote in Hin. destruct (vote_ok _ _ _ _); exact Hin.
  - destruct (tally_facts _ I) as (_ & _ & Ap). apply Ap in Hin as [Hin|W]; [now apply Old|].
    destruct W as (n & h & a & vs & rest & Ha & Ec & _ & _ & _ & Hc).
    exists ops, []. split; [reflexivity|]. rewrite Ec.
    unfold in_compass in Hc. simpl in Hc. apply orb_true_iff in Hc as [Hc|Hc]; apply Z.eqb_eq in Hc; auto.
  - apply Old. unfold prune in Hin. destruct (_ <=? _); exact Hin.
Qed.

(** * Non-vacuity: concrete histories *)
Definition cl (n h ht amt : Z) : claim := mkClaim n h ht 0 1 amt true.

(** Three of five equal validators: 3/5 = 60% is not enough; the fourth makes it 80%. *)
Example ex_threshold :
  let votes k := map (fun v => Vote v true (cl 1 7 110 500)) k in
  applied (run (SetPowers [(0,1);(1,1);(2,1);(3,1);(4,1)] 5 :: votes [0;1;2] ++ [Tally])) = [] /\
  applied (run (SetPowers [(0,1);(1,1);(2,1);(3,1);(4,1)] 5 :: votes [0;1;2;3] ++ [Tally]))
    = [mkEntry 0 (cl 1 7 110 500) true] /\
  zget0 (bal (run (SetPowers [(0,1);(1,1);(2,1);(3,1);(4,1)] 5 :: votes [0;1;2;3] ++ [Tally; Tally]))) 1 = 500.
Proof. vm_compute. auto. Qed.

(** The history that broke the pinned tree: one validator of five re-votes after every governance
    reset.  Its vote list stays [0] and nothing takes effect. *)
Example ex_revote_after_reset :
  let s := run [SetPowers [(0,1);(1,1);(2,1);(3,1);(4,1)] 5;
                Vote 0 true (cl 1 7 110 777); Override 0; Vote 0 true (cl 1 7 110 777); Override 0;
                Vote 0 true (cl 1 7 110 777); Override 0; Vote 0 true (cl 1 7 110 777); Tally] in
  map (fun x => a_votes (snd x)) (atts s) = [[0]] /\ applied s = [] /\ epoch s = 3.
Proof. vm_compute. auto. Qed.

(** Two epochs, consecutive nonces in each, the same nonce taking effect again after a reset (with
    another claim), a claim below the last observed height not moving the cursor. *)
Example ex_epochs :
  let all c := map (fun v => Vote v true c) [0;1;2;3;4] in
  let s := run (SetPowers [(0,1);(1,1);(2,1);(3,1);(4,1)] 5 ::
                all (cl 1 7 110 10) ++ all (cl 2 8 120 20) ++ [Tally; Override 1] ++
                all (cl 2 6 130 30) ++ [Tally] ++ all (cl 3 5 1 40) ++ [Tally]) in
  nonces_of_epoch 0 (applied s) = [1; 2] /\ nonces_of_epoch 1 (applied s) = [2] /\
  last_obs s = 2 /\ epoch_cursor s = 1 /\ zget0 (bal s) 1 = 60.
Proof. vm_compute. auto 10. Qed.

(** * What an epoch is: only the two reset operations open one, and they say where the cursor starts *)
Lemma epochs_are_resets_run s o : Inv s ->
  match o with
  | Override n => epoch (step s o) = epoch s + 1 /\ epoch_cursor (step s o) = u64 n /\ last_obs (step s o) = u64 n
  | Activate _ => epoch (step s o) = epoch s + 1 /\ epoch_cursor (step s o) = 0 /\ last_obs (step s o) = 0
  | _ => epoch (step s o) = epoch s /\ epoch_cursor (step s o) = epoch_cursor s
  end.
Proof.
  intros I. destruct o; simpl; auto.
  - unfold vote. destruct (vote_ok _ _ _ _); simpl; auto.
  - destruct (tally_facts s I) as ((_ & _ & E1 & E2 & _) & _). auto.
  - unfold prune. destruct (_ <=? _); simpl; auto.
Qed.

Lemma source_facts :
  Gen.C02.threshold_num = 66 /\ Gen.C02.threshold_den = 100 /\ Gen.C02.threshold_strict = true /\
  Gen.C02.vote_dedup = true /\ Gen.C02.height_before_cursor = true.
Proof. repeat split; reflexivity. Qed.
