(** C11, second round — what stands in front of [Keeper.Attest], genesis re-import, and attestations
    stored under a key that is not (any longer) the key of their body.  Definitions only; proofs are in
    ClaimsGateProofs.v.

    * [attest_g]: a submission is handed to [attest] only if a gate lets it pass; the gate is an
      ARBITRARY function of the position in the history, the state, the validator and the claim
      (ValidateBasic in the message router, the creator / validator-in-set checks of the msg server,
      additionalPatchChecks against the outgoing batches currently in state, anything added later).
    * [msg_gate]: the concrete gate of the pinned tree: the stateless checks of the claim type's
      ValidateBasic (table [G.validate_checks]) and, for a batch claim, additionalPatchChecks against
      the outgoing batches in state (shape pinned by [G.batch_gate]).
    * [reimport]: ExportGenesis / InitGenesis of the attestations: every exported attestation is stored
      again under the key computed from its stored body; a later one overwrites an earlier one with the
      same key. *)
From Coq Require Import List NArith ZArith Bool String.
From Coq Require Import Strings.Byte.
From Paloma Require Import Base.Sha256 Skyway.Claims.
Import ListNotations.
Open Scope N_scope.

(** ** Ethereum address syntax: libeth.ValidateEthAddress + gethcommon.HexToAddress *)
Definition hexval (b : byte) : option N :=
  let n := Byte.to_N b in
  if (48 <=? n) && (n <=? 57) then Some (n - 48)
  else if (97 <=? n) && (n <=? 102) then Some (n - 87)
  else if (65 <=? n) && (n <=? 70) then Some (n - 55)
  else None.

Fixpoint hexpairs (l : text) : option text :=
  match l with
  | [] => Some []
  | a :: b :: r =>
      match hexval a, hexval b, hexpairs r with
      | Some x, Some y, Some t => Some (byte_of_N (16 * x + y) :: t)
      | _, _, _ => None
      end
  | _ => None
  end.

(** has0xPrefix: len >= 2, '0', then 'x' or 'X' *)
Definition strip0x (s : text) : text :=
  match s with
  | a :: b :: r => if Byte.eqb a x30 && (Byte.eqb b x78 || Byte.eqb b x58) then r else s
  | _ => s
  end.

(** [Some] of the 20 address bytes iff the text is accepted by ValidateEthAddress *)
Definition eth_parse (s : text) : option text :=
  let r := strip0x s in
  if Nat.eqb (List.length r) 40 then hexpairs r else None.

Definition model_eth_validate_shape : list string :=
  ["if $a == """" => return-error"; "if has0xPrefix($a) => $a = $a[2:]";
   "if _, err := hex.DecodeString($a); err != nil => return-error";
   "if !common.IsHexAddress($a) => return-error"; "return nil";
   "has0xPrefix: return len($a) >= 2 && $a[0] == '0' && ($a[1] == 'x' || $a[1] == 'X')"]%string.

(** ** ValidateBasic (stateless) *)
Definition check_ok (c : claim) (p : string * string) : bool :=
  if String.eqb (fst p) "meta" then true   (* creator / signers: not part of a claim body in this model *)
  else if String.eqb (fst p) "nonzero" then negb (c_num c (snd p) =? 0)
  else if String.eqb (fst p) "eth" then (match eth_parse (c_str c (snd p)) with Some _ => true | None => false end)
  else false.
Definition valid_basic (c : claim) : bool := forallb (check_ok c) (G.validate_checks (c_type c)).

(** ** additionalPatchChecks: outgoing batches in state = (token contract bytes, batch nonce, timeout) *)
Definition batch := (text * N * N)%type.
Fixpoint find_batch (bs : list batch) (a : text) (n : N) : option N :=
  match bs with
  | [] => None
  | (a', n', t) :: r => if text_eqb a' a && (n' =? n) then Some t else find_batch r a n
  end.

Definition model_batch_gate : list string :=
  ["contractAddress, err := types.NewEthAddress($m.TokenContract)"; "if err != nil return error";
   "b, err := k.GetOutgoingTXBatch(ctx, *contractAddress, $m.BatchNonce)"; "if err != nil return error";
   "if b == nil return nil"; "if b.BatchTimeout <= $m.EthBlockHeight return error"; "return nil"]%string.

Definition batch_claim_type : string := "MsgBatchSendToRemoteClaim".

Definition batch_gate (bs : list batch) (c : claim) : bool :=
  if String.eqb (c_type c) batch_claim_type then
    match eth_parse (c_str c "TokenContract") with
    | None => false
    | Some a => match find_batch bs a (c_num c "BatchNonce") with
                | None => true                                   (* batch deleted: just add the vote *)
                | Some t => negb (t <=? c_num c "EthBlockHeight")  (* refused once timed out *)
                end
    end
  else true.

Definition msg_gate (bs : list batch) (c : claim) : bool := valid_basic c && batch_gate bs c.

(** ** Gated submissions *)
Definition gate := N -> state -> N -> claim -> bool.   (* position, state, validator, claim *)

Definition attest_g (g : gate) (K : text) (s : state) (i v : N) (c : claim) : state * bool :=
  if g i s v c then attest K s i v c else (s, false).

Fixpoint run_g_from (g : gate) (K : text) (s : state) (i : N) (ops : list op) : state :=
  match ops with
  | [] => s
  | (v, c) :: r => run_g_from g K (fst (attest_g g K s i v c)) (N.succ i) r
  end.
Definition run_g (g : gate) (K : text) (ops : list op) : state := run_g_from g K init 0 ops.

(** the msg server of the pinned tree with outgoing batches [bs] in state *)
Definition ms_gate (bs : list batch) : gate := fun _ _ _ c => msg_gate bs c.
Definition run_ms (bs : list batch) (K : text) (ops : list op) : state := run_g (ms_gate bs) K ops.

(** ** The claim types the model and the harness know; the implementers the source has *)
Definition known_claim_types : list string :=
  ["MsgBatchSendToEthClaim"; "MsgBatchSendToRemoteClaim"; "MsgLightNodeSaleClaim"; "MsgSendToPalomaClaim"]%string.

Fixpoint strs_eqb (l1 l2 : list string) : bool :=
  match l1, l2 with
  | [], [] => true
  | a :: r, b :: s => String.eqb a b && strs_eqb r s
  | _, _ => false
  end.

Definition subset (l1 l2 : list string) : bool := forallb (fun x => mem x l2) l1.

(** every implementer of the claim interface (and everything registered for it, asserted to implement
    it, routed by the msg server or handled by the attestation handler) is a claim type covered by the
    generated tables, and every such type is known to the model; the shapes the gate model follows are
    the ones in the source *)
Definition gate_tables_ok : bool :=
  subset G.claim_impls G.claim_types && subset G.claim_registered G.claim_impls
  && subset G.claim_asserted G.claim_impls && subset G.claim_handled G.claim_impls
  && subset G.live_types G.claim_handled
  && subset G.claim_types known_claim_types
  && strs_eqb G.batch_gate model_batch_gate
  && strs_eqb G.batch_gate_users ["BatchSendToRemoteClaim"]%string
  && strs_eqb G.eth_validate_shape model_eth_validate_shape
  && forallb (fun ct => forallb (fun p => mem (fst p) ["meta"; "nonzero"; "eth"]%string) (G.validate_checks ct)) G.claim_types.

(** ** Genesis export / import of attestations *)
Fixpoint put_att (l : list att) (a : att) : list att :=
  match l with
  | [] => [a]
  | x :: r => if text_eqb (a_key x) (a_key a) then a :: r else x :: put_att r a
  end.

Definition rekey (K : text) (a : att) : att :=
  {| a_key := att_key K (a_body a); a_src := a_src a; a_body := a_body a; a_votes := a_votes a |}.

(** InitGenesis over the exported list: SetAttestation under the key of the stored body *)
Definition reimport_atts (K : text) (l : list att) : list att :=
  fold_left (fun acc a => put_att acc (rekey K a)) l [].

(** a stored attestation is well keyed if its key is the key of its body *)
Definition well_keyed (K : text) (a : att) : Prop := a_key a = att_key K (a_body a).

(** export order = store iteration order = lexicographic order of the raw keys *)
Fixpoint text_leb (a b : text) : bool :=
  match a, b with
  | [], _ => true
  | _ :: _, [] => false
  | x :: r, y :: s => if Byte.to_N x <? Byte.to_N y then true
                      else if Byte.to_N y <? Byte.to_N x then false
                      else text_leb r s
  end.
Fixpoint insert_att (a : att) (l : list att) : list att :=
  match l with
  | [] => [a]
  | x :: r => if text_leb (a_key a) (a_key x) then a :: l else x :: insert_att a r
  end.
Definition sort_atts (l : list att) : list att := fold_right insert_att [] l.

(** InitGenesis rebuilds the per-validator last nonce from the votes of the imported attestations *)
Definition bump (ls : list (N * text * N)) (v : N) (ch : text) (n : N) : list (N * text * N) :=
  if last_of ls v ch <? n then (v, ch, n) :: ls else ls.
Definition relast (l : list att) : list (N * text * N) :=
  fold_left (fun ls a => fold_left (fun ls v => bump ls v (chain_of (a_body a)) (nonce_of (a_body a))) (a_votes a) ls) l [].

Definition reimport (K : text) (s : state) : state :=
  let exported := sort_atts (atts s) in
  {| atts := reimport_atts K exported; lasts := relast exported |}.

(** votes counted under a raw store key *)
Definition votes_at (s : state) (k : text) : list N :=
  match find_att (atts s) k with Some a => a_votes a | None => [] end.

(** which submissions passed the gate at the time they were made *)
Fixpoint passed_from (g : gate) (K : text) (s : state) (i : N) (ops : list op) : list op :=
  match ops with
  | [] => []
  | (v, c) :: r => (if g i s v c then [(v, c)] else []) ++ passed_from g K (fst (attest_g g K s i v c)) (N.succ i) r
  end.

(** ** Where the fields exempted from the hash are read (third round, seeded C11-E)
    Orchestrator / Metadata / EventNonce are exempted from [effect_fields] because they are the voter's identity, the
    transaction's metadata, and a number only ValidateBasic looks at.  That is only sound while the tally path
    (TryAttestation and every helper it hands the claim to, the attestation handlers) reads nothing but hashed / key
    fields, and EventNonce is read by nothing on the submission path but the claim's own ValidateBasic. *)
Definition effect_reads_ok : bool :=
  forallb (fun ct =>
    forallb (fun f => mem f (hashed_fields ct) || mem f (G.key_fields ct)) (G.tally_fields ct)
    && negb (mem "EventNonce"%string (G.submit_fields_nogate ct))) G.claim_types.
