(** C01 — invariants and proofs about Skyway/Bridge.v. *)
From Coq Require Import List ZArith Bool Lia Permutation.
From Paloma Require Import Gen.C01 Skyway.Bridge.
Import ListNotations.
Open Scope Z_scope.

(** * Lists *)

Lemma pool_insert_perm : forall t l, Permutation (pool_insert t l) (t :: l).
Proof.
  intros t l; induction l as [|x r IH]; simpl; [reflexivity|].
  destruct (tx_key_lt x t); [reflexivity|].
  rewrite IH. apply perm_swap.
Qed.

Lemma pool_insert_all_perm : forall ts l, Permutation (pool_insert_all ts l) (ts ++ l).
Proof.
  unfold pool_insert_all. induction ts as [|t r IH]; intros l; simpl; [reflexivity|].
  rewrite IH. rewrite pool_insert_perm. symmetry. apply Permutation_middle.
Qed.

Lemma batch_insert_perm : forall b l, Permutation (batch_insert b l) (b :: l).
Proof.
  intros b l; induction l as [|x r IH]; simpl; [reflexivity|].
  destruct (batch_key_lt x b); [reflexivity|].
  rewrite IH. apply perm_swap.
Qed.

Lemma batch_insert_all_perm : forall bs acc,
  Permutation (fold_left (fun acc b => batch_insert b acc) bs acc) (bs ++ acc).
Proof.
  induction bs as [|b r IH]; intros acc; simpl; [reflexivity|].
  rewrite IH. rewrite batch_insert_perm. symmetry. apply Permutation_middle.
Qed.

Lemma pick_perm : forall c k n l p q, pick c k n l = (p, q) -> Permutation (p ++ q) l.
Proof.
  intros c k n l; revert n; induction l as [|t r IH]; intros n p q H; simpl in H.
  - inversion H; reflexivity.
  - destruct n as [|n'].
    + inversion H; reflexivity.
    + destruct ((t_contract t =? k) && (t_chain t =? c)).
      * destruct (pick c k n' r) as [p' q'] eqn:E. inversion H; subst. simpl.
        constructor. eapply IH; eauto.
      * destruct (pick c k (S n') r) as [p' q'] eqn:E. inversion H; subst.
        rewrite <- Permutation_middle. constructor. eapply IH; eauto.
Qed.

Lemma pick_spec : forall c k n l p q, pick c k n l = (p, q) ->
  Forall (fun t => t_chain t = c /\ t_contract t = k) p.
Proof.
  intros c k n l; revert n; induction l as [|t r IH]; intros n p q H; simpl in H.
  - inversion H; constructor.
  - destruct n as [|n'].
    + inversion H; constructor.
    + destruct ((t_contract t =? k) && (t_chain t =? c)) eqn:M.
      * destruct (pick c k n' r) as [p' q'] eqn:E. inversion H; subst.
        apply andb_true_iff in M as [M1 M2]. constructor; [lia|]. eapply IH; eauto.
      * destruct (pick c k (S n') r) as [p' q'] eqn:E. inversion H; subst. eapply IH; eauto.
Qed.

Lemma pick_length : forall c k n l p q, pick c k n l = (p, q) -> (length p <= n)%nat.
Proof.
  intros c k n l; revert n; induction l as [|t r IH]; intros n p q H; simpl in H.
  - inversion H; simpl; lia.
  - destruct n as [|n'].
    + inversion H; simpl; lia.
    + destruct ((t_contract t =? k) && (t_chain t =? c)).
      * destruct (pick c k n' r) as [p' q'] eqn:E. inversion H; subst. simpl.
        apply IH in E. lia.
      * destruct (pick c k (S n') r) as [p' q'] eqn:E. inversion H; subst. eapply IH; eauto.
Qed.

Lemma find_remove_first_perm : forall A (p : A -> bool) l x,
  find p l = Some x -> Permutation l (x :: remove_first p l).
Proof.
  intros A p l; induction l as [|y r IH]; intros x H; simpl in *; [discriminate|].
  destruct (p y).
  - inversion H; subst. reflexivity.
  - rewrite (IH _ H) at 1. apply perm_swap.
Qed.

Lemma flat_map_perm : forall A B (g : A -> list B) l1 l2,
  Permutation l1 l2 -> Permutation (flat_map g l1) (flat_map g l2).
Proof.
  intros A B g l1 l2 H; induction H; simpl.
  - reflexivity.
  - now apply Permutation_app_head.
  - rewrite !app_assoc. apply Permutation_app_tail. apply Permutation_app_comm.
  - etransitivity; eauto.
Qed.

Lemma flat_map_set_gas : forall k n est l,
  flat_map b_txs (map (fun x => if is_batch k n x then set_gas x est else x) l) = flat_map b_txs l.
Proof.
  intros k n est l; induction l as [|b r IH]; simpl; [reflexivity|].
  rewrite IH. destruct (is_batch k n b); reflexivity.
Qed.

(** * Sums *)

Lemma sum_for_app : forall tb d l1 l2, sum_for tb d (l1 ++ l2) = sum_for tb d l1 + sum_for tb d l2.
Proof.
  intros tb d l1 l2; induction l1 as [|t r IH]; simpl; [reflexivity|].
  unfold sum_for in *. simpl. rewrite IH. lia.
Qed.

Lemma sum_for_cons : forall tb d t l, sum_for tb d (t :: l) = contrib tb d t + sum_for tb d l.
Proof. reflexivity. Qed.

Lemma sum_for_perm : forall tb d l1 l2, Permutation l1 l2 -> sum_for tb d l1 = sum_for tb d l2.
Proof.
  intros tb d l1 l2 H; induction H.
  - reflexivity.
  - rewrite !sum_for_cons. lia.
  - rewrite !sum_for_cons. lia.
  - lia.
Qed.

Lemma sum_for_homog : forall tb d d0 l,
  Forall (fun t => tx_denom tb t = Some d0) l ->
  sum_for tb d l = if d0 =? d then total_owed l else 0.
Proof.
  intros tb d d0 l H; induction H as [|t r Ht Hr IH].
  - simpl. destruct (d0 =? d); reflexivity.
  - rewrite sum_for_cons, IH. unfold contrib. rewrite Ht. simpl.
    destruct (d0 =? d); lia.
Qed.

(** * [atomically] *)

Lemma atomically_cases : forall s r s' out n,
  atomically s r = (s', out, n) ->
  (out = Ok /\ r = (s', Ok, n)) \/ (out = Err /\ s' = s).
Proof.
  intros s [[s1 o1] n1] s' out n H. simpl in H. destruct o1; inversion H; subst; auto.
Qed.

(** * Counting where an id is *)

Lemma occ_app : forall l1 l2 i, occ (l1 ++ l2) i = (occ l1 i + occ l2 i)%nat.
Proof. intros; apply count_occ_app. Qed.
Lemma occ_perm : forall l1 l2 i, Permutation l1 l2 -> occ l1 i = occ l2 i.
Proof. intros l1 l2 i H. now apply (Permutation_count_occ Z.eq_dec). Qed.
Lemma occ_cons : forall x l i, occ (x :: l) i = ((if (x =? i)%Z then 1 else 0) + occ l i)%nat.
Proof.
  intros x l i. unfold occ. simpl. destruct (Z.eq_dec x i) as [E|E].
  - subst. now rewrite Z.eqb_refl.
  - destruct (x =? i) eqn:B; [lia | reflexivity].
Qed.
Lemma occ_nil : forall i, occ [] i = 0%nat.
Proof. reflexivity. Qed.
Arguments occ : simpl never.

(** * The invariant *)

Definition batch_homog (b : batch) : Prop :=
  Forall (fun t => t_chain t = b_chain b /\ t_contract t = b_contract b) (b_txs b).

Definition pend_ids (s : state) : list Z := map t_id (pending s).
Definition places (s : state) (i : Z) : nat :=
  (occ (pend_ids s) i + occ (refunded s) i + occ (burned s) i)%nat.
Definition in_range (s : state) (i : Z) : nat :=
  if (1 <=? i) && (i <=? last_tx s) then 1%nat else 0%nat.

Record Inv (s : state) : Prop := {
  inv_escrow : forall d, escrow s d = sum_for (table s) d (pending s);
  inv_homog : Forall batch_homog (batches s);
  inv_last : 0 <= last_tx s;
  inv_count : forall i, places s i = in_range s i
}.

Lemma init_inv : forall tb b0 sup0, Inv (init tb b0 sup0).
Proof.
  intros; constructor; simpl.
  - reflexivity.
  - constructor.
  - lia.
  - intros i. unfold places, in_range; simpl.
    destruct ((1 <=? i) && (i <=? 0)) eqn:E; [lia | reflexivity].
Qed.

(** moving transfers between pool and batches *)
Lemma inv_perm : forall s s',
  table s' = table s -> (forall d, escrow s' d = escrow s d) ->
  Permutation (pending s') (pending s) ->
  refunded s' = refunded s -> burned s' = burned s -> last_tx s' = last_tx s ->
  Forall batch_homog (batches s') ->
  Inv s -> Inv s'.
Proof.
  intros s s' Ht He Hp Hr Hb Hl Hh [I1 I2 I3 I4].
  constructor.
  - intros d. rewrite He, Ht, I1. symmetry. now apply sum_for_perm.
  - exact Hh.
  - lia.
  - intros i. unfold places, in_range, pend_ids in *. rewrite Hr, Hb, Hl, <- I4.
    rewrite (occ_perm _ _ i (Permutation_map t_id Hp)). reflexivity.
Qed.

Lemma upd_same : forall g k v, upd g k v k = v.
Proof. intros; unfold upd; now rewrite Z.eqb_refl. Qed.
Lemma upd_other : forall g k v x, x <> k -> upd g k v x = g x.
Proof. intros; unfold upd. destruct (x =? k) eqn:E; [lia | reflexivity]. Qed.

(** * Each operation preserves the invariant *)

Lemma send_raw_inv : forall f u c d a tax lim s s' n,
  table_wf (table s) -> Inv s -> send_raw f u c d a tax lim s = (s', Ok, n) ->
  Inv s' /\ table s' = table s.
Proof.
  intros f u c d a tax lim s s' n WF [I1 I2 I3 I4] H. unfold send_raw in H.
  destruct ((a <=? 0) || lim || (tax <? 0)); [discriminate|].
  destruct (erc20_of (table s) c d) as [k|] eqn:EK; [|discriminate].
  destruct (f 0%nat || (bal s u d <? a + tax)); [discriminate|].
  destruct (f 1%nat); [discriminate|]. inversion H; subst; clear H.
  split; [|reflexivity].
  set (t := mkT (last_tx s + 1) u c k a tax).
  assert (HP : Permutation (pool_insert t (pool s) ++ flat_map b_txs (batches s)) (t :: pending s)).
  { unfold pending. rewrite pool_insert_perm. reflexivity. }
  assert (HD : tx_denom (table s) t = Some d) by (apply WF; exact EK).
  constructor; simpl.
  - intros d'. unfold pending; simpl. fold t. rewrite (sum_for_perm _ _ _ _ HP), sum_for_cons.
    unfold contrib. rewrite HD. unfold upd. rewrite (Z.eqb_sym d d').
    destruct (d' =? d) eqn:E.
    + apply Z.eqb_eq in E; subst. rewrite I1. unfold owed; simpl. lia.
    + rewrite I1. lia.
  - exact I2.
  - lia.
  - intros i. specialize (I4 i). unfold places, in_range, pend_ids, pending in *; simpl in *. fold t.
    rewrite (occ_perm _ _ i (Permutation_map t_id HP)). simpl map. rewrite occ_cons. simpl t_id.
    destruct (last_tx s + 1 =? i) eqn:E.
    + apply Z.eqb_eq in E.
      destruct ((1 <=? i) && (i <=? last_tx s)) eqn:R1; [lia|].
      destruct ((1 <=? i) && (i <=? last_tx s + 1)) eqn:R2; [lia | lia].
    + apply Z.eqb_neq in E.
      destruct ((1 <=? i) && (i <=? last_tx s)) eqn:R1;
        destruct ((1 <=? i) && (i <=? last_tx s + 1)) eqn:R2; lia.
Qed.

Lemma find_id_some : forall i l t, find (fun t => t_id t =? i) l = Some t -> t_id t = i.
Proof. intros i l t H. apply find_some in H as [_ H]. lia. Qed.

Lemma cancel_raw_inv : forall f u i s s' n,
  Inv s -> cancel_raw f u i s = (s', Ok, n) ->
  Inv s' /\ table s' = table s.
Proof.
  intros f u i s s' n [I1 I2 I3 I4] H. unfold cancel_raw in H.
  destruct (i <? 1); [discriminate|].
  destruct (find (fun t => t_id t =? i) (pool s)) as [t|] eqn:EF; [|discriminate].
  destruct (negb (t_sender t =? u)); [discriminate|].
  destruct (tx_denom (table s) t) as [d|] eqn:ED; [|discriminate]. simpl in H.
  destruct (f 0%nat || (escrow s d <? owed t)); [discriminate|].
  destruct (f 1%nat); [discriminate|]. inversion H; subst s' n; clear H.
  split; [|reflexivity].
  pose proof (find_remove_first_perm _ _ _ _ EF) as HP0.
  assert (HP : Permutation (pending s) (t :: remove_first (fun t => t_id t =? i) (pool s) ++ flat_map b_txs (batches s))).
  { unfold pending. rewrite HP0 at 1. reflexivity. }
  pose proof (find_id_some _ _ _ EF) as Hid.
  constructor; simpl.
  - intros d'. unfold pending; simpl. specialize (I1 d').
    rewrite (sum_for_perm _ _ _ _ HP), sum_for_cons in I1. unfold contrib in I1. rewrite ED in I1.
    unfold upd. rewrite (Z.eqb_sym d d') in I1. destruct (d' =? d) eqn:E.
    + apply Z.eqb_eq in E; subst. lia.
    + lia.
  - exact I2.
  - exact I3.
  - intros j. specialize (I4 j). unfold places, in_range, pend_ids, pending in *; simpl in *.
    rewrite (occ_perm _ _ j (Permutation_map t_id HP)) in I4. simpl map in I4. rewrite occ_cons in I4.
    rewrite occ_cons. rewrite Hid in I4. lia.
Qed.

Lemma build_raw_inv : forall f c k max now s s' n,
  Inv s -> build_raw f c k max now s = (s', Ok, n) ->
  Inv s' /\ table s' = table s.
Proof.
  intros f c k max now s s' n I H. unfold build_raw in H.
  destruct (max <=? 0); [discriminate|].
  destruct (pick c k (Z.to_nat max) (pool s)) as [picked rest] eqn:EP.
  destruct picked as [|t0 pk].
  - inversion H; subst. split; [exact I | reflexivity].
  - destruct (f 0%nat); [discriminate|]. simpl in H.
    destruct (f 1%nat); [discriminate|]. destruct (f 2%nat); [discriminate|].
    inversion H; subst s' n; clear H. split; [|reflexivity].
    pose proof (pick_perm _ _ _ _ _ _ EP) as HP.
    pose proof (pick_spec _ _ _ _ _ _ EP) as HS.
    apply (inv_perm s); simpl; try reflexivity; try exact I.
    + unfold pending; simpl.
      rewrite (flat_map_perm _ _ b_txs _ _ (batch_insert_perm _ _)). simpl.
      rewrite <- HP. change (t0 :: pk ++ flat_map b_txs (batches s)) with ((t0 :: pk) ++ flat_map b_txs (batches s)).
      rewrite app_assoc. apply Permutation_app_tail. apply Permutation_app_comm.
    + eapply Permutation_Forall; [symmetry; apply batch_insert_perm|].
      constructor; [exact HS | apply (inv_homog _ I)].
Qed.

Lemma build_inv : forall f c k max now s s' out n,
  Inv s -> build f c k max now s = (s', out, n) -> Inv s' /\ table s' = table s.
Proof.
  intros f c k max now s s' out n I H. unfold build in H.
  apply atomically_cases in H as [[-> H]|[-> ->]]; [|split; [exact I|reflexivity]].
  eapply build_raw_inv; eauto.
Qed.

Lemma find_batch_some : forall k n l b, find_batch k n l = Some b ->
  In b l /\ b_contract b = k /\ b_nonce b = n.
Proof.
  intros k n l b H. apply find_some in H as [H1 H2]. unfold is_batch in H2.
  apply andb_true_iff in H2 as [A B]. repeat split; [exact H1 | lia | lia].
Qed.

Lemma cancel_batch_raw_inv : forall f k n s s' m,
  Inv s -> cancel_batch_raw f k n s = (s', Ok, m) -> Inv s' /\ table s' = table s.
Proof.
  intros f k n s s' m I H. unfold cancel_batch_raw in H.
  destruct (find_batch k n (batches s)) as [b|] eqn:EF; [|discriminate]. simpl in H.
  destruct (f 0%nat); [discriminate|]. inversion H; subst s' m; clear H. split; [|reflexivity].
  pose proof (find_remove_first_perm _ _ _ _ EF) as HP.
  apply (inv_perm s); simpl; try reflexivity; try exact I.
  - unfold pending; simpl. rewrite pool_insert_all_perm.
    rewrite (flat_map_perm _ _ b_txs _ _ HP). simpl.
    rewrite <- !app_assoc. rewrite (app_assoc (b_txs b)). rewrite (app_assoc (pool s)).
    apply Permutation_app_tail. apply Permutation_app_comm.
  - pose proof (inv_homog _ I) as HH. eapply Permutation_Forall in HH; [|exact HP].
    now inversion HH.
Qed.

Lemma cancel_batch_inv : forall f k n s s' out m,
  Inv s -> cancel_batch f k n s = (s', out, m) -> Inv s' /\ table s' = table s.
Proof.
  intros f k n s s' out m I H. unfold cancel_batch in H.
  apply atomically_cases in H as [[-> H]|[-> ->]]; [|split; [exact I|reflexivity]].
  eapply cancel_batch_raw_inv; eauto.
Qed.

Lemma set_gas_raw_inv : forall f k n est s s' m,
  Inv s -> set_gas_raw f k n est s = (s', Ok, m) -> Inv s' /\ table s' = table s.
Proof.
  intros f k n est s s' m I H. unfold set_gas_raw in H.
  destruct (find_batch k n (batches s)) as [b|]; [|discriminate].
  destruct (0 <? b_gas b); [discriminate|]. destruct (f 0%nat); [discriminate|].
  inversion H; subst s' m; clear H. split; [|reflexivity].
  apply (inv_perm s); simpl; try reflexivity; try exact I.
  - unfold pending; simpl. now rewrite flat_map_set_gas.
  - pose proof (inv_homog _ I) as HH. induction HH as [|x r Hx Hr IH]; simpl; constructor; auto.
    destruct (is_batch k n x); exact Hx.
Qed.

Lemma executed_raw_inv : forall f c k n eth s s' m,
  Inv s -> executed_raw f c k n eth s = (s', Ok, m) -> Inv s' /\ table s' = table s.
Proof.
  intros f c k n eth s s' m [I1 I2 I3 I4] H. unfold executed_raw in H.
  destruct (find_batch k n (batches s)) as [b|] eqn:EF; [|discriminate].
  destruct (negb (b_chain b =? c)) eqn:EC; [discriminate|].
  destruct (b_timeout b <=? eth); [discriminate|].
  destruct (denom_of (table s) c k) as [d|] eqn:ED; [|discriminate].
  destruct (f 0%nat || (escrow s d <? total_owed (b_txs b))); [discriminate|].
  inversion H; subst s' m; clear H. split; [|reflexivity].
  pose proof (find_remove_first_perm _ _ _ _ EF) as HP.
  pose proof (find_batch_some _ _ _ _ EF) as (Hin & Hk & Hn).
  apply negb_false_iff, Z.eqb_eq in EC.
  assert (HH : Forall (fun t => tx_denom (table s) t = Some d) (b_txs b)).
  { rewrite Forall_forall in I2. specialize (I2 b Hin). unfold batch_homog in I2.
    eapply Forall_impl; [|exact I2]. intros t [A B]. unfold tx_denom. now rewrite A, B, EC, Hk. }
  assert (HPend : Permutation (pending s)
            (b_txs b ++ pool s ++ flat_map b_txs (remove_first (is_batch k n) (batches s)))).
  { unfold pending. rewrite (flat_map_perm _ _ b_txs _ _ HP). simpl.
    rewrite app_assoc. rewrite (Permutation_app_comm (pool s)). now rewrite <- app_assoc. }
  constructor; simpl.
  - intros d'. unfold pending; simpl. specialize (I1 d').
    rewrite (sum_for_perm _ _ _ _ HPend), sum_for_app, (sum_for_homog _ d' d _ HH) in I1.
    unfold upd. rewrite (Z.eqb_sym d d') in I1. destruct (d' =? d) eqn:E.
    + apply Z.eqb_eq in E; subst. lia.
    + lia.
  - eapply Permutation_Forall in I2; [|exact HP]. now inversion I2.
  - exact I3.
  - intros j. specialize (I4 j). unfold places, in_range, pend_ids in *; simpl in *.
    rewrite (occ_perm _ _ j (Permutation_map t_id HPend)) in I4.
    rewrite map_app, occ_app in I4. unfold pending; simpl. rewrite occ_app. lia.
Qed.

Lemma upd_upd_back : forall g d a x, upd (upd g d (g d + a)) d (upd g d (g d + a) d - a) x = g x.
Proof.
  intros. unfold upd. destruct (x =? d) eqn:E.
  - rewrite Z.eqb_refl. apply Z.eqb_eq in E. subst. lia.
  - reflexivity.
Qed.

Lemma to_comm_inv : forall f idx d a s0 s s' m,
  Inv s0 -> table s = table s0 -> pool s = pool s0 -> batches s = batches s0 ->
  refunded s = refunded s0 -> burned s = burned s0 -> last_tx s = last_tx s0 ->
  escrow s = upd (escrow s0) d (escrow s0 d + a) ->
  to_comm f idx d a s = (s', Ok, m) -> Inv s' /\ table s' = table s0.
Proof.
  intros f idx d a s0 s s' m I Ht Hp Hb Hr Hu Hl He H. unfold to_comm in H.
  destruct (f idx); [discriminate|]. inversion H; subst s' m; clear H. split; [|exact Ht].
  apply (inv_perm s0); simpl; auto.
  - intros x. rewrite He. apply upd_upd_back.
  - unfold pending; simpl. rewrite Hp, Hb. reflexivity.
  - rewrite Hb. apply (inv_homog _ I).
Qed.

Lemma deposit_raw_inv : forall f c k r a s s' m,
  Inv s -> deposit_raw f c k r a s = (s', Ok, m) -> Inv s' /\ table s' = table s.
Proof.
  intros f c k r a s s' m I H. unfold deposit_raw in H.
  destruct (denom_of (table s) c k) as [d|]; [|discriminate].
  destruct (f 0%nat || (a <=? 0)); [discriminate|].
  destruct r as [u| |].
  - destruct (f 1%nat).
    + eapply to_comm_inv in H; eauto; reflexivity.
    + inversion H; subst s' m; clear H. split; [|reflexivity].
      apply (inv_perm s); simpl; try reflexivity; try exact I.
      * intros x. apply upd_upd_back.
      * apply (inv_homog _ I).
  - eapply to_comm_inv in H; eauto; reflexivity.
  - eapply to_comm_inv in H; eauto; reflexivity.
Qed.

(** loops of the end-blocker *)
Lemma create_loop_inv : forall f es n now s s' out m,
  Inv s -> create_loop f n es now s = (s', out, m) -> Inv s' /\ table s' = table s.
Proof.
  intros f es; induction es as [|[[c d] k0] r IH]; intros n now s s' out m I H; simpl in H.
  - inversion H; subst. split; [exact I | reflexivity].
  - destruct (erc20_of (table s) c d) as [k|]; [|inversion H; subst; split; [exact I | reflexivity]].
    destruct (build (shift f n) c k batch_size now s) as [[s1 o1] m1] eqn:EB.
    apply build_inv in EB as [I1 T1]; [|exact I].
    destruct o1.
    + apply IH in H as [I2 T2]; [|exact I1]. split; [exact I2 | congruence].
    + inversion H; subst. split; [exact I1 | exact T1].
Qed.

Lemma sweep_loop_inv : forall f bs n now s s' out m,
  Inv s -> sweep_loop f n bs now s = (s', out, m) -> Inv s' /\ table s' = table s.
Proof.
  intros f bs; induction bs as [|b r IH]; intros n now s s' out m I H; simpl in H.
  - inversion H; subst. split; [exact I | reflexivity].
  - destruct (b_timeout b <? now).
    + destruct (cancel_batch (shift f n) (b_contract b) (b_nonce b) s) as [[s1 o1] m1] eqn:EB.
      apply cancel_batch_inv in EB as [I1 T1]; [|exact I].
      destruct o1.
      * apply IH in H as [I2 T2]; [|exact I1]. split; [exact I2 | congruence].
      * inversion H; subst. split; [exact I1 | exact T1].
    + eapply IH; eauto.
Qed.

Lemma create_batch_inv : forall f n h now s s' out m,
  Inv s -> create_batch f n h now s = (s', out, m) -> Inv s' /\ table s' = table s.
Proof.
  intros f n h now s s' out m I H. unfold create_batch in H.
  destruct (h mod batch_period =? 0).
  - eapply create_loop_inv; eauto.
  - inversion H; subst. split; [exact I | reflexivity].
Qed.

Lemma atomic_inv : forall s r s' out n,
  Inv s -> (forall s1 n1, r = (s1, Ok, n1) -> Inv s1 /\ table s1 = table s) ->
  atomically s r = (s', out, n) -> Inv s' /\ table s' = table s.
Proof.
  intros s r s' out n I Hr H. apply atomically_cases in H as [[-> H]|[-> ->]].
  - eapply Hr; eauto.
  - split; [exact I | reflexivity].
Qed.

Lemma run_app : forall s l1 l2, run s (l1 ++ l2) = run (run s l1) l2.
Proof. intros; unfold run; apply fold_left_app. Qed.

Definition is_map (o : op) : bool :=
  match o with OMapGov _ _ _ | OMapAdmin _ _ _ _ _ => true | _ => false end.
Definition is_full (o : op) : bool :=
  match o with OEndBlockFull _ _ _ _ _ _ => true | _ => false end.

(** * The whole end-blocker is a run of all-or-nothing sub-steps, whatever panics *)
Lemma step3_inv_sub : forall s o s' out n,
  sub_op o = true -> Inv s -> step3 s o = (s', out, n) -> Inv s' /\ table s' = table s.
Proof.
  intros s o s' out n S I H. destruct o; simpl in S; try discriminate; simpl in H.
  - eapply build_inv; eauto.
  - eapply cancel_batch_inv; eauto.
  - eapply atomic_inv; eauto. intros; eapply set_gas_raw_inv; eauto.
  - eapply atomic_inv; eauto. intros; eapply executed_raw_inv; eauto.
  - eapply atomic_inv; eauto. intros; eapply deposit_raw_inv; eauto.
Qed.

Lemma run_sub_inv : forall tr s,
  Forall (fun o => sub_op o = true) tr -> Inv s -> Inv (run s tr) /\ table (run s tr) = table s.
Proof.
  induction tr as [|a r IH]; intros s F I; simpl; [split; [exact I | reflexivity]|].
  inversion F as [|? ? Fa Fr]; subst.
  destruct (step3 s a) as [[s1 o1] n1] eqn:E.
  assert (E1 : fst (step s a) = s1) by (unfold step; now rewrite E).
  rewrite E1. destruct (step3_inv_sub _ _ _ _ _ Fa I E) as [I1 T1].
  destruct (IH s1 Fr I1) as [I2 T2]. split; [exact I2 | congruence].
Qed.

Definition eb_ok (s0 : state) (x : eb) : Prop :=
  eb_s x = run s0 (eb_tr x) /\ Forall (fun o => sub_op o = true) (eb_tr x).

Lemma eb_sub_ok : forall f pf runner mk s0 x x' out,
  (forall g s, runner g s = step3 s (mk g)) -> (forall g, sub_op (mk g) = true) ->
  eb_ok s0 x -> eb_sub f pf runner mk x = (x', out) -> eb_ok s0 x'.
Proof.
  intros f pf runner mk s0 x x' out HR HS [E F] H. unfold eb_sub in H.
  destruct (eb_dead x); [inversion H; subst; split; assumption|].
  destruct (runner (shift (either f pf) (eb_n x)) (eb_s x)) as [[s1 o1] m] eqn:ER.
  destruct (first_panic pf (eb_n x) m).
  - inversion H; subst. unfold eb_ok; cbn [eb_s eb_tr]. split; assumption.
  - inversion H; subst. unfold eb_ok; cbn [eb_s eb_tr]. split.
    + rewrite run_app, <- E. unfold run at 1. cbn [fold_left]. unfold step. rewrite <- HR, ER. reflexivity.
    + apply Forall_app. split; [exact F | constructor; [apply HS | constructor]].
Qed.

Lemma eb_call_ok : forall f pf s0 x x' b, eb_ok s0 x -> eb_call f pf x = (x', b) -> eb_ok s0 x'.
Proof.
  intros f pf s0 x x' b G H. unfold eb_call in H.
  destruct (eb_dead x); [inversion H; subst; exact G|].
  destruct (pf (eb_n x)); inversion H; subst; exact G.
Qed.

Lemma eb_create_ok : forall f pf es now s0 x x' out,
  eb_ok s0 x -> eb_create f pf es now x = (x', out) -> eb_ok s0 x'.
Proof.
  intros f pf es; induction es as [|[[c d] k0] r IH]; intros now s0 x x' out G H; simpl in H.
  - inversion H; subst; exact G.
  - destruct (eb_dead x); [inversion H; subst; exact G|].
    destruct (erc20_of (table (eb_s x)) c d) as [k|]; [|inversion H; subst; exact G].
    destruct (eb_sub f pf (fun g s => build g c k batch_size now s) (fun g => OBuild c k batch_size now g) x)
      as [x1 o1] eqn:ES.
    apply eb_sub_ok with (s0 := s0) in ES; [|intros; reflexivity|intros; reflexivity|exact G].
    destruct o1; [eapply IH; eauto | inversion H; subst; exact ES].
Qed.

Lemma ev_run_step3 : forall e g s, ev_run e g s = step3 s (ev_op e g).
Proof. destruct e; reflexivity. Qed.
Lemma ev_op_sub : forall e g, sub_op (ev_op e g) = true.
Proof. destruct e; reflexivity. Qed.

Lemma eb_tally_ok : forall f pf evs s0 x, eb_ok s0 x -> eb_ok s0 (eb_tally f pf evs x).
Proof.
  intros f pf evs; induction evs as [|e r IH]; intros s0 x G; simpl; [exact G|].
  destruct (eb_sub f pf (ev_run e) (ev_op e) x) as [x1 o1] eqn:ES.
  apply eb_sub_ok with (s0 := s0) in ES; [|apply ev_run_step3|apply ev_op_sub|exact G].
  destruct (eb_call f pf x1) as [x2 ok] eqn:EC. apply eb_call_ok with (s0 := s0) in EC; [|exact ES].
  destruct ok; [apply IH; exact EC | exact EC].
Qed.

Lemma eb_gas_ok : forall f pf ests s0 x, eb_ok s0 x -> eb_ok s0 (eb_gas f pf ests x).
Proof.
  intros f pf ests; induction ests as [|[[k n] est] r IH]; intros s0 x G; simpl; [exact G|].
  destruct (eb_sub f pf (fun g s => atomically s (set_gas_raw g k n est s)) (fun g => OSetGas k n est g) x)
    as [x1 o1] eqn:ES.
  apply eb_sub_ok with (s0 := s0) in ES; [|intros; reflexivity|intros; reflexivity|exact G].
  apply IH; exact ES.
Qed.

Lemma eb_sweep_ok : forall f pf bs now s0 x x' out,
  eb_ok s0 x -> eb_sweep f pf bs now x = (x', out) -> eb_ok s0 x'.
Proof.
  intros f pf bs; induction bs as [|b r IH]; intros now s0 x x' out G H; simpl in H.
  - inversion H; subst; exact G.
  - destruct (b_timeout b <? now); [|eapply IH; eauto].
    destruct (eb_sub f pf (fun g s => cancel_batch g (b_contract b) (b_nonce b) s)
                          (fun g => OCancelBatch (b_contract b) (b_nonce b) g) x) as [x1 o1] eqn:ES.
    apply eb_sub_ok with (s0 := s0) in ES; [|intros; reflexivity|intros; reflexivity|exact G].
    destruct o1; [eapply IH; eauto | inversion H; subst; exact ES].
Qed.

Lemma end_block_full_ok : forall f pf h now groups ests s,
  eb_ok s (end_block_full f pf h now groups ests s).
Proof.
  intros f pf h now groups ests s. unfold end_block_full.
  assert (G0 : eb_ok s (mkEB s 0%nat [] false)) by (split; [reflexivity | constructor]).
  set (x0 := mkEB s 0%nat [] false) in *.
  set (x1 := if h mod batch_period =? 0 then fst (eb_create f pf (d2e_rows (table s)) now x0) else x0).
  assert (G1 : eb_ok s x1).
  { subst x1. destruct (h mod batch_period =? 0); [|exact G0].
    destruct (eb_create f pf (d2e_rows (table s)) now x0) as [y o] eqn:E. simpl.
    eapply eb_create_ok; eauto. }
  assert (G2 : forall gs x, eb_ok s x -> eb_ok s (fold_left (fun x evs => eb_tally f pf evs x) gs x)).
  { induction gs as [|g r IH]; intros x G; simpl; [exact G|]. apply IH. apply eb_tally_ok. exact G. }
  set (x2 := fold_left (fun x evs => eb_tally f pf evs x) groups x1).
  assert (G3 : eb_ok s (eb_gas f pf ests x2)) by (apply eb_gas_ok, G2, G1).
  destruct (eb_sweep f pf (batches (eb_s (eb_gas f pf ests x2))) now (eb_gas f pf ests x2)) as [y o] eqn:E.
  simpl. eapply eb_sweep_ok; eauto.
Qed.

(** what the whole end-blocker leaves is what the sub-steps it completed left, in order *)
Lemma step_full_run : forall s h now groups ests f pf,
  fst (step s (OEndBlockFull h now groups ests f pf)) = run s (eb_tr (end_block_full f pf h now groups ests s)).
Proof.
  intros. unfold step. simpl. apply (proj1 (end_block_full_ok f pf h now groups ests s)).
Qed.

(** * Restart from an exported genesis: the same pending records, nothing else touched *)
Lemma genesis_pool_perm : forall s, Permutation (pool (genesis s)) (pool s).
Proof. intros s. unfold genesis; simpl. rewrite pool_insert_all_perm. now rewrite app_nil_r. Qed.
Lemma genesis_batches_perm : forall s, Permutation (batches (genesis s)) (batches s).
Proof. intros s. unfold genesis; simpl. rewrite batch_insert_all_perm. now rewrite app_nil_r. Qed.
Lemma genesis_pending_perm : forall s, Permutation (pending (genesis s)) (pending s).
Proof.
  intros s. unfold pending. apply Permutation_app; [apply genesis_pool_perm|].
  apply flat_map_perm. apply genesis_batches_perm.
Qed.
Lemma genesis_inv : forall s, Inv s -> Inv (genesis s) /\ table (genesis s) = table s.
Proof.
  intros s I. split; [|reflexivity].
  apply (inv_perm s); try reflexivity; try exact I.
  - apply genesis_pending_perm.
  - eapply Permutation_Forall; [symmetry; apply genesis_batches_perm | apply (inv_homog _ I)].
Qed.

(** * Every operation that does not write the denom table preserves the invariant *)
Lemma step3_inv : forall s o s' out n,
  is_map o = false -> table_wf (table s) -> Inv s -> step3 s o = (s', out, n) -> Inv s' /\ table s' = table s.
Proof.
  intros s o s' out n NM WF I H. destruct o; try (simpl in NM; discriminate NM).
  - simpl in H. eapply atomic_inv; eauto. intros; eapply send_raw_inv; eauto.
  - simpl in H. eapply atomic_inv; eauto. intros; eapply cancel_raw_inv; eauto.
  - simpl in H. eapply build_inv; eauto.
  - simpl in H. eapply cancel_batch_inv; eauto.
  - simpl in H. eapply atomic_inv; eauto. intros; eapply set_gas_raw_inv; eauto.
  - simpl in H. eapply atomic_inv; eauto. intros; eapply executed_raw_inv; eauto.
  - simpl in H. eapply atomic_inv; eauto. intros; eapply deposit_raw_inv; eauto.
  - simpl in H. eapply create_batch_inv; eauto.
  - simpl in H. unfold sweep in H. eapply sweep_loop_inv; eauto.
  - simpl in H. unfold end_block in H.
    destruct (create_batch f 0%nat h now s) as [[s1 o1] n1] eqn:E1.
    destruct (sweep f n1 now s1) as [[s2 o2] n2] eqn:E2.
    inversion H; subst. apply create_batch_inv in E1 as [I1 T1]; [|exact I].
    unfold sweep in E2. apply sweep_loop_inv in E2 as [I2 T2]; [|exact I1].
    split; [exact I2 | congruence].
  - simpl in H. inversion H; subst. split; [exact I | reflexivity].
  - cbn [step3] in H. inversion H; subst.
    destruct (end_block_full_ok f pf h now groups ests s) as [E F]. rewrite E.
    apply run_sub_inv; assumption.
  - cbn [step3] in H. inversion H; subst. now apply genesis_inv.
Qed.

Lemma step_inv : forall s o, is_map o = false -> table_wf (table s) -> Inv s ->
  Inv (fst (step s o)) /\ table (fst (step s o)) = table s.
Proof.
  intros s o NM WF I. unfold step. destruct (step3 s o) as [[s' out] n] eqn:E. simpl.
  eapply step3_inv; eauto.
Qed.

(** * What a pending transfer owes is fixed when it is sent *)
(** No operation rewrites a pending transfer record: every record pending after a step was pending
    before it, or is the one a successful send has just created from its inputs (amount and the
    tax charged at send time).  Together with [cancel_ok_refunds_in_full] / [executed_ok_burns_batch]
    (refund and burn use [owed t] of the stored record): governance changes of the tax settings
    between send and cancel / execution cannot change what is refunded or burned. *)
Lemma build_pending : forall f c k max now s s' out n,
  build f c k max now s = (s', out, n) -> Permutation (pending s') (pending s).
Proof.
  intros f c k max now s s' out n H. unfold build in H.
  apply atomically_cases in H as [[-> H]|[-> ->]]; [|reflexivity].
  unfold build_raw in H. destruct (max <=? 0); [discriminate|].
  destruct (pick c k (Z.to_nat max) (pool s)) as [picked rest] eqn:EP. destruct picked as [|t0 pk].
  - inversion H; reflexivity.
  - destruct (f 0%nat); [discriminate|]. simpl in H. destruct (f 1%nat); [discriminate|].
    destruct (f 2%nat); [discriminate|]. inversion H; subst s' n; clear H.
    pose proof (pick_perm _ _ _ _ _ _ EP) as HP.
    unfold pending; simpl.
    rewrite (flat_map_perm _ _ b_txs _ _ (batch_insert_perm _ _)). simpl.
    rewrite <- HP. change (t0 :: pk ++ flat_map b_txs (batches s)) with ((t0 :: pk) ++ flat_map b_txs (batches s)).
    rewrite app_assoc. apply Permutation_app_tail. apply Permutation_app_comm.
Qed.

Lemma cancel_batch_pending : forall f k n s s' out m,
  cancel_batch f k n s = (s', out, m) -> Permutation (pending s') (pending s).
Proof.
  intros f k n s s' out m H. unfold cancel_batch in H.
  apply atomically_cases in H as [[-> H]|[-> ->]]; [|reflexivity].
  unfold cancel_batch_raw in H.
  destruct (find_batch k n (batches s)) as [b|] eqn:EF; [|discriminate]. simpl in H.
  destruct (f 0%nat); [discriminate|]. inversion H; subst s' m; clear H.
  pose proof (find_remove_first_perm _ _ _ _ EF) as HP.
  unfold pending; simpl. rewrite pool_insert_all_perm.
  rewrite (flat_map_perm _ _ b_txs _ _ HP). simpl.
  rewrite <- !app_assoc. rewrite (app_assoc (b_txs b)). rewrite (app_assoc (pool s)).
  apply Permutation_app_tail. apply Permutation_app_comm.
Qed.

Lemma create_loop_pending : forall f es n now s s' out m,
  create_loop f n es now s = (s', out, m) -> Permutation (pending s') (pending s).
Proof.
  intros f es; induction es as [|[[c d] k0] r IH]; intros n now s s' out m H; simpl in H.
  - inversion H; reflexivity.
  - destruct (erc20_of (table s) c d) as [k|]; [|inversion H; reflexivity].
    destruct (build (shift f n) c k batch_size now s) as [[s1 o1] m1] eqn:EB.
    apply build_pending in EB. destruct o1.
    + apply IH in H. etransitivity; eauto.
    + inversion H; subst; exact EB.
Qed.

Lemma sweep_loop_pending : forall f bs n now s s' out m,
  sweep_loop f n bs now s = (s', out, m) -> Permutation (pending s') (pending s).
Proof.
  intros f bs; induction bs as [|b r IH]; intros n now s s' out m H; simpl in H.
  - inversion H; reflexivity.
  - destruct (b_timeout b <? now); [|eapply IH; eauto].
    destruct (cancel_batch (shift f n) (b_contract b) (b_nonce b) s) as [[s1 o1] m1] eqn:EB.
    apply cancel_batch_pending in EB. destruct o1.
    + apply IH in H. etransitivity; eauto.
    + inversion H; subst; exact EB.
Qed.

Lemma create_batch_pending : forall f n h now s s' out m,
  create_batch f n h now s = (s', out, m) -> Permutation (pending s') (pending s).
Proof.
  intros f n h now s s' out m H. unfold create_batch in H.
  destruct (h mod batch_period =? 0); [eapply create_loop_pending; eauto | inversion H; reflexivity].
Qed.

Lemma to_comm_pending : forall f idx d a s s' out m,
  to_comm f idx d a s = (s', out, m) -> pending s' = pending s.
Proof.
  intros f idx d a s s' out m H. unfold to_comm in H. destruct (f idx); inversion H; reflexivity.
Qed.

Lemma pending_step_nf : forall s o s' out t,
  is_full o = false -> step s o = (s', out) -> In t (pending s') ->
  In t (pending s) \/
  exists u c d a tax lim f k, o = OSend u c d a tax lim f /\ out = Ok /\ erc20_of (table s) c d = Some k /\
                          t = mkT (last_tx s + 1) u c k a tax.
Proof.
  intros s o s' out t NF H HI. unfold step in H. destruct (step3 s o) as [[s1 o1] n] eqn:E. simpl in H.
  inversion H; subst s1 o1; clear H.
  destruct o; try (simpl in NF; discriminate NF); simpl in E.
  - (* send *) apply atomically_cases in E as [[-> E]|[-> ->]]; [|now left].
    unfold send_raw in E. destruct ((a <=? 0) || lim || (tax <? 0)); [discriminate|].
    destruct (erc20_of (table s) c d) as [k|] eqn:EK; [|discriminate].
    destruct (f 0%nat || _); [discriminate|]. destruct (f 1%nat); [discriminate|].
    inversion E; subst s' n; clear E. unfold pending in HI; simpl in HI.
    apply in_app_or in HI as [HI|HI].
    + apply (Permutation_in _ (pool_insert_perm _ _)) in HI. destruct HI as [HI|HI].
      * right. exists u, c, d, a, tax, lim, f, k. repeat split; auto.
      * left. unfold pending. apply in_or_app. now left.
    + left. unfold pending. apply in_or_app. now right.
  - (* cancel *) left. apply atomically_cases in E as [[-> E]|[-> ->]]; [|exact HI].
    unfold cancel_raw in E. destruct (i <? 1); [discriminate|].
    destruct (find (fun t => t_id t =? i) (pool s)) as [t0|] eqn:EF; [|discriminate].
    destruct (negb (t_sender t0 =? u)); [discriminate|].
    destruct (tx_denom (table s) t0); [|discriminate]. simpl in E.
    destruct (f 0%nat || _); [discriminate|]. destruct (f 1%nat); [discriminate|].
    inversion E; subst s' n; clear E. unfold pending in *; simpl in HI.
    pose proof (find_remove_first_perm _ _ _ _ EF) as HP.
    apply in_app_or in HI as [HI|HI]; apply in_or_app; [left|now right].
    apply (Permutation_in _ (Permutation_sym HP)). now right.
  - left. apply build_pending in E. eapply Permutation_in; eauto.
  - left. apply cancel_batch_pending in E. eapply Permutation_in; eauto.
  - (* set gas *) left. apply atomically_cases in E as [[-> E]|[-> ->]]; [|exact HI].
    unfold set_gas_raw in E. destruct (find_batch k n0 (batches s)) as [b|]; [|discriminate].
    destruct (0 <? b_gas b); [discriminate|]. destruct (f 0%nat); [discriminate|].
    inversion E; subst s' n; clear E. unfold pending in *; simpl in HI.
    now rewrite flat_map_set_gas in HI.
  - (* executed *) left. apply atomically_cases in E as [[-> E]|[-> ->]]; [|exact HI].
    unfold executed_raw in E. destruct (find_batch k n0 (batches s)) as [b|] eqn:EF; [|discriminate].
    destruct (negb (b_chain b =? c)); [discriminate|]. destruct (b_timeout b <=? eth); [discriminate|].
    destruct (denom_of (table s) c k); [|discriminate]. destruct (f 0%nat || _); [discriminate|].
    inversion E; subst s' n; clear E. unfold pending in *; simpl in HI.
    pose proof (find_remove_first_perm _ _ _ _ EF) as HP.
    apply in_app_or in HI as [HI|HI]; apply in_or_app; [now left | right].
    apply (Permutation_in _ (Permutation_sym (flat_map_perm _ _ b_txs _ _ HP))). simpl.
    apply in_or_app. now right.
  - (* deposit *) left. apply atomically_cases in E as [[-> E]|[-> ->]]; [|exact HI].
    unfold deposit_raw in E. destruct (denom_of (table s) c k) as [d|]; [|discriminate].
    destruct (f 0%nat || (a <=? 0)); [discriminate|].
    destruct r as [u| |].
    + destruct (f 1%nat).
      * apply to_comm_pending in E. rewrite E in HI. exact HI.
      * inversion E; subst. exact HI.
    + apply to_comm_pending in E. rewrite E in HI. exact HI.
    + apply to_comm_pending in E. rewrite E in HI. exact HI.
  - left. apply create_batch_pending in E. eapply Permutation_in; eauto.
  - left. unfold sweep in E. apply sweep_loop_pending in E. eapply Permutation_in; eauto.
  - left. unfold end_block in E.
    destruct (create_batch f 0%nat h now s) as [[s1 o1] n1] eqn:E1.
    destruct (sweep f n1 now s1) as [[s2 o2] n2] eqn:E2. inversion E; subst.
    apply create_batch_pending in E1. unfold sweep in E2. apply sweep_loop_pending in E2.
    eapply Permutation_in; [|exact HI]. etransitivity; eauto.
  - left. inversion E; subst. exact HI.
  - (* governance writes the denom table *) left. inversion E; subst. exact HI.
  - (* token admin writes the denom table *) left.
    apply atomically_cases in E as [[-> E]|[-> ->]]; [|exact HI].
    unfold map_admin_raw in E. destruct (f 0%nat); [discriminate|]. destruct (negb auth); [discriminate|].
    destruct (denom_of (table s) c k); [discriminate|]. inversion E; subst. exact HI.
  - (* genesis round trip *) left. inversion E; subst.
    eapply Permutation_in; [apply genesis_pending_perm | exact HI].
Qed.

Lemma sub_not_full : forall o, sub_op o = true -> is_full o = false.
Proof. destruct o; simpl; intros; try discriminate; reflexivity. Qed.

Lemma run_sub_pending : forall tr s t,
  Forall (fun o => sub_op o = true) tr -> In t (pending (run s tr)) -> In t (pending s).
Proof.
  induction tr as [|a r IH]; intros s t F HI; simpl in HI; [exact HI|].
  inversion F as [|? ? Fa Fr]; subst. apply IH in HI; [|exact Fr].
  destruct (step s a) as [s1 o1] eqn:E. simpl in HI.
  destruct (pending_step_nf s a s1 o1 t (sub_not_full _ Fa) E HI) as [X|X]; [exact X|].
  destruct X as (u & c & d & a0 & tax & lim & f & k & Eo & _). subst a. discriminate Fa.
Qed.

Theorem pending_records_immutable_proof : forall s o s' out t,
  step s o = (s', out) -> In t (pending s') ->
  In t (pending s) \/
  exists u c d a tax lim f k, o = OSend u c d a tax lim f /\ out = Ok /\ erc20_of (table s) c d = Some k /\
                          t = mkT (last_tx s + 1) u c k a tax.
Proof.
  intros s o s' out t H HI. destruct (is_full o) eqn:NF; [|eapply pending_step_nf; eauto].
  left. destruct o; try (simpl in NF; discriminate NF).
  assert (X : s' = fst (step s (OEndBlockFull h now groups ests f pf))) by now rewrite H.
  subst s'. rewrite step_full_run in HI.
  eapply run_sub_pending; [apply end_block_full_ok | exact HI].
Qed.



(** * Governance and token admins write the denom table while transfers are pending *)
Definition mapped (tb : list entry) (t : transfer) : Prop := tx_denom tb t <> None.

Record InvT (s : state) : Prop := {
  it_inv : Inv s;
  it_wf : table_wf (table s);
  it_mapped : Forall (mapped (table s)) (pending s)
}.

Lemma init_InvT : forall tb b0 sup0, table_wf tb -> InvT (init tb b0 sup0).
Proof. intros; constructor; [apply init_inv | exact H | constructor]. Qed.

Lemma tx_denom_cons : forall c d k tb t,
  tx_denom ((c, d, k) :: tb) t = if (c =? t_chain t) && (k =? t_contract t) then Some d else tx_denom tb t.
Proof. reflexivity. Qed.

Lemma sum_for_ext : forall tb1 tb2 d l,
  (forall t, In t l -> tx_denom tb1 t = tx_denom tb2 t) -> sum_for tb1 d l = sum_for tb2 d l.
Proof.
  intros tb1 tb2 d l; induction l as [|t r IH]; intros H; [reflexivity|].
  rewrite !sum_for_cons. rewrite IH by (intros; apply H; now right).
  unfold contrib. rewrite (H t) by now left. reflexivity.
Qed.

(** the guard: the contract is unbound on that chain, or bound to the very same denom *)
Definition rebind_free (tb : list entry) (c d k : Z) : Prop :=
  denom_of tb c k = None \/ denom_of tb c k = Some d.

Lemma tx_denom_stable : forall tb c d k t,
  rebind_free tb c d k -> mapped tb t -> tx_denom ((c, d, k) :: tb) t = tx_denom tb t.
Proof.
  intros tb c d k t G M. rewrite tx_denom_cons.
  destruct ((c =? t_chain t) && (k =? t_contract t)) eqn:E; [|reflexivity].
  apply andb_true_iff in E as [A B]. apply Z.eqb_eq in A, B.
  unfold mapped, tx_denom in *. rewrite <- A, <- B in *.
  destruct G as [G|G]; [congruence | now rewrite G].
Qed.

Lemma map_set_InvT : forall s c d k,
  InvT s -> rebind_free (table s) c d k -> InvT (map_set c d k s).
Proof.
  intros s c d k [[I1 I2 I3 I4] WF M] G. constructor.
  - constructor.
    + intros d'. change (escrow (map_set c d k s) d') with (escrow s d').
      change (pending (map_set c d k s)) with (pending s).
      change (table (map_set c d k s)) with ((c, d, k) :: table s).
      rewrite I1. apply sum_for_ext. intros t HI. symmetry. apply tx_denom_stable; [exact G|].
      rewrite Forall_forall in M. now apply M.
    + exact I2.
    + exact I3.
    + exact I4.
  - change (table (map_set c d k s)) with ((c, d, k) :: table s).
    intros c' d' k' H. simpl in H. simpl.
    destruct ((c =? c') && (d =? d')) eqn:E.
    + apply andb_true_iff in E as [A B]. apply Z.eqb_eq in A, B. inversion H; subst.
      now rewrite !Z.eqb_refl.
    + apply WF in H. destruct ((c =? c') && (k =? k')) eqn:E2; [|exact H].
      apply andb_true_iff in E2 as [A B]. apply Z.eqb_eq in A, B. subst.
      destruct G as [G|G]; congruence.
  - change (table (map_set c d k s)) with ((c, d, k) :: table s).
    change (pending (map_set c d k s)) with (pending s).
    eapply Forall_impl; [|exact M]. intros t Mt. unfold mapped in *.
    rewrite tx_denom_stable; assumption.
Qed.

Lemma step_InvT : forall s o, InvT s -> gov_ok s o = true -> InvT (fst (step s o)).
Proof.
  intros s o IT G. destruct (is_map o) eqn:NM.
  - destruct o; try (simpl in NM; discriminate NM).
    + (* governance path *) unfold step; simpl. apply map_set_InvT; [exact IT|].
      simpl in G. unfold rebind_free. destruct (denom_of (table s) c k) as [d'|]; [|now left].
      right. apply Z.eqb_eq in G. now subst.
    + (* token admin: the handler checks the guard itself *) unfold step; simpl.
      destruct (atomically s (map_admin_raw f c d k auth s)) as [[s1 o1] n] eqn:E. simpl.
      apply atomically_cases in E as [[_ E]|[_ ->]]; [|exact IT].
      unfold map_admin_raw in E. destruct (f 0%nat); [discriminate|]. destruct (negb auth); [discriminate|].
      destruct (denom_of (table s) c k) eqn:ED; [discriminate|]. inversion E; subst.
      apply map_set_InvT; [exact IT | now left].
  - destruct IT as [I WF M].
    destruct (step_inv s o NM WF I) as [I1 T1]. constructor.
    + exact I1.
    + now rewrite T1.
    + rewrite T1. apply Forall_forall. intros t HI.
      destruct (step s o) as [s' out] eqn:E. simpl in HI.
      destruct (pending_records_immutable_proof s o s' out t E HI) as [X|X].
      * rewrite Forall_forall in M. now apply M.
      * destruct X as (u & c & d & a & tax & lim & f & k & _ & _ & EK & ->).
        unfold mapped, tx_denom. simpl. apply WF in EK. congruence.
Qed.

Lemma run_InvT : forall ops s, InvT s -> guarded s ops = true -> InvT (run s ops).
Proof.
  induction ops as [|o r IH]; intros s IT G; simpl; [exact IT|].
  simpl in G. apply andb_true_iff in G as [G1 G2]. apply IH; [apply step_InvT; assumption | exact G2].
Qed.

(** which denom a pending transfer is refunded / burned in cannot be changed under the guard *)
Theorem pending_denom_stable_proof : forall s o t,
  InvT s -> gov_ok s o = true -> In t (pending s) ->
  tx_denom (table (fst (step s o))) t = tx_denom (table s) t.
Proof.
  intros s o t IT G HI. destruct (is_map o) eqn:NM.
  - assert (Mt : mapped (table s) t).
    { pose proof (it_mapped _ IT) as M. rewrite Forall_forall in M. now apply M. }
    destruct o; try (simpl in NM; discriminate NM).
    + unfold step; simpl. apply tx_denom_stable; [|exact Mt].
      simpl in G. unfold rebind_free. destruct (denom_of (table s) c k) as [d'|]; [|now left].
      right. apply Z.eqb_eq in G. now subst.
    + unfold step; simpl.
      destruct (atomically s (map_admin_raw f c d k auth s)) as [[s1 o1] n] eqn:E. simpl.
      apply atomically_cases in E as [[_ E]|[_ ->]]; [|reflexivity].
      unfold map_admin_raw in E. destruct (f 0%nat); [discriminate|]. destruct (negb auth); [discriminate|].
      destruct (denom_of (table s) c k) eqn:ED; [discriminate|]. inversion E; subst.
      apply tx_denom_stable; [now left | exact Mt].
  - destruct (step_inv s o NM (it_wf _ IT) (it_inv _ IT)) as [_ T1]. now rewrite T1.
Qed.

(** * Theorem 1: escrow = sum over pending transfers *)
Theorem escrow_eq_pending_proof : forall tb b0 sup0 ops d,
  table_wf tb -> guarded (init tb b0 sup0) ops = true ->
  let s := run (init tb b0 sup0) ops in
  escrow s d = sum_for (table s) d (pending s).
Proof.
  intros tb b0 sup0 ops d WF G s.
  pose proof (run_InvT ops _ (init_InvT tb b0 sup0 WF) G) as IT. fold s in IT.
  apply (inv_escrow _ (it_inv _ IT)).
Qed.

(** * Theorem 2: every accepted transfer is in exactly one place *)
Lemma places_split : forall s i,
  places s i = (occ (pool_ids s) i + occ (batch_ids s) i + occ (refunded s) i + occ (burned s) i)%nat.
Proof.
  intros. unfold places, pend_ids, pending, pool_ids, batch_ids. rewrite map_app, occ_app. lia.
Qed.

Theorem transfer_in_exactly_one_place_proof : forall tb b0 sup0 ops i,
  table_wf tb -> guarded (init tb b0 sup0) ops = true ->
  let s := run (init tb b0 sup0) ops in
  accepted s i ->
  (occ (pool_ids s) i + occ (batch_ids s) i + occ (refunded s) i + occ (burned s) i = 1)%nat.
Proof.
  intros tb b0 sup0 ops i WF G s A.
  pose proof (it_inv _ (run_InvT ops _ (init_InvT tb b0 sup0 WF) G)) as I. fold s in I.
  rewrite <- places_split, (inv_count _ I). unfold in_range, accepted in *.
  destruct ((1 <=? i) && (i <=? last_tx s)) eqn:E; [reflexivity|].
  apply andb_false_iff in E as [E|E]; lia.
Qed.

(** ids that were never accepted are nowhere *)
Theorem unaccepted_nowhere_proof : forall tb b0 sup0 ops i,
  table_wf tb -> guarded (init tb b0 sup0) ops = true ->
  let s := run (init tb b0 sup0) ops in
  ~ accepted s i ->
  (occ (pool_ids s) i + occ (batch_ids s) i + occ (refunded s) i + occ (burned s) i = 0)%nat.
Proof.
  intros tb b0 sup0 ops i WF G s A.
  pose proof (it_inv _ (run_InvT ops _ (init_InvT tb b0 sup0 WF) G)) as I. fold s in I.
  rewrite <- places_split, (inv_count _ I). unfold in_range, accepted in *.
  destruct ((1 <=? i) && (i <=? last_tx s)) eqn:E; [|reflexivity].
  apply andb_true_iff in E as [E1 E2]. lia.
Qed.

(** * Theorem 4: an operation that reports failure is a no-op *)
Theorem failed_op_is_noop_proof : forall s o s',
  atomic_op o = true -> step s o = (s', Err) -> s' = s.
Proof.
  intros s o s' A H. unfold step in H. destruct (step3 s o) as [[s1 o1] n] eqn:E. simpl in H.
  inversion H; subst s1 o1; clear H.
  destruct o; simpl in A; try discriminate; simpl in E; try (inversion E; fail);
    try (unfold build in E); try (unfold cancel_batch in E);
    apply atomically_cases in E as [[X _]|[_ X]]; congruence.
Qed.

(** end-of-block housekeeping is a sequence of all-or-nothing operations *)
Lemma create_loop_run : forall f es n now s,
  exists subs, Forall (fun x => atomic_op x = true) subs /\
               fst (fst (create_loop f n es now s)) = run s subs.
Proof.
  intros f es; induction es as [|[[c d] k0] r IH]; intros n now s; simpl.
  - exists []. split; [constructor | reflexivity].
  - destruct (erc20_of (table s) c d) as [k|].
    + destruct (build (shift f n) c k batch_size now s) as [[s1 o1] m1] eqn:EB.
      assert (E1 : s1 = fst (step s (OBuild c k batch_size now (shift f n)))).
      { unfold step; simpl. now rewrite EB. }
      destruct o1.
      * destruct (IH (n + m1)%nat now s1) as (subs & F & R).
        exists (OBuild c k batch_size now (shift f n) :: subs). split; [constructor; [reflexivity | exact F]|].
        simpl. rewrite <- E1. exact R.
      * exists [OBuild c k batch_size now (shift f n)]. split; [repeat constructor|]. simpl. now rewrite <- E1.
    + exists []. split; [constructor | reflexivity].
Qed.

Lemma sweep_loop_run : forall f bs n now s,
  exists subs, Forall (fun x => atomic_op x = true) subs /\
               fst (fst (sweep_loop f n bs now s)) = run s subs.
Proof.
  intros f bs; induction bs as [|b r IH]; intros n now s; simpl.
  - exists []. split; [constructor | reflexivity].
  - destruct (b_timeout b <? now).
    + destruct (cancel_batch (shift f n) (b_contract b) (b_nonce b) s) as [[s1 o1] m1] eqn:EB.
      assert (E1 : s1 = fst (step s (OCancelBatch (b_contract b) (b_nonce b) (shift f n)))).
      { unfold step; simpl. now rewrite EB. }
      destruct o1.
      * destruct (IH (n + m1)%nat now s1) as (subs & F & R).
        exists (OCancelBatch (b_contract b) (b_nonce b) (shift f n) :: subs).
        split; [constructor; [reflexivity | exact F]|]. simpl. rewrite <- E1. exact R.
      * exists [OCancelBatch (b_contract b) (b_nonce b) (shift f n)]. split; [repeat constructor|].
        simpl. now rewrite <- E1.
    + apply IH.
Qed.

Theorem housekeeping_is_atomic_steps_proof : forall s o,
  atomic_op o = false ->
  exists subs, Forall (fun x => atomic_op x = true) subs /\ fst (step s o) = run s subs.
Proof.
  intros s o A. destruct o; simpl in A; try discriminate.
  4:{ (* the whole end-blocker, panics included *)
      exists (eb_tr (end_block_full f pf h now groups ests s)). split; [|apply step_full_run].
      eapply Forall_impl; [|apply (proj2 (end_block_full_ok f pf h now groups ests s))].
      intros o So. destruct o; simpl in So; try discriminate; reflexivity. }
  all: unfold step; simpl.
  - unfold create_batch. destruct (h mod batch_period =? 0).
    + apply create_loop_run.
    + exists []. split; [constructor | reflexivity].
  - unfold sweep. apply sweep_loop_run.
  - unfold end_block.
    destruct (create_batch f 0%nat h now s) as [[s1 o1] n1] eqn:E1.
    destruct (sweep f n1 now s1) as [[s2 o2] n2] eqn:E2. simpl.
    assert (exists l1, Forall (fun x => atomic_op x = true) l1 /\ s1 = run s l1) as (l1 & F1 & R1).
    { unfold create_batch in E1. destruct (h mod batch_period =? 0).
      - destruct (create_loop_run f (d2e_rows (table s)) 0%nat now s) as (l & F & R). exists l. split; [exact F|].
        rewrite E1 in R. exact R.
      - inversion E1; subst. exists []. split; [constructor | reflexivity]. }
    destruct (sweep_loop_run f (batches s1) n1 now s1) as (l2 & F2 & R2).
    unfold sweep in E2. rewrite E2 in R2. simpl in R2.
    exists (l1 ++ l2). split; [apply Forall_app; split; assumption|].
    rewrite run_app, <- R1. exact R2.
Qed.

(** * Theorem 3: supply moves only by attested deposits and attested executed batches *)
Lemma build_supply : forall f c k max now s s' out n,
  build f c k max now s = (s', out, n) -> supply s' = supply s.
Proof.
  intros f c k max now s s' out n H. unfold build in H.
  apply atomically_cases in H as [[-> H]|[-> ->]]; [|reflexivity].
  unfold build_raw in H. destruct (max <=? 0); [discriminate|].
  destruct (pick c k (Z.to_nat max) (pool s)) as [picked rest]. destruct picked.
  - inversion H; reflexivity.
  - destruct (f 0%nat); [discriminate|]. simpl in H. destruct (f 1%nat); [discriminate|].
    destruct (f 2%nat); [discriminate|]. inversion H; reflexivity.
Qed.

Lemma cancel_batch_supply : forall f k n s s' out m,
  cancel_batch f k n s = (s', out, m) -> supply s' = supply s.
Proof.
  intros f k n s s' out m H. unfold cancel_batch in H.
  apply atomically_cases in H as [[-> H]|[-> ->]]; [|reflexivity].
  unfold cancel_batch_raw in H. destruct (find_batch k n (batches s)); [|discriminate].
  simpl in H. destruct (f 0%nat); [discriminate|]. inversion H; reflexivity.
Qed.

Lemma create_loop_supply : forall f es n now s s' out m,
  create_loop f n es now s = (s', out, m) -> supply s' = supply s.
Proof.
  intros f es; induction es as [|[[c d] k0] r IH]; intros n now s s' out m H; simpl in H.
  - inversion H; reflexivity.
  - destruct (erc20_of (table s) c d) as [k|]; [|inversion H; reflexivity].
    destruct (build (shift f n) c k batch_size now s) as [[s1 o1] m1] eqn:EB.
    apply build_supply in EB. destruct o1.
    + apply IH in H. congruence.
    + inversion H; subst; exact EB.
Qed.

Lemma sweep_loop_supply : forall f bs n now s s' out m,
  sweep_loop f n bs now s = (s', out, m) -> supply s' = supply s.
Proof.
  intros f bs; induction bs as [|b r IH]; intros n now s s' out m H; simpl in H.
  - inversion H; reflexivity.
  - destruct (b_timeout b <? now); [|eapply IH; eauto].
    destruct (cancel_batch (shift f n) (b_contract b) (b_nonce b) s) as [[s1 o1] m1] eqn:EB.
    apply cancel_batch_supply in EB. destruct o1.
    + apply IH in H. congruence.
    + inversion H; subst; exact EB.
Qed.

Lemma create_batch_supply : forall f n h now s s' out m,
  create_batch f n h now s = (s', out, m) -> supply s' = supply s.
Proof.
  intros f n h now s s' out m H. unfold create_batch in H.
  destruct (h mod batch_period =? 0); [eapply create_loop_supply; eauto | inversion H; reflexivity].
Qed.

Lemma to_comm_supply : forall f idx d a s s' out m,
  to_comm f idx d a s = (s', out, m) -> out = Ok -> supply s' = supply s.
Proof.
  intros f idx d a s s' out m H O. unfold to_comm in H. destruct (f idx); inversion H; subst; [discriminate | reflexivity].
Qed.

Lemma step_supply1 : forall s o s' out d,
  is_full o = false -> Inv s -> step s o = (s', out) ->
  supply s' d - supply s d = dep_amount1 s o out d - exe_amount1 s o out d.
Proof.
  intros s o s' out d NF I H. unfold step in H. destruct (step3 s o) as [[s1 o1] n] eqn:E. simpl in H.
  inversion H; subst s1 o1; clear H.
  destruct o; try (simpl in NF; discriminate NF); simpl in E.
  - (* send *) apply atomically_cases in E as [[-> E]|[-> ->]]; [|simpl; lia].
    unfold send_raw in E. destruct ((a <=? 0) || lim || (tax <? 0)); [discriminate|].
    destruct (erc20_of (table s) c d0); [|discriminate].
    destruct (f 0%nat || (bal s u d0 <? a + tax)); [discriminate|]. destruct (f 1%nat); [discriminate|].
    inversion E; subst. simpl. lia.
  - (* cancel *) apply atomically_cases in E as [[-> E]|[-> ->]]; [|simpl; lia].
    unfold cancel_raw in E. destruct (i <? 1); [discriminate|].
    destruct (find (fun t => t_id t =? i) (pool s)) as [t|]; [|discriminate].
    destruct (negb (t_sender t =? u)); [discriminate|].
    destruct (tx_denom (table s) t); [|discriminate]. simpl in E.
    destruct (f 0%nat || _); [discriminate|]. destruct (f 1%nat); [discriminate|].
    inversion E; subst. simpl. lia.
  - apply build_supply in E. rewrite E. destruct out; simpl; lia.
  - apply cancel_batch_supply in E. rewrite E. destruct out; simpl; lia.
  - (* set gas *) apply atomically_cases in E as [[-> E]|[-> ->]]; [|simpl; lia].
    unfold set_gas_raw in E. destruct (find_batch k n0 (batches s)) as [b|]; [|discriminate].
    destruct (0 <? b_gas b); [discriminate|]. destruct (f 0%nat); [discriminate|].
    inversion E; subst. simpl. lia.
  - (* executed *) apply atomically_cases in E as [[-> E]|[-> ->]]; [|simpl; lia].
    unfold executed_raw in E. simpl.
    destruct (find_batch k n0 (batches s)) as [b|] eqn:EF; [|discriminate].
    destruct (negb (b_chain b =? c)) eqn:EC; [discriminate|].
    destruct (b_timeout b <=? eth); [discriminate|].
    destruct (denom_of (table s) c k) as [d0|] eqn:ED; [|discriminate].
    destruct (f 0%nat || _); [discriminate|]. inversion E; subst s' n; clear E. simpl.
    pose proof (find_batch_some _ _ _ _ EF) as (Hin & Hk & Hn).
    apply negb_false_iff, Z.eqb_eq in EC.
    assert (HH : Forall (fun t => tx_denom (table s) t = Some d0) (b_txs b)).
    { pose proof (inv_homog _ I) as I2. rewrite Forall_forall in I2. specialize (I2 b Hin).
      eapply Forall_impl; [|exact I2]. intros t [A B]. unfold tx_denom. now rewrite A, B, EC, Hk. }
    rewrite (sum_for_homog _ d d0 _ HH). unfold upd. rewrite (Z.eqb_sym d0 d).
    destruct (d =? d0) eqn:X; [apply Z.eqb_eq in X; subst|]; lia.
  - (* deposit *) apply atomically_cases in E as [[-> E]|[-> ->]]; [|simpl; lia].
    unfold deposit_raw in E. simpl.
    destruct (denom_of (table s) c k) as [d0|]; [|discriminate].
    destruct (f 0%nat || (a <=? 0)); [discriminate|].
    assert (G : supply s' = upd (supply s) d0 (supply s d0 + a)).
    { destruct r as [u| |].
      - destruct (f 1%nat).
        + apply to_comm_supply in E; [|reflexivity]. exact E.
        + inversion E; reflexivity.
      - apply to_comm_supply in E; [|reflexivity]. exact E.
      - apply to_comm_supply in E; [|reflexivity]. exact E. }
    rewrite G. unfold upd. rewrite (Z.eqb_sym d0 d). destruct (d =? d0) eqn:X; [|lia].
    apply Z.eqb_eq in X; subst. lia.
  - apply create_batch_supply in E. rewrite E. destruct out; simpl; lia.
  - unfold sweep in E. apply sweep_loop_supply in E. rewrite E. destruct out; simpl; lia.
  - unfold end_block in E.
    destruct (create_batch f 0%nat h now s) as [[s1 o1] n1] eqn:E1.
    destruct (sweep f n1 now s1) as [[s2 o2] n2] eqn:E2. inversion E; subst.
    apply create_batch_supply in E1. unfold sweep in E2. apply sweep_loop_supply in E2.
    rewrite E2, E1. simpl; lia.
  - inversion E; subst. simpl. lia.
  - (* governance writes the denom table *) inversion E; subst. simpl. lia.
  - (* token admin writes the denom table *)
    apply atomically_cases in E as [[-> E]|[-> ->]]; [|simpl; lia].
    unfold map_admin_raw in E. destruct (f 0%nat); [discriminate|]. destruct (negb auth); [discriminate|].
    destruct (denom_of (table s) c k); [discriminate|]. inversion E; subst. simpl. lia.
  - (* genesis round trip *) inversion E; subst. simpl. lia.
Qed.

Lemma run_sub_supply : forall tr s d,
  Forall (fun o => sub_op o = true) tr -> Inv s ->
  supply (run s tr) d - supply s d = deposits_of1 s tr d - executed_of1 s tr d.
Proof.
  induction tr as [|a r IH]; intros s d F I; simpl; [lia|].
  inversion F as [|? ? Fa Fr]; subst.
  destruct (step s a) as [s1 o1] eqn:E. simpl.
  pose proof (step_supply1 s a s1 o1 d (sub_not_full _ Fa) I E) as S1.
  assert (I1 : Inv s1).
  { unfold step in E. destruct (step3 s a) as [[s2 o2] n2] eqn:E3. simpl in E. inversion E; subst.
    apply (step3_inv_sub _ _ _ _ _ Fa I E3). }
  specialize (IH s1 d Fr I1). lia.
Qed.

Lemma step_supply : forall s o s' out d,
  Inv s -> step s o = (s', out) ->
  supply s' d - supply s d = dep_amount s o out d - exe_amount s o out d.
Proof.
  intros s o s' out d I H. destruct (is_full o) eqn:NF.
  - destruct o; try (simpl in NF; discriminate NF).
    assert (X : s' = fst (step s (OEndBlockFull h now groups ests f pf))) by now rewrite H.
    subst s'. rewrite step_full_run. cbn [dep_amount exe_amount].
    apply run_sub_supply; [apply end_block_full_ok | exact I].
  - rewrite (step_supply1 s o s' out d NF I H).
    destruct o; try (simpl in NF; discriminate NF); reflexivity.
Qed.

Theorem supply_delta_only_attested_proof : forall tb b0 sup0 ops d,
  table_wf tb -> guarded (init tb b0 sup0) ops = true ->
  let s0 := init tb b0 sup0 in
  supply (run s0 ops) d - sup0 d = deposits_of s0 ops d - executed_of s0 ops d.
Proof.
  intros tb b0 sup0 ops d WF G0 s0.
  assert (G : forall ops s, InvT s -> guarded s ops = true ->
            supply (run s ops) d - supply s d = deposits_of s ops d - executed_of s ops d).
  { clear. induction ops as [|o r IH]; intros s IT G; simpl; [lia|].
    simpl in G. apply andb_true_iff in G as [G1 G2].
    destruct (step s o) as [s' out] eqn:E. simpl in *.
    pose proof (step_supply s o s' out d (it_inv _ IT) E) as S1.
    pose proof (step_InvT s o IT G1) as IT1. rewrite E in IT1. simpl in IT1.
    specialize (IH s' IT1 G2). lia. }
  specialize (G ops s0 (init_InvT tb b0 sup0 WF) G0). exact G.
Qed.

(** * Housekeeping moves no coins; the ghost fates grow only by cancel / executed *)
Definition frame (s s' : state) : Prop :=
  bal s' = bal s /\ escrow s' = escrow s /\ comm s' = comm s /\ supply s' = supply s /\
  refunded s' = refunded s /\ burned s' = burned s /\ last_tx s' = last_tx s.

Lemma frame_refl : forall s, frame s s.
Proof. intros; repeat split. Qed.
Lemma frame_trans : forall a b c, frame a b -> frame b c -> frame a c.
Proof. unfold frame; intros a b c (A1&A2&A3&A4&A5&A6&A7) (B1&B2&B3&B4&B5&B6&B7); repeat split; congruence. Qed.

Lemma build_frame : forall f c k max now s s' out n, build f c k max now s = (s', out, n) -> frame s s'.
Proof.
  intros f c k max now s s' out n H. unfold build in H.
  apply atomically_cases in H as [[-> H]|[-> ->]]; [|apply frame_refl].
  unfold build_raw in H. destruct (max <=? 0); [discriminate|].
  destruct (pick c k (Z.to_nat max) (pool s)) as [picked rest]. destruct picked.
  - inversion H; apply frame_refl.
  - destruct (f 0%nat); [discriminate|]. simpl in H. destruct (f 1%nat); [discriminate|].
    destruct (f 2%nat); [discriminate|]. inversion H; repeat split.
Qed.

Lemma cancel_batch_frame : forall f k n s s' out m, cancel_batch f k n s = (s', out, m) -> frame s s'.
Proof.
  intros f k n s s' out m H. unfold cancel_batch in H.
  apply atomically_cases in H as [[-> H]|[-> ->]]; [|apply frame_refl].
  unfold cancel_batch_raw in H. destruct (find_batch k n (batches s)); [|discriminate].
  simpl in H. destruct (f 0%nat); [discriminate|]. inversion H; repeat split.
Qed.

Lemma create_loop_frame : forall f es n now s s' out m, create_loop f n es now s = (s', out, m) -> frame s s'.
Proof.
  intros f es; induction es as [|[[c d] k0] r IH]; intros n now s s' out m H; simpl in H.
  - inversion H; apply frame_refl.
  - destruct (erc20_of (table s) c d) as [k|]; [|inversion H; apply frame_refl].
    destruct (build (shift f n) c k batch_size now s) as [[s1 o1] m1] eqn:EB.
    apply build_frame in EB. destruct o1.
    + apply IH in H. eapply frame_trans; eauto.
    + inversion H; subst; exact EB.
Qed.

Lemma sweep_loop_frame : forall f bs n now s s' out m, sweep_loop f n bs now s = (s', out, m) -> frame s s'.
Proof.
  intros f bs; induction bs as [|b r IH]; intros n now s s' out m H; simpl in H.
  - inversion H; apply frame_refl.
  - destruct (b_timeout b <? now); [|eapply IH; eauto].
    destruct (cancel_batch (shift f n) (b_contract b) (b_nonce b) s) as [[s1 o1] m1] eqn:EB.
    apply cancel_batch_frame in EB. destruct o1.
    + apply IH in H. eapply frame_trans; eauto.
    + inversion H; subst; exact EB.
Qed.

Definition moves_no_coins (o : op) : bool :=
  match o with
  | OBuild _ _ _ _ _ | OCancelBatch _ _ _ | OSetGas _ _ _ _ | OCreateBatch _ _ _ | OSweep _ _ | OEndBlock _ _ _ => true
  | _ => false
  end.

Theorem batching_moves_no_coins_proof : forall s o,
  moves_no_coins o = true -> frame s (fst (step s o)).
Proof.
  intros s o M. unfold step. destruct (step3 s o) as [[s' out] n] eqn:E. simpl.
  destruct o; simpl in M; try discriminate; simpl in E.
  - eapply build_frame; eauto.
  - eapply cancel_batch_frame; eauto.
  - apply atomically_cases in E as [[-> E]|[-> ->]]; [|apply frame_refl].
    unfold set_gas_raw in E. destruct (find_batch k n0 (batches s)) as [b|]; [|discriminate].
    destruct (0 <? b_gas b); [discriminate|]. destruct (f 0%nat); [discriminate|].
    inversion E; repeat split.
  - unfold create_batch in E. destruct (h mod batch_period =? 0).
    + eapply create_loop_frame; eauto.
    + inversion E; apply frame_refl.
  - unfold sweep in E. eapply sweep_loop_frame; eauto.
  - unfold end_block in E.
    destruct (create_batch f 0%nat h now s) as [[s1 o1] n1] eqn:E1.
    destruct (sweep f n1 now s1) as [[s2 o2] n2] eqn:E2. inversion E; subst.
    eapply frame_trans.
    + unfold create_batch in E1. destruct (h mod batch_period =? 0).
      * eapply create_loop_frame; eauto.
      * inversion E1; apply frame_refl.
    + unfold sweep in E2. eapply sweep_loop_frame; eauto.
Qed.

(** a successful send locks amount+tax and puts the transfer, with the next id, in the pool *)
Theorem send_ok_locks_and_pools_proof : forall s u c d a tax lim f s',
  step s (OSend u c d a tax lim f) = (s', Ok) ->
  exists k, erc20_of (table s) c d = Some k /\
    last_tx s' = last_tx s + 1 /\
    pool s' = pool_insert (mkT (last_tx s + 1) u c k a tax) (pool s) /\
    bal s' u d = bal s u d - (a + tax) /\ escrow s' d = escrow s d + (a + tax) /\
    batches s' = batches s /\ supply s' = supply s.
Proof.
  intros s u c d a tax lim f s' H. unfold step in H. simpl in H.
  destruct (atomically s (send_raw f u c d a tax lim s)) as [[s1 o1] n] eqn:E. simpl in H.
  inversion H; subst s1 o1; clear H.
  apply atomically_cases in E as [[_ E]|[X _]]; [|discriminate].
  unfold send_raw in E. destruct ((a <=? 0) || lim || (tax <? 0)); [discriminate|].
  destruct (erc20_of (table s) c d) as [k|]; [|discriminate].
  destruct (f 0%nat || (bal s u d <? a + tax)); [discriminate|]. destruct (f 1%nat); [discriminate|].
  inversion E; subst s' n; clear E. exists k. simpl. unfold upd2, upd. rewrite !Z.eqb_refl. simpl.
  repeat split.
Qed.

(** a successful cancel refunds amount+tax, in full, to the sender, out of the escrow *)
Theorem cancel_ok_refunds_in_full_proof : forall s u i f s',
  step s (OCancel u i f) = (s', Ok) ->
  exists t d, In t (pool s) /\ t_id t = i /\ t_sender t = u /\ tx_denom (table s) t = Some d /\
    bal s' u d = bal s u d + owed t /\ escrow s' d = escrow s d - owed t /\
    refunded s' = i :: refunded s /\ burned s' = burned s /\ supply s' = supply s /\
    pool s' = remove_first (fun t => t_id t =? i) (pool s) /\ batches s' = batches s.
Proof.
  intros s u i f s' H. unfold step in H. simpl in H.
  destruct (atomically s (cancel_raw f u i s)) as [[s1 o1] n] eqn:E. simpl in H.
  inversion H; subst s1 o1; clear H.
  apply atomically_cases in E as [[_ E]|[X _]]; [|discriminate].
  unfold cancel_raw in E. destruct (i <? 1); [discriminate|].
  destruct (find (fun t => t_id t =? i) (pool s)) as [t|] eqn:EF; [|discriminate].
  destruct (negb (t_sender t =? u)) eqn:ES; [discriminate|].
  destruct (tx_denom (table s) t) as [d|] eqn:ED; [|discriminate]. simpl in E.
  destruct (f 0%nat || _); [discriminate|]. destruct (f 1%nat); [discriminate|].
  inversion E; subst s' n; clear E. exists t, d. simpl.
  apply negb_false_iff, Z.eqb_eq in ES. pose proof (find_id_some _ _ _ EF). apply find_some in EF as [EF _].
  unfold upd2, upd. rewrite !Z.eqb_refl. simpl. repeat split; auto.
Qed.

(** a successful executed-batch attestation burns exactly the batch's amount+tax and marks its
    transfers burned *)
Theorem executed_ok_burns_batch_proof : forall s c k n eth f s',
  step s (OExecuted c k n eth f) = (s', Ok) ->
  exists b d, find_batch k n (batches s) = Some b /\ b_chain b = c /\ denom_of (table s) c k = Some d /\
    escrow s' d = escrow s d - total_owed (b_txs b) /\ supply s' d = supply s d - total_owed (b_txs b) /\
    burned s' = map t_id (b_txs b) ++ burned s /\ refunded s' = refunded s /\
    batches s' = remove_first (is_batch k n) (batches s) /\ pool s' = pool s /\ bal s' = bal s.
Proof.
  intros s c k n eth f s' H. unfold step in H. simpl in H.
  destruct (atomically s (executed_raw f c k n eth s)) as [[s1 o1] m] eqn:E. simpl in H.
  inversion H; subst s1 o1; clear H.
  apply atomically_cases in E as [[_ E]|[X _]]; [|discriminate].
  unfold executed_raw in E.
  destruct (find_batch k n (batches s)) as [b|] eqn:EF; [|discriminate].
  destruct (negb (b_chain b =? c)) eqn:EC; [discriminate|].
  destruct (b_timeout b <=? eth); [discriminate|].
  destruct (denom_of (table s) c k) as [d|] eqn:ED; [|discriminate].
  destruct (f 0%nat || _); [discriminate|]. inversion E; subst s' m; clear E.
  apply negb_false_iff, Z.eqb_eq in EC. exists b, d. simpl. unfold upd. rewrite !Z.eqb_refl.
  repeat split; auto.
Qed.

(** the ghost fates change only through those two operations *)
Lemma to_comm_fates : forall f idx d a s s' out m,
  to_comm f idx d a s = (s', out, m) -> refunded s' = refunded s /\ burned s' = burned s.
Proof.
  intros f idx d a s s' out m H. unfold to_comm in H. destruct (f idx); inversion H; subst; split; reflexivity.
Qed.

Theorem fates_only_by_cancel_and_executed_proof : forall s o s' out,
  is_full o = false -> step s o = (s', out) ->
  (refunded s' = refunded s \/ exists u i f, o = OCancel u i f /\ out = Ok /\ refunded s' = i :: refunded s) /\
  (burned s' = burned s \/ exists c k n eth f b, o = OExecuted c k n eth f /\ out = Ok /\
      find_batch k n (batches s) = Some b /\ burned s' = map t_id (b_txs b) ++ burned s).
Proof.
  intros s o s' out NF H.
  destruct (moves_no_coins o) eqn:M.
  { pose proof (batching_moves_no_coins_proof s o M) as F. rewrite H in F. simpl in F.
    destruct F as (_&_&_&_&F5&F6&_). auto. }
  destruct out.
  2:{ apply failed_op_is_noop_proof in H; [subst; auto|]. destruct o; try discriminate; reflexivity. }
  destruct o; simpl in M; try discriminate; try (simpl in NF; discriminate NF).
  - apply send_ok_locks_and_pools_proof in H as H'. clear H'.
    unfold step in H; simpl in H.
    destruct (atomically s (send_raw f u c d a tax lim s)) as [[s1 o1] n] eqn:E. simpl in H.
    inversion H; subst s1 o1; clear H.
    apply atomically_cases in E as [[_ E]|[X _]]; [|discriminate].
    unfold send_raw in E. destruct ((a <=? 0) || lim || (tax <? 0)); [discriminate|].
    destruct (erc20_of (table s) c d) as [k|]; [|discriminate].
    destruct (f 0%nat || _); [discriminate|]. destruct (f 1%nat); [discriminate|].
    inversion E; subst; simpl; auto.
  - apply cancel_ok_refunds_in_full_proof in H as (t & d & _ & _ & _ & _ & _ & _ & R & B & _).
    split; [right; exists u, i, f; auto | left; exact B].
  - apply executed_ok_burns_batch_proof in H as (b & d & EF & _ & _ & _ & _ & B & R & _).
    split; [left; exact R | right; exists c, k, n, eth, f, b; auto].
  - unfold step in H; simpl in H.
    destruct (atomically s (deposit_raw f c k r a s)) as [[s1 o1] n] eqn:E. simpl in H.
    inversion H; subst s1 o1; clear H.
    apply atomically_cases in E as [[_ E]|[X _]]; [|discriminate].
    unfold deposit_raw in E. destruct (denom_of (table s) c k) as [d|]; [|discriminate].
    destruct (f 0%nat || (a <=? 0)); [discriminate|].
    destruct r as [u| |].
    + destruct (f 1%nat).
      * apply to_comm_fates in E as [A B]. simpl in A, B. auto.
      * inversion E; subst; simpl; auto.
    + apply to_comm_fates in E as [A B]. simpl in A, B. auto.
    + apply to_comm_fates in E as [A B]. simpl in A, B. auto.
  - unfold step in H; simpl in H. inversion H; subst; auto.
  - unfold step in H; simpl in H. inversion H; subst; auto.
  - unfold step in H; simpl in H.
    destruct (atomically s (map_admin_raw f c d k auth s)) as [[s1 o1] n] eqn:E. simpl in H.
    inversion H; subst s1 o1; clear H.
    apply atomically_cases in E as [[_ E]|[X _]]; [|discriminate].
    unfold map_admin_raw in E. destruct (f 0%nat); [discriminate|]. destruct (negb auth); [discriminate|].
    destruct (denom_of (table s) c k); [discriminate|]. inversion E; subst; simpl; auto.
  - unfold step in H; simpl in H. inversion H; subst; auto.
Qed.

(** an accepted transfer stays accepted: ids are never reused *)
Lemma last_tx_nf : forall s o, is_full o = false -> last_tx s <= last_tx (fst (step s o)).
Proof.
  intros s o NF. destruct (moves_no_coins o) eqn:M.
  { pose proof (batching_moves_no_coins_proof s o M) as (_&_&_&_&_&_&F). lia. }
  destruct (step s o) as [s' out] eqn:H. simpl.
  destruct out.
  2:{ apply failed_op_is_noop_proof in H; [subst; lia|]. destruct o; try discriminate; reflexivity. }
  destruct o; simpl in M; try discriminate; try (simpl in NF; discriminate NF).
  - apply send_ok_locks_and_pools_proof in H as (k & _ & L & _). lia.
  - unfold step in H; simpl in H.
    destruct (atomically s (cancel_raw f u i s)) as [[s1 o1] n] eqn:E. simpl in H.
    inversion H; subst s1 o1; clear H.
    apply atomically_cases in E as [[_ E]|[X _]]; [|discriminate].
    unfold cancel_raw in E. destruct (i <? 1); [discriminate|].
    destruct (find (fun t => t_id t =? i) (pool s)) as [t|]; [|discriminate].
    destruct (negb (t_sender t =? u)); [discriminate|].
    destruct (tx_denom (table s) t); [|discriminate]. simpl in E.
    destruct (f 0%nat || _); [discriminate|]. destruct (f 1%nat); [discriminate|].
    inversion E; subst; simpl; lia.
  - unfold step in H; simpl in H.
    destruct (atomically s (executed_raw f c k n eth s)) as [[s1 o1] m] eqn:E. simpl in H.
    inversion H; subst s1 o1; clear H.
    apply atomically_cases in E as [[_ E]|[X _]]; [|discriminate].
    unfold executed_raw in E. destruct (find_batch k n (batches s)) as [b|]; [|discriminate].
    destruct (negb (b_chain b =? c)); [discriminate|]. destruct (b_timeout b <=? eth); [discriminate|].
    destruct (denom_of (table s) c k); [|discriminate]. destruct (f 0%nat || _); [discriminate|].
    inversion E; subst; simpl; lia.
  - unfold step in H; simpl in H.
    destruct (atomically s (deposit_raw f c k r a s)) as [[s1 o1] n] eqn:E. simpl in H.
    inversion H; subst s1 o1; clear H.
    apply atomically_cases in E as [[_ E]|[X _]]; [|discriminate].
    unfold deposit_raw in E. destruct (denom_of (table s) c k) as [d|]; [|discriminate].
    destruct (f 0%nat || (a <=? 0)); [discriminate|].
    assert (G : forall idx s2 s3 o3 m3, to_comm f idx d a s2 = (s3, o3, m3) -> last_tx s3 = last_tx s2).
    { intros idx s2 s3 o3 m3 X. unfold to_comm in X. destruct (f idx); inversion X; reflexivity. }
    destruct r as [u| |].
    + destruct (f 1%nat).
      * apply G in E. simpl in E. lia.
      * inversion E; subst; simpl; lia.
    + apply G in E. simpl in E. lia.
    + apply G in E. simpl in E. lia.
  - unfold step in H; simpl in H. inversion H; subst; lia.
  - unfold step in H; simpl in H. inversion H; subst; simpl; lia.
  - unfold step in H; simpl in H.
    destruct (atomically s (map_admin_raw f c d k auth s)) as [[s1 o1] n] eqn:E. simpl in H.
    inversion H; subst s1 o1; clear H.
    apply atomically_cases in E as [[_ E]|[X _]]; [|discriminate].
    unfold map_admin_raw in E. destruct (f 0%nat); [discriminate|]. destruct (negb auth); [discriminate|].
    destruct (denom_of (table s) c k); [discriminate|]. inversion E; subst; simpl; lia.
  - unfold step in H; simpl in H. inversion H; subst; simpl; lia.
Qed.

Lemma run_sub_last_tx : forall tr s, Forall (fun o => sub_op o = true) tr -> last_tx s <= last_tx (run s tr).
Proof.
  induction tr as [|a r IH]; intros s F; simpl; [lia|].
  inversion F as [|? ? Fa Fr]; subst.
  pose proof (last_tx_nf s a (sub_not_full _ Fa)). specialize (IH (fst (step s a)) Fr). lia.
Qed.

Theorem last_tx_monotone_proof : forall s o, last_tx s <= last_tx (fst (step s o)).
Proof.
  intros s o. destruct (is_full o) eqn:NF; [|now apply last_tx_nf].
  destruct o; try (simpl in NF; discriminate NF).
  rewrite step_full_run. apply run_sub_last_tx. apply end_block_full_ok.
Qed.

(** * The model is the model of the code that is there now (translator facts) *)
From Coq Require Import String.
Local Open Scope string_scope.
Lemma code_shape_proof :
  cached_context_fns = ["BuildOutgoingTXBatch"; "CancelOutgoingTXBatch"; "OutgoingTxBatchExecuted"; "UpdateBatchGasEstimate"; "processAttestation"]
  /\ order_AddToOutgoingPool = ["GetERC20OfDenom"; "SendCoinsFromAccountToModule"; "autoIncrementID"; "addUnbatchedTX"; "GetChainInfo"]
  /\ order_RemoveFromOutgoingPoolAndRefund = ["GetUnbatchedTxById"; "removeUnbatchedTX"; "GetDenomOfERC20"; "SendCoinsFromModuleToAccount"; "GetChainInfo"]
  /\ order_BuildOutgoingTXBatch = ["pickUnbatchedTxs"; "GetChainInfo"; "autoIncrementID"; "PickValidatorForMessage"; "GetEthAddressByValidator"; "StoreBatch"]
  /\ order_CancelOutgoingTXBatch = ["GetOutgoingTXBatch"; "addUnbatchedTX"; "DeleteBatch"; "GetChainInfo"]
  /\ order_OutgoingTxBatchExecuted = ["GetOutgoingTXBatch"; "GetDenomOfERC20"; "BurnCoins"; "DeleteBatch"]
  /\ order_handleSendToPaloma = ["GetDenomOfERC20"; "MintCoins"; "sendCoinToLocalAddress"; "SendToCommunityPool"]
  /\ order_EndBlocker = ["createBatch"; "attestationTally"; "pruneAttestations"; "processGasEstimates"; "cleanupTimedOutBatches"]
  /\ pick_filters_chain = true /\ executed_checks_chain = true /\ executed_checks_timeout = true
  /\ deposit_fallback_on_send_error = true /\ sweep_cancels_when_timeout_lt_now = true
  /\ batch_size = 100 /\ batch_period = 50 /\ batch_timeout_secs = 600.
Proof. repeat split; reflexivity. Qed.

(** round 2: who writes the denom table and under which check, that nothing deletes from it, where
    the transfer-limit check sits, the steps of the end-blocker's tally / estimate pass, and how the
    cached-context functions behave when a collaborator panics: on a tree without "fix: do not
    commit a half-done batch change when a collaborator panics" only processAttestation is safe
    (the harness then reports the known finding from its own probe of the real keeper and injects
    no panics); with it all five are, which is what [eb_sub] models.  Any other set breaks this
    theorem. *)
Lemma code_shape2_proof :
  (panic_safe_commit_fns = ["processAttestation"]
   \/ panic_safe_commit_fns = ["BuildOutgoingTXBatch"; "CancelOutgoingTXBatch"; "OutgoingTxBatchExecuted"; "UpdateBatchGasEstimate"; "processAttestation"])
  /\ endblocker_recovers_panics = true
  /\ denom_table_writers = ["setDenomToERC20"] /\ denom_table_deleters = []
  /\ setDenomToERC20_callers = ["CreateTestEnv"; "InitGenesis"; "NewSkywayProposalHandler"; "SetERC20MappingProposal"; "SetERC20ToTokenDenom"]
  /\ setDenomToERC20_callers_checking_binding = ["SetERC20ToTokenDenom"]
  /\ order_setDenomToERC20 = ["GetDenomToERC20Key"; "GetERC20ToDenomKey"]
  /\ order_SetERC20ToTokenDenom = ["GetChainInfo"; "GetAuthorityMetadata"; "GetDenomOfERC20"; "setDenomToERC20"]
  /\ order_AddToOutgoingPool_checks = ["UpdateBridgeTransferUsageWithLimit"; "bridgeTaxAmount"; "GetERC20OfDenom"; "SendCoinsFromAccountToModule"]
  /\ order_createBatch = ["GetAllERC20ToDenoms"; "GetERC20OfDenom"; "BuildOutgoingTXBatch"]
  /\ order_TryAttestation = ["SetLastObservedEthereumBlockHeight"; "setLastObservedSkywayNonce"; "SetAttestation"; "processAttestation"; "emitObservedEvent"]
  /\ order_emitObservedEvent = ["GetChainInfo"]
  /\ order_processGasEstimates = ["IterateOutgoingTxBatches"; "GetBatchGasEstimateByNonceAndTokenContract"; "VerifyGasEstimates"; "UpdateBatchGasEstimate"]
  /\ processAttestation_commits_only_on_handler_success_and_returns_nil = true.
Proof. split; [first [left; reflexivity | right; reflexivity] | repeat split; reflexivity]. Qed.

Lemma end_block_is_run_of_substeps_proof : forall s h now groups ests f pf,
  let x := end_block_full f pf h now groups ests s in
  fst (step s (OEndBlockFull h now groups ests f pf)) = run s (eb_tr x) /\
  Forall (fun o => sub_op o = true) (eb_tr x).
Proof. intros; split; [apply step_full_run | apply (proj2 (end_block_full_ok f pf h now groups ests s))]. Qed.

(** round 3: the deferred "commit only if v == nil" of the four cached-context functions reads a
    NAMED RESULT, so every return statement — also one that builds a fresh error after a collaborator
    answered "not found" without an error — assigns it before the deferred function looks at it
    (with a local variable such a return would commit the half-done change: seeded C01-E). *)
Lemma code_shape3_proof :
  deferred_commit_reads_named_result =
    ["BuildOutgoingTXBatch"; "CancelOutgoingTXBatch"; "OutgoingTxBatchExecuted"; "UpdateBatchGasEstimate"].
Proof. reflexivity. Qed.

(** round 4: across an export / wipe / import of the module the pending transfer records are the
    same (as a multiset: pool and batches are re-inserted under the same keys), and nothing else of
    the bridge's fund state moves *)
Theorem genesis_round_trip_proof : forall s,
  let s' := fst (step s OGenesis) in
  snd (step s OGenesis) = Ok /\
  Permutation (pool s') (pool s) /\ Permutation (batches s') (batches s) /\
  Permutation (pending s') (pending s) /\
  table s' = table s /\ bal s' = bal s /\ escrow s' = escrow s /\ comm s' = comm s /\ supply s' = supply s /\
  last_tx s' = last_tx s /\ last_batch s' = last_batch s /\ refunded s' = refunded s /\ burned s' = burned s.
Proof.
  intros s. unfold step; simpl. repeat split.
  - apply genesis_pool_perm.
  - apply genesis_batches_perm.
  - apply genesis_pending_perm.
Qed.

(** round 4: ExportGenesis reads the whole pool, all batches and the denom table (before or after
    "fix: export the ERC20 -> denom entries of contracts a denom was mapped to before": the
    denom -> ERC20 index only, or both), skips nothing; the two getters walk the whole key prefix;
    InitGenesis writes counters, batches, pool and table back.  A per-token / per-index / filtered
    export is another list and breaks this theorem. *)
Lemma code_shape4_proof :
  (genesis_export_reads = ["GetUnbatchedTransactions"; "GetOutgoingTxBatches"; "GetAllERC20ToDenoms"]
   \/ genesis_export_reads = ["GetUnbatchedTransactions"; "GetOutgoingTxBatches"; "GetAllERC20ToDenoms"; "GetAllERC20ToDenomsByContract"])
  /\ genesis_export_skips_entries = false
  /\ pool_read_is_whole_prefix = true /\ batches_read_is_whole_prefix = true
  /\ order_InitGenesis = ["setID"; "setID"; "initBridgeDataFromGenesis"; "addUnbatchedTX"; "setDenomToERC20"]
  /\ order_initBridgeDataFromGenesis = ["StoreBatch"].
Proof. split; [first [left; reflexivity | right; reflexivity] | repeat split; reflexivity]. Qed.
