(** C01 — invariants and proofs about Skyway/Bridge.v. *)
From Coq Require Import List ZArith Bool Lia Permutation.
From Paloma Require Import Gen.C01 Skyway.Bridge.
Import ListNotations.
Open Scope Z_scope.

(** * Lists *)

Lemma pool_insert_perm : forall t l, Permutation (pool_insert t l) (t :: l).
Proof.
  intros t l; induction l as [|x r IH]; simpl; [reflexivity|].
  destruct (tx_key_lt x t); [reflexivity|].
  rewrite IH. apply perm_swap.
Qed.

Lemma pool_insert_all_perm : forall ts l, Permutation (pool_insert_all ts l) (ts ++ l).
Proof.
  unfold pool_insert_all. induction ts as [|t r IH]; intros l; simpl; [reflexivity|].
  rewrite IH. rewrite pool_insert_perm. symmetry. apply Permutation_middle.
Qed.

Lemma batch_insert_perm : forall b l, Permutation (batch_insert b l) (b :: l).
Proof.
  intros b l; induction l as [|x r IH]; simpl; [reflexivity|].
  destruct (batch_key_lt x b); [reflexivity|].
  rewrite IH. apply perm_swap.
Qed.

Lemma pick_perm : forall c k n l p q, pick c k n l = (p, q) -> Permutation (p ++ q) l.
Proof.
  intros c k n l; revert n; induction l as [|t r IH]; intros n p q H; simpl in H.
  - inversion H; reflexivity.
  - destruct n as [|n'].
    + inversion H; reflexivity.
    + destruct ((t_contract t =? k) && (t_chain t =? c)).
      * destruct (pick c k n' r) as [p' q'] eqn:E. inversion H; subst. simpl.
        constructor. eapply IH; eauto.
      * destruct (pick c k (S n') r) as [p' q'] eqn:E. inversion H; subst.
        rewrite <- Permutation_middle. constructor. eapply IH; eauto.
Qed.

Lemma pick_spec : forall c k n l p q, pick c k n l = (p, q) ->
  Forall (fun t => t_chain t = c /\ t_contract t = k) p.
Proof.
  intros c k n l; revert n; induction l as [|t r IH]; intros n p q H; simpl in H.
  - inversion H; constructor.
  - destruct n as [|n'].
    + inversion H; constructor.
    + destruct ((t_contract t =? k) && (t_chain t =? c)) eqn:M.
      * destruct (pick c k n' r) as [p' q'] eqn:E. inversion H; subst.
        apply andb_true_iff in M as [M1 M2]. constructor; [lia|]. eapply IH; eauto.
      * destruct (pick c k (S n') r) as [p' q'] eqn:E. inversion H; subst. eapply IH; eauto.
Qed.

Lemma pick_length : forall c k n l p q, pick c k n l = (p, q) -> (length p <= n)%nat.
Proof.
  intros c k n l; revert n; induction l as [|t r IH]; intros n p q H; simpl in H.
  - inversion H; simpl; lia.
  - destruct n as [|n'].
    + inversion H; simpl; lia.
    + destruct ((t_contract t =? k) && (t_chain t =? c)).
      * destruct (pick c k n' r) as [p' q'] eqn:E. inversion H; subst. simpl.
        apply IH in E. lia.
      * destruct (pick c k (S n') r) as [p' q'] eqn:E. inversion H; subst. eapply IH; eauto.
Qed.

Lemma find_remove_first_perm : forall A (p : A -> bool) l x,
  find p l = Some x -> Permutation l (x :: remove_first p l).
Proof.
  intros A p l; induction l as [|y r IH]; intros x H; simpl in *; [discriminate|].
  destruct (p y).
  - inversion H; subst. reflexivity.
  - rewrite (IH _ H) at 1. apply perm_swap.
Qed.

Lemma flat_map_perm : forall A B (g : A -> list B) l1 l2,
  Permutation l1 l2 -> Permutation (flat_map g l1) (flat_map g l2).
Proof.
  intros A B g l1 l2 H; induction H; simpl.
  - reflexivity.
  - now apply Permutation_app_head.
  - rewrite !app_assoc. apply Permutation_app_tail. apply Permutation_app_comm.
  - etransitivity; eauto.
Qed.

Lemma flat_map_set_gas : forall k n est l,
  flat_map b_txs (map (fun x => if is_batch k n x then set_gas x est else x) l) = flat_map b_txs l.
Proof.
  intros k n est l; induction l as [|b r IH]; simpl; [reflexivity|].
  rewrite IH. destruct (is_batch k n b); reflexivity.
Qed.

(** * Sums *)

Lemma sum_for_app : forall tb d l1 l2, sum_for tb d (l1 ++ l2) = sum_for tb d l1 + sum_for tb d l2.
Proof.
  intros tb d l1 l2; induction l1 as [|t r IH]; simpl; [reflexivity|].
  unfold sum_for in *. simpl. rewrite IH. lia.
Qed.

Lemma sum_for_cons : forall tb d t l, sum_for tb d (t :: l) = contrib tb d t + sum_for tb d l.
Proof. reflexivity. Qed.

Lemma sum_for_perm : forall tb d l1 l2, Permutation l1 l2 -> sum_for tb d l1 = sum_for tb d l2.
Proof.
  intros tb d l1 l2 H; induction H.
  - reflexivity.
  - rewrite !sum_for_cons. lia.
  - rewrite !sum_for_cons. lia.
  - lia.
Qed.

Lemma sum_for_homog : forall tb d d0 l,
  Forall (fun t => tx_denom tb t = Some d0) l ->
  sum_for tb d l = if d0 =? d then total_owed l else 0.
Proof.
  intros tb d d0 l H; induction H as [|t r Ht Hr IH].
  - simpl. destruct (d0 =? d); reflexivity.
  - rewrite sum_for_cons, IH. unfold contrib. rewrite Ht. simpl.
    destruct (d0 =? d); lia.
Qed.

(** * [atomically] *)

Lemma atomically_cases : forall s r s' out n,
  atomically s r = (s', out, n) ->
  (out = Ok /\ r = (s', Ok, n)) \/ (out = Err /\ s' = s).
Proof.
  intros s [[s1 o1] n1] s' out n H. simpl in H. destruct o1; inversion H; subst; auto.
Qed.

(** * Counting where an id is *)

Lemma occ_app : forall l1 l2 i, occ (l1 ++ l2) i = (occ l1 i + occ l2 i)%nat.
Proof. intros; apply count_occ_app. Qed.
Lemma occ_perm : forall l1 l2 i, Permutation l1 l2 -> occ l1 i = occ l2 i.
Proof. intros l1 l2 i H. now apply (Permutation_count_occ Z.eq_dec). Qed.
Lemma occ_cons : forall x l i, occ (x :: l) i = ((if (x =? i)%Z then 1 else 0) + occ l i)%nat.
Proof.
  intros x l i. unfold occ. simpl. destruct (Z.eq_dec x i) as [E|E].
  - subst. now rewrite Z.eqb_refl.
  - destruct (x =? i) eqn:B; [lia | reflexivity].
Qed.
Lemma occ_nil : forall i, occ [] i = 0%nat.
Proof. reflexivity. Qed.
Arguments occ : simpl never.

(** * The invariant *)

Definition batch_homog (b : batch) : Prop :=
  Forall (fun t => t_chain t = b_chain b /\ t_contract t = b_contract b) (b_txs b).

Definition pend_ids (s : state) : list Z := map t_id (pending s).
Definition places (s : state) (i : Z) : nat :=
  (occ (pend_ids s) i + occ (refunded s) i + occ (burned s) i)%nat.
Definition in_range (s : state) (i : Z) : nat :=
  if (1 <=? i) && (i <=? last_tx s) then 1%nat else 0%nat.

Record Inv (s : state) : Prop := {
  inv_escrow : forall d, escrow s d = sum_for (table s) d (pending s);
  inv_homog : Forall batch_homog (batches s);
  inv_last : 0 <= last_tx s;
  inv_count : forall i, places s i = in_range s i
}.

Lemma init_inv : forall tb b0 sup0, Inv (init tb b0 sup0).
Proof.
  intros; constructor; simpl.
  - reflexivity.
  - constructor.
  - lia.
  - intros i. unfold places, in_range; simpl.
    destruct ((1 <=? i) && (i <=? 0)) eqn:E; [lia | reflexivity].
Qed.

(** moving transfers between pool and batches *)
Lemma inv_perm : forall s s',
  table s' = table s -> (forall d, escrow s' d = escrow s d) ->
  Permutation (pending s') (pending s) ->
  refunded s' = refunded s -> burned s' = burned s -> last_tx s' = last_tx s ->
  Forall batch_homog (batches s') ->
  Inv s -> Inv s'.
Proof.
  intros s s' Ht He Hp Hr Hb Hl Hh [I1 I2 I3 I4].
  constructor.
  - intros d. rewrite He, Ht, I1. symmetry. now apply sum_for_perm.
  - exact Hh.
  - lia.
  - intros i. unfold places, in_range, pend_ids in *. rewrite Hr, Hb, Hl, <- I4.
    rewrite (occ_perm _ _ i (Permutation_map t_id Hp)). reflexivity.
Qed.

Lemma upd_same : forall g k v, upd g k v k = v.
Proof. intros; unfold upd; now rewrite Z.eqb_refl. Qed.
Lemma upd_other : forall g k v x, x <> k -> upd g k v x = g x.
Proof. intros; unfold upd. destruct (x =? k) eqn:E; [lia | reflexivity]. Qed.

(** * Each operation preserves the invariant *)

Lemma send_raw_inv : forall f u c d a tax s s' n,
  table_wf (table s) -> Inv s -> send_raw f u c d a tax s = (s', Ok, n) ->
  Inv s' /\ table s' = table s.
Proof.
  intros f u c d a tax s s' n WF [I1 I2 I3 I4] H. unfold send_raw in H.
  destruct ((a <=? 0) || (tax <? 0)); [discriminate|].
  destruct (erc20_of (table s) c d) as [k|] eqn:EK; [|discriminate].
  destruct (f 0%nat || (bal s u d <? a + tax)); [discriminate|].
  destruct (f 1%nat); [discriminate|]. inversion H; subst; clear H.
  split; [|reflexivity].
  set (t := mkT (last_tx s + 1) u c k a tax).
  assert (HP : Permutation (pool_insert t (pool s) ++ flat_map b_txs (batches s)) (t :: pending s)).
  { unfold pending. rewrite pool_insert_perm. reflexivity. }
  assert (HD : tx_denom (table s) t = Some d) by (apply WF; exact EK).
  constructor; simpl.
  - intros d'. unfold pending; simpl. fold t. rewrite (sum_for_perm _ _ _ _ HP), sum_for_cons.
    unfold contrib. rewrite HD. unfold upd. rewrite (Z.eqb_sym d d').
    destruct (d' =? d) eqn:E.
    + apply Z.eqb_eq in E; subst. rewrite I1. unfold owed; simpl. lia.
    + rewrite I1. lia.
  - exact I2.
  - lia.
  - intros i. specialize (I4 i). unfold places, in_range, pend_ids, pending in *; simpl in *. fold t.
    rewrite (occ_perm _ _ i (Permutation_map t_id HP)). simpl map. rewrite occ_cons. simpl t_id.
    destruct (last_tx s + 1 =? i) eqn:E.
    + apply Z.eqb_eq in E.
      destruct ((1 <=? i) && (i <=? last_tx s)) eqn:R1; [lia|].
      destruct ((1 <=? i) && (i <=? last_tx s + 1)) eqn:R2; [lia | lia].
    + apply Z.eqb_neq in E.
      destruct ((1 <=? i) && (i <=? last_tx s)) eqn:R1;
        destruct ((1 <=? i) && (i <=? last_tx s + 1)) eqn:R2; lia.
Qed.

Lemma find_id_some : forall i l t, find (fun t => t_id t =? i) l = Some t -> t_id t = i.
Proof. intros i l t H. apply find_some in H as [_ H]. lia. Qed.

Lemma cancel_raw_inv : forall f u i s s' n,
  Inv s -> cancel_raw f u i s = (s', Ok, n) ->
  Inv s' /\ table s' = table s.
Proof.
  intros f u i s s' n [I1 I2 I3 I4] H. unfold cancel_raw in H.
  destruct (i <? 1); [discriminate|].
  destruct (find (fun t => t_id t =? i) (pool s)) as [t|] eqn:EF; [|discriminate].
  destruct (negb (t_sender t =? u)); [discriminate|].
  destruct (tx_denom (table s) t) as [d|] eqn:ED; [|discriminate]. simpl in H.
  destruct (f 0%nat || (escrow s d <? owed t)); [discriminate|].
  destruct (f 1%nat); [discriminate|]. inversion H; subst s' n; clear H.
  split; [|reflexivity].
  pose proof (find_remove_first_perm _ _ _ _ EF) as HP0.
  assert (HP : Permutation (pending s) (t :: remove_first (fun t => t_id t =? i) (pool s) ++ flat_map b_txs (batches s))).
  { unfold pending. rewrite HP0 at 1. reflexivity. }
  pose proof (find_id_some _ _ _ EF) as Hid.
  constructor; simpl.
  - intros d'. unfold pending; simpl. specialize (I1 d').
    rewrite (sum_for_perm _ _ _ _ HP), sum_for_cons in I1. unfold contrib in I1. rewrite ED in I1.
    unfold upd. rewrite (Z.eqb_sym d d') in I1. destruct (d' =? d) eqn:E.
    + apply Z.eqb_eq in E; subst. lia.
    + lia.
  - exact I2.
  - exact I3.
  - intros j. specialize (I4 j). unfold places, in_range, pend_ids, pending in *; simpl in *.
    rewrite (occ_perm _ _ j (Permutation_map t_id HP)) in I4. simpl map in I4. rewrite occ_cons in I4.
    rewrite occ_cons. rewrite Hid in I4. lia.
Qed.

Lemma build_raw_inv : forall f c k max now s s' n,
  Inv s -> build_raw f c k max now s = (s', Ok, n) ->
  Inv s' /\ table s' = table s.
Proof.
  intros f c k max now s s' n I H. unfold build_raw in H.
  destruct (max <=? 0); [discriminate|].
  destruct (pick c k (Z.to_nat max) (pool s)) as [picked rest] eqn:EP.
  destruct picked as [|t0 pk].
  - inversion H; subst. split; [exact I | reflexivity].
  - destruct (f 0%nat); [discriminate|]. simpl in H.
    destruct (f 1%nat); [discriminate|]. destruct (f 2%nat); [discriminate|].
    inversion H; subst s' n; clear H. split; [|reflexivity].
    pose proof (pick_perm _ _ _ _ _ _ EP) as HP.
    pose proof (pick_spec _ _ _ _ _ _ EP) as HS.
    apply (inv_perm s); simpl; try reflexivity; try exact I.
    + unfold pending; simpl.
      rewrite (flat_map_perm _ _ b_txs _ _ (batch_insert_perm _ _)). simpl.
      rewrite <- HP. change (t0 :: pk ++ flat_map b_txs (batches s)) with ((t0 :: pk) ++ flat_map b_txs (batches s)).
      rewrite app_assoc. apply Permutation_app_tail. apply Permutation_app_comm.
    + eapply Permutation_Forall; [symmetry; apply batch_insert_perm|].
      constructor; [exact HS | apply (inv_homog _ I)].
Qed.

Lemma build_inv : forall f c k max now s s' out n,
  Inv s -> build f c k max now s = (s', out, n) -> Inv s' /\ table s' = table s.
Proof.
  intros f c k max now s s' out n I H. unfold build in H.
  apply atomically_cases in H as [[-> H]|[-> ->]]; [|split; [exact I|reflexivity]].
  eapply build_raw_inv; eauto.
Qed.

Lemma find_batch_some : forall k n l b, find_batch k n l = Some b ->
  In b l /\ b_contract b = k /\ b_nonce b = n.
Proof.
  intros k n l b H. apply find_some in H as [H1 H2]. unfold is_batch in H2.
  apply andb_true_iff in H2 as [A B]. repeat split; [exact H1 | lia | lia].
Qed.

Lemma cancel_batch_raw_inv : forall f k n s s' m,
  Inv s -> cancel_batch_raw f k n s = (s', Ok, m) -> Inv s' /\ table s' = table s.
Proof.
  intros f k n s s' m I H. unfold cancel_batch_raw in H.
  destruct (find_batch k n (batches s)) as [b|] eqn:EF; [|discriminate]. simpl in H.
  destruct (f 0%nat); [discriminate|]. inversion H; subst s' m; clear H. split; [|reflexivity].
  pose proof (find_remove_first_perm _ _ _ _ EF) as HP.
  apply (inv_perm s); simpl; try reflexivity; try exact I.
  - unfold pending; simpl. rewrite pool_insert_all_perm.
    rewrite (flat_map_perm _ _ b_txs _ _ HP). simpl.
    rewrite <- !app_assoc. rewrite (app_assoc (b_txs b)). rewrite (app_assoc (pool s)).
    apply Permutation_app_tail. apply Permutation_app_comm.
  - pose proof (inv_homog _ I) as HH. eapply Permutation_Forall in HH; [|exact HP].
    now inversion HH.
Qed.

Lemma cancel_batch_inv : forall f k n s s' out m,
  Inv s -> cancel_batch f k n s = (s', out, m) -> Inv s' /\ table s' = table s.
Proof.
  intros f k n s s' out m I H. unfold cancel_batch in H.
  apply atomically_cases in H as [[-> H]|[-> ->]]; [|split; [exact I|reflexivity]].
  eapply cancel_batch_raw_inv; eauto.
Qed.

Lemma set_gas_raw_inv : forall f k n est s s' m,
  Inv s -> set_gas_raw f k n est s = (s', Ok, m) -> Inv s' /\ table s' = table s.
Proof.
  intros f k n est s s' m I H. unfold set_gas_raw in H.
  destruct (find_batch k n (batches s)) as [b|]; [|discriminate].
  destruct (0 <? b_gas b); [discriminate|]. destruct (f 0%nat); [discriminate|].
  inversion H; subst s' m; clear H. split; [|reflexivity].
  apply (inv_perm s); simpl; try reflexivity; try exact I.
  - unfold pending; simpl. now rewrite flat_map_set_gas.
  - pose proof (inv_homog _ I) as HH. induction HH as [|x r Hx Hr IH]; simpl; constructor; auto.
    destruct (is_batch k n x); exact Hx.
Qed.

Lemma executed_raw_inv : forall f c k n eth s s' m,
  Inv s -> executed_raw f c k n eth s = (s', Ok, m) -> Inv s' /\ table s' = table s.
Proof.
  intros f c k n eth s s' m [I1 I2 I3 I4] H. unfold executed_raw in H.
  destruct (find_batch k n (batches s)) as [b|] eqn:EF; [|discriminate].
  destruct (negb (b_chain b =? c)) eqn:EC; [discriminate|].
  destruct (b_timeout b <=? eth); [discriminate|].
  destruct (denom_of (table s) c k) as [d|] eqn:ED; [|discriminate].
  destruct (f 0%nat || (escrow s d <? total_owed (b_txs b))); [discriminate|].
  inversion H; subst s' m; clear H. split; [|reflexivity].
  pose proof (find_remove_first_perm _ _ _ _ EF) as HP.
  pose proof (find_batch_some _ _ _ _ EF) as (Hin & Hk & Hn).
  apply negb_false_iff, Z.eqb_eq in EC.
  assert (HH : Forall (fun t => tx_denom (table s) t = Some d) (b_txs b)).
  { rewrite Forall_forall in I2. specialize (I2 b Hin). unfold batch_homog in I2.
    eapply Forall_impl; [|exact I2]. intros t [A B]. unfold tx_denom. now rewrite A, B, EC, Hk. }
  assert (HPend : Permutation (pending s)
            (b_txs b ++ pool s ++ flat_map b_txs (remove_first (is_batch k n) (batches s)))).
  { unfold pending. rewrite (flat_map_perm _ _ b_txs _ _ HP). simpl.
    rewrite app_assoc. rewrite (Permutation_app_comm (pool s)). now rewrite <- app_assoc. }
  constructor; simpl.
  - intros d'. unfold pending; simpl. specialize (I1 d').
    rewrite (sum_for_perm _ _ _ _ HPend), sum_for_app, (sum_for_homog _ d' d _ HH) in I1.
    unfold upd. rewrite (Z.eqb_sym d d') in I1. destruct (d' =? d) eqn:E.
    + apply Z.eqb_eq in E; subst. lia.
    + lia.
  - eapply Permutation_Forall in I2; [|exact HP]. now inversion I2.
  - exact I3.
  - intros j. specialize (I4 j). unfold places, in_range, pend_ids in *; simpl in *.
    rewrite (occ_perm _ _ j (Permutation_map t_id HPend)) in I4.
    rewrite map_app, occ_app in I4. unfold pending; simpl. rewrite occ_app. lia.
Qed.

Lemma upd_upd_back : forall g d a x, upd (upd g d (g d + a)) d (upd g d (g d + a) d - a) x = g x.
Proof.
  intros. unfold upd. destruct (x =? d) eqn:E.
  - rewrite Z.eqb_refl. apply Z.eqb_eq in E. subst. lia.
  - reflexivity.
Qed.

Lemma to_comm_inv : forall f idx d a s0 s s' m,
  Inv s0 -> table s = table s0 -> pool s = pool s0 -> batches s = batches s0 ->
  refunded s = refunded s0 -> burned s = burned s0 -> last_tx s = last_tx s0 ->
  escrow s = upd (escrow s0) d (escrow s0 d + a) ->
  to_comm f idx d a s = (s', Ok, m) -> Inv s' /\ table s' = table s0.
Proof.
  intros f idx d a s0 s s' m I Ht Hp Hb Hr Hu Hl He H. unfold to_comm in H.
  destruct (f idx); [discriminate|]. inversion H; subst s' m; clear H. split; [|exact Ht].
  apply (inv_perm s0); simpl; auto.
  - intros x. rewrite He. apply upd_upd_back.
  - unfold pending; simpl. rewrite Hp, Hb. reflexivity.
  - rewrite Hb. apply (inv_homog _ I).
Qed.

Lemma deposit_raw_inv : forall f c k r a s s' m,
  Inv s -> deposit_raw f c k r a s = (s', Ok, m) -> Inv s' /\ table s' = table s.
Proof.
  intros f c k r a s s' m I H. unfold deposit_raw in H.
  destruct (denom_of (table s) c k) as [d|]; [|discriminate].
  destruct (f 0%nat || (a <=? 0)); [discriminate|].
  destruct r as [u| |].
  - destruct (f 1%nat).
    + eapply to_comm_inv in H; eauto; reflexivity.
    + inversion H; subst s' m; clear H. split; [|reflexivity].
      apply (inv_perm s); simpl; try reflexivity; try exact I.
      * intros x. apply upd_upd_back.
      * apply (inv_homog _ I).
  - eapply to_comm_inv in H; eauto; reflexivity.
  - eapply to_comm_inv in H; eauto; reflexivity.
Qed.

(** loops of the end-blocker *)
Lemma create_loop_inv : forall f es n now s s' out m,
  Inv s -> create_loop f n es now s = (s', out, m) -> Inv s' /\ table s' = table s.
Proof.
  intros f es; induction es as [|[[c d] k0] r IH]; intros n now s s' out m I H; simpl in H.
  - inversion H; subst. split; [exact I | reflexivity].
  - destruct (erc20_of (table s) c d) as [k|]; [|inversion H; subst; split; [exact I | reflexivity]].
    destruct (build (shift f n) c k batch_size now s) as [[s1 o1] m1] eqn:EB.
    apply build_inv in EB as [I1 T1]; [|exact I].
    destruct o1.
    + apply IH in H as [I2 T2]; [|exact I1]. split; [exact I2 | congruence].
    + inversion H; subst. split; [exact I1 | exact T1].
Qed.

Lemma sweep_loop_inv : forall f bs n now s s' out m,
  Inv s -> sweep_loop f n bs now s = (s', out, m) -> Inv s' /\ table s' = table s.
Proof.
  intros f bs; induction bs as [|b r IH]; intros n now s s' out m I H; simpl in H.
  - inversion H; subst. split; [exact I | reflexivity].
  - destruct (b_timeout b <? now).
    + destruct (cancel_batch (shift f n) (b_contract b) (b_nonce b) s) as [[s1 o1] m1] eqn:EB.
      apply cancel_batch_inv in EB as [I1 T1]; [|exact I].
      destruct o1.
      * apply IH in H as [I2 T2]; [|exact I1]. split; [exact I2 | congruence].
      * inversion H; subst. split; [exact I1 | exact T1].
    + eapply IH; eauto.
Qed.

Lemma create_batch_inv : forall f n h now s s' out m,
  Inv s -> create_batch f n h now s = (s', out, m) -> Inv s' /\ table s' = table s.
Proof.
  intros f n h now s s' out m I H. unfold create_batch in H.
  destruct (h mod batch_period =? 0).
  - eapply create_loop_inv; eauto.
  - inversion H; subst. split; [exact I | reflexivity].
Qed.

Lemma atomic_inv : forall s r s' out n,
  Inv s -> (forall s1 n1, r = (s1, Ok, n1) -> Inv s1 /\ table s1 = table s) ->
  atomically s r = (s', out, n) -> Inv s' /\ table s' = table s.
Proof.
  intros s r s' out n I Hr H. apply atomically_cases in H as [[-> H]|[-> ->]].
  - eapply Hr; eauto.
  - split; [exact I | reflexivity].
Qed.

Lemma step3_inv : forall s o s' out n,
  table_wf (table s) -> Inv s -> step3 s o = (s', out, n) -> Inv s' /\ table s' = table s.
Proof.
  intros s o s' out n WF I H. destruct o; simpl in H.
  - eapply atomic_inv; eauto. intros; eapply send_raw_inv; eauto.
  - eapply atomic_inv; eauto. intros; eapply cancel_raw_inv; eauto.
  - eapply build_inv; eauto.
  - eapply cancel_batch_inv; eauto.
  - eapply atomic_inv; eauto. intros; eapply set_gas_raw_inv; eauto.
  - eapply atomic_inv; eauto. intros; eapply executed_raw_inv; eauto.
  - eapply atomic_inv; eauto. intros; eapply deposit_raw_inv; eauto.
  - eapply create_batch_inv; eauto.
  - unfold sweep in H. eapply sweep_loop_inv; eauto.
  - unfold end_block in H.
    destruct (create_batch f 0%nat h now s) as [[s1 o1] n1] eqn:E1.
    destruct (sweep f n1 now s1) as [[s2 o2] n2] eqn:E2.
    inversion H; subst. apply create_batch_inv in E1 as [I1 T1]; [|exact I].
    unfold sweep in E2. apply sweep_loop_inv in E2 as [I2 T2]; [|exact I1].
    split; [exact I2 | congruence].
  - inversion H; subst. split; [exact I | reflexivity].
Qed.

Lemma step_inv : forall s o, table_wf (table s) -> Inv s ->
  Inv (fst (step s o)) /\ table (fst (step s o)) = table s.
Proof.
  intros s o WF I. unfold step. destruct (step3 s o) as [[s' out] n] eqn:E. simpl.
  eapply step3_inv; eauto.
Qed.

Lemma run_inv : forall ops s, table_wf (table s) -> Inv s ->
  Inv (run s ops) /\ table (run s ops) = table s.
Proof.
  induction ops as [|o r IH]; intros s WF I; simpl.
  - split; [exact I | reflexivity].
  - destruct (step_inv s o WF I) as [I1 T1].
    destruct (IH (fst (step s o))) as [I2 T2]; [now rewrite T1 | exact I1 |].
    split; [exact I2 | congruence].
Qed.

(** * Theorem 1: escrow = sum over pending transfers *)
Theorem escrow_eq_pending_proof : forall tb b0 sup0 ops d,
  table_wf tb ->
  let s := run (init tb b0 sup0) ops in
  escrow s d = sum_for tb d (pending s).
Proof.
  intros tb b0 sup0 ops d WF s.
  destruct (run_inv ops (init tb b0 sup0) WF (init_inv tb b0 sup0)) as [I T].
  fold s in I, T. simpl in T. rewrite <- T. apply (inv_escrow _ I).
Qed.

(** * Theorem 2: every accepted transfer is in exactly one place *)
Lemma places_split : forall s i,
  places s i = (occ (pool_ids s) i + occ (batch_ids s) i + occ (refunded s) i + occ (burned s) i)%nat.
Proof.
  intros. unfold places, pend_ids, pending, pool_ids, batch_ids. rewrite map_app, occ_app. lia.
Qed.

Theorem transfer_in_exactly_one_place_proof : forall tb b0 sup0 ops i,
  table_wf tb ->
  let s := run (init tb b0 sup0) ops in
  accepted s i ->
  (occ (pool_ids s) i + occ (batch_ids s) i + occ (refunded s) i + occ (burned s) i = 1)%nat.
Proof.
  intros tb b0 sup0 ops i WF s A.
  destruct (run_inv ops (init tb b0 sup0) WF (init_inv tb b0 sup0)) as [I _]. fold s in I.
  rewrite <- places_split, (inv_count _ I). unfold in_range, accepted in *.
  destruct ((1 <=? i) && (i <=? last_tx s)) eqn:E; [reflexivity|].
  apply andb_false_iff in E as [E|E]; lia.
Qed.

(** ids that were never accepted are nowhere *)
Theorem unaccepted_nowhere_proof : forall tb b0 sup0 ops i,
  table_wf tb ->
  let s := run (init tb b0 sup0) ops in
  ~ accepted s i ->
  (occ (pool_ids s) i + occ (batch_ids s) i + occ (refunded s) i + occ (burned s) i = 0)%nat.
Proof.
  intros tb b0 sup0 ops i WF s A.
  destruct (run_inv ops (init tb b0 sup0) WF (init_inv tb b0 sup0)) as [I _]. fold s in I.
  rewrite <- places_split, (inv_count _ I). unfold in_range, accepted in *.
  destruct ((1 <=? i) && (i <=? last_tx s)) eqn:E; [|reflexivity].
  apply andb_true_iff in E as [E1 E2]. lia.
Qed.

(** * Theorem 4: an operation that reports failure is a no-op *)
Theorem failed_op_is_noop_proof : forall s o s',
  atomic_op o = true -> step s o = (s', Err) -> s' = s.
Proof.
  intros s o s' A H. unfold step in H. destruct (step3 s o) as [[s1 o1] n] eqn:E. simpl in H.
  inversion H; subst s1 o1; clear H.
  destruct o; simpl in A; try discriminate; simpl in E; try (inversion E; fail);
    try (unfold build in E); try (unfold cancel_batch in E);
    apply atomically_cases in E as [[X _]|[_ X]]; congruence.
Qed.

(** end-of-block housekeeping is a sequence of all-or-nothing operations *)
Lemma create_loop_run : forall f es n now s,
  exists subs, Forall (fun x => atomic_op x = true) subs /\
               fst (fst (create_loop f n es now s)) = run s subs.
Proof.
  intros f es; induction es as [|[[c d] k0] r IH]; intros n now s; simpl.
  - exists []. split; [constructor | reflexivity].
  - destruct (erc20_of (table s) c d) as [k|].
    + destruct (build (shift f n) c k batch_size now s) as [[s1 o1] m1] eqn:EB.
      assert (E1 : s1 = fst (step s (OBuild c k batch_size now (shift f n)))).
      { unfold step; simpl. now rewrite EB. }
      destruct o1.
      * destruct (IH (n + m1)%nat now s1) as (subs & F & R).
        exists (OBuild c k batch_size now (shift f n) :: subs). split; [constructor; [reflexivity | exact F]|].
        simpl. rewrite <- E1. exact R.
      * exists [OBuild c k batch_size now (shift f n)]. split; [repeat constructor|]. simpl. now rewrite <- E1.
    + exists []. split; [constructor | reflexivity].
Qed.

Lemma sweep_loop_run : forall f bs n now s,
  exists subs, Forall (fun x => atomic_op x = true) subs /\
               fst (fst (sweep_loop f n bs now s)) = run s subs.
Proof.
  intros f bs; induction bs as [|b r IH]; intros n now s; simpl.
  - exists []. split; [constructor | reflexivity].
  - destruct (b_timeout b <? now).
    + destruct (cancel_batch (shift f n) (b_contract b) (b_nonce b) s) as [[s1 o1] m1] eqn:EB.
      assert (E1 : s1 = fst (step s (OCancelBatch (b_contract b) (b_nonce b) (shift f n)))).
      { unfold step; simpl. now rewrite EB. }
      destruct o1.
      * destruct (IH (n + m1)%nat now s1) as (subs & F & R).
        exists (OCancelBatch (b_contract b) (b_nonce b) (shift f n) :: subs).
        split; [constructor; [reflexivity | exact F]|]. simpl. rewrite <- E1. exact R.
      * exists [OCancelBatch (b_contract b) (b_nonce b) (shift f n)]. split; [repeat constructor|].
        simpl. now rewrite <- E1.
    + apply IH.
Qed.

Lemma run_app : forall s l1 l2, run s (l1 ++ l2) = run (run s l1) l2.
Proof. intros; unfold run; apply fold_left_app. Qed.

Theorem housekeeping_is_atomic_steps_proof : forall s o,
  atomic_op o = false ->
  exists subs, Forall (fun x => atomic_op x = true) subs /\ fst (step s o) = run s subs.
Proof.
  intros s o A. destruct o; simpl in A; try discriminate; unfold step; simpl.
  - unfold create_batch. destruct (h mod batch_period =? 0).
    + apply create_loop_run.
    + exists []. split; [constructor | reflexivity].
  - unfold sweep. apply sweep_loop_run.
  - unfold end_block.
    destruct (create_batch f 0%nat h now s) as [[s1 o1] n1] eqn:E1.
    destruct (sweep f n1 now s1) as [[s2 o2] n2] eqn:E2. simpl.
    assert (exists l1, Forall (fun x => atomic_op x = true) l1 /\ s1 = run s l1) as (l1 & F1 & R1).
    { unfold create_batch in E1. destruct (h mod batch_period =? 0).
      - destruct (create_loop_run f (table s) 0%nat now s) as (l & F & R). exists l. split; [exact F|].
        rewrite E1 in R. exact R.
      - inversion E1; subst. exists []. split; [constructor | reflexivity]. }
    destruct (sweep_loop_run f (batches s1) n1 now s1) as (l2 & F2 & R2).
    unfold sweep in E2. rewrite E2 in R2. simpl in R2.
    exists (l1 ++ l2). split; [apply Forall_app; split; assumption|].
    rewrite run_app, <- R1. exact R2.
Qed.

(** * Theorem 3: supply moves only by attested deposits and attested executed batches *)
Lemma build_supply : forall f c k max now s s' out n,
  build f c k max now s = (s', out, n) -> supply s' = supply s.
Proof.
  intros f c k max now s s' out n H. unfold build in H.
  apply atomically_cases in H as [[-> H]|[-> ->]]; [|reflexivity].
  unfold build_raw in H. destruct (max <=? 0); [discriminate|].
  destruct (pick c k (Z.to_nat max) (pool s)) as [picked rest]. destruct picked.
  - inversion H; reflexivity.
  - destruct (f 0%nat); [discriminate|]. simpl in H. destruct (f 1%nat); [discriminate|].
    destruct (f 2%nat); [discriminate|]. inversion H; reflexivity.
Qed.

Lemma cancel_batch_supply : forall f k n s s' out m,
  cancel_batch f k n s = (s', out, m) -> supply s' = supply s.
Proof.
  intros f k n s s' out m H. unfold cancel_batch in H.
  apply atomically_cases in H as [[-> H]|[-> ->]]; [|reflexivity].
  unfold cancel_batch_raw in H. destruct (find_batch k n (batches s)); [|discriminate].
  simpl in H. destruct (f 0%nat); [discriminate|]. inversion H; reflexivity.
Qed.

Lemma create_loop_supply : forall f es n now s s' out m,
  create_loop f n es now s = (s', out, m) -> supply s' = supply s.
Proof.
  intros f es; induction es as [|[[c d] k0] r IH]; intros n now s s' out m H; simpl in H.
  - inversion H; reflexivity.
  - destruct (erc20_of (table s) c d) as [k|]; [|inversion H; reflexivity].
    destruct (build (shift f n) c k batch_size now s) as [[s1 o1] m1] eqn:EB.
    apply build_supply in EB. destruct o1.
    + apply IH in H. congruence.
    + inversion H; subst; exact EB.
Qed.

Lemma sweep_loop_supply : forall f bs n now s s' out m,
  sweep_loop f n bs now s = (s', out, m) -> supply s' = supply s.
Proof.
  intros f bs; induction bs as [|b r IH]; intros n now s s' out m H; simpl in H.
  - inversion H; reflexivity.
  - destruct (b_timeout b <? now); [|eapply IH; eauto].
    destruct (cancel_batch (shift f n) (b_contract b) (b_nonce b) s) as [[s1 o1] m1] eqn:EB.
    apply cancel_batch_supply in EB. destruct o1.
    + apply IH in H. congruence.
    + inversion H; subst; exact EB.
Qed.

Lemma create_batch_supply : forall f n h now s s' out m,
  create_batch f n h now s = (s', out, m) -> supply s' = supply s.
Proof.
  intros f n h now s s' out m H. unfold create_batch in H.
  destruct (h mod batch_period =? 0); [eapply create_loop_supply; eauto | inversion H; reflexivity].
Qed.

Lemma to_comm_supply : forall f idx d a s s' out m,
  to_comm f idx d a s = (s', out, m) -> out = Ok -> supply s' = supply s.
Proof.
  intros f idx d a s s' out m H O. unfold to_comm in H. destruct (f idx); inversion H; subst; [discriminate | reflexivity].
Qed.

Lemma step_supply : forall s o s' out d,
  Inv s -> step s o = (s', out) ->
  supply s' d - supply s d = dep_amount s o out d - exe_amount s o out d.
Proof.
  intros s o s' out d I H. unfold step in H. destruct (step3 s o) as [[s1 o1] n] eqn:E. simpl in H.
  inversion H; subst s1 o1; clear H.
  destruct o; simpl in E.
  - (* send *) apply atomically_cases in E as [[-> E]|[-> ->]]; [|simpl; lia].
    unfold send_raw in E. destruct ((a <=? 0) || (tax <? 0)); [discriminate|].
    destruct (erc20_of (table s) c d0); [|discriminate].
    destruct (f 0%nat || (bal s u d0 <? a + tax)); [discriminate|]. destruct (f 1%nat); [discriminate|].
    inversion E; subst. simpl. lia.
  - (* cancel *) apply atomically_cases in E as [[-> E]|[-> ->]]; [|simpl; lia].
    unfold cancel_raw in E. destruct (i <? 1); [discriminate|].
    destruct (find (fun t => t_id t =? i) (pool s)) as [t|]; [|discriminate].
    destruct (negb (t_sender t =? u)); [discriminate|].
    destruct (tx_denom (table s) t); [|discriminate]. simpl in E.
    destruct (f 0%nat || _); [discriminate|]. destruct (f 1%nat); [discriminate|].
    inversion E; subst. simpl. lia.
  - apply build_supply in E. rewrite E. destruct out; simpl; lia.
  - apply cancel_batch_supply in E. rewrite E. destruct out; simpl; lia.
  - (* set gas *) apply atomically_cases in E as [[-> E]|[-> ->]]; [|simpl; lia].
    unfold set_gas_raw in E. destruct (find_batch k n0 (batches s)) as [b|]; [|discriminate].
    destruct (0 <? b_gas b); [discriminate|]. destruct (f 0%nat); [discriminate|].
    inversion E; subst. simpl. lia.
  - (* executed *) apply atomically_cases in E as [[-> E]|[-> ->]]; [|simpl; lia].
    unfold executed_raw in E. simpl.
    destruct (find_batch k n0 (batches s)) as [b|] eqn:EF; [|discriminate].
    destruct (negb (b_chain b =? c)) eqn:EC; [discriminate|].
    destruct (b_timeout b <=? eth); [discriminate|].
    destruct (denom_of (table s) c k) as [d0|] eqn:ED; [|discriminate].
    destruct (f 0%nat || _); [discriminate|]. inversion E; subst s' n; clear E. simpl.
    pose proof (find_batch_some _ _ _ _ EF) as (Hin & Hk & Hn).
    apply negb_false_iff, Z.eqb_eq in EC.
    assert (HH : Forall (fun t => tx_denom (table s) t = Some d0) (b_txs b)).
    { pose proof (inv_homog _ I) as I2. rewrite Forall_forall in I2. specialize (I2 b Hin).
      eapply Forall_impl; [|exact I2]. intros t [A B]. unfold tx_denom. now rewrite A, B, EC, Hk. }
    rewrite (sum_for_homog _ d d0 _ HH). unfold upd. rewrite (Z.eqb_sym d0 d).
    destruct (d =? d0) eqn:X; [apply Z.eqb_eq in X; subst|]; lia.
  - (* deposit *) apply atomically_cases in E as [[-> E]|[-> ->]]; [|simpl; lia].
    unfold deposit_raw in E. simpl.
    destruct (denom_of (table s) c k) as [d0|]; [|discriminate].
    destruct (f 0%nat || (a <=? 0)); [discriminate|].
    assert (G : supply s' = upd (supply s) d0 (supply s d0 + a)).
    { destruct r as [u| |].
      - destruct (f 1%nat).
        + apply to_comm_supply in E; [|reflexivity]. exact E.
        + inversion E; reflexivity.
      - apply to_comm_supply in E; [|reflexivity]. exact E.
      - apply to_comm_supply in E; [|reflexivity]. exact E. }
    rewrite G. unfold upd. rewrite (Z.eqb_sym d0 d). destruct (d =? d0) eqn:X; [|lia].
    apply Z.eqb_eq in X; subst. lia.
  - apply create_batch_supply in E. rewrite E. destruct out; simpl; lia.
  - unfold sweep in E. apply sweep_loop_supply in E. rewrite E. destruct out; simpl; lia.
  - unfold end_block in E.
    destruct (create_batch f 0%nat h now s) as [[s1 o1] n1] eqn:E1.
    destruct (sweep f n1 now s1) as [[s2 o2] n2] eqn:E2. inversion E; subst.
    apply create_batch_supply in E1. unfold sweep in E2. apply sweep_loop_supply in E2.
    rewrite E2, E1. simpl; lia.
  - inversion E; subst. simpl. lia.
Qed.

Theorem supply_delta_only_attested_proof : forall tb b0 sup0 ops d,
  table_wf tb ->
  let s0 := init tb b0 sup0 in
  supply (run s0 ops) d - sup0 d = deposits_of s0 ops d - executed_of s0 ops d.
Proof.
  intros tb b0 sup0 ops d WF s0.
  assert (G : forall ops s, table_wf (table s) -> Inv s ->
            supply (run s ops) d - supply s d = deposits_of s ops d - executed_of s ops d).
  { clear. induction ops as [|o r IH]; intros s WF I; simpl; [lia|].
    destruct (step s o) as [s' out] eqn:E. simpl.
    pose proof (step_supply s o s' out d I E) as S1.
    destruct (step_inv s o WF I) as [I1 T1]. rewrite E in I1, T1. simpl in I1, T1.
    specialize (IH s'). rewrite T1 in IH. specialize (IH WF I1). lia. }
  specialize (G ops s0 WF (init_inv tb b0 sup0)). exact G.
Qed.

(** * Housekeeping moves no coins; the ghost fates grow only by cancel / executed *)
Definition frame (s s' : state) : Prop :=
  bal s' = bal s /\ escrow s' = escrow s /\ comm s' = comm s /\ supply s' = supply s /\
  refunded s' = refunded s /\ burned s' = burned s /\ last_tx s' = last_tx s.

Lemma frame_refl : forall s, frame s s.
Proof. intros; repeat split. Qed.
Lemma frame_trans : forall a b c, frame a b -> frame b c -> frame a c.
Proof. unfold frame; intros a b c (A1&A2&A3&A4&A5&A6&A7) (B1&B2&B3&B4&B5&B6&B7); repeat split; congruence. Qed.

Lemma build_frame : forall f c k max now s s' out n, build f c k max now s = (s', out, n) -> frame s s'.
Proof.
  intros f c k max now s s' out n H. unfold build in H.
  apply atomically_cases in H as [[-> H]|[-> ->]]; [|apply frame_refl].
  unfold build_raw in H. destruct (max <=? 0); [discriminate|].
  destruct (pick c k (Z.to_nat max) (pool s)) as [picked rest]. destruct picked.
  - inversion H; apply frame_refl.
  - destruct (f 0%nat); [discriminate|]. simpl in H. destruct (f 1%nat); [discriminate|].
    destruct (f 2%nat); [discriminate|]. inversion H; repeat split.
Qed.

Lemma cancel_batch_frame : forall f k n s s' out m, cancel_batch f k n s = (s', out, m) -> frame s s'.
Proof.
  intros f k n s s' out m H. unfold cancel_batch in H.
  apply atomically_cases in H as [[-> H]|[-> ->]]; [|apply frame_refl].
  unfold cancel_batch_raw in H. destruct (find_batch k n (batches s)); [|discriminate].
  simpl in H. destruct (f 0%nat); [discriminate|]. inversion H; repeat split.
Qed.

Lemma create_loop_frame : forall f es n now s s' out m, create_loop f n es now s = (s', out, m) -> frame s s'.
Proof.
  intros f es; induction es as [|[[c d] k0] r IH]; intros n now s s' out m H; simpl in H.
  - inversion H; apply frame_refl.
  - destruct (erc20_of (table s) c d) as [k|]; [|inversion H; apply frame_refl].
    destruct (build (shift f n) c k batch_size now s) as [[s1 o1] m1] eqn:EB.
    apply build_frame in EB. destruct o1.
    + apply IH in H. eapply frame_trans; eauto.
    + inversion H; subst; exact EB.
Qed.

Lemma sweep_loop_frame : forall f bs n now s s' out m, sweep_loop f n bs now s = (s', out, m) -> frame s s'.
Proof.
  intros f bs; induction bs as [|b r IH]; intros n now s s' out m H; simpl in H.
  - inversion H; apply frame_refl.
  - destruct (b_timeout b <? now); [|eapply IH; eauto].
    destruct (cancel_batch (shift f n) (b_contract b) (b_nonce b) s) as [[s1 o1] m1] eqn:EB.
    apply cancel_batch_frame in EB. destruct o1.
    + apply IH in H. eapply frame_trans; eauto.
    + inversion H; subst; exact EB.
Qed.

Definition moves_no_coins (o : op) : bool :=
  match o with
  | OBuild _ _ _ _ _ | OCancelBatch _ _ _ | OSetGas _ _ _ _ | OCreateBatch _ _ _ | OSweep _ _ | OEndBlock _ _ _ => true
  | _ => false
  end.

Theorem batching_moves_no_coins_proof : forall s o,
  moves_no_coins o = true -> frame s (fst (step s o)).
Proof.
  intros s o M. unfold step. destruct (step3 s o) as [[s' out] n] eqn:E. simpl.
  destruct o; simpl in M; try discriminate; simpl in E.
  - eapply build_frame; eauto.
  - eapply cancel_batch_frame; eauto.
  - apply atomically_cases in E as [[-> E]|[-> ->]]; [|apply frame_refl].
    unfold set_gas_raw in E. destruct (find_batch k n0 (batches s)) as [b|]; [|discriminate].
    destruct (0 <? b_gas b); [discriminate|]. destruct (f 0%nat); [discriminate|].
    inversion E; repeat split.
  - unfold create_batch in E. destruct (h mod batch_period =? 0).
    + eapply create_loop_frame; eauto.
    + inversion E; apply frame_refl.
  - unfold sweep in E. eapply sweep_loop_frame; eauto.
  - unfold end_block in E.
    destruct (create_batch f 0%nat h now s) as [[s1 o1] n1] eqn:E1.
    destruct (sweep f n1 now s1) as [[s2 o2] n2] eqn:E2. inversion E; subst.
    eapply frame_trans.
    + unfold create_batch in E1. destruct (h mod batch_period =? 0).
      * eapply create_loop_frame; eauto.
      * inversion E1; apply frame_refl.
    + unfold sweep in E2. eapply sweep_loop_frame; eauto.
Qed.

(** a successful send locks amount+tax and puts the transfer, with the next id, in the pool *)
Theorem send_ok_locks_and_pools_proof : forall s u c d a tax f s',
  step s (OSend u c d a tax f) = (s', Ok) ->
  exists k, erc20_of (table s) c d = Some k /\
    last_tx s' = last_tx s + 1 /\
    pool s' = pool_insert (mkT (last_tx s + 1) u c k a tax) (pool s) /\
    bal s' u d = bal s u d - (a + tax) /\ escrow s' d = escrow s d + (a + tax) /\
    batches s' = batches s /\ supply s' = supply s.
Proof.
  intros s u c d a tax f s' H. unfold step in H. simpl in H.
  destruct (atomically s (send_raw f u c d a tax s)) as [[s1 o1] n] eqn:E. simpl in H.
  inversion H; subst s1 o1; clear H.
  apply atomically_cases in E as [[_ E]|[X _]]; [|discriminate].
  unfold send_raw in E. destruct ((a <=? 0) || (tax <? 0)); [discriminate|].
  destruct (erc20_of (table s) c d) as [k|]; [|discriminate].
  destruct (f 0%nat || (bal s u d <? a + tax)); [discriminate|]. destruct (f 1%nat); [discriminate|].
  inversion E; subst s' n; clear E. exists k. simpl. unfold upd2, upd. rewrite !Z.eqb_refl. simpl.
  repeat split.
Qed.

(** a successful cancel refunds amount+tax, in full, to the sender, out of the escrow *)
Theorem cancel_ok_refunds_in_full_proof : forall s u i f s',
  step s (OCancel u i f) = (s', Ok) ->
  exists t d, In t (pool s) /\ t_id t = i /\ t_sender t = u /\ tx_denom (table s) t = Some d /\
    bal s' u d = bal s u d + owed t /\ escrow s' d = escrow s d - owed t /\
    refunded s' = i :: refunded s /\ burned s' = burned s /\ supply s' = supply s /\
    pool s' = remove_first (fun t => t_id t =? i) (pool s) /\ batches s' = batches s.
Proof.
  intros s u i f s' H. unfold step in H. simpl in H.
  destruct (atomically s (cancel_raw f u i s)) as [[s1 o1] n] eqn:E. simpl in H.
  inversion H; subst s1 o1; clear H.
  apply atomically_cases in E as [[_ E]|[X _]]; [|discriminate].
  unfold cancel_raw in E. destruct (i <? 1); [discriminate|].
  destruct (find (fun t => t_id t =? i) (pool s)) as [t|] eqn:EF; [|discriminate].
  destruct (negb (t_sender t =? u)) eqn:ES; [discriminate|].
  destruct (tx_denom (table s) t) as [d|] eqn:ED; [|discriminate]. simpl in E.
  destruct (f 0%nat || _); [discriminate|]. destruct (f 1%nat); [discriminate|].
  inversion E; subst s' n; clear E. exists t, d. simpl.
  apply negb_false_iff, Z.eqb_eq in ES. pose proof (find_id_some _ _ _ EF). apply find_some in EF as [EF _].
  unfold upd2, upd. rewrite !Z.eqb_refl. simpl. repeat split; auto.
Qed.

(** a successful executed-batch attestation burns exactly the batch's amount+tax and marks its
    transfers burned *)
Theorem executed_ok_burns_batch_proof : forall s c k n eth f s',
  step s (OExecuted c k n eth f) = (s', Ok) ->
  exists b d, find_batch k n (batches s) = Some b /\ b_chain b = c /\ denom_of (table s) c k = Some d /\
    escrow s' d = escrow s d - total_owed (b_txs b) /\ supply s' d = supply s d - total_owed (b_txs b) /\
    burned s' = map t_id (b_txs b) ++ burned s /\ refunded s' = refunded s /\
    batches s' = remove_first (is_batch k n) (batches s) /\ pool s' = pool s /\ bal s' = bal s.
Proof.
  intros s c k n eth f s' H. unfold step in H. simpl in H.
  destruct (atomically s (executed_raw f c k n eth s)) as [[s1 o1] m] eqn:E. simpl in H.
  inversion H; subst s1 o1; clear H.
  apply atomically_cases in E as [[_ E]|[X _]]; [|discriminate].
  unfold executed_raw in E.
  destruct (find_batch k n (batches s)) as [b|] eqn:EF; [|discriminate].
  destruct (negb (b_chain b =? c)) eqn:EC; [discriminate|].
  destruct (b_timeout b <=? eth); [discriminate|].
  destruct (denom_of (table s) c k) as [d|] eqn:ED; [|discriminate].
  destruct (f 0%nat || _); [discriminate|]. inversion E; subst s' m; clear E.
  apply negb_false_iff, Z.eqb_eq in EC. exists b, d. simpl. unfold upd. rewrite !Z.eqb_refl.
  repeat split; auto.
Qed.

(** the ghost fates change only through those two operations *)
Lemma to_comm_fates : forall f idx d a s s' out m,
  to_comm f idx d a s = (s', out, m) -> refunded s' = refunded s /\ burned s' = burned s.
Proof.
  intros f idx d a s s' out m H. unfold to_comm in H. destruct (f idx); inversion H; subst; split; reflexivity.
Qed.

Theorem fates_only_by_cancel_and_executed_proof : forall s o s' out,
  step s o = (s', out) ->
  (refunded s' = refunded s \/ exists u i f, o = OCancel u i f /\ out = Ok /\ refunded s' = i :: refunded s) /\
  (burned s' = burned s \/ exists c k n eth f b, o = OExecuted c k n eth f /\ out = Ok /\
      find_batch k n (batches s) = Some b /\ burned s' = map t_id (b_txs b) ++ burned s).
Proof.
  intros s o s' out H.
  destruct (moves_no_coins o) eqn:M.
  { pose proof (batching_moves_no_coins_proof s o M) as F. rewrite H in F. simpl in F.
    destruct F as (_&_&_&_&F5&F6&_). auto. }
  destruct out.
  2:{ apply failed_op_is_noop_proof in H; [subst; auto|]. destruct o; try discriminate; reflexivity. }
  destruct o; simpl in M; try discriminate.
  - apply send_ok_locks_and_pools_proof in H as H'. clear H'.
    unfold step in H; simpl in H.
    destruct (atomically s (send_raw f u c d a tax s)) as [[s1 o1] n] eqn:E. simpl in H.
    inversion H; subst s1 o1; clear H.
    apply atomically_cases in E as [[_ E]|[X _]]; [|discriminate].
    unfold send_raw in E. destruct ((a <=? 0) || (tax <? 0)); [discriminate|].
    destruct (erc20_of (table s) c d) as [k|]; [|discriminate].
    destruct (f 0%nat || _); [discriminate|]. destruct (f 1%nat); [discriminate|].
    inversion E; subst; simpl; auto.
  - apply cancel_ok_refunds_in_full_proof in H as (t & d & _ & _ & _ & _ & _ & _ & R & B & _).
    split; [right; exists u, i, f; auto | left; exact B].
  - apply executed_ok_burns_batch_proof in H as (b & d & EF & _ & _ & _ & _ & B & R & _).
    split; [left; exact R | right; exists c, k, n, eth, f, b; auto].
  - unfold step in H; simpl in H.
    destruct (atomically s (deposit_raw f c k r a s)) as [[s1 o1] n] eqn:E. simpl in H.
    inversion H; subst s1 o1; clear H.
    apply atomically_cases in E as [[_ E]|[X _]]; [|discriminate].
    unfold deposit_raw in E. destruct (denom_of (table s) c k) as [d|]; [|discriminate].
    destruct (f 0%nat || (a <=? 0)); [discriminate|].
    destruct r as [u| |].
    + destruct (f 1%nat).
      * apply to_comm_fates in E as [A B]. simpl in A, B. auto.
      * inversion E; subst; simpl; auto.
    + apply to_comm_fates in E as [A B]. simpl in A, B. auto.
    + apply to_comm_fates in E as [A B]. simpl in A, B. auto.
  - unfold step in H; simpl in H. inversion H; subst; auto.
Qed.

(** an accepted transfer stays accepted: ids are never reused *)
Theorem last_tx_monotone_proof : forall s o, last_tx s <= last_tx (fst (step s o)).
Proof.
  intros s o. destruct (moves_no_coins o) eqn:M.
  { pose proof (batching_moves_no_coins_proof s o M) as (_&_&_&_&_&_&F). lia. }
  destruct (step s o) as [s' out] eqn:H. simpl.
  destruct out.
  2:{ apply failed_op_is_noop_proof in H; [subst; lia|]. destruct o; try discriminate; reflexivity. }
  destruct o; simpl in M; try discriminate.
  - apply send_ok_locks_and_pools_proof in H as (k & _ & L & _). lia.
  - unfold step in H; simpl in H.
    destruct (atomically s (cancel_raw f u i s)) as [[s1 o1] n] eqn:E. simpl in H.
    inversion H; subst s1 o1; clear H.
    apply atomically_cases in E as [[_ E]|[X _]]; [|discriminate].
    unfold cancel_raw in E. destruct (i <? 1); [discriminate|].
    destruct (find (fun t => t_id t =? i) (pool s)) as [t|]; [|discriminate].
    destruct (negb (t_sender t =? u)); [discriminate|].
    destruct (tx_denom (table s) t); [|discriminate]. simpl in E.
    destruct (f 0%nat || _); [discriminate|]. destruct (f 1%nat); [discriminate|].
    inversion E; subst; simpl; lia.
  - unfold step in H; simpl in H.
    destruct (atomically s (executed_raw f c k n eth s)) as [[s1 o1] m] eqn:E. simpl in H.
    inversion H; subst s1 o1; clear H.
    apply atomically_cases in E as [[_ E]|[X _]]; [|discriminate].
    unfold executed_raw in E. destruct (find_batch k n (batches s)) as [b|]; [|discriminate].
    destruct (negb (b_chain b =? c)); [discriminate|]. destruct (b_timeout b <=? eth); [discriminate|].
    destruct (denom_of (table s) c k); [|discriminate]. destruct (f 0%nat || _); [discriminate|].
    inversion E; subst; simpl; lia.
  - unfold step in H; simpl in H.
    destruct (atomically s (deposit_raw f c k r a s)) as [[s1 o1] n] eqn:E. simpl in H.
    inversion H; subst s1 o1; clear H.
    apply atomically_cases in E as [[_ E]|[X _]]; [|discriminate].
    unfold deposit_raw in E. destruct (denom_of (table s) c k) as [d|]; [|discriminate].
    destruct (f 0%nat || (a <=? 0)); [discriminate|].
    assert (G : forall idx s2 s3 o3 m3, to_comm f idx d a s2 = (s3, o3, m3) -> last_tx s3 = last_tx s2).
    { intros idx s2 s3 o3 m3 X. unfold to_comm in X. destruct (f idx); inversion X; reflexivity. }
    destruct r as [u| |].
    + destruct (f 1%nat).
      * apply G in E. simpl in E. lia.
      * inversion E; subst; simpl; lia.
    + apply G in E. simpl in E. lia.
    + apply G in E. simpl in E. lia.
  - unfold step in H; simpl in H. inversion H; subst; lia.
Qed.

(** * What a pending transfer owes is fixed when it is sent *)
(** No operation rewrites a pending transfer record: every record pending after a step was pending
    before it, or is the one a successful send has just created from its inputs (amount and the
    tax charged at send time).  Together with [cancel_ok_refunds_in_full] / [executed_ok_burns_batch]
    (refund and burn use [owed t] of the stored record): governance changes of the tax settings
    between send and cancel / execution cannot change what is refunded or burned. *)
Lemma build_pending : forall f c k max now s s' out n,
  build f c k max now s = (s', out, n) -> Permutation (pending s') (pending s).
Proof.
  intros f c k max now s s' out n H. unfold build in H.
  apply atomically_cases in H as [[-> H]|[-> ->]]; [|reflexivity].
  unfold build_raw in H. destruct (max <=? 0); [discriminate|].
  destruct (pick c k (Z.to_nat max) (pool s)) as [picked rest] eqn:EP. destruct picked as [|t0 pk].
  - inversion H; reflexivity.
  - destruct (f 0%nat); [discriminate|]. simpl in H. destruct (f 1%nat); [discriminate|].
    destruct (f 2%nat); [discriminate|]. inversion H; subst s' n; clear H.
    pose proof (pick_perm _ _ _ _ _ _ EP) as HP.
    unfold pending; simpl.
    rewrite (flat_map_perm _ _ b_txs _ _ (batch_insert_perm _ _)). simpl.
    rewrite <- HP. change (t0 :: pk ++ flat_map b_txs (batches s)) with ((t0 :: pk) ++ flat_map b_txs (batches s)).
    rewrite app_assoc. apply Permutation_app_tail. apply Permutation_app_comm.
Qed.

Lemma cancel_batch_pending : forall f k n s s' out m,
  cancel_batch f k n s = (s', out, m) -> Permutation (pending s') (pending s).
Proof.
  intros f k n s s' out m H. unfold cancel_batch in H.
  apply atomically_cases in H as [[-> H]|[-> ->]]; [|reflexivity].
  unfold cancel_batch_raw in H.
  destruct (find_batch k n (batches s)) as [b|] eqn:EF; [|discriminate]. simpl in H.
  destruct (f 0%nat); [discriminate|]. inversion H; subst s' m; clear H.
  pose proof (find_remove_first_perm _ _ _ _ EF) as HP.
  unfold pending; simpl. rewrite pool_insert_all_perm.
  rewrite (flat_map_perm _ _ b_txs _ _ HP). simpl.
  rewrite <- !app_assoc. rewrite (app_assoc (b_txs b)). rewrite (app_assoc (pool s)).
  apply Permutation_app_tail. apply Permutation_app_comm.
Qed.

Lemma create_loop_pending : forall f es n now s s' out m,
  create_loop f n es now s = (s', out, m) -> Permutation (pending s') (pending s).
Proof.
  intros f es; induction es as [|[[c d] k0] r IH]; intros n now s s' out m H; simpl in H.
  - inversion H; reflexivity.
  - destruct (erc20_of (table s) c d) as [k|]; [|inversion H; reflexivity].
    destruct (build (shift f n) c k batch_size now s) as [[s1 o1] m1] eqn:EB.
    apply build_pending in EB. destruct o1.
    + apply IH in H. etransitivity; eauto.
    + inversion H; subst; exact EB.
Qed.

Lemma sweep_loop_pending : forall f bs n now s s' out m,
  sweep_loop f n bs now s = (s', out, m) -> Permutation (pending s') (pending s).
Proof.
  intros f bs; induction bs as [|b r IH]; intros n now s s' out m H; simpl in H.
  - inversion H; reflexivity.
  - destruct (b_timeout b <? now); [|eapply IH; eauto].
    destruct (cancel_batch (shift f n) (b_contract b) (b_nonce b) s) as [[s1 o1] m1] eqn:EB.
    apply cancel_batch_pending in EB. destruct o1.
    + apply IH in H. etransitivity; eauto.
    + inversion H; subst; exact EB.
Qed.

Lemma create_batch_pending : forall f n h now s s' out m,
  create_batch f n h now s = (s', out, m) -> Permutation (pending s') (pending s).
Proof.
  intros f n h now s s' out m H. unfold create_batch in H.
  destruct (h mod batch_period =? 0); [eapply create_loop_pending; eauto | inversion H; reflexivity].
Qed.

Lemma to_comm_pending : forall f idx d a s s' out m,
  to_comm f idx d a s = (s', out, m) -> pending s' = pending s.
Proof.
  intros f idx d a s s' out m H. unfold to_comm in H. destruct (f idx); inversion H; reflexivity.
Qed.

Theorem pending_records_immutable_proof : forall s o s' out t,
  step s o = (s', out) -> In t (pending s') ->
  In t (pending s) \/
  exists u c d a tax f k, o = OSend u c d a tax f /\ out = Ok /\ erc20_of (table s) c d = Some k /\
                          t = mkT (last_tx s + 1) u c k a tax.
Proof.
  intros s o s' out t H HI. unfold step in H. destruct (step3 s o) as [[s1 o1] n] eqn:E. simpl in H.
  inversion H; subst s1 o1; clear H.
  destruct o; simpl in E.
  - (* send *) apply atomically_cases in E as [[-> E]|[-> ->]]; [|now left].
    unfold send_raw in E. destruct ((a <=? 0) || (tax <? 0)); [discriminate|].
    destruct (erc20_of (table s) c d) as [k|] eqn:EK; [|discriminate].
    destruct (f 0%nat || _); [discriminate|]. destruct (f 1%nat); [discriminate|].
    inversion E; subst s' n; clear E. unfold pending in HI; simpl in HI.
    apply in_app_or in HI as [HI|HI].
    + apply (Permutation_in _ (pool_insert_perm _ _)) in HI. destruct HI as [HI|HI].
      * right. exists u, c, d, a, tax, f, k. repeat split; auto.
      * left. unfold pending. apply in_or_app. now left.
    + left. unfold pending. apply in_or_app. now right.
  - (* cancel *) left. apply atomically_cases in E as [[-> E]|[-> ->]]; [|exact HI].
    unfold cancel_raw in E. destruct (i <? 1); [discriminate|].
    destruct (find (fun t => t_id t =? i) (pool s)) as [t0|] eqn:EF; [|discriminate].
    destruct (negb (t_sender t0 =? u)); [discriminate|].
    destruct (tx_denom (table s) t0); [|discriminate]. simpl in E.
    destruct (f 0%nat || _); [discriminate|]. destruct (f 1%nat); [discriminate|].
    inversion E; subst s' n; clear E. unfold pending in *; simpl in HI.
    pose proof (find_remove_first_perm _ _ _ _ EF) as HP.
    apply in_app_or in HI as [HI|HI]; apply in_or_app; [left|now right].
    apply (Permutation_in _ (Permutation_sym HP)). now right.
  - left. apply build_pending in E. eapply Permutation_in; eauto.
  - left. apply cancel_batch_pending in E. eapply Permutation_in; eauto.
  - (* set gas *) left. apply atomically_cases in E as [[-> E]|[-> ->]]; [|exact HI].
    unfold set_gas_raw in E. destruct (find_batch k n0 (batches s)) as [b|]; [|discriminate].
    destruct (0 <? b_gas b); [discriminate|]. destruct (f 0%nat); [discriminate|].
    inversion E; subst s' n; clear E. unfold pending in *; simpl in HI.
    now rewrite flat_map_set_gas in HI.
  - (* executed *) left. apply atomically_cases in E as [[-> E]|[-> ->]]; [|exact HI].
    unfold executed_raw in E. destruct (find_batch k n0 (batches s)) as [b|] eqn:EF; [|discriminate].
    destruct (negb (b_chain b =? c)); [discriminate|]. destruct (b_timeout b <=? eth); [discriminate|].
    destruct (denom_of (table s) c k); [|discriminate]. destruct (f 0%nat || _); [discriminate|].
    inversion E; subst s' n; clear E. unfold pending in *; simpl in HI.
    pose proof (find_remove_first_perm _ _ _ _ EF) as HP.
    apply in_app_or in HI as [HI|HI]; apply in_or_app; [now left | right].
    apply (Permutation_in _ (Permutation_sym (flat_map_perm _ _ b_txs _ _ HP))). simpl.
    apply in_or_app. now right.
  - (* deposit *) left. apply atomically_cases in E as [[-> E]|[-> ->]]; [|exact HI].
    unfold deposit_raw in E. destruct (denom_of (table s) c k) as [d|]; [|discriminate].
    destruct (f 0%nat || (a <=? 0)); [discriminate|].
    destruct r as [u| |].
    + destruct (f 1%nat).
      * apply to_comm_pending in E. rewrite E in HI. exact HI.
      * inversion E; subst. exact HI.
    + apply to_comm_pending in E. rewrite E in HI. exact HI.
    + apply to_comm_pending in E. rewrite E in HI. exact HI.
  - left. apply create_batch_pending in E. eapply Permutation_in; eauto.
  - left. unfold sweep in E. apply sweep_loop_pending in E. eapply Permutation_in; eauto.
  - left. unfold end_block in E.
    destruct (create_batch f 0%nat h now s) as [[s1 o1] n1] eqn:E1.
    destruct (sweep f n1 now s1) as [[s2 o2] n2] eqn:E2. inversion E; subst.
    apply create_batch_pending in E1. unfold sweep in E2. apply sweep_loop_pending in E2.
    eapply Permutation_in; [|exact HI]. etransitivity; eauto.
  - left. inversion E; subst. exact HI.
Qed.

(** * The model is the model of the code that is there now (translator facts) *)
From Coq Require Import String.
Local Open Scope string_scope.
Lemma code_shape_proof :
  cached_context_fns = ["BuildOutgoingTXBatch"; "CancelOutgoingTXBatch"; "OutgoingTxBatchExecuted"; "UpdateBatchGasEstimate"; "processAttestation"]
  /\ order_AddToOutgoingPool = ["GetERC20OfDenom"; "SendCoinsFromAccountToModule"; "autoIncrementID"; "addUnbatchedTX"; "GetChainInfo"]
  /\ order_RemoveFromOutgoingPoolAndRefund = ["GetUnbatchedTxById"; "removeUnbatchedTX"; "GetDenomOfERC20"; "SendCoinsFromModuleToAccount"; "GetChainInfo"]
  /\ order_BuildOutgoingTXBatch = ["pickUnbatchedTxs"; "GetChainInfo"; "autoIncrementID"; "PickValidatorForMessage"; "GetEthAddressByValidator"; "StoreBatch"]
  /\ order_CancelOutgoingTXBatch = ["GetOutgoingTXBatch"; "addUnbatchedTX"; "DeleteBatch"; "GetChainInfo"]
  /\ order_OutgoingTxBatchExecuted = ["GetOutgoingTXBatch"; "GetDenomOfERC20"; "BurnCoins"; "DeleteBatch"]
  /\ order_handleSendToPaloma = ["GetDenomOfERC20"; "MintCoins"; "sendCoinToLocalAddress"; "SendToCommunityPool"]
  /\ order_EndBlocker = ["createBatch"; "attestationTally"; "pruneAttestations"; "processGasEstimates"; "cleanupTimedOutBatches"]
  /\ pick_filters_chain = true /\ executed_checks_chain = true /\ executed_checks_timeout = true
  /\ deposit_fallback_on_send_error = true /\ sweep_cancels_when_timeout_lt_now = true
  /\ batch_size = 100 /\ batch_period = 50 /\ batch_timeout_secs = 600.
Proof. repeat split; reflexivity. Qed.
